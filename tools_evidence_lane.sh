#!/bin/bash
# usage: tools_evidence_lane.sh <tag> <ID>...   runs the registered quick command of each check in /verif (no suffix: rewrites evidence/<ID>.json)
tag=$1; shift
mkdir -p /verif/out/runs
for id in "$@"; do
  (cd /verif && ./vcheck $id --tier quick > /verif/out/runs/ev_${id}.log 2>&1; echo "EV $id rc=$? $(grep -E '^(OK|VIOLATION|INCONCLUSIVE)' /verif/out/runs/ev_${id}.log | head -2 | tr '\n' ' ')" >> /verif/out/runs/summary_ev_$tag.txt)
done
