#!/usr/bin/env python3
"""Collects MATRIX lines from /tmp/matrix_*.log (+ manual notes) into seeded/*/meta.json and the table in DESIGN.md §11."""
import glob, json, os, re
rows = {}
for f in sorted(glob.glob('/tmp/matrix_*.log') + glob.glob('/verif/out/matrix/*.log')):
    for l in open(f):
        m = re.match(r"MATRIX (\S+) (\S+) rc=(\d+)\s*(.*)", l)
        if m:
            rows.setdefault(m.group(1), {})[m.group(2)] = (int(m.group(3)), m.group(4).strip().replace('key=', ''))
notes = json.load(open('/verif/seeded/followups.json')) if os.path.exists('/verif/seeded/followups.json') else {}
tbl = ["| seeded change | property | caught by (quick tier, key of the first violation) | remarks |", "|---|---|---|---|"]
for sid in sorted(glob.glob('/verif/seeded/c*_*')):
    sid = os.path.basename(sid)
    mp = f'/verif/seeded/{sid}/meta.json'
    m = json.load(open(mp))
    prop = 'C' + sid[1:3]
    m['property'] = prop
    res = {c: (v['exit'], v['key']) for c, v in (m.get('checks_run_by_main') or {}).items()}
    res.update(rows.get(sid, {}))   # keep what earlier sessions recorded; new log lines win
    m['checks_run_by_main'] = {c: {'exit': rc, 'key': k} for c, (rc, k) in res.items()}
    if sid in notes:
        m['followup'] = notes[sid]
    m['how_run'] = ("VERIF_MUTATION=/verif/seeded/%s/patch.diff ./vcheck <ID> --tier quick (patch compiled in through go test -overlay; "
                    "/repo itself untouched because builder agents were using it concurrently)" % sid)
    json.dump(m, open(mp, 'w'), indent=1)
    caught = [f"{c} `{k}`" for c, (rc, k) in sorted(res.items()) if rc == 1]
    missed = [c for c, (rc, k) in sorted(res.items()) if rc == 0]
    incon = [c for c, (rc, k) in sorted(res.items()) if rc == 2]
    rem = []
    if missed: rem.append("first run missed by " + ", ".join(missed))
    if incon: rem.append("inconclusive (exit 2) in " + ", ".join(incon))
    if sid in notes: rem.append(notes[sid])
    summ = (m.get('summary') or '')[:150].replace('|', '/').replace('\n', ' ')
    tbl.append(f"| `seeded/{sid}` ({', '.join(m.get('files_changed', [])[:2])}) — {summ}… | {prop} | {'; '.join(caught) or '—'} | {'; '.join(rem) or ''} |")
s = open('/verif/DESIGN.md').read()
a = s.index('## 11. Record of mutation controls')
head_end = s.index('| F7 (unrepaired tree)')
head_end = s.index('\n', head_end) + 1
s = s[:head_end] + "\n**Independently seeded changes** (written by sub-agents that saw only the property text and a scratch worktree; each confirmed by me: demo fails with the patch, passes without):\n\n" + '\n'.join(tbl) + '\n'
open('/verif/DESIGN.md', 'w').write(s)
print(len(tbl) - 2, "seeded rows")
