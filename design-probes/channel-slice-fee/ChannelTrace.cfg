SPECIFICATION TSpec
CONSTANTS
  Fused = TRUE
  MaxAdds = 1000000
  MaxHeight = 1000000
  MaxDisc = 1000000
  Amts = {1, 2}
  Cap = 40
  Rates = {2, 3}
  MaxFees = 1000000
  Opener = "A"
  F6Quirk = TRUE
  F7Quirk = TRUE
INVARIANTS ErrAgree ConformCounters ConformNet ConformChains ConformLogs ConformShadow
CHECK_DEADLOCK TRUE
