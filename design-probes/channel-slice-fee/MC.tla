---- MODULE MC ----
EXTENDS Channel
====
