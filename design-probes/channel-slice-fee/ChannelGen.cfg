SPECIFICATION GSpec
CONSTANTS
  Fused = TRUE
  MaxAdds = 3
  MaxHeight = 10
  MaxDisc = 3
  Amts = {1, 2}
  Cap = 40
  Rates = {2, 3}
  MaxFees = 4
  Opener = "A"
  F6Quirk = TRUE
  F7Quirk = TRUE
  MaxLen = 150
INVARIANTS Dump
CHECK_DEADLOCK FALSE
