---------------------------- MODULE ChannelTrace ----------------------------
EXTENDS Channel, Json
VARIABLE l

Trace == ndJsonDeserialize("trace.ndjson")

JSet(s) == {s[i] : i \in 1..Len(s)}
PC(c) == [h |-> c.h, ob |-> c.ob, tb |-> c.tb, fee |-> c.fee,
          outs |-> {<<x.hi, x.amt>> : x \in c.outs}, ins |-> {<<x.hi, x.amt>> : x \in c.ins}]
JC(j) == [h |-> j.h, ob |-> j.ob, tb |-> j.tb, fee |-> j.fee, outs |-> JSet(j.outs), ins |-> JSet(j.ins)]
PChain(ch) == [i \in 1..Len(ch) |-> PC(ch[i])]
JChain(j) == [i \in 1..Len(j) |-> JC(j[i])]
PLog(lg) == [i \in 1..Len(lg) |->
               [t |-> lg[i].t, li |-> lg[i].li, hi |-> lg[i].hi, amt |-> lg[i].amt,
                aL |-> lg[i].aL, aR |-> lg[i].aR, rL |-> lg[i].rL, rR |-> lg[i].rR]]
JLog(j) == [i \in 1..Len(j) |->
               [t |-> j[i].t, li |-> j[i].li, hi |-> j[i].hi, amt |-> j[i].amt,
                aL |-> j[i].aL, aR |-> j[i].aR, rL |-> j[i].rL, rR |-> j[i].rR]]

MatchCounters(p, j) == /\ Lidx[p] = j.lidx /\ Lhtlc[p] = j.lhtlc
                       /\ Ridx[p] = j.ridx /\ Rhtlc[p] = j.rhtlc
MatchChains(p, j) == /\ PChain(LC[p]) = JChain(j.LC) /\ PChain(RC[p]) = JChain(j.RC)
MatchLogs(p, j) == /\ PLog(L[p]) = JLog(j.L) /\ PLog(R[p]) = JLog(j.R)
MatchNet(p, j) == [i \in 1..Len(net[p]) |-> net[p][i].k] = [i \in 1..Len(j.net) |-> j.net[i]]

\* the line consumed last
Last == Trace[l - 1]
ConformCounters == (l > 1 /\ Last.a # "Reset" /\ Last.err = "") => \A p \in Party : MatchCounters(p, Last.st[p])
ConformChains   == (l > 1 /\ Last.a # "Reset" /\ Last.err = "") => \A p \in Party : MatchChains(p, Last.st[p])
ConformLogs     == (l > 1 /\ Last.a # "Reset" /\ Last.err = "") => \A p \in Party : MatchLogs(p, Last.st[p])
ConformNet      == (l > 1 /\ Last.a # "Reset" /\ Last.err = "") => \A p \in Party : MatchNet(p, Last.st[p])
ErrAgree        == (l > 1 /\ Last.a # "Reset") => ((Last.err = "") <=> (bad = "none"))

\* C02: what a reload from disk yields after *every* step equals the model's Restored(p)
MatchShadow(p, j) ==
  LET r == Restored(p) IN
  /\ r.Lidx = j.lidx /\ r.Lhtlc = j.lhtlc /\ r.Ridx = j.ridx /\ r.Rhtlc = j.rhtlc
  /\ PChain(r.LC) = JChain(j.LC) /\ PChain(r.RC) = JChain(j.RC)
  /\ PLog(r.L) = JLog(j.L) /\ PLog(r.R) = JLog(j.R)
ConformShadow == (l > 1 /\ Last.a # "Reset" /\ Last.err = "") => \A p \in Party : MatchShadow(p, Last.sh[p])

TInit == Init /\ l = 1

Is(a) == l <= Len(Trace) /\ Trace[l].a = a /\ l' = l + 1
P == Trace[l].p
K == IF Trace[l].y = 1 THEN "settle" ELSE "fail"

Reset ==
  /\ Is("Reset")
  /\ L' = [p \in Party |-> <<>>] /\ R' = [p \in Party |-> <<>>]
  /\ Lidx' = [p \in Party |-> 0] /\ Lhtlc' = [p \in Party |-> 0]
  /\ Ridx' = [p \in Party |-> 0] /\ Rhtlc' = [p \in Party |-> 0]
  /\ Lmod' = [p \in Party |-> {}] /\ Rmod' = [p \in Party |-> {}]
  /\ LC' = [p \in Party |-> <<InitCommit>>] /\ RC' = [p \in Party |-> <<InitCommit>>]
  /\ disk' = [p \in Party |-> InitDisk]
  /\ net' = [p \in Party |-> <<>>]
  /\ phase' = [p \in Party |-> "run"]
  /\ nadds' = [p \in Party |-> 0] /\ ndisc' = 0
  /\ released' = [p \in Party |-> {}]
  /\ nfees' = 0
  /\ bad' = "none"

TNext ==
  \/ Is("Add") /\ Add(P, Trace[l].x)
  \/ Is("Resolve") /\ Resolve(P, K, Trace[l].x)
  \/ Is("Sign") /\ Sign(P)
  \/ Is("Revoke") /\ Revoke(P)
  \/ Is("RecvAdd") /\ RecvAdd(P)
  \/ Is("RecvRes") /\ RecvRes(P)
  \/ Is("RecvSig") /\ RecvSig(P)
  \/ Is("RecvRev") /\ RecvRev(P)
  \/ Is("SendReest") /\ SendReest(P)
  \/ Is("RecvReest") /\ RecvReest(P)
  \/ Is("Disconnect") /\ Disconnect
  \/ Is("UpdateFee") /\ UpdateFee(P, Trace[l].x)
  \/ Is("RecvFee") /\ RecvFee(P)
  \/ Reset
  \/ (l = Len(Trace) + 1 /\ UNCHANGED <<vars, l>>)

TSpec == TInit /\ [][TNext]_<<vars, l>>
=============================================================================
