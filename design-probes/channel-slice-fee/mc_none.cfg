SPECIFICATION Spec
CONSTANTS
  Fused = TRUE
  MaxAdds = 0
  MaxHeight = 4
  MaxDisc = 1
  Amts = {1}
  Cap = 10
  Rates = {2, 3}
  MaxFees = 2
  Opener = "A"
  F6Quirk = FALSE
  F7Quirk = FALSE
INVARIANTS NoError Conservation NeverBroadcastRevoked Mirror
CHECK_DEADLOCK FALSE
