SPECIFICATION GSpec
CONSTANTS
  Fused = TRUE
  MaxAdds = 2
  MaxHeight = 6
  MaxDisc = 2
  Amts = {1, 2}
  Cap = 10
  MaxLen = 60
INVARIANTS Dump NoError
CHECK_DEADLOCK FALSE
