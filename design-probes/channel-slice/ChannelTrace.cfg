SPECIFICATION TSpec
CONSTANTS
  Fused = TRUE
  MaxAdds = 1000000
  MaxHeight = 1000000
  MaxDisc = 1000000
  Amts = {1, 2}
  Cap = 10
INVARIANTS NoRealError NoError ConformCounters ConformNet ConformChains ConformLogs
CHECK_DEADLOCK TRUE
