SPECIFICATION TSpec
CONSTANTS
  Fused = FALSE
  MaxAdds = 1000000
  MaxHeight = 1000000
  MaxDisc = 1000000
  Amts = {1, 2}
  Cap = 40
INVARIANTS ErrAgree ConformCounters ConformNet ConformChains ConformLogs
CHECK_DEADLOCK TRUE
