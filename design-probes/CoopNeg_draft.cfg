SPECIFICATION Spec
CONSTANTS
  Lo = 100
  Hi = 900
  Step = 1
  MaxRounds = 40
INVARIANTS Bounded NoAbort Agree NoStall
CHECK_DEADLOCK FALSE
