SPECIFICATION Spec
CONSTANTS
  Fused = TRUE
  MaxAdds = 1
  MaxHeight = 3
  MaxDisc = 0
  Amts = {1}
  Cap = 10
INVARIANTS NoError Conservation NeverBroadcastRevoked Mirror
CHECK_DEADLOCK FALSE
