------------------------------ MODULE CoopNeg ------------------------------
(* Probe: legacy closing_signed fee negotiation (chancloser.go)             *)
EXTENDS Integers, FiniteSets, TLC
CONSTANTS Lo, Hi, Step, MaxRounds

Ideals == {x \in Lo..Hi : (x - Lo) % Step = 0}

VARIABLES ideal, last, prior, msg, turn, done, rounds, err
\* ideal[p], last[p], prior[p] for p \in {"I","R"}; msg = fee in flight (0 = none) to `turn`
vars == <<ideal, last, prior, msg, turn, done, rounds, err>>

P == {"I", "R"}
Other(p) == IF p = "I" THEN "R" ELSE "I"

InRange(l, r) == IF l < r THEN r <= l + ((l * 3) \div 10) ELSE r >= l - ((l * 3) \div 10)
Ratchet(f, up) == IF up THEN f + (f \div 10) ELSE f - (f \div 10)
Compromise(id, ls, rf) ==
  IF id = rf \/ ls = 0 THEN id
  ELSE IF rf = ls THEN ls
  ELSE IF rf < ls THEN (IF InRange(ls, rf) THEN rf ELSE Ratchet(ls, FALSE))
  ELSE (IF InRange(ls, rf) THEN rf ELSE Ratchet(ls, TRUE))

Init ==
  /\ ideal \in [P -> Ideals]
  /\ ideal["R"] <= 3 * ideal["I"] /\ ideal["I"] <= 3 * ideal["R"]
  /\ last = [p \in P |-> IF p = "I" THEN ideal["I"] ELSE 0]
  /\ prior = [p \in P |-> IF p = "I" THEN {ideal["I"]} ELSE {}]
  /\ msg = ideal["I"] /\ turn = "R"
  /\ done = [p \in P |-> 0] /\ rounds = 0 /\ err = FALSE

Recv ==
  /\ msg # 0 /\ ~err /\ done[turn] = 0
  /\ LET p == turn  f == msg IN
     IF f \in prior[p]
     THEN \* fee matches one of our offers: finished; echo the matching offer
          /\ done' = [done EXCEPT ![p] = f]
          /\ msg' = IF done[Other(p)] = 0 THEN f ELSE 0
          /\ turn' = Other(p)
          /\ UNCHANGED <<last, prior, err>>
     ELSE LET prop == Compromise(ideal[p], last[p], f) IN
          IF p = "I" /\ prop > 3 * ideal["I"]
          THEN /\ err' = TRUE /\ UNCHANGED <<last, prior, msg, turn, done>>
          ELSE /\ last' = [last EXCEPT ![p] = prop]
               /\ prior' = [prior EXCEPT ![p] = @ \cup {prop}]
               /\ IF prop # f
                  THEN /\ msg' = prop /\ turn' = Other(p) /\ UNCHANGED done
                  ELSE /\ done' = [done EXCEPT ![p] = f]
                       /\ msg' = IF done[Other(p)] = 0 THEN f ELSE 0
                       /\ turn' = Other(p)
               /\ UNCHANGED err
  /\ rounds' = rounds + 1
  /\ UNCHANGED ideal

Next == Recv
Spec == Init /\ [][Next]_vars

Bounded == rounds <= MaxRounds
NoAbort == ~err
Agree == (done["I"] # 0 /\ done["R"] # 0) => done["I"] = done["R"]
\* a stuck, unfinished negotiation
NoStall == (msg = 0 /\ ~err) => (done["I"] # 0 /\ done["R"] # 0)
=============================================================================
