----------------------------- MODULE CircuitMap -----------------------------
(* Sizing probe / first draft of htlcswitch/circuit_map.go.                   *)
(* Durable buckets, volatile maps, multi-phase operations, crash + start-up.  *)
EXTENDS Integers, Sequences, FiniteSets, TLC

CONSTANTS InChans,     \* incoming channel ids (0 = hop.Source)
          OutChans,    \* outgoing channel ids
          Ids,         \* htlc ids
          MaxOps,      \* bound on number of API calls
          MaxCrash,
          SwitchFaithful

InKeys  == InChans \X Ids
OutKeys == OutChans \X Ids
None == <<-1, -1>>

VARIABLES
  dAdds,      \* durable: set of incoming keys (circuit-adds bucket)
  dKeys,      \* durable: function OutKey -> InKey for stored keystones (as set of pairs)
  pending,    \* volatile: set of [in, loaded, out]
  closed,     \* volatile: set of incoming keys
  up,
  \* start-up inputs that change over time
  closedChans, resMsgs, nextIdx,
  \* delete in flight (2-phase): [keys, removed(set of pending records), closing(set of in)]
  delPhase,
  comPhase,   \* commit in flight (2-phase): incoming key or None
  \* history
  addsCount,  \* addsCount[in] = times Commit answered "add" since last delete
  respCount,  \* respCount[in] = successful Close/Fail since last (re)start or delete
  nops, ncrash

vars == <<dAdds, dKeys, pending, closed, up, closedChans, resMsgs, nextIdx, delPhase, comPhase,
          addsCount, respCount, nops, ncrash>>

Pend(in) == {p \in pending : p.in = in}
IsPending(in) == Pend(in) # {}
OpenedBy(out) == {p \in pending : p.out = out}

Init ==
  /\ dAdds = {} /\ dKeys = {}
  /\ pending = {} /\ closed = {} /\ up = TRUE
  /\ closedChans = {} /\ resMsgs = {} /\ nextIdx = [c \in OutChans |-> 0]
  /\ delPhase = [keys |-> {}, removed |-> {}, closing |-> {}]
  /\ comPhase = None
  /\ addsCount = [k \in InKeys |-> 0] /\ respCount = [k \in InKeys |-> 0]
  /\ nops = 0 /\ ncrash = 0

Op == up /\ nops < MaxOps /\ nops' = nops + 1
NoDel == delPhase.keys = {}

\* ---- CommitCircuits for a single circuit: memory phase under the mutex, then the disk phase
NoCom == comPhase = None
CommitMem(in) ==
  /\ Op /\ NoCom
  /\ (SwitchFaithful => in \notin delPhase.keys)   \* the switch never re-commits a key it is tearing down
  /\ IF IsPending(in)
     THEN UNCHANGED <<pending, comPhase>>                 \* drop or fail: answered at once
     ELSE /\ pending' = pending \cup {[in |-> in, loaded |-> FALSE, out |-> None]}
          /\ comPhase' = in
  /\ UNCHANGED <<dAdds, dKeys, closed, up, closedChans, resMsgs, nextIdx, delPhase, addsCount, respCount, ncrash>>

CommitDisk(ok) ==
  /\ up /\ ~NoCom
  /\ IF ok
     THEN /\ dAdds' = dAdds \cup {comPhase}
          /\ addsCount' = [addsCount EXCEPT ![comPhase] = @ + 1]
          /\ UNCHANGED pending
     ELSE /\ pending' = pending \ Pend(comPhase)          \* rollback, answered "fail"
          /\ UNCHANGED <<dAdds, addsCount>>
  /\ comPhase' = None
  /\ UNCHANGED <<dKeys, closed, up, closedChans, resMsgs, nextIdx, delPhase, respCount, nops, ncrash>>

\* ---- OpenCircuits (single keystone)
Open(in, out) ==
  /\ Op /\ NoDel
  /\ OpenedBy(out) = {}            \* else ErrDuplicateKeystone
  /\ IsPending(in)                 \* else ErrUnknownCircuit
  /\ in # comPhase                 \* the caller learns of the circuit only from the Adds answer
  /\ (\A p \in Pend(in) : p.out = None)   \* the switch never re-opens an opened circuit
  /\ pending' = (pending \ Pend(in)) \cup {[p EXCEPT !.out = out] : p \in Pend(in)}
  /\ dKeys' = dKeys \cup {<<out, in>>}
  /\ UNCHANGED <<dAdds, closed, up, closedChans, resMsgs, nextIdx, delPhase, comPhase, addsCount, respCount, ncrash>>

\* the channel state machine allocates htlc ids in order and commits them
AdvanceIdx(c) ==
  /\ up /\ nextIdx[c] <= Cardinality(Ids)
  /\ \E p \in pending : p.out = <<c, nextIdx[c]>>     \* keystone exists for that id
  /\ nextIdx' = [nextIdx EXCEPT ![c] = @ + 1]
  /\ UNCHANGED <<dAdds, dKeys, pending, closed, up, closedChans, resMsgs, delPhase, comPhase, addsCount, respCount, nops, ncrash>>

TrimSet(c, start, pend) ==
  \* keystones of channel c with consecutive ids start, start+1, ... present in pend
  LET has(i) == \E p \in pend : p.out = <<c, i>>
      run == {i \in Ids : i >= start /\ \A j \in Ids : (j >= start /\ j <= i) => has(j)}
  IN {p \in pend : p.out[1] = c /\ p.out[2] \in run}

DoTrim(c, start, pend) ==
  (pend \ TrimSet(c, start, pend)) \cup {[p EXCEPT !.out = None] : p \in TrimSet(c, start, pend)}

Trim(c) ==
  /\ Op /\ NoDel
  /\ pending' = DoTrim(c, nextIdx[c], pending)
  /\ dKeys' = {k \in dKeys : k[1] \notin {p.out : p \in TrimSet(c, nextIdx[c], pending)}}
  /\ UNCHANGED <<dAdds, closed, up, closedChans, resMsgs, nextIdx, delPhase, comPhase, addsCount, respCount, ncrash>>

Close(out) ==
  /\ Op
  /\ OpenedBy(out) # {}
  /\ LET in == (CHOOSE p \in OpenedBy(out) : TRUE).in IN
     /\ in \notin closed            \* else ErrCircuitClosing
     /\ closed' = closed \cup {in}
     /\ respCount' = [respCount EXCEPT ![in] = @ + 1]
  /\ UNCHANGED <<dAdds, dKeys, pending, up, closedChans, resMsgs, nextIdx, delPhase, comPhase, addsCount, ncrash>>

Fail(in) ==
  /\ Op
  /\ IsPending(in) /\ in \notin closed /\ in # comPhase
  /\ closed' = closed \cup {in}
  /\ respCount' = [respCount EXCEPT ![in] = @ + 1]
  /\ UNCHANGED <<dAdds, dKeys, pending, up, closedChans, resMsgs, nextIdx, delPhase, comPhase, addsCount, ncrash>>

\* ---- DeleteCircuits: phase 1 (memory, under the mutex), phase 2 (disk), or rollback
DeleteMem(in) ==
  /\ Op /\ NoDel /\ IsPending(in) /\ in # comPhase
  /\ delPhase' = [keys |-> {in}, removed |-> Pend(in), closing |-> closed \cap {in}]
  /\ pending' = pending \ Pend(in)
  /\ closed' = closed \ {in}
  /\ addsCount' = [addsCount EXCEPT ![in] = 0]
  /\ respCount' = [respCount EXCEPT ![in] = 0]
  /\ UNCHANGED <<dAdds, dKeys, up, closedChans, resMsgs, nextIdx, ncrash, comPhase>>

DeleteDisk(ok) ==
  /\ up /\ ~NoDel
  /\ IF ok
     THEN /\ dAdds' = dAdds \ delPhase.keys
          /\ dKeys' = {k \in dKeys : k[2] \notin delPhase.keys}
          /\ UNCHANGED <<pending, closed, addsCount, respCount>>
     ELSE /\ pending' = pending \cup delPhase.removed
          /\ closed' = closed \cup delPhase.closing
          /\ UNCHANGED <<dAdds, dKeys, addsCount, respCount>>
  /\ delPhase' = [keys |-> {}, removed |-> {}, closing |-> {}]
  /\ UNCHANGED <<up, closedChans, resMsgs, nextIdx, nops, ncrash, comPhase>>

\* ---- environment
CloseChan(c) ==
  /\ c \notin closedChans /\ c # 0
  /\ closedChans' = closedChans \cup {c}
  /\ UNCHANGED <<dAdds, dKeys, pending, closed, up, resMsgs, nextIdx, delPhase, comPhase, addsCount, respCount, nops, ncrash>>

AddResMsg(out) ==
  /\ out \notin resMsgs
  /\ resMsgs' = resMsgs \cup {out}
  /\ UNCHANGED <<dAdds, dKeys, pending, closed, up, closedChans, nextIdx, delPhase, comPhase, addsCount, respCount, nops, ncrash>>

Crash ==
  /\ up /\ ncrash < MaxCrash
  /\ up' = FALSE /\ ncrash' = ncrash + 1
  /\ pending' = {} /\ closed' = {}
  /\ delPhase' = [keys |-> {}, removed |-> {}, closing |-> {}]
  /\ comPhase' = None
  /\ UNCHANGED <<dAdds, dKeys, closedChans, resMsgs, nextIdx, addsCount, respCount, nops>>

\* NewCircuitMap: cleanClosedChannels; restoreMemState; trimAllOpenCircuits
Start ==
  /\ ~up
  /\ LET isClosed(c) == c # 0 /\ c \in closedChans
         delCircA == {in \in dAdds : isClosed(in[1])}
         ksInClosed == {k \in dKeys : isClosed(k[2][1])}
         ksOutClosed == {k \in dKeys : ~isClosed(k[2][1]) /\ isClosed(k[1][1]) /\ k[1] \notin resMsgs}
         delKs == ksInClosed \cup ksOutClosed
         delCirc == delCircA \cup {k[2] : k \in delKs}
         adds2 == dAdds \ delCirc
         keys2 == dKeys \ delKs
         pend0 == {[in |-> in, loaded |-> TRUE,
                    out |-> IF \E k \in keys2 : k[2] = in
                            THEN (CHOOSE k \in keys2 : k[2] = in)[1] ELSE None] : in \in adds2}
         \* trim for every active (not closed) outgoing channel
         TrimAll[cs \in SUBSET OutChans] ==
            IF cs = {} THEN pend0
            ELSE LET c == CHOOSE x \in cs : TRUE IN DoTrim(c, nextIdx[c], TrimAll[cs \ {c}])
         active == {c \in OutChans : c \notin closedChans}
         pend1 == TrimAll[active]
     IN /\ dAdds' = adds2
        /\ pending' = pend1
        /\ dKeys' = {k \in keys2 : \E p \in pend1 : p.out = k[1]}
        /\ respCount' = [k \in InKeys |-> 0]
        /\ addsCount' = [k \in InKeys |-> IF k \in delCirc THEN 0 ELSE addsCount[k]]
  /\ up' = TRUE /\ closed' = {}
  /\ UNCHANGED <<closedChans, resMsgs, nextIdx, delPhase, comPhase, nops, ncrash>>

Next ==
  \/ \E in \in InKeys : CommitMem(in)
  \/ \E ok \in BOOLEAN : CommitDisk(ok)
  \/ \E in \in InKeys, out \in OutKeys : Open(in, out)
  \/ \E c \in OutChans : AdvanceIdx(c) \/ Trim(c) \/ CloseChan(c)
  \/ \E out \in OutKeys : Close(out) \/ AddResMsg(out)
  \/ \E in \in InKeys : Fail(in) \/ DeleteMem(in)
  \/ \E ok \in BOOLEAN : DeleteDisk(ok)
  \/ Crash \/ Start

Spec == Init /\ [][Next]_vars

-----------------------------------------------------------------------------
AtMostOnceForward == \A k \in InKeys : addsCount[k] <= 1
AtMostOneResponse == \A k \in InKeys : respCount[k] <= 1

\* memory mirrors disk whenever no delete is in flight
MemDiskAgree ==
  (up /\ NoDel /\ NoCom) =>
     /\ {p.in : p \in pending} = dAdds
     /\ {<<p.out, p.in>> : p \in {q \in pending : q.out # None}} = dKeys

OneRecordPerKey == \A k \in InKeys : Cardinality(Pend(k)) <= 1
OneCircuitPerOut == \A o \in OutKeys : Cardinality(OpenedBy(o)) <= 1
ClosedSubset == up => closed \subseteq {p.in : p \in pending} \cup delPhase.keys
=============================================================================
