SPECIFICATION Spec
CONSTANTS
  InChans = {0, 1}
  OutChans = {2}
  Ids = {0, 1}
  MaxOps = 6
  MaxCrash = 1
  SwitchFaithful = TRUE
INVARIANTS AtMostOnceForward AtMostOneResponse MemDiskAgree OneRecordPerKey OneCircuitPerOut ClosedSubset
CHECK_DEADLOCK FALSE
