#!/bin/bash
# usage: tools_matrix_par.sh <parallelism> <seeded-id>...   runs each seeded change against the check of its own property
# (plus C02/C03 for channel changes) through tools_matrix.sh, logs under /verif/out/matrix/
P=$1; shift
mkdir -p /verif/out/matrix
for ID in "$@"; do
  C=C${ID:1:2}
  echo "$ID $C"
done | xargs -P $P -L 1 bash -c '/verif/tools_matrix.sh $0 $1 > /verif/out/matrix/$0.log 2>&1'
