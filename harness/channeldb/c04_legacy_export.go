//go:build verif

package channeldb

import (
	"bytes"
	"errors"

	"github.com/lightningnetwork/lnd/kvdb"
)

// VerifDemoteRevLog rewrites the revocation-log entry of commit.CommitHeight the
// way a pre-0.15 node stored it: the full ChannelCommitment under the deprecated
// bucket, nothing under the compact one. A channel whose first k revoked states
// are demoted like this is what a node that was upgraded without running the
// optional revocation-log migration has on disk. Injected by /verif through an
// overlay (C04 executor); not part of lnd.
func VerifDemoteRevLog(c *OpenChannel, commit ChannelCommitment) error {
	db, ok := c.Db.(*ChannelStateDB)
	if !ok {
		return errors.New("verif: channel is not backed by *ChannelStateDB")
	}

	return kvdb.Update(db.backend, func(tx kvdb.RwTx) error {
		chanBucket, err := fetchChanBucketRw(
			tx, c.IdentityPub, &c.FundingOutpoint, c.ChainHash,
		)
		if err != nil {
			return err
		}

		oldLog, err := chanBucket.CreateBucketIfNotExists(
			revocationLogBucketDeprecated,
		)
		if err != nil {
			return err
		}

		var b bytes.Buffer
		if err := serializeChanCommit(&b, &commit); err != nil {
			return err
		}

		k := makeLogKey(commit.CommitHeight)
		if err := oldLog.Put(k[:], b.Bytes()); err != nil {
			return err
		}

		newLog := chanBucket.NestedReadWriteBucket(revocationLogBucket)
		if newLog == nil {
			return nil
		}

		return newLog.Delete(k[:])
	}, func() {})
}
