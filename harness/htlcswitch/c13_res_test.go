//go:build verif

package htlcswitch

// C13 part S executor: the contract court's ResolutionMsg handed to the REAL
// htlcswitch (ProcessContractResolution -> resMsgStore -> forwarder ->
// incoming link's mailbox; teardown; Stop / reopen DB / Start ->
// reforwardResolutions) on a real channeldb.  One NDJSON record per step; no
// judgement here - spec/Arbitrator/SwitchResTrace.tla decides.

import (
	"crypto/sha256"
	"fmt"
	"strings"
	"testing"
	"time"

	"github.com/lightningnetwork/lnd/channeldb"
	"github.com/lightningnetwork/lnd/contractcourt"
	"github.com/lightningnetwork/lnd/internal/verifkit"
	"github.com/lightningnetwork/lnd/lnwire"
)

type c13sPlan struct {
	Kind  string   `json:"kind"`
	Steps []string `json:"steps"`
}

func (p c13sPlan) name() string {
	return p.Kind + ":" + strings.Join(p.Steps, ",")
}

// c13sRec is one trace line: every field on every line, uniform types.
type c13sRec struct {
	A    string `json:"a"`
	Plan string `json:"plan"`
	Kind string `json:"kind"`
	E    int    `json:"e"`
	St   int    `json:"st"`
	Stk  string `json:"stk"`
	Op   int    `json:"op"`
	Pk   string `json:"pk"`
	Rs   string `json:"rs"`
	Pi   int    `json:"pi"`
}

type c13sEnvErr struct{ msg string }

func c13sBuiltin() []c13sPlan {
	shapes := [][]string{
		// no restart
		{"Deliver", "Teardown"},
		// link down at delivery, restart, link up
		{"LinkDown", "Deliver", "Restart", "LinkUp", "Teardown"},
		// link up at delivery, restart before teardown
		{"Deliver", "Restart", "LinkUp", "Teardown"},
		// teardown, then restart: the store must be emptied
		{"Deliver", "Teardown", "Restart", "LinkUp"},
		// double restart
		{"LinkDown", "Deliver", "Restart", "Restart", "LinkUp", "Teardown", "Restart"},
		// link flaps while it holds the response (mailbox re-delivery)
		{"Deliver", "LinkDown", "LinkUp", "Teardown"},
		// link down at delivery, comes back without a restart
		{"LinkDown", "Deliver", "LinkUp", "Teardown"},
		// the resolver sends again (before and after teardown)
		{"Deliver", "Deliver", "Teardown", "Deliver", "Restart", "LinkUp"},
		// restart with nothing stored, then the resolution
		{"Restart", "LinkUp", "Deliver", "Restart", "LinkUp", "Restart", "LinkUp", "Teardown"},
	}
	var out []c13sPlan
	for _, k := range []string{"fail", "settle"} {
		for _, s := range shapes {
			out = append(out, c13sPlan{Kind: k, Steps: s})
		}
	}
	return out
}

func TestVerifC13SwitchRes(t *testing.T) {
	w, err := verifkit.NewWriter(verifkit.Env("VERIF_OUT", ".") + "/trace_s.ndjson")
	if err != nil {
		t.Fatalf("HARNESS-ERROR cannot create trace: %v", err)
	}
	defer w.Close()

	var plans []c13sPlan
	if verifkit.EnvInt("VERIF_C13S_ENUM", 1) == 1 {
		plans = append(plans, c13sBuiltin()...)
	}
	if p := verifkit.Env("VERIF_C13S_PLANS", ""); p != "" {
		ps, err := verifkit.ReadNDJSONInto[c13sPlan](p)
		if err != nil {
			t.Fatalf("HARNESS-ERROR cannot read plans %s: %v", p, err)
		}
		plans = append(plans, ps...)
	}

	for i, p := range plans {
		if p.Kind != "fail" && p.Kind != "settle" {
			t.Fatalf("HARNESS-ERROR plan %d: unknown kind %q", i, p.Kind)
		}
		p := p
		t.Run(fmt.Sprintf("run%d", i), func(t *testing.T) {
			if e := c13sRun(t, w, p); e != nil {
				t.Fatalf("HARNESS-ERROR plan %s: %s", p.name(), e.msg)
			}
		})
	}
	t.Logf("C13S runs=%d lines=%d", len(plans), w.Lines())
}

type c13sWorld struct {
	t       *testing.T
	w       *verifkit.Writer
	plan    c13sPlan
	dir     string
	cdb     *channeldb.DB
	s       *Switch
	peerA   *mockServer
	chanA   lnwire.ChannelID
	scidA   lnwire.ShortChannelID
	scidB   lnwire.ShortChannelID
	linkA   *mockChannelLink
	lastPkt *htlcPacket
	preimg  [sha256.Size]byte
}

func (x *c13sWorld) project(r *c13sRec) *c13sEnvErr {
	msgs, err := x.s.resMsgStore.fetchAllResolutionMsg()
	if err != nil {
		return &c13sEnvErr{"fetchAllResolutionMsg: " + err.Error()}
	}
	r.St = len(msgs)
	r.Stk = "none"
	if len(msgs) > 0 {
		if msgs[0].Failure != nil {
			r.Stk = "fail"
		} else {
			r.Stk = "settle"
		}
	}
	r.Op = x.s.circuits.NumOpen()
	return nil
}

func (x *c13sWorld) emit(a string, e int) *c13sEnvErr {
	r := c13sRec{A: a, Plan: x.plan.name(), Kind: x.plan.Kind, E: e, Pk: "none", Rs: "none"}
	if err := x.project(&r); err != nil {
		return err
	}
	x.w.Emit(r)
	return nil
}

// barrier returns once the forwarder goroutine has finished everything it was
// handed before (a packet without htlc is answered with "wrong update type").
func (x *c13sWorld) barrier() *c13sEnvErr {
	errc := make(chan error, 1)
	if err := x.s.routeAsync(&htlcPacket{}, errc, nil); err != nil {
		return &c13sEnvErr{"barrier: " + err.Error()}
	}
	select {
	case <-errc:
		return nil
	case <-time.After(10 * time.Second):
		return &c13sEnvErr{"barrier: forwarder does not answer"}
	}
}

// pendingHead is the response packet the mailbox courier of link A is about to
// hand out (nil if none): used only to know whether to wait on the channel.
func (x *c13sWorld) pendingHead() *htlcPacket {
	mb, ok := x.linkA.mailBox.(*memoryMailBox)
	if !ok {
		return nil
	}
	mb.pktCond.L.Lock()
	defer mb.pktCond.L.Unlock()
	if mb.repHead == nil {
		return nil
	}
	p, _ := mb.repHead.Value.(*htlcPacket)
	return p
}

func (x *c13sWorld) classify(pkt *htlcPacket, r *c13sRec) {
	switch h := pkt.htlc.(type) {
	case *lnwire.UpdateFailHTLC:
		r.Pk = "fail"
		if len(h.Reason) < 32 {
			r.Rs = "unreadable"
			return
		}
		fe, err := newMockDeobfuscator().DecryptError(h.Reason)
		if err != nil || fe == nil {
			r.Rs = "unreadable"
			return
		}
		if _, ok := fe.WireMessage().(*lnwire.FailPermanentChannelFailure); ok {
			r.Rs = "perm"
		} else {
			r.Rs = "other"
		}
	case *lnwire.UpdateFulfillHTLC:
		r.Pk = "settle"
		r.Rs = "none"
		if h.PaymentPreimage == x.preimg {
			r.Pi = 1
		}
	default:
		r.Pk = "other"
		r.Rs = "other"
	}
}

// drain records every packet link A is handed after a step.
func (x *c13sWorld) drain() *c13sEnvErr {
	if err := x.barrier(); err != nil {
		return err
	}
	for x.linkA != nil {
		head := x.pendingHead()
		if head == nil {
			// short grace for anything unexpected
			select {
			case pkt := <-x.linkA.packets:
				head = pkt
				if e := x.recv(pkt); e != nil {
					return e
				}
			case <-time.After(2 * time.Millisecond):
				return nil
			}
		} else {
			select {
			case pkt := <-x.linkA.packets:
				if e := x.recv(pkt); e != nil {
					return e
				}
			case <-time.After(10 * time.Second):
				return &c13sEnvErr{"mailbox holds a packet but does not hand it out"}
			}
		}
		// wait until the courier has moved past the packet just taken
		for i := 0; i < 5000 && x.pendingHead() == head; i++ {
			time.Sleep(200 * time.Microsecond)
		}
		if x.pendingHead() == head {
			return &c13sEnvErr{"mailbox courier stuck"}
		}
	}
	return nil
}

func (x *c13sWorld) recv(pkt *htlcPacket) *c13sEnvErr {
	r := c13sRec{A: "Recv", Plan: x.plan.name(), Kind: x.plan.Kind}
	x.classify(pkt, &r)
	if err := x.project(&r); err != nil {
		return err
	}
	x.w.Emit(r)
	x.lastPkt = pkt
	return nil
}

func b01(err error) int {
	if err != nil {
		return 1
	}
	return 0
}

func c13sRun(t *testing.T, w *verifkit.Writer, plan c13sPlan) *c13sEnvErr {
	x := &c13sWorld{t: t, w: w, plan: plan, dir: t.TempDir()}
	chanID1, chanID2, aliceChanID, bobChanID := genIDs()
	x.chanA, x.scidA, x.scidB = chanID1, aliceChanID, bobChanID

	alicePeer, err := newMockServer(t, "alice", testStartingHeight, nil, testDefaultDelta)
	if err != nil {
		return &c13sEnvErr{"alice peer: " + err.Error()}
	}
	bobPeer, err := newMockServer(t, "bob", testStartingHeight, nil, testDefaultDelta)
	if err != nil {
		return &c13sEnvErr{"bob peer: " + err.Error()}
	}
	x.peerA = alicePeer

	x.cdb = channeldb.OpenForTesting(t, x.dir)
	x.s, err = initSwitchWithDB(testStartingHeight, x.cdb)
	if err != nil {
		return &c13sEnvErr{"initSwitchWithDB: " + err.Error()}
	}
	if err := x.s.Start(); err != nil {
		return &c13sEnvErr{"switch start: " + err.Error()}
	}
	defer func() { _ = x.s.Stop() }()

	x.linkA = newMockChannelLink(x.s, chanID1, aliceChanID, emptyScid, alicePeer, true, false, false, false)
	bobLink := newMockChannelLink(x.s, chanID2, bobChanID, emptyScid, bobPeer, true, false, false, false)
	if err := x.s.AddLink(x.linkA); err != nil {
		return &c13sEnvErr{"AddLink A: " + err.Error()}
	}
	if err := x.s.AddLink(bobLink); err != nil {
		return &c13sEnvErr{"AddLink B: " + err.Error()}
	}

	// forward one HTLC A -> B and open its circuit
	x.preimg = [sha256.Size]byte{7}
	rhash := sha256.Sum256(x.preimg[:])
	add := &htlcPacket{
		incomingChanID: x.linkA.ShortChanID(),
		incomingHTLCID: 0,
		outgoingChanID: bobLink.ShortChanID(),
		obfuscator:     NewMockObfuscator(),
		htlc:           &lnwire.UpdateAddHTLC{PaymentHash: rhash, Amount: 1},
	}
	if err := x.s.ForwardPackets(nil, add); err != nil {
		return &c13sEnvErr{"forward add: " + err.Error()}
	}
	select {
	case pkt := <-bobLink.packets:
		if err := bobLink.completeCircuit(pkt); err != nil {
			return &c13sEnvErr{"open circuit: " + err.Error()}
		}
	case <-time.After(10 * time.Second):
		return &c13sEnvErr{"add not propagated to the outgoing link"}
	}
	if n := x.s.circuits.NumOpen(); n != 1 {
		return &c13sEnvErr{fmt.Sprintf("fixture: %d open circuits", n)}
	}

	if e := x.emit("Reset", 0); e != nil {
		return e
	}

	for _, st := range plan.Steps {
		e := 0
		switch st {
		case "Deliver":
			msg := contractcourt.ResolutionMsg{SourceChan: bobChanID, HtlcIndex: 0}
			if plan.Kind == "fail" {
				msg.Failure = &lnwire.FailPermanentChannelFailure{}
			} else {
				pre := x.preimg
				msg.PreImage = &pre
			}
			e = b01(x.s.ProcessContractResolution(msg))

		case "LinkDown":
			x.s.RemoveLink(x.chanA)
			x.linkA, x.lastPkt = nil, nil

		case "LinkUp":
			nl := newMockChannelLink(x.s, x.chanA, x.scidA, emptyScid, x.peerA, true, false, false, false)
			err := x.s.AddLink(nl)
			e = b01(err)
			if err == nil {
				x.linkA, x.lastPkt = nl, nil
			}

		case "Teardown":
			if x.linkA != nil && x.lastPkt != nil {
				e = b01(x.linkA.completeCircuit(x.lastPkt))
				x.lastPkt = nil
			} else {
				e = 1
			}

		case "Restart":
			_ = x.s.Stop()
			if err := x.cdb.Close(); err != nil {
				return &c13sEnvErr{"db close: " + err.Error()}
			}
			x.linkA, x.lastPkt = nil, nil
			x.cdb = channeldb.OpenForTesting(t, x.dir)
			s2, err := initSwitchWithDB(testStartingHeight, x.cdb)
			if err != nil {
				return &c13sEnvErr{"initSwitchWithDB after restart: " + err.Error()}
			}
			x.s = s2
			e = b01(x.s.Start())

		default:
			return &c13sEnvErr{"unknown step " + st}
		}
		if st == "Restart" && e == 1 {
			// the switch is not running: nothing can be read back through it
			x.w.Emit(c13sRec{A: st, Plan: plan.name(), Kind: plan.Kind, E: 1, St: -1, Stk: "none", Op: -1,
				Pk: "none", Rs: "none"})
			break
		}
		if er := x.emit(st, e); er != nil {
			return er
		}
		if er := x.drain(); er != nil {
			return er
		}
	}
	return x.emit("End", 0)
}
