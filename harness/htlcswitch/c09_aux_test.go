//go:build verif

package htlcswitch

import (
	"bufio"
	"encoding/json"
	"os"
	"strings"
	"sync"
	"testing"

	"github.com/lightningnetwork/lnd/fn/v2"
	"github.com/lightningnetwork/lnd/graph/db/models"
	"github.com/lightningnetwork/lnd/internal/verifkit"
	"github.com/lightningnetwork/lnd/lnwallet"
	"github.com/lightningnetwork/lnd/lnwire"
	"github.com/lightningnetwork/lnd/routing/route"
	"github.com/lightningnetwork/lnd/tlv"
)

// C09, link level with an auxiliary traffic shaper
// (spec/ForwardPolicy/ForwardPolicyAux.tla).
//
// c09AuxCase is one case of the aux lattice (ForwardPolicyAuxGen): the case of
// the forwarding decision plus the environment's answers -
//
//	shaper   a traffic shaper is configured on the link
//	rec      the custom records of the outgoing add: "none", "wire" (the
//	         experimental accountability signal lnd attaches itself), "asset"
//	         (a record the shaper recognises), "both"
//	handles  the shaper's ShouldHandleTraffic for the channel
//	abw      the shaper's PaymentBandwidth
type c09AuxCase struct {
	c09Case
	Shaper  int    `json:"shaper"`
	Rec     string `json:"rec"`
	Handles int    `json:"handles"`
	ABw     uint64 `json:"abw"`
}

// the record type the executor-side shaper recognises as "this HTLC belongs to
// a custom channel" (tapd uses types of the custom range in the same way)
const c09AuxAssetType = uint64(lnwire.MinCustomRecordsTlvType) + 7

// c09AuxShaper plays the external traffic shaper: it answers what the case
// says and notes that it was asked.  No judgement.
type c09AuxShaper struct {
	mu      sync.Mutex
	handles bool
	abw     lnwire.MilliSatoshi
	asked   []byte
}

func (s *c09AuxShaper) note(b byte) {
	s.mu.Lock()
	s.asked = append(s.asked, b)
	s.mu.Unlock()
}

func (s *c09AuxShaper) ShouldHandleTraffic(lnwire.ShortChannelID,
	fn.Option[tlv.Blob], fn.Option[tlv.Blob]) (bool, error) {

	s.note('h')
	return s.handles, nil
}

func (s *c09AuxShaper) PaymentBandwidth(_, _, _ fn.Option[tlv.Blob], _,
	_ lnwire.MilliSatoshi, _ lnwallet.AuxHtlcView,
	_ route.Vertex) (lnwire.MilliSatoshi, error) {

	s.note('p')
	return s.abw, nil
}

func (s *c09AuxShaper) IsCustomHTLC(recs lnwire.CustomRecords) bool {
	s.note('c')
	_, ok := recs[c09AuxAssetType]
	return ok
}

func (s *c09AuxShaper) ProduceHtlcExtraData(amt lnwire.MilliSatoshi,
	recs lnwire.CustomRecords, _ route.Vertex) (lnwire.MilliSatoshi,
	lnwire.CustomRecords, error) {

	s.note('x')
	return amt, recs, nil
}

func c09AuxRecords(kind string) lnwire.CustomRecords {
	recs := lnwire.CustomRecords{}
	if kind == "wire" || kind == "both" {
		recs[uint64(lnwire.ExperimentalAccountableType)] = []byte{lnwire.ExperimentalAccountable}
	}
	if kind == "asset" || kind == "both" {
		recs[c09AuxAssetType] = []byte{1, 2, 3}
	}
	if len(recs) == 0 {
		return nil
	}
	return recs
}

// TestVerifC09Aux executes every case of VERIF_AUX_CASES on a real channelLink
// (the same fixture as TestVerifC09ForwardPolicy) and writes trace_aux.ndjson.
// ForwardPolicyAuxTrace.tla is the judge.
func TestVerifC09Aux(t *testing.T) {
	path := os.Getenv("VERIF_AUX_CASES")
	if path == "" {
		t.Skip("no VERIF_AUX_CASES")
	}
	in, err := os.Open(path)
	if err != nil {
		t.Fatal(err)
	}
	defer in.Close()
	out := verifkit.MustWriter(verifkit.Env("VERIF_OUT", ".") + "/trace_aux.ndjson")
	defer out.Close()

	links := map[uint64]*channelLink{}
	sc := bufio.NewScanner(in)
	sc.Buffer(make([]byte, 1<<16), 1<<20)
	n := 0
	for sc.Scan() {
		line := strings.TrimSpace(sc.Text())
		if line == "" {
			continue
		}
		var c c09AuxCase
		if err := json.Unmarshal([]byte(line), &c); err != nil {
			t.Fatalf("case %d: %v: %s", n, err, line)
		}
		link := links[c.BW]
		if link == nil {
			link = c09Link(t, c.BW)
			links[c.BW] = link
		}
		link.UpdateForwardingPolicy(models.ForwardingPolicy{
			MinHTLCOut:    lnwire.MilliSatoshi(c.MinH),
			MaxHTLC:       lnwire.MilliSatoshi(c.MaxH),
			BaseFee:       lnwire.MilliSatoshi(c.Base),
			FeeRate:       lnwire.MilliSatoshi(c.Rate),
			TimeLockDelta: c.Delta,
		})
		link.cfg.OutgoingCltvRejectDelta = c.RDelta
		link.cfg.MaxOutgoingCltvExpiry = c.MaxCltv

		shaper := &c09AuxShaper{handles: c.Handles == 1, abw: lnwire.MilliSatoshi(c.ABw)}
		link.cfg.AuxTrafficShaper = fn.None[AuxTrafficShaper]()
		if c.Shaper == 1 {
			link.cfg.AuxTrafficShaper = fn.Some[AuxTrafficShaper](shaper)
		}
		recs := c09AuxRecords(c.Rec)

		fwd := link.CheckHtlcForward([32]byte{1}, lnwire.MilliSatoshi(c.In),
			lnwire.MilliSatoshi(c.Out), c.InExp, c.OutExp,
			models.InboundFee{Base: c.IBase, Rate: c.IRate}, c.Height,
			link.ShortChanID(), recs)
		tr := link.CheckHtlcTransit([32]byte{1}, lnwire.MilliSatoshi(c.Out),
			c.OutExp, c.Height, recs)
		link.cfg.AuxTrafficShaper = fn.None[AuxTrafficShaper]()

		cc := c.c09Case
		cc.BW = uint64(link.Bandwidth())
		out.Emit(struct {
			A string `json:"a"`
			c09Case
			Shaper  int    `json:"shaper"`
			Rec     string `json:"rec"`
			Handles int    `json:"handles"`
			ABw     uint64 `json:"abw"`
			Asked   string `json:"asked"`
			V       string `json:"v"`
			VT      string `json:"vt"`
		}{"AuxCase", cc, c.Shaper, c.Rec, c.Handles, c.ABw, string(shaper.asked),
			c09Verdict(fwd), c09Verdict(tr)})
		n++
	}
	if err := sc.Err(); err != nil {
		t.Fatal(err)
	}
	if n == 0 {
		t.Fatal("no aux cases")
	}
	t.Logf("C09 aux: %d cases executed on %d links", n, len(links))
}
