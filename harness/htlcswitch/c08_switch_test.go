//go:build verif

package htlcswitch

import (
	"crypto/sha256"
	"fmt"
	"os"
	"path/filepath"
	"sync"
	"testing"
	"time"

	"github.com/lightningnetwork/lnd/channeldb"
	"github.com/lightningnetwork/lnd/chanstate"
	"github.com/lightningnetwork/lnd/internal/verifkit"
	"github.com/lightningnetwork/lnd/kvdb"
	"github.com/lightningnetwork/lnd/lnwire"
	"github.com/lightningnetwork/lnd/ticker"
)

// C08, switch-level executor (spec/Forwarding/SwitchAck.tla): ONE real Switch with its real circuit map and a
// real forwarding package of the outgoing channel in the switch's own database (as in production, unlike the
// three-hop fixture where every channel has its own database), two mock links.  It replays TLC-generated
// sequences of Pipe / Lock / Commit / Tick / Restart and records after every step what the real switch shows:
// circuits pending/open, the SettleFailFilter bit read back from the database, and whether a packet was
// handed to the incoming link.  No judgement here: SwitchAckTrace.tla is the judge.

type c08SwStep struct {
	A    string `json:"a"`
	Kind string `json:"kind"`
}

type c08SwRun struct {
	t        *testing.T
	path     string
	cdb      *channeldb.DB
	s        *Switch
	in, out  *mockChannelLink
	chanIn   lnwire.ChannelID
	chanOut  lnwire.ChannelID
	scidIn   lnwire.ShortChannelID
	scidOut  lnwire.ShortChannelID
	alice    *mockServer
	bob      *mockServer
	preimage [32]byte
	held     *htlcPacket // the response the incoming link has read and not committed
	written  bool        // the package entry exists
	kind     string
}

const c08SwHeight = 1

func (r *c08SwRun) boot(first bool) error {
	r.cdb = channeldb.OpenForTesting(r.t, r.path)
	s, err := initSwitchWithDB(testStartingHeight, r.cdb)
	if err != nil {
		return err
	}
	if !first {
		s.cfg.FetchAllChannels = func() ([]*chanstate.OpenChannel, error) {
			return []*chanstate.OpenChannel{{ShortChannelID: r.scidIn}, {ShortChannelID: r.scidOut}}, nil
		}
	}
	if err := s.Start(); err != nil {
		return err
	}
	r.s = s
	r.in = newMockChannelLink(s, r.chanIn, r.scidIn, emptyScid, r.alice, true, false, false, false)
	r.out = newMockChannelLink(s, r.chanOut, r.scidOut, emptyScid, r.bob, true, false, false, false)
	if err := s.AddLink(r.in); err != nil {
		return err
	}
	return s.AddLink(r.out)
}

// recvIn waits for a packet handed to the incoming link.
func (r *c08SwRun) recvIn() int {
	select {
	case pkt := <-r.in.packets:
		r.held = pkt
		return 1
	case <-time.After(250 * time.Millisecond):
		return 0
	}
}

func (r *c08SwRun) response(withRef bool) *htlcPacket {
	pkt := &htlcPacket{outgoingChanID: r.scidOut, outgoingHTLCID: 0}
	if r.kind == "settle" {
		pkt.htlc = &lnwire.UpdateFulfillHTLC{ChanID: r.chanOut, ID: 0, PaymentPreimage: r.preimage}
	} else {
		pkt.htlc = &lnwire.UpdateFailHTLC{ChanID: r.chanOut, ID: 0, Reason: make([]byte, 292)}
	}
	if withRef {
		ref := channeldb.SettleFailRef{Source: r.scidOut, Height: c08SwHeight, Index: 0}
		pkt.destRef = &ref
	}
	return pkt
}

// lock writes the package entry (what ReceiveRevocation does) the first time.
func (r *c08SwRun) writePkg() error {
	if r.written {
		return nil
	}
	r.written = true
	fwdPkg := channeldb.NewFwdPkg(r.scidOut, c08SwHeight, nil,
		[]channeldb.LogUpdate{{LogIndex: 0, UpdateMsg: r.response(false).htlc}})
	packager := channeldb.NewChannelPackager(r.scidOut)
	return kvdb.Update(r.cdb, func(tx kvdb.RwTx) error {
		if err := packager.AddFwdPkg(tx, fwdPkg); err != nil {
			return err
		}
		return packager.SetFwdFilter(tx, c08SwHeight, fwdPkg.FwdFilter)
	}, func() {})
}

func (r *c08SwRun) observe(a string, got int) verifkit.Rec {
	acked := 0
	if r.written {
		pkgs, err := r.s.loadChannelFwdPkgs(r.scidOut)
		if err == nil {
			if len(pkgs) == 0 {
				acked = 1 // fully acked packages may be gone
			} else if pkgs[0].SettleFailFilter.Contains(0) {
				acked = 1
			}
		}
	}
	return verifkit.Rec{"a": a, "kind": r.kind, "pending": r.s.circuits.NumPending(), "open": r.s.circuits.NumOpen(),
		"acked": acked, "got": got}
}

func c08SwExec(t *testing.T, name string, steps []c08SwStep) ([]verifkit.Rec, error) {
	r := &c08SwRun{t: t, path: t.TempDir(), kind: steps[0].Kind}
	r.chanIn, r.chanOut, r.scidIn, r.scidOut = genIDs()
	var err error
	if r.alice, err = newMockServer(t, "alice", testStartingHeight, nil, testDefaultDelta); err != nil {
		return nil, err
	}
	if r.bob, err = newMockServer(t, "bob", testStartingHeight, nil, testDefaultDelta); err != nil {
		return nil, err
	}
	r.preimage = [32]byte{7}
	if err := r.boot(true); err != nil {
		return nil, err
	}
	defer func() { _ = r.s.Stop() }()
	// forward one add in -> out and open the circuit
	rhash := sha256.Sum256(r.preimage[:])
	add := &htlcPacket{incomingChanID: r.scidIn, incomingHTLCID: 0, outgoingChanID: r.scidOut,
		obfuscator: NewMockObfuscator(), htlc: &lnwire.UpdateAddHTLC{PaymentHash: rhash, Amount: 1}}
	if err := r.s.ForwardPackets(nil, add); err != nil {
		return nil, err
	}
	select {
	case pkt := <-r.out.packets:
		if err := r.out.completeCircuit(pkt); err != nil {
			return nil, err
		}
	case <-time.After(5 * time.Second):
		return nil, fmt.Errorf("add not delivered to the outgoing link")
	}
	recs := []verifkit.Rec{{"a": "Reset", "kind": r.kind, "plan": name, "pending": r.s.circuits.NumPending(),
		"open": r.s.circuits.NumOpen(), "acked": 0, "got": 0}}
	for _, st := range steps {
		got := 0
		switch st.A {
		case "Pipe":
			if err := r.s.ForwardPackets(nil, r.response(false)); err != nil {
				return nil, err
			}
			got = r.recvIn()
		case "Lock":
			if err := r.writePkg(); err != nil {
				return nil, err
			}
			if err := r.s.ForwardPackets(nil, r.response(true)); err != nil {
				return nil, err
			}
			got = r.recvIn()
		case "Commit":
			// (if the link holds nothing - the model says it must - there is nothing to commit;
			// the step is recorded all the same and the trace spec has already seen the difference)
			if r.held != nil {
				if err := r.in.completeCircuit(r.held); err != nil {
					return nil, err
				}
				r.held = nil
			}
		case "Tick":
			tk, ok := r.s.cfg.AckEventTicker.(*ticker.Force)
			if !ok {
				return nil, fmt.Errorf("no force ticker")
			}
			for i := 0; i < 2; i++ {
				select {
				case tk.Force <- time.Now():
				case <-time.After(5 * time.Second):
					return nil, fmt.Errorf("switch did not accept the ack tick")
				}
			}
			// let the forwarder finish the second tick's batch
			time.Sleep(20 * time.Millisecond)
		case "Restart":
			if err := r.s.Stop(); err != nil {
				return nil, err
			}
			if err := r.cdb.Close(); err != nil {
				return nil, err
			}
			r.held = nil
			if err := r.boot(false); err != nil {
				return nil, err
			}
			got = r.recvIn()
		}
		recs = append(recs, r.observe(st.A, got))
	}
	return recs, nil
}

func TestVerifC08SwitchAck(t *testing.T) {
	dir := os.Getenv("VERIF_SWACK")
	if dir == "" {
		t.Skip("no VERIF_SWACK schedule dir")
	}
	out := verifkit.Env("VERIF_OUT", os.TempDir())
	w := verifkit.MustWriter(filepath.Join(out, "trace_switch.ndjson"))
	defer w.Close()
	var mu sync.Mutex
	sem := make(chan struct{}, verifkit.EnvInt("VERIF_PAR", 3))
	t.Run("runs", func(gt *testing.T) {
		for _, f := range verifkit.ListFiles(dir, "b_", ".ndjson") {
			f := f
			steps, err := verifkit.ReadNDJSONInto[c08SwStep](f)
			if err != nil || len(steps) == 0 {
				t.Fatalf("schedule %s: %v", f, err)
			}
			gt.Run(filepath.Base(f), func(st *testing.T) {
				st.Parallel()
				sem <- struct{}{}
				defer func() { <-sem }()
				recs, err := c08SwExec(st, filepath.Base(f), steps)
				if err != nil {
					st.Fatalf("%s: %v", f, err)
				}
				mu.Lock()
				for _, r := range recs {
					w.Emit(r)
				}
				mu.Unlock()
			})
		}
	})
}
