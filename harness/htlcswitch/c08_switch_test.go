//go:build verif

package htlcswitch

import (
	"crypto/sha256"
	"fmt"
	"os"
	"path/filepath"
	"sync"
	"testing"
	"time"

	"github.com/btcsuite/btcd/btcec/v2/ecdsa"
	"github.com/btcsuite/btcd/btcutil/v2"
	"github.com/lightningnetwork/lnd/chainntnfs"
	"github.com/lightningnetwork/lnd/channeldb"
	"github.com/lightningnetwork/lnd/chanstate"
	"github.com/lightningnetwork/lnd/clock"
	"github.com/lightningnetwork/lnd/internal/verifkit"
	"github.com/lightningnetwork/lnd/kvdb"
	"github.com/lightningnetwork/lnd/lntest/mock"
	"github.com/lightningnetwork/lnd/lnwire"
	"github.com/lightningnetwork/lnd/ticker"
)

// C08, switch-level executor (spec/Forwarding/SwitchAck.tla): ONE real Switch with its real circuit map and a
// real forwarding package of the outgoing channel - a real lnwallet channel - in the switch's own database (as
// in production, unlike the three-hop fixture where every channel has its own database), two mock links towards
// the switch, and a real (never started) channelLink over the outgoing channel whose loadAndRemove is the
// garbage collector.  It replays TLC-generated sequences of Pipe / Revoke / Hand / Lock / Commit / Tick / GC /
// Restart and records after every step what the real node shows: circuits pending/open, the package as read
// back from the database (present, FwdState beyond LockedIn, SettleFailFilter bit), and whether a packet was
// handed to the incoming link.  A restart stops the switch and builds a new one (New + Start:
// reforwardResponses) on the same database.  No judgement here: SwitchAckTrace.tla is the judge.

type c08SwStep struct {
	A    string `json:"a"`
	Kind string `json:"kind"`
}

type c08SwRun struct {
	t        *testing.T
	path     string
	cdb      *channeldb.DB
	s        *Switch
	in, out  *mockChannelLink
	chanIn   lnwire.ChannelID
	chanOut  lnwire.ChannelID
	scidIn   lnwire.ShortChannelID
	scidOut  lnwire.ShortChannelID
	alice    *mockServer
	bob      *mockServer
	preimage [32]byte
	held     *htlcPacket // the response the incoming link has read and not committed
	written  bool        // the package entry has been written
	filtered bool        // its forwarding filter has been written
	gc       *channelLink
	kind     string
}

const c08SwHeight = 1

// newSwitch is initSwitchWithDB with two differences: the circuit map does not trim by channel state (the
// outgoing channel's commitment holds no HTLC: the links are mocks), and start-up reads the forwarding packages
// of both channels.
func (r *c08SwRun) newSwitch() (*Switch, error) {
	cfg := Config{
		DB:                   r.cdb,
		FetchAllOpenChannels: func() ([]*chanstate.OpenChannel, error) { return nil, nil },
		FetchAllChannels: func() ([]*chanstate.OpenChannel, error) {
			return []*chanstate.OpenChannel{{ShortChannelID: r.scidIn}, {ShortChannelID: r.scidOut}}, nil
		},
		FetchClosedChannels: func(bool) ([]*chanstate.ChannelCloseSummary, error) { return nil, nil },
		SwitchPackager:      channeldb.NewSwitchPackager(),
		FwdingLog:           &mockForwardingLog{events: make(map[time.Time]channeldb.ForwardingEvent)},
		FetchLastChannelUpdate: func(scid lnwire.ShortChannelID) (*lnwire.ChannelUpdate1, error) {
			return &lnwire.ChannelUpdate1{ShortChannelID: scid}, nil
		},
		Notifier: &mock.ChainNotifier{
			SpendChan: make(chan *chainntnfs.SpendDetail),
			EpochChan: make(chan *chainntnfs.BlockEpoch),
			ConfChan:  make(chan *chainntnfs.TxConfirmation),
		},
		FwdEventTicker:         ticker.NewForce(DefaultFwdEventInterval),
		LogEventTicker:         ticker.NewForce(DefaultLogInterval),
		AckEventTicker:         ticker.NewForce(DefaultAckInterval),
		HtlcNotifier:           &mockHTLCNotifier{},
		Clock:                  clock.NewDefaultClock(),
		MailboxDeliveryTimeout: time.Hour,
		MaxFeeExposure:         DefaultMaxFeeExposure,
		SignAliasUpdate: func(*lnwire.ChannelUpdate1) (*ecdsa.Signature, error) {
			return testSig, nil
		},
		IsAlias: isAlias,
	}
	return New(cfg, testStartingHeight)
}

func (r *c08SwRun) boot() error {
	s, err := r.newSwitch()
	if err != nil {
		return err
	}
	if err := s.Start(); err != nil {
		return err
	}
	r.s = s
	r.in = newMockChannelLink(s, r.chanIn, r.scidIn, emptyScid, r.alice, true, false, false, false)
	r.out = newMockChannelLink(s, r.chanOut, r.scidOut, emptyScid, r.bob, true, false, false, false)
	if err := s.AddLink(r.in); err != nil {
		return err
	}
	return s.AddLink(r.out)
}

// recvIn waits for a packet handed to the incoming link.
func (r *c08SwRun) recvIn() int {
	select {
	case pkt := <-r.in.packets:
		r.held = pkt
		return 1
	case <-time.After(250 * time.Millisecond):
		return 0
	}
}

func (r *c08SwRun) response(withRef bool) *htlcPacket {
	pkt := &htlcPacket{outgoingChanID: r.scidOut, outgoingHTLCID: 0}
	if r.kind == "settle" {
		pkt.htlc = &lnwire.UpdateFulfillHTLC{ChanID: r.chanOut, ID: 0, PaymentPreimage: r.preimage}
	} else {
		pkt.htlc = &lnwire.UpdateFailHTLC{ChanID: r.chanOut, ID: 0, Reason: make([]byte, 292)}
	}
	if withRef {
		ref := channeldb.SettleFailRef{Source: r.scidOut, Height: c08SwHeight, Index: 0}
		pkt.destRef = &ref
	}
	return pkt
}

// writePkg writes the package (what ReceiveRevocation does): FwdStateLockedIn.
func (r *c08SwRun) writePkg() error {
	if r.written {
		return nil
	}
	r.written = true
	fwdPkg := channeldb.NewFwdPkg(r.scidOut, c08SwHeight, nil,
		[]channeldb.LogUpdate{{LogIndex: 0, UpdateMsg: r.response(false).htlc}})
	packager := channeldb.NewChannelPackager(r.scidOut)
	return kvdb.Update(r.cdb, func(tx kvdb.RwTx) error {
		return packager.AddFwdPkg(tx, fwdPkg)
	}, func() {})
}

// setFilter writes the package's forwarding filter (what processRemoteAdds does last): FwdStateProcessed.
func (r *c08SwRun) setFilter() error {
	if r.filtered {
		return nil
	}
	r.filtered = true
	return r.gc.channel.SetFwdFilter(c08SwHeight, channeldb.NewPkgFilter(0))
}

func (r *c08SwRun) observe(a string, got int, note string) verifkit.Rec {
	npkg, proc, acked := 0, 0, 0
	pkgs, err := r.s.loadChannelFwdPkgs(r.scidOut)
	if err != nil {
		note += " load: " + err.Error()
	}
	if len(pkgs) > 0 {
		npkg = len(pkgs)
		if pkgs[0].State != channeldb.FwdStateLockedIn {
			proc = 1
		}
		if pkgs[0].SettleFailFilter.Contains(0) {
			acked = 1
		}
	}
	return verifkit.Rec{"a": a, "kind": r.kind, "pending": r.s.circuits.NumPending(), "open": r.s.circuits.NumOpen(),
		"npkg": npkg, "proc": proc, "acked": acked, "got": got, "note": note}
}

func c08SwExec(t *testing.T, name string, steps []c08SwStep) ([]verifkit.Rec, error) {
	r := &c08SwRun{t: t, kind: steps[0].Kind}
	r.chanIn, r.chanOut, r.scidIn, r.scidOut = genIDs()
	var err error
	if r.alice, err = newMockServer(t, "alice", testStartingHeight, nil, testDefaultDelta); err != nil {
		return nil, err
	}
	if r.bob, err = newMockServer(t, "bob", testStartingHeight, nil, testDefaultDelta); err != nil {
		return nil, err
	}
	// the outgoing channel is a real channel; its database is the node's database
	const amt = btcutil.SatoshiPerBitcoin
	lc, _, err := createTestChannel(t, alicePrivKey, bobPrivKey, amt, amt, 0, 0, r.scidOut)
	if err != nil {
		return nil, err
	}
	r.cdb = testChannelStateDB(t, lc.channel).GetParentDB()
	gc, ok := NewChannelLink(ChannelLinkConfig{DisallowQuiescence: true}, lc.channel).(*channelLink)
	if !ok {
		return nil, fmt.Errorf("not a channelLink")
	}
	r.gc = gc
	r.preimage = [32]byte{7}
	if err := r.boot(); err != nil {
		return nil, err
	}
	defer func() { _ = r.s.Stop() }()
	// forward one add in -> out and open the circuit
	rhash := sha256.Sum256(r.preimage[:])
	add := &htlcPacket{incomingChanID: r.scidIn, incomingHTLCID: 0, outgoingChanID: r.scidOut,
		obfuscator: NewMockObfuscator(), htlc: &lnwire.UpdateAddHTLC{PaymentHash: rhash, Amount: 1}}
	if err := r.s.ForwardPackets(nil, add); err != nil {
		return nil, err
	}
	select {
	case pkt := <-r.out.packets:
		if err := r.out.completeCircuit(pkt); err != nil {
			return nil, err
		}
	case <-time.After(5 * time.Second):
		return nil, fmt.Errorf("add not delivered to the outgoing link")
	}
	recs := []verifkit.Rec{{"a": "Reset", "kind": r.kind, "plan": name, "pending": r.s.circuits.NumPending(),
		"open": r.s.circuits.NumOpen(), "npkg": 0, "proc": 0, "acked": 0, "got": 0, "note": ""}}
	for _, st := range steps {
		// a step the real node refuses is recorded with what it shows, and the behaviour ends there: the
		// trace spec judges the recorded prefix
		got, err := r.step(st.A)
		note := ""
		if err != nil {
			note = err.Error()
		}
		recs = append(recs, r.observe(st.A, got, note))
		if err != nil {
			break
		}
	}
	return recs, nil
}

func (r *c08SwRun) step(a string) (int, error) {
	switch a {
	case "Pipe":
		if err := r.s.ForwardPackets(nil, r.response(false)); err != nil {
			return 0, err
		}
		return r.recvIn(), nil
	case "Revoke":
		return 0, r.writePkg()
	case "Hand":
		if err := r.s.ForwardPackets(nil, r.response(true)); err != nil {
			return 0, err
		}
		return r.recvIn(), nil
	case "Lock":
		// ReceiveRevocation, processRemoteSettleFails, processRemoteAdds (no adds: the filter only)
		if err := r.writePkg(); err != nil {
			return 0, err
		}
		if err := r.s.ForwardPackets(nil, r.response(true)); err != nil {
			return 0, err
		}
		got := r.recvIn()
		return got, r.setFilter()
	case "Commit":
		// (if the link holds nothing - the model says it must - there is nothing to commit;
		// the step is recorded all the same and the trace spec has already seen the difference)
		if r.held != nil {
			if err := r.in.completeCircuit(r.held); err != nil {
				return 0, err
			}
			r.held = nil
		}
	case "Tick":
		tk, ok := r.s.cfg.AckEventTicker.(*ticker.Force)
		if !ok {
			return 0, fmt.Errorf("no force ticker")
		}
		for i := 0; i < 2; i++ {
			select {
			case tk.Force <- time.Now():
			case <-time.After(5 * time.Second):
				return 0, fmt.Errorf("switch did not accept the ack tick")
			}
		}
		// let the forwarder finish the second tick's batch
		time.Sleep(20 * time.Millisecond)
	case "GC":
		// the real garbage collector of the outgoing channel's link (link start / FwdPkgGCTicker)
		return 0, r.gc.loadAndRemove()
	case "Restart":
		if err := r.s.Stop(); err != nil {
			return 0, err
		}
		r.held = nil
		if err := r.boot(); err != nil {
			return 0, err
		}
		return r.recvIn(), nil
	}
	return 0, nil
}

func TestVerifC08SwitchAck(t *testing.T) {
	dir := os.Getenv("VERIF_SWACK")
	if dir == "" {
		t.Skip("no VERIF_SWACK schedule dir")
	}
	out := verifkit.Env("VERIF_OUT", os.TempDir())
	w := verifkit.MustWriter(filepath.Join(out, "trace_switch.ndjson"))
	defer w.Close()
	var mu sync.Mutex
	sem := make(chan struct{}, verifkit.EnvInt("VERIF_PAR", 3))
	t.Run("runs", func(gt *testing.T) {
		for _, f := range verifkit.ListFiles(dir, "b_", ".ndjson") {
			f := f
			steps, err := verifkit.ReadNDJSONInto[c08SwStep](f)
			if err != nil || len(steps) == 0 {
				t.Fatalf("schedule %s: %v", f, err)
			}
			gt.Run(filepath.Base(f), func(st *testing.T) {
				st.Parallel()
				sem <- struct{}{}
				defer func() { <-sem }()
				recs, err := c08SwExec(st, filepath.Base(f), steps)
				if err != nil {
					st.Fatalf("%s: %v", f, err)
				}
				mu.Lock()
				for _, r := range recs {
					w.Emit(r)
				}
				mu.Unlock()
			})
		}
	})
}
