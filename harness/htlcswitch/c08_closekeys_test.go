//go:build verif

package htlcswitch

import (
	"context"
	"crypto/sha256"
	"fmt"
	"os"
	"path/filepath"
	"sync"
	"testing"
	"time"

	"github.com/btcsuite/btcd/btcec/v2"
	"github.com/btcsuite/btcd/btcutil/v2"
	"github.com/btcsuite/btcd/wire/v2"
	"github.com/lightningnetwork/lnd/chanstate"
	"github.com/lightningnetwork/lnd/contractcourt"
	"github.com/lightningnetwork/lnd/graph/db/models"
	"github.com/lightningnetwork/lnd/htlcswitch/hop"
	"github.com/lightningnetwork/lnd/internal/verifkit"
	"github.com/lightningnetwork/lnd/lnwallet"
	"github.com/lightningnetwork/lnd/lnwire"
	"github.com/lightningnetwork/lnd/ticker"
)

// C08, incoming-link executor (spec/Forwarding/CloseKeys.tla): a real lnwallet channel pair (our node = alice,
// the upstream peer = bob) with N HTLCs offered by bob and locked in, a real Switch (circuit map) on alice's
// database holding one open circuit per HTLC, and a real channelLink over alice's channel that is never
// started: the executor calls the link's own critical sections synchronously -
//   Deliver       channelLink.handleDownstreamPkt of the settle/fail (SettleHTLC/FailHTLC with the circuit key,
//                 SignNextCommitment, ackDownStreamPackets -> DeleteCircuits, CommitSig to the peer)
//   DeliverCrash  the same with the node dying between the signature write and DeleteCircuits: the link's
//                 CircuitModifier refuses the deletion (the link fails), nothing else of that instance is used
//   PeerAck       the messages the link sent are applied to bob's channel, bob revokes and signs back (lnwallet
//                 level on both ends)
//   Restart       a new Switch on the same database, both channels re-created from disk, a new link, and the
//                 link's own syncChanStates with bob's channel_reestablish in its mailbox
// and records what the real node shows: circuits in the circuit map, the keys syncChanStates passed to
// DeleteCircuits, the HTLCs on alice's commitment.  No judgement here: CloseKeysTrace.tla judges.

type c08CkStep struct {
	A     string   `json:"a"`
	K     int      `json:"k"`
	Kinds []string `json:"kinds"`
}

// c08CkCircuits is the link's view of the circuit map; armed, it stands for the node dying before the deletion.
type c08CkCircuits struct {
	CircuitModifier
	mu      sync.Mutex
	armed   bool
	deleted []CircuitKey
}

func (c *c08CkCircuits) DeleteCircuits(keys ...CircuitKey) error {
	c.mu.Lock()
	armed := c.armed
	if !armed {
		c.deleted = append(c.deleted, keys...)
	}
	c.mu.Unlock()
	if armed {
		return fmt.Errorf("verif: node stopped before DeleteCircuits")
	}
	return c.CircuitModifier.DeleteCircuits(keys...)
}

type c08CkRun struct {
	t        *testing.T
	n        int
	kinds    []string
	sw       *c08SwRun // switch construction (database, scids)
	aliceLc  *testLightningChannel
	bobLc    *testLightningChannel
	bob      *lnwallet.LightningChannel
	link     *channelLink
	peer     *mockPeer
	circuits *c08CkCircuits
	pre      [][32]byte
	failed   bool
}

func (r *c08CkRun) newLink(ch *lnwallet.LightningChannel) error {
	r.peer = &mockPeer{sentMsgs: make(chan lnwire.Message, 2000), quit: make(chan struct{})}
	r.circuits = &c08CkCircuits{CircuitModifier: r.sw.s.CircuitModifier()}
	r.failed = false
	obfuscator := NewMockObfuscator()
	s := r.sw.s
	cfg := ChannelLinkConfig{
		FwrdingPolicy: models.ForwardingPolicy{
			MinHTLCOut: lnwire.NewMSatFromSatoshis(5), MaxHTLC: lnwire.NewMSatFromSatoshis(btcutil.SatoshiPerBitcoin),
			BaseFee: lnwire.NewMSatFromSatoshis(1), TimeLockDelta: 6,
		},
		Peer:       r.peer,
		BestHeight: s.BestHeight,
		Circuits:   r.circuits,
		ForwardPackets: func(q <-chan struct{}, _ bool, packets ...*htlcPacket) error {
			return s.ForwardPackets(q, packets...)
		},
		DecodeHopIterators: newMockIteratorDecoder().DecodeHopIterators,
		ExtractErrorEncrypter: func(*btcec.PublicKey) (hop.ErrorEncrypter, lnwire.FailCode) {
			return obfuscator, lnwire.CodeNone
		},
		FetchLastChannelUpdate: mockGetChanUpdateMessage,
		PreimageCache:          newMockPreimageCache(),
		OnChannelFailure: func(lnwire.ChannelID, lnwire.ShortChannelID, LinkFailureError) {
			r.failed = true
		},
		UpdateContractSignals:      func(*contractcourt.ContractSignals) error { return nil },
		NotifyContractUpdate:       func(*contractcourt.ContractUpdate) error { return nil },
		Registry:                   newMockRegistry(r.t),
		FeeEstimator:               newMockFeeEstimator(),
		ChainEvents:                &contractcourt.ChainEventSubscription{},
		BatchTicker:                ticker.NewForce(time.Hour),
		FwdPkgGCTicker:             ticker.NewForce(time.Hour),
		PendingCommitTicker:        ticker.New(time.Hour),
		BatchSize:                  10000,
		MinUpdateTimeout:           30 * time.Minute,
		MaxUpdateTimeout:           40 * time.Minute,
		MaxOutgoingCltvExpiry:      DefaultMaxOutgoingCltvExpiry,
		MaxFeeAllocation:           DefaultMaxLinkFeeAllocation,
		NotifyActiveLink:           func(wire.OutPoint) {},
		NotifyActiveChannel:        func(wire.OutPoint) {},
		NotifyChannelUpdate:        func(*chanstate.OpenChannel) {},
		NotifyInactiveChannel:      func(wire.OutPoint) {},
		NotifyInactiveLinkEvent:    func(wire.OutPoint) {},
		HtlcNotifier:               s.cfg.HtlcNotifier,
		GetAliases:                 func(lnwire.ShortChannelID) []lnwire.ShortChannelID { return nil },
		ShouldFwdExpAccountability: func() bool { return true },
	}
	link, ok := NewChannelLink(cfg, ch).(*channelLink)
	if !ok {
		return fmt.Errorf("not a channelLink")
	}
	link.AttachMailBox(s.mailOrchestrator.GetOrCreateMailBox(link.ChanID(), link.ShortChanID()))
	r.link = link
	return nil
}

func (r *c08CkRun) inKey(k int) CircuitKey {
	return CircuitKey{ChanID: r.sw.scidIn, HtlcID: uint64(k - 1)}
}

// response is the settle/fail of HTLC k as the switch hands it to the incoming link (closeCircuit has filled
// in the incoming half from the circuit).
func (r *c08CkRun) response(k int) *htlcPacket {
	pkt := &htlcPacket{incomingChanID: r.sw.scidIn, incomingHTLCID: uint64(k - 1), outgoingChanID: r.sw.scidOut,
		outgoingHTLCID: uint64(k - 1), obfuscator: NewMockObfuscator()}
	if r.kinds[k-1] == "settle" {
		pkt.htlc = &lnwire.UpdateFulfillHTLC{PaymentPreimage: r.pre[k-1]}
	} else {
		pkt.htlc = &lnwire.UpdateFailHTLC{Reason: make([]byte, 292)}
	}
	return pkt
}

// peerAck applies what the link sent to bob's channel and completes the exchange on both ends.
func (r *c08CkRun) peerAck() error {
	ctx := context.Background()
	alice := r.link.channel
	for {
		var msg lnwire.Message
		select {
		case msg = <-r.peer.sentMsgs:
		default:
			return nil
		}
		switch m := msg.(type) {
		case *lnwire.UpdateFulfillHTLC:
			if err := r.bob.ReceiveHTLCSettle(m.PaymentPreimage, m.ID); err != nil {
				return fmt.Errorf("bob settle: %w", err)
			}
		case *lnwire.UpdateFailHTLC:
			if err := r.bob.ReceiveFailHTLC(m.ID, m.Reason); err != nil {
				return fmt.Errorf("bob fail: %w", err)
			}
		case *lnwire.CommitSig:
			err := r.bob.ReceiveNewCommitment(&lnwallet.CommitSigs{CommitSig: m.CommitSig, HtlcSigs: m.HtlcSigs,
				PartialSig: m.PartialSig})
			if err != nil {
				return fmt.Errorf("bob commit_sig: %w", err)
			}
			rev, _, _, err := r.bob.RevokeCurrentCommitment()
			if err != nil {
				return fmt.Errorf("bob revoke: %w", err)
			}
			if _, _, err := alice.ReceiveRevocation(rev); err != nil {
				return fmt.Errorf("alice revocation: %w", err)
			}
			sig, err := r.bob.SignNextCommitment(ctx)
			if err != nil {
				return fmt.Errorf("bob sign: %w", err)
			}
			if err := alice.ReceiveNewCommitment(sig.CommitSigs); err != nil {
				return fmt.Errorf("alice commit_sig: %w", err)
			}
			arev, _, _, err := alice.RevokeCurrentCommitment()
			if err != nil {
				return fmt.Errorf("alice revoke: %w", err)
			}
			if _, _, err := r.bob.ReceiveRevocation(arev); err != nil {
				return fmt.Errorf("bob revocation: %w", err)
			}
		}
	}
}

func (r *c08CkRun) restart() ([]int, error) {
	if err := r.sw.s.Stop(); err != nil {
		return nil, err
	}
	s, err := r.sw.newSwitch()
	if err != nil {
		return nil, err
	}
	if err := s.Start(); err != nil {
		return nil, err
	}
	r.sw.s = s
	alice, err := r.aliceLc.restore()
	if err != nil {
		return nil, err
	}
	if r.bob, err = r.bobLc.restore(); err != nil {
		return nil, err
	}
	if err := r.newLink(alice); err != nil {
		return nil, err
	}
	reest, err := r.bob.State().ChanSyncMsg()
	if err != nil {
		return nil, err
	}
	if err := r.link.mailBox.AddMessage(reest); err != nil {
		return nil, err
	}
	done := make(chan error, 1)
	go func() { done <- r.link.syncChanStates(context.Background()) }()
	select {
	case err := <-done:
		if err != nil {
			return nil, fmt.Errorf("syncChanStates: %w", err)
		}
	case <-time.After(15 * time.Second):
		return nil, fmt.Errorf("syncChanStates did not return")
	}
	r.circuits.mu.Lock()
	defer r.circuits.mu.Unlock()
	closed := []int{}
	for _, key := range r.circuits.deleted {
		closed = append(closed, int(key.HtlcID)+1)
	}
	return closed, nil
}

func (r *c08CkRun) observe(a string, k int, closed []int, note string) verifkit.Rec {
	circs, active := []int{}, []int{}
	for i := 1; i <= r.n; i++ {
		if r.sw.s.circuits.LookupCircuit(r.inKey(i)) != nil {
			circs = append(circs, i)
		}
	}
	for _, h := range r.link.channel.State().LocalCommitment.Htlcs {
		if h.Incoming {
			active = append(active, int(h.HtlcIndex)+1)
		}
	}
	return verifkit.Rec{"a": a, "k": k, "kinds": r.kinds, "circs": circs, "closed": closed, "active": active,
		"nopen": r.sw.s.circuits.NumOpen(), "failed": r.failed, "note": note}
}

func c08CkExec(t *testing.T, name string, steps []c08CkStep) ([]verifkit.Rec, error) {
	r := &c08CkRun{t: t, kinds: steps[0].Kinds, n: len(steps[0].Kinds), sw: &c08SwRun{t: t}}
	_, _, r.sw.scidIn, r.sw.scidOut = genIDs()
	const amt = btcutil.SatoshiPerBitcoin
	var err error
	if r.aliceLc, r.bobLc, err = createTestChannel(t, alicePrivKey, bobPrivKey, amt, amt, 0, 0, r.sw.scidIn); err != nil {
		return nil, err
	}
	r.bob = r.bobLc.channel
	r.sw.cdb = testChannelStateDB(t, r.aliceLc.channel).GetParentDB()
	if r.sw.s, err = r.sw.newSwitch(); err != nil {
		return nil, err
	}
	if err := r.sw.s.Start(); err != nil {
		return nil, err
	}
	defer func() { _ = r.sw.s.Stop() }()
	// bob offers the HTLCs, both ends lock them in; one open circuit each towards the outgoing channel
	for k := 1; k <= r.n; k++ {
		pre := [32]byte{byte(k), 8}
		r.pre = append(r.pre, pre)
		hash := sha256.Sum256(pre[:])
		add := &lnwire.UpdateAddHTLC{ID: uint64(k - 1), PaymentHash: hash, Amount: lnwire.NewMSatFromSatoshis(100000),
			Expiry: 500}
		if _, err := r.bob.AddHTLC(add, nil); err != nil {
			return nil, fmt.Errorf("setup: bob add: %w", err)
		}
		if _, err := r.aliceLc.channel.ReceiveHTLC(add); err != nil {
			return nil, fmt.Errorf("setup: alice receive: %w", err)
		}
	}
	if err := lnwallet.ForceStateTransition(r.bob, r.aliceLc.channel); err != nil {
		return nil, fmt.Errorf("setup: lock-in: %w", err)
	}
	for k := 1; k <= r.n; k++ {
		hash := sha256.Sum256(r.pre[k-1][:])
		circuit := newPaymentCircuit(&hash, &htlcPacket{incomingChanID: r.sw.scidIn, incomingHTLCID: uint64(k - 1),
			outgoingChanID: r.sw.scidOut, obfuscator: NewMockObfuscator(),
			htlc: &lnwire.UpdateAddHTLC{PaymentHash: hash, Amount: lnwire.NewMSatFromSatoshis(99000)}})
		if acts, err := r.sw.s.circuits.CommitCircuits(circuit); err != nil || len(acts.Adds) != 1 {
			return nil, fmt.Errorf("setup: CommitCircuits: %v", err)
		}
		err := r.sw.s.circuits.OpenCircuits(Keystone{InKey: circuit.Incoming,
			OutKey: CircuitKey{ChanID: r.sw.scidOut, HtlcID: uint64(k - 1)}})
		if err != nil {
			return nil, fmt.Errorf("setup: OpenCircuits: %w", err)
		}
	}
	if err := r.newLink(r.aliceLc.channel); err != nil {
		return nil, err
	}
	first := r.observe("Reset", 0, []int{}, "")
	first["plan"] = name
	recs := []verifkit.Rec{first}
	ctx := context.Background()
	for _, st := range steps {
		// a step the real node refuses is recorded with what it shows, and the behaviour ends there
		var err error
		closed := []int{}
		switch st.A {
		case "Deliver":
			r.link.handleDownstreamPkt(ctx, r.response(st.K))
		case "DeliverCrash":
			r.circuits.mu.Lock()
			r.circuits.armed = true
			r.circuits.mu.Unlock()
			r.link.handleDownstreamPkt(ctx, r.response(st.K))
		case "PeerAck":
			err = r.peerAck()
		case "Restart":
			closed, err = r.restart()
			if closed == nil {
				closed = []int{}
			}
		}
		note := ""
		if err != nil {
			note = err.Error()
		}
		recs = append(recs, r.observe(st.A, st.K, closed, note))
		if err != nil {
			break
		}
	}
	return recs, nil
}

func TestVerifC08CloseKeys(t *testing.T) {
	dir := os.Getenv("VERIF_CLOSEKEYS")
	if dir == "" {
		t.Skip("no VERIF_CLOSEKEYS schedule dir")
	}
	out := verifkit.Env("VERIF_OUT", os.TempDir())
	w := verifkit.MustWriter(filepath.Join(out, "trace_closekeys.ndjson"))
	defer w.Close()
	var mu sync.Mutex
	sem := make(chan struct{}, verifkit.EnvInt("VERIF_PAR", 3))
	t.Run("runs", func(gt *testing.T) {
		for _, f := range verifkit.ListFiles(dir, "b_", ".ndjson") {
			f := f
			steps, err := verifkit.ReadNDJSONInto[c08CkStep](f)
			if err != nil || len(steps) == 0 {
				t.Fatalf("schedule %s: %v", f, err)
			}
			gt.Run(filepath.Base(f), func(st *testing.T) {
				st.Parallel()
				sem <- struct{}{}
				defer func() { <-sem }()
				recs, err := c08CkExec(st, filepath.Base(f), steps)
				if err != nil {
					st.Fatalf("%s: %v", f, err)
				}
				mu.Lock()
				for _, r := range recs {
					w.Emit(r)
				}
				mu.Unlock()
			})
		}
	})
}
