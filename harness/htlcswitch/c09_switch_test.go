//go:build verif

package htlcswitch

import (
	"crypto/sha256"
	"fmt"
	"os"
	"path/filepath"
	"sync"
	"testing"
	"time"

	"github.com/btcsuite/btcd/btcutil/v2"
	"github.com/btcsuite/btcd/wire/v2"
	"github.com/lightningnetwork/lnd/chainntnfs"
	"github.com/lightningnetwork/lnd/fn/v2"
	"github.com/lightningnetwork/lnd/graph/db/models"
	"github.com/lightningnetwork/lnd/htlcswitch/hop"
	"github.com/lightningnetwork/lnd/internal/verifkit"
	"github.com/lightningnetwork/lnd/lntest/mock"
	"github.com/lightningnetwork/lnd/lnwire"
)

// C09, switch-level executor (spec/ForwardPolicy/SwitchPolicy.tla).
//
// The node under test is Bob: ONE real htlcswitch.Switch with REAL channelLinks
// on real lnwallet channels -
//
//	c1, c2  parallel channels Bob -> Carol (c2 funded with little bandwidth)
//	c3      channel Bob -> Alice (another peer)
//	c4      a third channel Bob -> Carol without a short channel id: its link,
//	        when registered, is a pending link
//
// every one of them with a real link at the remote peer as well (the package's
// mockServer fixture), so that Bob's links reestablish and become eligible the
// way they do in production.  HTLCs enter through Switch.ForwardPackets from a
// mock incoming link (which is where the switch hands failures back).  A wire
// tap at the remote peers sees on which channel update_add_htlc leaves Bob and
// swallows it together with the commit_sig that follows: the peers stay silent,
// so an HTLC that was handed over stays in Bob's channel and the spendable
// bandwidth only ever goes down.  Block epochs reach the switch the way they do
// in production: through the epoch stream it registered with the chain notifier
// (any height, also lower than the one before - a reorg).
//
// The executor replays TLC-generated schedules (SwitchPolicyGen) and records
// after every step what the real code shows.  Field copies only, no judgement:
// SwitchPolicyTrace.tla is the judge.

type c09swPol struct {
	Base  uint64 `json:"base"`
	Rate  uint64 `json:"rate"`
	MinH  uint64 `json:"minH"`
	MaxH  uint64 `json:"maxH"`
	Delta uint32 `json:"delta"`
}

type c09swHtlc struct {
	In     uint64 `json:"in"`
	Out    uint64 `json:"out"`
	InExp  uint32 `json:"inExp"`
	OutExp uint32 `json:"outExp"`
	IBase  int32  `json:"ibase"`
	IRate  int32  `json:"irate"`
}

type c09swStep struct {
	A    string            `json:"a"`
	C    string            `json:"c"`
	Set  map[string]int    `json:"set"`
	Pol  c09swPol          `json:"pol"`
	RT   string            `json:"rt"`
	RX   string            `json:"rx"`
	H    c09swHtlc         `json:"h"`
	HN   uint32            `json:"hn"` // Epoch: the height of the block epoch
	Init map[string]string `json:"init"`
}

// what is written per step (every field on every line)
type c09swRec struct {
	c09swStep
	Plan   string              `json:"plan"`
	Res    string              `json:"res"`
	To     string              `json:"to"`
	V      string              `json:"v"`
	Reg    map[string]string   `json:"reg"`
	Enf    map[string]c09swPol `json:"enf"`
	El     map[string]int      `json:"el"`
	Bw     map[string]uint64   `json:"bw"`
	Height uint32              `json:"height"`
	Note   string              `json:"note"`
}

var c09swNames = []string{"c1", "c2", "c3", "c4"}

// spendable bandwidth (msat) the channels are funded with: SwitchPolicy.Bw0
var c09swBw = map[string]uint64{"c1": 1000000, "c2": 3000, "c3": 1000000, "c4": 1000000}

func (p c09swPol) policy() models.ForwardingPolicy {
	return models.ForwardingPolicy{
		MinHTLCOut:    lnwire.MilliSatoshi(p.MinH),
		MaxHTLC:       lnwire.MilliSatoshi(p.MaxH),
		BaseFee:       lnwire.MilliSatoshi(p.Base),
		FeeRate:       lnwire.MilliSatoshi(p.Rate),
		TimeLockDelta: p.Delta,
	}
}

func c09swPolOf(p models.ForwardingPolicy) c09swPol {
	return c09swPol{Base: uint64(p.BaseFee), Rate: uint64(p.FeeRate), MinH: uint64(p.MinHTLCOut),
		MaxH: uint64(p.MaxHTLC), Delta: p.TimeLockDelta}
}

type c09swChan struct {
	name          string
	peer          *mockServer
	bobCh, peerCh *testLightningChannel
	scid          lnwire.ShortChannelID
	chanID        lnwire.ChannelID
	link          *channelLink            // Bob's link while registered
	adv           models.ForwardingPolicy // the advertised policy (the executor plays graph + peer)
}

type c09swTap struct {
	cid  lnwire.ChannelID
	hash [32]byte
}

type c09swNet struct {
	t                 *testing.T
	hn                *hopNetwork
	alice, bob, carol *mockServer
	dec               map[*mockServer]*mockIteratorDecoder
	chans             map[string]*c09swChan
	byID              map[lnwire.ChannelID]string
	in                *mockChannelLink
	inScid            lnwire.ShortChannelID
	taps              chan c09swTap
	htlcID            uint64
	plan              string

	// while a link pair is being added to the running servers the peers'
	// channel_reestablish messages are held back until both links exist
	// (a connection is only handed to the links once both sides are up)
	holdMu sync.Mutex
	hold   bool
	held   []c09swHeld
}

type c09swHeld struct {
	to  *mockServer
	msg lnwire.Message
}

var c09swScidSeq struct {
	sync.Mutex
	n uint64
}

// c09swFund creates a channel in which Bob (the initiator) can spend exactly
// bw msat; the bandwidth is what the real channel reports.
func c09swFund(t *testing.T, peerKey []byte, bw uint64, scid lnwire.ShortChannelID) (
	*testLightningChannel, *testLightningChannel, error) {

	want := btcutil.Amount(bw / 1000)
	sat := want + 12816
	for try := 0; try < 6; try++ {
		b, p, err := createTestChannel(t, bobPrivKey, peerKey, sat, btcutil.SatoshiPerBitcoin/100, 0, 0, scid)
		if err != nil {
			return nil, nil, err
		}
		got := uint64(b.channel.AvailableBalance())
		if got == bw {
			return b, p, nil
		}
		sat += want - btcutil.Amount(got/1000)
		if got == 0 {
			sat += 10000
		}
	}
	return nil, nil, fmt.Errorf("cannot fund a channel with bandwidth %d msat", bw)
}

func c09swBuild(t *testing.T, p0 c09swPol, init map[string]string) (*c09swNet, error) {
	n := &c09swNet{t: t, hn: newHopNetwork(), chans: map[string]*c09swChan{},
		byID: map[lnwire.ChannelID]string{}, taps: make(chan c09swTap, 256),
		dec: map[*mockServer]*mockIteratorDecoder{}}
	var err error
	for _, s := range []struct {
		name string
		dst  **mockServer
	}{{"alice", &n.alice}, {"bob", &n.bob}, {"carol", &n.carol}} {
		if *s.dst, err = newMockServer(t, s.name, testStartingHeight, nil, n.hn.defaultDelta); err != nil {
			return nil, err
		}
		n.dec[*s.dst] = newMockIteratorDecoder()
	}
	// the wire tap: where does update_add_htlc leave Bob?  The peers never answer.
	tap := func(to *mockServer) messageInterceptor {
		return func(m lnwire.Message) (bool, error) {
			switch x := m.(type) {
			case *lnwire.UpdateAddHTLC:
				select {
				case n.taps <- c09swTap{x.ChanID, x.PaymentHash}:
				default:
				}
				return true, nil
			case *lnwire.CommitSig:
				return true, nil
			case *lnwire.ChannelReestablish:
				n.holdMu.Lock()
				defer n.holdMu.Unlock()
				if n.hold {
					n.held = append(n.held, c09swHeld{to, m})
					return true, nil
				}
			}
			return false, nil
		}
	}
	n.alice.intersect(tap(n.alice))
	n.carol.intersect(tap(n.carol))
	n.bob.intersect(tap(n.bob))

	c09swScidSeq.Lock()
	base := 500000 + 16*c09swScidSeq.n
	c09swScidSeq.n++
	c09swScidSeq.Unlock()
	for i, name := range c09swNames {
		c := &c09swChan{name: name, peer: n.carol, adv: p0.policy()}
		key := carolPrivKey
		if name == "c3" {
			c.peer, key = n.alice, alicePrivKey
		}
		c.scid = lnwire.NewShortChanIDFromInt(base + uint64(i))
		if name == "c4" {
			c.scid = hop.Source
		}
		if c.bobCh, c.peerCh, err = c09swFund(t, key, c09swBw[name], c.scid); err != nil {
			return nil, err
		}
		c.chanID = lnwire.NewChanIDFromOutPoint(c.bobCh.channel.ChannelPoint())
		n.chans[name] = c
		n.byID[c.chanID] = name
	}
	for _, name := range c09swNames {
		if init[name] == "live" || init[name] == "pending" {
			if err := n.addLink(n.chans[name], false); err != nil {
				return nil, err
			}
		}
	}
	for _, s := range []*mockServer{n.alice, n.bob, n.carol} {
		if err := s.Start(); err != nil {
			return nil, err
		}
	}
	t.Cleanup(func() {
		for _, s := range []*mockServer{n.alice, n.bob, n.carol} {
			_ = s.Stop()
		}
	})
	for _, name := range c09swNames {
		if init[name] == "live" {
			n.waitEligible(n.chans[name])
		}
	}
	// the incoming side: a mock link of a fourth peer; the switch hands failures to it
	dave, err := newMockServer(t, "dave", testStartingHeight, nil, n.hn.defaultDelta)
	if err != nil {
		return nil, err
	}
	inID, _ := genID()
	n.inScid = lnwire.NewShortChanIDFromInt(base + 15)
	n.in = newMockChannelLink(n.bob.htlcSwitch, inID, n.inScid, emptyScid, dave, true, false, false, false)
	if err := n.bob.htlcSwitch.AddLink(n.in); err != nil {
		return nil, err
	}
	return n, nil
}

// addLink does what the peer does when a channel becomes usable: it creates the
// link with the policy currently advertised for the channel and registers it in
// the switch (the remote side first, so that both reestablish).
func (n *c09swNet) addLink(c *c09swChan, wait bool) error {
	n.holdMu.Lock()
	n.hold = true
	n.holdMu.Unlock()
	defer func() {
		n.holdMu.Lock()
		held := n.held
		n.hold, n.held = false, nil
		n.holdMu.Unlock()
		for _, h := range held {
			_ = h.to.SendMessage(false, h.msg)
		}
		if wait {
			n.waitEligible(c)
		}
	}()
	n.hn.globalPolicy = c.adv
	if _, err := n.hn.createChannelLink(c.peer, n.bob, c.peerCh.channel, n.dec[c.peer]); err != nil {
		return err
	}
	l, err := n.hn.createChannelLink(n.bob, c.peer, c.bobCh.channel, n.dec[n.bob])
	if err != nil {
		return err
	}
	c.link = l.(*channelLink)
	return nil
}

func (n *c09swNet) waitEligible(c *c09swChan) {
	if c.link == nil || c.link.ShortChanID() == hop.Source {
		return
	}
	for i := 0; i < 1000 && !c.link.EligibleToForward(); i++ {
		time.Sleep(10 * time.Millisecond)
	}
}

func (n *c09swNet) bandwidths() map[string]uint64 {
	bw := map[string]uint64{}
	for _, name := range c09swNames {
		bw[name] = 0
		if l := n.chans[name].link; l != nil {
			bw[name] = uint64(l.Bandwidth())
		}
	}
	return bw
}

// observe copies what the real switch and the real links show.
func (n *c09swNet) observe(st c09swStep, bw map[string]uint64) c09swRec {
	s := n.bob.htlcSwitch
	r := c09swRec{c09swStep: st, Plan: n.plan, Res: "-", To: "-", V: "-", Reg: map[string]string{},
		Enf: map[string]c09swPol{}, El: map[string]int{}, Bw: bw, Height: s.BestHeight()}
	for _, name := range c09swNames {
		c := n.chans[name]
		r.Reg[name], r.Enf[name], r.El[name] = "none", c09swPol{}, 0
		s.indexMtx.RLock()
		var reg ChannelLink
		if l, ok := s.linkIndex[c.chanID]; ok {
			r.Reg[name], reg = "live", l
		} else if l, ok := s.pendingLinkIndex[c.chanID]; ok {
			r.Reg[name], reg = "pending", l
		}
		s.indexMtx.RUnlock()
		if l, ok := reg.(*channelLink); ok {
			l.RLock()
			r.Enf[name] = c09swPolOf(l.cfg.FwrdingPolicy)
			l.RUnlock()
			if l.EligibleToForward() {
				r.El[name] = 1
			}
		}
	}
	return r
}

// forward injects one HTLC into Bob's switch and waits for what the switch does
// with it: update_add_htlc on one of the channels, or a failure handed to the
// incoming link.
func (n *c09swNet) forward(st c09swStep) (res, to, v string) {
	n.htlcID++
	id := n.htlcID
	pre := [32]byte{9, byte(id), byte(id >> 8)}
	hash := sha256.Sum256(pre[:])
	pkt := &htlcPacket{
		incomingChanID:  n.inScid,
		incomingHTLCID:  id,
		incomingAmount:  lnwire.MilliSatoshi(st.H.In),
		amount:          lnwire.MilliSatoshi(st.H.Out),
		incomingTimeout: st.H.InExp,
		outgoingTimeout: st.H.OutExp,
		inboundFee:      models.InboundFee{Base: st.H.IBase, Rate: st.H.IRate},
		obfuscator:      NewMockObfuscator(),
		htlc: &lnwire.UpdateAddHTLC{PaymentHash: hash, Amount: lnwire.MilliSatoshi(st.H.Out),
			Expiry: st.H.OutExp},
	}
	switch st.RT {
	case "chan":
		c := n.chans[st.RX]
		if c == nil {
			return "none", "-", "bad-request"
		}
		pkt.outgoingChanID = c.scid
		pkt.outgoingHop = fn.NewLeft[lnwire.ShortChannelID, [33]byte](c.scid)
	case "node":
		peer := n.carol
		if st.RX == "alice" {
			peer = n.alice
		}
		pkt.outgoingChanID = hop.Exit
		pkt.outgoingHop = fn.NewRight[lnwire.ShortChannelID, [33]byte](peer.PubKey())
	default:
		return "none", "-", "bad-request"
	}
	if err := n.bob.htlcSwitch.ForwardPackets(nil, pkt); err != nil {
		return "none", "-", "ForwardPackets-error"
	}
	deadline := time.After(5 * time.Second)
	for {
		select {
		case x := <-n.taps:
			if x.hash == hash {
				name, ok := n.byID[x.cid]
				if !ok {
					name = "unknown"
				}
				return "fwd", name, "ok"
			}
		case p := <-n.in.packets:
			if p.incomingHTLCID == id {
				// (the add itself arriving here means the switch chose the
				// incoming link as the outgoing one)
				if _, isAdd := p.htlc.(*lnwire.UpdateAddHTLC); isAdd {
					return "fwd", "in", "ok"
				}
				return "fail", "-", c09Verdict(p.linkFailure)
			}
		case <-deadline:
			return "none", "-", "-"
		}
	}
}

// c09swEpoch delivers one block epoch of the given height to a started switch
// through the epoch stream of its chain notifier.  The stream is unbuffered and
// the forwarder stores the height before it returns to its select, so a second
// delivery of the same tip (the notifier re-delivers tips: the model's Epoch(h)
// taken twice) returns only after the first has been fully processed.
func c09swEpoch(s *Switch, h uint32) string {
	notifier, ok := s.cfg.Notifier.(*mock.ChainNotifier)
	if !ok {
		return "no mock notifier"
	}
	for i := 0; i < 2; i++ {
		select {
		case notifier.EpochChan <- &chainntnfs.BlockEpoch{Height: int32(h)}:
		case <-time.After(5 * time.Second):
			return "epoch not consumed"
		}
	}
	return ""
}

func c09swExec(t *testing.T, plan string, steps []c09swStep) ([]c09swRec, error) {
	if len(steps) == 0 || steps[0].A != "Reset" {
		return nil, fmt.Errorf("%s: a schedule starts with Reset", plan)
	}
	n, err := c09swBuild(t, steps[0].Pol, steps[0].Init)
	if err != nil {
		return nil, err
	}
	n.plan = plan
	s := n.bob.htlcSwitch
	recs := []c09swRec{n.observe(steps[0], n.bandwidths())}
	for _, st := range steps[1:] {
		bw := n.bandwidths()
		res, to, v, note := "-", "-", "-", ""
		c := n.chans[st.C]
		switch st.A {
		case "Upd":
			m := map[wire.OutPoint]models.ForwardingPolicy{}
			for _, name := range c09swNames {
				if st.Set[name] == 1 {
					ch := n.chans[name]
					ch.adv = st.Pol.policy()
					m[ch.bobCh.channel.ChannelPoint()] = ch.adv
				}
			}
			s.UpdateForwardingPolicies(m)
		case "Add":
			if c != nil && c.link == nil {
				if err := n.addLink(c, true); err != nil {
					note = "AddLink: " + err.Error()
				}
			}
		case "Remove":
			if c != nil {
				s.RemoveLink(c.chanID)
				c.link = nil
			}
		case "Flush":
			if c != nil && c.link != nil {
				c.link.DisableAdds(Outgoing)
			}
		case "Unflush":
			if c != nil && c.link != nil {
				c.link.EnableAdds(Outgoing)
			}
		case "Epoch":
			note = c09swEpoch(s, st.HN)
		case "Fwd":
			res, to, v = n.forward(st)
		default:
			note = "unknown step"
		}
		r := n.observe(st, bw)
		r.Res, r.To, r.V, r.Note = res, to, v, note
		recs = append(recs, r)
	}
	return recs, nil
}

// TestVerifC09Switch replays the schedules of VERIF_SWPOL (one file per
// behaviour) and writes trace_switch.ndjson.
func TestVerifC09Switch(t *testing.T) {
	dir := os.Getenv("VERIF_SWPOL")
	if dir == "" {
		t.Skip("no VERIF_SWPOL schedule dir")
	}
	w := verifkit.MustWriter(filepath.Join(verifkit.Env("VERIF_OUT", os.TempDir()), "trace_switch.ndjson"))
	defer w.Close()
	var mu sync.Mutex
	sem := make(chan struct{}, verifkit.EnvInt("VERIF_PAR", 4))
	t.Run("runs", func(gt *testing.T) {
		for _, f := range verifkit.ListFiles(dir, "b_", ".ndjson") {
			f := f
			steps, err := verifkit.ReadNDJSONInto[c09swStep](f)
			if err != nil || len(steps) == 0 {
				t.Fatalf("schedule %s: %v", f, err)
			}
			gt.Run(filepath.Base(f), func(st *testing.T) {
				st.Parallel()
				sem <- struct{}{}
				defer func() { <-sem }()
				recs, err := c09swExec(st, filepath.Base(f), steps)
				if err != nil {
					st.Fatalf("%s: %v", f, err)
				}
				mu.Lock()
				for _, r := range recs {
					w.Emit(r)
				}
				mu.Unlock()
			})
		}
	})
}
