//go:build verif

package htlcswitch

import (
	"context"
	"crypto/sha256"
	"fmt"
	"os"
	"path/filepath"
	"sync"
	"sync/atomic"
	"testing"
	"time"

	"github.com/btcsuite/btcd/btcec/v2/ecdsa"
	"github.com/btcsuite/btcd/wire/v2"
	"github.com/lightningnetwork/lnd/chainntnfs"
	"github.com/lightningnetwork/lnd/channeldb"
	"github.com/lightningnetwork/lnd/chanstate"
	"github.com/lightningnetwork/lnd/clock"
	"github.com/lightningnetwork/lnd/contractcourt"
	"github.com/lightningnetwork/lnd/internal/verifkit"
	"github.com/lightningnetwork/lnd/kvdb"
	"github.com/lightningnetwork/lnd/lntest/mock"
	"github.com/lightningnetwork/lnd/lnwire"
	"github.com/lightningnetwork/lnd/ticker"
)

// C07, switch-level RESPONSE executor (spec/CircuitMap/SwitchResponse.tla): one real Switch (real
// htlcForwarder goroutine, circuit map, resolution-message store, mail orchestrator and mailboxes)
// over a bolt database that also holds the forwarding packages of the outgoing channels.  N HTLCs of
// one incoming channel have an open circuit (keystone on disk) towards the outgoing channels, the last
// ones only a half-open circuit (committed, no keystone; loaded from disk by the initial restart).  The
// harness plays the links and contractcourt: an outgoing link writes the settle/fail of a forwarding
// package and forwards it (Switch.ForwardPackets), contractcourt calls ProcessContractResolution, the
// incoming link (the package's mock link) is added / removed, takes responses from its mailbox and
// commits them (package acks, DeleteCircuits, mailbox acks); a restart stops the switch and builds a
// new one on the same database (New + Start: cleanClosedChannels, reforwardResponses,
// reforwardResolutions).  Which channels are open / waiting close / fully closed is harness state that
// the switch reads through FetchAllChannels / FetchClosedChannels.
//
// Every step is a synchronous call followed by a barrier through the forwarder goroutine (a close
// request for an unknown channel, answered in order), then the executor records what the real switch
// shows.  No judgement here: SwitchResponseTrace.tla judges.

type c07rsStep struct {
	A string `json:"a"`
	K int    `json:"k"`
}

const c07rsWait = 5 * time.Second

var (
	c07rsChanIn = lnwire.ChannelID{0x07, 0x01}
	c07rsScidIn = lnwire.NewShortChanIDFromInt(50)
)

func c07rsScidOut(c int) lnwire.ShortChannelID { return lnwire.NewShortChanIDFromInt(uint64(100 + c)) }

type c07rsRun struct {
	t    *testing.T
	n     int
	nout  int
	nhalf int // the last nhalf HTLCs have a half-open circuit (no keystone)
	peer  *mockServer
	raw  kvdb.Backend
	vdb  *verifkit.DB // the switch's database: numbered transactions, a transaction can be made to fail
	cdb  *channeldb.DB
	s    *Switch

	cst   []string // per outgoing channel (index c-1): open | closing | closed
	outID []uint64 // outgoing htlc id of HTLC k on its channel
	pre   [][32]byte

	link *mockChannelLink // the incoming link instance that is registered, or nil
	log  []*htlcPacket    // responses it took and has not committed
	done []int            // responses committed on the incoming channel, per HTLC

	note   string // the executor could not perform a step / the switch is stuck
	gaveUp bool   // something the schedule counts on did not happen: recorded as such, the behaviour ends
}

func (r *c07rsRun) oc(k int) int { return k%r.nout + 1 }

func (r *c07rsRun) newSwitch() (*Switch, error) {
	cfg := Config{
		DB: r.cdb,
		// no channel state below the switch: nothing to trim (CircuitMap module)
		FetchAllOpenChannels: func() ([]*chanstate.OpenChannel, error) { return nil, nil },
		FetchAllChannels: func() ([]*chanstate.OpenChannel, error) {
			var res []*chanstate.OpenChannel
			for c := 1; c <= r.nout; c++ {
				if r.cst[c-1] != "closed" {
					res = append(res, &chanstate.OpenChannel{ShortChannelID: c07rsScidOut(c)})
				}
			}
			return res, nil
		},
		FetchClosedChannels: func(pendingOnly bool) ([]*chanstate.ChannelCloseSummary, error) {
			var res []*chanstate.ChannelCloseSummary
			for c := 1; c <= r.nout; c++ {
				switch {
				case r.cst[c-1] == "closing":
					res = append(res, &chanstate.ChannelCloseSummary{ShortChanID: c07rsScidOut(c), IsPending: true})
				case r.cst[c-1] == "closed" && !pendingOnly:
					res = append(res, &chanstate.ChannelCloseSummary{ShortChanID: c07rsScidOut(c)})
				}
			}
			return res, nil
		},
		SwitchPackager: channeldb.NewSwitchPackager(),
		FwdingLog:      &mockForwardingLog{events: make(map[time.Time]channeldb.ForwardingEvent)},
		FetchLastChannelUpdate: func(scid lnwire.ShortChannelID) (*lnwire.ChannelUpdate1, error) {
			return &lnwire.ChannelUpdate1{ShortChannelID: scid}, nil
		},
		Notifier: &mock.ChainNotifier{
			SpendChan: make(chan *chainntnfs.SpendDetail),
			EpochChan: make(chan *chainntnfs.BlockEpoch),
			ConfChan:  make(chan *chainntnfs.TxConfirmation),
		},
		// the tickers only tick when the schedule says so
		FwdEventTicker:         ticker.NewForce(time.Hour),
		LogEventTicker:         ticker.NewForce(time.Hour),
		AckEventTicker:         ticker.NewForce(time.Hour),
		HtlcNotifier:           &mockHTLCNotifier{},
		Clock:                  clock.NewDefaultClock(),
		MailboxDeliveryTimeout: time.Hour,
		MaxFeeExposure:         DefaultMaxFeeExposure,
		SignAliasUpdate: func(*lnwire.ChannelUpdate1) (*ecdsa.Signature, error) {
			return testSig, nil
		},
		IsAlias: isAlias,
	}
	return New(cfg, testStartingHeight)
}

func newC07rsRun(t *testing.T, peer *mockServer, n, nout, nhalf int) (*c07rsRun, error) {
	r := &c07rsRun{t: t, n: n, nout: nout, nhalf: nhalf, peer: peer, cst: make([]string, nout), outID: make([]uint64, n),
		pre: make([][32]byte, n), done: make([]int, n)}
	for c := range r.cst {
		r.cst[c] = "open"
	}
	raw, err := kvdb.GetBoltBackend(&kvdb.BoltBackendConfig{
		DBPath: t.TempDir(), DBFileName: "channel.db", NoFreelistSync: true, DBTimeout: time.Minute,
	})
	if err != nil {
		return nil, err
	}
	r.raw = raw
	r.vdb = verifkit.Wrap(raw)
	if r.cdb, err = channeldb.CreateWithBackend(r.vdb); err != nil {
		return nil, err
	}
	if r.s, err = r.newSwitch(); err != nil {
		return nil, err
	}
	if err = r.s.Start(); err != nil {
		return nil, err
	}
	// the initial state of the model: every HTLC has a circuit; all but the last nhalf are open (keystone written)
	next := make([]uint64, nout)
	for k := 0; k < n; k++ {
		c := r.oc(k)
		r.pre[k] = [32]byte{byte(k + 1), 0x07}
		hash := sha256.Sum256(r.pre[k][:])
		circuit := newPaymentCircuit(&hash, r.addPacket(k))
		acts, err := r.s.circuits.CommitCircuits(circuit)
		if err != nil || len(acts.Adds) != 1 {
			return nil, fmt.Errorf("setup: CommitCircuits: %v", err)
		}
		if r.half(k) {
			continue
		}
		r.outID[k] = next[c-1]
		next[c-1]++
		err = r.s.circuits.OpenCircuits(Keystone{
			InKey:  circuit.Incoming,
			OutKey: CircuitKey{ChanID: c07rsScidOut(c), HtlcID: r.outID[k]},
		})
		if err != nil {
			return nil, fmt.Errorf("setup: OpenCircuits: %v", err)
		}
	}
	return r, nil
}

func (r *c07rsRun) half(k int) bool { return k >= r.n-r.nhalf }

// addPacket is the add of HTLC k as the incoming link forwards it from its forwarding package.
func (r *c07rsRun) addPacket(k int) *htlcPacket {
	hash := sha256.Sum256(r.pre[k][:])
	return &htlcPacket{
		incomingChanID: c07rsScidIn, incomingHTLCID: uint64(k), outgoingChanID: c07rsScidOut(r.oc(k)),
		sourceRef:      &channeldb.AddRef{Height: 1, Index: uint16(k)},
		incomingAmount: 2000, amount: 1000, incomingTimeout: 500, outgoingTimeout: 460,
		obfuscator: NewMockObfuscator(),
		htlc:       &lnwire.UpdateAddHTLC{PaymentHash: hash, Amount: 1000, Expiry: 460},
	}
}

func (r *c07rsRun) close() {
	_ = r.s.Stop()
	_ = r.cdb.Close()
}

// barrier returns once the forwarder goroutine has finished everything that was handed to it before.
func (r *c07rsRun) barrier() {
	_, errc := r.s.CloseLink(context.Background(), &wire.OutPoint{Index: 7777}, contractcourt.CloseRegular, 0, 0, nil)
	select {
	case <-errc:
	case <-time.After(c07rsWait):
		r.note = "stuck: the forwarder does not answer"
	}
}

// response is the settle (even HTLCs) or fail (odd HTLCs) the remote sent on the outgoing channel.
func (r *c07rsRun) response(k int) lnwire.Message {
	if k%2 == 0 {
		return &lnwire.UpdateFulfillHTLC{ID: r.outID[k], PaymentPreimage: r.pre[k]}
	}
	return &lnwire.UpdateFailHTLC{ID: r.outID[k], Reason: lnwire.OpaqueReason("remote failure")}
}

// enc names a packet the way the trace spec does: 2k (+1 if it carries a reference into a forwarding package).
func (r *c07rsRun) enc(pkt *htlcPacket) int {
	e := 2 * int(pkt.incomingHTLCID)
	if pkt.destRef != nil {
		e++
	}
	return e
}

func (r *c07rsRun) step(st c07rsStep) (tk int, serr string) {
	tk = -1
	fail := func(err error) {
		if err != nil {
			serr = err.Error()
			r.gaveUp = true
		}
	}
	if st.A == "ResolveFail" || st.A == "AckTickFail" {
		r.vdb.FailAt(1) // the transaction of this step fails
	}
	switch st.A {
	case "OffChain":
		// the outgoing link locks the remote's settle/fail in (forwarding package of that commitment
		// height) and forwards it to the switch: processRemoteSettleFails
		k := st.K
		scid := c07rsScidOut(r.oc(k))
		pkg := channeldb.NewFwdPkg(scid, uint64(k+1), nil, []channeldb.LogUpdate{{
			LogIndex: r.outID[k], UpdateMsg: r.response(k),
		}})
		err := kvdb.Update(r.cdb, func(tx kvdb.RwTx) error {
			return channeldb.NewChannelPackager(scid).AddFwdPkg(tx, pkg)
		}, func() {})
		if err != nil {
			r.note = "AddFwdPkg: " + err.Error()
			return
		}
		ref := pkg.DestRef(0)
		fail(r.s.ForwardPackets(nil, &htlcPacket{
			outgoingChanID: scid, outgoingHTLCID: r.outID[k], destRef: &ref, htlc: r.response(k),
		}))
	case "OutFwd":
		// the re-created outgoing link replays the un-acked settle/fails of its packages
		pkgs, err := r.s.loadChannelFwdPkgs(c07rsScidOut(st.K))
		if err != nil {
			r.note = "loadChannelFwdPkgs: " + err.Error()
			return
		}
		var pkts []*htlcPacket
		for _, pkg := range pkgs {
			for i, u := range pkg.SettleFails {
				if pkg.SettleFailFilter.Contains(uint16(i)) {
					continue
				}
				ref := pkg.DestRef(uint16(i))
				var id uint64
				switch m := u.UpdateMsg.(type) {
				case *lnwire.UpdateFulfillHTLC:
					id = m.ID
				case *lnwire.UpdateFailHTLC:
					id = m.ID
				}
				pkts = append(pkts, &htlcPacket{
					outgoingChanID: pkg.Source, outgoingHTLCID: id, destRef: &ref, htlc: u.UpdateMsg,
				})
			}
		}
		fail(r.s.ForwardPackets(nil, pkts...))
	case "Resolve", "ResolveFail":
		k := st.K
		msg := contractcourt.ResolutionMsg{SourceChan: c07rsScidOut(r.oc(k)), HtlcIndex: r.outID[k]}
		if k%2 == 0 {
			pre := r.pre[k]
			msg.PreImage = &pre
		} else {
			msg.Failure = &lnwire.FailPermanentChannelFailure{}
		}
		err := r.s.ProcessContractResolution(msg)
		if st.A == "ResolveFail" {
			if err != nil {
				serr = err.Error() // expected: recorded, the behaviour goes on
			}
			break
		}
		fail(err)
	case "AckTick", "AckTickFail":
		select {
		case r.s.cfg.AckEventTicker.(*ticker.Force).Force <- time.Now():
		case <-time.After(c07rsWait):
			r.note = "stuck: the forwarder does not take the ack tick"
			return
		}
	case "Replay":
		// the incoming link replays the adds of its forwarding package that are not answered yet: here
		// the ones whose circuit never got a keystone
		var pkts []*htlcPacket
		for k := 0; k < r.n; k++ {
			if r.half(k) && r.done[k] == 0 {
				pkts = append(pkts, r.addPacket(k))
			}
		}
		fail(r.s.ForwardPackets(nil, pkts...))
	case "AddLink":
		l := newMockChannelLink(r.s, c07rsChanIn, c07rsScidIn, emptyScid, r.peer, true, false, false, false)
		if err := r.s.AddLink(l); err != nil {
			fail(err)
			break
		}
		r.link, r.log = l, nil
	case "RemoveLink":
		r.s.RemoveLink(c07rsChanIn)
		r.link, r.log = nil, nil
	case "Take":
		if r.link == nil {
			r.note = "Take: no incoming link"
			return
		}
		select {
		case pkt := <-r.link.packets:
			tk = r.enc(pkt)
			r.log = append(r.log, pkt)
		case <-time.After(c07rsWait):
			r.gaveUp = true // nothing is delivered: recorded as such
		}
	case "InCommit":
		if r.link == nil {
			r.note = "InCommit: no incoming link"
			return
		}
		// the responses are on the incoming channel's commitment, and with them the acks of the
		// outgoing packages (one transaction in the real link) ...
		var keys []CircuitKey
		var refs []channeldb.SettleFailRef
		for _, pkt := range r.log {
			r.done[pkt.incomingHTLCID]++
			keys = append(keys, pkt.inKey())
			if pkt.destRef != nil {
				refs = append(refs, *pkt.destRef)
			}
		}
		if len(refs) > 0 {
			err := kvdb.Update(r.cdb, func(tx kvdb.RwTx) error {
				return r.s.cfg.SwitchPackager.AckSettleFails(tx, refs...)
			}, func() {})
			if err != nil {
				r.note = "AckSettleFails: " + err.Error()
				return
			}
		}
		// ... then ackDownStreamPackets: DeleteCircuits, mailbox acks
		if err := r.s.circuits.DeleteCircuits(keys...); err != nil {
			fail(err)
			break
		}
		for _, key := range keys {
			r.link.mailBox.AckPacket(key)
		}
		r.log = nil
	case "CloseChan":
		r.cst[st.K-1] = "closing"
	case "FullyClose":
		r.cst[st.K-1] = "closed"
	case "Restart":
		if err := r.s.Stop(); err != nil {
			r.note = "Stop: " + err.Error()
			return
		}
		r.link, r.log = nil, nil
		s, err := r.newSwitch()
		if err != nil {
			fail(err)
			r.note = "New: " + err.Error()
			return
		}
		r.s = s
		if err := r.s.Start(); err != nil {
			r.note = "Start: " + err.Error()
			return
		}
	default:
		r.note = "unknown step " + st.A
		return
	}
	r.barrier()
	return
}

func (r *c07rsRun) packager(c int) *channeldb.ChannelPackager {
	return channeldb.NewChannelPackager(c07rsScidOut(c))
}

func (r *c07rsRun) observe(a string, k, tk int, serr, plan string) verifkit.Rec {
	cp, co, cl := make([]int, r.n), make([]int, r.n), []int{}
	cm := r.s.circuits.(*circuitMap)
	for i := 0; i < r.n; i++ {
		in := CircuitKey{ChanID: c07rsScidIn, HtlcID: uint64(i)}
		if r.s.circuits.LookupCircuit(in) != nil {
			cp[i] = 1
		}
		if !r.half(i) && r.s.circuits.LookupOpenCircuit(CircuitKey{ChanID: c07rsScidOut(r.oc(i)), HtlcID: r.outID[i]}) != nil {
			co[i] = 1
		}
		cm.mtx.RLock()
		if _, ok := cm.closed[in]; ok {
			cl = append(cl, i)
		}
		cm.mtx.RUnlock()
	}
	// HTLC of an outgoing key
	kOf := func(scid lnwire.ShortChannelID, id uint64) int {
		for i := 0; i < r.n; i++ {
			if !r.half(i) && c07rsScidOut(r.oc(i)) == scid && r.outID[i] == id {
				return i
			}
		}
		return -1
	}
	rs := make([]int, r.n)
	msgs, err := r.s.resMsgStore.fetchAllResolutionMsg()
	if err != nil && r.note == "" {
		r.note = "fetchAllResolutionMsg: " + err.Error()
	}
	for _, m := range msgs {
		if i := kOf(m.SourceChan, m.HtlcIndex); i >= 0 {
			rs[i]++
		}
	}
	pk := make([]int, r.n)
	err = kvdb.View(r.cdb, func(tx kvdb.RTx) error {
		for c := 1; c <= r.nout; c++ {
			pkgs, err := r.packager(c).LoadFwdPkgs(tx)
			if err != nil {
				return err
			}
			for _, pkg := range pkgs {
				i := int(pkg.Height) - 1
				if i < 0 || i >= r.n || len(pkg.SettleFails) != 1 {
					continue
				}
				pk[i] = 1
				if pkg.SettleFailFilter.Contains(0) {
					pk[i] = 2
				}
			}
		}
		return nil
	}, func() {})
	if err != nil && r.note == "" {
		r.note = "LoadFwdPkgs: " + err.Error()
	}
	mb, un, lv := []int{}, []int{}, 0
	mo := r.s.mailOrchestrator
	mo.mu.RLock()
	if _, ok := mo.liveIndex[c07rsScidIn]; ok {
		lv = 1
	}
	for _, pkt := range mo.unclaimedPackets[c07rsScidIn] {
		un = append(un, r.enc(pkt))
	}
	box, _ := mo.mailboxes[c07rsChanIn].(*memoryMailBox)
	mo.mu.RUnlock()
	if box != nil {
		box.pktCond.L.Lock()
		for e := box.repPkts.Front(); e != nil; e = e.Next() {
			mb = append(mb, r.enc(e.Value.(*htlcPacket)))
		}
		box.pktCond.L.Unlock()
	}
	up := 0
	r.s.indexMtx.RLock()
	if _, ok := r.s.linkIndex[c07rsChanIn]; ok {
		up = 1
	}
	r.s.indexMtx.RUnlock()
	psf := []int{}
	for _, ref := range r.s.pendingSettleFails {
		psf = append(psf, int(ref.Height)-1)
	}
	lg := []int{}
	for _, pkt := range r.log {
		lg = append(lg, r.enc(pkt))
	}
	return verifkit.Rec{"a": a, "k": k, "plan": plan, "note": r.note, "err": serr, "cp": cp, "co": co, "cl": cl,
		"rs": rs, "pk": pk, "mb": mb, "un": un, "lv": lv, "up": up, "psf": psf, "lg": lg,
		"dn": append([]int{}, r.done...), "tk": tk}
}

var c07rsGaveUp atomic.Int32

func c07rsExec(t *testing.T, peer *mockServer, name string, steps []c07rsStep, n, nout, nhalf int) ([]verifkit.Rec, error) {
	r, err := newC07rsRun(t, peer, n, nout, nhalf)
	if err != nil {
		return nil, err
	}
	defer r.close()
	// the setup is not a step of the model: start from a freshly started switch on the prepared database
	r.step(c07rsStep{A: "Restart"})
	recs := []verifkit.Rec{r.observe("Reset", -1, -1, "", name)}
	for _, st := range steps {
		if r.note != "" || r.gaveUp {
			break
		}
		tk, serr := r.step(st)
		recs = append(recs, r.observe(st.A, st.K, tk, serr, name))
	}
	if r.note != "" || r.gaveUp {
		c07rsGaveUp.Add(1)
	}
	return recs, nil
}

func TestVerifC07SwitchResponse(t *testing.T) {
	dir := os.Getenv("VERIF_C07_RESP")
	if dir == "" {
		t.Skip("no VERIF_C07_RESP schedule dir")
	}
	n, nout := verifkit.EnvInt("VERIF_C07_RESP_N", 3), verifkit.EnvInt("VERIF_C07_RESP_OUT", 2)
	nhalf := verifkit.EnvInt("VERIF_C07_RESP_HALF", 1)
	out := verifkit.Env("VERIF_OUT", os.TempDir())
	w := verifkit.MustWriter(filepath.Join(out, "trace_resp.ndjson"))
	defer w.Close()
	peer, err := newMockServer(t, "alice", testStartingHeight, nil, testDefaultDelta)
	if err != nil {
		t.Fatalf("fixture: %v", err)
	}
	var mu sync.Mutex
	sem := make(chan struct{}, verifkit.EnvInt("VERIF_PAR", 4))
	t.Run("runs", func(gt *testing.T) {
		for _, f := range verifkit.ListFiles(dir, "b_", ".ndjson") {
			f := f
			steps, err := verifkit.ReadNDJSONInto[c07rsStep](f)
			if err != nil || len(steps) == 0 {
				t.Fatalf("schedule %s: %v", f, err)
			}
			gt.Run(filepath.Base(f), func(st *testing.T) {
				st.Parallel()
				sem <- struct{}{}
				defer func() { <-sem }()
				if c07rsGaveUp.Load() >= 6 {
					return
				}
				recs, err := c07rsExec(st, peer, filepath.Base(f), steps, n, nout, nhalf)
				if err != nil {
					st.Fatalf("%s: fixture: %v", f, err)
				}
				mu.Lock()
				for _, r := range recs {
					w.Emit(r)
				}
				mu.Unlock()
			})
		}
	})
}
