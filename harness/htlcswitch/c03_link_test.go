//go:build verif

package htlcswitch

// C03, link level (spec/Channel/LinkResync*.tla).  The executor runs TLC-generated schedules on TWO REAL
// channelLinks (Alice's and Bob's end of one real channel, each with its own real Switch, circuit map,
// mailbox, invoice registry and channel database - the package's own fixtures) whose outgoing messages
// are captured by the peer object instead of being delivered: the SCHEDULE decides which message is
// handed to the other link (HandleChannelUpdate, as peer.Brontide does) and when the connection drops
// (all undelivered messages of both directions are lost, both links are stopped and re-created on the
// channel state reloaded from the database, SyncStates = true, PreviouslySentShutdown from the persisted
// ShutdownInfo - what peer.Brontide does when a peer reconnects).  The peer-layer glue around `shutdown`
// (MarkShutdownSent + DisableAdds(Outgoing) + OnCommitOnce(Outgoing, send) on our side, DisableAdds(Incoming)
// + the reply + OnFlushedOnce on receipt) follows peer/brontide.go.
//
// After every primitive step the executor waits until the links are idle (a sentinel message through the
// same mailbox; the packet courier's heads), then records ONE line: the step, what each link emitted
// during the step, link-failure callbacks, link exits, and a field-copy projection of both real
// LightningChannels / links.  It decides nothing: spec/Channel/LinkResyncTrace.tla is the judge.

import (
	"context"
	"crypto/sha256"
	"errors"
	"fmt"
	"os"
	"path/filepath"
	"runtime"
	"sort"
	"strings"
	"sync"
	"sync/atomic"
	"testing"
	"time"

	"github.com/btcsuite/btcd/btcec/v2"
	"github.com/btcsuite/btcd/btcutil/v2"
	"github.com/btcsuite/btcd/wire/v2"
	"github.com/lightningnetwork/lnd/channeldb"
	"github.com/lightningnetwork/lnd/chanstate"
	"github.com/lightningnetwork/lnd/contractcourt"
	"github.com/lightningnetwork/lnd/fn/v2"
	"github.com/lightningnetwork/lnd/htlcswitch/hop"
	"github.com/lightningnetwork/lnd/internal/verifkit"
	"github.com/lightningnetwork/lnd/lnpeer"
	"github.com/lightningnetwork/lnd/lntypes"
	"github.com/lightningnetwork/lnd/lnwallet"
	"github.com/lightningnetwork/lnd/lnwallet/chainfee"
	"github.com/lightningnetwork/lnd/lnwire"
	"github.com/lightningnetwork/lnd/ticker"
)

const (
	c03lCap     = btcutil.Amount(3_000_000) // satoshi per side
	c03lHtlcAmt = lnwire.MilliSatoshi(20_000_000)
)

type c03lRec = verifkit.Rec

// c03lStep is one schedule line.
type c03lStep struct {
	A string `json:"a"` // Cfg | Add | Tick | Deliver | Shutdown | Fee | Decide | Flap | Drain
	P string `json:"p"` // A | B (the link that acts / receives)
	// Add: 1 = invoice known (settled at the exit), 0 = unknown hash (failed at the exit), 2 = hold invoice;
	// Fee: sat/kw; Decide: the payment (1-based, in the order of the Add steps)
	X int `json:"x"`
	Y int `json:"y"` // Decide: 1 = settle the hold invoice, 0 = cancel it
}

// c03lMsg is the projection of one wire message.
type c03lMsg struct {
	K string `json:"k"`
	H int    `json:"h"`
	X int    `json:"x"`
	Y int    `json:"y"`
}

func c03lDescribe(m lnwire.Message) c03lMsg {
	switch x := m.(type) {
	case *lnwire.UpdateAddHTLC:
		return c03lMsg{K: "add", H: int(x.ID)}
	case *lnwire.UpdateFulfillHTLC:
		return c03lMsg{K: "settle", H: int(x.ID)}
	case *lnwire.UpdateFailHTLC:
		return c03lMsg{K: "fail", H: int(x.ID)}
	case *lnwire.UpdateFailMalformedHTLC:
		return c03lMsg{K: "failmalformed", H: int(x.ID)}
	case *lnwire.CommitSig:
		return c03lMsg{K: "sig", X: len(x.HtlcSigs)}
	case *lnwire.RevokeAndAck:
		return c03lMsg{K: "rev"}
	case *lnwire.ChannelReestablish:
		return c03lMsg{K: "reest", X: int(x.NextLocalCommitHeight), Y: int(x.RemoteCommitTailHeight)}
	case *lnwire.ChannelReady:
		return c03lMsg{K: "ready"}
	case *lnwire.Shutdown:
		return c03lMsg{K: "shutdown"}
	case *lnwire.Error:
		return c03lMsg{K: "error"}
	case *lnwire.Warning:
		return c03lMsg{K: "warning"}
	case *lnwire.UpdateFee:
		return c03lMsg{K: "fee", X: int(x.FeePerKw)}
	}
	return c03lMsg{K: fmt.Sprintf("%T", m)}
}

// c03lTicker is a batch ticker that only fires when the schedule says so; it remembers whether the
// link has it resumed (the real ticker delivers ticks only while resumed).
type c03lTicker struct {
	force  chan time.Time
	active atomic.Bool
}

var _ ticker.Ticker = (*c03lTicker)(nil)

func (t *c03lTicker) Ticks() <-chan time.Time { return t.force }
func (t *c03lTicker) Resume()                 { t.active.Store(true) }
func (t *c03lTicker) Pause()                  { t.active.Store(false) }
func (t *c03lTicker) Stop()                   { t.active.Store(false) }

// c03lSentinel is a message no link acts on (it ends in handleUpstreamMsg's default arm).  The link
// calls MsgType on it when it takes it off the mailbox: every message delivered before it has then
// been handled completely (the htlcManager is sequential, the mailbox FIFO).
type c03lSentinel struct {
	lnwire.Warning
	hit  chan struct{}
	once sync.Once
}

func (s *c03lSentinel) MsgType() lnwire.MessageType {
	pcs := make([]uintptr, 24)
	n := runtime.Callers(2, pcs)
	frames := runtime.CallersFrames(pcs[:n])
	for {
		f, more := frames.Next()
		if strings.HasSuffix(f.Function, ".handleUpstreamMsg") {
			s.once.Do(func() { close(s.hit) })
			break
		}
		if !more {
			break
		}
	}
	return lnwire.MsgWarning
}

// c03lPeer is the peer object of one link for one connection: it captures what the link sends.
type c03lPeer struct {
	*mockServer // the remote node (identity only)
	run         *c03lRun
	from        int
	epoch       int
}

var _ lnpeer.Peer = (*c03lPeer)(nil)

func (p *c03lPeer) SendMessage(sync bool, msgs ...lnwire.Message) error {
	r := p.run
	r.mu.Lock()
	defer r.mu.Unlock()
	if p.epoch != r.epoch {
		return errors.New("peer disconnected")
	}
	for _, m := range msgs {
		r.q[p.from] = append(r.q[p.from], m)
		r.emitted[p.from] = append(r.emitted[p.from], c03lDescribe(m))
		r.nsent[p.from]++
	}
	return nil
}

func (p *c03lPeer) SendMessageLazy(sync bool, msgs ...lnwire.Message) error {
	return p.SendMessage(sync, msgs...)
}

type c03lPay struct {
	side int
	seq  int
	kind int
	pre  lntypes.Preimage
	dec  bool // hold invoice: settled / cancelled by a Decide step
	hash lntypes.Hash
	mu   sync.Mutex
	res  string
}

func (p *c03lPay) set(s string) { p.mu.Lock(); p.res = s; p.mu.Unlock() }
func (p *c03lPay) get() string  { p.mu.Lock(); defer p.mu.Unlock(); return p.res }

type c03lSide struct {
	name    string
	server  *mockServer
	tc      *testLightningChannel
	link    *channelLink
	peer    *c03lPeer
	tick    *c03lTicker
	exited  chan struct{}
	gotSync bool // the peer's channel_reestablish has been handed to the link of this connection
}

type c03lRun struct {
	t       *testing.T
	hn      *hopNetwork
	sides   [2]*c03lSide
	mu      sync.Mutex
	epoch   int
	q       [2][]lnwire.Message
	emitted [2][]c03lMsg
	fails   [2][]string
	events  [2][]string
	pays    []*c03lPay
	npay    [2]int
	nsent   [2]int // messages sent by each side so far
	recs    []c03lRec
	abort   string
	dead    bool // a link reported a failure or left its main loop
}

func c03lName(i int) string { return [2]string{"A", "B"}[i] }

func c03lIdx(p string) int {
	if p == "B" {
		return 1
	}
	return 0
}

// newLink creates (and starts, through Switch.AddLink) the link of side i on the given channel: the
// fixture's createChannelLink with the capturing peer, a schedule-driven batch ticker and recording
// callbacks.
func (r *c03lRun) newLink(i int, channel *lnwallet.LightningChannel) error {
	s := r.sides[i]
	other := r.sides[1-i]
	s.peer = &c03lPeer{mockServer: other.server, run: r, from: i, epoch: r.epoch}
	s.tick = &c03lTicker{force: make(chan time.Time)}
	exited := make(chan struct{})
	s.exited = exited
	s.gotSync = false
	var exitOnce sync.Once
	server := s.server
	h := r.hn

	// what peer.Brontide does for a channel loaded from disk: the shutdown we sent earlier is handed
	// to the link
	prev := fn.None[lnwire.Shutdown]()
	info, err := channel.State().ShutdownInfo()
	if err != nil && !errors.Is(err, channeldb.ErrNoShutdownInfo) {
		return err
	}
	info.WhenSome(func(si channeldb.ShutdownInfo) {
		chanID := lnwire.NewChanIDFromOutPoint(channel.State().FundingOutpoint)
		prev = fn.Some(*lnwire.NewShutdown(chanID, si.DeliveryScript.Val))
	})

	forwardPackets := func(linkQuit <-chan struct{}, _ bool, packets ...*htlcPacket) error {
		return server.htlcSwitch.ForwardPackets(linkQuit, packets...)
	}
	//nolint:ll
	link := NewChannelLink(
		ChannelLinkConfig{
			BestHeight:         server.htlcSwitch.BestHeight,
			FwrdingPolicy:      h.globalPolicy,
			Peer:               s.peer,
			Circuits:           server.htlcSwitch.CircuitModifier(),
			ForwardPackets:     forwardPackets,
			DecodeHopIterators: newMockIteratorDecoder().DecodeHopIterators,
			ExtractErrorEncrypter: func(*btcec.PublicKey) (hop.ErrorEncrypter, lnwire.FailCode) {
				return NewMockObfuscator(), lnwire.CodeNone
			},
			FetchLastChannelUpdate: mockGetChanUpdateMessage,
			Registry:               server.registry,
			FeeEstimator:           h.feeEstimator,
			PreimageCache:          server.pCache,
			UpdateContractSignals: func(*contractcourt.ContractSignals) error {
				return nil
			},
			NotifyContractUpdate: func(*contractcourt.ContractUpdate) error { return nil },
			ChainEvents:          &contractcourt.ChainEventSubscription{},
			SyncStates:           true,
			BatchSize:            10,
			BatchTicker:          s.tick,
			FwdPkgGCTicker:       ticker.NewForce(time.Hour),
			PendingCommitTicker:  ticker.New(time.Hour),
			MinUpdateTimeout:     30 * time.Minute,
			MaxUpdateTimeout:     40 * time.Minute,
			OnChannelFailure: func(_ lnwire.ChannelID, _ lnwire.ShortChannelID, e LinkFailureError) {
				r.mu.Lock()
				r.fails[i] = append(r.fails[i], e.Error())
				r.mu.Unlock()
			},
			OutgoingCltvRejectDelta: 3,
			MaxOutgoingCltvExpiry:   DefaultMaxOutgoingCltvExpiry,
			MaxFeeAllocation:        DefaultMaxLinkFeeAllocation,
			MaxAnchorsCommitFeeRate: chainfee.SatPerKVByte(10 * 1000).FeePerKWeight(),
			NotifyActiveLink:        func(wire.OutPoint) {},
			NotifyActiveChannel:     func(wire.OutPoint) {},
			NotifyInactiveChannel:   func(wire.OutPoint) {},
			NotifyInactiveLinkEvent: func(wire.OutPoint) {
				exitOnce.Do(func() { close(exited) })
			},
			NotifyChannelUpdate:        func(*chanstate.OpenChannel) {},
			HtlcNotifier:               server.htlcSwitch.cfg.HtlcNotifier,
			GetAliases:                 func(lnwire.ShortChannelID) []lnwire.ShortChannelID { return nil },
			ShouldFwdExpAccountability: func() bool { return true },
			PreviouslySentShutdown:     prev,
		},
		channel,
	)
	s.link = link.(*channelLink)
	return server.htlcSwitch.AddLink(link)
}

func (s *c03lSide) hasExited() bool {
	select {
	case <-s.exited:
		return true
	default:
		return false
	}
}

// idle waits until link i has nothing left to do: the packet courier has handed over every packet,
// and a sentinel sent through the wire mailbox has been taken by the htlcManager.
func (r *c03lRun) idle(i int) {
	s := r.sides[i]
	if s.link == nil || !s.gotSync {
		return
	}
	for round := 0; round < 2; round++ {
		if s.hasExited() {
			return
		}
		if mb, ok := s.link.mailBox.(*memoryMailBox); ok {
			busy := true
			for start := time.Now(); busy && time.Since(start) < 30*time.Second; {
				mb.pktCond.L.Lock()
				busy = mb.repHead != nil || mb.addHead != nil
				mb.pktCond.L.Unlock()
				if !busy || s.hasExited() {
					busy = false
					break
				}
				time.Sleep(250 * time.Microsecond)
			}
			if busy {
				r.abort = "link " + s.name + " did not take its mailbox packets"
				return
			}
		}
		sn := &c03lSentinel{hit: make(chan struct{})}
		s.link.HandleChannelUpdate(sn)
		select {
		case <-sn.hit:
		case <-s.exited:
			return
		case <-time.After(30 * time.Second):
			r.abort = "link " + s.name + " did not take the sentinel"
			return
		}
	}
}

func c03lHtlcs(self int, hs []channeldb.HTLC) [][]int {
	out := [][]int{}
	for _, h := range hs {
		off := self
		if h.Incoming {
			off = 1 - self
		}
		out = append(out, []int{off, int(h.HtlcIndex)})
	}
	sort.Slice(out, func(a, b int) bool {
		if out[a][0] != out[b][0] {
			return out[a][0] < out[b][0]
		}
		return out[a][1] < out[b][1]
	})
	return out
}

func c03lBit(b bool) int {
	if b {
		return 1
	}
	return 0
}

// project copies fields of the real channel / link of side i.
func (r *c03lRun) project(i int) c03lRec {
	s := r.sides[i]
	ch := s.link.channel
	st := ch.State()
	st.RLock()
	lc, rc := st.LocalCommitment, st.RemoteCommitment
	st.RUnlock()
	rec := c03lRec{
		"lh": int(lc.CommitHeight), "rth": int(rc.CommitHeight),
		"lhtlc": c03lHtlcs(i, lc.Htlcs), "rhtlc": c03lHtlcs(i, rc.Htlcs),
		"lbal": fmt.Sprint(uint64(lc.LocalBalance)), "lrbal": fmt.Sprint(uint64(lc.RemoteBalance)),
		"rbal": fmt.Sprint(uint64(rc.LocalBalance)), "rrbal": fmt.Sprint(uint64(rc.RemoteBalance)),
		"rp": 0, "rph": 0, "rphtlc": [][]int{}, "rpbal": "", "rprbal": "",
		"lfee": int(lc.FeePerKw), "rfee": int(rc.FeePerKw), "rpfee": 0,
	}
	if diff, err := st.RemoteCommitChainTip(); err == nil && diff != nil {
		rec["rp"] = 1
		rec["rph"] = int(diff.Commitment.CommitHeight)
		rec["rphtlc"] = c03lHtlcs(i, diff.Commitment.Htlcs)
		rec["rpbal"] = fmt.Sprint(uint64(diff.Commitment.LocalBalance))
		rec["rprbal"] = fmt.Sprint(uint64(diff.Commitment.RemoteBalance))
		rec["rpfee"] = int(diff.Commitment.FeePerKw)
	}
	rec["npl"] = int(ch.NumPendingUpdates(lntypes.Local, lntypes.Remote))
	rec["npr"] = int(ch.NumPendingUpdates(lntypes.Remote, lntypes.Local))
	rec["owe"] = c03lBit(ch.OweCommitment())
	rec["need"] = c03lBit(ch.NeedCommitment())
	rec["clean"] = c03lBit(ch.IsChannelClean())
	rec["inblk"] = c03lBit(s.link.IsFlushing(Incoming))
	rec["outblk"] = c03lBit(s.link.IsFlushing(Outgoing))
	rec["reest"] = c03lBit(s.link.isReestablished())
	rec["tk"] = c03lBit(s.tick.active.Load())
	rec["exited"] = c03lBit(s.hasExited())
	sh, err := st.ShutdownInfo()
	rec["shut"] = c03lBit(err == nil && sh.IsSome())
	return rec
}

// line records one primitive step.
func (r *c03lRun) line(a string, p string, x, y int, msg c03lMsg, res string) {
	r.idle(0)
	r.idle(1)
	r.mu.Lock()
	em := [2][]c03lMsg{r.emitted[0], r.emitted[1]}
	fl := [2][]string{r.fails[0], r.fails[1]}
	ev := [2][]string{r.events[0], r.events[1]}
	r.emitted, r.fails, r.events = [2][]c03lMsg{}, [2][]string{}, [2][]string{}
	ql := [2]int{len(r.q[0]), len(r.q[1])}
	r.mu.Unlock()
	nz := func(m []c03lMsg) []c03lMsg {
		if m == nil {
			return []c03lMsg{}
		}
		return m
	}
	ns := func(m []string) []string {
		if m == nil {
			return []string{}
		}
		return m
	}
	if len(fl[0])+len(fl[1]) > 0 || r.sides[0].hasExited() || r.sides[1].hasExited() {
		r.dead = true
	}
	r.recs = append(r.recs, c03lRec{
		"a": a, "p": p, "x": x, "y": y, "msg": msg, "res": res,
		"out":  c03lRec{"A": nz(em[0]), "B": nz(em[1])},
		"fail": c03lRec{"A": strings.Join(ns(fl[0]), " | "), "B": strings.Join(ns(fl[1]), " | ")},
		"ev":   c03lRec{"A": ns(ev[0]), "B": ns(ev[1])},
		"ql":   c03lRec{"A": ql[0], "B": ql[1]},
		"st":   c03lRec{"A": r.project(0), "B": r.project(1)},
	})
}

// connect (re)creates both links on the given channels and waits until each has sent its
// channel_reestablish (a link blocks in syncChanStates right after it).
func (r *c03lRun) connect(chans [2]*lnwallet.LightningChannel) error {
	for i := 0; i < 2; i++ {
		if err := r.newLink(i, chans[i]); err != nil {
			return err
		}
	}
	for start := time.Now(); ; {
		r.mu.Lock()
		n0, n1 := len(r.q[0]), len(r.q[1])
		r.mu.Unlock()
		if (n0 > 0 || r.sides[0].hasExited()) && (n1 > 0 || r.sides[1].hasExited()) {
			break
		}
		if time.Since(start) > 30*time.Second {
			return errors.New("a new link did not send channel_reestablish within 30 s")
		}
		time.Sleep(250 * time.Microsecond)
	}
	return nil
}

// flap: the connection drops (every undelivered message of both directions is lost), both links are
// stopped; the peers reconnect: both channels are reloaded from their databases, new links.
func (r *c03lRun) flap() error {
	r.mu.Lock()
	r.epoch++
	lost := [2]int{len(r.q[0]), len(r.q[1])}
	r.q = [2][]lnwire.Message{}
	r.mu.Unlock()
	_ = lost
	id := r.sides[0].link.ChanID()
	for i := 0; i < 2; i++ {
		r.sides[i].server.htlcSwitch.RemoveLink(id)
	}
	var chans [2]*lnwallet.LightningChannel
	for i := 0; i < 2; i++ {
		c, err := r.sides[i].tc.restore()
		if err != nil {
			return err
		}
		chans[i] = c
	}
	return r.connect(chans)
}

// add sends a payment of side i to the other side through side i's switch (as the router does).
func (r *c03lRun) add(i int, kind int) string {
	s, o := r.sides[i], r.sides[1-i]
	r.npay[i]++
	pay := &c03lPay{side: i, seq: r.npay[i], kind: kind}
	var pre lntypes.Preimage
	hh := sha256.Sum256([]byte(fmt.Sprintf("c03l-%d-%d-%p", i, pay.seq, r)))
	copy(pre[:], hh[:])
	pay.hash = pre.Hash()
	htlcAmt, timelock, hops := generateHops(c03lHtlcAmt, testStartingHeight, o.link)
	blob, err := generateRoute(hops...)
	if err != nil {
		return "harness: " + err.Error()
	}
	var payAddr [32]byte
	copy(payAddr[:], hh[:])
	pay.pre = pre
	invPre := &pre
	if kind == 2 {
		invPre = nil // a hold invoice
	}
	invoice, htlc, _, err := generatePaymentWithPreimage(c03lHtlcAmt, htlcAmt, timelock, blob, invPre, pay.hash, payAddr)
	if err != nil {
		return "harness: " + err.Error()
	}
	if kind >= 1 {
		if err := o.server.registry.AddInvoice(context.Background(), *invoice, pay.hash); err != nil {
			return "harness: " + err.Error()
		}
	}
	pid := uint64(1000*(i+1) + pay.seq)
	r.pays = append(r.pays, pay)
	if err := s.server.htlcSwitch.SendHTLC(s.link.ShortChanID(), pid, htlc); err != nil {
		pay.set("refused")
		return "refused"
	}
	pay.set("pending")
	go func() {
		rc, err := s.server.htlcSwitch.GetAttemptResult(pid, pay.hash, newMockDeobfuscator())
		if err != nil {
			pay.set("lost")
			return
		}
		res, ok := <-rc
		switch {
		case !ok:
			pay.set("lost")
		case res.Error != nil:
			pay.set("failed")
		default:
			pay.set("settled")
		}
	}()
	return "ok"
}

var c03lAddr = lnwire.DeliveryAddress{0x00, 0x14, 1, 2, 3, 4, 5, 6, 7, 8, 9, 10, 11, 12, 13, 14, 15, 16, 17, 18, 19, 20}

// shutdown: what peer.Brontide / the chan closer do when we send `shutdown` (initiating, or replying).
func (r *c03lRun) shutdown(i int, initiator bool) string {
	s := r.sides[i]
	if !s.link.isReestablished() || s.hasExited() {
		return "notready"
	}
	if err := s.link.channel.MarkShutdownSent(channeldb.NewShutdownInfo(c03lAddr, initiator)); err != nil {
		return "harness: " + err.Error()
	}
	s.link.DisableAdds(Outgoing)
	msg := lnwire.NewShutdown(s.link.ChanID(), c03lAddr)
	peer := s.peer
	s.link.OnCommitOnce(Outgoing, func() { _ = peer.SendMessage(false, msg) })
	return "ok"
}

// deliver hands the oldest undelivered message of the other side to link i.
func (r *c03lRun) deliver(i int) (c03lMsg, string) {
	s := r.sides[i]
	r.mu.Lock()
	if len(r.q[1-i]) == 0 {
		r.mu.Unlock()
		return c03lMsg{K: "none"}, "empty"
	}
	m := r.q[1-i][0]
	r.q[1-i] = r.q[1-i][1:]
	r.mu.Unlock()
	d := c03lDescribe(m)
	switch m.(type) {
	case *lnwire.ChannelReady:
		// goes to the funding manager, not to the link
		return d, "ok"
	case *lnwire.Shutdown:
		// peer.Brontide: incoming adds are disabled at once, our own shutdown is sent after the next
		// commit_sig we owe, and the closer waits for the flush
		s.link.DisableAdds(Incoming)
		res := "ok"
		if sh, err := s.link.channel.State().ShutdownInfo(); err != nil || sh.IsNone() {
			res = r.shutdown(i, false)
		}
		if s.link.isReestablished() && !s.hasExited() {
			s.link.OnFlushedOnce(func() {
				r.mu.Lock()
				r.events[i] = append(r.events[i], "flushed")
				r.mu.Unlock()
			})
		}
		return d, res
	}
	if _, ok := m.(*lnwire.ChannelReestablish); ok {
		s.gotSync = true
	}
	s.link.HandleChannelUpdate(m)
	return d, "ok"
}

// decide: the receiver's invoice registry settles / cancels the hold invoice of payment n (1-based).  A link
// that is in its main loop is given the time to react (it sends update_fulfill / update_fail) before the step
// is recorded; after a time-out the step is recorded as it is, for the trace spec to judge.
func (r *c03lRun) decide(n int, settle bool) string {
	if n < 1 || n > len(r.pays) {
		return "nopayment"
	}
	pay := r.pays[n-1]
	i := 1 - pay.side
	s := r.sides[i]
	running := s.link.isReestablished() && !s.hasExited()
	r.mu.Lock()
	m0 := r.nsent[i]
	r.mu.Unlock()
	var err error
	if settle {
		err = s.server.registry.SettleHodlInvoice(context.Background(), pay.pre)
	} else {
		err = s.server.registry.CancelInvoice(context.Background(), pay.hash)
	}
	if err != nil {
		return "err: " + err.Error()
	}
	pay.dec = true
	if running {
		deadline := time.Now().Add(8 * time.Second)
		for time.Now().Before(deadline) && !s.hasExited() {
			r.mu.Lock()
			done := r.nsent[i] > m0 || len(r.fails[i]) > 0
			r.mu.Unlock()
			if done {
				break
			}
			time.Sleep(250 * time.Microsecond)
		}
	}
	return "ok"
}

// fee: the update-fee timer of link i fires and the fee estimator answers `rate` (what the link then does is
// its own business: handleUpdateFee -> updateChannelFee on the initiator).
func (r *c03lRun) fee(i int, rate int) string {
	s := r.sides[i]
	if !s.link.isReestablished() || s.hasExited() {
		return "notready"
	}
	if !s.link.channel.IsInitiator() {
		return "notinitiator"
	}
	s.link.updateFeeTimer.Reset(time.Millisecond)
	for k, ch := range []chan chainfee.SatPerKWeight{r.hn.feeEstimator.byteFeeIn, r.hn.feeEstimator.relayFee} {
		v := chainfee.SatPerKWeight(rate)
		if k == 1 {
			v = chainfee.FeePerKwFloor
		}
		select {
		case ch <- v:
		case <-s.exited:
			return "exited"
		case <-time.After(10 * time.Second):
			r.abort = "link " + s.name + " did not sample the fee estimator"
			return "stuck"
		}
	}
	return "ok"
}

func (r *c03lRun) tickStep(i int) string {
	s := r.sides[i]
	if !s.tick.active.Load() || s.hasExited() {
		return "inactive"
	}
	select {
	case s.tick.force <- time.Now():
		return "ok"
	case <-s.exited:
		return "inactive"
	case <-time.After(5 * time.Second):
		return "stuck"
	}
}

func (r *c03lRun) anyFailure() bool { return r.dead }

// exec runs one schedule; the returned records start with the Reset line.
func c03lExec(t *testing.T, name string, run int, steps []c03lStep) []c03lRec {
	r := &c03lRun{t: t, hn: newHopNetwork()}
	_, _, scid, _ := genIDs()
	// a distinct short channel id per run keeps concurrently running fixtures apart
	scid.TxPosition = uint16(run % 60000)
	a, b, err := createTestChannel(t, alicePrivKey, bobPrivKey, c03lCap, c03lCap, 0, 0, scid)
	if err != nil {
		return []c03lRec{{"a": "Reset", "plan": name, "run": run}, {"a": "Abort", "why": err.Error()}}
	}
	tcs := [2]*testLightningChannel{a, b}
	dbs := [2]*channeldb.DB{
		testChannelStateDB(t, a.channel).GetParentDB(), testChannelStateDB(t, b.channel).GetParentDB(),
	}
	for i, nm := range []string{"alice", "bob"} {
		srv, err := newMockServer(t, nm, testStartingHeight, dbs[i], r.hn.defaultDelta)
		if err != nil {
			return []c03lRec{{"a": "Reset", "plan": name, "run": run}, {"a": "Abort", "why": err.Error()}}
		}
		r.sides[i] = &c03lSide{name: c03lName(i), server: srv, tc: tcs[i]}
	}
	r.recs = append(r.recs, c03lRec{"a": "Reset", "plan": name, "run": run, "amt": int(c03lHtlcAmt)})
	abort := func(why string) []c03lRec {
		r.recs = append(r.recs, c03lRec{"a": "Abort", "why": why})
		return r.recs
	}
	for i := 0; i < 2; i++ {
		if err := r.sides[i].server.Start(); err != nil {
			return abort("start: " + err.Error())
		}
	}
	defer func() {
		for i := 0; i < 2; i++ {
			_ = r.sides[i].server.Stop()
		}
	}()
	if err := r.connect([2]*lnwallet.LightningChannel{a.channel, b.channel}); err != nil {
		return abort("connect: " + err.Error())
	}
	r.line("Connect", "", 0, 0, c03lMsg{K: "none"}, "ok")

	prim := func(st c03lStep) bool {
		i := c03lIdx(st.P)
		switch st.A {
		case "Add":
			res := r.add(i, st.X)
			r.line("Add", st.P, st.X, 0, c03lMsg{K: "none"}, res)
		case "Tick":
			res := r.tickStep(i)
			r.line("Tick", st.P, 0, 0, c03lMsg{K: "none"}, res)
		case "Deliver":
			m, res := r.deliver(i)
			r.line("Deliver", st.P, 0, 0, m, res)
		case "Shutdown":
			res := r.shutdown(i, true)
			r.line("Shutdown", st.P, 0, 0, c03lMsg{K: "none"}, res)
		case "Fee":
			res := r.fee(i, st.X)
			r.line("Fee", st.P, st.X, 0, c03lMsg{K: "none"}, res)
		case "Decide":
			res := r.decide(st.X, st.Y == 1)
			r.line("Decide", st.P, st.X, st.Y, c03lMsg{K: "none"}, res)
		case "Flap":
			if err := r.flap(); err != nil {
				r.abort = "flap: " + err.Error()
				return false
			}
			r.line("Flap", "", 0, 0, c03lMsg{K: "none"}, "ok")
		}
		if r.abort != "" {
			return false
		}
		// a link failure ends the behaviour: the recorded prefix is judged
		return !r.anyFailure()
	}
	alive := true
	for _, st := range steps {
		if !alive {
			break
		}
		switch st.A {
		case "Cfg":
		case "Drain":
			// deliver and tick until nothing is left to do (bounded)
			for k := 0; k < 400 && alive; k++ {
				r.mu.Lock()
				n0, n1 := len(r.q[0]), len(r.q[1])
				r.mu.Unlock()
				switch {
				case n0 > 0:
					alive = prim(c03lStep{A: "Deliver", P: "B"})
				case n1 > 0:
					alive = prim(c03lStep{A: "Deliver", P: "A"})
				case r.sides[0].tick.active.Load():
					alive = prim(c03lStep{A: "Tick", P: "A"})
				case r.sides[1].tick.active.Load():
					alive = prim(c03lStep{A: "Tick", P: "B"})
				default:
					k = 400
				}
			}
		default:
			alive = prim(st)
		}
	}
	if r.abort != "" {
		return abort(r.abort)
	}
	// the end: payment results as the senders' switches report them (a short grace period for the
	// switch's own goroutines), invoice states at the receivers
	deadline := time.Now().Add(20 * time.Second)
	for alive && time.Now().Before(deadline) {
		pend := false
		for _, p := range r.pays {
			// (the sender of an undecided hold invoice keeps waiting: that is no reason to wait here)
			if p.get() == "pending" && !(p.kind == 2 && !p.dec) {
				pend = true
			}
		}
		if !pend {
			break
		}
		time.Sleep(2 * time.Millisecond)
	}
	pl := [][]int{}
	rs := []string{}
	for _, p := range r.pays {
		pl = append(pl, []int{p.side, p.seq, p.kind})
		rs = append(rs, p.get())
	}
	r.recs = append(r.recs, c03lRec{"a": "End", "alive": c03lBit(alive), "pays": pl, "res": rs,
		"st": c03lRec{"A": r.project(0), "B": r.project(1)}})
	return r.recs
}

func TestVerifC03Link(t *testing.T) {
	out := verifkit.Env("VERIF_OUT", os.TempDir())
	dir := verifkit.Env("VERIF_SCHED", "")
	files := verifkit.ListFiles(dir, "b_", ".ndjson")
	if len(files) == 0 {
		t.Fatalf("no schedules in %q", dir)
	}
	par := verifkit.EnvInt("VERIF_PAR", 4)
	results := make([][]c03lRec, len(files))
	var wg sync.WaitGroup
	sem := make(chan struct{}, par)
	for k, f := range files {
		steps, err := verifkit.ReadNDJSONInto[c03lStep](f)
		if err != nil {
			t.Fatalf("%s: %v", f, err)
		}
		wg.Add(1)
		sem <- struct{}{}
		go func(k int, f string, steps []c03lStep) {
			defer wg.Done()
			defer func() { <-sem }()
			results[k] = c03lExec(t, filepath.Base(f), k+1, steps)
		}(k, f, steps)
	}
	wg.Wait()
	w := verifkit.MustWriter(filepath.Join(out, "trace_link.ndjson"))
	for _, recs := range results {
		for _, rec := range recs {
			w.Emit(rec)
		}
	}
	_ = w.Close()
}
