//go:build verif

package htlcswitch

import (
	"crypto/sha256"
	"errors"
	"fmt"
	"os"
	"path/filepath"
	"strings"
	"sync"
	"sync/atomic"
	"testing"
	"time"

	"github.com/lightningnetwork/lnd/channeldb"
	"github.com/lightningnetwork/lnd/internal/verifkit"
	"github.com/lightningnetwork/lnd/kvdb"
	"github.com/lightningnetwork/lnd/lnwire"
)

// C07, switch-level executor (spec/CircuitMap/SwitchForward.tla): ONE real, started Switch - its real
// htlcForwarder goroutine, circuit map, mail orchestrator - over a bolt database that also holds a real
// forwarding package of the incoming channel.  The links are the package's mock links; the outgoing ones
// park the forwarder at the hand-over (handleSwitchPacket) until the schedule says HandOver, which is what
// makes "the forwarder is busy" a schedulable fact.  The harness plays the links: the incoming link computes
// its batch from the package read back from the database (un-acked adds) and calls Switch.ForwardPackets
// with its quit channel; an outgoing link takes packets from its mailbox, opens their circuits and acks.
//
// Every schedule line is performed (or, for Route / Abort, awaited: the real call does them by itself) and
// then the executor records what the real switch shows.  No judgement here: SwitchForwardTrace.tla judges.

type c07swStep struct {
	A   string `json:"a"`
	C   int    `json:"c"`
	Fin int    `json:"fin"`
}

// c07swHeld is the packet the forwarder is parked with.
type c07swHeld struct {
	pkt *htlcPacket
	dst int
	rel chan struct{}
}

// c07swLink is a mock link of the next peer whose hand-over is gated.
type c07swLink struct {
	*mockChannelLink
	run  *c07swRun
	idx  int // 1-based, = the model's channel number
	elig atomic.Bool
}

func (l *c07swLink) EligibleToForward() bool { return l.elig.Load() }

func (l *c07swLink) handleSwitchPacket(pkt *htlcPacket) error {
	if _, ok := pkt.htlc.(*lnwire.UpdateAddHTLC); ok {
		h := c07swHeld{pkt: pkt, dst: l.idx, rel: make(chan struct{})}
		select {
		case l.run.gate <- h:
			select {
			case <-h.rel:
			case <-l.run.dead:
			}
		case <-l.run.dead:
		}
	}
	err := l.mockChannelLink.handleSwitchPacket(pkt)
	select {
	case l.run.handed <- struct{}{}:
	case <-l.run.dead:
	}
	return err
}

type c07swRun struct {
	t    *testing.T
	n    int
	raw  kvdb.Backend
	cdb  *channeldb.DB
	s    *Switch
	in   *mockChannelLink
	out  []*c07swLink
	scid lnwire.ShortChannelID // incoming channel

	gate    chan c07swHeld
	handed  chan struct{}
	commits chan struct{}
	dead    chan struct{}

	held       *c07swHeld
	quit       chan struct{}
	quitClosed bool
	done       chan error
	inflight   bool
	committed  bool
	ret        string

	logs     [][]*htlcPacket // per outgoing link: the uncommitted update log
	comm     [][]int         // per outgoing link: committed adds
	nextHtlc []uint64
	note     string // the executor could not perform a step / the switch is stuck
	gaveUp   bool   // something the schedule counts on did not happen in time: recorded as such, the behaviour ends
}

// c07swGaveUp counts the behaviours that ended that way; after a few the remaining schedules are not run
// (every one of them would wait for the same thing; what was recorded is judged all the same).
var c07swGaveUp atomic.Int32

const (
	c07swHeight = 1
	c07swWait   = 4 * time.Second
)

func c07swErr(err error) string {
	switch {
	case err == nil:
		return ""
	case errors.Is(err, ErrUnknownCircuit):
		return "unknown"
	case errors.Is(err, ErrDuplicateKeystone):
		return "dupks"
	}
	return "other:" + err.Error()
}

func newC07swRun(t *testing.T, n, nout int) (*c07swRun, error) {
	r := &c07swRun{t: t, n: n, gate: make(chan c07swHeld, 1), handed: make(chan struct{}, 4),
		commits: make(chan struct{}, 64), dead: make(chan struct{}), ret: "none",
		quit: make(chan struct{}), logs: make([][]*htlcPacket, nout), comm: make([][]int, nout),
		nextHtlc: make([]uint64, nout)}
	raw, err := kvdb.GetBoltBackend(&kvdb.BoltBackendConfig{
		DBPath: t.TempDir(), DBFileName: "channel.db", NoFreelistSync: true, DBTimeout: time.Minute,
	})
	if err != nil {
		return nil, err
	}
	r.raw = raw
	vdb := verifkit.Wrap(raw)
	vdb.OnCommit = func(_ int, label string) {
		if strings.Contains(label, "CommitCircuits") {
			select {
			case r.commits <- struct{}{}:
			default:
			}
		}
	}
	if r.cdb, err = channeldb.CreateWithBackend(vdb); err != nil {
		return nil, err
	}
	if r.s, err = initSwitchWithDB(testStartingHeight, r.cdb); err != nil {
		return nil, err
	}
	if err = r.s.Start(); err != nil {
		return nil, err
	}
	alice, err := newMockServer(t, "alice", testStartingHeight, nil, testDefaultDelta)
	if err != nil {
		return nil, err
	}
	bob, err := newMockServer(t, "bob", testStartingHeight, nil, testDefaultDelta)
	if err != nil {
		return nil, err
	}
	chanIn, scidIn := genID()
	r.scid = scidIn
	r.in = newMockChannelLink(r.s, chanIn, scidIn, emptyScid, alice, true, false, false, false)
	if err = r.s.AddLink(r.in); err != nil {
		return nil, err
	}
	for i := 0; i < nout; i++ {
		cid, scid := genID()
		l := &c07swLink{run: r, idx: i + 1,
			mockChannelLink: newMockChannelLink(r.s, cid, scid, emptyScid, bob, true, false, false, false)}
		l.elig.Store(true)
		if err = r.s.AddLink(l); err != nil {
			return nil, err
		}
		r.out = append(r.out, l)
	}
	// the forwarding package of the incoming channel: n adds, locked in and handed to the link
	adds := make([]channeldb.LogUpdate, n)
	for i := range adds {
		pre := [32]byte{byte(i + 1), 7}
		adds[i] = channeldb.LogUpdate{LogIndex: uint64(i), UpdateMsg: &lnwire.UpdateAddHTLC{
			ChanID: chanIn, ID: uint64(i), Amount: 1000, Expiry: 500, PaymentHash: sha256.Sum256(pre[:])}}
	}
	pkg := channeldb.NewFwdPkg(scidIn, c07swHeight, adds, nil)
	for i := range adds {
		pkg.FwdFilter.Set(uint16(i))
	}
	packager := channeldb.NewChannelPackager(scidIn)
	err = kvdb.Update(r.cdb, func(tx kvdb.RwTx) error {
		if err := packager.AddFwdPkg(tx, pkg); err != nil {
			return err
		}
		return packager.SetFwdFilter(tx, c07swHeight, pkg.FwdFilter)
	}, func() {})
	return r, err
}

func (r *c07swRun) close() {
	close(r.dead)
	_ = r.s.Stop()
	_ = r.cdb.Close()
}

// loadPkg reads the incoming channel's forwarding package back from the database.
func (r *c07swRun) loadPkg() (*channeldb.FwdPkg, error) {
	var pkgs []*channeldb.FwdPkg
	err := kvdb.View(r.cdb, func(tx kvdb.RTx) error {
		var err error
		pkgs, err = channeldb.NewChannelPackager(r.scid).LoadFwdPkgs(tx)
		return err
	}, func() { pkgs = nil })
	if err != nil {
		return nil, err
	}
	if len(pkgs) != 1 {
		return nil, fmt.Errorf("%d forwarding packages", len(pkgs))
	}
	return pkgs[0], nil
}

// batch is what a link instance forwards: every add of the package that is not acked (processRemoteAdds).
func (r *c07swRun) batch() ([]*htlcPacket, error) {
	pkg, err := r.loadPkg()
	if err != nil {
		return nil, err
	}
	var pkts []*htlcPacket
	for i, u := range pkg.Adds {
		if pkg.AckFilter.Contains(uint16(i)) {
			continue
		}
		add := u.UpdateMsg.(*lnwire.UpdateAddHTLC)
		ref := pkg.SourceRef(uint16(i))
		pkts = append(pkts, &htlcPacket{
			incomingChanID: r.scid, incomingHTLCID: add.ID, outgoingChanID: r.out[0].ShortChanID(),
			sourceRef: &ref, incomingAmount: add.Amount, amount: add.Amount, incomingTimeout: add.Expiry,
			outgoingTimeout: add.Expiry - 40, obfuscator: NewMockObfuscator(),
			htlc: &lnwire.UpdateAddHTLC{PaymentHash: add.PaymentHash, Amount: add.Amount, Expiry: add.Expiry - 40},
		})
	}
	return pkts, nil
}

func (r *c07swRun) finish(err error) {
	r.inflight = false
	if err == nil {
		r.ret = "nil"
	} else {
		r.ret = "err"
	}
}

// settle waits until the real switch is at rest: no call in flight, or the call blocked in routeAsync
// behind the parked forwarder.  fin = the model expects the call to have returned (only consulted where the
// executor cannot tell "about to return" from "blocked": after the forwarder took a packet).
func (r *c07swRun) settle(fin int) {
	for r.note == "" && r.inflight {
		tmo := time.After(c07swWait)
		switch {
		case r.held == nil:
			// the forwarder is free: the call hands its next packet over or returns
			select {
			case h := <-r.gate:
				r.held, r.committed = &h, true
			case err := <-r.done:
				r.finish(err)
			case <-tmo:
				r.gaveUp = true // neither: recorded as in flight
				return
			}
		case r.quitClosed:
			select {
			case err := <-r.done:
				r.finish(err)
			case <-tmo:
				r.gaveUp = true
				return
			}
		case !r.committed:
			select {
			case <-r.commits:
				r.committed = true
			case err := <-r.done:
				r.finish(err)
			case <-tmo:
				r.gaveUp = true
				return
			}
		case fin == 1:
			select {
			case err := <-r.done:
				r.finish(err)
			case <-tmo:
				r.gaveUp = true // still in flight: recorded as such
				return
			}
		default:
			// expected to be blocked; a call that returns nevertheless is seen at once in most runs
			select {
			case err := <-r.done:
				r.finish(err)
			case <-time.After(5 * time.Millisecond):
			}
			return
		}
	}
}

func (r *c07swRun) step(st c07swStep) (tk int, oerr string) {
	tk = -1
	if r.gaveUp {
		return // only the observation of the move the call makes by itself is still recorded
	}
	switch st.A {
	case "SetElig":
		for _, l := range r.out {
			l.elig.Store(st.C == 0 || st.C == l.idx)
		}
	case "Begin", "BeginQuit":
		if r.inflight {
			r.note = "Begin: a call is in flight"
			return
		}
		pkts, err := r.batch()
		if err != nil {
			r.note = "batch: " + err.Error()
			return
		}
		for len(r.commits) > 0 {
			<-r.commits
		}
		r.done, r.inflight, r.committed = make(chan error, 1), true, false
		go func(q chan struct{}, done chan error) {
			done <- r.s.ForwardPackets(q, pkts...)
		}(r.quit, r.done)
	case "Route":
		// the call in flight does it by itself; it may even have returned already (last packet) while
		// the forwarder is still on its way to the hand-over
		if r.held == nil {
			select {
			case h := <-r.gate:
				r.held, r.committed = &h, true
			case <-time.After(c07swWait):
				r.gaveUp = true
			}
		}
	case "Abort":
		// the call in flight does it by itself
	case "HandOver":
		if r.held == nil {
			r.note = "HandOver: the forwarder holds nothing"
			return
		}
		close(r.held.rel)
		r.held = nil
		select {
		case <-r.handed:
		case <-time.After(c07swWait):
			r.note = "stuck: hand-over does not complete"
			return
		}
	case "Stop":
		if !r.quitClosed {
			close(r.quit)
			r.quitClosed = true
		}
	case "Relink":
		r.quit, r.quitClosed = make(chan struct{}), false
	case "Take":
		l := r.out[st.C-1]
		select {
		case pkt := <-l.packets:
			tk = int(pkt.incomingHTLCID)
			r.logs[st.C-1] = append(r.logs[st.C-1], pkt)
		case <-time.After(c07swWait):
			r.gaveUp = true
		}
	case "OutCommit":
		i := st.C - 1
		l := r.out[i]
		var ks []Keystone
		var refs []channeldb.AddRef
		for j, pkt := range r.logs[i] {
			pkt.outgoingChanID, pkt.outgoingHTLCID = l.ShortChanID(), r.nextHtlc[i]+uint64(j)
			ks = append(ks, Keystone{InKey: pkt.inKey(), OutKey: pkt.outKey()})
			if pkt.sourceRef != nil {
				refs = append(refs, *pkt.sourceRef)
			}
		}
		err := r.s.circuits.OpenCircuits(ks...)
		oerr = c07swErr(err)
		if err != nil {
			r.gaveUp = true // the link fails
			return
		}
		for _, pkt := range r.logs[i] {
			l.mailBox.AckPacket(pkt.inKey())
			r.comm[i] = append(r.comm[i], int(pkt.incomingHTLCID))
		}
		err = kvdb.Update(r.cdb, func(tx kvdb.RwTx) error {
			return channeldb.NewChannelPackager(r.scid).AckAddHtlcs(tx, refs...)
		}, func() {})
		if err != nil {
			r.note = "AckAddHtlcs: " + err.Error()
		}
		r.nextHtlc[i] += uint64(len(r.logs[i]))
		r.logs[i] = nil
	case "OutRestart":
		r.logs[st.C-1] = nil
		if err := r.out[st.C-1].mailBox.ResetPackets(); err != nil {
			r.note = "ResetPackets: " + err.Error()
		}
	default:
		r.note = "unknown step " + st.A
	}
	if r.note == "" {
		r.settle(st.Fin)
	}
	return
}

func (r *c07swRun) observe(a string, c, tk int, oerr, plan string) verifkit.Rec {
	if r.held == nil {
		// a packet nobody waited for
		select {
		case h := <-r.gate:
			r.held = &h
		default:
		}
	}
	circ := make([]int, r.n)
	for k := 0; k < r.n; k++ {
		if ci := r.s.circuits.LookupCircuit(CircuitKey{ChanID: r.scid, HtlcID: uint64(k)}); ci != nil {
			circ[k] = 1
			if ci.HasKeystone() {
				circ[k] = 2
			}
		}
	}
	mb := make([][]int, len(r.out))
	lg := make([][]int, len(r.out))
	cm := make([][]int, len(r.out))
	for i, l := range r.out {
		mb[i], lg[i], cm[i] = []int{}, []int{}, append([]int{}, r.comm[i]...)
		m := l.mailBox.(*memoryMailBox)
		m.pktCond.L.Lock()
		for e := m.addPkts.Front(); e != nil; e = e.Next() {
			mb[i] = append(mb[i], int(e.Value.(*pktWithExpiry).pkt.incomingHTLCID))
		}
		m.pktCond.L.Unlock()
		for _, pkt := range r.logs[i] {
			lg[i] = append(lg[i], int(pkt.incomingHTLCID))
		}
	}
	ack := []int{}
	if pkg, err := r.loadPkg(); err != nil {
		if r.note == "" {
			r.note = "loadPkg: " + err.Error()
		}
	} else {
		for i := range pkg.Adds {
			if pkg.AckFilter.Contains(uint16(i)) {
				ack = append(ack, i)
			}
		}
	}
	fk, fd := -1, -1
	if r.held != nil {
		fk, fd = int(r.held.pkt.incomingHTLCID), r.held.dst
	}
	infl := 0
	if r.inflight {
		infl = 1
	}
	return verifkit.Rec{"a": a, "c": c, "plan": plan, "note": r.note, "circ": circ, "mb": mb, "lg": lg, "cm": cm,
		"fk": fk, "fd": fd, "ret": r.ret, "infl": infl, "ack": ack, "tk": tk, "oerr": oerr}
}

func c07swExec(t *testing.T, name string, steps []c07swStep, n, nout int) ([]verifkit.Rec, error) {
	r, err := newC07swRun(t, n, nout)
	if err != nil {
		return nil, err
	}
	defer r.close()
	recs := []verifkit.Rec{r.observe("Reset", -1, -1, "", name)}
	for _, st := range steps {
		// Once something the schedule counts on did not happen, the schedule no longer fits what the real
		// switch did: the recorded prefix is judged.  The line of the move that the call in flight makes by
		// itself (Route / Abort) is still recorded, because the comparison of a Begin / HandOver / Stop that
		// triggers such a move is made on that line.
		if r.gaveUp && st.A != "Route" && st.A != "Abort" {
			break
		}
		tk, oerr := r.step(st)
		recs = append(recs, r.observe(st.A, st.C, tk, oerr, name))
		if r.note != "" {
			break
		}
	}
	if r.note != "" || r.gaveUp {
		c07swGaveUp.Add(1)
	}
	return recs, nil
}

func TestVerifC07SwitchForward(t *testing.T) {
	dir := os.Getenv("VERIF_C07_SWFWD")
	if dir == "" {
		t.Skip("no VERIF_C07_SWFWD schedule dir")
	}
	n, nout := verifkit.EnvInt("VERIF_C07_SWFWD_N", 3), verifkit.EnvInt("VERIF_C07_SWFWD_OUT", 2)
	out := verifkit.Env("VERIF_OUT", os.TempDir())
	w := verifkit.MustWriter(filepath.Join(out, "trace_switch.ndjson"))
	defer w.Close()
	var mu sync.Mutex
	sem := make(chan struct{}, verifkit.EnvInt("VERIF_PAR", 4))
	t.Run("runs", func(gt *testing.T) {
		for _, f := range verifkit.ListFiles(dir, "b_", ".ndjson") {
			f := f
			steps, err := verifkit.ReadNDJSONInto[c07swStep](f)
			if err != nil || len(steps) == 0 {
				t.Fatalf("schedule %s: %v", f, err)
			}
			gt.Run(filepath.Base(f), func(st *testing.T) {
				st.Parallel()
				sem <- struct{}{}
				defer func() { <-sem }()
				if c07swGaveUp.Load() >= 6 {
					return
				}
				recs, err := c07swExec(st, filepath.Base(f), steps, n, nout)
				if err != nil {
					st.Fatalf("%s: fixture: %v", f, err)
				}
				mu.Lock()
				for _, r := range recs {
					w.Emit(r)
				}
				mu.Unlock()
			})
		}
	})
}
