//go:build verif

package htlcswitch

import (
	"crypto/sha256"
	"encoding/binary"
	"fmt"
	"os"
	"path/filepath"
	"sync"
	"testing"
	"time"

	"github.com/btcsuite/btcd/btcec/v2"
	"github.com/btcsuite/btcd/btcutil/v2"
	sphinx "github.com/lightningnetwork/lightning-onion"
	"github.com/lightningnetwork/lnd/channeldb"
	"github.com/lightningnetwork/lnd/fn/v2"
	"github.com/lightningnetwork/lnd/graph/db/models"
	"github.com/lightningnetwork/lnd/htlcswitch/hop"
	"github.com/lightningnetwork/lnd/internal/verifkit"
	"github.com/lightningnetwork/lnd/lnwallet"
	"github.com/lightningnetwork/lnd/lnwire"
)

// C09, incoming side (spec/ForwardPolicy/SwitchInbound.tla).
//
// The fixture of the switch-level executor (one real Switch, real outgoing
// channelLinks c1..c3, wire taps at the silent peers) plus the INCOMING side as
// it is in lnd: a real channel Dave -> Bob on which the executor plays Dave
// (update_add_htlc with a real onion blob, the full commitment dance through
// lnwallet), so that Bob's lnwallet channel writes the forwarding packages; and
// a real channelLink object of Bob for that channel whose processRemoteAdds /
// resolveFwdPkg are called with the packages loaded from disk and whose
// ForwardPackets is the real Switch.ForwardPackets.  The link object is not
// started (the executor is its event loop); failures of the switch go to the
// mock link registered under the incoming channel's short channel id, as in the
// switch-level executor.
//
// "The node dies between SetFwdFilter and Switch.ForwardPackets" is played with
// the real code path for it: the link's quit channel is closed when the batch
// arrives at Switch.ForwardPackets, which then returns without forwarding.
//
// Field copies only, no judgement: SwitchInboundTrace.tla is the judge.

type c09inFee struct {
	Base int32 `json:"base"`
	Rate int32 `json:"rate"`
}

type c09inStep struct {
	c09swStep
	K     int      `json:"k"`
	Reach int      `json:"reach"`
	Fee   c09inFee `json:"fee"`
}

type c09inRec struct {
	c09swRec
	K     int      `json:"k"`
	Reach int      `json:"reach"`
	Fee   c09inFee `json:"fee"`
	EnfIn c09inFee `json:"enfin"`
	NPkg  int      `json:"npkg"`
	Pst   string   `json:"pst"`
	NPk   int      `json:"npk"`
	Pif   c09inFee `json:"pif"`
	CircB int      `json:"circb"`
	Circ  int      `json:"circ"`
}

type c09inAdd struct {
	id   uint64
	hash [32]byte
}

type c09inNet struct {
	*c09swNet
	dave, bobIn *testLightningChannel
	dec         *mockIteratorDecoder
	link        *channelLink
	advIn       models.InboundFee
	adds        []c09inAdd // per package (one add each), in order

	// what the link handed to ForwardPackets during the current step
	mu    sync.Mutex
	reach bool
	npk   int
	pif   models.InboundFee
}

// newLink does what the peer does when the channel becomes usable: a link
// object with the policy currently advertised for the channel.
func (n *c09inNet) newLink(p0 models.ForwardingPolicy) {
	p0.InboundFee = n.advIn
	s := n.bob.htlcSwitch
	// the mock onion decoder hands out stateful iterators and caches them per
	// package; a restarted link decodes the stored onions afresh (the real
	// decoder does, with reforward = true), so it gets a decoder of its own
	n.dec = newMockIteratorDecoder()
	closed := make(chan struct{})
	close(closed)
	n.link = &channelLink{
		cfg: ChannelLinkConfig{
			FwrdingPolicy:      p0,
			BestHeight:         s.BestHeight,
			DecodeHopIterators: n.dec.DecodeHopIterators,
			ExtractErrorEncrypter: func(*btcec.PublicKey) (
				hop.ErrorEncrypter, lnwire.FailCode) {

				return n.hn.obfuscator, lnwire.CodeNone
			},
			ShouldFwdExpAccountability: func() bool { return true },
			ForwardPackets: func(quit <-chan struct{}, _ bool,
				pkts ...*htlcPacket) error {

				n.mu.Lock()
				reach := n.reach
				n.npk += len(pkts)
				if len(pkts) > 0 {
					n.pif = pkts[0].inboundFee
				}
				n.mu.Unlock()
				if !reach {
					// the link is going down: its quit channel is closed
					quit = closed
				}
				return s.ForwardPackets(quit, pkts...)
			},
			FetchLastChannelUpdate:  mockGetChanUpdateMessage,
			OutgoingCltvRejectDelta: 3,
			MaxOutgoingCltvExpiry:   DefaultMaxOutgoingCltvExpiry,
			HtlcNotifier:            s.cfg.HtlcNotifier,
		},
		log:     log,
		channel: n.bobIn.channel,
		mailBox: newMemoryMailBox(&mailBoxConfig{}),
		cg:      fn.NewContextGuard(),
	}
	n.link.attachFailAliasUpdate(func(lnwire.ShortChannelID, bool) *lnwire.ChannelUpdate1 {
		return nil
	})
}

func c09inOnion(next lnwire.ShortChannelID, amt uint64, cltv uint32) ([lnwire.OnionPacketSize]byte, error) {
	var nextHop [8]byte
	binary.BigEndian.PutUint64(nextHop[:], next.ToUint64())
	hops := []*hop.Payload{
		hop.NewLegacyPayload(&sphinx.HopData{NextAddress: nextHop, ForwardAmount: amt, OutgoingCltv: cltv}),
		hop.NewLegacyPayload(&sphinx.HopData{ForwardAmount: amt, OutgoingCltv: cltv}),
	}
	return generateRoute(hops...)
}

// lockIn plays Dave: update_add_htlc + the commitment dance until the add is
// locked in on Bob's side (lnwallet writes the forwarding package).
func (n *c09inNet) lockIn(st c09inStep) string {
	c := n.chans[st.RX]
	if st.RT != "chan" || c == nil {
		return "bad-request"
	}
	blob, err := c09inOnion(c.scid, st.H.Out, st.H.OutExp)
	if err != nil {
		return "onion: " + err.Error()
	}
	seq := len(n.adds)
	pre := [32]byte{0x1b, byte(seq), byte(seq >> 8)}
	add := &lnwire.UpdateAddHTLC{
		Amount:      lnwire.MilliSatoshi(st.H.In),
		Expiry:      st.H.InExp,
		PaymentHash: sha256.Sum256(pre[:]),
		OnionBlob:   blob,
	}
	id, err := n.dave.channel.AddHTLC(add, nil)
	if err != nil {
		return "AddHTLC: " + err.Error()
	}
	add.ID = id
	if _, err := n.bobIn.channel.ReceiveHTLC(add); err != nil {
		return "ReceiveHTLC: " + err.Error()
	}
	if err := lnwallet.ForceStateTransition(n.dave.channel, n.bobIn.channel); err != nil {
		return "state transition: " + err.Error()
	}
	n.adds = append(n.adds, c09inAdd{id: id, hash: add.PaymentHash})
	return ""
}

func c09inState(s channeldb.FwdState) string {
	switch s {
	case channeldb.FwdStateLockedIn:
		return "lockedin"
	case channeldb.FwdStateProcessed:
		return "processed"
	case channeldb.FwdStateCompleted:
		return "completed"
	}
	return "unknown"
}

func (n *c09inNet) hasCircuit(k int) int {
	if k < 1 || k > len(n.adds) {
		return 0
	}
	key := CircuitKey{ChanID: n.inScid, HtlcID: n.adds[k-1].id}
	if n.bob.htlcSwitch.circuits.LookupCircuit(key) != nil {
		return 1
	}
	return 0
}

// process hands package k (as it is on disk) to the link the way the link's
// event loop does: a package in state LockedIn goes to processRemoteAdds (the
// revoke_and_ack handler), anything else through resolveFwdPkg (start-up).
// Then it waits for what the switch does with the add.
func (n *c09inNet) process(k int, reach bool) (res, to, v, note string) {
	res, to, v = "-", "-", "-"
	pkgs, err := n.bobIn.channel.LoadFwdPkgs()
	if err != nil {
		return res, to, v, "LoadFwdPkgs: " + err.Error()
	}
	if k < 1 || k > len(pkgs) || k > len(n.adds) {
		return res, to, v, "no such package"
	}
	n.mu.Lock()
	n.reach, n.npk, n.pif = reach, 0, models.InboundFee{}
	n.mu.Unlock()
	hadCircuit := n.hasCircuit(k) == 1
	pkg := pkgs[k-1]
	if pkg.State == channeldb.FwdStateLockedIn {
		n.link.processRemoteAdds(pkg)
	} else if err := n.link.resolveFwdPkg(pkg); err != nil {
		note = "resolveFwdPkg: " + err.Error()
	}
	n.mu.Lock()
	npk := n.npk
	n.mu.Unlock()
	if npk == 0 || !reach {
		// nothing was handed to the forwarder
		return "-", "-", "-", note
	}
	// a batch whose circuit exists is dropped inside ForwardPackets: nothing
	// will come; otherwise the switch answers one way or the other
	wait := 20 * time.Second
	if hadCircuit {
		wait = 300 * time.Millisecond
	}
	a := n.adds[k-1]
	deadline := time.After(wait)
	for {
		select {
		case x := <-n.taps:
			if x.hash == a.hash {
				name, ok := n.byID[x.cid]
				if !ok {
					name = "unknown"
				}
				return "fwd", name, "ok", note
			}
		case p := <-n.in.packets:
			if p.incomingHTLCID == a.id {
				if _, isAdd := p.htlc.(*lnwire.UpdateAddHTLC); isAdd {
					return "fwd", "in", "ok", note
				}
				return "fail", "-", c09Verdict(p.linkFailure), note
			}
		case <-deadline:
			return "none", "-", "-", note
		}
	}
}

func c09inExec(t *testing.T, plan string, steps []c09inStep) ([]c09inRec, error) {
	if len(steps) == 0 || steps[0].A != "Reset" {
		return nil, fmt.Errorf("%s: a schedule starts with Reset", plan)
	}
	sw, err := c09swBuild(t, steps[0].Pol, steps[0].Init)
	if err != nil {
		return nil, err
	}
	sw.plan = plan
	n := &c09inNet{c09swNet: sw}
	// the incoming channel: Dave (the executor) -> Bob, registered in the switch
	// under inScid by the mock link of the fixture
	n.dave, n.bobIn, err = createTestChannel(t, alicePrivKey, bobPrivKey,
		btcutil.SatoshiPerBitcoin, btcutil.SatoshiPerBitcoin, 0, 0, sw.inScid)
	if err != nil {
		return nil, err
	}
	p0 := steps[0].Pol.policy()
	n.newLink(p0)

	observe := func(st c09inStep, bw map[string]uint64) c09inRec {
		r := c09inRec{c09swRec: n.observe(st.c09swStep, bw), K: st.K, Reach: st.Reach, Fee: st.Fee, Pst: "-"}
		n.link.RLock()
		f := n.link.cfg.FwrdingPolicy.InboundFee
		n.link.RUnlock()
		r.EnfIn = c09inFee{f.Base, f.Rate}
		if pkgs, err := n.bobIn.channel.LoadFwdPkgs(); err == nil {
			r.NPkg = len(pkgs)
			if st.K >= 1 && st.K <= len(pkgs) {
				r.Pst = c09inState(pkgs[st.K-1].State)
			}
		}
		r.Circ = n.hasCircuit(st.K)
		return r
	}
	recs := []c09inRec{observe(steps[0], n.bandwidths())}
	for _, st := range steps[1:] {
		bw := n.bandwidths()
		res, to, v, note := "-", "-", "-", ""
		circB, npk, pif := n.hasCircuit(st.K), 0, models.InboundFee{}
		switch st.A {
		case "UpdIn":
			// the graph is updated, then the link (what Switch.UpdateForwardingPolicies
			// calls on a registered link)
			n.advIn = models.InboundFee{Base: st.Fee.Base, Rate: st.Fee.Rate}
			p := p0
			p.InboundFee = n.advIn
			n.link.UpdateForwardingPolicy(p)
		case "LockIn":
			note = n.lockIn(st)
		case "Proc":
			res, to, v, note = n.process(st.K, st.Reach == 1)
			n.mu.Lock()
			npk, pif = n.npk, n.pif
			n.mu.Unlock()
		case "Restart":
			n.link.cg.Quit()
			n.newLink(p0)
		default:
			note = "unknown step"
		}
		r := observe(st, bw)
		r.Res, r.To, r.V, r.Note = res, to, v, note
		r.CircB, r.NPk, r.Pif = circB, npk, c09inFee{pif.Base, pif.Rate}
		recs = append(recs, r)
		if note != "" {
			// the real objects could not take the step: the recorded prefix is judged
			break
		}
	}
	return recs, nil
}

// TestVerifC09Inbound replays the schedules of VERIF_INBOUND (one file per
// behaviour) and writes trace_inbound.ndjson.
func TestVerifC09Inbound(t *testing.T) {
	dir := os.Getenv("VERIF_INBOUND")
	if dir == "" {
		t.Skip("no VERIF_INBOUND schedule dir")
	}
	w := verifkit.MustWriter(filepath.Join(verifkit.Env("VERIF_OUT", os.TempDir()), "trace_inbound.ndjson"))
	defer w.Close()
	var mu sync.Mutex
	sem := make(chan struct{}, verifkit.EnvInt("VERIF_PAR", 4))
	t.Run("runs", func(gt *testing.T) {
		for _, f := range verifkit.ListFiles(dir, "b_", ".ndjson") {
			f := f
			steps, err := verifkit.ReadNDJSONInto[c09inStep](f)
			if err != nil || len(steps) == 0 {
				t.Fatalf("schedule %s: %v", f, err)
			}
			gt.Run(filepath.Base(f), func(st *testing.T) {
				st.Parallel()
				sem <- struct{}{}
				defer func() { <-sem }()
				recs, err := c09inExec(st, filepath.Base(f), steps)
				if err != nil {
					st.Fatalf("%s: %v", f, err)
				}
				mu.Lock()
				for _, r := range recs {
					w.Emit(r)
				}
				mu.Unlock()
			})
		}
	})
}
