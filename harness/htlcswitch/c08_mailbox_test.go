//go:build verif

package htlcswitch

import (
	"os"
	"path/filepath"
	"sync"
	"testing"
	"time"

	"github.com/lightningnetwork/lnd/clock"
	"github.com/lightningnetwork/lnd/internal/verifkit"
	"github.com/lightningnetwork/lnd/lnwire"
)

// C08, mailbox executor (spec/Forwarding/Mailbox.tla): TLC-generated sequences of AddPacket / AckPacket /
// ResetPackets / "the link reads the outbox" on the REAL memoryMailBox with its real courier goroutine.  Before
// a reset the executor pauses so that the courier is (almost certainly) blocked in its delivery select - the
// reset is then served there, while it offers a settle/fail, an add, or nothing.  It records the answers of the
// calls and what was read from the outbox channel; MailboxTrace.tla is the judge.

type c08MbStep struct {
	A  string `json:"a"`
	ID int    `json:"id"`
	K  string `json:"k"`
}

func c08MbPacket(id int, k string) *htlcPacket {
	pkt := &htlcPacket{
		incomingChanID: lnwire.NewShortChanIDFromInt(1),
		incomingHTLCID: uint64(id),
		outgoingChanID: lnwire.NewShortChanIDFromInt(2),
		outgoingHTLCID: uint64(id),
	}
	if k == "rep" {
		pkt.htlc = &lnwire.UpdateFulfillHTLC{PaymentPreimage: [32]byte{byte(id)}}
	} else {
		pkt.htlc = &lnwire.UpdateAddHTLC{ID: uint64(id), Amount: 1000}
	}
	return pkt
}

func c08MbExec(name string, steps []c08MbStep) []verifkit.Rec {
	mb := newMemoryMailBox(&mailBoxConfig{
		forwardPackets: func(<-chan struct{}, ...*htlcPacket) error { return nil },
		failMailboxUpdate: func(_, _ lnwire.ShortChannelID) lnwire.FailureMessage {
			return &lnwire.FailTemporaryNodeFailure{}
		},
		clock:  clock.NewDefaultClock(),
		expiry: time.Hour,
	})
	mb.Start()
	defer mb.Stop()
	recs := []verifkit.Rec{{"a": "New", "id": 0, "ok": 0, "plan": name}}
	b := func(x bool) int {
		if x {
			return 1
		}
		return 0
	}
	for _, st := range steps {
		switch st.A {
		case "Add":
			err := mb.AddPacket(c08MbPacket(st.ID, st.K))
			recs = append(recs, verifkit.Rec{"a": "Add", "id": st.ID, "ok": b(err == nil)})
			time.Sleep(500 * time.Microsecond)
		case "Ack":
			ok := mb.AckPacket(c08MbPacket(st.ID, st.K).inKey())
			recs = append(recs, verifkit.Rec{"a": "Ack", "id": st.ID, "ok": b(ok)})
		case "Reset":
			time.Sleep(3 * time.Millisecond)
			_ = mb.ResetPackets()
			recs = append(recs, verifkit.Rec{"a": "Reset", "id": 0, "ok": 1})
		case "Recv":
			id := 0
			select {
			case pkt := <-mb.PacketOutBox():
				id = int(pkt.incomingHTLCID)
			case <-time.After(120 * time.Millisecond):
			}
			recs = append(recs, verifkit.Rec{"a": "Recv", "id": id, "ok": 1})
		}
	}
	return recs
}

func TestVerifC08Mailbox(t *testing.T) {
	dir := os.Getenv("VERIF_MBOX")
	if dir == "" {
		t.Skip("no VERIF_MBOX schedule dir")
	}
	out := verifkit.Env("VERIF_OUT", os.TempDir())
	w := verifkit.MustWriter(filepath.Join(out, "trace_mailbox.ndjson"))
	defer w.Close()
	var mu sync.Mutex
	var wg sync.WaitGroup
	sem := make(chan struct{}, verifkit.EnvInt("VERIF_PAR", 3))
	for _, f := range verifkit.ListFiles(dir, "b_", ".ndjson") {
		steps, err := verifkit.ReadNDJSONInto[c08MbStep](f)
		if err != nil {
			t.Fatalf("schedule %s: %v", f, err)
		}
		wg.Add(1)
		sem <- struct{}{}
		go func(name string) {
			defer wg.Done()
			defer func() { <-sem }()
			recs := c08MbExec(name, steps)
			mu.Lock()
			for _, r := range recs {
				w.Emit(r)
			}
			mu.Unlock()
		}(filepath.Base(f))
	}
	wg.Wait()
}
