//go:build verif

package htlcswitch

import (
	"bytes"
	"errors"
	"fmt"
	"math/rand"
	"os"
	"runtime"
	"sort"
	"strconv"
	"strings"
	"sync"
	"testing"
	"time"

	"github.com/btcsuite/btcwallet/walletdb"
	"github.com/lightningnetwork/lnd/chanstate"
	"github.com/lightningnetwork/lnd/internal/verifkit"
	"github.com/lightningnetwork/lnd/kvdb"
	"github.com/lightningnetwork/lnd/lnwire"
)

// C07 executor: replays schedules of spec/CircuitMap (one line per phase of a
// call, per environment change, per crash, per phase of NewCircuitMap) on the
// REAL circuit map over a bolt file.  Every call runs in its own goroutine
// which parks immediately before and immediately after each database
// transaction, so that the scheduler decides - at exactly the granularity of
// the code's own critical sections - which thread moves next, whether its
// transaction fails, and when the process "crashes".  The executor records
// what was returned and a field-by-field projection of memory and disk after
// every step.  It contains no judgement: CircuitMapTrace.tla is the judge.

// c07Event is one step of a schedule.
type c07Event struct {
	A    string  `json:"a"`
	T    int     `json:"t"`
	Ins  [][]int `json:"ins"`
	Outs [][]int `json:"outs"`
	C    int     `json:"c"`
	Ok   int     `json:"ok"`
}

// c07Result is what a call returned.
type c07Result struct {
	err     error
	acts    *CircuitFwdActions
	circuit *PaymentCircuit
	cm      CircuitMap
}

// c07Thread is a goroutine running one call of the circuit map API.
type c07Thread struct {
	at     chan string
	resume chan struct{}
	done   chan c07Result
	where  string // last park point
}

func c07Goid() int64 {
	var buf [64]byte
	n := runtime.Stack(buf[:], false)
	f := strings.Fields(string(buf[:n]))
	id, _ := strconv.ParseInt(f[1], 10, 64)
	return id
}

// c07Sched maps goroutines to threads and implements the park points.
type c07Sched struct {
	mu     sync.Mutex
	byGoid map[int64]*c07Thread
}

func (s *c07Sched) park(name string) {
	s.mu.Lock()
	th := s.byGoid[c07Goid()]
	s.mu.Unlock()
	if th == nil {
		return
	}
	th.at <- name
	<-th.resume
}

func (s *c07Sched) spawn(fn func() c07Result) *c07Thread {
	th := &c07Thread{
		at:     make(chan string),
		resume: make(chan struct{}),
		done:   make(chan c07Result, 1),
	}
	ready := make(chan struct{})
	go func() {
		id := c07Goid()
		s.mu.Lock()
		s.byGoid[id] = th
		s.mu.Unlock()
		close(ready)
		r := fn()
		s.mu.Lock()
		delete(s.byGoid, id)
		s.mu.Unlock()
		th.done <- r
	}()
	<-ready
	return th
}

// c07DB parks the calling goroutine before and after every RW transaction.
type c07DB struct {
	*verifkit.DB
	sched *c07Sched
}

func c07Label() string {
	pcs := make([]uintptr, 32)
	n := runtime.Callers(3, pcs)
	frames := runtime.CallersFrames(pcs[:n])
	for {
		fr, more := frames.Next()
		if i := strings.Index(fr.Function, "(*circuitMap)."); i >= 0 {
			name := fr.Function[i+len("(*circuitMap)."):]
			if j := strings.Index(name, "."); j >= 0 {
				name = name[:j]
			}
			return name
		}
		if !more {
			return "?"
		}
	}
}

func (d *c07DB) Update(f func(tx walletdb.ReadWriteTx) error, reset func()) error {
	label := c07Label()
	d.sched.park("pre:" + label)
	err := d.DB.Update(f, reset)
	d.sched.park("post:" + label)
	return err
}

// c07Store is the chanstate.Store of the harness-supplied open channels: only
// RemoteCommitChainTip is consulted (by NextLocalHtlcIndex); it is also the
// park point "about to trim this channel" of NewCircuitMap.
type c07Store struct {
	chanstate.Store
	sched *c07Sched
}

func (s c07Store) RemoteCommitChainTip(c *chanstate.OpenChannel) (
	*chanstate.CommitDiff, error) {

	s.sched.park(fmt.Sprintf("tip:%d", c.ShortChannelID.ToUint64()))
	return nil, chanstate.ErrNoPendingCommit
}

type c07Exec struct {
	t     *testing.T
	out   *verifkit.Writer
	raw   kvdb.Backend
	vdb   *verifkit.DB
	db    *c07DB
	sched *c07Sched

	inChans, outChans []int
	nIds              int

	cm          CircuitMap
	nextIdx     map[int]uint64
	closedChans map[int]bool
	chanStatus  map[int]chanstate.ChannelStatus // status of the channels still reported as open
	resMsgs     map[CircuitKey]bool
	threads     map[int]*c07Thread
	starter     *c07Thread
	nUpdates    int
}

func c07Key(k []int) CircuitKey {
	return CircuitKey{
		ChanID: lnwire.NewShortChanIDFromInt(uint64(k[0])),
		HtlcID: uint64(k[1]),
	}
}

func c07Arr(k CircuitKey) []int {
	return []int{int(k.ChanID.ToUint64()), int(k.HtlcID)}
}

var c07None = []int{-1, -1}

func c07ErrClass(err error) string {
	switch {
	case err == nil:
		return "none"
	case errors.Is(err, verifkit.ErrInjected):
		return "io"
	case errors.Is(err, verifkit.ErrCrashed):
		return "crashed"
	case errors.Is(err, ErrUnknownCircuit):
		return "unknown"
	case errors.Is(err, ErrCircuitClosing):
		return "closing"
	case errors.Is(err, ErrDuplicateKeystone):
		return "dupks"
	}
	return "other:" + err.Error()
}

func newC07Exec(t *testing.T, out *verifkit.Writer, dir string, inChans, outChans []int,
	nIds int) *c07Exec {

	raw, err := kvdb.GetBoltBackend(&kvdb.BoltBackendConfig{
		DBPath: dir, DBFileName: "circuits.db", NoFreelistSync: true,
		DBTimeout: time.Minute,
	})
	if err != nil {
		t.Fatal(err)
	}
	sched := &c07Sched{byGoid: map[int64]*c07Thread{}}
	vdb := verifkit.Wrap(raw)
	x := &c07Exec{
		t: t, out: out, raw: raw, vdb: vdb, sched: sched,
		db:      &c07DB{DB: vdb, sched: sched},
		inChans: inChans, outChans: outChans, nIds: nIds,
		nextIdx: map[int]uint64{}, closedChans: map[int]bool{},
		chanStatus: map[int]chanstate.ChannelStatus{},
		resMsgs: map[CircuitKey]bool{}, threads: map[int]*c07Thread{},
	}
	// the initial map is created without faults (the model starts "up" and empty)
	cm, err := NewCircuitMap(x.cfg())
	if err != nil {
		t.Fatal(err)
	}
	x.cm = cm
	return x
}

// crash: every further transaction fails, the goroutines in flight run to their end on the
// dead map, the memory is dropped; the database stays.
func (x *c07Exec) crash() {
	x.vdb.CrashNow()
	for t, th := range x.threads {
		x.drain(th)
		delete(x.threads, t)
	}
	if x.starter != nil {
		x.drain(x.starter)
		x.starter = nil
	}
	x.cm = nil
	x.vdb.Revive()
}

func (x *c07Exec) close() {
	x.crash()
	x.raw.Close()
}

func (x *c07Exec) cfg() *CircuitMapConfig {
	return &CircuitMapConfig{
		DB: x.db,
		FetchAllOpenChannels: func() ([]*chanstate.OpenChannel, error) {
			var res []*chanstate.OpenChannel
			for _, c := range x.outChans {
				if x.closedChans[c] {
					continue
				}
				oc := &chanstate.OpenChannel{
					ShortChannelID: lnwire.NewShortChanIDFromInt(uint64(c)),
					Db:             c07Store{sched: x.sched},
				}
				oc.RemoteCommitment.LocalHtlcIndex = x.nextIdx[c]
				// default, borked or commitment-broadcast, as the schedule says
				oc.SetChannelStatusForStore(x.chanStatus[c])
				res = append(res, oc)
			}
			return res, nil
		},
		FetchClosedChannels: func(bool) ([]*chanstate.ChannelCloseSummary, error) {
			var cs []int
			for c := range x.closedChans {
				cs = append(cs, c)
			}
			sort.Ints(cs)
			var res []*chanstate.ChannelCloseSummary
			for _, c := range cs {
				res = append(res, &chanstate.ChannelCloseSummary{
					ShortChanID: lnwire.NewShortChanIDFromInt(uint64(c)),
				})
			}
			return res, nil
		},
		CheckResolutionMsg: func(out *CircuitKey) error {
			if x.resMsgs[*out] {
				return nil
			}
			return errors.New("no resolution message")
		},
	}
}

// advance waits until the thread parks again or returns.
func (x *c07Exec) advance(th *c07Thread) (string, *c07Result) {
	select {
	case n := <-th.at:
		th.where = n
		return n, nil
	case r := <-th.done:
		th.where = "done"
		return "", &r
	case <-time.After(30 * time.Second):
		x.out.Close()
		x.t.Fatalf("thread neither parked nor returned (last at %q)", th.where)
		return "", nil
	}
}

func (x *c07Exec) resume(th *c07Thread) (string, *c07Result) {
	th.resume <- struct{}{}
	return x.advance(th)
}

// drain lets a thread run to its end (after a crash every transaction fails).
func (x *c07Exec) drain(th *c07Thread) {
	if th.where == "done" {
		return
	}
	for {
		_, r := x.resume(th)
		if r != nil {
			return
		}
	}
}

func (x *c07Exec) circuits(ins [][]int) []*PaymentCircuit {
	var cs []*PaymentCircuit
	for _, k := range ins {
		c := &PaymentCircuit{
			Incoming:       c07Key(k),
			PaymentHash:    [32]byte{byte(k[0] + 1), byte(k[1] + 1)},
			IncomingAmount: 1000, OutgoingAmount: 900,
		}
		if k[0] != 0 {
			c.ErrorEncrypter = NewMockObfuscator()
		}
		cs = append(cs, c)
	}
	return cs
}

func c07Keys(cs []*PaymentCircuit) [][]int {
	out := [][]int{}
	for _, c := range cs {
		out = append(out, c07Arr(c.Incoming))
	}
	return out
}

// apply executes one event and emits one record.
func (x *c07Exec) apply(ev c07Event) {
	rec := verifkit.Rec{"a": ev.A, "t": ev.T, "ins": ev.Ins, "outs": ev.Outs, "c": ev.C, "ok": ev.Ok}
	if ev.Ins == nil {
		rec["ins"] = [][]int{}
	}
	if ev.Outs == nil {
		rec["outs"] = [][]int{}
	}
	var res *c07Result
	note := ""
	ok := ev.Ok == 1
	th := x.threads[ev.T]

	// begin runs a new call on thread T up to its first transaction.
	begin := func(fn func() c07Result) {
		if x.cm == nil || th != nil {
			note = "call on a dead map or a busy thread"
			return
		}
		th = x.sched.spawn(fn)
		x.threads[ev.T] = th
		_, res = x.advance(th)
	}
	// step resumes thread T once and, if `through`, once more (post park -> return).
	step := func(want string, fail bool, through bool) {
		if th == nil || !strings.HasPrefix(th.where, want) {
			note = fmt.Sprintf("thread not at %q", want)
			return
		}
		if fail {
			x.vdb.FailAt(1)
		}
		_, res = x.resume(th)
		if res == nil && through {
			_, res = x.resume(th)
		}
	}
	cm := x.cm

	switch ev.A {
	case "CommitMem":
		cs := x.circuits(ev.Ins)
		begin(func() c07Result {
			a, err := cm.CommitCircuits(cs...)
			return c07Result{err: err, acts: a}
		})
	case "CommitDisk":
		step("pre:CommitCircuits", !ok, ok)
	case "CommitRollback":
		step("post:CommitCircuits", false, false)

	case "OpenCheck":
		var ks []Keystone
		for j := range ev.Ins {
			ks = append(ks, Keystone{InKey: c07Key(ev.Ins[j]), OutKey: c07Key(ev.Outs[j])})
		}
		begin(func() c07Result { return c07Result{err: cm.OpenCircuits(ks...)} })
	case "OpenDisk":
		step("pre:OpenCircuits", !ok, !ok)
	case "OpenApply":
		step("post:OpenCircuits", false, false)

	case "TrimMem":
		cid := lnwire.NewShortChanIDFromInt(uint64(ev.C))
		start := x.nextIdx[ev.C]
		begin(func() c07Result { return c07Result{err: cm.TrimOpenCircuits(cid, start)} })
	case "TrimDisk":
		step("pre:TrimOpenCircuits", !ok, true)

	case "DeleteMem":
		var ks []CircuitKey
		for _, k := range ev.Ins {
			ks = append(ks, c07Key(k))
		}
		begin(func() c07Result { return c07Result{err: cm.DeleteCircuits(ks...)} })
	case "DeleteDisk":
		step("pre:DeleteCircuits", !ok, ok)
	case "DeleteRestore":
		step("post:DeleteCircuits", false, false)

	case "Close":
		if cm == nil {
			note = "call on a dead map"
			break
		}
		c, err := cm.CloseCircuit(c07Key(ev.Outs[0]))
		res = &c07Result{err: err, circuit: c}
	case "Fail":
		if cm == nil {
			note = "call on a dead map"
			break
		}
		c, err := cm.FailCircuit(c07Key(ev.Ins[0]))
		res = &c07Result{err: err, circuit: c}

	case "AdvanceIdx":
		x.nextIdx[ev.C]++
	case "CloseChan":
		x.closedChans[ev.C] = true
	case "AddResMsg":
		x.resMsgs[c07Key(ev.Outs[0])] = true
	case "MarkBorked":
		x.chanStatus[ev.C] = chanstate.ChanStatusBorked
	case "MarkCommitBroadcast":
		x.chanStatus[ev.C] = chanstate.ChanStatusCommitBroadcasted

	case "Crash":
		x.crash()

	case "StartClean":
		if x.cm != nil || x.starter != nil {
			note = "start while up"
			break
		}
		cfg := x.cfg()
		x.starter = x.sched.spawn(func() c07Result {
			m, err := NewCircuitMap(cfg)
			return c07Result{err: err, cm: m}
		})
		failAt := "pre:initBuckets"
		if len(x.closedChans) > 0 {
			failAt = "pre:cleanClosedChannels"
		}
		n, r := x.advance(x.starter)
		for r == nil && n != "pre:restoreMemState" {
			if !ok && n == failAt {
				x.vdb.FailAt(1)
			}
			n, r = x.resume(x.starter)
		}
		res = r
	case "StartRestore":
		if x.starter == nil || x.starter.where != "pre:restoreMemState" {
			note = "starter not before restoreMemState"
			break
		}
		if !ok {
			x.vdb.FailAt(1)
		}
		n, r := x.resume(x.starter)
		for r == nil && !strings.HasPrefix(n, "tip:") {
			n, r = x.resume(x.starter)
		}
		res = r
	case "StartTrim":
		if x.starter == nil || x.starter.where != fmt.Sprintf("tip:%d", ev.C) {
			note = "starter not about to trim this channel"
			break
		}
		n, r := x.resume(x.starter)
		for r == nil && !strings.HasPrefix(n, "tip:") {
			if !ok && n == "pre:TrimOpenCircuits" {
				x.vdb.FailAt(1)
			}
			n, r = x.resume(x.starter)
		}
		res = r
	default:
		note = "unknown event"
	}

	// a start-up call that returned: install the map or forget the attempt
	if strings.HasPrefix(ev.A, "Start") && res != nil {
		x.starter = nil
		if res.err == nil {
			x.cm = res.cm
		}
	}
	// a call that returned frees its thread
	if res != nil && ev.T != 0 {
		delete(x.threads, ev.T)
	}

	rec["done"] = 0
	rec["err"] = "none"
	rec["adds"], rec["drops"], rec["fails"] = [][]int{}, [][]int{}, [][]int{}
	rec["key"] = c07None
	if res != nil {
		rec["done"] = 1
		rec["err"] = c07ErrClass(res.err)
		if res.acts != nil {
			rec["adds"] = c07Keys(res.acts.Adds)
			rec["drops"] = c07Keys(res.acts.Drops)
			rec["fails"] = c07Keys(res.acts.Fails)
		}
		if res.circuit != nil {
			rec["key"] = c07Arr(res.circuit.Incoming)
		}
	}
	rec["note"] = note
	x.project(rec)
	x.out.Emit(rec)
}

// project copies the observable state: LookupCircuit for every incoming key of
// the universe, LookupOpenCircuit for every outgoing key, the closed set,
// NumPending / NumOpen, and the raw contents of the two buckets.
func (x *c07Exec) project(rec verifkit.Rec) {
	pend, opened, closed := []verifkit.Rec{}, []verifkit.Rec{}, [][]int{}
	rec["up"], rec["np"], rec["no"] = 0, 0, 0
	if x.cm != nil {
		rec["up"] = 1
		for _, c := range x.inChans {
			for i := 0; i < x.nIds; i++ {
				k := c07Key([]int{c, i})
				p := x.cm.LookupCircuit(k)
				if p == nil {
					continue
				}
				o := c07None
				if p.HasKeystone() {
					o = c07Arr(p.OutKey())
				}
				l := 0
				if p.LoadedFromDisk {
					l = 1
				}
				pend = append(pend, verifkit.Rec{"in": c07Arr(p.Incoming), "l": l, "out": o})
			}
		}
		for _, c := range x.outChans {
			for i := 0; i < x.nIds+1; i++ {
				k := c07Key([]int{c, i})
				if p := x.cm.LookupOpenCircuit(k); p != nil {
					opened = append(opened, verifkit.Rec{"out": c07Arr(k), "in": c07Arr(p.Incoming)})
				}
			}
		}
		m := x.cm.(*circuitMap)
		m.mtx.RLock()
		var cl []CircuitKey
		for k := range m.closed {
			cl = append(cl, k)
		}
		m.mtx.RUnlock()
		sort.Slice(cl, func(i, j int) bool {
			return bytes.Compare(cl[i].Bytes(), cl[j].Bytes()) < 0
		})
		for _, k := range cl {
			closed = append(closed, c07Arr(k))
		}
		rec["np"], rec["no"] = x.cm.NumPending(), x.cm.NumOpen()
	}
	rec["pend"], rec["opened"], rec["closed"] = pend, opened, closed

	dadds, dkeys := [][]int{}, []verifkit.Rec{}
	err := kvdb.View(x.raw, func(tx kvdb.RTx) error {
		if b := tx.ReadBucket(circuitAddKey); b != nil {
			if err := b.ForEach(func(k, _ []byte) error {
				var in CircuitKey
				if err := in.SetBytes(k); err != nil {
					return err
				}
				dadds = append(dadds, c07Arr(in))
				return nil
			}); err != nil {
				return err
			}
		}
		if b := tx.ReadBucket(circuitKeystoneKey); b != nil {
			return b.ForEach(func(k, v []byte) error {
				var in, out CircuitKey
				if err := out.SetBytes(k); err != nil {
					return err
				}
				if err := in.SetBytes(v); err != nil {
					return err
				}
				dkeys = append(dkeys, verifkit.Rec{"out": c07Arr(out), "in": c07Arr(in)})
				return nil
			})
		}
		return nil
	}, func() { dadds, dkeys = [][]int{}, []verifkit.Rec{} })
	if err != nil {
		x.t.Fatalf("reading the buckets: %v", err)
	}
	rec["dadds"], rec["dkeys"] = dadds, dkeys
}

// c07TempDir prefers a memory file system: the bolt file is synced after every transaction and
// durability against a power failure is not the subject here.
func c07TempDir(t *testing.T) string {
	if st, err := os.Stat("/dev/shm"); err == nil && st.IsDir() {
		if d, err := os.MkdirTemp("/dev/shm", "verif-c07-"); err == nil {
			t.Cleanup(func() { os.RemoveAll(d) })
			return d
		}
	}
	return t.TempDir()
}

func c07Ints(s string) []int {
	var out []int
	for _, f := range strings.Split(s, ",") {
		n, err := strconv.Atoi(strings.TrimSpace(f))
		if err == nil {
			out = append(out, n)
		}
	}
	return out
}

// TestVerifC07CircuitMap replays the schedules in VERIF_SCHED.
func TestVerifC07CircuitMap(t *testing.T) {
	dir := os.Getenv("VERIF_SCHED")
	inChans := c07Ints(verifkit.Env("VERIF_C07_IN", "0,1"))
	outChans := c07Ints(verifkit.Env("VERIF_C07_OUT", "2,3"))
	nIds := verifkit.EnvInt("VERIF_C07_IDS", 3)
	out := verifkit.MustWriter(verifkit.Env("VERIF_OUT", ".") + "/trace.ndjson")
	defer out.Close()

	files := verifkit.ListFiles(dir, verifkit.Env("VERIF_C07_PREFIX", "b_"), ".ndjson")
	if len(files) == 0 {
		t.Fatalf("no schedules in %q", dir)
	}
	tmp := c07TempDir(t)
	for fi, f := range files {
		evs, err := verifkit.ReadNDJSONInto[c07Event](f)
		if err != nil {
			t.Fatal(err)
		}
		x := newC07Exec(t, out, fmt.Sprintf("%s/%d", tmp, fi), inChans, outChans, nIds)
		out.Emit(verifkit.Rec{"a": "Reset", "file": f})
		for _, ev := range evs {
			x.apply(ev)
		}
		x.close()
	}
}

// TestVerifC07Random is the free-running seeded driver: it draws schedules at
// the same granularity from a larger universe (3 incoming channels incl.
// hop.Source x 3 ids, 2 outgoing channels, 3 threads, batches up to 3) and
// keeps them switch-faithful by construction (a key or a channel that is
// touched by a call in flight is left alone; outgoing ids are allocated in
// order; a circuit is torn down only once its outgoing htlc is committed).
func TestVerifC07Random(t *testing.T) {
	inChans := c07Ints(verifkit.Env("VERIF_C07_IN", "0,1,4"))
	outChans := c07Ints(verifkit.Env("VERIF_C07_OUT", "2,3"))
	nIds := verifkit.EnvInt("VERIF_C07_IDS", 3)
	nThreads := verifkit.EnvInt("VERIF_C07_THREADS", 3)
	maxBatch := verifkit.EnvInt("VERIF_C07_BATCH", 3)
	runs := verifkit.EnvInt("VERIF_C07_RUNS", 40)
	steps := verifkit.EnvInt("VERIF_C07_STEPS", 80)
	out := verifkit.MustWriter(verifkit.Env("VERIF_OUT", ".") + "/trace.ndjson")
	defer out.Close()
	tmp := c07TempDir(t)

	for run := 0; run < runs; run++ {
		rng := rand.New(rand.NewSource(verifkit.Seed()*100003 + int64(run)))
		x := newC07Exec(t, out, fmt.Sprintf("%s/%d", tmp, run), inChans, outChans, nIds)
		out.Emit(verifkit.Rec{"a": "Reset", "file": fmt.Sprintf("random-%d-%d", verifkit.Seed(), run)})
		d := &c07Driver{x: x, rng: rng, nThreads: nThreads, maxBatch: maxBatch,
			busyIn: map[int][]CircuitKey{}, busyChan: map[int]int{}, op: map[int]string{},
			closeAfter: steps / 3, nFail: 0}
		for s := 0; s < steps; s++ {
			d.step(s)
		}
		x.close()
	}
}

// c07Driver chooses the next event from what the real threads are doing.
type c07Driver struct {
	x          *c07Exec
	rng        *rand.Rand
	nThreads   int
	maxBatch   int
	op         map[int]string       // thread -> call in flight
	busyIn     map[int][]CircuitKey // thread -> incoming keys its call touches
	busyChan   map[int]int          // thread -> outgoing channel its call touches (open/trim)
	closeAfter int
	nCrash     int
	nFail      int
}

func (d *c07Driver) inKeyBusy(k CircuitKey) bool {
	for _, ks := range d.busyIn {
		for _, b := range ks {
			if b == k {
				return true
			}
		}
	}
	return false
}

// noLink: the channel is fully closed or has left the default status - no link will run for it.
func (d *c07Driver) noLink(c int) bool {
	return d.x.closedChans[c] || d.x.chanStatus[c] != chanstate.ChanStatusDefault
}

func (d *c07Driver) chanBusy(c int) bool {
	for _, b := range d.busyChan {
		if b == c {
			return true
		}
	}
	return false
}

func (d *c07Driver) randIn() []int {
	return []int{d.x.inChans[d.rng.Intn(len(d.x.inChans))], d.rng.Intn(d.x.nIds)}
}

// pendIn draws an incoming key that is pending (half-open only, if asked) three times out of
// four, else any key of the universe.
func (d *c07Driver) pendIn(halfOpen bool) []int {
	if d.rng.Intn(4) != 0 {
		var cands [][]int
		for _, c := range d.x.inChans {
			for i := 0; i < d.x.nIds; i++ {
				p := d.x.cm.LookupCircuit(c07Key([]int{c, i}))
				if p != nil && !(halfOpen && p.HasKeystone()) {
					cands = append(cands, []int{c, i})
				}
			}
		}
		if len(cands) > 0 {
			return cands[d.rng.Intn(len(cands))]
		}
	}
	return d.randIn()
}

// openOut draws an outgoing key that is opened three times out of four.
func (d *c07Driver) openOut() []int {
	if d.rng.Intn(4) != 0 {
		var cands [][]int
		for _, c := range d.x.outChans {
			for i := 0; i < d.x.nIds; i++ {
				if d.x.cm.LookupOpenCircuit(c07Key([]int{c, i})) != nil {
					cands = append(cands, []int{c, i})
				}
			}
		}
		if len(cands) > 0 {
			return cands[d.rng.Intn(len(cands))]
		}
	}
	return []int{d.x.outChans[d.rng.Intn(len(d.x.outChans))], d.rng.Intn(d.x.nIds)}
}

func (d *c07Driver) free(t int) {
	delete(d.op, t)
	delete(d.busyIn, t)
	delete(d.busyChan, t)
}

func (d *c07Driver) emit(ev c07Event) {
	d.x.apply(ev)
	if ev.T != 0 && d.x.threads[ev.T] == nil {
		d.free(ev.T)
	}
}

func (d *c07Driver) step(s int) {
	x := d.x
	if x.cm == nil {
		// the process is down or starting: drive NewCircuitMap, sometimes with a fault
		fail := d.rng.Intn(8) == 0
		crash := d.rng.Intn(12) == 0 && x.starter != nil
		ok := 1
		if fail {
			ok = 0
		}
		switch {
		case crash:
			d.emit(c07Event{A: "Crash", C: -1, Ok: 1})
		case x.starter == nil:
			d.emit(c07Event{A: "StartClean", C: -1, Ok: ok})
		case x.starter.where == "pre:restoreMemState":
			d.emit(c07Event{A: "StartRestore", C: -1, Ok: ok})
		default:
			c, _ := strconv.Atoi(strings.TrimPrefix(x.starter.where, "tip:"))
			// a failing trim is only drawn when there is something to trim
			if ok == 0 {
				ok = 1
			}
			d.emit(c07Event{A: "StartTrim", C: c, Ok: ok})
		}
		return
	}

	// lowest idle thread, and the threads that are parked
	idle := 0
	var parked []int
	for t := 1; t <= d.nThreads; t++ {
		if x.threads[t] == nil {
			if idle == 0 {
				idle = t
			}
		} else {
			parked = append(parked, t)
		}
	}

	for try := 0; try < 50; try++ {
		r := d.rng.Intn(100)
		switch {
		case r < 30 && len(parked) > 0: // move a parked thread
			t := parked[d.rng.Intn(len(parked))]
			th := x.threads[t]
			ok := 1
			if d.rng.Intn(6) == 0 && d.op[t] != "Trim" {
				ok = 0
			}
			var a string
			switch {
			case strings.HasPrefix(th.where, "pre:"):
				a = d.op[t] + "Disk"
			case d.op[t] == "Commit":
				a, ok = "CommitRollback", 1
			case d.op[t] == "Open":
				a, ok = "OpenApply", 1
			case d.op[t] == "Delete":
				a, ok = "DeleteRestore", 1
			}
			d.emit(c07Event{A: a, T: t, C: -1, Ok: ok})
			return

		case r < 45 && idle != 0: // commit a batch (duplicates welcome)
			n := 1 + d.rng.Intn(d.maxBatch)
			var ins [][]int
			good := true
			for j := 0; j < n; j++ {
				k := d.randIn()
				// not a key that is being deleted (SwitchFaithful) or a closed channel
				for t, o := range d.op {
					if o == "Delete" {
						for _, b := range d.busyIn[t] {
							if b == c07Key(k) {
								good = false
							}
						}
					}
				}
				ins = append(ins, k)
			}
			if !good {
				continue
			}
			d.op[idle] = "Commit"
			for _, k := range ins {
				d.busyIn[idle] = append(d.busyIn[idle], c07Key(k))
			}
			d.emit(c07Event{A: "CommitMem", T: idle, Ins: ins, C: -1, Ok: 1})
			return

		case r < 60 && idle != 0: // open the next ids of a channel
			c := x.outChans[d.rng.Intn(len(x.outChans))]
			if d.chanBusy(c) || d.noLink(c) {
				continue
			}
			next := int(x.nextIdx[c])
			for x.cm.LookupOpenCircuit(c07Key([]int{c, next})) != nil {
				next++
			}
			n := 1 + d.rng.Intn(d.maxBatch)
			var ins, outs [][]int
			seen := map[CircuitKey]bool{}
			for j := 0; j < n && next+j < x.nIds; j++ {
				k := d.pendIn(true)
				kk := c07Key(k)
				p := x.cm.LookupCircuit(kk)
				if seen[kk] || d.inKeyBusy(kk) || (p != nil && p.HasKeystone()) ||
					x.closedChans[k[0]] {
					continue
				}
				seen[kk] = true
				ins = append(ins, k)
				outs = append(outs, []int{c, next + len(outs)})
			}
			if len(ins) == 0 {
				continue
			}
			d.op[idle] = "Open"
			d.busyChan[idle] = c
			for _, k := range ins {
				d.busyIn[idle] = append(d.busyIn[idle], c07Key(k))
			}
			d.emit(c07Event{A: "OpenCheck", T: idle, Ins: ins, Outs: outs, C: -1, Ok: 1})
			return

		case r < 66 && idle != 0: // a link (re)starts: trim
			c := x.outChans[d.rng.Intn(len(x.outChans))]
			if d.chanBusy(c) || d.noLink(c) {
				continue
			}
			d.op[idle] = "Trim"
			d.busyChan[idle] = c
			// the circuits this trim is going to touch
			for i := int(x.nextIdx[c]); ; i++ {
				p := x.cm.LookupOpenCircuit(c07Key([]int{c, i}))
				if p == nil {
					break
				}
				d.busyIn[idle] = append(d.busyIn[idle], p.Incoming)
			}
			d.emit(c07Event{A: "TrimMem", T: idle, C: c, Ok: 1})
			return

		case r < 78 && idle != 0: // delete circuits whose outgoing htlc is committed, or half-open ones
			n := 1 + d.rng.Intn(d.maxBatch)
			var ins [][]int
			seen := map[CircuitKey]bool{}
			for j := 0; j < n; j++ {
				k := d.pendIn(false)
				kk := c07Key(k)
				if seen[kk] || d.inKeyBusy(kk) {
					continue
				}
				if p := x.cm.LookupCircuit(kk); p != nil && p.HasKeystone() {
					o := p.OutKey()
					oc := int(o.ChanID.ToUint64())
					if !x.closedChans[oc] && o.HtlcID >= x.nextIdx[oc] {
						continue
					}
				}
				seen[kk] = true
				ins = append(ins, k)
			}
			if len(ins) == 0 {
				continue
			}
			d.op[idle] = "Delete"
			for _, k := range ins {
				d.busyIn[idle] = append(d.busyIn[idle], c07Key(k))
			}
			d.emit(c07Event{A: "DeleteMem", T: idle, Ins: ins, C: -1, Ok: 1})
			return

		case r < 84: // a response arrives from downstream
			d.emit(c07Event{A: "Close", Outs: [][]int{d.openOut()}, C: -1, Ok: 1})
			return

		case r < 89: // a local failure
			k := d.pendIn(false)
			committing := false
			for t, o := range d.op {
				if o != "Commit" {
					continue
				}
				for _, b := range d.busyIn[t] {
					if b == c07Key(k) {
						committing = true
					}
				}
			}
			if committing {
				continue
			}
			d.emit(c07Event{A: "Fail", Ins: [][]int{k}, C: -1, Ok: 1})
			return

		case r < 93: // the channel commits its next htlc
			c := -1
			for _, oc := range x.outChans {
				if !(d.chanBusy(oc) || d.noLink(oc) || int(x.nextIdx[oc]) >= x.nIds ||
					x.cm.LookupOpenCircuit(c07Key([]int{oc, int(x.nextIdx[oc])})) == nil) &&
					(c < 0 || d.rng.Intn(2) == 0) {
					c = oc
				}
			}
			if c < 0 {
				continue
			}
			d.emit(c07Event{A: "AdvanceIdx", C: c, Ok: 1})
			return

		case r < 96 && s >= d.closeAfter: // a resolution message / a channel is fully closed or marked
			if d.rng.Intn(2) == 0 {
				c := x.outChans[d.rng.Intn(len(x.outChans))]
				if x.closedChans[c] || d.chanBusy(c) ||
					x.chanStatus[c] != chanstate.ChanStatusDefault {
					continue
				}
				a := "MarkBorked"
				if d.rng.Intn(2) == 0 {
					a = "MarkCommitBroadcast"
				}
				d.emit(c07Event{A: a, C: c, Ok: 1})
				return
			}
			if d.rng.Intn(2) == 0 {
				c := x.outChans[d.rng.Intn(len(x.outChans))]
				o := []int{c, d.rng.Intn(x.nIds)}
				if x.closedChans[c] || x.resMsgs[c07Key(o)] || !d.diskKeystone(c07Key(o)) {
					continue
				}
				d.emit(c07Event{A: "AddResMsg", Outs: [][]int{o}, C: -1, Ok: 1})
				return
			}
			all := append(append([]int{}, x.inChans...), x.outChans...)
			c := all[d.rng.Intn(len(all))]
			if c == 0 || x.closedChans[c] || d.chanBusy(c) || !d.patient(c) {
				continue
			}
			d.emit(c07Event{A: "CloseChan", C: c, Ok: 1})
			return

		case r >= 97 && d.nCrash < 4:
			d.nCrash++
			d.op, d.busyIn, d.busyChan = map[int]string{}, map[int][]CircuitKey{}, map[int]int{}
			d.emit(c07Event{A: "Crash", C: -1, Ok: 1})
			return
		}
	}
	// nothing drawn: a harmless lookup-like call
	d.emit(c07Event{A: "Close", Outs: [][]int{{x.outChans[0], 0}}, C: -1, Ok: 1})
}

// diskKeystone reports whether a keystone for the outgoing key is on disk.
func (d *c07Driver) diskKeystone(out CircuitKey) bool {
	found := false
	kvdb.View(d.x.raw, func(tx kvdb.RTx) error {
		if b := tx.ReadBucket(circuitKeystoneKey); b != nil {
			found = b.Get(out.Bytes()) != nil
		}
		return nil
	}, func() {})
	return found
}

// patient is assumption A6: no circuit of channel c holds (in memory, on disk or in a call in
// flight) a keystone whose htlc has not reached a commitment.
func (d *c07Driver) patient(c int) bool {
	x := d.x
	ok := true
	uncommitted := func(out CircuitKey) bool {
		oc := int(out.ChanID.ToUint64())
		return !x.closedChans[oc] && out.HtlcID >= x.nextIdx[oc]
	}
	for _, oc := range x.outChans {
		for i := 0; i <= x.nIds; i++ {
			o := c07Key([]int{oc, i})
			if p := x.cm.LookupOpenCircuit(o); p != nil &&
				int(p.Incoming.ChanID.ToUint64()) == c && uncommitted(o) {
				ok = false
			}
		}
	}
	kvdb.View(x.raw, func(tx kvdb.RTx) error {
		if b := tx.ReadBucket(circuitKeystoneKey); b != nil {
			return b.ForEach(func(k, v []byte) error {
				var in, out CircuitKey
				out.SetBytes(k)
				in.SetBytes(v)
				if int(in.ChanID.ToUint64()) == c && uncommitted(out) {
					ok = false
				}
				return nil
			})
		}
		return nil
	}, func() {})
	for t, o := range d.op {
		if o == "Open" {
			for _, k := range d.busyIn[t] {
				if int(k.ChanID.ToUint64()) == c {
					ok = false
				}
			}
		}
	}
	return ok
}
