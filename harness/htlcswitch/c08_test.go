//go:build verif

package htlcswitch

import (
	"context"
	crand "crypto/rand"
	"crypto/sha256"
	"encoding/json"
	"fmt"
	"math/rand"
	"os"
	"path/filepath"
	"sort"
	"strings"
	"sync"
	"sync/atomic"
	"testing"
	"time"

	"github.com/btcsuite/btcd/btcec/v2"
	"github.com/btcsuite/btcd/btcutil/v2"
	"github.com/btcsuite/btclog/v2"
	"github.com/btcsuite/btcd/wire/v2"
	"github.com/lightningnetwork/lnd/channeldb"
	"github.com/lightningnetwork/lnd/chanstate"
	"github.com/lightningnetwork/lnd/contractcourt"
	"github.com/lightningnetwork/lnd/htlcswitch/hop"
	"github.com/lightningnetwork/lnd/internal/verifkit"
	invpkg "github.com/lightningnetwork/lnd/invoices"
	"github.com/lightningnetwork/lnd/lnpeer"
	"github.com/lightningnetwork/lnd/lntypes"
	"github.com/lightningnetwork/lnd/lnwallet"
	"github.com/lightningnetwork/lnd/lnwallet/chainfee"
	"github.com/lightningnetwork/lnd/lnwire"
	"github.com/lightningnetwork/lnd/ticker"
)

// C08 executor.  It runs TLC-generated fault plans (and seeded free-running
// plans) on the REAL three-hop network of the package's own fixture: real
// switches, circuit maps, links, channels, forwarding packages and invoice
// registries of Alice, Bob and Carol.  Every wire message is stamped twice under
// ONE mutex - when the sending link hands it to the peer object (io "s") and
// when the receiving server takes it off its queue, before processing (io "r";
// "d" if the connection it was sent on no longer exists and the message is
// dropped).  Faults: disconnect of a channel (all messages of the old
// connection are lost), restart of both links of a channel on the channels
// reloaded from the database (switches stay up), restart of the whole network
// (switches, circuit maps, links, channels reloaded from the three databases),
// hold invoices resolved at a chosen moment.  The executor records; it decides
// nothing: spec/Forwarding/ForwardingTrace.tla is the judge.

const (
	c08Cap = btcutil.Amount(300_000) // satoshi per channel side: every msat sum fits TLC's 32-bit ints
)

// c08Rec is one NDJSON line.
type c08Rec = verifkit.Rec

// c08Tap stamps and records.
type c08Tap struct {
	mu     sync.Mutex
	recs   []c08Rec
	seq    int
	last   time.Time
	ab, bc lnwire.ChannelID
	epoch  map[string]int
	msgEp  map[lnwire.Message]int
	hashP  map[[32]byte]int
	gate   map[string]chan struct{} // while the links of a channel are being re-created their sends wait here
	lostCh string        // armed: Bob's link of this channel (of epoch lostEp) loses every settle/fail it hands to the switch
	lostEp int
	lostHit chan struct{} // ... and tells the driver when a response that sits in a forwarding package was lost
	cutCh  string        // armed: the next revoke_and_ack sent on this channel parks its sender ...
	cutHit chan struct{} // ... and tells the driver, which restarts the links of that channel
}

func c08NewTap() *c08Tap {
	return &c08Tap{
		epoch: map[string]int{"AB": 0, "BC": 0},
		msgEp: make(map[lnwire.Message]int),
		hashP: make(map[[32]byte]int),
		last:  time.Now(),
		gate:  make(map[string]chan struct{}),
		cutHit: make(chan struct{}, 1),
		lostHit: make(chan struct{}, 16),
	}
}

func (t *c08Tap) chanName(c lnwire.ChannelID) string {
	switch c {
	case t.ab:
		return "AB"
	case t.bc:
		return "BC"
	}
	return "?"
}

// describe projects a wire message (field copies only).
func (t *c08Tap) describe(m lnwire.Message) (ch, k string, id, p, amt, ns int) {
	switch msg := m.(type) {
	case *lnwire.UpdateAddHTLC:
		return t.chanName(msg.ChanID), "add", int(msg.ID), t.hashP[msg.PaymentHash], int(msg.Amount), 0
	case *lnwire.UpdateFulfillHTLC:
		h := sha256.Sum256(msg.PaymentPreimage[:])
		return t.chanName(msg.ChanID), "ful", int(msg.ID), t.hashP[h], 0, 0
	case *lnwire.UpdateFailHTLC:
		return t.chanName(msg.ChanID), "fail", int(msg.ID), 0, 0, 0
	case *lnwire.UpdateFailMalformedHTLC:
		return t.chanName(msg.ChanID), "fail", int(msg.ID), 0, 0, 0
	case *lnwire.CommitSig:
		return t.chanName(msg.ChanID), "sig", 0, 0, 0, len(msg.HtlcSigs)
	case *lnwire.RevokeAndAck:
		return t.chanName(msg.ChanID), "rev", 0, 0, 0, 0
	case *lnwire.ChannelReestablish:
		return t.chanName(msg.ChanID), "reest", int(msg.NextLocalCommitHeight), 0, int(msg.RemoteCommitTailHeight), 0
	case *lnwire.ChannelReady:
		return t.chanName(msg.ChanID), "ready", 0, 0, 0, 0
	case *lnwire.UpdateFee:
		return t.chanName(msg.ChanID), "fee", 0, 0, 0, 0
	case *lnwire.Error:
		return t.chanName(msg.ChanID), "error", 0, 0, 0, 0
	case *lnwire.Warning:
		return t.chanName(msg.ChanID), "warning", 0, 0, 0, 0
	}
	return "?", fmt.Sprintf("%T", m), 0, 0, 0, 0
}

func (t *c08Tap) emitLocked(r c08Rec) {
	t.seq++
	r["seq"] = t.seq
	t.recs = append(t.recs, r)
	t.last = time.Now()
}

// note records a non-wire event in sequence.
func (t *c08Tap) note(r c08Rec) {
	t.mu.Lock()
	t.emitLocked(r)
	t.mu.Unlock()
}

// onSend stamps a send; it returns true if the sender is to be parked after the message has gone out
// (fault "cut": the link is stopped between its revoke_and_ack and the signature it owes).
func (t *c08Tap) onSend(from, ch string, ep int, m lnwire.Message) bool {
	t.mu.Lock()
	defer t.mu.Unlock()
	c, k, id, p, amt, ns := t.describe(m)
	if c == "?" {
		c = ch
	}
	t.msgEp[m] = ep
	t.emitLocked(c08Rec{"a": "E", "n": from, "io": "s", "ch": c, "k": k, "id": id, "p": p, "amt": amt, "ns": ns})
	if k == "rev" && t.cutCh == c && ep == t.epoch[c] {
		t.cutCh = ""
		return true
	}
	return false
}

// closeGate / openGate: a mock server discards messages for a link that is not registered yet, so
// while both links of a channel are being re-created nothing is sent on that channel.
func (t *c08Tap) closeGate(ch string) {
	t.mu.Lock()
	t.gate[ch] = make(chan struct{})
	t.mu.Unlock()
}

func (t *c08Tap) openGate(ch string) {
	t.mu.Lock()
	if g := t.gate[ch]; g != nil {
		close(g)
		delete(t.gate, ch)
	}
	t.mu.Unlock()
}

func (t *c08Tap) waitGate(ch string, ep int) {
	t.mu.Lock()
	g := t.gate[ch]
	cur := t.epoch[ch]
	t.mu.Unlock()
	if g != nil && ep == cur {
		<-g
	}
}

// armLost: from now on the hand-over of settles and fails from Bob's current link of channel ch to the
// switch is lost with ErrLinkShuttingDown - what Switch.ForwardPackets / routeAsync answer when the link's
// quit channel fires first (fault "lost": the link goes down at the moment it hands a response over).
func (t *c08Tap) armLost(ch string) {
	t.mu.Lock()
	t.lostCh, t.lostEp = ch, t.epoch[ch]
	t.mu.Unlock()
}

// loseResponses decides (and records) whether a batch a link hands to its switch is lost.
func (t *c08Tap) loseResponses(from, ch string, ep int, pkts []*htlcPacket) bool {
	t.mu.Lock()
	defer t.mu.Unlock()
	if from != "B" || ch == "" || t.lostCh != ch || t.lostEp != ep {
		return false
	}
	lost, ref := false, false
	for _, p := range pkts {
		switch p.htlc.(type) {
		case *lnwire.UpdateFulfillHTLC, *lnwire.UpdateFailHTLC:
			lost = true
			ref = ref || p.destRef != nil
		}
	}
	if !lost {
		return false
	}
	r := 0
	if ref {
		r = 1
	}
	t.emitLocked(c08Rec{"a": "Note", "what": "lost-handover", "n": from, "ch": ch, "np": len(pkts), "ref": r})
	if ref {
		select {
		case t.lostHit <- struct{}{}:
		default:
		}
	}
	return true
}

func (t *c08Tap) inFlight(m lnwire.Message) bool {
	t.mu.Lock()
	defer t.mu.Unlock()
	_, ok := t.msgEp[m]
	return ok
}

func (t *c08Tap) armCut(ch string) {
	t.mu.Lock()
	t.cutCh = ch
	t.mu.Unlock()
}

// onRecv stamps the receipt BEFORE the message is processed; a message that was
// sent on a connection that has been torn down since is dropped.
func (t *c08Tap) onRecv(at string, m lnwire.Message) bool {
	t.mu.Lock()
	c, k, id, p, amt, ns := t.describe(m)
	ep, ok := t.msgEp[m]
	delete(t.msgEp, m)
	drop := !ok || ep != t.epoch[c]
	io := "r"
	if drop {
		io = "d"
	}
	t.emitLocked(c08Rec{"a": "E", "n": at, "io": io, "ch": c, "k": k, "id": id, "p": p, "amt": amt, "ns": ns})
	t.mu.Unlock()
	return drop
}

func (t *c08Tap) copy() []c08Rec {
	t.mu.Lock()
	defer t.mu.Unlock()
	return append([]c08Rec(nil), t.recs...)
}

// touch restarts the silence clock (a payment has just been handed to a switch).
func (t *c08Tap) touch() {
	t.mu.Lock()
	t.last = time.Now()
	t.mu.Unlock()
}

func (t *c08Tap) state() (int, time.Duration) {
	t.mu.Lock()
	defer t.mu.Unlock()
	return t.seq, time.Since(t.last)
}

func (t *c08Tap) bump(chs ...string) {
	t.mu.Lock()
	for _, c := range chs {
		t.epoch[c]++
	}
	t.mu.Unlock()
}

func (t *c08Tap) epochOf(ch string) int {
	t.mu.Lock()
	defer t.mu.Unlock()
	return t.epoch[ch]
}

// c08Peer is the peer object a link sends through: the remote mockServer plus the send stamp.
type c08Peer struct {
	*mockServer
	tap   *c08Tap
	from  string
	ch    string
	epoch int
	quit  <-chan struct{} // the sending link's quit signal (set before the link is started)
}

var _ lnpeer.Peer = (*c08Peer)(nil)

func (p *c08Peer) SendMessage(sync bool, msgs ...lnwire.Message) error {
	p.tap.waitGate(p.ch, p.epoch)
	park := false
	for _, m := range msgs {
		if p.tap.onSend(p.from, p.ch, p.epoch, m) {
			park = true
		}
	}
	err := p.mockServer.SendMessage(sync, msgs...)
	if park && p.quit != nil {
		// hold the link here until the revocation has been taken by the peer, then until the
		// link is told to stop
		last := msgs[len(msgs)-1]
		for i := 0; i < 5000 && p.tap.inFlight(last); i++ {
			time.Sleep(200 * time.Microsecond)
		}
		p.tap.cutHit <- struct{}{}
		<-p.quit
	}
	return err
}

// c08CreateLink is hopNetwork.createChannelLink of the fixture with the peer object as a parameter.
func c08CreateLink(h *hopNetwork, server *mockServer, peer lnpeer.Peer,
	channel *lnwallet.LightningChannel, decoder *mockIteratorDecoder) (*channelLink, error) {

	const (
		fwdPkgTimeout       = 15 * time.Second
		minFeeUpdateTimeout = 30 * time.Minute
		maxFeeUpdateTimeout = 40 * time.Minute
	)

	notifyUpdateChan := make(chan *contractcourt.ContractUpdate)
	doneChan := make(chan struct{})
	notifyContractUpdate := func(u *contractcourt.ContractUpdate) error {
		select {
		case notifyUpdateChan <- u:
		case <-doneChan:
		}
		return nil
	}
	getAliases := func(base lnwire.ShortChannelID) []lnwire.ShortChannelID { return nil }
	tp, _ := peer.(*c08Peer)
	forwardPackets := func(linkQuit <-chan struct{}, _ bool, packets ...*htlcPacket) error {
		if tp != nil && tp.tap.loseResponses(tp.from, tp.ch, tp.epoch, packets) {
			return ErrLinkShuttingDown
		}
		return server.htlcSwitch.ForwardPackets(linkQuit, packets...)
	}

	//nolint:ll
	link := NewChannelLink(
		ChannelLinkConfig{
			BestHeight:         server.htlcSwitch.BestHeight,
			FwrdingPolicy:      h.globalPolicy,
			Peer:               peer,
			Circuits:           server.htlcSwitch.CircuitModifier(),
			ForwardPackets:     forwardPackets,
			DecodeHopIterators: decoder.DecodeHopIterators,
			// a fresh mock encrypter per call: the fixture shares ONE mutable mockObfuscator between
			// all links of all nodes, which is a data race inside the mock (EncryptFirstHop stores the
			// failure in it) as soon as two links fail something concurrently
			ExtractErrorEncrypter: func(*btcec.PublicKey) (hop.ErrorEncrypter, lnwire.FailCode) {
				return NewMockObfuscator(), lnwire.CodeNone
			},
			FetchLastChannelUpdate: mockGetChanUpdateMessage,
			Registry:               server.registry,
			FeeEstimator:           h.feeEstimator,
			PreimageCache:          server.pCache,
			UpdateContractSignals: func(*contractcourt.ContractSignals) error {
				return nil
			},
			NotifyContractUpdate:       notifyContractUpdate,
			ChainEvents:                &contractcourt.ChainEventSubscription{},
			SyncStates:                 true,
			BatchSize:                  10,
			BatchTicker:                ticker.NewForce(testBatchTimeout),
			FwdPkgGCTicker:             ticker.NewForce(fwdPkgTimeout),
			PendingCommitTicker:        ticker.New(2 * time.Minute),
			MinUpdateTimeout:           minFeeUpdateTimeout,
			MaxUpdateTimeout:           maxFeeUpdateTimeout,
			OnChannelFailure:           func(lnwire.ChannelID, lnwire.ShortChannelID, LinkFailureError) {},
			OutgoingCltvRejectDelta:    3,
			MaxOutgoingCltvExpiry:      DefaultMaxOutgoingCltvExpiry,
			MaxFeeAllocation:           DefaultMaxLinkFeeAllocation,
			MaxAnchorsCommitFeeRate:    chainfee.SatPerKVByte(10 * 1000).FeePerKWeight(),
			NotifyActiveLink:           func(wire.OutPoint) {},
			NotifyActiveChannel:        func(wire.OutPoint) {},
			NotifyInactiveChannel:      func(wire.OutPoint) {},
			NotifyInactiveLinkEvent:    func(wire.OutPoint) {},
			NotifyChannelUpdate:        func(*chanstate.OpenChannel) {},
			HtlcNotifier:               server.htlcSwitch.cfg.HtlcNotifier,
			GetAliases:                 getAliases,
			ShouldFwdExpAccountability: func() bool { return true },
		},
		channel,
	)
	cl := link.(*channelLink)
	if tp, ok := peer.(*c08Peer); ok {
		tp.quit = cl.cg.Done()
	}
	if err := server.htlcSwitch.AddLink(link); err != nil {
		return nil, fmt.Errorf("unable to add channel link: %w", err)
	}
	go func() {
		for {
			select {
			case <-notifyUpdateChan:
			case <-cl.cg.Done():
				close(doneChan)
				return
			}
		}
	}()
	return cl, nil
}

// c08Net is the three-hop network of one run.
type c08Net struct {
	t    *testing.T
	tap  *c08Tap
	tc   [4]*testLightningChannel // alice(AB) bob(AB) bob(BC) carol(BC)
	n    *threeHopNetwork
	hn   *hopNetwork
	regs [3]*mockInvoiceRegistry
	pcs  [3]*mockPreimageCache
	// api is held (shared) by a payment goroutine while it is inside SendHTLC / GetAttemptResult and
	// (exclusively) by the network restart: Switch.GetAttemptResult does wg.Add while Switch.Stop may
	// be in wg.Wait - the driver does not call into a switch that it is stopping
	api sync.RWMutex
}

func (cn *c08Net) peer(remote *mockServer, from, ch string) *c08Peer {
	return &c08Peer{mockServer: remote, tap: cn.tap, from: from, ch: ch, epoch: cn.tap.epochOf(ch)}
}

// build creates servers and links on the given channels (as newThreeHopNetwork does) with the
// taps in place before anything is started.
func (cn *c08Net) build(chans [4]*lnwallet.LightningChannel) error {
	t := cn.t
	aliceDb := testChannelStateDB(t, chans[0]).GetParentDB()
	bobDb := testChannelStateDB(t, chans[1]).GetParentDB()
	carolDb := testChannelStateDB(t, chans[3]).GetParentDB()
	hn := newHopNetwork()
	cn.hn = hn
	srv := [3]*mockServer{}
	dbs := []*channeldb.DB{aliceDb, bobDb, carolDb}
	for i, name := range []string{"alice", "bob", "carol"} {
		var err error
		srv[i], err = newMockServer(t, name, testStartingHeight, dbs[i], hn.defaultDelta)
		if err != nil {
			return err
		}
		// invoice registry and preimage cache are durable in a real node: carried over restarts
		if cn.regs[i] != nil {
			srv[i].registry = cn.regs[i]
			srv[i].pCache = cn.pcs[i]
		} else {
			cn.regs[i] = srv[i].registry
			cn.pcs[i] = srv[i].pCache
		}
	}
	names := []string{"A", "B", "C"}
	for i := range srv {
		node := names[i]
		srv[i].intersect(func(m lnwire.Message) (bool, error) {
			return cn.tap.onRecv(node, m), nil
		})
	}
	aDec, bDec, cDec := newMockIteratorDecoder(), newMockIteratorDecoder(), newMockIteratorDecoder()
	la, err := c08CreateLink(hn, srv[0], cn.peer(srv[1], "A", "AB"), chans[0], aDec)
	if err != nil {
		return err
	}
	lb1, err := c08CreateLink(hn, srv[1], cn.peer(srv[0], "B", "AB"), chans[1], bDec)
	if err != nil {
		return err
	}
	lb2, err := c08CreateLink(hn, srv[1], cn.peer(srv[2], "B", "BC"), chans[2], bDec)
	if err != nil {
		return err
	}
	lc, err := c08CreateLink(hn, srv[2], cn.peer(srv[1], "C", "BC"), chans[3], cDec)
	if err != nil {
		return err
	}
	cn.n = &threeHopNetwork{
		aliceServer: srv[0], aliceChannelLink: la, aliceOnionDecoder: aDec,
		bobServer: srv[1], firstBobChannelLink: lb1, secondBobChannelLink: lb2, bobOnionDecoder: bDec,
		carolServer: srv[2], carolChannelLink: lc, carolOnionDecoder: cDec,
		hopNetwork: *hn,
	}
	return nil
}

func (cn *c08Net) links() [4]*channelLink {
	return [4]*channelLink{cn.n.aliceChannelLink, cn.n.firstBobChannelLink,
		cn.n.secondBobChannelLink, cn.n.carolChannelLink}
}

func (cn *c08Net) servers() [3]*mockServer {
	return [3]*mockServer{cn.n.aliceServer, cn.n.bobServer, cn.n.carolServer}
}

func (cn *c08Net) restore(idx ...int) (map[int]*lnwallet.LightningChannel, error) {
	out := map[int]*lnwallet.LightningChannel{}
	for _, i := range idx {
		c, err := cn.tc[i].restore()
		if err != nil {
			return nil, err
		}
		out[i] = c
	}
	return out, nil
}

// netRestart: stop everything, reload the four channels from the three databases, new switches
// (circuit maps reloaded from disk), new links.
func (cn *c08Net) netRestart() error {
	cn.tap.bump("AB", "BC")
	cn.api.Lock()
	cn.n.stop()
	cn.api.Unlock()
	cn.tap.note(c08Rec{"a": "Restart", "kind": "net", "ch": "all"})
	m, err := cn.restore(0, 1, 2, 3)
	if err != nil {
		return err
	}
	if err := cn.build([4]*lnwallet.LightningChannel{m[0], m[1], m[2], m[3]}); err != nil {
		return err
	}
	return cn.n.start()
}

// linkRestart: both links of one channel are stopped and re-created on the channel state reloaded
// from disk; the switches (circuit maps, mailboxes) keep running - a peer reconnect.  The new links
// get a fresh onion decoder: the fixture's mock decoder caches *consumed* iterators per forwarding
// package, which a real (durable, immutable) replay log does not.
func (cn *c08Net) linkRestart(ch string) error {
	cn.tap.bump(ch)
	cn.tap.closeGate(ch)
	defer cn.tap.openGate(ch)
	n := cn.n
	if ch == "AB" {
		id := n.aliceChannelLink.ChanID()
		n.aliceServer.htlcSwitch.RemoveLink(id)
		n.bobServer.htlcSwitch.RemoveLink(id)
		cn.tap.note(c08Rec{"a": "Restart", "kind": "link", "ch": ch})
		m, err := cn.restore(0, 1)
		if err != nil {
			return err
		}
		la, err := c08CreateLink(cn.hn, n.aliceServer, cn.peer(n.bobServer, "A", "AB"), m[0], newMockIteratorDecoder())
		if err != nil {
			return err
		}
		lb, err := c08CreateLink(cn.hn, n.bobServer, cn.peer(n.aliceServer, "B", "AB"), m[1], newMockIteratorDecoder())
		if err != nil {
			return err
		}
		n.aliceChannelLink, n.firstBobChannelLink = la, lb
	} else {
		id := n.carolChannelLink.ChanID()
		n.bobServer.htlcSwitch.RemoveLink(id)
		n.carolServer.htlcSwitch.RemoveLink(id)
		cn.tap.note(c08Rec{"a": "Restart", "kind": "link", "ch": ch})
		m, err := cn.restore(2, 3)
		if err != nil {
			return err
		}
		lb, err := c08CreateLink(cn.hn, n.bobServer, cn.peer(n.carolServer, "B", "BC"), m[2], newMockIteratorDecoder())
		if err != nil {
			return err
		}
		lc, err := c08CreateLink(cn.hn, n.carolServer, cn.peer(n.bobServer, "C", "BC"), m[3], newMockIteratorDecoder())
		if err != nil {
			return err
		}
		n.secondBobChannelLink, n.carolChannelLink = lb, lc
	}
	cn.tap.openGate(ch)
	return waitLinksEligible(map[string]*channelLink{
		"alice": n.aliceChannelLink, "bob first": n.firstBobChannelLink,
		"bob second": n.secondBobChannelLink, "carol": n.carolChannelLink,
	})
}

// c08Item is one line of a plan: a payment or a fault.
type c08Item struct {
	A    string `json:"a"`    // Pay | Fault
	Dir  string `json:"dir"`  // fwd (Alice->Carol) | rev (Carol->Alice)
	Amt  int    `json:"amt"`  // msat delivered
	Kind string `json:"kind"` // Pay: ok leak unknown wrongamt hold_settle hold_cancel underpaid; Fault: net linkAB linkBC discAB discBC cutAB cutBC lostAB lostBC
	At   int    `json:"at"`   // tap count that triggers it (0 = at start)
	Hat  int    `json:"hat"`  // hold invoices: tap count at which the invoice is resolved (0 = at quiescence)
}

type c08Pay struct {
	c08Item
	idx      int
	inAmt    lnwire.MilliSatoshi
	preimage lntypes.Preimage
	hash     lntypes.Hash
	mu       sync.Mutex
	res      string
	resolved bool // hold invoice resolved
}

func (p *c08Pay) setRes(s string) {
	p.mu.Lock()
	p.res = s
	p.mu.Unlock()
}

func (p *c08Pay) getRes() string {
	p.mu.Lock()
	defer p.mu.Unlock()
	return p.res
}

// launch sends the payment through the sender's switch, exactly like the fixture's preparePayment.
func (cn *c08Net) launch(p *c08Pay) {
	n := cn.n
	sender, receiver := n.aliceServer, n.carolServer
	path := []*channelLink{n.firstBobChannelLink, n.carolChannelLink}
	firstHop := n.firstBobChannelLink.ShortChanID()
	if p.Dir == "rev" {
		sender, receiver = n.carolServer, n.aliceServer
		path = []*channelLink{n.secondBobChannelLink, n.aliceChannelLink}
		firstHop = n.secondBobChannelLink.ShortChanID()
	}
	amt := lnwire.MilliSatoshi(p.Amt)
	htlcAmt, timelock, hops := generateHops(amt, testStartingHeight, path...)
	invoiceAmt := amt
	var pre *lntypes.Preimage = &p.preimage
	switch p.Kind {
	case "wrongamt":
		invoiceAmt = 2 * amt
	case "underpaid":
		htlcAmt--
	case "hold_settle", "hold_cancel":
		pre = nil
	case "leak":
		// an ordinary payment whose preimage Bob already holds in his witness cache (learnt
		// elsewhere): forwarding must not make use of it
		_ = cn.pcs[1].AddPreimages(p.preimage)
	}
	blob, err := generateRoute(hops...)
	if err != nil {
		p.setRes("senderr")
		return
	}
	var payAddr [32]byte
	_, _ = crand.Read(payAddr[:])
	invoice, htlc, pid, err := generatePaymentWithPreimage(invoiceAmt, htlcAmt, timelock, blob, pre, p.hash, payAddr)
	if err != nil {
		p.setRes("senderr")
		return
	}
	if p.Kind != "unknown" {
		if err := receiver.registry.AddInvoice(context.Background(), *invoice, p.hash); err != nil {
			p.setRes("senderr")
			return
		}
	}
	p.setRes("pending")
	cn.tap.touch()
	go func() {
		cn.api.RLock()
		if atomicLoadShutdown(sender) {
			cn.api.RUnlock()
			p.setRes("lost")
			return
		}
		err := sender.htlcSwitch.SendHTLC(firstHop, pid, htlc)
		if err != nil {
			cn.api.RUnlock()
			p.setRes("senderr")
			return
		}
		rc, err := sender.htlcSwitch.GetAttemptResult(pid, p.hash, newMockDeobfuscator())
		cn.api.RUnlock()
		if err != nil {
			p.setRes("lost")
			return
		}
		r, ok := <-rc
		switch {
		case !ok:
			p.setRes("lost")
		case r.Error != nil:
			p.setRes("fail")
		default:
			p.setRes("ok")
		}
	}()
}

func atomicLoadShutdown(s *mockServer) bool {
	return atomic.LoadInt32(&s.shutdown) == 1
}

// resolveHold settles or cancels a hold invoice at the receiver (final: record a failed attempt too).
func (cn *c08Net) resolveHold(p *c08Pay, final bool) {
	reg := cn.regs[2]
	if p.Dir == "rev" {
		reg = cn.regs[0]
	}
	var err error
	act := "settle"
	if p.Kind == "hold_cancel" {
		act = "cancel"
		err = reg.CancelInvoice(context.Background(), p.hash)
	} else {
		err = reg.SettleHodlInvoice(context.Background(), p.preimage)
	}
	ok := 1
	if err != nil {
		ok = 0
		if !final {
			return
		}
	} else {
		p.resolved = true
	}
	cn.tap.note(c08Rec{"a": "HoldRes", "p": p.idx, "act": act, "ok": ok})
}

func (cn *c08Net) clean() bool {
	for _, l := range cn.links() {
		if len(l.channel.ActiveHtlcs()) != 0 || !l.channel.IsChannelClean() {
			return false
		}
	}
	return cn.n.bobServer.htlcSwitch.circuits.NumPending() == 0
}

// waitQuiet waits until no wire event has been stamped for a while: 250 ms if every channel is
// clean and Bob holds no circuit, 3 s otherwise.  Returns false if events keep flowing past the bound.
func (cn *c08Net) waitQuiet(bound time.Duration, pays []*c08Pay, allowHeld bool) bool {
	deadline := time.Now().Add(bound)
	for time.Now().Before(deadline) {
		time.Sleep(20 * time.Millisecond)
		_, idle := cn.tap.state()
		if idle < 250*time.Millisecond {
			continue
		}
		pending := false
		for _, p := range pays {
			r := p.getRes()
			held := strings.HasPrefix(p.Kind, "hold") && !p.resolved
			if r == "pending" && !(held && allowHeld) {
				pending = true
			}
		}
		if (cn.clean() && !pending) || idle >= 3*time.Second {
			return true
		}
		if allowHeld && idle >= 600*time.Millisecond {
			// held HTLCs keep the channels busy legitimately
			anyHeld := false
			for _, p := range pays {
				if strings.HasPrefix(p.Kind, "hold") && !p.resolved {
					anyHeld = true
				}
			}
			if anyHeld {
				return true
			}
		}
	}
	return false
}

func c08InvState(reg *mockInvoiceRegistry, h lntypes.Hash) string {
	inv, err := reg.LookupInvoice(context.Background(), h)
	if err != nil {
		return "none"
	}
	switch inv.State {
	case invpkg.ContractOpen:
		return "open"
	case invpkg.ContractSettled:
		return "settled"
	case invpkg.ContractCanceled:
		return "canceled"
	case invpkg.ContractAccepted:
		return "accepted"
	}
	return "?"
}

func (cn *c08Net) snapshot(pays []*c08Pay, ok bool) c08Rec {
	bal, act := []int{}, []int{}
	for _, l := range cn.links() {
		bal = append(bal, int(l.channel.StateSnapshot().LocalBalance))
		act = append(act, len(l.channel.ActiveHtlcs()))
	}
	pend, open := []int{}, []int{}
	for _, s := range cn.servers() {
		pend = append(pend, s.htlcSwitch.circuits.NumPending())
		open = append(open, s.htlcSwitch.circuits.NumOpen())
	}
	res, inv := []string{}, []string{}
	for _, p := range pays {
		res = append(res, p.getRes())
		reg := cn.regs[2]
		if p.Dir == "rev" {
			reg = cn.regs[0]
		}
		inv = append(inv, c08InvState(reg, p.hash))
	}
	o := 0
	if ok {
		o = 1
	}
	return c08Rec{"a": "Quiesce", "ok": o, "bal": bal, "act": act, "pend": pend, "open": open, "res": res, "inv": inv}
}

// c08Run executes one plan and returns its records.
func c08Run(t *testing.T, run int, name string, items []c08Item) (recs []c08Rec, status string) {
	tap := c08NewTap()
	cn := &c08Net{t: t, tap: tap}
	_, _, firstChanID, secondChanID := genIDs()
	a, b1, err := createTestChannel(t, alicePrivKey, bobPrivKey, c08Cap, c08Cap, 0, 0, firstChanID)
	if err != nil {
		t.Fatalf("run %d: %v", run, err)
	}
	b2, c, err := createTestChannel(t, bobPrivKey, carolPrivKey, c08Cap, c08Cap, 0, 0, secondChanID)
	if err != nil {
		t.Fatalf("run %d: %v", run, err)
	}
	cn.tc = [4]*testLightningChannel{a, b1, b2, c}
	tap.ab = lnwire.NewChanIDFromOutPoint(a.channel.ChannelPoint())
	tap.bc = lnwire.NewChanIDFromOutPoint(c.channel.ChannelPoint())

	var pays []*c08Pay
	var faults []c08Item
	for _, it := range items {
		switch it.A {
		case "Pay":
			if it.Kind == "okay" {
				it.Kind = "ok"
			}
			p := &c08Pay{c08Item: it, idx: len(pays) + 1}
			_, _ = crand.Read(p.preimage[:])
			p.hash = p.preimage.Hash()
			tap.hashP[p.hash] = p.idx
			pays = append(pays, p)
		case "Fault":
			faults = append(faults, it)
		}
	}
	// the Reset line: plan, policy, initial balances (read before anything is created or runs)
	pol := newHopNetwork().globalPolicy
	pl := []c08Rec{}
	fee := int(ExpectedFee(pol, 0))
	for _, p := range pays {
		p.inAmt = lnwire.MilliSatoshi(p.Amt) + ExpectedFee(pol, lnwire.MilliSatoshi(p.Amt))
		in := int(p.inAmt)
		if p.Kind == "underpaid" {
			in--
		}
		pl = append(pl, c08Rec{"dir": p.Dir, "amt": p.Amt, "inamt": in, "kind": p.Kind})
	}
	bal := []int{}
	for _, ch := range cn.tc {
		bal = append(bal, int(ch.channel.StateSnapshot().LocalBalance))
	}
	tap.note(c08Rec{"a": "Reset", "run": run, "plan": name, "np": len(pays), "pays": pl, "bal": bal,
		"basefee": fee, "minout": int(pol.MinHTLCOut)})
	if err := cn.build([4]*lnwallet.LightningChannel{a.channel, b1.channel, b2.channel, c.channel}); err != nil {
		t.Fatalf("run %d: build: %v", run, err)
	}
	if err := cn.n.start(); err != nil {
		t.Fatalf("run %d: start: %v", run, err)
	}
	defer func() { cn.n.stop() }()

	// the schedule: payments and faults ordered by their trigger
	type sched struct {
		at  int
		pay *c08Pay
		f   *c08Item
		res *c08Pay
	}
	var todo []sched
	for _, p := range pays {
		todo = append(todo, sched{at: p.At, pay: p})
		if strings.HasPrefix(p.Kind, "hold") && p.Hat > 0 {
			todo = append(todo, sched{at: p.Hat, res: p})
		}
	}
	for i := range faults {
		todo = append(todo, sched{at: faults[i].At, f: &faults[i]})
	}
	sort.SliceStable(todo, func(i, j int) bool { return todo[i].at < todo[j].at })
	status = "ok"
	base, _ := tap.state()
	for _, s := range todo {
		// wait for the trigger (tap count since start), or for the network to fall silent
		idleOut := false
		for {
			seq, idle := tap.state()
			if seq-base >= s.at {
				break
			}
			if idle > 400*time.Millisecond {
				idleOut = true
				break
			}
			time.Sleep(200 * time.Microsecond)
		}
		switch {
		case s.pay != nil:
			cn.launch(s.pay)
		case s.res != nil:
			cn.resolveHold(s.res, false)
		case s.f != nil:
			// (a trigger that is never reached fires when the network has fallen silent: a fault
			// in a quiet network, typically with hold invoices still held)
			_ = idleOut
			var err error
			switch s.f.Kind {
			case "net":
				err = cn.netRestart()
			case "linkAB":
				err = cn.linkRestart("AB")
			case "linkBC":
				err = cn.linkRestart("BC")
			case "discAB":
				tap.bump("AB")
				tap.note(c08Rec{"a": "Disc", "ch": "AB"})
			case "discBC":
				tap.bump("BC")
				tap.note(c08Rec{"a": "Disc", "ch": "BC"})
			case "lostAB", "lostBC":
				// Bob's link of the channel loses the responses it hands to the switch (as if it
				// were shutting down at that moment); once a response that is recorded in its
				// forwarding package has been lost, the channel reconnects - the switch stays up
				ch := strings.TrimPrefix(s.f.Kind, "lost")
				tap.armLost(ch)
				select {
				case <-tap.lostHit:
					time.Sleep(30 * time.Millisecond)
					err = cn.linkRestart(ch)
				case <-time.After(2 * time.Second):
				}
				tap.armLost("")
			case "cutAB", "cutBC":
				// stop the links of the channel exactly between a revoke_and_ack and the
				// signature its sender owes, then reconnect
				ch := strings.TrimPrefix(s.f.Kind, "cut")
				tap.armCut(ch)
				select {
				case <-tap.cutHit:
					err = cn.linkRestart(ch)
				case <-time.After(1500 * time.Millisecond):
					tap.armCut("")
					select {
					case <-tap.cutHit:
						err = cn.linkRestart(ch)
					default:
					}
				}
			}
			if err != nil {
				tap.note(c08Rec{"a": "Abort", "why": "restart: " + err.Error()})
				return tap.copy(), "abort"
			}
		}
	}
	// a disconnected channel is reconnected before the end (otherwise nothing can complete)
	for _, ch := range []string{"AB", "BC"} {
		stale := false
		for _, l := range cn.links() {
			if pp, ok := l.cfg.Peer.(*c08Peer); ok && pp.ch == ch && pp.epoch != tap.epochOf(ch) {
				stale = true
			}
		}
		if stale {
			cn.waitQuiet(2*time.Second, pays, true)
			if err := cn.linkRestart(ch); err != nil {
				tap.note(c08Rec{"a": "Abort", "why": "reconnect: " + err.Error()})
				return tap.copy(), "abort"
			}
		}
	}
	q := cn.waitQuiet(10*time.Second, pays, true)
	// resolve the hold invoices that are still held, then wait again
	for _, p := range pays {
		// (an invoice whose HTLC has not arrived yet cannot be settled: a few attempts)
		for i := 0; i < 15 && strings.HasPrefix(p.Kind, "hold") && !p.resolved; i++ {
			cn.resolveHold(p, i == 14)
			if !p.resolved {
				time.Sleep(100 * time.Millisecond)
			}
		}
	}
	q = cn.waitQuiet(10*time.Second, pays, false) && q
	tap.note(cn.snapshot(pays, q))
	if !q {
		status = "noquiesce"
	}
	return tap.copy(), status
}

// c08Amounts: delivered amounts (msat) around the fixture's policy minimum (5 sat), the dust limits
// of the two channel sides (200 / 800 sat) and some ordinary ones.
var c08Amounts = []int{4_000, 5_000, 150_000, 199_000, 200_000, 201_000, 799_000, 800_000, 801_000,
	1_000_000, 2_500_000, 20_000_000, 50_000_000}

// c08FreePlan draws a plan in Go (free-running driver): more payments, arbitrary amounts, any fault mix.
func c08FreePlan(rng *rand.Rand) []c08Item {
	var items []c08Item
	kinds := []string{"ok", "ok", "ok", "leak", "unknown", "wrongamt", "hold_settle", "hold_cancel", "underpaid"}
	k := 3 + rng.Intn(6)
	for i := 0; i < k; i++ {
		it := c08Item{A: "Pay", Dir: "fwd", Kind: kinds[rng.Intn(len(kinds))]}
		if rng.Intn(3) == 0 {
			it.Dir = "rev"
		}
		if rng.Intn(2) == 0 {
			it.Amt = c08Amounts[rng.Intn(len(c08Amounts))]
		} else {
			it.Amt = 1000 * (1 + rng.Intn(3_000)) + rng.Intn(1000)
		}
		if rng.Intn(3) == 0 {
			it.At = rng.Intn(120)
		}
		if strings.HasPrefix(it.Kind, "hold") && rng.Intn(2) == 0 {
			it.Hat = it.At + 20 + rng.Intn(150)
		}
		items = append(items, it)
	}
	fk := []string{"net", "linkAB", "linkBC", "discAB", "discBC", "cutAB", "cutBC", "lostAB", "lostBC"}
	nf := rng.Intn(3)
	for i := 0; i < nf; i++ {
		items = append(items, c08Item{A: "Fault", Kind: fk[rng.Intn(len(fk))], At: 5 + rng.Intn(160)})
	}
	return items
}

func TestVerifC08Forwarding(t *testing.T) {
	out := verifkit.Env("VERIF_OUT", os.TempDir())
	if os.Getenv("VERIF_LOG") != "" {
		// development aid: lnd's own log of the links and channels to a file
		lf, _ := os.Create(filepath.Join(out, "lnd.log"))
		lg := btclog.NewSLogger(btclog.NewDefaultHandler(lf))
		lg.SetLevel(btclog.LevelDebug)
		UseLogger(lg)
		lnwallet.UseLogger(lg)
	}
	w := verifkit.MustWriter(filepath.Join(out, "trace.ndjson"))
	defer w.Close()
	type job struct {
		name  string
		items []c08Item
	}
	var jobs []job
	if dir := os.Getenv("VERIF_SCHED"); dir != "" {
		for _, f := range verifkit.ListFiles(dir, "b_", ".ndjson") {
			items, err := verifkit.ReadNDJSONInto[c08Item](f)
			if err != nil {
				t.Fatalf("plan %s: %v", f, err)
			}
			jobs = append(jobs, job{filepath.Base(f), items})
		}
	}
	if one := os.Getenv("VERIF_PLAN"); one != "" {
		items, err := verifkit.ReadNDJSONInto[c08Item](one)
		if err != nil {
			t.Fatalf("plan %s: %v", one, err)
		}
		jobs = append(jobs, job{filepath.Base(one), items})
	}
	rng := rand.New(rand.NewSource(verifkit.Seed()*7919 + 17))
	for i := 0; i < verifkit.EnvInt("VERIF_FREE", 0); i++ {
		jobs = append(jobs, job{fmt.Sprintf("free_%d", i), c08FreePlan(rng)})
	}
	if only := os.Getenv("VERIF_ONLY"); only != "" {
		// development aid: run only the named plans, VERIF_REPEAT times each
		var sel []job
		for _, j := range jobs {
			for _, n := range strings.Split(only, ",") {
				if j.name == n {
					for k := 0; k < verifkit.EnvInt("VERIF_REPEAT", 1); k++ {
						sel = append(sel, j)
					}
				}
			}
		}
		jobs = sel
	}
	par := verifkit.EnvInt("VERIF_PAR", 3)
	var mu sync.Mutex
	counts := map[string]int{}
	sem := make(chan struct{}, par)
	t.Run("runs", func(gt *testing.T) {
		for i, j := range jobs {
			i, j := i, j
			gt.Run(fmt.Sprintf("run%d", i), func(st *testing.T) {
				st.Parallel()
				sem <- struct{}{}
				defer func() { <-sem }()
				recs, status := c08Run(st, i, j.name, j.items)
				mu.Lock()
				for _, r := range recs {
					w.Emit(r)
				}
				counts[status]++
				mu.Unlock()
			})
		}
	})
	b, _ := json.Marshal(counts)
	t.Logf("C08 runs: %s", b)
	_ = os.WriteFile(filepath.Join(out, "runs.json"), b, 0o644)
}
