//go:build verif

package chainntnfs_test

// C14 executor of the catch-up layer (spec/TxNotifier/CatchUp.tla): replays
// behaviours of CatchUpGen on the REAL chainntnfs.HandleMissedBlocks /
// RewindChain / GetClientMissedBlocks and a real TxNotifier (+ the real bolt
// height-hint cache) over a scripted chain backend that keeps reorged-out
// blocks (ChainConn, backendStoresReorgs = true).  The dispatching around the
// calls is what bitcoind.go / btcd.go notificationDispatcher do for a
// chain.BlockConnected item.  No judgement here: CatchUpTrace.tla is the judge.
//
// HandleMissedBlocks is one call of the real code, but the model (and the
// TxNotifier's mutex) has one step per DisconnectTip.  The scripted backend
// therefore parks every ChainConn call that HandleMissedBlocks makes until the
// executor lets it go on; a RewindStep of the schedule lets the call run until
// the TxNotifier's height was OBSERVED to go down by one, RewindDone lets it
// run until it returns.  Whenever the real call does something else than the
// schedule expects (returns without rewinding, rewinds further ...), the
// executor records what the real code DID and ends the behaviour.

import (
	"fmt"
	"os"
	"path/filepath"
	"testing"
	"time"

	"github.com/btcsuite/btcd/btcjson"
	"github.com/btcsuite/btcd/btcutil/v2"
	"github.com/btcsuite/btcd/chainhash/v2"
	"github.com/btcsuite/btcd/wire/v2"
	"github.com/lightningnetwork/lnd/chainntnfs"
	"github.com/lightningnetwork/lnd/internal/verifkit"
)

// c14Backend is the scripted chain backend: every block ever announced (store)
// and the active chain (main, ids by model height; main[0] = id 0, the block
// the notifier started at).
type c14Backend struct {
	store  map[int]*c14BBlock
	byHash map[chainhash.Hash]int
	main   []int

	gated   bool
	arrive  chan string
	release chan struct{}
}

type c14BBlock struct {
	id, h int
	inc   []int
	block *btcutil.Block
}

func (b *c14Backend) park(what string) {
	if b.gated {
		b.arrive <- what
		<-b.release
	}
}

func (b *c14Backend) GetBlockHeader(hash *chainhash.Hash) (*wire.BlockHeader, error) {
	b.park("GetBlockHeader")
	id, ok := b.byHash[*hash]
	if !ok {
		return nil, fmt.Errorf("unknown block %v", hash)
	}
	hdr := b.store[id].block.MsgBlock().Header

	return &hdr, nil
}

func (b *c14Backend) GetBlockHeaderVerbose(hash *chainhash.Hash) (
	*btcjson.GetBlockHeaderVerboseResult, error) {

	b.park("GetBlockHeaderVerbose")
	id, ok := b.byHash[*hash]
	if !ok {
		return nil, fmt.Errorf("unknown block %v", hash)
	}

	return &btcjson.GetBlockHeaderVerboseResult{
		Hash: hash.String(), Height: int32(c14Start + b.store[id].h),
	}, nil
}

func (b *c14Backend) GetBlockHash(height int64) (*chainhash.Hash, error) {
	b.park("GetBlockHash")
	k := int(height) - c14Start
	if k < 0 || k >= len(b.main) {
		return nil, fmt.Errorf("no block at height %d on the active chain", height)
	}

	return b.store[b.main[k]].block.Hash(), nil
}

func (b *c14Backend) epoch(id int) chainntnfs.BlockEpoch {
	blk := b.store[id]
	hdr := blk.block.MsgBlock().Header

	return chainntnfs.BlockEpoch{Height: int32(c14Start + blk.h), Hash: blk.block.Hash(), BlockHeader: &hdr}
}

// c14HMRes is what one HandleMissedBlocks call returned.
type c14HMRes struct {
	best   chainntnfs.BlockEpoch
	missed []chainntnfs.BlockEpoch
	err    error
	pan    bool
}

// c14CU is one catch-up behaviour being executed.
type c14CU struct {
	*c14Run
	be   *c14Backend
	best chainntnfs.BlockEpoch // the dispatcher's bestBlock

	// a HandleMissedBlocks call in flight
	running bool
	done    chan c14HMRes
	parked  bool // the call waits in a ChainConn method
	fin     *c14HMRes
	annID   int // the announced block

	queue []int // blocks the dispatcher still has to connect (ids)
}

func c14NewCU(t *testing.T, run *c14Run) *c14CU {
	be := &c14Backend{
		store: map[int]*c14BBlock{}, byHash: map[chainhash.Hash]int{},
		arrive: make(chan string), release: make(chan struct{}),
	}
	c := &c14CU{c14Run: run, be: be}
	g := c.mkBBlock(0, 0, make([]int, run.u.nouts), chainhash.Hash{})
	be.main = []int{g.id}
	c.best = be.epoch(0)

	return c
}

func (c *c14CU) mkBBlock(id, h int, inc []int, prev chainhash.Hash) *c14BBlock {
	c14Nonce++
	cb := wire.NewMsgTx(1)
	cb.AddTxIn(&wire.TxIn{
		PreviousOutPoint: wire.OutPoint{Index: 0xffffffff},
		SignatureScript:  []byte{byte(c14Nonce), byte(c14Nonce >> 8), byte(c14Nonce >> 16), byte(c14Nonce >> 24)},
	})
	cb.AddTxOut(&wire.TxOut{Value: 1, PkScript: []byte{0x51}})
	list := []*wire.MsgTx{cb}
	for o := 1; o <= c.u.nouts; o++ {
		if v := inc[o-1]; v != 0 {
			list = append(list, c.u.spender(o, v))
		}
	}
	blk := btcutil.NewBlock(&wire.MsgBlock{
		Header: wire.BlockHeader{
			Version: 1, PrevBlock: prev, Nonce: c14Nonce,
			Timestamp: time.Unix(1600000000+int64(h), 0),
		},
		Transactions: list,
	})
	bb := &c14BBlock{id: id, h: h, inc: inc, block: blk}
	c.be.store[id] = bb
	c.be.byHash[*blk.Hash()] = id
	c.blkID[*blk.Hash()] = id

	return bb
}

func (c *c14CU) mainTip() *c14BBlock { return c.be.store[c.be.main[len(c.be.main)-1]] }

// wait lets the parked ChainConn call go on (if any) and waits until the
// HandleMissedBlocks call parks again or returns.
func (c *c14CU) advance() (returned, hung bool) {
	if c.parked {
		c.parked = false
		c.be.release <- struct{}{}
	}
	select {
	case <-c.be.arrive:
		c.parked = true
		return false, false
	case r := <-c.done:
		c.fin = &r
		c.be.gated = false
		return true, false
	case <-time.After(180 * time.Second):
		return false, true
	}
}

func (c *c14CU) ids(es []chainntnfs.BlockEpoch) []int {
	out := make([]int, 0, len(es))
	for _, e := range es {
		id, ok := c.be.byHash[*e.Hash]
		if !ok {
			id = -2
		}
		out = append(out, id)
	}

	return out
}

// cuStep performs one event of a catch-up behaviour.  ok = false ends it.
func (c *c14CU) cuStep(ev c14Event) (verifkit.Rec, bool) {
	switch ev.A {
	case "RegConf", "RegSpend", "Cancel", "HistConf", "HistSpend":
		rec, ok := c.step(ev)
		return c.extra(rec, nil, nil), ok
	}

	rec := verifkit.Rec{"a": ev.A, "i": ev.I, "t": ev.T, "n": ev.N, "hint": ev.Hint, "inc": ev.Inc, "blk": ev.Blk}
	if ev.Inc == nil {
		rec["inc"] = []int{}
	}
	hd := []int{0, -1, -1}
	var ret, missed, cm []int
	ok := true
	call := func() error { return nil }

	switch ev.A {
	case "BExtend":
		tip := c.mainTip()
		bb := c.mkBBlock(ev.Blk, tip.h+1, ev.Inc, *tip.block.Hash())
		c.be.main = append(c.be.main, bb.id)

	case "BExtendMany":
		for k := 0; k < ev.N; k++ {
			tip := c.mainTip()
			bb := c.mkBBlock(ev.Blk+k, tip.h+1, make([]int, c.u.nouts), *tip.block.Hash())
			c.be.main = append(c.be.main, bb.id)
		}

	case "BDisconnect":
		if len(c.be.main) > 1 {
			c.be.main = c.be.main[:len(c.be.main)-1]
		}

	case "Deliver":
		// chain.BlockConnected{Hash, Height} for the block of the active
		// chain at model height n arrives at the dispatcher
		if c.running || len(c.queue) > 0 || ev.N < 1 || ev.N >= len(c.be.main) {
			return nil, false
		}
		ann := c.be.store[c.be.main[ev.N]]
		rec["blk"] = ann.id
		c.annID = ann.id
		hdr := ann.block.MsgBlock().Header
		if hdr.PrevBlock == *c.best.Hash {
			c.queue = []int{ann.id}
			break
		}
		c.running, c.fin, c.parked = true, nil, false
		c.done = make(chan c14HMRes, 1)
		c.be.gated = true
		best, newH := c.best, int32(c14Start+ann.h)
		go func() {
			var r c14HMRes
			defer func() {
				if x := recover(); x != nil {
					r.err, r.pan = fmt.Errorf("panic: %v", x), true
				}
				c.done <- r
			}()
			r.best, r.missed, r.err = chainntnfs.HandleMissedBlocks(c.be, c.n, best, newH, true)
		}()
		// up to its first question to the backend
		if _, hung := c.advance(); hung {
			rec["a"] = "Deliver"
			call = func() error { return fmt.Errorf("HandleMissedBlocks did not reach the backend") }
			ok = false
		}

	case "RewindStep", "RewindDone":
		if !c.running {
			return nil, false
		}
		// let the call run until the TxNotifier's height went down by one
		// (RewindStep) or it returned (RewindDone); record what it did
		before := c.n.VerifHeight()
		did := ""
		for did == "" {
			returned, hung := false, false
			if c.fin != nil {
				returned = true
			} else {
				returned, hung = c.advance()
			}
			now := c.n.VerifHeight()
			switch {
			case hung:
				did = "hang"
			case now+1 == before:
				did = "RewindStep"
			case now != before:
				did = "height"
			case returned:
				did = "RewindDone"
			}
		}
		switch did {
		case "RewindStep":
			if len(c.chain) > 0 {
				c.chain = c.chain[:len(c.chain)-1]
			}
		case "RewindDone":
			r := c.fin
			c.running, c.fin = false, nil
			bb := -2
			if id, known := c.be.byHash[*r.best.Hash]; known {
				bb = id
			}
			e := 0
			if r.err != nil {
				e = 1
				rec["hmerr"] = r.err.Error()
			}
			if r.pan {
				call = func() error { panic(r.err) }
			}
			ret = []int{1, e, int(r.best.Height) - c14Start, bb}
			missed = c.ids(r.missed)
			// the dispatcher: on error keep the returned best block and
			// drop the notification; else connect the missed blocks and
			// then the announced one
			if r.err != nil {
				c.best = r.best
				c.queue = nil
			} else {
				c.queue = append(append([]int{}, missed...), c.annID)
			}
		default:
			call = func() error { return fmt.Errorf("HandleMissedBlocks: %s", did) }
			ok = false
		}
		if did != ev.A {
			// not what the schedule expected: the recorded prefix is judged
			ok = false
		}
		rec["a"] = did
		if did == "hang" || did == "height" {
			rec["a"] = ev.A
		}

	case "ConnectNext":
		// handleBlockConnected for the next block of what the real
		// HandleMissedBlocks returned
		if c.running || len(c.queue) == 0 {
			return nil, false
		}
		id := c.queue[0]
		c.queue = c.queue[1:]
		bb, known := c.be.store[id]
		if !known {
			return nil, false
		}
		rec["blk"], rec["inc"] = bb.id, bb.inc
		h := uint32(c14Start + bb.h)
		call = func() error {
			if err := c.n.ConnectTip(bb.block, h); err != nil {
				return err
			}
			c.best = c.be.epoch(id)

			return c.n.NotifyHeight(h)
		}
		c.chain = append(c.chain, c14Block{id: bb.id, inc: bb.inc, block: bb.block})

	case "ClientMissed":
		bb, known := c.be.store[ev.Blk]
		if !known || c.running {
			return nil, false
		}
		call = func() error {
			ep := c.be.epoch(bb.id)
			got, err := chainntnfs.GetClientMissedBlocks(c.be, &ep, int32(c.n.VerifHeight()), true)
			if err != nil {
				return err
			}
			cm = c.ids(got)

			return nil
		}

	default:
		call = func() error { return fmt.Errorf("unknown action %q", ev.A) }
	}

	rec, fine := c.finish(rec, call, &hd)
	if rec["err"] == 1 && ev.A == "ConnectNext" {
		// the dispatcher logs the error and drops the rest
		ok = false
	}

	return c.extra(rec, ret, missed, cm), ok && fine
}

// extra completes a record with the catch-up observations (every field on
// every line).
func (c *c14CU) extra(rec verifkit.Rec, lists ...[]int) verifkit.Rec {
	rec["tip"] = int(c.n.VerifHeight()) - c14Start
	names := []string{"ret", "missed", "cm"}
	for k, nm := range names {
		var v []int
		if k < len(lists) {
			v = lists[k]
		}
		if v == nil {
			v = []int{}
		}
		if nm == "ret" && len(v) == 0 {
			v = []int{0, 0, 0, 0}
		}
		rec[nm] = v
	}
	if _, has := rec["hmerr"]; !has {
		rec["hmerr"] = ""
	}

	return rec
}

// abandon lets a HandleMissedBlocks call that is still in flight run to its end
// (the behaviour was ended in the middle of it).
func (c *c14CU) abandon() {
	for k := 0; c.running && c.fin == nil && k < 100000; k++ {
		if _, hung := c.advance(); hung {
			return
		}
	}
}

// TestVerifC14CatchUp replays the behaviours b_*.ndjson of CatchUpGen (and the
// directed ones) found in VERIF_SCHED.
func TestVerifC14CatchUp(t *testing.T) {
	dir := os.Getenv("VERIF_SCHED")
	nouts := verifkit.EnvInt("VERIF_NOUTS", 1)
	maxRegs := verifkit.EnvInt("VERIF_MAXREGS", 3)
	safety := verifkit.EnvInt("VERIF_SAFETY", 3)
	out := verifkit.MustWriter(filepath.Join(verifkit.Env("VERIF_OUT", "."), "trace.ndjson"))
	defer out.Close()
	hints := c14OpenHints(t)

	files := verifkit.ListFiles(dir, "b_", ".ndjson")
	if len(files) == 0 {
		t.Fatalf("no schedules in %q", dir)
	}
	for fi, f := range files {
		evs, err := verifkit.ReadNDJSONInto[c14Event](f)
		if err != nil {
			t.Fatal(err)
		}
		run := c14NewRun(t, hints, 0x40000000|uint32(verifkit.Seed())<<20|uint32(fi), nouts, maxRegs, safety)
		cu := c14NewCU(t, run)
		out.Emit(verifkit.Rec{"a": "Reset", "file": filepath.Base(f)})
		for _, ev := range evs {
			rec, ok := cu.cuStep(ev)
			if rec != nil {
				out.Emit(rec)
			}
			if !ok {
				break
			}
		}
		cu.abandon()
		run.n.TearDown()
	}
}
