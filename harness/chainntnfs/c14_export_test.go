//go:build verif

package chainntnfs

// In-package part of the C14 executors (the executors themselves are in the
// external test package, see c14_test.go): a field copy of the TxNotifier's
// height, so that the catch-up executor can OBSERVE every DisconnectTip that
// the real RewindChain performs inside HandleMissedBlocks.

// VerifHeight returns TxNotifier.currentHeight.
func (n *TxNotifier) VerifHeight() uint32 {
	n.Lock()
	defer n.Unlock()

	return n.currentHeight
}
