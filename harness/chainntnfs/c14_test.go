//go:build verif

package chainntnfs_test

// C14 executor: replays behaviours of spec/TxNotifier on the real
// chainntnfs.TxNotifier backed by the real channeldb.HeightHintCache on a
// bolt database, and records after every call what was on the clients'
// channels and in both hint caches.  It contains no judgement:
// TxNotifierTrace.tla is the judge.
//
// The package is the external test package because channeldb imports
// chainntnfs (an in-package test could not use the real hint cache).

import (
	"crypto/sha256"
	"fmt"
	"math/rand"
	"os"
	"path/filepath"
	"sort"
	"testing"
	"time"

	"github.com/btcsuite/btcd/btcutil/v2"
	"github.com/btcsuite/btcd/chainhash/v2"
	"github.com/btcsuite/btcd/wire/v2"
	"github.com/lightningnetwork/lnd/chainntnfs"
	"github.com/lightningnetwork/lnd/channeldb"
	"github.com/lightningnetwork/lnd/internal/verifkit"
	"github.com/lightningnetwork/lnd/kvdb"
)

const c14Start = 100 // real height of model height 0

// c14Event is one call of a behaviour (schedule line).
type c14Event struct {
	A    string `json:"a"`
	I    int    `json:"i"`
	T    int    `json:"t"`
	N    int    `json:"n"`
	Hint int    `json:"hint"`
	Inc  []int  `json:"inc"`
	Blk  int    `json:"blk"`
}

// c14Universe derives every script, outpoint and transaction of one
// behaviour from a salt, so that behaviours do not share hint-cache keys.
type c14Universe struct {
	salt  uint32
	nouts int
}

func (u c14Universe) ws(o int) []byte {
	return []byte{0x51, byte(o), byte(u.salt), byte(u.salt >> 8), byte(u.salt >> 16), byte(u.salt >> 24)}
}

// spendScript is the P2WSH script of outpoint o: the spenders' witness
// script hashes to it (the notifier recomputes it from the witness).
func (u c14Universe) spendScript(o int) []byte {
	h := sha256.Sum256(u.ws(o))
	return append([]byte{0x00, 0x20}, h[:]...)
}

func (u c14Universe) outpoint(o int) wire.OutPoint {
	return wire.OutPoint{
		Hash:  chainhash.Hash{0xa0, byte(o), byte(u.salt), byte(u.salt >> 8), byte(u.salt >> 16), byte(u.salt >> 24)},
		Index: uint32(o),
	}
}

// confScript is the output script of spender v of outpoint o.
func (u c14Universe) confScript(o, v int) []byte {
	h := sha256.Sum256([]byte{0xc0, byte(o), byte(v), byte(u.salt), byte(u.salt >> 8), byte(u.salt >> 16), byte(u.salt >> 24)})
	return append([]byte{0x00, 0x20}, h[:]...)
}

// spender is variant v (1,2) of the two conflicting spends of outpoint o.
func (u c14Universe) spender(o, v int) *wire.MsgTx {
	tx := wire.NewMsgTx(2)
	tx.AddTxIn(&wire.TxIn{
		PreviousOutPoint: u.outpoint(o),
		Witness:          [][]byte{{byte(v)}, u.ws(o)},
	})
	tx.AddTxOut(&wire.TxOut{Value: int64(500 + v), PkScript: u.confScript(o, v)})
	return tx
}

func c14OutOf(t int) int { return (t + 1) / 2 }
func c14VarOf(t int) int { return 2 - t%2 }

// Request ids (spec/TxNotifier: CTx/CKind, SOut/SKind).  A conf request
// c in 1..4*nouts watches tx (c-1)%(2*nouts)+1 by {txid, script} (kind 0) or
// by script alone (kind 1); a spend request s in 1..3*nouts watches outpoint
// (s-1)%nouts+1 by {outpoint, script} (kind 0), by {outpoint, taproot
// script} (kind 1: the notifier keys it by the outpoint and the zero taproot
// script) or by script alone (kind 2).
func (u c14Universe) cTx(c int) int   { return (c-1)%(2*u.nouts) + 1 }
func (u c14Universe) cKind(c int) int { return (c - 1) / (2 * u.nouts) }
func (u c14Universe) sOut(s int) int  { return (s-1)%u.nouts + 1 }
func (u c14Universe) sKind(s int) int { return (s - 1) / u.nouts }

// taprootScript is what a kind-1 client passes as the script of outpoint o.
func (u c14Universe) taprootScript(o int) []byte {
	h := sha256.Sum256([]byte{0x7a, byte(o), byte(u.salt), byte(u.salt >> 8), byte(u.salt >> 16), byte(u.salt >> 24)})
	return append([]byte{0x51, 0x20}, h[:]...)
}

type c14Block struct {
	id    int
	inc   []int
	block *btcutil.Block
}

type c14Reg struct {
	kind  string
	t     int
	conf  *chainntnfs.ConfirmationEvent
	spend *chainntnfs.SpendEvent
}

// c14Run is the state of one behaviour being executed.
type c14Run struct {
	u       c14Universe
	n       *chainntnfs.TxNotifier
	hints   *channeldb.HeightHintCache
	maxRegs int
	chain   []c14Block
	blkID   map[chainhash.Hash]int
	spID    map[chainhash.Hash][2]int // spender tx hash -> (o, v)
	regs    map[int]*c14Reg
	confReq map[int]chainntnfs.ConfRequest
	spReq   map[int]chainntnfs.SpendRequest
	hc      map[int]*chainntnfs.HistoricalConfDispatch
	hs      map[int]*chainntnfs.HistoricalSpendDispatch
}

var c14Nonce uint32

func c14NewRun(t *testing.T, hints *channeldb.HeightHintCache, salt uint32, nouts, maxRegs, safety int) *c14Run {
	r := &c14Run{
		u: c14Universe{salt: salt, nouts: nouts}, hints: hints, maxRegs: maxRegs,
		blkID: map[chainhash.Hash]int{}, spID: map[chainhash.Hash][2]int{},
		regs:    map[int]*c14Reg{},
		confReq: map[int]chainntnfs.ConfRequest{}, spReq: map[int]chainntnfs.SpendRequest{},
		hc: map[int]*chainntnfs.HistoricalConfDispatch{}, hs: map[int]*chainntnfs.HistoricalSpendDispatch{},
	}
	r.n = chainntnfs.NewTxNotifier(c14Start, uint32(safety), hints, hints)
	for o := 1; o <= nouts; o++ {
		for v := 1; v <= 2; v++ {
			tx := r.u.spender(o, v)
			r.spID[tx.TxHash()] = [2]int{o, v}
		}
	}
	for s := 1; s <= 3*nouts; s++ {
		sr, err := chainntnfs.NewSpendRequest(r.opArg(s), r.scriptArg(s))
		if err != nil {
			t.Fatal(err)
		}
		r.spReq[s] = sr
	}
	for c := 1; c <= 4*nouts; c++ {
		tx := r.u.cTx(c)
		cr, err := chainntnfs.NewConfRequest(r.txidArg(c), r.u.confScript(c14OutOf(tx), c14VarOf(tx)))
		if err != nil {
			t.Fatal(err)
		}
		r.confReq[c] = cr
	}
	return r
}

func (r *c14Run) tip() int { return len(r.chain) }

// txidArg / opArg / scriptArg: what the client of conf request c / spend
// request s passes as txid / outpoint / script (nil = script only).
func (r *c14Run) txidArg(c int) *chainhash.Hash {
	if r.u.cKind(c) == 1 {
		return nil
	}
	tx := r.u.cTx(c)
	h := r.u.spender(c14OutOf(tx), c14VarOf(tx)).TxHash()
	return &h
}

func (r *c14Run) opArg(s int) *wire.OutPoint {
	if r.u.sKind(s) == 2 {
		return nil
	}
	op := r.u.outpoint(r.u.sOut(s))
	return &op
}

func (r *c14Run) scriptArg(s int) []byte {
	if r.u.sKind(s) == 1 {
		return r.u.taprootScript(r.u.sOut(s))
	}
	return r.u.spendScript(r.u.sOut(s))
}

// guarded runs one call of the real code; a panic or a call that does not
// return (a send on a full channel under the notifier's mutex) is recorded.
func c14Guarded(f func() error) (err error, panicked, hung bool) {
	// generous: on a loaded machine a bolt commit alone can take seconds; a
	// call that really hangs (mutex held for ever) never returns
	return c14GuardedFor(180*time.Second, f)
}

func c14GuardedFor(d time.Duration, f func() error) (err error, panicked, hung bool) {
	type res struct {
		err error
		pan bool
	}
	ch := make(chan res, 1)
	go func() {
		defer func() {
			if x := recover(); x != nil {
				ch <- res{fmt.Errorf("panic: %v", x), true}
			}
		}()
		ch <- res{f(), false}
	}()
	select {
	case x := <-ch:
		return x.err, x.pan, false
	case <-time.After(d):
		return fmt.Errorf("call did not return"), false, true
	}
}

func (r *c14Run) mkBlock(ev c14Event) *btcutil.Block {
	c14Nonce++
	cb := wire.NewMsgTx(1)
	cb.AddTxIn(&wire.TxIn{
		PreviousOutPoint: wire.OutPoint{Index: 0xffffffff},
		SignatureScript:  []byte{byte(c14Nonce), byte(c14Nonce >> 8), byte(c14Nonce >> 16), byte(c14Nonce >> 24)},
	})
	cb.AddTxOut(&wire.TxOut{Value: 1, PkScript: []byte{0x51}})
	list := []*wire.MsgTx{cb}
	for o := 1; o <= r.u.nouts; o++ {
		if v := ev.Inc[o-1]; v != 0 {
			list = append(list, r.u.spender(o, v))
		}
	}
	return btcutil.NewBlock(&wire.MsgBlock{Header: wire.BlockHeader{Nonce: c14Nonce}, Transactions: list})
}

// step performs one call and returns the trace record.
func (r *c14Run) step(ev c14Event) (verifkit.Rec, bool) {
	rec := verifkit.Rec{"a": ev.A, "i": ev.I, "t": ev.T, "n": ev.N, "hint": ev.Hint, "inc": ev.Inc, "blk": ev.Blk}
	if ev.Inc == nil {
		rec["inc"] = []int{}
	}
	hd := []int{0, -1, -1}
	var call func() error
	switch ev.A {
	case "Connect":
		b := r.mkBlock(ev)
		h := uint32(c14Start + r.tip() + 1)
		call = func() error {
			// exactly as the btcd/bitcoind/neutrino notifiers do
			if err := r.n.ConnectTip(b, h); err != nil {
				return err
			}
			return r.n.NotifyHeight(h)
		}
		r.chain = append(r.chain, c14Block{id: ev.Blk, inc: ev.Inc, block: b})
		r.blkID[*b.Hash()] = ev.Blk

	case "Disconnect":
		h := uint32(c14Start + r.tip())
		call = func() error { return r.n.DisconnectTip(h) }
		r.chain = r.chain[:len(r.chain)-1]

	case "RegConf":
		o, v := c14OutOf(r.u.cTx(ev.T)), c14VarOf(r.u.cTx(ev.T))
		call = func() error {
			reg, err := r.n.RegisterConf(r.txidArg(ev.T), r.u.confScript(o, v), uint32(ev.N), uint32(c14Start+ev.Hint))
			if err != nil {
				return err
			}
			r.regs[ev.I] = &c14Reg{kind: "conf", t: ev.T, conf: reg.Event}
			if d := reg.HistoricalDispatch; d != nil {
				r.hc[ev.T] = d
				hd = []int{1, int(d.StartHeight) - c14Start, int(d.EndHeight) - c14Start}
			}
			return nil
		}

	case "RegSpend":
		call = func() error {
			reg, err := r.n.RegisterSpend(r.opArg(ev.T), r.scriptArg(ev.T), uint32(c14Start+ev.Hint))
			if err != nil {
				return err
			}
			r.regs[ev.I] = &c14Reg{kind: "spend", t: ev.T, spend: reg.Event}
			if d := reg.HistoricalDispatch; d != nil {
				r.hs[ev.T] = d
				hd = []int{1, int(d.StartHeight) - c14Start, int(d.EndHeight) - c14Start}
			}
			return nil
		}

	case "Cancel":
		reg := r.regs[ev.I]
		call = func() error {
			if reg == nil {
				return fmt.Errorf("no such registration")
			}
			if reg.kind == "conf" {
				reg.conf.Cancel()
			} else {
				reg.spend.Cancel()
			}
			return nil
		}

	case "HistConf":
		// the backend's rescan of [StartHeight, EndHeight]: what the
		// active chain holds in that range now
		d := r.hc[ev.T]
		delete(r.hc, ev.T)
		call = func() error {
			if d == nil {
				return fmt.Errorf("no historical dispatch outstanding")
			}
			var details *chainntnfs.TxConfirmation
			o, v := c14OutOf(r.u.cTx(ev.T)), c14VarOf(r.u.cTx(ev.T))
			for k, b := range r.chain {
				h := uint32(c14Start + k + 1)
				if b.inc[o-1] != v || h < d.StartHeight || h > d.EndHeight {
					continue
				}
				want := r.u.spender(o, v).TxHash()
				for idx, tx := range b.block.Transactions() {
					if *tx.Hash() == want {
						details = &chainntnfs.TxConfirmation{
							Tx: tx.MsgTx(), BlockHash: b.block.Hash(),
							BlockHeight: h, TxIndex: uint32(idx),
						}
					}
				}
			}
			return r.n.UpdateConfDetails(r.confReq[ev.T], details)
		}

	case "HistSpend":
		d := r.hs[ev.T]
		delete(r.hs, ev.T)
		call = func() error {
			if d == nil {
				return fmt.Errorf("no historical dispatch outstanding")
			}
			var details *chainntnfs.SpendDetail
			so := r.u.sOut(ev.T)
			for k, b := range r.chain {
				h := uint32(c14Start + k + 1)
				v := b.inc[so-1]
				if v == 0 || h < d.StartHeight || h > d.EndHeight {
					continue
				}
				tx := r.u.spender(so, v)
				th := tx.TxHash()
				op := r.u.outpoint(so)
				details = &chainntnfs.SpendDetail{
					SpentOutPoint: &op, SpenderTxHash: &th, SpendingTx: tx,
					SpenderInputIndex: 0, SpendingHeight: int32(h),
				}
			}
			return r.n.UpdateSpendDetails(r.spReq[ev.T], details)
		}

	case "HistConfAhead":
		// the backend is one block ahead of the notifier: the rescan
		// reports the tx in a block at tip+1 that the notifier has not
		// connected (and may never connect)
		d := r.hc[ev.T]
		delete(r.hc, ev.T)
		call = func() error {
			if d == nil {
				return fmt.Errorf("no historical dispatch outstanding")
			}
			o, v := c14OutOf(r.u.cTx(ev.T)), c14VarOf(r.u.cTx(ev.T))
			c14Nonce++
			phantom := chainhash.Hash(sha256.Sum256([]byte{0xfa, byte(c14Nonce), byte(c14Nonce >> 8), byte(c14Nonce >> 16), byte(c14Nonce >> 24)}))
			return r.n.UpdateConfDetails(r.confReq[ev.T], &chainntnfs.TxConfirmation{
				Tx: r.u.spender(o, v), BlockHash: &phantom,
				BlockHeight: uint32(c14Start + r.tip() + 1), TxIndex: 1,
			})
		}

	case "HistSpendAhead":
		d := r.hs[ev.T]
		delete(r.hs, ev.T)
		call = func() error {
			if d == nil {
				return fmt.Errorf("no historical dispatch outstanding")
			}
			tx := r.u.spender(r.u.sOut(ev.T), ev.N)
			th := tx.TxHash()
			op := r.u.outpoint(r.u.sOut(ev.T))
			return r.n.UpdateSpendDetails(r.spReq[ev.T], &chainntnfs.SpendDetail{
				SpentOutPoint: &op, SpenderTxHash: &th, SpendingTx: tx,
				SpenderInputIndex: 0, SpendingHeight: int32(c14Start + r.tip() + 1),
			})
		}

	case "RelSpend":
		// the backend's own filter hands over the confirmed spender of
		// outpoint t with the height of its block on the active chain
		call = func() error {
			for k, b := range r.chain {
				if v := b.inc[ev.T-1]; v != 0 {
					return r.n.ProcessRelevantSpendTx(
						btcutil.NewTx(r.u.spender(ev.T, v)), uint32(c14Start+k+1),
					)
				}
			}
			return fmt.Errorf("outpoint %d is not spent on the active chain", ev.T)
		}

	case "RelSpendAhead":
		// ... of a block at tip+1 that the notifier has not connected
		call = func() error {
			return r.n.ProcessRelevantSpendTx(
				btcutil.NewTx(r.u.spender(ev.T, ev.N)), uint32(c14Start+r.tip()+1),
			)
		}

	default:
		call = func() error { return fmt.Errorf("unknown action %q", ev.A) }
	}

	return r.finish(rec, call, &hd)
}

// finish runs the call of one step (guarded) and completes the trace record
// with what is then on the clients' channels and in the hint caches.
func (r *c14Run) finish(rec verifkit.Rec, call func() error, hd *[]int) (verifkit.Rec, bool) {
	err, pan, hung := c14Guarded(call)
	rec["err"], rec["panic"], rec["hang"], rec["errmsg"] = 0, 0, 0, ""
	if err != nil {
		rec["err"] = 1
		rec["errmsg"] = err.Error()
	}
	if pan {
		rec["panic"] = 1
	}
	if hung {
		rec["hang"] = 1
	}
	rec["hd"] = *hd
	if !hung {
		rec["ev"] = r.drain()
		ch, sh := r.queryHints()
		rec["chint"], rec["shint"] = ch, sh
	} else {
		// the notifier's mutex is held for ever: nothing more can be observed
		evs := make([][]int, r.maxRegs)
		for i := range evs {
			evs[i] = []int{-1, -1, 0, 0, -1, -1, 0, 0}
		}
		rec["ev"] = evs
		rec["chint"], rec["shint"] = make([]int, 4*r.u.nouts), make([]int, 3*r.u.nouts)
	}
	return rec, !(pan || hung)
}

// drain empties every channel of every client without blocking and returns,
// per registration slot, <<ch, cb, neg, done, sh, sv, reorg, upd>>.
func (r *c14Run) drain() [][]int {
	out := make([][]int, r.maxRegs)
	for i := 1; i <= r.maxRegs; i++ {
		e := []int{-1, -1, 0, 0, -1, -1, 0, 0}
		out[i-1] = e
		reg := r.regs[i]
		if reg == nil {
			continue
		}
		if reg.kind == "conf" {
			for more := true; more; {
				select {
				case d, ok := <-reg.conf.Confirmed:
					more = ok
					if ok {
						if e[0] != -1 {
							e[0] = -3 // two confirmations in one call
						} else {
							e[0] = int(d.BlockHeight) - c14Start
							e[1] = -2
							if id, known := r.blkID[*d.BlockHash]; known {
								e[1] = id
							}
						}
					}
				default:
					more = false
				}
			}
			for more := true; more; {
				select {
				case depth, ok := <-reg.conf.NegativeConf:
					more = ok
					if ok {
						e[2] = int(depth)
					}
				default:
					more = false
				}
			}
			for more := true; more; {
				select {
				case _, ok := <-reg.conf.Done:
					more = ok
					if ok {
						e[3]++
					}
				default:
					more = false
				}
			}
			for more := true; more; {
				select {
				case _, ok := <-reg.conf.Updates:
					more = ok
					if ok {
						e[7]++
					}
				default:
					more = false
				}
			}
		} else {
			for more := true; more; {
				select {
				case d, ok := <-reg.spend.Spend:
					more = ok
					if ok {
						if e[4] != -1 {
							e[4] = -3
						} else {
							e[4] = int(d.SpendingHeight) - c14Start
							e[5] = -2
							so := r.u.sOut(reg.t)
							if ov, known := r.spID[*d.SpenderTxHash]; known && ov[0] == so &&
								d.SpentOutPoint != nil && *d.SpentOutPoint == r.u.outpoint(so) {

								e[5] = ov[1]
							}
						}
					}
				default:
					more = false
				}
			}
			for more := true; more; {
				select {
				case _, ok := <-reg.spend.Reorg:
					more = ok
					if ok {
						e[6]++
					}
				default:
					more = false
				}
			}
			for more := true; more; {
				select {
				case _, ok := <-reg.spend.Done:
					more = ok
					if ok {
						e[3]++
					}
				default:
					more = false
				}
			}
		}
	}
	return out
}

// queryHints reads both caches from the real database through every request
// id (-1 = no entry).
func (r *c14Run) queryHints() ([]int, []int) {
	ch := make([]int, 4*r.u.nouts)
	sh := make([]int, 3*r.u.nouts)
	for t := 1; t <= 4*r.u.nouts; t++ {
		h, err := r.hints.QueryConfirmHint(r.confReq[t])
		switch {
		case err == nil:
			ch[t-1] = int(h) - c14Start
		case err == chainntnfs.ErrConfirmHintNotFound:
			ch[t-1] = -1
		default:
			ch[t-1] = -9
		}
	}
	for o := 1; o <= 3*r.u.nouts; o++ {
		h, err := r.hints.QuerySpendHint(r.spReq[o])
		switch {
		case err == nil:
			sh[o-1] = int(h) - c14Start
		case err == chainntnfs.ErrSpendHintNotFound:
			sh[o-1] = -1
		default:
			sh[o-1] = -9
		}
	}
	return ch, sh
}

type c14Pend struct{ age int }

func c14Keys(m map[int]*c14Pend) []int {
	var ks []int
	for k := range m {
		ks = append(ks, k)
	}
	sort.Ints(ks)
	return ks
}

func c14OpenHints(t *testing.T) *channeldb.HeightHintCache {
	dir := t.TempDir()
	backend, err := kvdb.GetBoltBackend(&kvdb.BoltBackendConfig{
		DBPath: dir, DBFileName: "hints.db", NoFreelistSync: true,
		AutoCompact: false, DBTimeout: kvdb.DefaultDBTimeout,
	})
	if err != nil {
		t.Fatal(err)
	}
	t.Cleanup(func() { backend.Close() })
	hints, err := channeldb.NewHeightHintCache(channeldb.CacheConfig{QueryDisable: false}, backend)
	if err != nil {
		t.Fatal(err)
	}
	return hints
}

// TestVerifC14Replay replays the TLC-generated behaviours b_*.ndjson found in
// VERIF_SCHED.
func TestVerifC14Replay(t *testing.T) {
	dir := os.Getenv("VERIF_SCHED")
	nouts := verifkit.EnvInt("VERIF_NOUTS", 2)
	maxRegs := verifkit.EnvInt("VERIF_MAXREGS", 4)
	safety := verifkit.EnvInt("VERIF_SAFETY", 3)
	out := verifkit.MustWriter(filepath.Join(verifkit.Env("VERIF_OUT", "."), "trace.ndjson"))
	defer out.Close()
	hints := c14OpenHints(t)

	files := verifkit.ListFiles(dir, "b_", ".ndjson")
	if len(files) == 0 {
		t.Fatalf("no schedules in %q", dir)
	}
	for fi, f := range files {
		evs, err := verifkit.ReadNDJSONInto[c14Event](f)
		if err != nil {
			t.Fatal(err)
		}
		run := c14NewRun(t, hints, uint32(verifkit.Seed())<<20|uint32(fi), nouts, maxRegs, safety)
		out.Emit(verifkit.Rec{"a": "Reset", "file": filepath.Base(f)})
		for _, ev := range evs {
			rec, ok := run.step(ev)
			out.Emit(rec)
			if !ok {
				break
			}
		}
		run.n.TearDown()
	}
}

// TestVerifC14Free is the free-running seeded driver: longer histories with
// a larger safety limit, more clients and deeper reorgs than the generator's
// configuration, chosen here and judged by the same trace spec (with the
// constants of this driver).  It only keeps to the assumptions of the
// property that the spec's actions carry as guards: blocks spend an outpoint
// at most once, a block is only disconnected while it is less than `safety`
// deep below the highest tip, callers' hints are correct, a historical rescan
// is answered before its request matures (possibly by a backend that is one
// block ahead), and the last subscriber does not cancel while a rescan is
// pending (only on an unrepaired tree; see c14.py).
func TestVerifC14Free(t *testing.T) {
	nouts := verifkit.EnvInt("VERIF_NOUTS", 2)
	maxRegs := verifkit.EnvInt("VERIF_MAXREGS", 6)
	safety := verifkit.EnvInt("VERIF_SAFETY", 4)
	runs := verifkit.EnvInt("VERIF_RUNS", 100)
	steps := verifkit.EnvInt("VERIF_STEPS", 40)
	out := verifkit.MustWriter(filepath.Join(verifkit.Env("VERIF_OUT", "."), "trace.ndjson"))
	defer out.Close()
	hints := c14OpenHints(t)

	for ri := 0; ri < runs; ri++ {
		rng := rand.New(rand.NewSource(verifkit.Seed()*1000003 + int64(ri)))
		run := c14NewRun(t, hints, 0x80000000|uint32(verifkit.Seed())<<20|uint32(ri), nouts, maxRegs, safety)
		out.Emit(verifkit.Rec{"a": "Reset", "file": fmt.Sprintf("free_%d", ri)})

		// the driver's own book-keeping of the assumptions (no judgement)
		maxTip, nextBlk, nextReg := 0, 1, 1
		pc, ps := map[int]*c14Pend{}, map[int]*c14Pend{}
		live := map[int]bool{}
		at := func(isConf bool, x int) int {
			// x is a request id (any kind)
			for k, b := range run.chain {
				if tx := run.u.cTx(x); isConf && b.inc[c14OutOf(tx)-1] == c14VarOf(tx) {
					return k + 1
				}
				if !isConf && b.inc[run.u.sOut(x)-1] != 0 {
					return k + 1
				}
			}
			return 0
		}
		subs := func(kind string, x int) int {
			c := 0
			for i, ok := range live {
				if ok && run.regs[i] != nil && run.regs[i].kind == kind && run.regs[i].t == x {
					c++
				}
			}
			return c
		}
		// every third run concentrates on confirmations of the two
		// independent transactions 1 and 3 with depths 2 and 3, registered
		// early, so that different requests often mature at the same height
		// while partial reorgs take out only the later block
		focus := ri%3 == 0
		// every other of the remaining runs registers through every kind of
		// request (VERIF_KINDS=1): few objects, many requests per object
		kinds := verifkit.EnvInt("VERIF_KINDS", 0) == 1 && !focus && ri%2 == 1
		for s := 0; s < steps; s++ {
			var ev c14Event
			overdue := false
			for _, p := range pc {
				overdue = overdue || p.age >= 2
			}
			for _, p := range ps {
				overdue = overdue || p.age >= 2
			}
			dice := rng.Intn(20)
			if focus && nextReg <= 3 && nextReg <= maxRegs {
				dice = 14 // register first
			} else if focus && dice >= 14 {
				dice = rng.Intn(14) // no later registrations or cancels
			}
			rel := !focus && nextReg > 1 && rng.Intn(8) == 0
			switch {
			case overdue || (dice < 3 && len(pc)+len(ps) > 0):
				// answer a pending historical rescan (oldest first when overdue)
				done := false
				for _, x := range c14Keys(pc) {
					if !overdue || pc[x].age >= 2 {
						ev = c14Event{A: "HistConf", T: x}
						delete(pc, x)
						done = true
						break
					}
				}
				if !done {
					for _, x := range c14Keys(ps) {
						if !overdue || ps[x].age >= 2 {
							ev = c14Event{A: "HistSpend", T: x}
							delete(ps, x)
							break
						}
					}
				}
			case rel:
				// the backend's own RelevantTx notification for an outpoint
				o := 1 + rng.Intn(nouts)
				if kinds {
					o = 1
				}
				if at(false, o) != 0 {
					ev = c14Event{A: "RelSpend", T: o}
				} else {
					ev = c14Event{A: "RelSpendAhead", T: o, N: 1 + rng.Intn(2)}
				}
			case dice < 10:
				inc := make([]int, nouts)
				for o := 1; o <= nouts; o++ {
					if at(false, o) == 0 && rng.Intn(3) == 0 {
						inc[o-1] = 1 + rng.Intn(2)
					}
					if focus && at(false, o) == 0 {
						inc[o-1] = rng.Intn(2)
					}
				}
				ev = c14Event{A: "Connect", Inc: inc, Blk: nextBlk}
				nextBlk++
				if run.tip()+1 > maxTip {
					maxTip = run.tip() + 1
				}
			case dice < 14:
				if run.tip() == 0 || maxTip-(run.tip()-1) >= safety {
					continue
				}
				ev = c14Event{A: "Disconnect"}
			case dice < 18:
				if nextReg > maxRegs {
					continue
				}
				isConf := focus || rng.Intn(2) == 0
				var x int
				if isConf {
					x = 1 + rng.Intn(2*nouts)
				} else {
					x = 1 + rng.Intn(nouts)
				}
				if kinds {
					// one outpoint and its first spender, through any kind
					if isConf {
						x = 1 + 2*nouts*rng.Intn(2)
					} else {
						x = 1 + nouts*rng.Intn(3)
					}
				}
				if focus {
					x = 1 + 2*rng.Intn(nouts)
				}
				top := run.tip() + 1
				if h := at(isConf, x); h != 0 {
					top = h
				}
				hint := rng.Intn(top + 1)
				if isConf {
					ev = c14Event{A: "RegConf", I: nextReg, T: x, N: 1 + rng.Intn(3), Hint: hint}
					if focus {
						ev.N = 2 + rng.Intn(2)
					}
				} else {
					ev = c14Event{A: "RegSpend", I: nextReg, T: x, Hint: hint}
				}
				live[nextReg] = true
				nextReg++
			default:
				var cands []int
				for i, ok := range live {
					if !ok {
						continue
					}
					reg := run.regs[i]
					_, pcp := pc[reg.t]
					_, psp := ps[reg.t]
					if (reg.kind == "conf" && pcp || reg.kind == "spend" && psp) && subs(reg.kind, reg.t) == 1 {
						continue
					}
					cands = append(cands, i)
				}
				if len(cands) == 0 {
					continue
				}
				// map order is random: pick deterministically
				best := cands[0]
				for _, c := range cands {
					if c < best {
						best = c
					}
				}
				ev = c14Event{A: "Cancel", I: best}
				live[best] = false
			}
			// sometimes the backend is one block ahead when it answers
			if ev.A == "HistConf" && at(true, ev.T) == 0 && at(false, c14OutOf(run.u.cTx(ev.T))) == 0 && rng.Intn(3) == 0 {
				ev = c14Event{A: "HistConfAhead", T: ev.T, N: 1}
			}
			if ev.A == "HistSpend" && at(false, ev.T) == 0 && rng.Intn(3) == 0 {
				ev = c14Event{A: "HistSpendAhead", T: ev.T, N: 1 + rng.Intn(2)}
			}
			if ev.A == "" {
				continue
			}
			for _, p := range pc {
				p.age++
			}
			for _, p := range ps {
				p.age++
			}
			rec, ok := run.step(ev)
			out.Emit(rec)
			if !ok {
				break
			}
			// details handed over by the backend may be deep already: the
			// outstanding rescans of that outpoint are answered next (before
			// the request can mature, as the property assumes)
			if ev.A == "RelSpend" {
				for x, p := range ps {
					if run.u.sOut(x) == ev.T {
						p.age = 2
					}
				}
			}
			// a returned HistoricalDispatch is an outstanding rescan
			if hd := rec["hd"].([]int); hd[0] == 1 {
				if ev.A == "RegConf" {
					pc[ev.T] = &c14Pend{}
				} else {
					ps[ev.T] = &c14Pend{}
				}
			}
			// clients whose request matured are no longer subscribers
			for i, e := range rec["ev"].([][]int) {
				if e[3] != 0 {
					live[i+1] = false
				}
			}
		}
		run.n.TearDown()
	}
}
