//go:build verif

// Package verifkit holds the small helpers that the overlay-injected
// executors under /verif/harness share: NDJSON trace output, schedule input,
// seeds, and a kvdb backend wrapper that numbers, fails, crashes after or
// blocks durable transactions.  It is compiled into /repo only through
// `go test -overlay` with the `verif` build tag.
package verifkit

import (
	"bufio"
	"encoding/json"
	"fmt"
	"os"
	"sort"
	"strconv"
	"strings"
	"sync"
)

// Env returns the value of an environment variable or a default.
func Env(name, def string) string {
	if v := os.Getenv(name); v != "" {
		return v
	}
	return def
}

// EnvInt returns an integer environment variable or a default.
func EnvInt(name string, def int) int {
	if v := os.Getenv(name); v != "" {
		n, err := strconv.Atoi(v)
		if err == nil {
			return n
		}
	}
	return def
}

// Seed is VERIF_SEED (default 1).
func Seed() int64 { return int64(EnvInt("VERIF_SEED", 1)) }

// Rec is one NDJSON line.
type Rec map[string]interface{}

// Writer writes NDJSON lines; safe for concurrent use.  Lines get no
// implicit fields: what the executor writes is what the trace spec reads.
type Writer struct {
	mu sync.Mutex
	f  *os.File
	w  *bufio.Writer
	n  int
}

// NewWriter creates (truncates) the file.
func NewWriter(path string) (*Writer, error) {
	f, err := os.Create(path)
	if err != nil {
		return nil, err
	}
	return &Writer{f: f, w: bufio.NewWriterSize(f, 1<<20)}, nil
}

// MustWriter is NewWriter or panic.
func MustWriter(path string) *Writer {
	w, err := NewWriter(path)
	if err != nil {
		panic(err)
	}
	return w
}

// Emit writes one record.
func (w *Writer) Emit(r interface{}) {
	b, err := json.Marshal(r)
	if err != nil {
		panic(fmt.Sprintf("verifkit: marshal: %v", err))
	}
	w.mu.Lock()
	defer w.mu.Unlock()
	w.w.Write(b)
	w.w.WriteByte('\n')
	w.n++
}

// Lines returns the number of records written so far.
func (w *Writer) Lines() int {
	w.mu.Lock()
	defer w.mu.Unlock()
	return w.n
}

// Close flushes and closes.
func (w *Writer) Close() error {
	w.mu.Lock()
	defer w.mu.Unlock()
	if err := w.w.Flush(); err != nil {
		return err
	}
	return w.f.Close()
}

// ReadNDJSON reads all records of a file into generic maps.
func ReadNDJSON(path string) ([]map[string]interface{}, error) {
	f, err := os.Open(path)
	if err != nil {
		return nil, err
	}
	defer f.Close()
	var out []map[string]interface{}
	sc := bufio.NewScanner(f)
	sc.Buffer(make([]byte, 1<<20), 1<<28)
	for sc.Scan() {
		line := strings.TrimSpace(sc.Text())
		if line == "" {
			continue
		}
		var m map[string]interface{}
		dec := json.NewDecoder(strings.NewReader(line))
		dec.UseNumber()
		if err := dec.Decode(&m); err != nil {
			return nil, fmt.Errorf("%s: %v", path, err)
		}
		out = append(out, m)
	}
	return out, sc.Err()
}

// ReadNDJSONInto decodes every line of a file into a new element of type T.
func ReadNDJSONInto[T any](path string) ([]T, error) {
	f, err := os.Open(path)
	if err != nil {
		return nil, err
	}
	defer f.Close()
	var out []T
	sc := bufio.NewScanner(f)
	sc.Buffer(make([]byte, 1<<20), 1<<28)
	for sc.Scan() {
		line := strings.TrimSpace(sc.Text())
		if line == "" {
			continue
		}
		var v T
		if err := json.Unmarshal([]byte(line), &v); err != nil {
			return nil, fmt.Errorf("%s: %v", path, err)
		}
		out = append(out, v)
	}
	return out, sc.Err()
}

// ListFiles returns the sorted files in dir with the given prefix and suffix.
func ListFiles(dir, prefix, suffix string) []string {
	ents, err := os.ReadDir(dir)
	if err != nil {
		return nil
	}
	var out []string
	for _, e := range ents {
		n := e.Name()
		if strings.HasPrefix(n, prefix) && strings.HasSuffix(n, suffix) {
			out = append(out, dir+"/"+n)
		}
	}
	sort.Strings(out)
	return out
}

// Int reads a JSON number field (json.Number, float64 or int) as int.
func Int(v interface{}) int {
	switch x := v.(type) {
	case json.Number:
		n, _ := x.Int64()
		return int(n)
	case float64:
		return int(x)
	case int:
		return x
	case int64:
		return int(x)
	case string:
		n, _ := strconv.Atoi(x)
		return n
	}
	return 0
}

// Str reads a JSON string field.
func Str(v interface{}) string {
	if s, ok := v.(string); ok {
		return s
	}
	return ""
}
