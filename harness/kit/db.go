//go:build verif

package verifkit

import (
	"errors"
	"fmt"
	"runtime"
	"strings"
	"sync"

	"github.com/btcsuite/btcwallet/walletdb"
)

// ErrCrashed is returned by every transaction after the DB has "crashed".
var ErrCrashed = errors.New("verifkit: node crashed")

// ErrInjected is returned by a transaction that was told to fail.
var ErrInjected = errors.New("verifkit: injected write failure")

// DB wraps a walletdb.DB (= kvdb.Backend).  It deliberately does NOT
// implement walletdb.BatchDB, so kvdb.Batch degrades to Update: every durable
// effect is exactly one Update call, and the order in which Updates commit is
// the linearization order of durable effects.
//
// Facilities: numbering of committed RW transactions (Writes, OnCommit),
// failing the n-th attempt (FailAt), crashing after the n-th commit or at the
// attempt of write n+1 (CrashAfter / CrashBefore), and parking the calling
// goroutine inside Update until released (Gate).
type DB struct {
	walletdb.DB

	mu       sync.Mutex
	attempts int
	writes   int
	crashed  bool

	crashAfter  int // >0: crashed once writes == crashAfter
	crashBefore int // >=0: crashed at the attempt when writes == crashBefore; -1 off
	failAt      map[int]bool

	// OnCommit, if set, is called (without the lock) after every committed
	// RW transaction with its 1-based number and a label from the call stack.
	OnCommit func(n int, label string)

	// LabelPkg restricts call-stack labels to functions whose qualified name
	// contains this substring (e.g. "contractcourt.").
	LabelPkg string

	gateMu  sync.Mutex
	gates   map[string]chan struct{} // armed gates by goroutine tag
	parked  map[string]chan struct{} // signalled when a goroutine parks
	tagOf   func() string
}

// Wrap wraps a backend.
func Wrap(db walletdb.DB) *DB {
	return &DB{DB: db, crashBefore: -1, failAt: map[int]bool{}}
}

// Writes returns the number of committed RW transactions so far.
func (d *DB) Writes() int {
	d.mu.Lock()
	defer d.mu.Unlock()
	return d.writes
}

// Crashed reports whether the crash point has been reached.
func (d *DB) Crashed() bool {
	d.mu.Lock()
	defer d.mu.Unlock()
	return d.crashed
}

// CrashAfter arms a crash right after the n-th commit (n >= 1).
func (d *DB) CrashAfter(n int) { d.mu.Lock(); d.crashAfter = n; d.mu.Unlock() }

// CrashBefore arms a crash at the attempt of the write that would follow n
// committed writes (n >= 0): every side effect between write n and write n+1
// has already happened.
func (d *DB) CrashBefore(n int) { d.mu.Lock(); d.crashBefore = n; d.mu.Unlock() }

// CrashNow makes every further transaction fail.
func (d *DB) CrashNow() { d.mu.Lock(); d.crashed = true; d.mu.Unlock() }

// Revive clears the crash state and all armed faults (used after the harness
// has rebuilt the in-memory objects on the same underlying database); the
// write counter keeps running.
func (d *DB) Revive() {
	d.mu.Lock()
	d.crashed = false
	d.crashAfter = 0
	d.crashBefore = -1
	d.failAt = map[int]bool{}
	d.mu.Unlock()
}

// FailAt makes the n-th RW attempt from now (1-based) return ErrInjected
// without running the transaction.
func (d *DB) FailAt(n int) {
	d.mu.Lock()
	d.failAt[d.attempts+n] = true
	d.mu.Unlock()
}

// SetGateTagger installs the function that names the calling goroutine; a
// goroutine whose tag has an armed gate parks inside Update before the
// transaction runs.
func (d *DB) SetGateTagger(f func() string) {
	d.gateMu.Lock()
	d.tagOf = f
	if d.gates == nil {
		d.gates = map[string]chan struct{}{}
		d.parked = map[string]chan struct{}{}
	}
	d.gateMu.Unlock()
}

// ArmGate arms a one-shot gate for a goroutine tag and returns a channel that
// is closed when the goroutine has parked.
func (d *DB) ArmGate(tag string) <-chan struct{} {
	d.gateMu.Lock()
	defer d.gateMu.Unlock()
	if d.gates == nil {
		d.gates = map[string]chan struct{}{}
		d.parked = map[string]chan struct{}{}
	}
	d.gates[tag] = make(chan struct{})
	p := make(chan struct{})
	d.parked[tag] = p
	return p
}

// ReleaseGate lets the parked goroutine continue.
func (d *DB) ReleaseGate(tag string) {
	d.gateMu.Lock()
	g := d.gates[tag]
	delete(d.gates, tag)
	delete(d.parked, tag)
	d.gateMu.Unlock()
	if g != nil {
		close(g)
	}
}

func (d *DB) maybePark() {
	d.gateMu.Lock()
	if d.tagOf == nil {
		d.gateMu.Unlock()
		return
	}
	tag := d.tagOf()
	g, ok := d.gates[tag]
	p := d.parked[tag]
	d.gateMu.Unlock()
	if !ok {
		return
	}
	select {
	case <-p:
	default:
		close(p)
	}
	<-g
}

// Update runs one RW transaction under the armed faults.
func (d *DB) Update(f func(tx walletdb.ReadWriteTx) error, reset func()) error {
	d.maybePark()

	d.mu.Lock()
	if d.crashed {
		d.mu.Unlock()
		return ErrCrashed
	}
	d.attempts++
	if d.crashBefore >= 0 && d.writes == d.crashBefore {
		d.crashed = true
		d.mu.Unlock()
		return ErrCrashed
	}
	if d.failAt[d.attempts] {
		delete(d.failAt, d.attempts)
		d.mu.Unlock()
		reset()
		return ErrInjected
	}
	d.mu.Unlock()

	err := d.DB.Update(f, reset)
	if err != nil {
		return err
	}

	d.mu.Lock()
	d.writes++
	n := d.writes
	if d.crashAfter > 0 && d.writes == d.crashAfter {
		d.crashed = true
	}
	cb := d.OnCommit
	d.mu.Unlock()
	if cb != nil {
		cb(n, d.callerLabel())
	}
	return nil
}

// View refuses reads once crashed (a dead node reads nothing).
func (d *DB) View(f func(tx walletdb.ReadTx) error, reset func()) error {
	d.mu.Lock()
	c := d.crashed
	d.mu.Unlock()
	if c {
		return ErrCrashed
	}
	return d.DB.View(f, reset)
}

// BeginReadWriteTx is not supported: all lnd code under test uses Update.
func (d *DB) BeginReadWriteTx() (walletdb.ReadWriteTx, error) {
	return nil, fmt.Errorf("verifkit: manual rw tx not supported")
}

func (d *DB) callerLabel() string {
	pcs := make([]uintptr, 32)
	n := runtime.Callers(3, pcs)
	frames := runtime.CallersFrames(pcs[:n])
	var names []string
	for {
		fr, more := frames.Next()
		fnq := fr.Function
		if !strings.Contains(fnq, "verifkit") &&
			(d.LabelPkg == "" || strings.Contains(fnq, d.LabelPkg)) &&
			!strings.Contains(fnq, "kvdb.") && !strings.Contains(fnq, "walletdb") {

			fn := fnq[strings.LastIndex(fnq, ".")+1:]
			if !strings.HasPrefix(fn, "func") {
				names = append(names, fn)
				if len(names) == 2 {
					break
				}
			}
		}
		if !more {
			break
		}
	}
	return strings.Join(names, "<")
}
