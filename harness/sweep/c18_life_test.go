//go:build verif

package sweep

// C18 executor, retry history (spec/SweepFee/SweepLife.tla): a real
// UtxoSweeper (real BudgetAggregator, real TxPublisher behind it) keeps a few
// inputs with the same deadline across blocks while their sweep txs are
// published, bumped, fail, or have some inputs spent by a third party.
//
// The publisher's side is the one of c18_test.go (fee function wrapper, scripted
// wallet, handlers unrolled).  The sweeper's side:
//   - Offer: the inputs are put into UtxoSweeper.inputs (state Init);
//   - Round: updateSweeperInputs + sweepPendingInputs as they are; the request
//     the sweeper hands to its Publisher is captured and given to the real
//     TxPublisher (LReq line: the request, the numbers of its inputs);
//   - after every BumpResult the real UtxoSweeper.handleBumpEvent runs with it
//     (Handle line: per input the SweepState and params.StartingFeeRate the
//     sweeper now keeps - field copies); the re-sweep that
//     handleBumpEventTxUnknownSpend does itself is captured the same way;
//   - Spend: monitorRecord.spentInputs is set to a third party's tx and the
//     real TxPublisher.handleUnknownSpent runs.
// No judgement here: SweepLifeTrace.tla decides.

import (
	"fmt"
	"math/rand"
	"os"
	"testing"

	"github.com/btcsuite/btcd/chainhash/v2"
	"github.com/btcsuite/btcd/wire/v2"
	"github.com/lightningnetwork/lnd/input"
	"github.com/lightningnetwork/lnd/internal/verifkit"
	"github.com/lightningnetwork/lnd/lntypes"
)

type c18LifeEvent struct {
	A        string  `json:"a"`
	Budgets  []int64 `json:"budgets"`
	Values   []int64 `json:"values"`
	MaxVb    int64   `json:"maxvb"`
	Relay    int64   `json:"relay"`
	Est      int64   `json:"est"`
	Deadline int64   `json:"deadline"`
	Height   int64   `json:"height"`
	Ans      string  `json:"ans"`
	Ids      []int   `json:"ids"`
}

// c18Store is the sweeper's tx store: nothing is ours, everything is accepted.
type c18Store struct{}

func (c18Store) IsOurTx(chainhash.Hash) bool             { return false }
func (c18Store) StoreTx(*TxRecord) error                 { return nil }
func (c18Store) ListSweeps() ([]chainhash.Hash, error)   { return nil, nil }
func (c18Store) GetTx(chainhash.Hash) (*TxRecord, error) { return &TxRecord{}, nil }
func (c18Store) DeleteTx(chainhash.Hash) error           { return nil }

func c18StateName(s SweepState) string {
	switch s {
	case Init:
		return "init"
	case PendingPublish:
		return "pending"
	case Published:
		return "published"
	case PublishFailed:
		return "failed"
	}
	return "gone"
}

// lifeFields: what the sweeper keeps for every offered input.
func (r *c18Run) lifeFields(rec verifkit.Rec) {
	states, starts := []string{}, []int64{}
	for _, in := range r.life {
		pi, ok := r.sw.inputs[in.OutPoint()]
		if !ok {
			states, starts = append(states, "gone"), append(starts, 0)
			continue
		}
		states = append(states, c18StateName(pi.state))
		starts = append(starts, int64(pi.params.StartingFeeRate.UnwrapOr(0)))
	}
	rec["states"], rec["starts"] = states, starts
}

func (r *c18Run) lifeID(op wire.OutPoint) int {
	for i, in := range r.life {
		if in.OutPoint() == op {
			return i + 1
		}
	}
	return 0
}

func (r *c18Run) lifeOffer(ev c18LifeEvent) {
	r.aux = nil
	r.nin = 0
	r.newPublisher(ev.Est, ev.Relay, nil)
	r.newSweeper(ev.Deadline, ev.MaxVb, true)
	r.sw.cfg.Store = c18Store{}
	r.sw.currentHeight = int32(ev.Height)
	r.tp.currentHeight.Store(int32(ev.Height))
	r.height = ev.Height
	r.change = c18Script('k', 0x7777)
	r.life = nil
	r.captured = false
	r.afterDone = r.lifeHandle
	r.decorate = func(rec verifkit.Rec) {
		ids := []int{}
		for _, in := range r.req.Inputs {
			ids = append(ids, r.lifeID(in.OutPoint()))
		}
		rec["ids"] = ids
		rec["height"] = r.height
		r.lifeFields(rec)
	}
	rec := r.base("Offer")
	lb, lw, lv := []int64{}, []int64{}, []int64{}
	for i, b := range ev.Budgets {
		v := int64(1000000)
		if i < len(ev.Values) {
			v = ev.Values[i]
		}
		in := r.mkInput('k', v, -1)
		r.life = append(r.life, in)
		r.offer(in, b, 0)
		// the weight the aggregator's filter prices the input at
		ws, _, _ := in.WitnessType().SizeUpperBound()
		lb, lv = append(lb, b), append(lv, v)
		lw = append(lw, int64(lntypes.VByte(input.InputSize).ToWU()+ws))
	}
	rec["lbudgets"], rec["lwus"], rec["lvalues"] = lb, lw, lv
	rec["cfgvb"], rec["relay"], rec["est"] = ev.MaxVb, ev.Relay, ev.Est
	rec["deadline"], rec["height"] = ev.Deadline, ev.Height
	r.out.Emit(rec)
}

func (r *c18Run) lifeLive() bool {
	if r.rec == nil {
		return false
	}
	_, ok := r.tp.records.Load(r.rec.requestID)
	return ok
}

// lifeRound is one round of the sweeper's collector at a block height (or, right
// after an unknown spend was handled, the round handleBumpEvent ran itself).
func (r *c18Run) lifeRound(h int64) {
	if r.sw == nil {
		return
	}
	var (
		req     *BumpRequest
		nwallet int
		ok      bool
	)
	if r.captured {
		r.captured = false
		req, nwallet, ok = r.pickReq()
	} else {
		r.height = h
		r.sw.currentHeight = int32(h)
		r.tp.currentHeight.Store(int32(h))
		req, nwallet, ok = r.regroup()
	}
	if !ok {
		if !r.lifeLive() {
			rec := r.base("NoReq")
			rec["height"] = r.height
			r.lifeFields(rec)
			r.out.Emit(rec)
		}
		return
	}
	r.install("LReq", req, nwallet)
}

// lifeHandle: the sweeper handles the BumpResult the publisher just delivered.
func (r *c18Run) lifeHandle() {
	res := r.lastRes
	if res == nil || r.set == nil {
		return
	}
	r.bumper.reqs, r.agg.sets = nil, nil
	set := r.set
	err := r.sw.handleBumpEvent(&bumpResp{result: res, set: set})
	rec := r.base("Handle")
	rec["event"] = res.Event.String()
	rec["rate"] = int64(res.FeeRate)
	rec["height"] = r.height
	if err != nil {
		rec["err"] = "other:" + err.Error()
	}
	r.lifeFields(rec)
	r.out.Emit(rec)
	// handleBumpEventTxUnknownSpend sweeps the remaining inputs itself
	r.captured = res.Event == TxUnknownSpend && len(res.SpentInputs) < len(set.Inputs())
}

// lifeSpend: a tx the publisher does not know spends the inputs ids of the
// monitored tx.
func (r *c18Run) lifeSpend(h int64, ids []int) {
	if !r.lifeLive() || r.rec.tx == nil {
		return
	}
	third := &wire.MsgTx{Version: 2, LockTime: 42}
	spent := map[wire.OutPoint]*wire.MsgTx{}
	var valid []int
	for _, id := range ids {
		if id < 1 || id > len(r.life) {
			continue
		}
		op := r.life[id-1].OutPoint()
		for _, in := range r.req.Inputs {
			if in.OutPoint() == op {
				third.AddTxIn(&wire.TxIn{PreviousOutPoint: op})
				spent[op] = third
				valid = append(valid, id)
			}
		}
	}
	if len(valid) == 0 {
		return
	}
	r.height = h
	r.sw.currentHeight = int32(h)
	r.tp.currentHeight.Store(int32(h))
	rec := r.base("Spend")
	rec["height"] = h
	rec["ids"] = valid
	r.out.Emit(rec)
	r.rec.spentInputs = spent
	r.tp.wg.Add(1)
	r.tp.handleUnknownSpent(r.rec)
	r.done()
}

func c18LifeAnswers(evs []c18LifeEvent, from int) (chk, pub []string) {
	for j := from; j < len(evs); j++ {
		switch evs[j].A {
		case "Check":
			chk = append(chk, evs[j].Ans)
		case "Pub":
			pub = append(pub, evs[j].Ans)
		case "Done":
			return
		}
	}
	return
}

func (r *c18Run) lifeReset(name string) {
	rs := r.base("Reset")
	rs["file"] = name
	r.out.Emit(rs)
	r.ff, r.tp, r.rec, r.req, r.lastRes, r.set = nil, nil, nil, nil, nil, nil
}

func (r *c18Run) lifeEnd() {
	r.afterDone, r.decorate = nil, nil
}

// TestVerifC18Life replays TLC-generated (and directed) retry histories, then a
// seeded free-running driver over larger ranges.
func TestVerifC18Life(t *testing.T) {
	out := verifkit.MustWriter(verifkit.Env("VERIF_OUT", ".") + "/life.ndjson")
	defer out.Close()
	r := &c18Run{t: t, out: out}
	dir := os.Getenv("VERIF_LIFE_SCHED")
	files := verifkit.ListFiles(dir, "l_", ".ndjson")
	if len(files) == 0 {
		t.Fatalf("no schedules in %q", dir)
	}
	for _, f := range files {
		evs, err := verifkit.ReadNDJSONInto[c18LifeEvent](f)
		if err != nil {
			t.Fatal(err)
		}
		r.lifeReset(f)
		for i, ev := range evs {
			if ev.A != "Offer" && r.sw == nil {
				continue
			}
			switch ev.A {
			case "Offer":
				r.lifeOffer(ev)
			case "Round":
				r.lifeRound(ev.Height)
			case "Init":
				chk, pub := c18LifeAnswers(evs, i+1)
				r.sw.currentHeight = int32(ev.Height)
				r.doInit(ev.Height, chk, pub)
			case "Bump":
				chk, pub := c18LifeAnswers(evs, i+1)
				r.sw.currentHeight = int32(ev.Height)
				r.doBlock(ev.Height, chk, pub)
			case "Spend":
				r.lifeSpend(ev.Height, ev.Ids)
			}
		}
		r.lifeEnd()
		r.sw = nil
	}

	rng := rand.New(rand.NewSource(verifkit.Seed()*104729 + 1818))
	n := verifkit.EnvInt("VERIF_NLIFE", 150)
	for i := 0; i < n; i++ {
		r.lifeFree(rng, i)
	}
}

// lifeFree: 2..4 inputs, budgets from a few sat to a large share of the value,
// a deadline 1..40 blocks away, blocks with skipped heights, mempool / publish
// refusals, at most one third-party spend; every block is a collector round
// followed by the publisher's handlers, as the two subsystems run.
func (r *c18Run) lifeFree(rng *rand.Rand, i int) {
	r.lifeReset(fmt.Sprintf("freelife-%d", i))
	n := 2 + rng.Intn(3)
	relay := c18Pick(rng, 253, 253, 500, 2000)
	ev := c18LifeEvent{A: "Offer", MaxVb: c18Pick(rng, 1000, 1000, 1000, 50, 7600), Relay: relay,
		Est: c18Pick(rng, -1, relay, relay+50, 1000, 3000, 40000), Height: int64(700000 + rng.Intn(1000))}
	ct0 := c18Pick(rng, 1, 2, 3, 4, 6, 10, 25, 40)
	ev.Deadline = ev.Height + ct0
	for k := 0; k < n; k++ {
		v := c18Pick(rng, 20000, 100000, 1000000) + rng.Int63n(5000)
		b := c18Pick(rng, 60, 300, 2000, 13000, v/20, v/3) + rng.Int63n(50)
		ev.Values, ev.Budgets = append(ev.Values, v), append(ev.Budgets, b)
	}
	r.lifeOffer(ev)
	defer func() { r.lifeEnd(); r.sw = nil }()

	ans := func(k int) []string {
		var a []string
		for ; k > 0; k-- {
			a = append(a, []string{"ok", "ok", "ok", "ok", "ok", "ok", "lowfee", "lowfee", "reject"}[rng.Intn(9)])
		}
		return a
	}
	pans := func() []string {
		if rng.Intn(10) == 0 {
			return []string{"fail"}
		}
		return nil
	}
	h := ev.Height
	spends := 0
	for step := 0; step < 60 && h <= ev.Deadline+1; step++ {
		if !r.lifeLive() {
			// the collector's round (after an unknown spend: the one the sweeper ran
			// itself, whose request is broadcast immediately), then the initial
			// broadcast at this block or the next
			imm := r.captured
			r.lifeRound(h)
			if r.lifeLive() && r.rec.tx == nil {
				if !imm && rng.Intn(3) == 0 {
					h++
				}
				r.sw.currentHeight = int32(h)
				r.doInit(h, ans(rng.Intn(3)), pans())
			}
		}
		// next block(s)
		switch {
		case ct0 > 12 && step > 4 && h < ev.Deadline-3:
			h = ev.Deadline - int64(rng.Intn(4))
		case rng.Intn(6) == 0:
			h += int64(2 + rng.Intn(2))
		default:
			h++
		}
		if !r.lifeLive() || r.rec.tx == nil {
			continue
		}
		if spends == 0 && rng.Intn(5) == 0 {
			spends++
			var ids []int
			for k := 1; k <= n; k++ {
				if rng.Intn(2) == 0 {
					ids = append(ids, k)
				}
			}
			if len(ids) == 0 {
				ids = []int{1 + rng.Intn(n)}
			}
			r.lifeSpend(h, ids)
			continue
		}
		r.sw.currentHeight = int32(h)
		r.doBlock(h, ans(rng.Intn(2)), pans())
	}
}
