//go:build verif

package sweep

// C18 executor: replays TLC-generated behaviours of spec/SweepFee on the real
// sweep.LinearFeeFunction and sweep.TxPublisher, plus a free-running seeded
// driver over ranges the model checker cannot enumerate (rates up to 2*10^6
// sat/kw, conf targets up to 1011, input sets of 1..40 inputs built through
// the real BudgetAggregator / BudgetInputSet with wallet top-ups).
//
// It records what the code answered (fee function fields after every call,
// every tx handed to the wallet with its inputs, outputs and their dust
// limits, the BumpResult).  It contains no judgement: SweepFeeTrace.tla is
// the judge.
//
// Observation points (no source hooks):
//   - the fee function of a record is wrapped (c18FF): every Increment /
//     IncreaseFeeRate is a trace line, FeeRate() is one when it is called
//     from createAndCheckTx (start of a tx creation attempt);
//   - the wallet (c18Wallet) logs CheckMempoolAcceptance / PublishTransaction
//     with the tx and gives the scripted answer;
//   - the request is built by the REAL sweeper: the inputs are put into
//     UtxoSweeper.inputs, then updateSweeperInputs + sweepPendingInputs run
//     as they are (aggregator, wallet top-up, sweep()); the sweeper's
//     Publisher is c18Bumper, which only captures the BumpRequest so that it
//     can be handed to the real TxPublisher (storeInitialRecord) call by call.
//     The Req line records the request as built next to the configuration
//     (sweeper.maxfeerate in sat/vb) and the per-input budgets, deadlines,
//     previous rates and unconfirmed-parent infos it was built from;
//   - the handlers handleInitialBroadcast + initializeTx are unrolled into
//     their four calls (initializeFeeFunction, createRBFCompliantTx,
//     broadcast | handleInitialTxError, handleResult) so that the wrapper can
//     be attached to the freshly created fee function; handleFeeBumpTx is
//     called as is.

import (
	"errors"
	"fmt"
	"math/rand"
	"os"
	"runtime"
	"strings"
	"testing"

	"github.com/btcsuite/btcd/btcec/v2"
	"github.com/btcsuite/btcd/btcutil/v2"
	"github.com/btcsuite/btcd/chainhash/v2"
	"github.com/btcsuite/btcd/wire/v2"
	"github.com/btcsuite/btcwallet/chain"
	"github.com/lightningnetwork/lnd/chainntnfs"
	"github.com/lightningnetwork/lnd/fn/v2"
	"github.com/lightningnetwork/lnd/input"
	"github.com/lightningnetwork/lnd/internal/verifkit"
	"github.com/lightningnetwork/lnd/keychain"
	"github.com/lightningnetwork/lnd/lntypes"
	"github.com/lightningnetwork/lnd/lnwallet"
	"github.com/lightningnetwork/lnd/lnwallet/chainfee"
	"github.com/lightningnetwork/lnd/tlv"
)

// ---------------------------------------------------------------- schedule

type c18Event struct {
	A        string `json:"a"`
	MaxRate  int64  `json:"maxrate"`
	Ct       int64  `json:"ct"`
	Sopt     int64  `json:"sopt"`
	Est      int64  `json:"est"`
	Relay    int64  `json:"relay"`
	Budget   int64  `json:"budget"`
	NK       int    `json:"nk"` // number of plain p2wkh inputs
	NT       int    `json:"nt"` // number of p2tr key-spend inputs
	NR       int    `json:"nr"` // number of inputs with a required output
	TotalIn  int64  `json:"totalin"`
	ReqOut   int64  `json:"reqout"`
	Dust     int64  `json:"dust"` // 294: p2wkh change script, 330: p2tr
	Deadline int64  `json:"deadline"`
	Height   int64  `json:"height"`
	Ans      string `json:"ans"`
	// the fee rate each input of the request was offered before (0: never)
	Prevs []int64 `json:"prevs"`
	// 1: group the inputs with the real BudgetAggregator, 0: one BudgetInputSet in the given order
	Agg int `json:"agg"`
	// the sweeper's configured maximum fee rate in sat/vb (0: MaxRate/250)
	MaxVb int64 `json:"maxvb"`
	// number of commitment anchor inputs (0/1) carrying unconfirmed-parent
	// info: parent weight PW, parent fee PF
	NA int   `json:"na"`
	PW int64 `json:"pw"`
	PF int64 `json:"pf"`
	// aux sweeper (custom channels): value of the extra output it adds to every
	// sweep tx (0: no aux sweeper) and its extra budget (part of Budget)
	XOut    int64 `json:"xout"`
	XBudget int64 `json:"xbudget"`
}

// ---------------------------------------------------------------- fakes

var (
	c18ErrEstimator = errors.New("c18: estimator failed")
	c18ErrReject    = errors.New("c18: mempool rejects")
	c18ErrPublish   = errors.New("c18: publish failed")
)

type c18Estimator struct {
	est   int64 // -1: error
	relay int64
}

func (e *c18Estimator) EstimateFeePerKW(uint32) (chainfee.SatPerKWeight, error) {
	if e.est < 0 {
		return 0, c18ErrEstimator
	}
	return chainfee.SatPerKWeight(e.est), nil
}
func (e *c18Estimator) Start() error { return nil }
func (e *c18Estimator) Stop() error  { return nil }
func (e *c18Estimator) RelayFeePerKW() chainfee.SatPerKWeight {
	return chainfee.SatPerKWeight(e.relay)
}

type c18Signer struct {
	*input.MockInputSigner
}

func (s *c18Signer) ComputeInputScript(*wire.MsgTx, *input.SignDescriptor) (*input.Script, error) {
	return &input.Script{Witness: wire.TxWitness{make([]byte, 72), make([]byte, 33)}}, nil
}

type c18Sig struct{}

func (c18Sig) Serialize() []byte                    { return make([]byte, 72) }
func (c18Sig) Verify([]byte, *btcec.PublicKey) bool { return true }

func (s *c18Signer) SignOutputRaw(*wire.MsgTx, *input.SignDescriptor) (input.Signature, error) {
	return c18Sig{}, nil
}

// c18Bumper is the sweeper's Publisher: it captures the requests the real
// UtxoSweeper.sweep builds (nothing is ever sent on the result channel).
type c18Bumper struct {
	reqs []*BumpRequest
}

func (b *c18Bumper) Broadcast(req *BumpRequest) <-chan *BumpResult {
	b.reqs = append(b.reqs, req)
	return make(chan *BumpResult)
}

// c18Agg is the sweeper's Aggregator: the real BudgetAggregator, or one real
// BudgetInputSet of the pending inputs in the order they were offered.  It
// remembers the sets it returned (the sweeper keeps them to itself).
type c18Agg struct {
	run  *c18Run
	real UtxoAggregator
	sets []InputSet
}

func (a *c18Agg) ClusterInputs(inputs InputsMap) []InputSet {
	a.sets = nil
	if a.real != nil {
		a.sets = a.real.ClusterInputs(inputs)
		return a.sets
	}
	var list []SweeperInput
	for _, op := range a.run.order {
		if pi, ok := inputs[op]; ok {
			list = append(list, *pi)
		}
	}
	bs, err := NewBudgetInputSet(list, a.run.deadline, a.run.auxOpt())
	if err != nil {
		return nil
	}
	a.sets = []InputSet{bs}
	return a.sets
}

// c18Aux is the aux sweeper of a node with custom channels: for a set of
// inputs of which one carries a resolution blob it adds one extra (p2tr)
// output of a fixed value to the sweep tx, and it contributes an extra budget
// for the input `first'.
type c18Aux struct {
	xout    int64
	xbudget int64
	first   wire.OutPoint
}

func c18HasBlob(ins []input.Input) bool {
	for _, in := range ins {
		if in.ResolutionBlob().IsSome() {
			return true
		}
	}
	return false
}

var c18ErrNoBlob = errors.New("c18: no custom channel input")

func (a *c18Aux) DeriveSweepAddr(ins []input.Input, _ lnwallet.AddrWithKey) fn.Result[SweepOutput] {
	if !c18HasBlob(ins) {
		return fn.Err[SweepOutput](c18ErrNoBlob)
	}
	return fn.Ok(SweepOutput{TxOut: wire.TxOut{Value: a.xout, PkScript: c18Script('t', 0x5555)}, IsExtra: true,
		InternalKey: fn.None[keychain.KeyDescriptor]()})
}

func (a *c18Aux) ExtraBudgetForInputs(ins []input.Input) fn.Result[btcutil.Amount] {
	for _, in := range ins {
		if in.OutPoint() == a.first {
			return fn.Ok(btcutil.Amount(a.xbudget))
		}
	}
	return fn.Ok(btcutil.Amount(0))
}

func (a *c18Aux) NotifyBroadcast(*BumpRequest, *wire.MsgTx, btcutil.Amount, map[wire.OutPoint]int) error {
	return nil
}

func (r *c18Run) auxOpt() fn.Option[AuxSweeper] {
	if r.aux == nil {
		return fn.None[AuxSweeper]()
	}
	return fn.Some[AuxSweeper](r.aux)
}

// outScripts: the scripts of the non-required outputs of the tx that is built
// for these inputs (the change, and the aux sweeper's extra output).
func (r *c18Run) outScripts(ins []input.Input) [][]byte {
	s := [][]byte{r.change}
	if r.aux != nil && c18HasBlob(ins) {
		s = append(s, c18Script('t', 0x5555))
	}
	return s
}

type c18Wallet struct {
	run   *c18Run
	utxos []*lnwallet.Utxo
}

func (w *c18Wallet) PublishTransaction(tx *wire.MsgTx, _ string) error {
	ans := w.run.next(&w.run.pubAns)
	w.run.emitTx("Pub", tx, ans)
	if ans == "ok" {
		return nil
	}
	return c18ErrPublish
}
func (w *c18Wallet) CheckMempoolAcceptance(tx *wire.MsgTx) error {
	ans := w.run.next(&w.run.chkAns)
	w.run.emitTx("Check", tx, ans)
	switch ans {
	case "ok":
		return nil
	case "lowfee": // not enough to replace / to enter the mempool: handled as "retry later"
		w.run.nlow++
		if w.run.nlow%2 == 0 {
			return chain.ErrInsufficientFee
		}
		return lnwallet.ErrMempoolFee
	case "minfee": // below the relay / mempool minimum
		w.run.nlow++
		if w.run.nlow%2 == 0 {
			return chain.ErrMinRelayFeeNotMet
		}
		return chain.ErrMempoolMinFeeNotMet
	}
	return c18ErrReject
}
func (w *c18Wallet) ListUnspentWitnessFromDefaultAccount(int32, int32) ([]*lnwallet.Utxo, error) {
	out := make([]*lnwallet.Utxo, len(w.utxos))
	copy(out, w.utxos)
	return out, nil
}
func (w *c18Wallet) WithCoinSelectLock(f func() error) error { return f() }
func (w *c18Wallet) RemoveDescendants(*wire.MsgTx) error     { return nil }
func (w *c18Wallet) FetchTx(chainhash.Hash) (*wire.MsgTx, error) {
	return nil, nil
}
func (w *c18Wallet) CancelRebroadcast(chainhash.Hash) {}
func (w *c18Wallet) GetTransactionDetails(*chainhash.Hash) (*lnwallet.TransactionDetail, error) {
	return nil, errors.New("not found")
}
func (w *c18Wallet) BackEnd() string { return "bitcoind" }

// c18ReqInput is an input that commits to an output of the sweep tx (as the
// second-level HTLC inputs of anchor channels do).
type c18ReqInput struct {
	*input.BaseInput
	out *wire.TxOut
}

func (i *c18ReqInput) RequiredTxOut() *wire.TxOut { return i.out }

// c18FF wraps the real fee function of a record.
type c18FF struct {
	run *c18Run
	in  *LinearFeeFunction
}

func (f *c18FF) FeeRate() chainfee.SatPerKWeight {
	r := f.in.FeeRate()
	pcs := make([]uintptr, 4)
	n := runtime.Callers(2, pcs)
	fr, _ := runtime.CallersFrames(pcs[:n]).Next()
	if strings.HasSuffix(fr.Function, ".createAndCheckTx") {
		rec := f.run.base("Create")
		rec["rate"] = int64(r)
		f.run.ffFields(rec, f.in)
		f.run.out.Emit(rec)
	}
	return r
}

func (f *c18FF) Increment() (bool, error) {
	inc, err := f.in.Increment()
	rec := f.run.base("Inc")
	rec["inc"] = c18B(inc)
	rec["err"] = c18Err(err)
	f.run.ffFields(rec, f.in)
	f.run.out.Emit(rec)
	return inc, err
}

func (f *c18FF) IncreaseFeeRate(ct uint32) (bool, error) {
	inc, err := f.in.IncreaseFeeRate(ct)
	rec := f.run.base("Bump")
	rec["ct"] = int64(ct)
	rec["height"] = f.run.height
	rec["inc"] = c18B(inc)
	rec["err"] = c18Err(err)
	f.run.ffFields(rec, f.in)
	f.run.out.Emit(rec)
	return inc, err
}

func c18B(b bool) int {
	if b {
		return 1
	}
	return 0
}

func c18Err(err error) string {
	switch {
	case err == nil:
		return "none"
	case errors.Is(err, ErrZeroFeeRateDelta):
		return "zerodelta"
	case errors.Is(err, ErrMaxPosition):
		return "maxpos"
	case errors.Is(err, ErrNotEnoughInputs):
		return "noinputs"
	case errors.Is(err, ErrTxNoOutput):
		return "nooutput"
	case errors.Is(err, ErrNotEnoughBudget):
		return "budget"
	case errors.Is(err, c18ErrEstimator):
		return "estimator"
	case errors.Is(err, ErrFeePreferenceTooLow):
		return "toolow"
	case errors.Is(err, c18ErrReject):
		return "mempool"
	case errors.Is(err, chain.ErrMinRelayFeeNotMet), errors.Is(err, chain.ErrMempoolMinFeeNotMet):
		return "minfee"
	case errors.Is(err, c18ErrPublish):
		return "publish"
	case errors.Is(err, ErrUnknownSpent):
		return "unknownspend"
	}
	return "other:" + err.Error()
}

// ---------------------------------------------------------------- the run

type c18Run struct {
	t      *testing.T
	out    *verifkit.Writer
	height int64

	// fee function mode
	ff *LinearFeeFunction

	// publisher mode
	tp      *TxPublisher
	wallet  *c18Wallet
	est     *c18Estimator
	req     *BumpRequest
	rec     *monitorRecord
	sub     chan *BumpResult
	lastRes *BumpResult
	change  []byte
	chkAns  []string
	pubAns  []string
	nlow    int
	nin     int

	// the sweeper's side of a request: pending inputs, how they are grouped
	sw       *UtxoSweeper
	bumper   *c18Bumper
	agg      *c18Agg
	order    []wire.OutPoint
	deadline int32
	set      InputSet
	aux      *c18Aux // nil: no aux sweeper

	// retry history (c18_life_test.go)
	decorate  func(verifkit.Rec) // extra fields of a request line
	afterDone func()             // the sweeper handles the result just delivered
	life      []input.Input      // the inputs offered, by number
	captured  bool               // a round already ran inside handleBumpEvent
}

func (r *c18Run) next(q *[]string) string {
	if len(*q) == 0 {
		return "ok"
	}
	a := (*q)[0]
	*q = (*q)[1:]
	return a
}

// base returns a record with every field the trace spec may read.
func (r *c18Run) base(a string) verifkit.Rec {
	return verifkit.Rec{"a": a, "maxrate": 0, "ct": 0, "sopt": -1, "est": 0, "relay": 0, "budget": 0,
		"weight": 1, "totalin": 0, "reqout": 0, "dust": 0, "deadline": 0, "height": 0, "nin": 0,
		"maxallowed": 0, "live": 0, "start": 0, "end": 0, "width": 0, "pos": 0, "cur": 0, "delta": 0,
		"inc": 0, "err": "none", "rate": 0, "fee": 0, "change": 0, "nout": 0, "outs": [][]int64{},
		"ins": []int{}, "ans": "", "event": "", "wallet": 0, "prevs": []int64{}, "cfgvb": 0,
		"budgets": []int64{}, "deadlines": []int64{}, "parents": [][]int64{}, "xout": 0, "xbudget": 0,
		"ids": []int{}, "states": []string{}, "starts": []int64{}, "lbudgets": []int64{}, "lwus": []int64{},
		"lvalues": []int64{}}
}

func (r *c18Run) ffFields(rec verifkit.Rec, f *LinearFeeFunction) {
	if f == nil {
		return
	}
	rec["live"] = 1
	rec["start"] = int64(f.startingFeeRate)
	rec["end"] = int64(f.endingFeeRate)
	rec["width"] = int64(f.width)
	rec["pos"] = int64(f.position)
	rec["cur"] = int64(f.currentFeeRate)
	rec["delta"] = int64(f.deltaFeeRate)
}

func c18Start(sopt int64) fn.Option[chainfee.SatPerKWeight] {
	if sopt < 0 {
		return fn.None[chainfee.SatPerKWeight]()
	}
	return fn.Some(chainfee.SatPerKWeight(sopt))
}

// ---- fee function mode

func (r *c18Run) doNew(ev c18Event) {
	f, err := NewLinearFeeFunction(chainfee.SatPerKWeight(ev.MaxRate), uint32(ev.Ct),
		&c18Estimator{est: ev.Est, relay: ev.Relay}, c18Start(ev.Sopt))
	r.ff = f
	rec := r.base("New")
	rec["maxrate"], rec["ct"], rec["sopt"], rec["est"], rec["relay"] = ev.MaxRate, ev.Ct, ev.Sopt, ev.Est, ev.Relay
	rec["err"] = c18Err(err)
	r.ffFields(rec, f)
	r.out.Emit(rec)
}

func (r *c18Run) doInc() {
	if r.ff == nil {
		return
	}
	(&c18FF{run: r, in: r.ff}).Increment()
}

func (r *c18Run) doBumpFF(ct int64) {
	if r.ff == nil {
		return
	}
	r.height = -1
	(&c18FF{run: r, in: r.ff}).IncreaseFeeRate(uint32(ct))
}

// ---- publisher mode

var c18Key = func() *keychain.KeyDescriptor {
	return &keychain.KeyDescriptor{PubKey: testPubKey}
}()

func c18Script(kind byte, tag int) []byte {
	var s []byte
	switch kind {
	case 'k':
		s = append([]byte{0x00, 0x14}, make([]byte, 20)...)
	case 't', 's':
		s = append([]byte{0x51, 0x20}, make([]byte, 32)...)
		if kind == 's' {
			s[0] = 0x00
		}
	}
	s[2], s[3] = byte(tag), byte(tag>>8)
	return s
}

func (r *c18Run) mkInput(kind byte, value int64, reqOut int64) input.Input {
	r.nin++
	var h chainhash.Hash
	h[0], h[1], h[31] = byte(r.nin), byte(r.nin>>8), 0xc1
	wt := input.WitnessKeyHash
	pk := c18Script('k', r.nin)
	if kind == 't' {
		wt = input.TaprootPubKeySpend
		pk = c18Script('t', r.nin)
	}
	var opts []input.InputOpt
	if r.aux != nil { // an output of a custom channel
		opts = append(opts, input.WithResolutionBlob(fn.Some(tlv.Blob{0x01, byte(r.nin)})))
	}
	bi := input.NewBaseInput(&wire.OutPoint{Hash: h, Index: uint32(r.nin % 3)}, wt,
		&input.SignDescriptor{Output: &wire.TxOut{Value: value, PkScript: pk}, KeyDesc: *c18Key}, 1, opts...)
	if reqOut >= 0 {
		return &c18ReqInput{BaseInput: bi, out: &wire.TxOut{Value: reqOut, PkScript: c18Script('s', r.nin)}}
	}
	return bi
}

// mkAnchor is a commitment anchor input (330 sat) that carries the info of its
// still unconfirmed parent, the way contractcourt offers it to CPFP a force
// close.
func (r *c18Run) mkAnchor(pweight, pfee int64) input.Input {
	r.nin++
	var h chainhash.Hash
	h[0], h[1], h[31] = byte(r.nin), byte(r.nin>>8), 0xa1
	bi := input.MakeBaseInput(&wire.OutPoint{Hash: h, Index: uint32(r.nin % 3)}, input.CommitmentAnchor,
		&input.SignDescriptor{Output: &wire.TxOut{Value: 330, PkScript: c18Script('s', r.nin)}, KeyDesc: *c18Key,
			WitnessScript: make([]byte, 40)}, 1,
		&input.TxInfo{Fee: btcutil.Amount(pfee), Weight: lntypes.WeightUnit(pweight)})
	return &bi
}

func (r *c18Run) newPublisher(est, relay int64, utxos []*lnwallet.Utxo) {
	r.est = &c18Estimator{est: est, relay: relay}
	r.wallet = &c18Wallet{run: r, utxos: utxos}
	r.tp = NewTxPublisher(TxPublisherConfig{
		Signer:     &c18Signer{},
		Wallet:     r.wallet,
		Estimator:  r.est,
		Notifier:   &chainntnfs.MockChainNotifier{},
		AuxSweeper: r.auxOpt(),
	})
	r.chkAns, r.pubAns = nil, nil
}

// install registers the request with the publisher and writes the Req line.
func (r *c18Run) install(a string, req *BumpRequest, nwallet int) {
	r.req = req
	r.rec = r.tp.storeInitialRecord(req)
	r.sub = make(chan *BumpResult, 4)
	r.tp.subscriberChans.Store(r.rec.requestID, r.sub)
	r.lastRes = nil

	rec := r.base(a)
	w, err := calcSweepTxWeight(req.Inputs, r.outScripts(req.Inputs))
	if err != nil {
		r.t.Fatalf("weight: %v", err)
	}
	var tin, rout int64
	for _, in := range req.Inputs {
		tin += in.SignDesc().Output.Value
		if o := in.RequiredTxOut(); o != nil {
			rout += o.Value
		}
	}
	rec["budget"] = int64(req.Budget)
	rec["weight"] = int64(w)
	rec["maxrate"] = int64(req.MaxFeeRate)
	rec["relay"] = r.est.relay
	rec["est"] = r.est.est
	rec["totalin"] = tin
	rec["reqout"] = rout
	rec["dust"] = int64(lnwallet.DustLimitForSize(len(req.DeliveryAddress.DeliveryAddress)))
	rec["deadline"] = int64(req.DeadlineHeight)
	rec["sopt"] = int64(req.StartingFeeRate.UnwrapOr(-1))
	rec["nin"] = len(req.Inputs)
	rec["wallet"] = nwallet
	// what the request was built from: the sweeper's configuration and, per
	// input of the set, the budget, the rate offered before and - for the
	// inputs the sweeper was asked to sweep - the deadline
	rec["cfgvb"] = int64(r.sw.cfg.MaxFeeRate)
	prevs, budgets, deadlines, parents := []int64{}, []int64{}, []int64{}, [][]int64{}
	if bs, ok := r.set.(*BudgetInputSet); ok {
		rec["xbudget"] = int64(bs.extraBudget)
		if r.aux != nil && c18HasBlob(req.Inputs) {
			rec["xout"] = r.aux.xout
		}
		for _, si := range bs.inputs {
			prevs = append(prevs, int64(si.params.StartingFeeRate.UnwrapOr(0)))
			budgets = append(budgets, int64(si.params.Budget))
			if pi, ok := r.sw.inputs[si.OutPoint()]; ok {
				deadlines = append(deadlines, int64(pi.DeadlineHeight))
			}
		}
	}
	for _, in := range req.Inputs {
		if p := in.UnconfParent(); p != nil {
			parents = append(parents, []int64{int64(p.Weight), int64(p.Fee)})
		}
	}
	rec["prevs"], rec["budgets"], rec["deadlines"], rec["parents"] = prevs, budgets, deadlines, parents
	if r.decorate != nil {
		r.decorate(rec)
	}
	r.out.Emit(rec)
}

// offer hands an input to the sweeper (UtxoSweeper.inputs).  prev > 0: the
// input was swept before on its own and that sweep failed handing back the
// rate prev - recorded the way the sweeper records it.
func (r *c18Run) offer(in input.Input, budget int64, prev int64) {
	pi := &SweeperInput{Input: in, state: Init, params: Params{Budget: btcutil.Amount(budget),
		DeadlineHeight: fn.Some(r.deadline)}, DeadlineHeight: r.deadline}
	r.sw.inputs[in.OutPoint()] = pi
	r.order = append(r.order, in.OutPoint())
	if prev > 0 {
		one, err := NewBudgetInputSet([]SweeperInput{*pi}, r.deadline, r.auxOpt())
		if err != nil {
			r.t.Fatal(err)
		}
		pi.state = Published
		r.sw.markInputsPublishFailed(one, chainfee.SatPerKWeight(prev))
	}
}

// regroup is one round of the sweeper's collector: the REAL
// updateSweeperInputs + sweepPendingInputs (cluster the pending inputs, top up
// from the wallet, UtxoSweeper.sweep: build the BumpRequest from the
// configuration and the set, mark the inputs pending, Broadcast).  The request
// the sweeper handed to its Publisher is returned together with its set.
func (r *c18Run) regroup() (*BumpRequest, int, bool) {
	r.bumper.reqs, r.agg.sets = nil, nil
	r.sw.sweepPendingInputs(r.sw.updateSweeperInputs())
	return r.pickReq()
}

// pickReq: the (first) request the sweeper handed to its Publisher in the last
// round, with the set it was built from.
func (r *c18Run) pickReq() (*BumpRequest, int, bool) {
	if len(r.bumper.reqs) == 0 || len(r.bumper.reqs[0].Inputs) == 0 {
		return nil, 0, false
	}
	req := r.bumper.reqs[0]
	r.set = nil
	for _, set := range r.agg.sets {
		if ins := set.Inputs(); len(ins) > 0 && ins[0].OutPoint() == req.Inputs[0].OutPoint() {
			r.set = set
		}
	}
	if r.set == nil {
		return nil, 0, false
	}
	nwallet := 0
	for _, in := range req.Inputs {
		if _, ok := r.sw.inputs[in.OutPoint()]; !ok {
			nwallet++
		}
	}
	return req, nwallet, true
}

// dryRegroup is regroup on a copy of the sweeper's input states: what request
// would the sweeper build now?  (The free driver uses it to put a budget on a
// rounding boundary of the set's real weight before the real round.)
func (r *c18Run) dryRegroup() (*BumpRequest, bool) {
	snap := map[wire.OutPoint]SweeperInput{}
	for op, pi := range r.sw.inputs {
		snap[op] = *pi
	}
	script := r.sw.currentOutputScript
	req, _, ok := r.regroup()
	for op, pi := range snap {
		*r.sw.inputs[op] = pi
	}
	r.sw.currentOutputScript = script
	r.set = nil
	return req, ok
}

// newSweeper is a UtxoSweeper configured with a maximum fee rate (sat/vb, the
// unit of sweeper.maxfeerate), the real aggregator (or the fixed-order one),
// the scripted wallet and the capturing publisher.
func (r *c18Run) newSweeper(deadline int64, maxVb int64, useAgg bool) {
	if r.sw != nil {
		close(r.sw.quit) // ends the monitorFeeBumpResult goroutines of the previous one
	}
	r.bumper = &c18Bumper{}
	r.agg = &c18Agg{run: r}
	if useAgg {
		r.agg.real = NewBudgetAggregator(r.est, 100, r.auxOpt())
	}
	r.sw = New(&UtxoSweeperConfig{
		GenSweepScript: func() fn.Result[lnwallet.AddrWithKey] {
			return fn.Ok(lnwallet.AddrWithKey{DeliveryAddress: r.change})
		},
		FeeEstimator:         r.est,
		Wallet:               r.wallet,
		Signer:               &c18Signer{},
		MaxInputsPerTx:       100,
		MaxFeeRate:           chainfee.SatPerVByte(maxVb),
		Aggregator:           r.agg,
		Publisher:            r.bumper,
		NoDeadlineConfTarget: 1008,
	})
	r.sw.currentHeight = int32(deadline) - 1
	r.order = nil
	r.set = nil
	r.rec, r.req, r.lastRes = nil, nil, nil
	r.deadline = int32(deadline)
}

// doReq offers the inputs of a generated schedule to the sweeper (the model
// chose the sums and the rates offered before; values and budget are spread
// over the inputs) and groups them into the request.
func (r *c18Run) doReq(ev c18Event) {
	r.aux = nil
	if ev.XOut > 0 {
		r.aux = &c18Aux{xout: ev.XOut, xbudget: ev.XBudget}
		ev.Budget -= ev.XBudget // the inputs' own budgets
	}
	r.newPublisher(ev.Est, ev.Relay, nil)
	r.nin = 0
	n := ev.NK + ev.NT
	if n < 1 {
		n = 1
		ev.NK = 1
	}
	if ev.MaxVb == 0 {
		ev.MaxVb = ev.MaxRate / 250 // schedules that give the maximum in sat/kw
	}
	r.newSweeper(ev.Deadline, ev.MaxVb, ev.Agg == 1)
	ck := byte('k')
	if ev.Dust == 330 {
		ck = 't'
	}
	r.change = c18Script(ck, 0x7777)
	total := ev.NR + n + ev.NA
	prev := func(i int) int64 {
		if i < len(ev.Prevs) {
			return ev.Prevs[i]
		}
		if i == 0 && len(ev.Prevs) == 0 && ev.Sopt > 0 { // schedules without per-input rates
			return ev.Sopt
		}
		return 0
	}
	bud := func(i int) int64 { // the budget spread over the inputs, the first one gets the remainder
		b := ev.Budget / int64(total)
		if i == 0 {
			b += ev.Budget % int64(total)
		}
		return b
	}
	left := ev.TotalIn - 330*int64(ev.NA)
	for i := 0; i < ev.NR; i++ {
		v := ev.ReqOut / int64(ev.NR)
		if i == 0 {
			v += ev.ReqOut % int64(ev.NR)
		}
		r.offer(r.mkInput('k', v, v), bud(i), prev(i))
		left -= v
	}
	for i := 0; i < n; i++ {
		v := left / int64(n)
		if i == 0 {
			v += left % int64(n)
		}
		k := byte('k')
		if i >= ev.NK {
			k = 't'
		}
		in := r.mkInput(k, v, -1)
		if r.aux != nil && i == 0 {
			r.aux.first = in.OutPoint()
		}
		r.offer(in, bud(ev.NR+i), prev(ev.NR+i))
	}
	for i := 0; i < ev.NA; i++ {
		r.offer(r.mkAnchor(ev.PW, ev.PF), bud(ev.NR+n+i), prev(ev.NR+n+i))
	}
	req, nwallet, ok := r.regroup()
	if !ok {
		return
	}
	r.install("Req", req, nwallet)
}

// doRetry offers the inputs of a failed attempt again with the fee rate the
// publisher handed back (UtxoSweeper.markInputsPublishFailed).
func (r *c18Run) doRetry() {
	if r.req == nil || r.rec == nil || r.set == nil || r.lastRes == nil || r.lastRes.Event != TxFailed ||
		r.lastRes.FeeRate == 0 {

		return
	}
	if _, ok := r.tp.records.Load(r.rec.requestID); ok {
		return
	}
	// the sweeper records the rate on every input of the failed set and groups
	// its pending inputs again
	r.sw.markInputsPublishFailed(r.set, r.lastRes.FeeRate)
	req, nwallet, ok := r.regroup()
	if !ok {
		r.rec = nil
		return
	}
	r.install("Retry", req, nwallet)
}

func (r *c18Run) done() {
	rec := r.base("Done")
	rec["event"] = "none"
	got := false
	select {
	case res := <-r.sub:
		got = true
		r.lastRes = res
		rec["event"] = res.Event.String()
		rec["err"] = c18Err(res.Err)
		rec["rate"] = int64(res.FeeRate)
		rec["fee"] = int64(res.Fee)
	default:
	}
	if f, ok := r.rec.feeFunction.(*c18FF); ok && f != nil {
		r.ffFields(rec, f.in)
	}
	r.out.Emit(rec)
	if got && r.afterDone != nil {
		r.afterDone()
	}
}

// doInit is handleInitialBroadcast + initializeTx, call by call.
func (r *c18Run) doInit(height int64, chk, pub []string) {
	if r.rec == nil || r.rec.tx != nil || r.rec.feeFunction != nil {
		return // only a fresh record gets an initial broadcast
	}
	if _, ok := r.tp.records.Load(r.rec.requestID); !ok {
		return
	}
	r.height = height
	r.chkAns, r.pubAns = chk, pub
	tp := r.tp
	tp.currentHeight.Store(int32(height))

	allowed, _ := r.req.MaxFeeRateAllowed()
	f, err := tp.initializeFeeFunction(r.req)
	rec := r.base("Init")
	rec["height"] = height
	rec["ct"] = int64(calcCurrentConfTarget(int32(height), r.req.DeadlineHeight))
	rec["maxallowed"] = int64(allowed)
	rec["err"] = c18Err(err)
	if err == nil {
		r.ffFields(rec, f.(*LinearFeeFunction))
	}
	r.out.Emit(rec)

	if err != nil {
		tp.handleInitialTxError(r.rec, fmt.Errorf("init fee function: %w", err))
		r.done()
		return
	}
	r.rec.feeFunction = &c18FF{run: r, in: f.(*LinearFeeFunction)}
	record, err := tp.createRBFCompliantTx(r.rec)
	if err != nil {
		tp.handleInitialTxError(r.rec, fmt.Errorf("create RBF-compliant tx: %w", err))
		r.done()
		return
	}
	result, err := tp.broadcast(record)
	if err != nil {
		result = &BumpResult{Event: TxFailed, Err: err, requestID: r.rec.requestID}
	}
	tp.handleResult(result)
	r.done()
}

// doBlock is one block for a monitored record: handleFeeBumpTx as is.
func (r *c18Run) doBlock(height int64, chk, pub []string) {
	if r.rec == nil || r.rec.tx == nil {
		return
	}
	if _, ok := r.tp.records.Load(r.rec.requestID); !ok {
		return
	}
	r.height = height
	r.chkAns, r.pubAns = chk, pub
	r.tp.currentHeight.Store(int32(height))
	r.tp.wg.Add(1)
	r.tp.handleFeeBumpTx(r.rec, int32(height))
	r.done()
}

func (r *c18Run) emitTx(a string, tx *wire.MsgTx, ans string) {
	rec := r.base(a)
	rec["ans"] = ans
	var tin, tout, change int64
	idx := map[wire.OutPoint]int{}
	for i, in := range r.req.Inputs {
		idx[in.OutPoint()] = i + 1
		tin += in.SignDesc().Output.Value
	}
	ins := []int{}
	for _, ti := range tx.TxIn {
		ins = append(ins, idx[ti.PreviousOutPoint]) // 0: not an input of the request
	}
	outs := [][]int64{}
	for _, o := range tx.TxOut {
		tout += o.Value
		outs = append(outs, []int64{o.Value, int64(lnwallet.DustLimitForSize(len(o.PkScript)))})
		if string(o.PkScript) == string(r.change) {
			change += o.Value
		}
	}
	rec["ins"] = ins
	rec["nin"] = len(r.req.Inputs)
	rec["outs"] = outs
	rec["nout"] = len(tx.TxOut)
	rec["fee"] = tin - tout
	rec["change"] = change
	if f, ok := r.rec.feeFunction.(*c18FF); ok && f != nil {
		rec["rate"] = int64(f.in.FeeRate())
		r.ffFields(rec, f.in)
	}
	r.out.Emit(rec)
}

// ---------------------------------------------------------------- replay

func c18Answers(evs []c18Event, from int) (chk, pub []string) {
	for j := from; j < len(evs); j++ {
		switch evs[j].A {
		case "Check":
			chk = append(chk, evs[j].Ans)
		case "Pub":
			pub = append(pub, evs[j].Ans)
		case "Done":
			return
		}
	}
	return
}

// TestVerifC18Replay replays TLC-generated behaviours (and the directed
// schedules) on the real code.
func TestVerifC18Replay(t *testing.T) {
	dir := os.Getenv("VERIF_SCHED")
	name := verifkit.Env("VERIF_TRACE", "trace.ndjson")
	out := verifkit.MustWriter(verifkit.Env("VERIF_OUT", ".") + "/" + name)
	defer out.Close()
	files := verifkit.ListFiles(dir, verifkit.Env("VERIF_PREFIX", "b_"), ".ndjson")
	if len(files) == 0 {
		t.Fatalf("no schedules in %q", dir)
	}
	for _, f := range files {
		evs, err := verifkit.ReadNDJSONInto[c18Event](f)
		if err != nil {
			t.Fatal(err)
		}
		r := &c18Run{t: t, out: out}
		rs := r.base("Reset")
		rs["file"] = f
		out.Emit(rs)
		for i, ev := range evs {
			switch ev.A {
			case "New":
				r.doNew(ev)
			case "Inc":
				if r.tp == nil {
					r.doInc()
				}
			case "Bump":
				if r.tp == nil {
					r.doBumpFF(ev.Ct)
				} else {
					chk, pub := c18Answers(evs, i+1)
					r.doBlock(ev.Height, chk, pub)
				}
			case "Req":
				r.doReq(ev)
			case "Retry":
				r.doRetry()
			case "Init":
				chk, pub := c18Answers(evs, i+1)
				r.doInit(ev.Height, chk, pub)
			}
		}
	}
}

// ---------------------------------------------------------------- free-running driver

func c18Pick(rng *rand.Rand, xs ...int64) int64 { return xs[rng.Intn(len(xs))] }

// walk drives one fee function with an arbitrary conf target pattern.
func (r *c18Run) walk(rng *rand.Rand, ct int64) {
	cur := ct
	steps := 3 + rng.Intn(12)
	if ct > 40 && rng.Intn(3) == 0 {
		steps = int(ct) + 3 // every block until past the deadline
	}
	for s := 0; s < steps; s++ {
		switch k := rng.Intn(10); {
		case k < 5: // next block(s): conf target decreases by 1..3, or by a big jump
			d := int64(1 + rng.Intn(3))
			if rng.Intn(8) == 0 {
				d = 1 + rng.Int63n(cur/2+1)
			}
			cur -= d
			if cur < 0 {
				cur = 0
			}
			r.doBumpFF(cur)
		case k < 6: // same block again
			r.doBumpFF(cur)
		case k < 7: // a conf target that went up (reorg / deadline update)
			r.doBumpFF(cur + int64(rng.Intn(4)))
		case k < 8: // a conf target beyond the width
			r.doBumpFF(ct + int64(rng.Intn(3)))
		default:
			r.doInc()
		}
		if steps > 40 && s%2 == 0 {
			cur--
			if cur < 0 {
				cur = 0
			}
			r.doBumpFF(cur)
		}
	}
	// the last two blocks before the deadline and the deadline itself
	for _, c := range []int64{1, 0} {
		if rng.Intn(2) == 0 {
			r.doBumpFF(c)
		}
	}
}

func (r *c18Run) freeFF(rng *rand.Rand, i int, all bool) {
	relay := c18Pick(rng, 253, 253, 253, 1000, 5000)
	var start, d int64
	start = relay + rng.Int63n(20000)
	switch rng.Intn(6) {
	case 0:
		d = rng.Int63n(5)
	case 1:
		d = rng.Int63n(2000)
	case 2:
		d = rng.Int63n(3000) * 500 // many exact .5 ties
	case 3:
		d = 1900000 - start + rng.Int63n(90000)
	default:
		d = rng.Int63n(1500000)
	}
	end := start + d
	var ct int64
	switch rng.Intn(5) {
	case 0:
		ct = rng.Int63n(4)
	case 1:
		ct = 1000 + rng.Int63n(12)
	case 2:
		ct = c18Pick(rng, 2, 3, 17, 49, 113, 145, 401, 1001) // widths dividing 1000*k often
	default:
		ct = rng.Int63n(1012)
	}
	roundClass := rng.Intn(12) == 0
	if roundClass {
		// the rounding class of the in-tree Alloy model: widths >= 1001 and a
		// difference d with 1000*d mod width in (500, width/2): delta is
		// rounded down and delta*width/1000 rounds to d-1, so that only the
		// "position >= width" shortcut makes the ceiling exact
		w := 1001 + rng.Int63n(10)
		roundClass = false
		for d0 := int64(1); d0 <= w; d0++ {
			if m := (1000 * d0) % w; m > 500 && 2*m < w {
				ct = w + 1
				d = d0 + w*rng.Int63n(300)
				end = start + d
				roundClass = true
				break
			}
		}
	}
	ev := c18Event{A: "New", MaxRate: end, Ct: ct, Sopt: start, Est: 0, Relay: relay}
	if !roundClass && rng.Intn(3) == 0 { // estimator instead of an explicit start
		ev.Sopt = -1
		ev.Est = c18Pick(rng, -1, relay-1, relay, start, end, end+1000, end/2+relay)
		if rng.Intn(4) == 0 { // a relay fee (mempool min fee) above the ending rate, near and far deadlines
			ev.MaxRate = relay - 1 - rng.Int63n(relay/2)
			ev.Ct = c18Pick(rng, ct, 2, 1007, 1008, 1009, 2016)
			ct = ev.Ct
		}
	}
	if all && !roundClass && rng.Intn(4) == 0 { // outside the main domain: explicit start beyond the ends
		ev.Sopt = c18Pick(rng, end+1+rng.Int63n(5000), relay-1-rng.Int63n(200))
	}
	rs := r.base("Reset")
	rs["file"] = fmt.Sprintf("freeff-%d", i)
	r.out.Emit(rs)
	r.ff = nil
	r.tp = nil
	r.doNew(ev)
	if roundClass {
		r.doBumpFF(ct - rng.Int63n(ct))
		r.doBumpFF(2)
		r.doBumpFF(1)
		r.doInc()
		return
	}
	r.walk(rng, ct)
}

// freePub: one request built the way the sweeper builds it (aggregator,
// input set, wallet top-up) and driven through blocks until past its deadline.
func (r *c18Run) freePub(rng *rand.Rand, i int, all bool) {
	rs := r.base("Reset")
	rs["file"] = fmt.Sprintf("freepub-%d", i)
	r.out.Emit(rs)
	r.ff = nil
	r.nin = 0

	relay := c18Pick(rng, 253, 253, 253, 500, 2000)
	est := c18Pick(rng, -1, relay-3, relay, relay+50, 3000, 40000, 900000)
	h0 := int64(700000 + rng.Intn(1000))
	ct0 := c18Pick(rng, 0, 1, 2, 3, 4, 6, 10, 25, 144, 1007, 1008, 1010)
	deadline := h0 + ct0
	maxVb := c18Pick(rng, 1000, 1000, 1000, 10, 80, 7600, 1, 2) // sweeper.maxfeerate in sat/vb; 1000 is lnd's default

	// wallet utxos for top-ups
	var utxos []*lnwallet.Utxo
	for k := rng.Intn(4); k > 0; k-- {
		r.nin++
		var h chainhash.Hash
		h[0], h[30] = byte(r.nin), 0xee
		at := lnwallet.WitnessPubKey
		pk := c18Script('k', 0x4000+r.nin)
		if rng.Intn(2) == 0 {
			at = lnwallet.TaprootPubkey
			pk = c18Script('t', 0x4000+r.nin)
		}
		utxos = append(utxos, &lnwallet.Utxo{AddressType: at, Value: btcutil.Amount(1000 + rng.Int63n(300000)),
			PkScript: pk, OutPoint: wire.OutPoint{Hash: h, Index: 1}})
	}
	// a node with custom channels: the aux sweeper adds an extra output to every
	// sweep tx and an extra budget to the set
	r.aux = nil
	if rng.Intn(6) == 0 {
		r.aux = &c18Aux{xout: c18Pick(rng, 330, 1000, 5000), xbudget: c18Pick(rng, 0, 7, 300)}
	}
	r.newPublisher(est, relay, utxos)

	// inputs offered to the sweeper
	nnorm := 1 + rng.Intn(3)
	if rng.Intn(4) == 0 {
		nnorm = 6 + rng.Intn(30)
	}
	nreq := 0
	if rng.Intn(3) == 0 {
		nreq = 1 + rng.Intn(3)
		if rng.Intn(3) == 0 {
			nnorm = 0
		}
	}
	r.newSweeper(deadline, maxVb, true)
	// the rate an input was offered before (a failed sweep of its own): none for
	// most, otherwise anything from the relay fee to far above the new ceiling
	prevRate := func() int64 {
		if rng.Intn(3) > 0 {
			return 0
		}
		return relay + rng.Int63n(c18Pick(rng, 50, 1000, 20000, 400000))
	}
	if rng.Intn(2) == 0 {
		prevRate = func() int64 { return 0 }
	}
	add := func(in input.Input, budget int64) {
		if r.aux != nil && r.aux.first == (wire.OutPoint{}) {
			r.aux.first = in.OutPoint()
		}
		r.offer(in, budget, prevRate())
	}
	r.change = c18Script(byte(c18Pick(rng, 'k', 't')), 0x7777)
	kinds := make([]byte, nnorm)
	for k := range kinds {
		kinds[k] = byte(c18Pick(rng, 'k', 'k', 't'))
	}
	// tuned: required outputs plus plain inputs worth just about the fee, so
	// that the change falls around the dust limit and the fee around the budget
	tuned := nreq > 0 && nnorm > 0 && nnorm <= 2 && rng.Intn(2) == 0
	var tunedVal, tunedBudget int64
	if tuned {
		var dummy []input.Input
		for _, k := range kinds {
			dummy = append(dummy, r.mkInput(k, 1000, -1))
		}
		for k := 0; k < nreq; k++ {
			dummy = append(dummy, r.mkInput('k', 1000, 1000))
		}
		w, err := calcSweepTxWeight(dummy, r.outScripts(dummy))
		if err != nil {
			r.t.Fatal(err)
		}
		if rng.Intn(3) > 0 {
			r.wallet.utxos = nil // nothing to top up with: the sweep goes ahead short of budget
		}
		rt := relay + rng.Int63n(4000)
		if rng.Intn(2) == 0 { // dust from the first tx on
			rt = relay + rng.Int63n(120)
			r.est.est = relay + c18Pick(rng, 0, 50)
		}
		fee := int64(chainfee.SatPerKWeight(rt).FeeForWeight(w))
		tunedVal = fee + rng.Int63n(700)
		tunedBudget = fee + rng.Int63n(900) - 150
	}
	for k := 0; k < nnorm; k++ {
		v := c18Pick(rng, 330, 600, 2000, 10000, 50000, 200000) + rng.Int63n(5000)
		b := v / c18Pick(rng, 2, 2, 3, 10, 1)
		if rng.Intn(6) == 0 {
			b = v + rng.Int63n(2000) // a budget above the input's value
		}
		if tuned {
			v = tunedVal / int64(nnorm)
			if k == 0 {
				v += tunedVal % int64(nnorm)
			}
			b = relay*300/1000 + 1 // just enough to pass the aggregator's filter
			tunedBudget -= b
		}
		add(r.mkInput(kinds[k], v, -1), b)
	}
	for k := 0; k < nreq; k++ {
		v := c18Pick(rng, 200, 330, 1000, 20000, 100000) + rng.Int63n(300)
		b := v / c18Pick(rng, 2, 4, 20)
		if tuned {
			v = 20000 + rng.Int63n(1000)
			if tunedBudget < int64(nreq) {
				tunedBudget = int64(nreq)
			}
			b = tunedBudget / int64(nreq)
			if k == 0 {
				b += tunedBudget % int64(nreq)
			}
		}
		add(r.mkInput('k', v, v), b)
	}

	// an anchor that carries the info of its unconfirmed parent (CPFP of a force
	// close): the parent pays nothing, less than the relay fee, a rate inside
	// the ramp, or more than the maximum
	// (not on a node with custom channels: every input offered there carries a
	// resolution blob, so that the aux sweeper has an output to add to any set)
	if !tuned && r.aux == nil && rng.Intn(3) == 0 {
		pw := c18Pick(rng, 724, 1116, 2500, 9000)
		prate := c18Pick(rng, 0, relay/2, relay+rng.Int63n(3000), 250*maxVb/2, 250*maxVb+1000)
		pf := int64(chainfee.SatPerKWeight(prate).FeeForWeight(lntypes.WeightUnit(pw)))
		add(r.mkAnchor(pw, pf), c18Pick(rng, 2000, 50000, 400000)+rng.Int63n(1000))
	}

	// what would the sweeper build now?  Used to move the budget of one input
	// so that the set's budget falls on a rounding boundary of budget/weight.
	req0, ok := r.dryRegroup()
	if !ok {
		return
	}
	w0, err := calcSweepTxWeight(req0.Inputs, r.outScripts(req0.Inputs))
	if err != nil {
		r.t.Fatal(err)
	}
	want := *req0
	// keep within the arithmetic range of the validator: rates <= 2*10^6 sat/kw
	if lim := btcutil.Amount(1900 * int64(w0)); want.Budget > lim {
		want.Budget = lim
	}
	// budgets on the rounding boundaries of budget/weight
	if !tuned && rng.Intn(3) == 0 {
		rate := relay + rng.Int63n(300000)
		want.Budget = chainfee.SatPerKWeight(rate).FeeForWeight(w0) + btcutil.Amount(rng.Intn(int(w0)/1000+3))
	}
	if !all {
		// the main domain: the ending rate the code computes is payable (see
		// SweepFee.tla, deviations)
		for k := 0; k < 50; k++ {
			a, _ := want.MaxFeeRateAllowed()
			if a.FeeForWeight(w0) <= want.Budget {
				break
			}
			want.Budget++
		}
	}
	if delta := want.Budget - req0.Budget; delta != 0 {
		// the pending input with the largest budget takes the difference
		var big *SweeperInput
		for _, in := range req0.Inputs {
			if pi, ok := r.sw.inputs[in.OutPoint()]; ok && (big == nil || pi.params.Budget > big.params.Budget) {
				big = pi
			}
		}
		if big == nil || big.params.Budget+delta < 1 {
			return
		}
		big.params.Budget += delta
	}

	req, nwallet, ok := r.regroup()
	if !ok {
		return
	}
	w, err := calcSweepTxWeight(req.Inputs, r.outScripts(req.Inputs))
	if err != nil {
		r.t.Fatal(err)
	}
	if req.Budget > btcutil.Amount(1900*int64(w)) {
		return
	}
	if !all {
		// the main domain: the ending rate the code computes is payable (see
		// SweepFee.tla, deviations); the floor may be above the ceiling
		a, _ := req.MaxFeeRateAllowed()
		if a.FeeForWeight(w) > req.Budget {
			return
		}
	}
	r.install("Req", req, nwallet)

	ans := func(n int) []string {
		var out []string
		for k := 0; k < n; k++ {
			out = append(out, []string{"ok", "ok", "ok", "ok", "ok", "ok", "lowfee", "lowfee", "minfee", "reject"}[rng.Intn(10)])
		}
		return out
	}
	pans := func() []string {
		if rng.Intn(12) == 0 {
			return []string{"fail"}
		}
		return nil
	}
	h := h0
	retries := 0
	r.doInit(h, ans(rng.Intn(4)), pans())
	for step := 0; step < 40; step++ {
		if r.rec == nil {
			return // nothing left to sweep after regrouping
		}
		if _, ok := r.tp.records.Load(r.rec.requestID); !ok {
			// the record is gone: the sweeper offers the inputs again
			if r.lastRes == nil || r.lastRes.Event != TxFailed || r.lastRes.FeeRate == 0 || retries >= 3 {
				return
			}
			retries++
			h += int64(rng.Intn(2))
			r.doRetry()
			r.doInit(h, ans(rng.Intn(3)), pans())
			continue
		}
		switch {
		case ct0 > 30 && step > 3 && h < deadline-2:
			h = deadline - int64(rng.Intn(4)) // jump close to the deadline
		case rng.Intn(6) == 0:
			h += int64(2 + rng.Intn(3)) // skipped heights
		case rng.Intn(10) == 0:
			// same height again
		default:
			h++
		}
		r.doBlock(h, ans(rng.Intn(2)), pans())
		if h > deadline+1 {
			return
		}
	}
}

// TestVerifC18Free is the seeded free-running driver.
func TestVerifC18Free(t *testing.T) {
	out := verifkit.MustWriter(verifkit.Env("VERIF_OUT", ".") + "/free.ndjson")
	defer out.Close()
	rng := rand.New(rand.NewSource(verifkit.Seed()*7919 + 18))
	all := os.Getenv("VERIF_C18_DOMAIN") == "all"
	r := &c18Run{t: t, out: out}
	nff := verifkit.EnvInt("VERIF_NFF", 300)
	npub := verifkit.EnvInt("VERIF_NPUB", 300)
	for i := 0; i < nff; i++ {
		r.freeFF(rng, i, all)
	}
	for i := 0; i < npub; i++ {
		r.freePub(rng, i, all)
	}
}
