//go:build verif

package routing

import (
	"crypto/sha256"
	"fmt"
	"math"
	"os"
	"sort"
	"testing"

	"github.com/btcsuite/btcd/btcec/v2"
	"github.com/btcsuite/btcd/btcutil/v2"
	"github.com/lightningnetwork/lnd/internal/verifkit"
	"github.com/lightningnetwork/lnd/lnwire"
	"github.com/lightningnetwork/lnd/routing/route"
	"github.com/lightningnetwork/lnd/zpay32"
)

// c19Pol is one directed channel policy of a generated graph
// (spec/Route/Route.tla).  Amounts are msat.
type c19Pol struct {
	ID       uint64 `json:"id"`
	From     string `json:"from"`
	To       string `json:"to"`
	Cap      int64  `json:"cap"`
	Bw       int64  `json:"bw"`
	MinHtlc  int64  `json:"minHtlc"`
	MaxHtlc  int64  `json:"maxHtlc"`
	Base     int64  `json:"base"`
	Rate     int64  `json:"rate"`
	InBase   int64  `json:"inBase"`
	InRate   int64  `json:"inRate"`
	Delta    int64  `json:"delta"`
	Disabled int64  `json:"disabled"`

	// Rh is set on hop hints only: the index of the route hint (chain of
	// hop hints in forward order) the hop hint belongs to.
	Rh int64 `json:"rh,omitempty"`
}

// c19Req is one request; -1 means "no limit", empty means "unrestricted".
type c19Req struct {
	Src        string     `json:"src"`
	Dst        string     `json:"dst"`
	Amt        int64      `json:"amt"`
	FeeLimit   int64      `json:"feeLimit"`
	CltvLimit  int64      `json:"cltvLimit"`
	OutChans   []uint64   `json:"outChans"`
	LastHop    string     `json:"lastHop"`
	IgnNodes   []string   `json:"ignNodes"`
	IgnPairs   [][]string `json:"ignPairs"`
	Hints      []c19Pol   `json:"hints"`
	FinalDelta int64      `json:"finalDelta"`
	Height     int64      `json:"height"`
}

type c19Line struct {
	A     string   `json:"a"`
	Graph []c19Pol `json:"graph"`
	Req   *c19Req  `json:"req"`
}

// c19n keeps a recorded number inside TLC's 32-bit integers; a saturated
// value can only come from a broken route and is far outside every bound of
// the generated universe.
func c19n(v int64) int64 {
	const lim = 2000000000
	if v > lim {
		return lim
	}
	if v < -lim {
		return -lim
	}
	return v
}

// c19Private holds the keys of aliases that are not part of the graph
// (private nodes behind route hints, unknown nodes in restrictions).
var c19Private = map[string]route.Vertex{}

// c19Vertex returns the vertex of an alias; aliases that are not part of the
// graph get a (valid) public key of their own.
func c19Vertex(g *testGraphInstance, alias string) route.Vertex {
	if v, ok := g.aliasMap[alias]; ok {
		return v
	}
	if v, ok := c19Private[alias]; ok {
		return v
	}
	seed := sha256.Sum256([]byte("verif-private-node-" + alias))
	_, pub := btcec.PrivKeyFromBytes(seed[:])
	v := route.NewVertex(pub)
	c19Private[alias] = v

	return v
}

func c19Alias(g *testGraphInstance, v route.Vertex) string {
	for alias, key := range g.aliasMap {
		if key == v {
			return alias
		}
	}
	for alias, key := range c19Private {
		if key == v {
			return alias
		}
	}
	return fmt.Sprintf("?%x", v[:4])
}

func c19Policy(p *c19Pol) *testChannelPolicy {
	if p == nil {
		return nil
	}
	return &testChannelPolicy{
		Expiry:             uint16(p.Delta),
		MinHTLC:            lnwire.MilliSatoshi(p.MinHtlc),
		MaxHTLC:            lnwire.MilliSatoshi(p.MaxHtlc),
		FeeBaseMsat:        lnwire.MilliSatoshi(p.Base),
		FeeRate:            lnwire.MilliSatoshi(p.Rate),
		InboundFeeBaseMsat: p.InBase,
		InboundFeeRate:     p.InRate,
		Disabled:           p.Disabled != 0,
	}
}

// TestVerifC19Route builds every TLC-generated graph with the package's own
// fixture (createTestGraphFromChannels: a real graph DB, with and without the
// graph cache), answers the generated requests with the real findPath +
// newRoute exactly as ChannelRouter.FindRoute composes them, and records the
// returned route field by field.  It contains no judgement: RouteTrace.tla
// decides whether a recorded route is valid.
func TestVerifC19Route(t *testing.T) {
	dir := os.Getenv("VERIF_SCHED")
	out := verifkit.MustWriter(verifkit.Env("VERIF_OUT", ".") + "/trace.ndjson")
	defer out.Close()

	files := verifkit.ListFiles(dir, "b_", ".ndjson")
	if len(files) == 0 {
		t.Fatalf("no schedules in %q", dir)
	}
	found, none := 0, 0
	for fi, f := range files {
		lines, err := verifkit.ReadNDJSONInto[c19Line](f)
		if err != nil {
			t.Fatal(err)
		}
		if len(lines) == 0 || lines[0].A != "Graph" {
			t.Fatalf("%s: first line is not a Graph", f)
		}
		useCache := (fi+int(verifkit.Seed()))%2 == 0
		t.Run(fmt.Sprintf("g%d", fi), func(t *testing.T) {
			a, b := c19RunGraph(t, out, f, lines, useCache)
			found += a
			none += b
		})
	}
	t.Logf("C19: graphs=%d routes=%d noroute=%d", len(files), found, none)
}

func c19RunGraph(t *testing.T, out *verifkit.Writer, file string,
	lines []c19Line, useCache bool) (int, int) {

	graph := lines[0].Graph
	src := "a"
	for _, l := range lines[1:] {
		if l.Req != nil {
			src = l.Req.Src
			break
		}
	}

	// Group the directed policies by channel.
	type pair struct{ recs []*c19Pol }
	chans := map[uint64]*pair{}
	var ids []uint64
	for i := range graph {
		p := &graph[i]
		if _, ok := chans[p.ID]; !ok {
			chans[p.ID] = &pair{}
			ids = append(ids, p.ID)
		}
		chans[p.ID].recs = append(chans[p.ID].recs, p)
	}
	sort.Slice(ids, func(i, j int) bool { return ids[i] < ids[j] })

	var tcs []*testChannel
	hints := map[uint64]lnwire.MilliSatoshi{}
	for _, id := range ids {
		recs := chans[id].recs
		n1, n2 := recs[0].From, recs[0].To
		var p1, p2 *c19Pol
		for _, r := range recs {
			switch r.From {
			case n1:
				p1 = r
			case n2:
				p2 = r
			}
		}
		tcs = append(tcs, asymmetricTestChannel(
			n1, n2, btcutil.Amount(recs[0].Cap/1000),
			c19Policy(p1), c19Policy(p2), id,
		))

		// Local bandwidth: the spendable balance of the source's own
		// channels, as the switch would report it.
		for _, r := range recs {
			if r.To == src {
				hints[id] = lnwire.MilliSatoshi(r.Bw)
			}
		}
		for _, r := range recs {
			if r.From == src {
				hints[id] = lnwire.MilliSatoshi(r.Bw)
			}
		}
	}

	ctx := newPathFindingTestContext(t, useCache, tcs, src)
	ctx.bandwidthHints = &mockBandwidthHints{hints: hints}
	g := ctx.testGraphInstance

	cache := 0
	if useCache {
		cache = 1
	}
	out.Emit(verifkit.Rec{
		"a": "Graph", "graph": graph, "file": file, "cache": cache,
	})

	found, none := 0, 0
	for _, l := range lines[1:] {
		if l.A != "Query" || l.Req == nil {
			continue
		}
		q := l.Req
		if q.OutChans == nil {
			q.OutChans = []uint64{}
		}
		if q.IgnNodes == nil {
			q.IgnNodes = []string{}
		}
		if q.IgnPairs == nil {
			q.IgnPairs = [][]string{}
		}
		if q.Hints == nil {
			q.Hints = []c19Pol{}
		}
		res := c19Query(ctx, g, q)
		if res["found"] == 1 {
			found++
		} else {
			none++
		}
		out.Emit(verifkit.Rec{"a": "Query", "req": q, "res": res})
	}

	return found, none
}

func c19NoRoute(err string) verifkit.Rec {
	return verifkit.Rec{
		"found": 0, "err": err, "src": "", "totalAmt": 0, "totalTL": 0,
		"totalFees": 0, "recvAmt": 0, "payload": 0,
		"hops": []verifkit.Rec{},
	}
}

// c19Query answers one request the way ChannelRouter.FindRoute does:
// findPath with finalHtlcExpiry = height + final delta, then newRoute.  The
// restrictions are translated as lnrpc/routerrpc does it: the user-level CLTV
// limit includes the final delta, which is subtracted before path finding;
// ignored nodes and pairs become a probability of zero; everything else has
// probability one (no mission control).
func c19Query(ctx *pathFindingTestContext, g *testGraphInstance,
	q *c19Req) verifkit.Rec {

	source := c19Vertex(g, q.Src)
	target := c19Vertex(g, q.Dst)
	amt := lnwire.MilliSatoshi(q.Amt)

	feeLimit := noFeeLimit
	if q.FeeLimit >= 0 {
		feeLimit = lnwire.MilliSatoshi(q.FeeLimit)
	}
	cltvLimit := uint32(math.MaxUint32)
	if q.CltvLimit >= 0 {
		err := ValidateCLTVLimit(
			uint32(q.CltvLimit), uint16(q.FinalDelta), false,
		)
		if err != nil {
			return c19NoRoute("cltv limit: " + err.Error())
		}
		cltvLimit = uint32(q.CltvLimit) - uint32(q.FinalDelta)
	}

	ignoredNodes := map[route.Vertex]struct{}{}
	for _, n := range q.IgnNodes {
		ignoredNodes[c19Vertex(g, n)] = struct{}{}
	}
	ignoredPairs := map[DirectedNodePair]struct{}{}
	for _, p := range q.IgnPairs {
		ignoredPairs[DirectedNodePair{
			From: c19Vertex(g, p[0]), To: c19Vertex(g, p[1]),
		}] = struct{}{}
	}

	restr := RestrictParams{
		FeeLimit:  feeLimit,
		CltvLimit: cltvLimit,
		ProbabilitySource: func(from, to route.Vertex,
			_ lnwire.MilliSatoshi, _ btcutil.Amount) float64 {

			if _, ok := ignoredNodes[from]; ok {
				return 0
			}
			pair := DirectedNodePair{From: from, To: to}
			if _, ok := ignoredPairs[pair]; ok {
				return 0
			}

			return 1
		},
	}
	if len(q.OutChans) > 0 {
		restr.OutgoingChannelIDs = q.OutChans
	}
	if q.LastHop != "" {
		lh := c19Vertex(g, q.LastHop)
		restr.LastHop = &lh
	}

	// Route hints of the invoice: the hop hints are grouped into route
	// hints (chains in forward order) and converted into additional edges
	// by the real RouteHintsToEdges, as newPaymentSession and QueryRoutes
	// do.
	var hints map[route.Vertex][]AdditionalEdge
	if len(q.Hints) > 0 {
		var (
			routeHints [][]zpay32.HopHint
			order      []int64
			byRh       = map[int64][]c19Pol{}
		)
		for _, h := range q.Hints {
			if _, ok := byRh[h.Rh]; !ok {
				order = append(order, h.Rh)
			}
			byRh[h.Rh] = append(byRh[h.Rh], h)
		}
		for _, rh := range order {
			var chain []zpay32.HopHint
			for i, h := range byRh[rh] {
				// The schedule must be a chain that ends at
				// the target (a malformed schedule is a
				// generator error, not a verdict).
				next := q.Dst
				if i+1 < len(byRh[rh]) {
					next = byRh[rh][i+1].From
				}
				if h.To != next {
					panic(fmt.Sprintf("c19: hop hint %d of "+
						"route hint %d leads to %s, not %s",
						i, rh, h.To, next))
				}
				from := c19Vertex(g, h.From)
				pub, err := btcec.ParsePubKey(from[:])
				if err != nil {
					panic(err)
				}
				chain = append(chain, zpay32.HopHint{
					NodeID:                    pub,
					ChannelID:                 h.ID,
					FeeBaseMSat:               uint32(h.Base),
					FeeProportionalMillionths: uint32(h.Rate),
					CLTVExpiryDelta:           uint16(h.Delta),
				})
			}
			routeHints = append(routeHints, chain)
		}
		var err error
		hints, err = RouteHintsToEdges(routeHints, target)
		if err != nil {
			return c19NoRoute("RouteHintsToEdges: " + err.Error())
		}
	}

	cfg := *testPathFindingConfig
	height := uint32(q.Height)
	finalExpiry := int32(q.Height) + int32(q.FinalDelta)

	path, err := dbFindPath(
		ctx.v1Graph, hints, ctx.bandwidthHints, &restr, &cfg, source,
		target, amt, 0, finalExpiry,
	)
	if err != nil {
		return c19NoRoute("findPath: " + err.Error())
	}

	rt, err := newRoute(source, path, height, finalHopParams{
		amt:       amt,
		totalAmt:  amt,
		cltvDelta: uint16(q.FinalDelta),
	}, nil)
	if err != nil {
		return c19NoRoute("newRoute: " + err.Error())
	}

	payload := int64(0)
	sp, err := rt.ToSphinxPath()
	if err != nil {
		payload = 1 << 30
	} else {
		payload = int64(sp.TotalPayloadSize())
	}

	hops := make([]verifkit.Rec, 0, len(rt.Hops))
	for i, h := range rt.Hops {
		hops = append(hops, verifkit.Rec{
			"chan": h.ChannelID,
			"to":   c19Alias(g, h.PubKeyBytes),
			"amt":  c19n(int64(h.AmtToForward)),
			"tl":   c19n(int64(h.OutgoingTimeLock)),
			"fee":  c19n(int64(rt.HopFee(i))),
		})
	}

	return verifkit.Rec{
		"found":     1,
		"err":       "",
		"src":       c19Alias(g, rt.SourcePubKey),
		"totalAmt":  c19n(int64(rt.TotalAmount)),
		"totalTL":   c19n(int64(rt.TotalTimeLock)),
		"totalFees": c19n(int64(rt.TotalFees())),
		"recvAmt":   c19n(int64(rt.ReceiverAmt())),
		"payload":   payload,
		"hops":      hops,
	}
}
