//go:build verif

package routing

import (
	"context"
	"crypto/sha256"
	"fmt"
	"math"
	"os"
	"sort"
	"testing"

	"github.com/btcsuite/btcd/btcec/v2"
	"github.com/btcsuite/btcd/btcutil/v2"
	sphinx "github.com/lightningnetwork/lightning-onion"
	"github.com/lightningnetwork/lnd/fn/v2"
	"github.com/lightningnetwork/lnd/htlcswitch"
	"github.com/lightningnetwork/lnd/internal/verifkit"
	"github.com/lightningnetwork/lnd/lntypes"
	"github.com/lightningnetwork/lnd/lnwire"
	paymentsdb "github.com/lightningnetwork/lnd/payments/db"
	"github.com/lightningnetwork/lnd/record"
	"github.com/lightningnetwork/lnd/routing/route"
	"github.com/lightningnetwork/lnd/tlv"
	"github.com/lightningnetwork/lnd/zpay32"
)

// c19Pol is one directed channel policy of a generated graph
// (spec/Route/Route.tla).  Amounts are msat.
type c19Pol struct {
	ID       uint64 `json:"id"`
	From     string `json:"from"`
	To       string `json:"to"`
	Cap      int64  `json:"cap"`
	Bw       int64  `json:"bw"`
	MinHtlc  int64  `json:"minHtlc"`
	MaxHtlc  int64  `json:"maxHtlc"`
	Base     int64  `json:"base"`
	Rate     int64  `json:"rate"`
	InBase   int64  `json:"inBase"`
	InRate   int64  `json:"inRate"`
	Delta    int64  `json:"delta"`
	Disabled int64  `json:"disabled"`

	// Rh is set on hop hints only: the index of the route hint (chain of
	// hop hints in forward order) the hop hint belongs to.
	Rh int64 `json:"rh,omitempty"`
}

// c19TLV is a custom record [type, length of the value].
type c19TLV struct {
	T uint64 `json:"t"`
	N int64  `json:"n"`
}

// c19Req is one request (Route.tla, "A request is"); -1 means "no limit" /
// "absent", empty means "unrestricted".
type c19Req struct {
	Via        string     `json:"via"`
	Self       string     `json:"self"`
	Src        string     `json:"src"`
	Dst        string     `json:"dst"`
	Amt        int64      `json:"amt"`
	FeeLimit   int64      `json:"feeLimit"`
	CltvLimit  int64      `json:"cltvLimit"`
	OutChans   []uint64   `json:"outChans"`
	LastHop    string     `json:"lastHop"`
	IgnNodes   []string   `json:"ignNodes"`
	IgnPairs   [][]string `json:"ignPairs"`
	Hints      []c19Pol   `json:"hints"`
	Nodes      []string   `json:"nodes"`
	FinalDelta int64      `json:"finalDelta"`
	Height     int64      `json:"height"`

	// Final-hop payload ingredients and multi-part settings.
	Pay      int64    `json:"pay"`
	PayAddr  int64    `json:"payAddr"`
	Meta     int64    `json:"meta"`
	Recs     []c19TLV `json:"recs"`
	FhRecs   int64    `json:"fhRecs"`
	Enc      int64    `json:"enc"`
	MppDest  int64    `json:"mppDest"`
	MaxParts int64    `json:"maxParts"`
	Shards   int64    `json:"shards"`
	MaxShard int64    `json:"maxShard"`
	MinShard int64    `json:"minShard"`
}

type c19Line struct {
	A     string   `json:"a"`
	Fam   string   `json:"fam"`
	Graph []c19Pol `json:"graph"`
	Req   *c19Req  `json:"req"`
}

// c19n keeps a recorded number inside TLC's 32-bit integers; a saturated
// value can only come from a broken route and is far outside every bound of
// the generated universe.
func c19n(v int64) int64 {
	const lim = 2000000000
	if v > lim {
		return lim
	}
	if v < -lim {
		return -lim
	}
	return v
}

// c19Private holds the keys of aliases that are not part of the graph
// (private nodes behind route hints, unknown nodes in restrictions).
var c19Private = map[string]route.Vertex{}

// c19Vertex returns the vertex of an alias; aliases that are not part of the
// graph get a (valid) public key of their own.
func c19Vertex(g *testGraphInstance, alias string) route.Vertex {
	if v, ok := g.aliasMap[alias]; ok {
		return v
	}
	if v, ok := c19Private[alias]; ok {
		return v
	}
	seed := sha256.Sum256([]byte("verif-private-node-" + alias))
	_, pub := btcec.PrivKeyFromBytes(seed[:])
	v := route.NewVertex(pub)
	c19Private[alias] = v

	return v
}

func c19Alias(g *testGraphInstance, v route.Vertex) string {
	for alias, key := range g.aliasMap {
		if key == v {
			return alias
		}
	}
	for alias, key := range c19Private {
		if key == v {
			return alias
		}
	}
	return fmt.Sprintf("?%x", v[:4])
}

func c19Policy(p *c19Pol) *testChannelPolicy {
	if p == nil {
		return nil
	}
	return &testChannelPolicy{
		Expiry:             uint16(p.Delta),
		MinHTLC:            lnwire.MilliSatoshi(p.MinHtlc),
		MaxHTLC:            lnwire.MilliSatoshi(p.MaxHtlc),
		FeeBaseMsat:        lnwire.MilliSatoshi(p.Base),
		FeeRate:            lnwire.MilliSatoshi(p.Rate),
		InboundFeeBaseMsat: p.InBase,
		InboundFeeRate:     p.InRate,
		Disabled:           p.Disabled != 0,
	}
}

// c19Ctx is what the entry points of one graph are served from.
type c19Ctx struct {
	g      *testGraphInstance
	self   route.Vertex
	hints  bandwidthHints
	router *ChannelRouter
	height uint32
}

// c19MC stands in for mission control: every pair has probability one, except
// the ignored nodes and pairs of the request being served (lnrpc/routerrpc
// translates ignored nodes / pairs into a zero probability in the same way).
type c19MC struct {
	nodes map[route.Vertex]struct{}
	pairs map[DirectedNodePair]struct{}
}

func (m *c19MC) ReportPaymentFail(uint64, *route.Route, *int,
	lnwire.FailureMessage) (*paymentsdb.FailureReason, error) {

	return nil, nil
}

func (m *c19MC) ReportPaymentSuccess(uint64, *route.Route) error {
	return nil
}

func (m *c19MC) GetProbability(from, to route.Vertex, _ lnwire.MilliSatoshi,
	_ btcutil.Amount) float64 {

	if _, ok := m.nodes[from]; ok {
		return 0
	}
	if _, ok := m.pairs[DirectedNodePair{From: from, To: to}]; ok {
		return 0
	}

	return 1
}

// TestVerifC19Route builds every TLC-generated graph with the package's own
// fixture (createTestGraphFromChannels: a real graph DB, with and without the
// graph cache) and answers the generated requests through the entry point
// each request names: findPath + newRoute composed as FindRoute does,
// ChannelRouter.FindRoute (also from a foreign source),
// paymentSession.RequestRoute (payment metadata, payment secret, custom
// records, multi-part settings) or ChannelRouter.BuildRoute.  The returned
// route is recorded field by field together with the payload records of every
// hop and the size oracles (serialized payload bytes, sphinx.NewOnionPacket).
// It contains no judgement: RouteTrace.tla decides whether a recorded route
// is valid.
func TestVerifC19Route(t *testing.T) {
	dir := os.Getenv("VERIF_SCHED")
	out := verifkit.MustWriter(verifkit.Env("VERIF_OUT", ".") + "/trace.ndjson")
	defer out.Close()

	files := verifkit.ListFiles(dir, "b_", ".ndjson")
	if len(files) == 0 {
		t.Fatalf("no schedules in %q", dir)
	}
	found, none := 0, 0
	for fi, f := range files {
		lines, err := verifkit.ReadNDJSONInto[c19Line](f)
		if err != nil {
			t.Fatal(err)
		}
		if len(lines) == 0 || lines[0].A != "Graph" {
			t.Fatalf("%s: first line is not a Graph", f)
		}
		useCache := (fi+int(verifkit.Seed()))%2 == 0
		t.Run(fmt.Sprintf("g%d", fi), func(t *testing.T) {
			a, b := c19RunGraph(t, out, f, lines, useCache)
			found += a
			none += b
		})
	}
	t.Logf("C19: graphs=%d routes=%d noroute=%d", len(files), found, none)
}

func c19RunGraph(t *testing.T, out *verifkit.Writer, file string,
	lines []c19Line, useCache bool) (int, int) {

	graph := lines[0].Graph

	// The node that runs the pathfinder, and the height it is at.
	self, height := "a", int64(100)
	for _, l := range lines[1:] {
		if l.Req != nil {
			self, height = l.Req.Self, l.Req.Height
			break
		}
	}

	// Group the directed policies by channel.
	type pair struct{ recs []*c19Pol }
	chans := map[uint64]*pair{}
	var ids []uint64
	for i := range graph {
		p := &graph[i]
		if _, ok := chans[p.ID]; !ok {
			chans[p.ID] = &pair{}
			ids = append(ids, p.ID)
		}
		chans[p.ID].recs = append(chans[p.ID].recs, p)
	}
	sort.Slice(ids, func(i, j int) bool { return ids[i] < ids[j] })

	var tcs []*testChannel
	hints := map[uint64]lnwire.MilliSatoshi{}
	for _, id := range ids {
		recs := chans[id].recs
		n1, n2 := recs[0].From, recs[0].To
		var p1, p2 *c19Pol
		for _, r := range recs {
			switch r.From {
			case n1:
				p1 = r
			case n2:
				p2 = r
			}
		}
		tcs = append(tcs, asymmetricTestChannel(
			n1, n2, btcutil.Amount(recs[0].Cap/1000),
			c19Policy(p1), c19Policy(p2), id,
		))

		// Local bandwidth: the spendable balance of the pathfinding
		// node's own channels, as the switch would report it.
		for _, r := range recs {
			if r.To == self {
				hints[id] = lnwire.MilliSatoshi(r.Bw)
			}
		}
		for _, r := range recs {
			if r.From == self {
				hints[id] = lnwire.MilliSatoshi(r.Bw)
			}
		}
	}

	g, err := createTestGraphFromChannels(t, useCache, tcs, self)
	if err != nil {
		t.Fatalf("%s: graph: %v", file, err)
	}

	// The links of the pathfinding node report the generated bandwidth
	// (FindRoute, RequestRoute and BuildRoute query them through the real
	// bandwidth manager; findPath is given the same numbers as hints).
	for id, bw := range hints {
		g.links[lnwire.NewShortChanIDFromInt(id)] = &mockLink{
			bandwidth: bw,
		}
	}

	ctx := &c19Ctx{
		g:      g,
		self:   g.aliasMap[self],
		hints:  &mockBandwidthHints{hints: hints},
		height: uint32(height),
	}

	// A ChannelRouter with the configuration FindRoute and BuildRoute
	// read: own node, graph, chain height, link lookup.
	ctx.router = &ChannelRouter{cfg: &Config{
		SelfNode:          ctx.self,
		RoutingGraph:      g.v1Graph,
		Chain:             newMockChain(ctx.height),
		GetLink:           g.getLink,
		PathFindingConfig: *testPathFindingConfig,
		TrafficShaper:     fn.None[htlcswitch.AuxTrafficShaper](),
	}}

	cache := 0
	if useCache {
		cache = 1
	}
	fam := lines[0].Fam
	if fam == "" {
		fam = "rand"
	}
	out.Emit(verifkit.Rec{
		"a": "Graph", "fam": fam, "graph": graph, "file": file,
		"cache": cache,
	})

	found, none := 0, 0
	for _, l := range lines[1:] {
		if l.A != "Query" || l.Req == nil {
			continue
		}
		q := l.Req
		if q.OutChans == nil {
			q.OutChans = []uint64{}
		}
		if q.IgnNodes == nil {
			q.IgnNodes = []string{}
		}
		if q.IgnPairs == nil {
			q.IgnPairs = [][]string{}
		}
		if q.Hints == nil {
			q.Hints = []c19Pol{}
		}
		if q.Nodes == nil {
			q.Nodes = []string{}
		}
		if q.Recs == nil {
			q.Recs = []c19TLV{}
		}
		res := c19Query(ctx, q)
		if res["found"] == 1 {
			found++
		} else {
			none++
		}
		out.Emit(verifkit.Rec{"a": "Query", "req": q, "res": res})
	}

	return found, none
}

func c19NoRoute(err string) verifkit.Rec {
	return verifkit.Rec{
		"found": 0, "err": err, "src": "", "totalAmt": 0, "totalTL": 0,
		"totalFees": 0, "recvAmt": 0, "packed": 0, "onionOk": 0,
		"hops": []verifkit.Rec{},
	}
}

// c19RouteHints converts the hop hints of a request into zpay32 route hints
// (chains in forward order).
func c19RouteHints(g *testGraphInstance, q *c19Req) [][]zpay32.HopHint {
	var (
		routeHints [][]zpay32.HopHint
		order      []int64
		byRh       = map[int64][]c19Pol{}
	)
	for _, h := range q.Hints {
		if _, ok := byRh[h.Rh]; !ok {
			order = append(order, h.Rh)
		}
		byRh[h.Rh] = append(byRh[h.Rh], h)
	}
	for _, rh := range order {
		var chain []zpay32.HopHint
		for i, h := range byRh[rh] {
			// The schedule must be a chain that ends at the
			// target (a malformed schedule is a generator error,
			// not a verdict).
			next := q.Dst
			if i+1 < len(byRh[rh]) {
				next = byRh[rh][i+1].From
			}
			if h.To != next {
				panic(fmt.Sprintf("c19: hop hint %d of route "+
					"hint %d leads to %s, not %s", i, rh,
					h.To, next))
			}
			from := c19Vertex(g, h.From)
			pub, err := btcec.ParsePubKey(from[:])
			if err != nil {
				panic(err)
			}
			chain = append(chain, zpay32.HopHint{
				NodeID:                    pub,
				ChannelID:                 h.ID,
				FeeBaseMSat:               uint32(h.Base),
				FeeProportionalMillionths: uint32(h.Rate),
				CLTVExpiryDelta:           uint16(h.Delta),
			})
		}
		routeHints = append(routeHints, chain)
	}

	return routeHints
}

// c19Blinded builds an introduction-node-only blinded path to the target
// whose encrypted recipient data has the requested length.
func c19Blinded(g *testGraphInstance, q *c19Req) (*BlindedPaymentPathSet,
	error) {

	target := c19Vertex(g, q.Dst)
	intro, err := btcec.ParsePubKey(target[:])
	if err != nil {
		return nil, err
	}
	seed := sha256.Sum256([]byte("verif-blinding-point"))
	_, blinding := btcec.PrivKeyFromBytes(seed[:])

	return NewBlindedPaymentPathSet([]*BlindedPayment{{
		BlindedPath: &sphinx.BlindedPath{
			IntroductionPoint: intro,
			BlindingPoint:     blinding,
			BlindedHops: []*sphinx.BlindedHopInfo{{
				BlindedNodePub: intro,
				CipherText:     make([]byte, q.Enc),
			}},
		},
		CltvExpiryDelta: uint16(q.FinalDelta),
		HtlcMaximum:     math.MaxUint32,
	}})
}

func c19Features(q *c19Req) *lnwire.FeatureVector {
	bits := []lnwire.FeatureBit{
		lnwire.TLVOnionPayloadRequired, lnwire.PaymentAddrOptional,
	}
	if q.MppDest == 1 {
		bits = append(bits, lnwire.MPPOptional)
	}

	return lnwire.NewFeatureVector(
		lnwire.NewRawFeatureVector(bits...), lnwire.Features,
	)
}

// c19Query answers one request through the entry point it names.  The
// restrictions are translated as lnrpc/routerrpc does it: the user-level CLTV
// limit includes the final delta (the payment session subtracts it itself);
// ignored nodes and pairs become a probability of zero; everything else has
// probability one (no mission control).
func c19Query(ctx *c19Ctx, q *c19Req) verifkit.Rec {
	g := ctx.g
	source := c19Vertex(g, q.Src)
	target := c19Vertex(g, q.Dst)
	amt := lnwire.MilliSatoshi(q.Amt)

	feeLimit := noFeeLimit
	if q.FeeLimit >= 0 {
		feeLimit = lnwire.MilliSatoshi(q.FeeLimit)
	}

	mc := &c19MC{
		nodes: map[route.Vertex]struct{}{},
		pairs: map[DirectedNodePair]struct{}{},
	}
	for _, n := range q.IgnNodes {
		mc.nodes[c19Vertex(g, n)] = struct{}{}
	}
	for _, p := range q.IgnPairs {
		mc.pairs[DirectedNodePair{
			From: c19Vertex(g, p[0]), To: c19Vertex(g, p[1]),
		}] = struct{}{}
	}

	var lastHop *route.Vertex
	if q.LastHop != "" {
		lh := c19Vertex(g, q.LastHop)
		lastHop = &lh
	}

	var customRecs record.CustomSet
	if len(q.Recs) > 0 {
		customRecs = record.CustomSet{}
		for _, r := range q.Recs {
			customRecs[r.T] = make([]byte, r.N)
		}
	}

	routeHints := c19RouteHints(g, q)

	var (
		blinded *BlindedPaymentPathSet
		err     error
	)
	if q.Enc >= 0 {
		blinded, err = c19Blinded(g, q)
		if err != nil {
			return c19NoRoute("blinded path: " + err.Error())
		}
	}

	var rt *route.Route
	switch q.Via {
	case "findPath", "FindRoute":
		cltvLimit := uint32(math.MaxUint32)
		if q.CltvLimit >= 0 {
			err := ValidateCLTVLimit(
				uint32(q.CltvLimit), uint16(q.FinalDelta),
				false,
			)
			if err != nil {
				return c19NoRoute("cltv limit: " + err.Error())
			}
			cltvLimit = uint32(q.CltvLimit) - uint32(q.FinalDelta)
		}
		restr := &RestrictParams{
			FeeLimit:              feeLimit,
			CltvLimit:             cltvLimit,
			ProbabilitySource:     mc.GetProbability,
			LastHop:               lastHop,
			DestCustomRecords:     customRecs,
			BlindedPaymentPathSet: blinded,
		}
		if len(q.OutChans) > 0 {
			restr.OutgoingChannelIDs = q.OutChans
		}
		if customRecs != nil {
			restr.DestFeatures = c19Features(q)
		}

		if q.Via == "FindRoute" {
			var hints RouteHints
			if len(routeHints) > 0 {
				hints, err = RouteHintsToEdges(
					routeHints, target,
				)
				if err != nil {
					return c19NoRoute("RouteHintsToEdges: " +
						err.Error())
				}
			}
			var (
				tgt   = &target
				final = uint16(q.FinalDelta)
			)
			if blinded != nil {
				tgt, final = nil, 0
			}
			req, err := NewRouteRequest(
				source, tgt, amt, 0, restr, customRecs, hints,
				blinded, final,
			)
			if err != nil {
				return c19NoRoute("NewRouteRequest: " +
					err.Error())
			}
			rt, _, err = ctx.router.FindRoute(req)
			if err != nil {
				return c19NoRoute("FindRoute: " + err.Error())
			}

			break
		}

		// findPath + newRoute composed as FindRoute does it.
		var hints map[route.Vertex][]AdditionalEdge
		if len(routeHints) > 0 {
			hints, err = RouteHintsToEdges(routeHints, target)
			if err != nil {
				return c19NoRoute("RouteHintsToEdges: " +
					err.Error())
			}
		}
		cfg := *testPathFindingConfig
		finalExpiry := int32(q.Height) + int32(q.FinalDelta)
		path, err := dbFindPath(
			g.v1Graph, hints, ctx.hints, restr, &cfg, source,
			target, amt, 0, finalExpiry,
		)
		if err != nil {
			return c19NoRoute("findPath: " + err.Error())
		}
		rt, err = newRoute(source, path, uint32(q.Height),
			finalHopParams{
				amt:       amt,
				totalAmt:  amt,
				cltvDelta: uint16(q.FinalDelta),
				records:   customRecs,
			}, nil,
		)
		if err != nil {
			return c19NoRoute("newRoute: " + err.Error())
		}

	case "RequestRoute":
		sourceNode, err := g.v1Graph.SourceNode(context.Background())
		if err != nil {
			return c19NoRoute("source node: " + err.Error())
		}
		sessSrc := &SessionSource{
			GraphSessionFactory: g.v1Graph,
			SourceNode:          sourceNode,
			GetLink:             g.getLink,
			PathFindingConfig:   *testPathFindingConfig,
			MissionControl:      mc,
		}
		var payHash lntypes.Hash
		payment := &LightningPayment{
			Target:             target,
			Amount:             lnwire.MilliSatoshi(q.Pay),
			FeeLimit:           feeLimit,
			CltvLimit:          math.MaxUint32,
			FinalCLTVDelta:     uint16(q.FinalDelta),
			DestFeatures:       c19Features(q),
			DestCustomRecords:  customRecs,
			RouteHints:         routeHints,
			OutgoingChannelIDs: q.OutChans,
			LastHop:            lastHop,
			MaxParts:           uint32(q.MaxParts),
			paymentHash:        &payHash,
		}
		if q.CltvLimit >= 0 {
			payment.CltvLimit = uint32(q.CltvLimit)
		}
		if q.PayAddr == 1 {
			payment.PaymentAddr = fn.Some([32]byte{1, 2, 3})
		}
		if q.Meta >= 0 {
			payment.Metadata = make([]byte, q.Meta)
		}
		if q.MaxShard > 0 {
			ms := lnwire.MilliSatoshi(q.MaxShard)
			payment.MaxShardAmt = &ms
		}
		if blinded != nil {
			payment.BlindedPathSet = blinded
			payment.Target = route.NewVertex(
				blinded.TargetPubKey(),
			)
			payment.FinalCLTVDelta = blinded.FinalCLTVDelta()
		}
		var firstHop lnwire.CustomRecords
		if q.FhRecs == 1 {
			firstHop = lnwire.CustomRecords{65540: []byte{1, 2}}
		}

		sess, err := sessSrc.NewPaymentSession(
			payment, fn.None[tlv.Blob](),
			fn.None[htlcswitch.AuxTrafficShaper](),
		)
		if err != nil {
			return c19NoRoute("NewPaymentSession: " + err.Error())
		}
		// The smallest shard the session tries is a constant of lnd
		// (10k sat); it is scaled with the amounts of the universe.
		sess.(*paymentSession).minShardAmt = lnwire.MilliSatoshi(
			q.MinShard,
		)
		rt, err = sess.RequestRoute(
			amt, feeLimit, uint32(q.Shards), uint32(q.Height),
			firstHop,
		)
		if err != nil {
			return c19NoRoute("RequestRoute: " + err.Error())
		}

	case "BuildRoute":
		hops := make([]route.Vertex, 0, len(q.Nodes))
		for _, n := range q.Nodes {
			hops = append(hops, c19Vertex(g, n))
		}
		var outChan *uint64
		if len(q.OutChans) == 1 {
			outChan = &q.OutChans[0]
		}
		payAddr := fn.None[[32]byte]()
		if q.PayAddr == 1 {
			payAddr = fn.Some([32]byte{1, 2, 3})
		}
		rt, err = ctx.router.BuildRoute(
			fn.Some(amt), hops, outChan, int32(q.FinalDelta),
			payAddr, fn.None[[]byte](),
		)
		if err != nil {
			return c19NoRoute("BuildRoute: " + err.Error())
		}

	default:
		panic("c19: unknown entry point " + q.Via)
	}

	return c19Record(g, rt)
}

// c19Record copies the returned route field by field, with the payload
// records of every hop, and adds the size oracles.
func c19Record(g *testGraphInstance, rt *route.Route) verifkit.Rec {
	// Oracles: the serialized payloads and the onion packet itself.
	packed, onionOk := 0, 0
	sizes := make([]int64, len(rt.Hops))
	sp, err := rt.ToSphinxPath()
	if err == nil {
		packed = 1
		for i := range rt.Hops {
			sizes[i] = int64(sp[i].HopPayload.NumBytes())
		}
		seed := sha256.Sum256([]byte("verif-session-key"))
		sessionKey, _ := btcec.PrivKeyFromBytes(seed[:])
		var payHash lntypes.Hash
		_, err = sphinx.NewOnionPacket(
			sp, sessionKey, payHash[:],
			sphinx.DeterministicPacketFiller,
		)
		if err == nil {
			onionOk = 1
		}
	}

	hops := make([]verifkit.Rec, 0, len(rt.Hops))
	for i, h := range rt.Hops {
		mpp, meta, enc, bp := int64(-1), int64(-1), int64(-1), 0
		if h.MPP != nil {
			mpp = c19n(int64(h.MPP.TotalMsat()))
		}
		if h.Metadata != nil {
			meta = int64(len(h.Metadata))
		}
		if h.EncryptedData != nil {
			enc = int64(len(h.EncryptedData))
		}
		if h.BlindingPoint != nil {
			bp = 1
		}
		var types []uint64
		for t := range h.CustomRecords {
			types = append(types, t)
		}
		sort.Slice(types, func(i, j int) bool {
			return types[i] < types[j]
		})
		recs := make([]c19TLV, 0, len(types))
		for _, t := range types {
			recs = append(recs, c19TLV{
				T: t, N: int64(len(h.CustomRecords[t])),
			})
		}
		hops = append(hops, verifkit.Rec{
			"chan": h.ChannelID,
			"to":   c19Alias(g, h.PubKeyBytes),
			"amt":  c19n(int64(h.AmtToForward)),
			"tl":   c19n(int64(h.OutgoingTimeLock)),
			"fee":  c19n(int64(rt.HopFee(i))),
			"mpp":  mpp,
			"meta": meta,
			"enc":  enc,
			"bp":   bp,
			"tot":  c19n(int64(h.TotalAmtMsat)),
			"recs": recs,
			"size": sizes[i],
			"amp":  c19Bit(h.AMP != nil),
		})
	}

	return verifkit.Rec{
		"found":     1,
		"err":       "",
		"src":       c19Alias(g, rt.SourcePubKey),
		"totalAmt":  c19n(int64(rt.TotalAmount)),
		"totalTL":   c19n(int64(rt.TotalTimeLock)),
		"totalFees": c19n(int64(rt.TotalFees())),
		"recvAmt":   c19n(int64(rt.ReceiverAmt())),
		"packed":    packed,
		"onionOk":   onionOk,
		"hops":      hops,
	}
}

func c19Bit(b bool) int {
	if b {
		return 1
	}
	return 0
}
