//go:build verif

package tlv

// C10 executor, TLV part.  Runs inside the tlv module (/repo/tlv has its own
// go.mod; the main lnd module links the cached tlv v1.4.0, so the working
// tree's stream decoder is only compiled from here).
//
// It feeds byte strings to the four decoding entry points of a real
// tlv.Stream with a record table of known types {1: uint8, 2: []byte,
// 3: uint16} (the package's own primitive records: DUint8, DVarBytes,
// DUint16) and records what the code did.  There is no judgement in
// this file: spec/TlvStream/TlvStreamTrace.tla decides.
//
// Inputs:  VERIF_L   = n   all byte strings of length <= n over c10Alphabet
//          VERIF_TOK = f   NDJSON file written by TLC (TlvStreamGen), one
//                          input per line as [[byte, count], ...] runs
// Output:  $VERIF_OUT/trace.ndjson, one line per input.

import (
	"bufio"
	"bytes"
	"encoding/json"
	"errors"
	"fmt"
	"io"
	"os"
	"runtime"
	"runtime/debug"
	"runtime/metrics"
	"sort"
	"strconv"
	"testing"
)

var c10Alphabet = []byte{0x00, 0x01, 0x02, 0x03, 0xfc, 0xfd, 0xfe, 0xff}

const c10Sentinel = 0x5a

type c10Table struct {
	v1 uint8
	v2 []byte
	v3 uint16
	s  *Stream
}

func c10NewTable() *c10Table {
	t := &c10Table{v1: c10Sentinel, v2: []byte{c10Sentinel}, v3: c10Sentinel<<8 | c10Sentinel}
	t.s = MustNewStream(
		MakePrimitiveRecord(1, &t.v1),
		MakePrimitiveRecord(2, &t.v2),
		MakePrimitiveRecord(3, &t.v3),
	)
	return t
}

// run-length pairs [byte, count]
func c10Rle(b []byte) [][2]int {
	out := [][2]int{}
	for i := 0; i < len(b); {
		j := i
		for j < len(b) && b[j] == b[i] {
			j++
		}
		out = append(out, [2]int{int(b[i]), j - i})
		i = j
	}
	return out
}

// a uint64 as big-endian bytes without leading zeros
func c10Num(v uint64) []int {
	out := []int{}
	for s := 56; s >= 0; s -= 8 {
		b := int((v >> uint(s)) & 0xff)
		if len(out) == 0 && b == 0 {
			continue
		}
		out = append(out, b)
	}
	return out
}

func c10ErrClass(err error) string {
	var td ErrTypeForDecoding
	switch {
	case err == nil:
		return ""
	case errors.Is(err, io.ErrUnexpectedEOF):
		return "eof"
	case errors.Is(err, ErrVarIntNotCanonical):
		return "varint"
	case errors.Is(err, ErrStreamNotCanonical):
		return "order"
	case errors.Is(err, ErrRecordTooLarge):
		return "toolarge"
	case errors.As(err, &td):
		return "size"
	case errors.Is(err, io.EOF):
		return "EOF"
	}
	return "other:" + err.Error()
}

// c10Res is what one entry point did with one input.
type c10Res struct {
	O   int        `json:"o"`   // 1 = accepted (nil error)
	E   string     `json:"e"`   // error class
	P   int        `json:"p"`   // 1 = panicked
	Big int        `json:"big"` // 1 = allocated more than 1 MiB + 4x the input
	S   int        `json:"s"`   // 1 = not executed (see c10MayClaimHuge)
	Q   int        `json:"q"`   // re-encoding == input: 1 yes, 0 no, 2 not applicable
	K   [][][2]int `json:"k"`   // values of the known records 1,2,3 after an accepted decode
	T   [][]int    `json:"t"`   // keys of the returned TypeMap, ascending
	TV  [][][2]int `json:"tv"`  // the TypeMap values in that order (nil for known records)
}

var c10Sample = []metrics.Sample{{Name: "/gc/heap/allocs:bytes"}}

func c10Allocs() uint64 {
	metrics.Read(c10Sample)
	return c10Sample[0].Value.Uint64()
}

// c10MayClaimHuge is a purely syntactic guard for the byte-level inputs: the
// input contains a 5- or 9-byte BigSize whose value lies in [2^24, 2^63).
// (Token-level inputs carry the label `claim` computed by TlvStreamGen: some
// length token is 0xffffffff or 2^32.)  The unrepaired DecodeWithParsedTypes
// answers such a *claimed* length with a zeroed allocation of that size
// (16 MiB and up; 4 GiB for the boundary classes 0xffffffff and 2^32), and so
// does DVarBytes for a known []byte record.  An entry point that has been
// observed doing so c10BigBudget times is not called again on inputs the
// guard matches (recorded as s = 1 and counted); an entry point that never
// over-allocates is never skipped.
func c10MayClaimHuge(in []byte) bool {
	for i := range in {
		if in[i] == 0xfe && i+4 < len(in) && in[i+1] >= 0x01 {
			return true
		}
		if in[i] == 0xff && i+8 < len(in) && in[i+1] < 0x80 {
			for _, b := range in[i+1 : i+6] {
				if b != 0 {
					return true
				}
			}
		}
	}
	return false
}

const c10BigBudget = 2

var c10BigSeen = map[string]int{}

func c10Call(tb *c10Table, api string, in []byte) (tm TypeMap, err error) {
	rd := bytes.NewReader(in)
	switch api {
	case "Decode":
		err = tb.s.Decode(rd)
	case "DecodeP2P":
		err = tb.s.DecodeP2P(rd)
	case "Parsed":
		tm, err = tb.s.DecodeWithParsedTypes(rd)
	case "ParsedP2P":
		tm, err = tb.s.DecodeWithParsedTypesP2P(rd)
	}
	return tm, err
}

func c10Run(api string, in []byte, risky bool) (res c10Res) {
	tb := c10NewTable()
	res.K = [][][2]int{}
	res.T = [][]int{}
	res.TV = [][][2]int{}
	res.Q = 2
	if c10BigSeen[api] >= c10BigBudget && risky {
		res.S = 1
		return res
	}
	var (
		tm  TypeMap
		err error
	)
	a0 := c10Allocs()
	func() {
		defer func() {
			if r := recover(); r != nil {
				res.P = 1
				err = fmt.Errorf("panic: %v", r)
			}
		}()
		tm, err = c10Call(tb, api, in)
	}()
	alloc := c10Allocs() - a0
	if alloc > 1<<20 && alloc < 1<<30 {
		// the cheap counter is flushed lazily (it may carry earlier cases'
		// small objects): measure this call again, exactly
		var ms0, ms1 runtime.MemStats
		runtime.ReadMemStats(&ms0)
		func() {
			defer func() { _ = recover() }()
			c10Call(c10NewTable(), api, in)
		}()
		runtime.ReadMemStats(&ms1)
		alloc = ms1.TotalAlloc - ms0.TotalAlloc
	}
	if alloc > uint64(1<<20+4*len(in)) {
		res.Big = 1
		c10BigSeen[api]++
		debug.FreeOSMemory()
	}
	if err != nil {
		res.E = c10ErrClass(err)
		if res.P == 1 {
			res.E = "panic"
		}
		return res
	}
	res.O = 1
	res.K = [][][2]int{
		c10Rle([]byte{tb.v1}), c10Rle(tb.v2), c10Rle([]byte{byte(tb.v3 >> 8), byte(tb.v3)}),
	}
	if api == "Parsed" || api == "ParsedP2P" {
		keys := make([]uint64, 0, len(tm))
		for k := range tm {
			keys = append(keys, uint64(k))
		}
		sort.Slice(keys, func(i, j int) bool { return keys[i] < keys[j] })
		recs := make([]Record, 0, len(keys))
		for _, k := range keys {
			res.T = append(res.T, c10Num(k))
			res.TV = append(res.TV, c10Rle(tm[Type(k)]))
			switch {
			case k == 1:
				recs = append(recs, MakePrimitiveRecord(1, &tb.v1))
			case k == 2:
				recs = append(recs, MakePrimitiveRecord(2, &tb.v2))
			case k == 3:
				recs = append(recs, MakePrimitiveRecord(3, &tb.v3))
			default:
				v := tm[Type(k)]
				recs = append(recs, MakeStaticRecord(Type(k), nil, uint64(len(v)), StubEncoder(v), nil))
			}
		}
		res.Q = 0
		if s2, err := NewStream(recs...); err == nil {
			var out bytes.Buffer
			if err := s2.Encode(&out); err == nil && bytes.Equal(out.Bytes(), in) {
				res.Q = 1
			}
		}
	}
	return res
}

var c10Apis = []string{"Decode", "DecodeP2P", "Parsed", "ParsedP2P"}

type c10Line struct {
	A   string            `json:"a"`
	Lvl string            `json:"lvl"`
	Inp [][2]int          `json:"inp"`
	Res map[string]c10Res `json:"r"`
}

func c10Case(w *bufio.Writer, lvl string, runs [][2]int, in []byte, risky bool) {
	ln := c10Line{A: "Case", Lvl: lvl, Inp: runs, Res: map[string]c10Res{}}
	for _, api := range c10Apis {
		ln.Res[api] = c10Run(api, in, risky)
	}
	b, err := json.Marshal(ln)
	if err != nil {
		panic(err)
	}
	w.Write(b)
	w.WriteByte('\n')
}

func TestVerifC10Tlv(t *testing.T) {
	outDir := os.Getenv("VERIF_OUT")
	if outDir == "" {
		outDir = "."
	}
	f, err := os.Create(outDir + "/trace.ndjson")
	if err != nil {
		t.Fatal(err)
	}
	defer f.Close()
	w := bufio.NewWriterSize(f, 1<<20)
	defer w.Flush()
	n := 0

	if ls := os.Getenv("VERIF_L"); ls != "" {
		L, _ := strconv.Atoi(ls)
		for k := 0; k <= L; k++ {
			idx := make([]int, k)
			for {
				in := make([]byte, k)
				runs := make([][2]int, k)
				for i, x := range idx {
					in[i] = c10Alphabet[x]
					runs[i] = [2]int{int(in[i]), 1}
				}
				c10Case(w, "byte", runs, in, c10MayClaimHuge(in))
				n++
				i := k - 1
				for ; i >= 0; i-- {
					idx[i]++
					if idx[i] < len(c10Alphabet) {
						break
					}
					idx[i] = 0
				}
				if i < 0 {
					break
				}
			}
		}
	}

	if tf := os.Getenv("VERIF_TOK"); tf != "" {
		fi, err := os.Open(tf)
		if err != nil {
			t.Fatal(err)
		}
		defer fi.Close()
		sc := bufio.NewScanner(fi)
		sc.Buffer(make([]byte, 1<<20), 1<<24)
		for sc.Scan() {
			var ln struct {
				Inp   [][2]int `json:"inp"`
				Claim int      `json:"claim"`
			}
			if err := json.Unmarshal(sc.Bytes(), &ln); err != nil {
				t.Fatalf("bad token line %q: %v", sc.Text(), err)
			}
			var in []byte
			for _, r := range ln.Inp {
				in = append(in, bytes.Repeat([]byte{byte(r[0])}, r[1])...)
			}
			if ln.Inp == nil {
				ln.Inp = [][2]int{}
			}
			c10Case(w, "tok", ln.Inp, in, ln.Claim == 1)
			n++
		}
	}
	t.Logf("C10 tlv: %d inputs x %d entry points", n, len(c10Apis))
}
