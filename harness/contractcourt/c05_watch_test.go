//go:build verif

package contractcourt

import (
	"bytes"
	"context"
	"crypto/sha256"
	"fmt"
	"os"
	"path/filepath"
	"strings"
	"testing"
	"time"

	"github.com/btcsuite/btcd/btcec/v2/schnorr/musig2"
	"github.com/btcsuite/btcd/txscript/v2"
	"github.com/btcsuite/btcd/wire/v2"
	"github.com/lightningnetwork/lnd/chainntnfs"
	"github.com/lightningnetwork/lnd/channeldb"
	"github.com/lightningnetwork/lnd/chanstate"
	"github.com/lightningnetwork/lnd/fn/v2"
	"github.com/lightningnetwork/lnd/input"
	"github.com/lightningnetwork/lnd/internal/verifkit"
	"github.com/lightningnetwork/lnd/lntypes"
	lnmock "github.com/lightningnetwork/lnd/lntest/mock"
	"github.com/lightningnetwork/lnd/lnwallet"
	"github.com/lightningnetwork/lnd/lnwallet/chainfee"
	"github.com/lightningnetwork/lnd/lnwire"
)

// C05 executor, chain-watcher part.  Replays spec/Channel behaviours (ChannelGen)
// on two real lnwallet channels through the exported API (as the C04 executor
// does) and obtains every close summary THE WAY THE NODE OBTAINS IT: each party
// has a real chainWatcher that was given its own copy of the channel (read from
// the database when the history starts, never touched by the "link"); for the
// party's own commitment (x = 0), the counterparty's current (x = 1) and its
// pending not-yet-revoked commitment (x = 2) the transaction that would confirm
// is handed to handleCommitSpend, and what the watcher dispatches to its
// subscriber (LocalUnilateralCloseInfo / RemoteUnilateralCloseInfo with the
// CommitSet) is what is recorded: every HTLC resolution, the to_local /
// to_remote resolution and the anchor resolution run through btcd's script
// interpreter against the real transaction.  The watcher - not the executor -
// classifies the transaction, picks the stored commitment and the commit point.
// Same `CloseCheck` record as harness/lnwallet/c05_close_test.go with via = 1.
// Records facts, judges nothing (spec/Channel/ChannelCloseTrace.tla).

var c5wChanTypes = map[string]channeldb.ChannelType{
	"legacy":    channeldb.SingleFunderBit,
	"tweakless": channeldb.SingleFunderTweaklessBit,
	"anchors":   channeldb.SingleFunderTweaklessBit | channeldb.AnchorOutputsBit,
	"zerofee":   channeldb.SingleFunderTweaklessBit | channeldb.AnchorOutputsBit | channeldb.ZeroHtlcTxFeeBit,
	"lease": channeldb.SingleFunderTweaklessBit | channeldb.AnchorOutputsBit | channeldb.ZeroHtlcTxFeeBit |
		channeldb.LeaseExpirationBit,
	"taproot": channeldb.SingleFunderTweaklessBit | channeldb.AnchorOutputsBit | channeldb.ZeroHtlcTxFeeBit |
		channeldb.SimpleTaprootFeatureBit,
	"taprootfinal": channeldb.SingleFunderTweaklessBit | channeldb.AnchorOutputsBit | channeldb.ZeroHtlcTxFeeBit |
		channeldb.SimpleTaprootFeatureBit | channeldb.TaprootFinalBit,
}

type c5wEv struct {
	A string `json:"a"`
	P string `json:"p"`
	X int    `json:"x"`
	Y int    `json:"y"`
}

type c5wBase struct {
	c5wEv
	Err    string           `json:"err"`
	Type   string           `json:"type,omitempty"`
	Opener string           `json:"opener,omitempty"`
	Dust   map[string]int64 `json:"dust,omitempty"`
	File   string           `json:"file,omitempty"`
	Poor   int64            `json:"poor"`
}

// the CloseCheck record: field for field that of harness/lnwallet/c05_close_test.go
type c5wRes struct {
	Dir   int   `json:"dir"`
	Hi    int64 `json:"hi"`
	Idx   int64 `json:"idx"`
	Amt   int64 `json:"amt"`
	Claim int64 `json:"claim"`
	Lt    int64 `json:"lt"`
	Exp   int64 `json:"exp"`
	Seq   int64 `json:"seq"`
	Csv   int64 `json:"csv"`
	E1    int   `json:"e1"`
	E1lo  int   `json:"e1lo"`
	Cltv  int   `json:"cltv"`
	Agg   int   `json:"agg"`
	E2    int   `json:"e2"`
	E2lo  int   `json:"e2lo"`
	E2cl  int   `json:"e2cl"`
	Desc  int   `json:"desc"`
}

type c5wSelf struct {
	Present int   `json:"present"`
	Idx     int64 `json:"idx"`
	Val     int64 `json:"val"`
	Csv     int64 `json:"csv"`
	Lt      int64 `json:"lt"`
	Ok      int   `json:"ok"`
	Lo      int   `json:"lo"`
	Cl      int   `json:"cl"`
	Desc    int   `json:"desc"`
}

type c5wAnc struct {
	Present int   `json:"present"`
	Idx     int64 `json:"idx"`
	Val     int64 `json:"val"`
	Desc    int   `json:"desc"`
	Ok      int   `json:"ok"`
}

type c5wLine struct {
	c5wEv
	Err    string   `json:"err"`
	H      int64    `json:"h"`
	NOut   int      `json:"nout"`
	NIn    int      `json:"nin"`
	Commit int      `json:"commit"`
	Res    []c5wRes `json:"res"`
	Self   c5wSelf  `json:"self"`
	Claim  int64    `json:"claim"`
	Note   string   `json:"note"`
	Live   int      `json:"live"`
	Anc    c5wAnc   `json:"anc"`
	APre   c5wAnc   `json:"apre"`
	Via    int      `json:"via"`
	CKey   int      `json:"ckey"`
	NSet   int      `json:"nset"`
}

type c5wMsg struct {
	kind  string
	add   *lnwire.UpdateAddHTLC
	id    uint64
	pre   [32]byte
	sigs  *lnwallet.CommitSigs
	fee   int64
	rev   *lnwire.RevokeAndAck
	reest *lnwire.ChannelReestablish
}

type c5wSide struct {
	name   string
	lc     *lnwallet.LightningChannel
	pool   *lnwallet.SigPool
	out    []c5wMsg
	nextID uint64
	// the chain watcher of this party, with its private copy of the channel
	stale   *chanstate.OpenChannel
	watcher *chainWatcher
	sub     *ChainEventSubscription
}

type c5wDiverged string

const c5wHeight = 100

func c5wEngine(pkScript []byte, value int64, tx *wire.MsgTx, idx int) (err error) {
	defer func() {
		if r := recover(); r != nil {
			err = fmt.Errorf("interpreter set-up failed: %v", r)
		}
	}()
	fetcher := txscript.NewCannedPrevOutputFetcher(pkScript, value)
	hc := txscript.NewTxSigHashes(tx, fetcher)
	vm, err := txscript.NewEngine(pkScript, tx, idx, txscript.StandardVerifyFlags, nil, hc, value, fetcher)
	if err != nil {
		return err
	}
	return vm.Execute()
}

func c5wBit(err error) int {
	if err == nil {
		return 1
	}
	return 0
}

func c5wLocked(err error) int {
	switch {
	case err == nil:
		return 0
	case txscript.IsErrorCode(err, txscript.ErrUnsatisfiedLockTime):
		return 1
	default:
		return 2
	}
}

func c5wIsConstraintErr(err error) bool {
	if err == nil {
		return false
	}
	s := strings.ToLower(err.Error())
	for _, k := range []string{"insufficient", "below", "exceeds", "max", "reserve", "balance", "dust", "fee"} {
		if strings.Contains(s, k) {
			return true
		}
	}
	return false
}

// c5wSpend: a transaction built the way sweep.createSweepTx does, interpreter
// run against the REAL output (see c5Spend in harness/lnwallet/c05_close_test.go).
func c5wSpend(inp input.Input, signer input.Signer, prev *wire.TxOut, seq, lock uint32) (err error) {
	defer func() {
		if r := recover(); r != nil {
			err = fmt.Errorf("spend set-up failed: %v", r)
		}
	}()
	tx := wire.NewMsgTx(2)
	tx.AddTxIn(&wire.TxIn{PreviousOutPoint: inp.OutPoint(), Sequence: seq})
	if ro := inp.RequiredTxOut(); ro != nil {
		tx.AddTxOut(ro)
	}
	tx.AddTxOut(&wire.TxOut{PkScript: append([]byte{0x00, 0x14}, make([]byte, 20)...), Value: 1000})
	tx.LockTime = lock
	sd := inp.SignDesc()
	fetcher := txscript.NewCannedPrevOutputFetcher(sd.Output.PkScript, sd.Output.Value)
	hc := txscript.NewTxSigHashes(tx, fetcher)
	sc, err := inp.CraftInputScript(signer, tx, hc, fetcher, 0)
	if err != nil {
		return fmt.Errorf("craft: %w", err)
	}
	tx.TxIn[0].Witness = sc.Witness
	return c5wEngine(prev.PkScript, prev.Value, tx, 0)
}

func c5wSameOut(a, b *wire.TxOut) int {
	if a != nil && b != nil && a.Value == b.Value && bytes.Equal(a.PkScript, b.PkScript) {
		return 1
	}
	return 0
}

func c5wFindHtlc(htlcs []channeldb.HTLC, incoming bool, idx uint32) (int64, [32]byte) {
	for _, h := range htlcs {
		if h.Incoming == incoming && h.OutputIndex == int32(idx) {
			return int64(h.HtlcIndex), h.RHash
		}
	}
	return -1, [32]byte{}
}

func c5wSweepLocked(inp input.Input, signer input.Signer, prev *wire.TxOut) (ok, lo, cl int, lt int64) {
	seq := inp.BlocksToMaturity()
	lock, hasLock := inp.RequiredLockTime()
	ok, lo, cl = c5wBit(c5wSpend(inp, signer, prev, seq, lock)), -1, -1
	if seq > 0 {
		lo = c5wLocked(c5wSpend(inp, signer, prev, seq-1, lock))
	}
	if hasLock {
		cl = c5wLocked(c5wSpend(inp, signer, prev, seq, lock-1))
		lt = int64(lock)
	}
	return
}

type c5wCtx struct {
	pres map[[32]byte][32]byte
	exps map[string]int64 // "<offerer>/<htlc index>" -> expiry
	thaw uint32
}

func c5wLeaseExpiry(st *chanstate.OpenChannel) uint32 {
	if st.ChanType.HasLeaseExpiration() {
		return st.ThawHeight
	}
	return 0
}

func c5wCsvInput(st *chanstate.OpenChannel, op *wire.OutPoint, wt, leaseWt input.StandardWitnessType,
	sd *input.SignDescriptor, csv uint32) *input.BaseInput {

	if st.IsInitiator && c5wLeaseExpiry(st) > 0 {
		return input.NewCsvInputWithCltv(op, leaseWt, sd, c5wHeight, csv, c5wLeaseExpiry(st))
	}
	return input.NewCsvInput(op, wt, sd, c5wHeight, csv)
}

func c5wAnchor(ar *lnwallet.AnchorResolution, tx *wire.MsgTx, ct channeldb.ChannelType, signer input.Signer) c5wAnc {
	a := c5wAnc{Idx: -1, Desc: -1, Ok: -1}
	if ar == nil {
		return a
	}
	a.Present, a.Idx, a.Desc, a.Ok = 1, int64(ar.CommitAnchor.Index), 0, 0
	sd := &ar.AnchorSignDescriptor
	if sd.Output != nil {
		a.Val = sd.Output.Value
	}
	if tx == nil || ar.CommitAnchor.Hash != tx.TxHash() || int(ar.CommitAnchor.Index) >= len(tx.TxOut) {
		return a
	}
	prev := tx.TxOut[ar.CommitAnchor.Index]
	a.Desc = c5wSameOut(sd.Output, prev)
	wt := input.CommitmentAnchor
	if ct.IsTaproot() {
		wt = input.TaprootAnchorSweepSpend
	}
	inp := input.MakeBaseInput(&ar.CommitAnchor, wt, sd, c5wHeight, nil)
	a.Ok = c5wBit(c5wSpend(&inp, signer, prev, 0, 0))
	return a
}

func c5wAnchorPre(sh *lnwallet.LightningChannel, w int, tx *wire.MsgTx) c5wAnc {
	ars, err := sh.NewAnchorResolutions()
	if err != nil || ars == nil {
		return c5wAnc{Present: -1, Idx: -1, Desc: -1, Ok: -1}
	}
	ar := ars.Local
	switch w {
	case 1:
		ar = ars.Remote
	case 2:
		ar = ars.RemotePending
	}
	return c5wAnchor(ar, tx, sh.State().ChanType, sh.Signer)
}

func (s *c5wSide) reload(thaw uint32) (*lnwallet.LightningChannel, error) {
	st := s.lc.State()
	chans, err := st.Db.FetchOpenChannels(st.IdentityPub)
	if err != nil || len(chans) != 1 {
		return nil, fmt.Errorf("FetchOpenChannels: %v n=%d", err, len(chans))
	}
	if chans[0].ChanType.HasLeaseExpiration() {
		chans[0].ThawHeight = thaw
	}
	return lnwallet.NewLightningChannel(s.lc.Signer, chans[0], s.pool)
}

// watch hands the transaction to the party's chain watcher and returns what
// it dispatched.
func (s *c5wSide) watch(fundingOp *wire.OutPoint, tx *wire.MsgTx) (*LocalUnilateralCloseInfo,
	*RemoteUnilateralCloseInfo, string) {

	// nothing may be left over from an earlier call
	for drained := false; !drained; {
		select {
		case <-s.sub.LocalUnilateralClosure:
		case <-s.sub.RemoteUnilateralClosure:
		case <-s.sub.ContractBreach:
		case <-s.sub.CooperativeClosure:
		default:
			drained = true
		}
	}
	txid := tx.TxHash()
	detail := &chainntnfs.SpendDetail{SpentOutPoint: fundingOp, SpenderTxHash: &txid, SpendingTx: tx,
		SpendingHeight: c5wHeight}
	done := make(chan error, 1)
	w := s.watcher
	go func() { done <- w.handleCommitSpend(detail) }()
	select {
	case err := <-done:
		if err != nil {
			return nil, nil, "watcher: handleCommitSpend: " + err.Error()
		}
	case <-time.After(60 * time.Second):
		return nil, nil, "watcher: handleCommitSpend did not return"
	}
	select {
	case l := <-s.sub.LocalUnilateralClosure:
		return l, nil, ""
	case r := <-s.sub.RemoteUnilateralClosure:
		return nil, r, ""
	case <-s.sub.ContractBreach:
		return nil, nil, "watcher: dispatched a contract breach"
	case <-s.sub.CooperativeClosure:
		return nil, nil, "watcher: dispatched a cooperative close"
	default:
		return nil, nil, "watcher: dispatched nothing"
	}
}

func c5wKey(cs *CommitSet) (int, int) {
	k, ok := -1, false
	var key HtlcSetKey
	cs.ConfCommitKey.WhenSome(func(x HtlcSetKey) { key, ok = x, true })
	if !ok {
		return -1, -1
	}
	switch key {
	case LocalHtlcSet:
		k = 0
	case RemoteHtlcSet:
		k = 1
	case RemotePendingHtlcSet:
		k = 2
	}
	return k, len(cs.HtlcSets[key])
}

func c5wNewLine(p string, w int) c5wLine {
	return c5wLine{c5wEv: c5wEv{A: "CloseCheck", P: p, X: w}, Res: []c5wRes{}, Commit: -1, Via: 1, CKey: -1,
		Self: c5wSelf{Ok: -1, Lo: -1, Cl: -1, Desc: -1},
		Anc:  c5wAnc{Idx: -1, Desc: -1, Ok: -1}, APre: c5wAnc{Idx: -1, Desc: -1, Ok: -1}}
}

// watchLocal: p's own persisted commitment confirms (p or anybody else
// broadcast it); p's watcher recognises it and dispatches the resolutions.
func (c *c5wCtx) watchLocal(p string, me *c5wSide, sh *lnwallet.LightningChannel) (c5wLine, bool) {
	ln := c5wNewLine(p, 0)
	st := sh.State()
	ln.H = int64(st.LocalCommitment.CommitHeight)
	if ln.H == 0 {
		return ln, false
	}
	ln.APre = c5wAnchorPre(sh, 0, st.LocalCommitment.CommitTx)
	// the fully signed transaction the node would broadcast
	fsum, err := sh.ForceClose()
	if err != nil {
		ln.Err = "ForceClose: " + err.Error()
		return ln, true
	}
	closeTx := fsum.CloseTx
	fo := sh.FundingTxOut()
	ln.Commit = c5wBit(c5wEngine(fo.PkScript, fo.Value, closeTx, 0))
	loc, rem, werr := me.watch(&st.FundingOutpoint, closeTx)
	if werr != "" {
		ln.Err = werr
		return ln, true
	}
	if rem != nil {
		ln.CKey, ln.NSet = c5wKey(&rem.CommitSet)
		ln.Err = "watcher: took our own commitment for the counterparty's"
		return ln, true
	}
	ln.CKey, ln.NSet = c5wKey(&loc.CommitSet)
	sum := loc.LocalForceCloseSummary
	res, err := sum.ContractResolutions.UnwrapOrErr(fmt.Errorf("no resolutions"))
	if err != nil {
		ln.Err = err.Error()
		return ln, true
	}
	ct := st.ChanType
	commitHash := closeTx.TxHash()
	ln.Anc = c5wAnchor(res.AnchorResolution, closeTx, ct, sh.Signer)
	htlcs := st.LocalCommitment.Htlcs
	if res.HtlcResolutions == nil {
		res.HtlcResolutions = &lnwallet.HtlcResolutions{}
	}
	ln.NOut, ln.NIn = len(res.HtlcResolutions.OutgoingHTLCs), len(res.HtlcResolutions.IncomingHTLCs)
	other := map[string]string{"A": "B", "B": "A"}

	second := func(dir int, stx *wire.MsgTx, details *input.SignDetails, csv uint32, claimOp wire.OutPoint,
		sd *input.SignDescriptor) c5wRes {

		r := c5wRes{Dir: dir, Hi: -1, E1lo: -1, Cltv: -1, Agg: -1, E2: 0, E2lo: -1, E2cl: -1, Csv: int64(csv)}
		if stx == nil {
			return r
		}
		op := stx.TxIn[0].PreviousOutPoint
		r.Idx, r.Lt, r.Seq = int64(op.Index), int64(stx.LockTime), int64(stx.TxIn[0].Sequence)
		if op.Hash != commitHash || int(op.Index) >= len(closeTx.TxOut) {
			return r
		}
		out := closeTx.TxOut[op.Index]
		r.Amt = out.Value
		hi, rhash := c5wFindHtlc(htlcs, dir == 1, op.Index)
		r.Hi = hi
		offerer := p
		if dir == 1 {
			offerer = other[p]
		}
		r.Exp = c.exps[fmt.Sprintf("%s/%d", offerer, hi)]
		tx := stx.Copy()
		pre := c.pres[rhash]
		if dir == 1 {
			// the contract resolver places the preimage
			k := 3
			if ct.IsTaproot() {
				k = 2
			}
			if len(tx.TxIn[0].Witness) > k {
				tx.TxIn[0].Witness[k] = pre[:]
			}
		}
		r.E1 = c5wBit(c5wEngine(out.PkScript, out.Value, tx, 0))
		if details != nil {
			var in input.HtlcSecondLevelAnchorInput
			switch {
			case dir == 0 && ct.IsTaproot():
				in = input.MakeHtlcSecondLevelTimeoutTaprootInput(stx, details, c5wHeight)
			case dir == 0:
				in = input.MakeHtlcSecondLevelTimeoutAnchorInput(stx, details, c5wHeight)
			case ct.IsTaproot():
				in = input.MakeHtlcSecondLevelSuccessTaprootInput(stx, details, lntypes.Preimage(pre), c5wHeight)
			default:
				in = input.MakeHtlcSecondLevelSuccessAnchorInput(stx, details, lntypes.Preimage(pre), c5wHeight)
			}
			lock, _ := in.RequiredLockTime()
			r.Agg = c5wBit(c5wSpend(&in, sh.Signer, out, in.BlocksToMaturity(), lock))
		}
		prev2 := stx.TxOut[0]
		r.Claim = prev2.Value
		want := wire.OutPoint{Hash: stx.TxHash(), Index: 0}
		r.Desc = c5wSameOut(sd.Output, prev2)
		if claimOp != want {
			r.Desc = 0
		}
		var wt input.StandardWitnessType
		switch {
		case dir == 0 && ct.IsTaprootFinal():
			wt = input.TaprootHtlcOfferedTimeoutSecondLevelFinal
		case dir == 0 && ct.IsTaproot():
			wt = input.TaprootHtlcOfferedTimeoutSecondLevel
		case dir == 0:
			wt = input.HtlcOfferedTimeoutSecondLevel
		case ct.IsTaprootFinal():
			wt = input.TaprootHtlcAcceptedSuccessSecondLevelFinal
		case ct.IsTaproot():
			wt = input.TaprootHtlcAcceptedSuccessSecondLevel
		default:
			wt = input.HtlcAcceptedSuccessSecondLevel
		}
		lwt := input.LeaseHtlcOfferedTimeoutSecondLevel
		if dir == 1 {
			lwt = input.LeaseHtlcAcceptedSuccessSecondLevel
		}
		inp := c5wCsvInput(st, &want, wt, lwt, sd, csv)
		r.E2, r.E2lo, r.E2cl, _ = c5wSweepLocked(inp, sh.Signer, prev2)
		return r
	}
	for i := range res.HtlcResolutions.OutgoingHTLCs {
		r := &res.HtlcResolutions.OutgoingHTLCs[i]
		rr := second(0, r.SignedTimeoutTx, r.SignDetails, r.CsvDelay, r.ClaimOutpoint, &r.SweepSignDesc)
		ln.Res = append(ln.Res, rr)
		ln.Claim += rr.Claim
	}
	for i := range res.HtlcResolutions.IncomingHTLCs {
		r := &res.HtlcResolutions.IncomingHTLCs[i]
		rr := second(1, r.SignedSuccessTx, r.SignDetails, r.CsvDelay, r.ClaimOutpoint, &r.SweepSignDesc)
		ln.Res = append(ln.Res, rr)
		ln.Claim += rr.Claim
	}
	if cr := res.CommitResolution; cr != nil {
		s := &ln.Self
		s.Present, s.Idx, s.Csv = 1, int64(cr.SelfOutPoint.Index), int64(cr.MaturityDelay)
		if cr.SelfOutPoint.Hash == commitHash && int(cr.SelfOutPoint.Index) < len(closeTx.TxOut) {
			prev := closeTx.TxOut[cr.SelfOutPoint.Index]
			s.Val = prev.Value
			s.Desc = c5wSameOut(cr.SelfOutputSignDesc.Output, prev)
			var wt input.StandardWitnessType
			switch {
			case ct.IsTaprootFinal():
				wt = input.TaprootLocalCommitSpendFinal
			case ct.IsTaproot():
				wt = input.TaprootLocalCommitSpend
			default:
				wt = input.CommitmentTimeLock
			}
			inp := c5wCsvInput(st, &cr.SelfOutPoint, wt, input.LeaseCommitmentTimeLock, &cr.SelfOutputSignDesc,
				cr.MaturityDelay)
			s.Ok, s.Lo, s.Cl, s.Lt = c5wSweepLocked(inp, sh.Signer, prev)
			ln.Claim += prev.Value
		} else {
			s.Ok, s.Desc = 0, 0
		}
	}
	return ln, true
}

// watchRemote: the counterparty's current (w = 1) or pending (w = 2)
// commitment confirms; p's watcher recognises it and dispatches the resolutions.
func (c *c5wCtx) watchRemote(p string, w int, me *c5wSide, sh *lnwallet.LightningChannel,
	peerLive *lnwallet.LightningChannel) (c5wLine, bool) {

	ln := c5wNewLine(p, w)
	st := sh.State()
	rc := st.RemoteCommitment
	if w == 2 {
		diff, err := st.RemoteCommitChainTip()
		if err != nil {
			return ln, false // no pending commitment
		}
		rc = diff.Commitment
	}
	ln.H = int64(rc.CommitHeight)
	if rc.CommitHeight == 0 {
		return ln, false // the fixture's genesis transactions are not fee-adjusted
	}
	if rc.CommitTx == nil {
		ln.Err = "no transaction stored for this commitment"
		return ln, true
	}
	// the transaction that confirms is taken from the counterparty's side
	// whenever it holds that height
	spendTx := rc.CommitTx
	if tx := lnwallet.VerifC05LocalChainTx(peerLive, rc.CommitHeight); tx != nil {
		ln.Commit = 0
		if tx.TxHash() == rc.CommitTx.TxHash() {
			ln.Commit = 1
		}
		spendTx = tx
	}
	txid := spendTx.TxHash()
	ln.APre = c5wAnchorPre(sh, w, spendTx)
	loc, rem, werr := me.watch(&st.FundingOutpoint, spendTx)
	if werr != "" {
		ln.Err = werr
		return ln, true
	}
	if loc != nil {
		ln.CKey, ln.NSet = c5wKey(&loc.CommitSet)
		ln.Err = "watcher: took the counterparty's commitment for our own"
		return ln, true
	}
	ln.CKey, ln.NSet = c5wKey(&rem.CommitSet)
	sum := rem.UnilateralCloseSummary
	ct := st.ChanType
	ln.Anc = c5wAnchor(sum.AnchorResolution, spendTx, ct, sh.Signer)
	if sum.HtlcResolutions == nil {
		sum.HtlcResolutions = &lnwallet.HtlcResolutions{}
	}
	ln.NOut, ln.NIn = len(sum.HtlcResolutions.OutgoingHTLCs), len(sum.HtlcResolutions.IncomingHTLCs)
	other := map[string]string{"A": "B", "B": "A"}
	direct := func(dir int, stx *wire.MsgTx, op wire.OutPoint, csv, expiry uint32, sd *input.SignDescriptor) c5wRes {
		r := c5wRes{Dir: dir, Hi: -1, Idx: int64(op.Index), E1lo: -1, Cltv: -1, Agg: -1, E2: -1, E2lo: -1, E2cl: -1,
			Csv: int64(csv)}
		if stx != nil || op.Hash != txid || int(op.Index) >= len(spendTx.TxOut) {
			return r // a second-level tx on the counterparty's commitment would be wrong
		}
		out := spendTx.TxOut[op.Index]
		r.Amt, r.Claim = out.Value, out.Value
		r.Desc = c5wSameOut(sd.Output, out)
		hi, rhash := c5wFindHtlc(rc.Htlcs, dir == 1, op.Index)
		r.Hi = hi
		offerer := p
		if dir == 1 {
			offerer = other[p]
		}
		r.Exp = c.exps[fmt.Sprintf("%s/%d", offerer, hi)]
		var inp input.Input
		if dir == 0 {
			wt := input.HtlcOfferedRemoteTimeout
			switch {
			case ct.IsTaprootFinal():
				wt = input.TaprootHtlcOfferedRemoteTimeoutFinal
			case ct.IsTaproot():
				wt = input.TaprootHtlcOfferedRemoteTimeout
			}
			inp = input.NewCsvInputWithCltv(&op, wt, sd, c5wHeight, csv, expiry)
		} else {
			pre := c.pres[rhash]
			var hs input.HtlcSucceedInput
			switch {
			case ct.IsTaprootFinal():
				hs = input.MakeTaprootHtlcSucceedInputFinal(&op, sd, pre[:], c5wHeight, csv)
			case ct.IsTaproot():
				hs = input.MakeTaprootHtlcSucceedInput(&op, sd, pre[:], c5wHeight, csv)
			default:
				hs = input.MakeHtlcSucceedInput(&op, sd, pre[:], c5wHeight, csv)
			}
			inp = &hs
		}
		r.Seq = int64(inp.BlocksToMaturity())
		r.E1, r.E1lo, r.Cltv, r.Lt = c5wSweepLocked(inp, sh.Signer, out)
		return r
	}
	for i := range sum.HtlcResolutions.OutgoingHTLCs {
		r := &sum.HtlcResolutions.OutgoingHTLCs[i]
		rr := direct(0, r.SignedTimeoutTx, r.ClaimOutpoint, r.CsvDelay, r.Expiry, &r.SweepSignDesc)
		ln.Res = append(ln.Res, rr)
		ln.Claim += rr.Claim
	}
	for i := range sum.HtlcResolutions.IncomingHTLCs {
		r := &sum.HtlcResolutions.IncomingHTLCs[i]
		rr := direct(1, r.SignedSuccessTx, r.ClaimOutpoint, r.CsvDelay, 0, &r.SweepSignDesc)
		ln.Res = append(ln.Res, rr)
		ln.Claim += rr.Claim
	}
	if cr := sum.CommitResolution; cr != nil {
		s := &ln.Self
		s.Present, s.Idx, s.Csv = 1, int64(cr.SelfOutPoint.Index), int64(cr.MaturityDelay)
		if cr.SelfOutPoint.Hash == txid && int(cr.SelfOutPoint.Index) < len(spendTx.TxOut) {
			prev := spendTx.TxOut[cr.SelfOutPoint.Index]
			s.Val = prev.Value
			s.Desc = c5wSameOut(cr.SelfOutputSignDesc.Output, prev)
			// commitSweepResolver.decideWitnessType for an output on the remote commitment
			var wt input.StandardWitnessType
			switch {
			case ct.IsTaprootFinal():
				wt = input.TaprootRemoteCommitSpendFinal
			case ct.IsTaproot():
				wt = input.TaprootRemoteCommitSpend
			case cr.MaturityDelay != 0:
				wt = input.CommitmentToRemoteConfirmed
			case cr.SelfOutputSignDesc.SingleTweak == nil:
				wt = input.CommitSpendNoDelayTweakless
			default:
				wt = input.CommitmentNoDelay
			}
			inp := c5wCsvInput(st, &cr.SelfOutPoint, wt, input.LeaseCommitmentToRemoteConfirmed,
				&cr.SelfOutputSignDesc, cr.MaturityDelay)
			s.Ok, s.Lo, s.Cl, s.Lt = c5wSweepLocked(inp, sh.Signer, prev)
			ln.Claim += prev.Value
		} else {
			s.Ok, s.Desc = 0, 0
		}
	}
	return ln, true
}

func TestVerifC05Watch(t *testing.T) {
	lnwallet.VerifSetTestChannelCapacity(0.01)

	dir := os.Getenv("VERIF_SCHED")
	files := verifkit.ListFiles(dir, "b_", ".ndjson")
	if len(files) == 0 {
		t.Fatalf("no schedules in %q", dir)
	}
	typeNames := strings.Split(verifkit.Env("VERIF_TYPES", "tweakless"), ",")
	every := verifkit.EnvInt("VERIF_CLOSE_EVERY", 1)
	stride := verifkit.EnvInt("VERIF_WATCH_STRIDE", 1)
	thaw := uint32(verifkit.EnvInt("VERIF_THAW", 600))
	out := verifkit.MustWriter(verifkit.Env("VERIF_OUT", ".") + "/trace.ndjson")
	defer out.Close()
	ctxb := context.Background()

	nsteps, nchecks, nfiles := 0, 0, 0
	for fi, f := range files {
		// quick tier: every stride-th behaviour (the channel types still rotate through all seven)
		if stride > 1 && (fi+int(verifkit.Seed()))%stride != 0 {
			continue
		}
		nfiles++
		evs, err := verifkit.ReadNDJSONInto[c5wEv](f)
		if err != nil {
			t.Fatal(err)
		}
		if len(evs) == 0 || evs[0].A != "Cfg" {
			t.Fatalf("%s: first event must be Cfg", f)
		}
		// shifted against the lnwallet executor: the same behaviour meets another channel type here
		tname := typeNames[(fi+3+int(verifkit.Seed()))%len(typeNames)]
		ctype, ok := c5wChanTypes[tname]
		if !ok {
			t.Fatalf("unknown channel type %q", tname)
		}
		poor := int64(evs[0].X)
		lnwallet.VerifSetPoorShare(poor / 1000)
		alice, bob, err := lnwallet.CreateTestChannels(t, ctype)
		if err != nil {
			t.Fatal(err)
		}
		if ctype.HasLeaseExpiration() {
			alice.State().ThawHeight, bob.State().ThawHeight = thaw, thaw
		}
		opener := evs[0].P
		other := map[string]string{"A": "B", "B": "A"}
		nonOpener := other[opener]
		mk := func(n string, lc *lnwallet.LightningChannel) *c5wSide {
			pool := lnwallet.NewSigPool(1, lc.Signer)
			if err := pool.Start(); err != nil {
				t.Fatal(err)
			}
			t.Cleanup(func() { _ = pool.Stop() })
			sd := &c5wSide{name: n, lc: lc, pool: pool}
			st := lc.State()
			chans, err := st.Db.FetchOpenChannels(st.IdentityPub)
			if err != nil || len(chans) != 1 {
				t.Fatalf("FetchOpenChannels: %v n=%d", err, len(chans))
			}
			sd.stale = chans[0]
			if ctype.HasLeaseExpiration() {
				sd.stale.ThawHeight = thaw
			}
			sd.watcher, err = newChainWatcher(chainWatcherConfig{
				chanState: sd.stale,
				notifier: &lnmock.ChainNotifier{
					SpendChan: make(chan *chainntnfs.SpendDetail, 1),
					EpochChan: make(chan *chainntnfs.BlockEpoch),
					ConfChan:  make(chan *chainntnfs.TxConfirmation, 1),
				},
				signer:              lc.Signer,
				contractBreach:      func(*lnwallet.BreachRetribution) error { return nil },
				extractStateNumHint: lnwallet.GetStateNumHint,
				chanCloseConfs:      fn.Some(uint32(1)),
			})
			if err != nil {
				t.Fatalf("newChainWatcher: %v", err)
			}
			sd.sub = sd.watcher.SubscribeChannelEvents()
			return sd
		}
		sides := map[string]*c5wSide{opener: mk(opener, alice), nonOpener: mk(nonOpener, bob)}
		cc := &c5wCtx{pres: map[[32]byte][32]byte{}, exps: map[string]int64{}, thaw: thaw}
		idpre := map[string][32]byte{} // "<offerer>/<htlc id>" -> preimage
		lastPre := map[string][32]byte{}
		lastExp := map[string]uint32{}
		ndup := 0
		npre := 0

		out.Emit(c5wBase{c5wEv: c5wEv{A: "Reset", P: "A"}, Type: tname, Opener: opener, File: filepath.Base(f), Poor: poor,
			Dust: map[string]int64{
				opener:    int64(alice.State().LocalChanCfg.DustLimit),
				nonOpener: int64(bob.State().LocalChanCfg.DustLimit)}})

		func() {
			defer func() {
				if r := recover(); r != nil {
					d, is := r.(c5wDiverged)
					if !is {
						panic(r)
					}
					t.Logf("VERIF-DIVERGED %s", string(d))
				}
			}()
			for _, e := range evs[1:] {
				me := sides[e.P]
				peer := sides[other[e.P]]
				var err error
				pop := func() c5wMsg {
					if len(peer.out) == 0 {
						panic(c5wDiverged(fmt.Sprintf("%s: %v: peer queue empty", f, e)))
					}
					m := peer.out[0]
					peer.out = peer.out[1:]
					return m
				}
				name := e.A
				switch e.A {
				case "Add":
					var pre [32]byte
					var expiry uint32
					key := fmt.Sprintf("%s/%d", e.P, e.X)
					if lp, ok := lastPre[key]; ok && e.Y == 1 {
						pre, expiry = lp, lastExp[key]
						ndup++
						if ndup%2 == 1 {
							expiry += 9
						}
					} else {
						npre++
						pre[0], pre[1], pre[2] = byte(npre), byte(npre>>8), 0x5a
						expiry = uint32(500 + (npre*5)%23)
					}
					lastPre[key], lastExp[key] = pre, expiry
					h := sha256.Sum256(pre[:])
					cc.pres[h] = pre
					htlc := &lnwire.UpdateAddHTLC{ID: me.nextID, PaymentHash: h,
						Amount: lnwire.MilliSatoshi(e.X), Expiry: expiry}
					_, err = me.lc.AddHTLC(htlc, nil)
					if err == nil {
						me.out = append(me.out, c5wMsg{kind: "add", add: htlc})
						idpre[fmt.Sprintf("%s/%d", e.P, htlc.ID)] = pre
						cc.exps[fmt.Sprintf("%s/%d", e.P, htlc.ID)] = int64(expiry)
						me.nextID++
					} else if c5wIsConstraintErr(err) {
						name = "AddRejected"
					}
				case "Resolve":
					id := uint64(e.X)
					if e.Y == 1 {
						pre := idpre[fmt.Sprintf("%s/%d", other[e.P], id)]
						err = me.lc.SettleHTLC(pre, id, nil, nil, nil)
						if err == nil {
							me.out = append(me.out, c5wMsg{kind: "settle", id: id, pre: pre})
						}
					} else {
						err = me.lc.FailHTLC(id, []byte("x"), nil, nil, nil)
						if err == nil {
							me.out = append(me.out, c5wMsg{kind: "fail", id: id})
						}
					}
				case "Sign":
					var ns *lnwallet.NewCommitState
					ns, err = me.lc.SignNextCommitment(ctxb)
					if err == nil {
						me.out = append(me.out, c5wMsg{kind: "sig", sigs: ns.CommitSigs})
					}
				case "RecvAdd":
					_, err = me.lc.ReceiveHTLC(pop().add)
				case "RecvRes":
					m := pop()
					if m.kind == "settle" {
						err = me.lc.ReceiveHTLCSettle(m.pre, m.id)
					} else {
						err = me.lc.ReceiveFailHTLC(m.id, []byte("x"))
					}
				case "RecvSig":
					err = me.lc.ReceiveNewCommitment(pop().sigs)
				case "Revoke":
					var rev *lnwire.RevokeAndAck
					rev, _, _, err = me.lc.RevokeCurrentCommitment()
					if err == nil {
						me.out = append(me.out, c5wMsg{kind: "rev", rev: rev})
					}
				case "RecvRev":
					_, _, err = me.lc.ReceiveRevocation(pop().rev)
				case "UpdateFee":
					err = me.lc.UpdateFee(chainfee.SatPerKWeight(e.X))
					if err == nil {
						me.out = append(me.out, c5wMsg{kind: "fee", fee: int64(e.X)})
					}
				case "RecvFee":
					err = me.lc.ReceiveUpdateFee(chainfee.SatPerKWeight(pop().fee))
				case "Disconnect":
					for _, s := range sides {
						var nlc *lnwallet.LightningChannel
						if nlc, err = s.reload(thaw); err != nil {
							break
						}
						s.lc = nlc
						s.out = nil
						if s.nextID, err = nlc.NextLocalHtlcIndex(); err != nil {
							break
						}
					}
				case "StaleTouch", "SoftDisconnect", "RecvBadRev":
					// see harness/lnwallet/channel_exec_test.go: events the model leaves
					// without effect; not exercised by this executor
				case "LiveRefresh":
					err = me.lc.State().Refresh()
				case "SendReest":
					var m *lnwire.ChannelReestablish
					m, err = me.lc.State().ChanSyncMsg()
					if err == nil {
						if me.lc.State().ChanType.IsTaproot() {
							txid := me.lc.State().FundingOutpoint.Hash
							var nonce lnwire.Musig2Nonce
							if m.LocalNonces.IsSome() {
								nonce = m.LocalNonces.UnsafeFromSome().NoncesMap[txid]
							} else {
								nonce = m.LocalNonce.UnwrapOrFailV(t)
							}
							lnwallet.VerifSetPendingVerificationNonce(me.lc, &musig2.Nonces{PubNonce: nonce})
						}
						me.out = append(me.out, c5wMsg{kind: "reest", reest: m})
					}
				case "RecvReest":
					var msgs []lnwire.Message
					msgs, _, _, err = me.lc.ProcessChanSyncMsg(ctxb, pop().reest)
					for _, x := range msgs {
						switch mm := x.(type) {
						case *lnwire.UpdateAddHTLC:
							me.out = append(me.out, c5wMsg{kind: "add", add: mm})
						case *lnwire.UpdateFulfillHTLC:
							me.out = append(me.out, c5wMsg{kind: "settle", id: mm.ID, pre: mm.PaymentPreimage})
						case *lnwire.UpdateFailHTLC:
							me.out = append(me.out, c5wMsg{kind: "fail", id: mm.ID})
						case *lnwire.UpdateFee:
							me.out = append(me.out, c5wMsg{kind: "fee", fee: int64(mm.FeePerKw)})
						case *lnwire.CommitSig:
							me.out = append(me.out, c5wMsg{kind: "sig", sigs: &lnwallet.CommitSigs{
								CommitSig: mm.CommitSig, HtlcSigs: mm.HtlcSigs, PartialSig: mm.PartialSig}})
						case *lnwire.RevokeAndAck:
							me.out = append(me.out, c5wMsg{kind: "rev", rev: mm})
						default:
							me.out = append(me.out, c5wMsg{kind: fmt.Sprintf("%T", x)})
						}
					}
				default:
					t.Fatalf("unknown action %q", e.A)
				}
				tl := c5wBase{c5wEv: e}
				tl.A = name
				if err != nil && name != "AddRejected" {
					tl.Err = err.Error()
				}
				out.Emit(tl)
				nsteps++
				if err != nil {
					if name != "AddRejected" {
						t.Logf("%s: step %v: %v", filepath.Base(f), e, err)
					}
					break
				}
				// every k-th step everything, otherwise whoever holds a pending
				// remote commitment
				kth := every <= 1 || (nsteps+int(verifkit.Seed()))%every == 0
				for _, n := range []string{"A", "B"} {
					s := sides[n]
					sh, rerr := s.reload(thaw)
					if rerr != nil {
						ln := c5wNewLine(n, 1)
						ln.Err = "reload: " + rerr.Error()
						out.Emit(ln)
						continue
					}
					_, perr := sh.State().RemoteCommitChainTip()
					if !(kth || perr == nil) {
						continue
					}
					for _, w := range []int{1, 2} {
						if ln, ok := cc.watchRemote(n, w, s, sh, sides[other[n]].lc); ok {
							out.Emit(ln)
							nchecks++
						}
					}
					if kth {
						if ln, ok := cc.watchLocal(n, s, sh); ok {
							out.Emit(ln)
							nchecks++
						}
					}
				}
			}
		}()
	}
	t.Logf("executed %d behaviours, %d steps, %d close checks through the chain watcher", nfiles, nsteps, nchecks)
}
