//go:build verif

package contractcourt

// C12 executor, history part (spec/ChainActions/ChainActionsHist.tla).
//
// Reads histories (one JSON object per line: a universe of HTLCs - direction,
// forwarded/own, cut-off height relative to 100, dust on our / the peer's
// commitments, HtlcIndex - the HTLC sets the link reported before the start,
// what is known about each preimage, the broadcast deltas, the grace period in
// ticks - and a sequence of environment events) and replays every history on a
// REAL ChannelArbitrator (createTestChannelArbitrator fixture, real bolt log,
// test clock, goroutine-safe witness beacon and invoice registry) driven
// through its real event loop:
//
//	Start          arb.Start + UpdateContractSignals (the link comes up)
//	Block          arb.ProcessBlock(next height) - returns when handled
//	HtlcUpdate     arb.notifyContractUpdate(commitment, new HTLC set)
//	SignalUpdate   arb.UpdateContractSignals
//	AddInvoice     the registry gets an unsettled invoice for the hash
//	LearnPreimage  the witness beacon / the registry (settled invoice) learns
//	               the preimage
//	ClockAdvance   the test clock moves one tick (one minute)
//
// Recorded after every event, never judged: arbitrator state (last state
// committed to the log), ForceCloseChan / PublishTx calls, cumulative upstream
// fail-backs per HTLC, anything else the arbitrator delivered ("other",
// resolvers, final outcomes).  The events are environment events: every one is
// applicable whatever the arbitrator did before, so a history is always
// replayed to its end.

import (
	"context"
	"encoding/json"
	"fmt"
	"os"
	"path/filepath"
	"sync"
	"testing"
	"time"

	"github.com/btcsuite/btcd/chainhash/v2"
	"github.com/btcsuite/btcd/wire/v2"
	"github.com/lightningnetwork/lnd/channeldb"
	"github.com/lightningnetwork/lnd/clock"
	"github.com/lightningnetwork/lnd/fn/v2"
	"github.com/lightningnetwork/lnd/internal/verifkit"
	"github.com/lightningnetwork/lnd/invoices"
	"github.com/lightningnetwork/lnd/kvdb"
	"github.com/lightningnetwork/lnd/lntypes"
	"github.com/lightningnetwork/lnd/lnwallet"
	"github.com/lightningnetwork/lnd/lnwire"
)

type c12hAttr struct {
	Dir string `json:"dir"` // none | out | in
	Fwd int    `json:"fwd"`
	Cut int    `json:"cut"` // cut-off height = 100 + cut = RefundTimeout - broadcast delta
	DL  int    `json:"dl"`  // dust on our commitment
	DR  int    `json:"dr"`  // dust on the peer's commitments
	Idx int    `json:"idx"` // HtlcIndex (offered and received HTLCs are numbered independently)
}

type c12hEvent struct {
	A   string `json:"a"`
	K   string `json:"k"`
	Set []int  `json:"set"`
	S   int    `json:"s"`
	Src string `json:"src"`
}

type c12hSched struct {
	ID    int         `json:"id"`
	Cell  int         `json:"cell"`
	DOut  int         `json:"dout"`
	DIn   int         `json:"din"`
	Grace int         `json:"grace"`
	Attr  []c12hAttr  `json:"attr"`
	OnL   []int       `json:"onL"`
	OnR   []int       `json:"onR"`
	OnP   []int       `json:"onP"`
	HasP  int         `json:"hasP"`
	Known []string    `json:"known"`
	Ev    []c12hEvent `json:"ev"`
}

// c12hBeacon is a goroutine-safe witness cache.
type c12hBeacon struct {
	*mockWitnessBeacon
	mu sync.Mutex
	m  map[lntypes.Hash]lntypes.Preimage
}

func (b *c12hBeacon) LookupPreimage(h lntypes.Hash) (lntypes.Preimage, bool) {
	b.mu.Lock()
	defer b.mu.Unlock()
	p, ok := b.m[h]
	return p, ok
}

func (b *c12hBeacon) learn(p lntypes.Preimage) {
	b.mu.Lock()
	defer b.mu.Unlock()
	b.m[p.Hash()] = p
}

// c12hRegistry is a goroutine-safe invoice registry: an invoice either does
// not exist, exists without a preimage (hold invoice, not settled), or carries
// its preimage.
type c12hRegistry struct {
	*mockRegistry
	mu sync.Mutex
	m  map[lntypes.Hash]*lntypes.Preimage
}

func (r *c12hRegistry) LookupInvoice(_ context.Context, h lntypes.Hash) (invoices.Invoice, error) {
	r.mu.Lock()
	defer r.mu.Unlock()
	p, ok := r.m[h]
	if !ok {
		return invoices.Invoice{}, invoices.ErrInvoiceNotFound
	}
	inv := invoices.Invoice{}
	if p != nil {
		cp := *p
		inv.Terms.PaymentPreimage = &cp
	}
	return inv, nil
}

func (r *c12hRegistry) put(h lntypes.Hash, p *lntypes.Preimage) {
	r.mu.Lock()
	defer r.mu.Unlock()
	r.m[h] = p
}

// c12hSet builds the HTLC slice of commitment k from a 0/1 membership vector.
func c12hSet(s *c12hSched, k string, member []int) []channeldb.HTLC {
	var out []channeldb.HTLC
	for i, a := range s.Attr {
		if a.Dir == "none" || i >= len(member) || member[i] != 1 {
			continue
		}
		slot := i + 1
		delta := s.DIn
		if a.Dir == "out" {
			delta = s.DOut
		}
		x := channeldb.HTLC{
			Incoming:      a.Dir == "in",
			Amt:           lnwire.MilliSatoshi(10000 * slot),
			HtlcIndex:     uint64(a.Idx),
			RefundTimeout: uint32(c12H0 + a.Cut + delta),
			RHash:         c12Hash(slot),
			OutputIndex:   int32(slot),
		}
		if (k == "L" && a.DL == 1) || (k != "L" && a.DR == 1) {
			x.OutputIndex = -1
		}
		out = append(out, x)
	}
	return out
}

// c12hRun replays one history and returns the observation lines.
func c12hRun(t *testing.T, db kvdb.Backend, s *c12hSched, runNo int) ([]verifkit.Rec, error) {
	// the shared recorder of the cell executor, fed with this universe
	shim := &c12Sched{}
	for _, a := range s.Attr {
		shim.Htlc = append(shim.Htlc, c12Htlc{Dir: a.Dir, Idx: a.Idx})
	}
	rec := c12NewRec(shim)

	placeholder := &mockArbitratorLog{state: StateDefault, newStates: make(chan ArbitratorState, 100)}
	ctx, err := createTestChannelArbitrator(t, placeholder)
	if err != nil {
		return nil, err
	}
	arb := ctx.chanArb
	cfg := &arb.cfg

	beacon := &c12hBeacon{mockWitnessBeacon: newMockWitnessBeacon(), m: make(map[lntypes.Hash]lntypes.Preimage)}
	registry := &c12hRegistry{mockRegistry: &mockRegistry{}, m: make(map[lntypes.Hash]*lntypes.Preimage)}
	learn := func(slot int, src string) error {
		p := c12Preimage(slot)
		switch src {
		case "beacon":
			beacon.learn(p)
		case "registry":
			registry.put(p.Hash(), &p)
		case "invoice":
			registry.put(p.Hash(), nil)
		case "no":
		default:
			return fmt.Errorf("unknown preimage source %q", src)
		}
		return nil
	}
	fwd := make(map[uint64]bool)
	for i, a := range s.Attr {
		if a.Dir == "out" {
			fwd[uint64(a.Idx)] = a.Fwd == 1
		}
		if a.Dir != "none" && i < len(s.Known) {
			if err := learn(i+1, s.Known[i]); err != nil {
				return nil, err
			}
		}
	}

	const tick = time.Minute
	t0 := time.Date(2026, time.January, 1, 0, 0, 0, 0, time.UTC)
	clk := clock.NewTestClock(t0)
	ticks := 0
	cfg.ChanPoint = wire.OutPoint{Index: uint32(runNo)}
	cfg.PreimageDB = beacon
	cfg.Registry = registry
	cfg.Clock = clk
	cfg.PaymentsExpirationGracePeriod = time.Duration(s.Grace) * tick
	cfg.OutgoingBroadcastDelta = uint32(s.DOut)
	cfg.IncomingBroadcastDelta = uint32(s.DIn)
	cfg.Sweeper = c12Sweeper{}
	cfg.IsForwardedHTLC = func(_ lnwire.ShortChannelID, idx uint64) bool { return fwd[idx] }
	cfg.DeliverResolutionMsg = func(msgs ...ResolutionMsg) error {
		rec.mu.Lock()
		defer rec.mu.Unlock()
		for _, m := range msgs {
			sl := rec.slotOf(false, m.HtlcIndex)
			switch {
			case sl < 0:
				rec.other++
			case m.Failure != nil:
				rec.fails[sl]++
			default:
				rec.settles[sl]++
			}
		}
		return nil
	}
	cfg.PutFinalHtlcOutcome = func(_ lnwire.ShortChannelID, id uint64, settled bool) error {
		rec.mu.Lock()
		defer rec.mu.Unlock()
		if sl := rec.slotOf(true, id); sl < 0 || settled {
			rec.other++
		} else {
			rec.closed[sl]++
		}
		return nil
	}
	cfg.IncubateOutputs = func(wire.OutPoint, fn.Option[lnwallet.OutgoingHtlcResolution],
		fn.Option[lnwallet.IncomingHtlcResolution], uint32, fn.Option[int32], ...IncubateOption) error {

		return nil
	}
	cfg.SubscribeBreachComplete = func(*wire.OutPoint, chan struct{}) (bool, error) { return false, nil }
	cfg.PublishTx = func(*wire.MsgTx, string) error {
		rec.mu.Lock()
		rec.pub++
		rec.mu.Unlock()
		return nil
	}
	cfg.NotifyChannelResolved = func() {
		rec.mu.Lock()
		rec.notified++
		rec.mu.Unlock()
	}
	cfg.Channel = &c12Channel{rec: rec}

	blog, err := newBoltArbitratorLog(db, *cfg, chainhash.Hash{}, cfg.ChanPoint)
	if err != nil {
		return nil, err
	}
	wl := &c12Log{ArbitratorLog: blog, rec: rec}
	arb.log = wl
	ctx.log = wl

	// what the link reported (or the channel state on disk said) before the start
	sets := map[HtlcSetKey]htlcSet{
		LocalHtlcSet:  newHtlcSet(c12hSet(s, "L", s.OnL)),
		RemoteHtlcSet: newHtlcSet(c12hSet(s, "R", s.OnR)),
	}
	if s.HasP == 1 {
		sets[RemotePendingHtlcSet] = newHtlcSet(c12hSet(s, "P", s.OnP))
	}
	for k, v := range sets {
		arb.activeHTLCs[k] = v
		arb.unmergedSet[k] = v
	}

	stopped := false
	stop := func() error {
		if stopped {
			return nil
		}
		stopped = true
		done := make(chan error, 1)
		go func() { done <- arb.Stop() }()
		select {
		case err := <-done:
			return err
		case <-time.After(30 * time.Second):
			return fmt.Errorf("arbitrator Stop() hangs")
		}
	}
	defer stop()

	wait := func(what string, f func()) error {
		done := make(chan struct{})
		go func() { f(); close(done) }()
		select {
		case <-done:
			return nil
		case <-time.After(30 * time.Second):
			return fmt.Errorf("%s did not return (history %d)", what, s.ID)
		}
	}

	height := c12H0
	var lines []verifkit.Rec
	snapshot := func(ev c12hEvent) {
		rec.mu.Lock()
		defer rec.mu.Unlock()
		cp := func(x []int) []int { return append([]int(nil), x...) }
		set := ev.Set
		if set == nil {
			set = make([]int, len(s.Attr))
		}
		quiet := rec.other + rec.notified
		for i := range rec.fails {
			quiet += rec.settles[i] + rec.closed[i] + rec.rn[i]
		}
		lines = append(lines, verifkit.Rec{
			"a": ev.A, "k": ev.K, "set": set, "s": ev.S, "src": ev.Src,
			"st": rec.state, "height": height, "clock": ticks,
			"fc": rec.fc, "pub": rec.pub, "fails": cp(rec.fails), "other": quiet,
		})
	}

	for _, ev := range s.Ev {
		switch ev.A {
		case "Start":
			if err := arb.Start(nil, newBeatFromHeight(int32(height))); err != nil {
				return nil, err
			}
			// the link comes up; the attendant serves it once the start-up pass is over
			err := wait("UpdateContractSignals", func() {
				arb.UpdateContractSignals(&ContractSignals{ShortChanID: lnwire.ShortChannelID{}})
			})
			if err != nil {
				return nil, err
			}

		case "Block":
			height++
			h := height
			err := wait("ProcessBlock", func() { _ = arb.ProcessBlock(newBeatFromHeight(int32(h))) })
			if err != nil {
				return nil, err
			}

		case "HtlcUpdate":
			key := LocalHtlcSet
			switch ev.K {
			case "L":
			case "R":
				key = RemoteHtlcSet
			case "P":
				key = RemotePendingHtlcSet
			default:
				return nil, fmt.Errorf("unknown commitment %q", ev.K)
			}
			arb.notifyContractUpdate(&ContractUpdate{HtlcKey: key, Htlcs: c12hSet(s, ev.K, ev.Set)})

		case "SignalUpdate":
			err := wait("UpdateContractSignals", func() {
				arb.UpdateContractSignals(&ContractSignals{
					ShortChanID: lnwire.NewShortChanIDFromInt(uint64(len(lines))),
				})
			})
			if err != nil {
				return nil, err
			}

		case "AddInvoice":
			if err := learn(ev.S, "invoice"); err != nil {
				return nil, err
			}

		case "LearnPreimage":
			if err := learn(ev.S, ev.Src); err != nil {
				return nil, err
			}

		case "ClockAdvance":
			ticks++
			clk.SetTime(t0.Add(time.Duration(ticks) * tick))

		default:
			return nil, fmt.Errorf("unknown event %q", ev.A)
		}
		snapshot(ev)
	}
	if err := stop(); err != nil {
		return nil, err
	}
	_ = blog.WipeHistory()
	return lines, nil
}

func TestVerifC12Hist(t *testing.T) {
	schedPath := os.Getenv("C12H_SCHED")
	outDir := os.Getenv("VERIF_OUT")
	if schedPath == "" || outDir == "" {
		t.Skip("C12H_SCHED / VERIF_OUT not set")
	}
	scheds, err := verifkit.ReadNDJSONInto[c12hSched](schedPath)
	if err != nil {
		t.Fatalf("histories: %v", err)
	}
	reps := verifkit.EnvInt("C12H_REPS", 1)
	workers := verifkit.EnvInt("C12_WORKERS", 3)
	if workers < 1 {
		workers = 1
	}

	type result struct {
		variants []string
		lines    [][]verifkit.Rec
		runs     int
		err      error
	}
	results := make([]result, len(scheds))
	var (
		wg   sync.WaitGroup
		mu   sync.Mutex
		next int
		runs = 1 << 20 // channel points disjoint from the cell executor's
	)
	for w := 0; w < workers; w++ {
		dbPath := filepath.Join(t.TempDir(), fmt.Sprintf("c12h_%d.db", w))
		bdb, err := kvdb.Create(kvdb.BoltBackendName, dbPath, true, kvdb.DefaultDBTimeout, false)
		if err != nil {
			t.Fatalf("db: %v", err)
		}
		defer bdb.Close()
		var db kvdb.Backend = verifkit.Wrap(bdb)
		wg.Add(1)
		go func() {
			defer wg.Done()
			for {
				mu.Lock()
				i := next
				next++
				mu.Unlock()
				if i >= len(scheds) {
					return
				}
				var res result
				for r := 0; r < reps; r++ {
					mu.Lock()
					runs++
					no := runs
					mu.Unlock()
					lines, err := c12hRun(t, db, &scheds[i], no)
					if err != nil {
						res.err = err
						break
					}
					res.runs++
					b, _ := json.Marshal(lines)
					seen := false
					for _, v := range res.variants {
						seen = seen || v == string(b)
					}
					if !seen {
						res.variants = append(res.variants, string(b))
						res.lines = append(res.lines, lines)
					}
				}
				results[i] = res
			}
		}()
	}
	wg.Wait()

	out := verifkit.MustWriter(filepath.Join(outDir, "trace_hist.ndjson"))
	defer out.Close()
	total, events := 0, 0
	for i := range scheds {
		s := &scheds[i]
		res := results[i]
		if res.err != nil {
			t.Fatalf("history %d: %v", s.ID, res.err)
		}
		for vi, lines := range res.lines {
			out.Emit(verifkit.Rec{
				"a": "Reset", "id": s.ID, "cell": s.Cell, "variant": vi + 1, "variants": len(res.lines),
				"dout": s.DOut, "din": s.DIn, "grace": s.Grace, "attr": s.Attr,
				"onL": s.OnL, "onR": s.OnR, "onP": s.OnP, "hasP": s.HasP, "known": s.Known,
			})
			for _, l := range lines {
				out.Emit(l)
			}
			events += len(lines)
		}
		total += res.runs
	}
	t.Logf("C12 histories: %d histories, %d runs on the real ChannelArbitrator, %d events recorded, reps=%d workers=%d",
		len(scheds), total, events, reps, workers)
}
