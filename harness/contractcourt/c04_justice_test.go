//go:build verif

package contractcourt

import (
	"bytes"
	"context"
	"crypto/sha256"
	"errors"
	"fmt"
	"os"
	"path/filepath"
	"strings"
	"testing"
	"time"

	"github.com/btcsuite/btcd/btcec/v2/schnorr/musig2"
	"github.com/btcsuite/btcd/txscript/v2"
	"github.com/btcsuite/btcd/wire/v2"
	"github.com/lightningnetwork/lnd/chainntnfs"
	"github.com/lightningnetwork/lnd/channeldb"
	"github.com/lightningnetwork/lnd/chanstate"
	"github.com/lightningnetwork/lnd/fn/v2"
	"github.com/lightningnetwork/lnd/input"
	"github.com/lightningnetwork/lnd/internal/verifkit"
	lnmock "github.com/lightningnetwork/lnd/lntest/mock"
	"github.com/lightningnetwork/lnd/lnwallet"
	"github.com/lightningnetwork/lnd/lnwallet/chainfee"
	"github.com/lightningnetwork/lnd/lnwire"
)

// C04 executor.  Replays spec/Channel behaviours (ChannelGen) on two real
// lnwallet channels through the EXPORTED API (this package must be
// contractcourt: the justice transaction is built by the breach arbitrator's
// own unexported code), keeps what each side would broadcast at every height
// (ForceClose() of a channel reloaded from the database right after each
// revocation), and at the end punishes every revoked height of both parties
// from a victim state freshly read from the database:
// GetStateNumHint -> NewBreachRetribution (with the breach tx / from stored
// amounts) -> newRetributionInfo -> createJusticeTx -> script interpreter on
// every input against the cheater's real transaction; then the same after the
// cheater took every HTLC to the second level.  Records facts, judges nothing
// (spec/Channel/ChannelCloseTrace.tla, event Justice).

var c4ChanTypes = map[string]channeldb.ChannelType{
	"legacy":    channeldb.SingleFunderBit,
	"tweakless": channeldb.SingleFunderTweaklessBit,
	"anchors":   channeldb.SingleFunderTweaklessBit | channeldb.AnchorOutputsBit,
	"zerofee":   channeldb.SingleFunderTweaklessBit | channeldb.AnchorOutputsBit | channeldb.ZeroHtlcTxFeeBit,
	"lease": channeldb.SingleFunderTweaklessBit | channeldb.AnchorOutputsBit | channeldb.ZeroHtlcTxFeeBit |
		channeldb.LeaseExpirationBit,
	"taproot": channeldb.SingleFunderTweaklessBit | channeldb.AnchorOutputsBit | channeldb.ZeroHtlcTxFeeBit |
		channeldb.SimpleTaprootFeatureBit,
	"taprootfinal": channeldb.SingleFunderTweaklessBit | channeldb.AnchorOutputsBit | channeldb.ZeroHtlcTxFeeBit |
		channeldb.SimpleTaprootFeatureBit | channeldb.TaprootFinalBit,
}

type c4Ev struct {
	A string `json:"a"`
	P string `json:"p"`
	X int    `json:"x"`
	Y int    `json:"y"`
}

type c4Line struct {
	c4Ev
	Err    string           `json:"err"`
	Type   string           `json:"type,omitempty"`
	Opener string           `json:"opener,omitempty"`
	Dust   map[string]int64 `json:"dust,omitempty"`
	File   string           `json:"file,omitempty"`
	Poor   int64            `json:"poor"`
}

type c4In struct {
	K     int   `json:"k"`     // 0 our to_remote, 1 their to_local, 2 HTLC we offered, 3 HTLC we received
	Idx   int64 `json:"idx"`   // output index the justice input spends
	Amt   int64 `json:"amt"`   // amount in the sign descriptor (what gets signed)
	TxAmt int64 `json:"txamt"` // value of that output in the cheater's real transaction
	Pk    int   `json:"pk"`    // descriptor script == real output script
	Seq   int64 `json:"seq"`
	Eng   int   `json:"eng"`  // interpreter verdict inside the spend-all justice tx
	Eng2  int   `json:"eng2"` // ... inside the commit-outputs-only / HTLCs-only variant
}

type c4SL struct {
	K     int   `json:"k"`     // 2 HTLC we offered, 3 HTLC we received
	Idx   int64 `json:"idx"`   // output index of the HTLC on the revoked commitment
	J     int64 `json:"j"`     // position of the input that spends it in the cheater's second-level tx
	OIdx  int64 `json:"oidx"`  // output index the breach arbitrator redirected the justice input to
	Amt   int64 `json:"amt"`   // amount in the morphed sign descriptor
	TxAmt int64 `json:"txamt"` // value of the output at position j of the cheater's second-level tx
	Eng   int   `json:"eng"`   // interpreter verdict of the second-level justice input
}

type c4Justice struct {
	c4Ev
	Err         string `json:"err"`
	NoAmt       int    `json:"noamt"`
	Hint        int64  `json:"hint"`
	TxID        int    `json:"txid"`
	NIn         int    `json:"nin"`
	NOutTx      int    `json:"nouttx"`
	NAnch       int    `json:"nanch"`
	Ins         []c4In `json:"ins"`
	OurIdx      int64  `json:"ouridx"`
	TheirIdx    int64  `json:"theiridx"`
	OurAmtLog   int64  `json:"ouramtlog"`
	TheirAmtLog int64  `json:"theiramtlog"`
	NHtlcLog    int    `json:"nhtlclog"`
	SL2         int    `json:"sl2"`
	SL          []c4SL `json:"sl"`
	BSL2        int    `json:"bsl2"` // 1: the cheater took >= 2 HTLCs to the second level in ONE transaction
	BSL         []c4SL `json:"bsl"`
	BAll        int    `json:"ball"`   // batched case: spend-all justice tx built and every input valid
	Rec         int    `json:"rec"`    // y = 2: the chain watcher handed over a retribution for exactly this state
	Legacy      int    `json:"legacy"` // the state is stored in the deprecated (pre-0.15) revocation log format
	Hung        int    `json:"hung"`   // y = 2: handleCommitSpend did not return
	Note        string `json:"note"`   // first interpreter error, for the human reader only
}

type c4Msg struct {
	kind  string
	add   *lnwire.UpdateAddHTLC
	id    uint64
	pre   [32]byte
	sigs  *lnwallet.CommitSigs
	fee   int64
	rev   *lnwire.RevokeAndAck
	reest *lnwire.ChannelReestablish
}

type c4Side struct {
	name   string
	lc     *lnwallet.LightningChannel
	pool   *lnwallet.SigPool
	out    []c4Msg
	nextID uint64
	// what this side could broadcast at each height it ever persisted
	held map[uint64]*lnwallet.LocalForceCloseSummary
	// the chain watcher's private copy of the channel, read from the
	// database when the history starts and never touched by the link
	stale *chanstate.OpenChannel
}

func c4Engine(pkScript []byte, value int64, tx *wire.MsgTx, idx int,
	fetcher txscript.PrevOutputFetcher) (err error) {

	// a justice input that points outside the cheater's transaction has no
	// prevout: that is a verdict (invalid), not a reason for the executor to die
	defer func() {
		if r := recover(); r != nil {
			err = fmt.Errorf("interpreter set-up failed: %v", r)
		}
	}()
	hc := txscript.NewTxSigHashes(tx, fetcher)
	vm, err := txscript.NewEngine(pkScript, tx, idx, txscript.StandardVerifyFlags, nil, hc, value, fetcher)
	if err != nil {
		return err
	}
	return vm.Execute()
}

func c4Bit(err error) int {
	if err == nil {
		return 1
	}
	return 0
}

func c4IsConstraintErr(err error) bool {
	if err == nil {
		return false
	}
	s := strings.ToLower(err.Error())
	for _, k := range []string{"insufficient", "below", "exceeds", "max", "reserve", "balance", "dust", "fee"} {
		if strings.Contains(s, k) {
			return true
		}
	}
	return false
}

func (s *c4Side) reload(thaw uint32) (*lnwallet.LightningChannel, error) {
	st := s.lc.State()
	chans, err := st.Db.FetchOpenChannels(st.IdentityPub)
	if err != nil || len(chans) != 1 {
		return nil, fmt.Errorf("FetchOpenChannels: %v n=%d", err, len(chans))
	}
	if chans[0].ChanType.HasLeaseExpiration() {
		chans[0].ThawHeight = thaw // see c5Reload in harness/lnwallet/c05_close_test.go
	}
	return lnwallet.NewLightningChannel(s.lc.Signer, chans[0], s.pool)
}

// snapshot records what this side would broadcast with the commitment it has
// on disk now (computed on a reloaded copy).
func (s *c4Side) snapshot(thaw uint32) error {
	sh, err := s.reload(thaw)
	if err != nil {
		return err
	}
	h := sh.State().LocalCommitment.CommitHeight
	if h == 0 {
		return nil
	}
	sum, err := sh.ForceClose()
	if err != nil {
		return fmt.Errorf("ForceClose at height %d: %w", h, err)
	}
	s.held[h] = sum
	return nil
}

func c4Kind(wt input.WitnessType) int {
	switch wt {
	case input.CommitmentNoDelay, input.CommitSpendNoDelayTweakless, input.CommitmentToRemoteConfirmed,
		input.TaprootRemoteCommitSpend, input.TaprootRemoteCommitSpendFinal:
		return 0
	case input.CommitmentRevoke, input.TaprootCommitmentRevoke, input.TaprootCommitmentRevokeFinal:
		return 1
	case input.HtlcOfferedRevoke, input.TaprootHtlcOfferedRevoke:
		return 2
	case input.HtlcAcceptedRevoke, input.TaprootHtlcAcceptedRevoke:
		return 3
	}
	return 9
}

// justice punishes height h of cheater from victim's persisted state.
// c4Store is the breach arbitrator's own retribution store (bolt): every
// retribution is written to it and the justice transactions are built from
// what ForAll reads back - "using only what the node has persisted", i.e. the
// path taken when the node restarts between the hand-over from the chain
// watcher and the sweep.
var c4Store *RetributionStore

func c4Persisted(ri *retributionInfo) (*retributionInfo, error) {
	if c4Store == nil {
		return ri, nil
	}
	if err := c4Store.Add(ri); err != nil {
		return nil, fmt.Errorf("RetributionStore.Add: %w", err)
	}
	var loaded *retributionInfo
	err := c4Store.ForAll(func(r *retributionInfo) error {
		if r.chanPoint == ri.chanPoint {
			loaded = r
		}
		return nil
	}, func() { loaded = nil })
	if err != nil {
		return nil, fmt.Errorf("RetributionStore.ForAll: %w", err)
	}
	if loaded == nil {
		return nil, errors.New("RetributionStore.ForAll: stored retribution not found")
	}
	if err := c4Store.Remove(&ri.chanPoint); err != nil {
		return nil, fmt.Errorf("RetributionStore.Remove: %w", err)
	}
	return loaded, nil
}

// verifDiverged: a schedule step the real objects cannot take.
type verifDiverged string

func c4Punish(victim, cheater *c4Side, h uint64, withTx bool, noAmt bool, thaw uint32, legacyK uint64) c4Justice {
	ln := c4Justice{c4Ev: c4Ev{A: "Justice", P: victim.name, X: int(h)}, Ins: []c4In{}, SL: []c4SL{}, BSL: []c4SL{},
		Hint: -1, OurIdx: -1, TheirIdx: -1, OurAmtLog: -1, TheirAmtLog: -1}
	if withTx {
		ln.Y = 1
	}
	if noAmt {
		ln.NoAmt = 1
	}
	if h < legacyK {
		ln.Legacy = 1
	}
	live := victim.lc.State()
	chans, err := live.Db.FetchOpenChannels(live.IdentityPub)
	if err != nil || len(chans) != 1 {
		ln.Err = fmt.Sprintf("FetchOpenChannels: %v n=%d", err, len(chans))
		return ln
	}
	vstate := chans[0]
	if vstate.ChanType.HasLeaseExpiration() {
		vstate.ThawHeight = thaw
	}
	sum := cheater.held[h]
	if sum == nil {
		ln.Err = "harness: no transaction of the cheater recorded for this height"
		return ln
	}
	breachTx := sum.CloseTx

	// chain watcher: recognise the state from the broadcast transaction
	var obf [lnwallet.StateHintSize]byte
	if vstate.IsInitiator {
		obf = lnwallet.DeriveStateHintObfuscator(vstate.LocalChanCfg.PaymentBasePoint.PubKey,
			vstate.RemoteChanCfg.PaymentBasePoint.PubKey)
	} else {
		obf = lnwallet.DeriveStateHintObfuscator(vstate.RemoteChanCfg.PaymentBasePoint.PubKey,
			vstate.LocalChanCfg.PaymentBasePoint.PubKey)
	}
	ln.Hint = int64(lnwallet.GetStateNumHint(breachTx, obf))
	ln.NOutTx = len(breachTx.TxOut)
	if vstate.ChanType.HasAnchors() {
		for _, o := range breachTx.TxOut {
			if o.Value == int64(lnwallet.AnchorSize) {
				ln.NAnch++
			}
		}
	}

	// what the revocation log holds for that height
	if rl, _, err := vstate.FindPreviousState(h); err == nil && rl != nil {
		if v := rl.OurOutputIndex.Val; v != channeldb.OutputIndexEmpty {
			ln.OurIdx = int64(v)
		}
		if v := rl.TheirOutputIndex.Val; v != channeldb.OutputIndexEmpty {
			ln.TheirIdx = int64(v)
		}
		if b, err := rl.OurBalance.ValOpt().UnwrapOrErr(errors.New("none")); err == nil {
			ln.OurAmtLog = int64(b.Int().ToSatoshis())
		}
		if b, err := rl.TheirBalance.ValOpt().UnwrapOrErr(errors.New("none")); err == nil {
			ln.TheirAmtLog = int64(b.Int().ToSatoshis())
		}
		ln.NHtlcLog = len(rl.HTLCEntries)
	}

	retribution := func() (*lnwallet.BreachRetribution, error) {
		spend := breachTx
		if !withTx {
			spend = nil
		}
		return lnwallet.NewBreachRetribution(vstate, h, 100, spend, fn.None[lnwallet.AuxLeafStore](),
			fn.None[lnwallet.AuxContractResolver]())
	}
	ret, err := retribution()
	switch {
	case errors.Is(err, lnwallet.ErrRevLogDataMissing):
		ln.Err = "missing"
		return ln
	case err != nil:
		ln.Err = "NewBreachRetribution: " + err.Error()
		return ln
	}
	breachHash := breachTx.TxHash()
	if ret.BreachTxHash == breachHash {
		ln.TxID = 1
	}
	brar := NewBreachArbitrator(&BreachConfig{
		Estimator: chainfee.NewStaticEstimator(1, 0),
		GenSweepScript: func() fn.Result[lnwallet.AddrWithKey] {
			return fn.Ok(lnwallet.AddrWithKey{DeliveryAddress: append([]byte{0x51, 0x20}, make([]byte, 32)...)})
		},
		Signer: victim.lc.Signer,
	})
	ri, err := c4Persisted(newRetributionInfo(&vstate.FundingOutpoint, ret))
	if err != nil {
		ln.Err = err.Error()
		return ln
	}
	txs, err := brar.createJusticeTx(ri.breachedOutputs)
	if err != nil || txs.spendAll == nil {
		ln.Err = fmt.Sprintf("createJusticeTx: %v", err)
		return ln
	}
	// verdicts of one justice tx variant, keyed by the outpoint spent
	note := func(what string, err error) {
		if err != nil && ln.Note == "" {
			ln.Note = what + ": " + err.Error()
		}
	}
	verdicts := func(jc *justiceTxCtx) map[wire.OutPoint]int {
		res := map[wire.OutPoint]int{}
		if jc == nil {
			return res
		}
		j := jc.justiceTx
		fetcher := txscript.NewMultiPrevOutFetcher(nil)
		for _, in := range j.TxIn {
			op := in.PreviousOutPoint
			if op.Hash == breachHash && int(op.Index) < len(breachTx.TxOut) {
				fetcher.AddPrevOut(op, breachTx.TxOut[op.Index])
			}
		}
		for i, in := range j.TxIn {
			op := in.PreviousOutPoint
			if op.Hash != breachHash || int(op.Index) >= len(breachTx.TxOut) {
				res[op] = 0
				continue
			}
			o := breachTx.TxOut[op.Index]
			eerr := c4Engine(o.PkScript, o.Value, j, i, fetcher)
			note(fmt.Sprintf("input spending output %d (locktime %d, sequence %d)", op.Index, j.LockTime,
				in.Sequence), eerr)
			res[op] = c4Bit(eerr)
		}
		return res
	}
	all, commits, htlcs := verdicts(txs.spendAll), verdicts(txs.spendCommitOuts), verdicts(txs.spendHTLCs)
	j := txs.spendAll.justiceTx
	ln.NIn = len(j.TxIn)
	for i := range ri.breachedOutputs {
		bo := &ri.breachedOutputs[i]
		op := bo.OutPoint()
		in := c4In{K: c4Kind(bo.WitnessType()), Idx: int64(op.Index), Amt: bo.SignDesc().Output.Value, TxAmt: -1,
			Seq: -1, Eng: 0, Eng2: 0}
		if op.Hash == breachHash && int(op.Index) < len(breachTx.TxOut) {
			o := breachTx.TxOut[op.Index]
			in.TxAmt = o.Value
			if bytes.Equal(o.PkScript, bo.SignDesc().Output.PkScript) {
				in.Pk = 1
			}
		}
		for _, ti := range j.TxIn {
			if ti.PreviousOutPoint == op {
				in.Seq = int64(ti.Sequence)
			}
		}
		if v, ok := all[op]; ok {
			in.Eng = v
		}
		part := commits
		if in.K >= 2 {
			part = htlcs
		}
		if v, ok := part[op]; ok {
			in.Eng2 = v
		}
		ln.Ins = append(ln.Ins, in)
	}

	// the cheater first advances every HTLC with its (revoked) second-level
	// transaction: the breach arbitrator morphs the inputs
	res, rerr := sum.ContractResolutions.UnwrapOrErr(errors.New("no resolutions"))
	if rerr != nil {
		return ln
	}
	second := map[wire.OutPoint]*wire.MsgTx{}
	for i := range res.HtlcResolutions.OutgoingHTLCs {
		if tx := res.HtlcResolutions.OutgoingHTLCs[i].SignedTimeoutTx; tx != nil {
			second[tx.TxIn[0].PreviousOutPoint] = tx
		}
	}
	for i := range res.HtlcResolutions.IncomingHTLCs {
		if tx := res.HtlcResolutions.IncomingHTLCs[i].SignedSuccessTx; tx != nil {
			second[tx.TxIn[0].PreviousOutPoint] = tx
		}
	}
	ret2, err := retribution()
	if err != nil {
		return ln
	}
	ln.SL2 = 1
	ri2, err := c4Persisted(newRetributionInfo(&vstate.FundingOutpoint, ret2))
	if err != nil {
		note("retribution store", err)
		return ln
	}
	spent := map[wire.OutPoint]*wire.MsgTx{} // second-level outpoint -> the tx that created it
	for i := range ri2.breachedOutputs {
		bo := &ri2.breachedOutputs[i]
		if c4Kind(bo.WitnessType()) < 2 {
			continue
		}
		kind, orig := c4Kind(bo.WitnessType()), bo.OutPoint()
		stx := second[orig]
		if stx == nil {
			ln.SL = append(ln.SL, c4SL{K: kind, Idx: int64(orig.Index), OIdx: -1, Amt: -1, TxAmt: -1})
			continue
		}
		sh := stx.TxHash()
		convertToSecondLevelRevoke(bo, ri2, &chainntnfs.SpendDetail{
			SpentOutPoint: &stx.TxIn[0].PreviousOutPoint, SpenderTxHash: &sh, SpendingTx: stx,
			SpenderInputIndex: 0, SpendingHeight: 101,
		})
		spent[bo.OutPoint()] = stx
		rec := c4SL{K: kind, Idx: int64(orig.Index), J: 0, OIdx: -1, Amt: bo.SignDesc().Output.Value,
			TxAmt: stx.TxOut[0].Value}
		if bo.OutPoint().Hash == sh {
			rec.OIdx = int64(bo.OutPoint().Index)
		}
		ln.SL = append(ln.SL, rec)
	}
	// verdicts of the second-level justice transactions, keyed by the outpoint spent
	slVerdicts := func(txs *justiceTxVariants, prev func(wire.OutPoint) *wire.TxOut) map[wire.OutPoint]int {
		res := map[wire.OutPoint]int{}
		if txs == nil {
			return res
		}
		for _, jc := range txs.spendSecondLevelHTLCs {
			for i, in := range jc.justiceTx.TxIn {
				o := prev(in.PreviousOutPoint)
				if o == nil {
					res[in.PreviousOutPoint] = 0
					continue
				}
				fetcher := txscript.NewCannedPrevOutputFetcher(o.PkScript, o.Value)
				eerr := c4Engine(o.PkScript, o.Value, jc.justiceTx, i, fetcher)
				note("second-level justice input", eerr)
				res[in.PreviousOutPoint] = c4Bit(eerr)
			}
		}
		return res
	}
	txs2, err := brar.createJusticeTx(ri2.breachedOutputs)
	if err != nil {
		note("createJusticeTx after second-level spends", err)
	}
	v2 := slVerdicts(txs2, func(op wire.OutPoint) *wire.TxOut {
		if stx := spent[op]; stx != nil && int(op.Index) < len(stx.TxOut) {
			return stx.TxOut[op.Index]
		}
		return nil
	})
	k := 0
	for i := range ri2.breachedOutputs {
		bo := &ri2.breachedOutputs[i]
		if bo.WitnessType() == input.HtlcSecondLevelRevoke || bo.WitnessType() == input.TaprootHtlcSecondLevelRevoke {
			for k < len(ln.SL) && ln.SL[k].OIdx < 0 {
				k++
			}
			if k < len(ln.SL) {
				ln.SL[k].Eng = v2[bo.OutPoint()]
				k++
			}
		}
	}

	// The same when the cheater AGGREGATES all its second-level spends into one
	// transaction, which the SINGLE|ANYONECANPAY signatures of anchor channels
	// permit: input j pairs with output j.  Fed through updateBreachInfo, as
	// exactRetribution does with the spends it is notified of.
	if !vstate.ChanType.HasAnchors() {
		return ln
	}
	ret3, err := retribution()
	if err != nil {
		return ln
	}
	ri3, err := c4Persisted(newRetributionInfo(&vstate.FundingOutpoint, ret3))
	if err != nil {
		note("retribution store", err)
		return ln
	}
	var order []int
	for i := len(ri3.breachedOutputs) - 1; i >= 0; i-- { // not in commitment order
		bo := &ri3.breachedOutputs[i]
		if c4Kind(bo.WitnessType()) >= 2 && second[bo.OutPoint()] != nil {
			order = append(order, i)
		}
	}
	if len(order) < 2 {
		return ln
	}
	ln.BSL2 = 1
	batch := wire.NewMsgTx(2)
	for _, i := range order {
		stx := second[ri3.breachedOutputs[i].OutPoint()]
		batch.AddTxIn(stx.TxIn[0])
		batch.AddTxOut(stx.TxOut[0])
	}
	bh := batch.TxHash()
	var spends []spend
	for j, i := range order {
		bo := &ri3.breachedOutputs[i]
		op := bo.OutPoint()
		ln.BSL = append(ln.BSL, c4SL{K: c4Kind(bo.WitnessType()), Idx: int64(op.Index), J: int64(j), OIdx: -1,
			Amt: -1, TxAmt: batch.TxOut[j].Value})
		spends = append(spends, spend{index: i, detail: &chainntnfs.SpendDetail{
			SpentOutPoint: &op, SpenderTxHash: &bh, SpendingTx: batch, SpenderInputIndex: uint32(j),
			SpendingHeight: 101,
		}})
	}
	updateBreachInfo(ri3, spends)
	txs3, err := brar.createJusticeTx(ri3.breachedOutputs)
	if err != nil {
		note("createJusticeTx after the batched second-level spend", err)
	}
	prev3 := func(op wire.OutPoint) *wire.TxOut {
		switch {
		case op.Hash == bh && int(op.Index) < len(batch.TxOut):
			return batch.TxOut[op.Index]
		case op.Hash == breachHash && int(op.Index) < len(breachTx.TxOut):
			return breachTx.TxOut[op.Index]
		}
		return nil
	}
	v3 := slVerdicts(txs3, prev3)
	for j, i := range order {
		if i >= len(ri3.breachedOutputs) {
			continue
		}
		bo := &ri3.breachedOutputs[i]
		ln.BSL[j].Amt = bo.SignDesc().Output.Value
		if bo.OutPoint().Hash == bh {
			ln.BSL[j].OIdx = int64(bo.OutPoint().Index)
		}
		ln.BSL[j].Eng = v3[bo.OutPoint()]
	}
	if txs3 != nil && txs3.spendAll != nil {
		ln.BAll = 1
		jt := txs3.spendAll.justiceTx
		fetcher := txscript.NewMultiPrevOutFetcher(nil)
		for _, in := range jt.TxIn {
			if o := prev3(in.PreviousOutPoint); o != nil {
				fetcher.AddPrevOut(in.PreviousOutPoint, o)
			}
		}
		for i, in := range jt.TxIn {
			o := prev3(in.PreviousOutPoint)
			if o == nil {
				ln.BAll = 0
				continue
			}
			// F11: the victim's own lease-locked to_remote input is judged on the
			// first-level lines; here only the second-level inputs and to_local count
			if eerr := c4Engine(o.PkScript, o.Value, jt, i, fetcher); eerr != nil &&
				!(in.PreviousOutPoint.Hash == breachHash && in.PreviousOutPoint == ret3.LocalOutpoint) {

				note("spend-all after the batched second-level spend", eerr)
				ln.BAll = 0
			}
		}
	}
	return ln
}

// c4Watch: the chain watcher's own path with its own, STALE copy of the channel
// state - handleCommitSpend: newChainSet (refreshes the revocation store from
// the database), state hint, known local / remote state, handlePossibleBreach ->
// NewBreachRetribution -> contractBreach hand-off.
func c4Watch(victim, cheater *c4Side, w *chainWatcher, got *[]*lnwallet.BreachRetribution, h uint64,
	noAmt bool) c4Justice {

	ln := c4Justice{c4Ev: c4Ev{A: "Justice", P: victim.name, X: int(h), Y: 2}, Ins: []c4In{}, SL: []c4SL{},
		BSL: []c4SL{}, Hint: -1, OurIdx: -1, TheirIdx: -1, OurAmtLog: -1, TheirAmtLog: -1}
	if noAmt {
		ln.NoAmt = 1
	}
	sum := cheater.held[h]
	if sum == nil {
		ln.Err = "harness: no transaction of the cheater recorded for this height"
		return ln
	}
	breachTx := sum.CloseTx
	txid := breachTx.TxHash()
	ln.Hint = int64(w.cfg.extractStateNumHint(breachTx, w.stateHintObfuscator))
	*got = nil
	// in its own goroutine: a watcher that takes the revoked transaction for
	// something else may wait for subscribers that do not exist here
	done := make(chan error, 1)
	go func() {
		spend := &chainntnfs.SpendDetail{
			SpenderTxHash: &txid, SpendingTx: breachTx, SpendingHeight: 100,
		}
		// the production (multi-confirmation) path: the spend is first
		// detected - the watcher records the close height through ITS
		// handle -, on odd heights reorged out and detected again, and
		// handled once it is deep enough
		w.processDetectedSpend(spend, "verif", nil, nil)
		if h%2 == 1 {
			_ = w.cfg.chanState.ResetCloseConfirmationHeight()
			w.processDetectedSpend(spend, "verif", nil, nil)
		}
		done <- w.handleCommitSpend(spend)
	}()
	select {
	case err := <-done:
		if err != nil {
			ln.Err = err.Error()
		}
	case <-time.After(60 * time.Second):
		ln.Err = "handleCommitSpend did not return (no breach hand-over within 60s)"
		ln.Hung = 1
		return ln
	}
	if len(*got) == 1 && (*got)[0].RevokedStateNum == h && (*got)[0].BreachTxHash == txid {
		ln.Rec, ln.TxID = 1, 1
	}
	return ln
}

func TestVerifC04Justice(t *testing.T) {
	lnwallet.VerifSetTestChannelCapacity(0.01)
	rsdb, err := channeldb.MakeTestDB(t)
	if err != nil {
		t.Fatal(err)
	}
	c4Store = NewRetributionStore(rsdb)

	dir := os.Getenv("VERIF_SCHED")
	files := verifkit.ListFiles(dir, "b_", ".ndjson")
	if len(files) == 0 {
		t.Fatalf("no schedules in %q", dir)
	}
	typeNames := strings.Split(verifkit.Env("VERIF_TYPES", "tweakless"), ",")
	thaw := uint32(verifkit.EnvInt("VERIF_THAW", 600))
	out := verifkit.MustWriter(verifkit.Env("VERIF_OUT", ".") + "/trace.ndjson")
	defer out.Close()
	ctxb := context.Background()

	nsteps, njust := 0, 0
	for fi, f := range files {
		evs, err := verifkit.ReadNDJSONInto[c4Ev](f)
		if err != nil {
			t.Fatal(err)
		}
		if len(evs) == 0 || evs[0].A != "Cfg" {
			t.Fatalf("%s: first event must be Cfg", f)
		}
		tname := typeNames[(fi+int(verifkit.Seed()))%len(typeNames)]
		ctype, ok := c4ChanTypes[tname]
		if !ok {
			t.Fatalf("unknown channel type %q", tname)
		}
		// every fourth history runs on a database that stores no amounts
		// in the revocation log (channeldb option no-rev-log-amt-data)
		noAmt := (fi+int(verifkit.Seed()))%4 == 3
		// every fifth history is a channel that was in use before the compact
		// revocation log existed and whose owner never ran the optional
		// migration: its first legacyK revoked states are stored in the
		// deprecated bucket (full commitments), later ones in the new log
		legacyK := uint64(0)
		if (fi+int(verifkit.Seed()))%5 == 1 {
			legacyK = uint64(2 + fi%3)
		}
		// uneven funding split: the Cfg record carries the non-opener's share (msat)
		poor := int64(evs[0].X)
		lnwallet.VerifSetPoorShare(poor / 1000)
		alice, bob, err := lnwallet.CreateTestChannels(t, ctype, channeldb.OptionNoRevLogAmtData(noAmt))
		if err != nil {
			t.Fatal(err)
		}
		if ctype.HasLeaseExpiration() {
			alice.State().ThawHeight, bob.State().ThawHeight = thaw, thaw
		}
		opener := evs[0].P
		other := map[string]string{"A": "B", "B": "A"}
		nonOpener := other[opener]
		mk := func(n string, lc *lnwallet.LightningChannel) *c4Side {
			pool := lnwallet.NewSigPool(1, lc.Signer)
			if err := pool.Start(); err != nil {
				t.Fatal(err)
			}
			t.Cleanup(func() { _ = pool.Stop() })
			return &c4Side{name: n, lc: lc, pool: pool, held: map[uint64]*lnwallet.LocalForceCloseSummary{}}
		}
		sides := map[string]*c4Side{opener: mk(opener, alice), nonOpener: mk(nonOpener, bob)}
		for _, sd := range sides {
			st := sd.lc.State()
			chans, err := st.Db.FetchOpenChannels(st.IdentityPub)
			if err != nil || len(chans) != 1 {
				t.Fatalf("FetchOpenChannels: %v n=%d", err, len(chans))
			}
			sd.stale = chans[0]
			if ctype.HasLeaseExpiration() {
				sd.stale.ThawHeight = thaw
			}
		}
		pres := map[string][32]byte{} // "<offerer>/<htlc id>" -> preimage
		lastPre := map[string][32]byte{}
		lastExp := map[string]uint32{}
		ndup := 0
		npre := 0

		out.Emit(c4Line{c4Ev: c4Ev{A: "Reset", P: "A"}, Type: tname, Opener: opener, File: filepath.Base(f), Poor: poor,
			Dust: map[string]int64{
				opener:    int64(alice.State().LocalChanCfg.DustLimit),
				nonOpener: int64(bob.State().LocalChanCfg.DustLimit)}})

		failed := false
		// a schedule step that the real objects cannot take ends this
		// behaviour: the recorded prefix holds the deviating step, TLC judges it
		func() {
			defer func() {
				if r := recover(); r != nil {
					d, is := r.(verifDiverged)
					if !is {
						panic(r)
					}
					t.Logf("VERIF-DIVERGED %s", string(d))
					failed = true
				}
			}()
			for _, e := range evs[1:] {
				me := sides[e.P]
				peer := sides[other[e.P]]
				var err error
				pop := func() c4Msg {
					if len(peer.out) == 0 {
						panic(verifDiverged(fmt.Sprintf("%s: %v: peer queue empty", f, e)))
					}
					m := peer.out[0]
					peer.out = peer.out[1:]
					return m
				}
				name := e.A
				switch e.A {
				case "Add":
					var pre [32]byte
					var expiry uint32
					key := fmt.Sprintf("%s/%d", e.P, e.X)
					if lp, ok := lastPre[key]; ok && e.Y == 1 {
						// equal-hash duplicate: alternately fully identical and with
						// a different CLTV expiry (shards sent at different heights)
						pre, expiry = lp, lastExp[key]
						ndup++
						if ndup%2 == 1 {
							expiry += 9
						}
					} else {
						npre++
						pre[0], pre[1], pre[2] = byte(npre), byte(npre>>8), 0x5a
						expiry = uint32(500 + (npre*5)%23)
					}
					lastPre[key], lastExp[key] = pre, expiry
					htlc := &lnwire.UpdateAddHTLC{ID: me.nextID, PaymentHash: sha256.Sum256(pre[:]),
						Amount: lnwire.MilliSatoshi(e.X), Expiry: expiry}
					_, err = me.lc.AddHTLC(htlc, nil)
					if err == nil {
						me.out = append(me.out, c4Msg{kind: "add", add: htlc})
						pres[fmt.Sprintf("%s/%d", e.P, htlc.ID)] = pre
						me.nextID++
					} else if c4IsConstraintErr(err) {
						name = "AddRejected"
					}
				case "Resolve":
					id := uint64(e.X)
					if e.Y == 1 {
						pre := pres[fmt.Sprintf("%s/%d", other[e.P], id)]
						err = me.lc.SettleHTLC(pre, id, nil, nil, nil)
						if err == nil {
							me.out = append(me.out, c4Msg{kind: "settle", id: id, pre: pre})
						}
					} else {
						err = me.lc.FailHTLC(id, []byte("x"), nil, nil, nil)
						if err == nil {
							me.out = append(me.out, c4Msg{kind: "fail", id: id})
						}
					}
				case "Sign":
					var ns *lnwallet.NewCommitState
					ns, err = me.lc.SignNextCommitment(ctxb)
					if err == nil {
						me.out = append(me.out, c4Msg{kind: "sig", sigs: ns.CommitSigs})
					}
				case "RecvAdd":
					_, err = me.lc.ReceiveHTLC(pop().add)
				case "RecvRes":
					m := pop()
					if m.kind == "settle" {
						err = me.lc.ReceiveHTLCSettle(m.pre, m.id)
					} else {
						err = me.lc.ReceiveFailHTLC(m.id, []byte("x"))
					}
				case "RecvSig":
					err = me.lc.ReceiveNewCommitment(pop().sigs)
				case "Revoke":
					var rev *lnwire.RevokeAndAck
					rev, _, _, err = me.lc.RevokeCurrentCommitment()
					if err == nil {
						me.out = append(me.out, c4Msg{kind: "rev", rev: rev})
						// a new local commitment is on disk: record what we
						// would broadcast with it
						if serr := me.snapshot(thaw); serr != nil {
							t.Fatalf("%s: snapshot after %v: %v", f, e, serr)
						}
					}
				case "RecvRev":
					revoked := me.lc.State().RemoteCommitment
					_, _, err = me.lc.ReceiveRevocation(pop().rev)
					if err == nil && legacyK > 0 && revoked.CommitHeight < legacyK {
						// this state was revoked "before the upgrade": it
						// is on disk in the deprecated format only
						if derr := channeldb.VerifDemoteRevLog(me.lc.State(), revoked); derr != nil {
							t.Fatalf("demote revocation log entry: %v", derr)
						}
					}
				case "UpdateFee":
					err = me.lc.UpdateFee(chainfee.SatPerKWeight(e.X))
					if err == nil {
						me.out = append(me.out, c4Msg{kind: "fee", fee: int64(e.X)})
					}
				case "RecvFee":
					err = me.lc.ReceiveUpdateFee(chainfee.SatPerKWeight(pop().fee))
				case "Disconnect":
					for _, s := range sides {
						var nlc *lnwallet.LightningChannel
						if nlc, err = s.reload(thaw); err != nil {
							break
						}
						s.lc = nlc
						s.out = nil
						if s.nextID, err = nlc.NextLocalHtlcIndex(); err != nil {
							break
						}
					}
				case "StaleTouch":
					// status update through a stale handle (see channel_exec_test.go): the
					// model leaves everything unchanged; not exercised by this executor
				case "RecvBadRev":
					// adversarial revocation (see channel_exec_test.go): refused, nothing
					// changes; not exercised by this executor
				case "LiveRefresh":
					// channelLink.UpdateShortChanID re-reads the live channel's state
					err = me.lc.State().Refresh()
				case "SoftDisconnect":
					// API-level event, never generated for this executor's profiles
				case "SendReest":
					var m *lnwire.ChannelReestablish
					m, err = me.lc.State().ChanSyncMsg()
					if err == nil {
						if me.lc.State().ChanType.IsTaproot() {
							txid := me.lc.State().FundingOutpoint.Hash
							var nonce lnwire.Musig2Nonce
							if m.LocalNonces.IsSome() {
								nonce = m.LocalNonces.UnsafeFromSome().NoncesMap[txid]
							} else {
								nonce = m.LocalNonce.UnwrapOrFailV(t)
							}
							lnwallet.VerifSetPendingVerificationNonce(me.lc, &musig2.Nonces{PubNonce: nonce})
						}
						me.out = append(me.out, c4Msg{kind: "reest", reest: m})
					}
				case "RecvReest":
					var msgs []lnwire.Message
					msgs, _, _, err = me.lc.ProcessChanSyncMsg(ctxb, pop().reest)
					for _, x := range msgs {
						switch mm := x.(type) {
						case *lnwire.UpdateAddHTLC:
							me.out = append(me.out, c4Msg{kind: "add", add: mm})
						case *lnwire.UpdateFulfillHTLC:
							me.out = append(me.out, c4Msg{kind: "settle", id: mm.ID, pre: mm.PaymentPreimage})
						case *lnwire.UpdateFailHTLC:
							me.out = append(me.out, c4Msg{kind: "fail", id: mm.ID})
						case *lnwire.UpdateFee:
							me.out = append(me.out, c4Msg{kind: "fee", fee: int64(mm.FeePerKw)})
						case *lnwire.CommitSig:
							me.out = append(me.out, c4Msg{kind: "sig", sigs: &lnwallet.CommitSigs{
								CommitSig: mm.CommitSig, HtlcSigs: mm.HtlcSigs, PartialSig: mm.PartialSig}})
						case *lnwire.RevokeAndAck:
							me.out = append(me.out, c4Msg{kind: "rev", rev: mm})
						default:
							me.out = append(me.out, c4Msg{kind: fmt.Sprintf("%T", x)})
						}
					}
				default:
					t.Fatalf("unknown action %q", e.A)
				}
				tl := c4Line{c4Ev: e}
				tl.A = name
				if err != nil && name != "AddRejected" {
					tl.Err = err.Error()
				}
				out.Emit(tl)
				nsteps++
				if err != nil {
					if name != "AddRejected" {
						failed = true
						t.Logf("%s: step %v: %v", filepath.Base(f), e, err)
					}
					break
				}
			}
		}()
		if failed {
			continue
		}
		// punish every height the victim has a revocation for
		for _, v := range []string{"A", "B"} {
			victim, cheater := sides[v], sides[other[v]]
			top := victim.lc.State().RemoteCommitment.CommitHeight
			for h := uint64(1); h < top; h++ {
				for _, withTx := range []bool{true, false} {
					out.Emit(c4Punish(victim, cheater, h, withTx, noAmt, thaw, legacyK))
					njust++
				}
			}
			// last (it marks the channel borked in the victim's database): every
			// revoked height must be recognised by a chain watcher that was given
			// its copy of the channel before any of them was revoked
			var got []*lnwallet.BreachRetribution
			w, err := newChainWatcher(chainWatcherConfig{
				chanState: victim.stale,
				notifier: &lnmock.ChainNotifier{
					SpendChan: make(chan *chainntnfs.SpendDetail, 1),
					EpochChan: make(chan *chainntnfs.BlockEpoch),
					ConfChan:  make(chan *chainntnfs.TxConfirmation, 1),
				},
				signer: victim.lc.Signer,
				contractBreach: func(r *lnwallet.BreachRetribution) error {
					got = append(got, r)
					return nil
				},
				extractStateNumHint: lnwallet.GetStateNumHint,
				chanCloseConfs:      fn.Some(uint32(3)),
			})
			if err != nil {
				t.Fatalf("newChainWatcher: %v", err)
			}
			for h := uint64(1); h < top; h++ {
				wl := c4Watch(victim, cheater, w, &got, h, noAmt)
				if h < legacyK {
					wl.Legacy = 1
				}
				out.Emit(wl)
				njust++
				if wl.Hung == 1 {
					// the watcher's goroutine is still in there: no further
					// heights through this watcher
					break
				}
			}
		}
	}
	t.Logf("executed %d behaviours, %d steps, %d justice evaluations", len(files), nsteps, njust)
}
