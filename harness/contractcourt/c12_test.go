//go:build verif

package contractcourt

// C12 executor ("The node goes on chain before HTLC deadlines and disposes of
// every HTLC once", spec/ChainActions).
//
// Reads schedules (one JSON object per line: a CELL - up to NH HTLCs with
// direction, forwarded/own, preimage known, rel(ative expiry), presence
// absent/dust/output on the local / remote / remote-pending commitment,
// whether a pending commitment exists, grace period, broadcast deltas, whether
// ForceCloseChan fails with local data loss - and a PATH of environment events
// Start / BlockEpoch / UserForceClose / CloseEvent(k)), builds the htlc sets,
// CommitSet and ContractResolutions of the cell and drives a REAL, started
// ChannelArbitrator (createTestChannelArbitrator fixture, real bolt-backed
// ArbitratorLog) through its own goroutine: ProcessBlock, forceCloseReqs, the
// ChainEvents channels.  Every event is followed by a barrier, nothing sleeps.
//
// HTLC indices come from the schedule ("idx"): offered and received HTLCs are
// numbered independently, so an offered and a received HTLC may share an index
// (as in a real channel, where both counters start at 0); observations are
// attributed by (direction, index).
//
// Recorded, never judged: one line per environment event, one "Step" line per
// state committed to the log (CommitState), one "End" line when the event has
// been processed; each carries the cumulative number of upstream fail-backs
// (ResolutionMsg with Failure) per HTLC, of PutFinalHtlcOutcome(false) per
// HTLC, the resolver kinds inserted per HTLC by the first
// InsertUnresolvedContracts, ForceCloseChan / PublishTx / NotifyChannelResolved
// counts.  Every schedule is repeated (quick 3x, thorough 8x; the
// classification ranges over Go maps): each DISTINCT observation sequence is
// written as its own trace, and a closing "Reps" line says how many
// repetitions ran and how many distinct sequences they produced.

import (
	"encoding/json"
	"fmt"
	"os"
	"path/filepath"
	"sort"
	"sync"
	"testing"
	"time"

	"github.com/btcsuite/btcd/chainhash/v2"
	"github.com/btcsuite/btcd/wire/v2"
	"github.com/lightningnetwork/lnd/chainntnfs"
	"github.com/lightningnetwork/lnd/channeldb"
	"github.com/lightningnetwork/lnd/clock"
	"github.com/lightningnetwork/lnd/fn/v2"
	"github.com/lightningnetwork/lnd/input"
	"github.com/lightningnetwork/lnd/internal/verifkit"
	"github.com/lightningnetwork/lnd/kvdb"
	"github.com/lightningnetwork/lnd/lntypes"
	"github.com/lightningnetwork/lnd/lnwallet"
	"github.com/lightningnetwork/lnd/lnwallet/chainfee"
	"github.com/lightningnetwork/lnd/lnwire"
	"github.com/lightningnetwork/lnd/sweep"
)

const c12H0 = 100

type c12Htlc struct {
	Dir string `json:"dir"` // none | out | in
	// Idx is the HtlcIndex. Offered and received HTLCs are numbered by
	// independent counters: an offered and a received HTLC may carry the
	// same index, two HTLCs of one direction never do.
	Idx int `json:"idx"`
	Fwd int    `json:"fwd"`
	Pre int    `json:"pre"`
	Rel int    `json:"rel"`
	OnL string `json:"onL"`
	OnR string `json:"onR"`
	OnP string `json:"onP"`
}

type c12Event struct {
	A string `json:"a"`
	K string `json:"k"`
}

type c12Sched struct {
	ID    int        `json:"id"`
	HasP  int        `json:"hasP"`
	Grace int        `json:"grace"`
	DL    int        `json:"dl"`
	DOut  int        `json:"dout"`
	DIn   int        `json:"din"`
	Htlc  []c12Htlc  `json:"htlc"`
	Ev    []c12Event `json:"ev"`
}

func (h c12Htlc) on(k string) string {
	switch k {
	case "L":
		return h.OnL
	case "R":
		return h.OnR
	default:
		return h.OnP
	}
}

// c12Rec collects what the arbitrator does to the outside world.
type c12Rec struct {
	mu       sync.Mutex
	nh       int
	state    string
	height   int
	fails    []int
	settles  []int
	closed   []int
	rn       []int
	rk       []string
	inserts  int
	fc, pub  int
	notified int
	other    int
	lines    []string
	outSlot  map[uint64]int // HtlcIndex of an offered HTLC -> slot (0-based)
	inSlot   map[uint64]int // HtlcIndex of a received HTLC -> slot (0-based)
}

func c12NewRec(s *c12Sched) *c12Rec {
	nh := len(s.Htlc)
	r := &c12Rec{nh: nh, state: "Default", height: c12H0,
		outSlot: make(map[uint64]int), inSlot: make(map[uint64]int)}
	for i, h := range s.Htlc {
		switch h.Dir {
		case "out":
			r.outSlot[uint64(h.Idx)] = i
		case "in":
			r.inSlot[uint64(h.Idx)] = i
		}
	}
	r.fails = make([]int, nh)
	r.settles = make([]int, nh)
	r.closed = make([]int, nh)
	r.rn = make([]int, nh)
	r.rk = make([]string, nh)
	for i := range r.rk {
		r.rk[i] = "none"
	}
	return r
}

// slot of an HTLC index as the arbitrator reports it: upstream resolution
// messages name offered HTLCs, final outcomes name received HTLCs.
func (r *c12Rec) slotOf(incoming bool, idx uint64) int {
	m := r.outSlot
	if incoming {
		m = r.inSlot
	}
	if s, ok := m[idx]; ok {
		return s
	}
	return -1
}

// emitLocked appends one trace line (a snapshot of the cumulative observations).
func (r *c12Rec) emitLocked(a, k string) {
	cp := func(x []int) []int { return append([]int(nil), x...) }
	line := verifkit.Rec{
		"a": a, "k": k, "st": r.state, "height": r.height,
		"fails": cp(r.fails), "settles": cp(r.settles), "closed": cp(r.closed),
		"rn": cp(r.rn), "rk": append([]string(nil), r.rk...),
		"fc": r.fc, "pub": r.pub, "notified": r.notified, "other": r.other,
	}
	b, _ := json.Marshal(line)
	r.lines = append(r.lines, string(b))
}

func (r *c12Rec) emit(a, k string) {
	r.mu.Lock()
	defer r.mu.Unlock()
	r.emitLocked(a, k)
}

var c12StateNames = map[ArbitratorState]string{
	StateDefault:               "Default",
	StateBroadcastCommit:       "BroadcastCommit",
	StateCommitmentBroadcasted: "CommitmentBroadcasted",
	StateContractClosed:        "ContractClosed",
	StateWaitingFullResolution: "WaitingFullResolution",
	StateFullyResolved:         "FullyResolved",
	StateError:                 "Error",
}

// c12Log wraps the real bolt ArbitratorLog: every committed state is a trace
// line, the first batch of inserted resolvers is recorded per HTLC.
type c12Log struct {
	ArbitratorLog
	rec *c12Rec
}

func (l *c12Log) CommitState(s ArbitratorState) error {
	if err := l.ArbitratorLog.CommitState(s); err != nil {
		return err
	}
	l.rec.mu.Lock()
	l.rec.state = c12StateNames[s]
	l.rec.emitLocked("Step", "")
	l.rec.mu.Unlock()
	return nil
}

func (l *c12Log) InsertUnresolvedContracts(reports []*channeldb.ResolverReport,
	resolvers ...ContractResolver) error {

	l.rec.mu.Lock()
	l.rec.inserts++
	first := l.rec.inserts == 1
	if first {
		for _, res := range resolvers {
			var (
				kind string
				htlc channeldb.HTLC
			)
			switch r := res.(type) {
			case *htlcOutgoingContestResolver:
				kind, htlc = "ocontest", r.htlc
			case *htlcTimeoutResolver:
				kind, htlc = "timeout", r.htlc
			case *htlcIncomingContestResolver:
				kind, htlc = "icontest", r.htlc
			case *htlcSuccessResolver:
				kind, htlc = "success", r.htlc
			case *breachResolver:
				continue
			default:
				l.rec.other++
				continue
			}
			s := l.rec.slotOf(htlc.Incoming, htlc.HtlcIndex)
			if s < 0 {
				l.rec.other++
				continue
			}
			if l.rec.rn[s] == 0 {
				l.rec.rk[s] = kind
			}
			l.rec.rn[s]++
		}
	}
	l.rec.mu.Unlock()
	return l.ArbitratorLog.InsertUnresolvedContracts(reports, resolvers...)
}

type c12Channel struct {
	rec *c12Rec
	err error
}

func (c *c12Channel) NewAnchorResolutions() (*lnwallet.AnchorResolutions, error) {
	return &lnwallet.AnchorResolutions{}, nil
}

func (c *c12Channel) ForceCloseChan() (*wire.MsgTx, error) {
	c.rec.mu.Lock()
	c.rec.fc++
	c.rec.mu.Unlock()
	if c.err != nil {
		return nil, c.err
	}
	return &wire.MsgTx{}, nil
}

// c12Sweeper accepts every input and never reports a result: no resolver makes
// progress on its own, so what is observed is what the arbitrator itself does.
type c12Sweeper struct{}

func (c12Sweeper) SweepInput(input.Input, sweep.Params) (chan sweep.Result, error) {
	return make(chan sweep.Result, 1), nil
}
func (c12Sweeper) RelayFeePerKW() chainfee.SatPerKWeight { return 253 }
func (c12Sweeper) UpdateParams(wire.OutPoint, sweep.Params) (chan sweep.Result, error) {
	return make(chan sweep.Result, 1), nil
}

func c12Preimage(slot int) lntypes.Preimage {
	var p lntypes.Preimage
	p[0], p[1] = 0xc1, byte(slot)
	return p
}

func c12Hash(slot int) lntypes.Hash {
	p := c12Preimage(slot)
	return p.Hash()
}

func c12Expiry(s *c12Sched, h c12Htlc) uint32 {
	d := s.DIn
	if h.Dir == "out" {
		d = s.DOut
	}
	return uint32(c12H0 + 1 + d - h.Rel)
}

// c12Set builds the HTLC slice of commitment k.
func c12Set(s *c12Sched, k string) []channeldb.HTLC {
	var out []channeldb.HTLC
	for i, h := range s.Htlc {
		if h.Dir == "none" || h.on(k) == "absent" {
			continue
		}
		slot := i + 1
		x := channeldb.HTLC{
			Incoming:      h.Dir == "in",
			Amt:           lnwire.MilliSatoshi(10000 * slot),
			HtlcIndex:     uint64(h.Idx),
			RefundTimeout: c12Expiry(s, h),
			RHash:         c12Hash(slot),
			OutputIndex:   int32(slot),
		}
		if h.on(k) == "dust" {
			x.OutputIndex = -1
		}
		out = append(out, x)
	}
	return out
}

func c12CommitSet(s *c12Sched, key HtlcSetKey) CommitSet {
	cs := CommitSet{
		ConfCommitKey: fn.Some(key),
		HtlcSets: map[HtlcSetKey][]channeldb.HTLC{
			LocalHtlcSet:  c12Set(s, "L"),
			RemoteHtlcSet: c12Set(s, "R"),
		},
	}
	if s.HasP == 1 {
		cs.HtlcSets[RemotePendingHtlcSet] = c12Set(s, "P")
	}
	return cs
}

// c12Resolutions: one HTLC resolution per HTLC with an output on commitment k.
func c12Resolutions(s *c12Sched, k string, commitHash chainhash.Hash) *lnwallet.HtlcResolutions {
	res := &lnwallet.HtlcResolutions{}
	for i, h := range s.Htlc {
		if h.Dir == "none" || h.on(k) != "output" {
			continue
		}
		slot := i + 1
		op := wire.OutPoint{Hash: commitHash, Index: uint32(slot)}
		second := &wire.MsgTx{
			// <0> <sig> <sig> <preimage / 0> <witness script>
			TxIn: []*wire.TxIn{{PreviousOutPoint: op,
				Witness: [][]byte{{}, {0x1}, {0x2}, {}, {0x3}}}},
			TxOut: []*wire.TxOut{{}},
		}
		if h.Dir == "out" {
			r := lnwallet.OutgoingHtlcResolution{
				Expiry:        c12Expiry(s, h),
				ClaimOutpoint: op,
				SweepSignDesc: input.SignDescriptor{Output: &wire.TxOut{}},
			}
			if k == "L" {
				r.SignedTimeoutTx = second
				r.ClaimOutpoint = wire.OutPoint{Hash: second.TxHash(), Index: 0}
			}
			res.OutgoingHTLCs = append(res.OutgoingHTLCs, r)
		} else {
			r := lnwallet.IncomingHtlcResolution{
				ClaimOutpoint: op,
				SweepSignDesc: input.SignDescriptor{Output: &wire.TxOut{}},
			}
			if k == "L" {
				r.SignedSuccessTx = second
				r.ClaimOutpoint = wire.OutPoint{Hash: second.TxHash(), Index: 0}
			}
			res.IncomingHTLCs = append(res.IncomingHTLCs, r)
		}
	}
	return res
}

// c12Run executes one schedule once and returns the observation lines.
func c12Run(t *testing.T, db kvdb.Backend, s *c12Sched, runNo int) ([]string, error) {
	rec := c12NewRec(s)

	placeholder := &mockArbitratorLog{state: StateDefault, newStates: make(chan ArbitratorState, 100)}
	ctx, err := createTestChannelArbitrator(t, placeholder)
	if err != nil {
		return nil, err
	}
	arb := ctx.chanArb
	cfg := &arb.cfg

	beacon := newMockWitnessBeacon()
	fwd := make(map[uint64]bool)
	for i, h := range s.Htlc {
		if h.Dir == "none" {
			continue
		}
		if h.Pre == 1 {
			p := c12Preimage(i + 1)
			beacon.lookupPreimage[p.Hash()] = p
		}
		if h.Dir == "out" {
			fwd[uint64(h.Idx)] = h.Fwd == 1
		}
	}
	t0 := time.Date(2026, time.January, 1, 0, 0, 0, 0, time.UTC)
	clk := clock.NewTestClock(t0)
	cfg.ChanPoint = wire.OutPoint{Index: uint32(runNo)}
	cfg.PreimageDB = beacon
	cfg.Registry = &mockRegistry{}
	cfg.Clock = clk
	cfg.PaymentsExpirationGracePeriod = 10 * time.Minute
	cfg.OutgoingBroadcastDelta = uint32(s.DOut)
	cfg.IncomingBroadcastDelta = uint32(s.DIn)
	cfg.Sweeper = c12Sweeper{}
	cfg.IsForwardedHTLC = func(_ lnwire.ShortChannelID, idx uint64) bool { return fwd[idx] }
	cfg.DeliverResolutionMsg = func(msgs ...ResolutionMsg) error {
		rec.mu.Lock()
		defer rec.mu.Unlock()
		for _, m := range msgs {
			sl := rec.slotOf(false, m.HtlcIndex)
			switch {
			case sl < 0:
				rec.other++
			case m.Failure != nil:
				rec.fails[sl]++
			default:
				rec.settles[sl]++
			}
		}
		return nil
	}
	cfg.PutFinalHtlcOutcome = func(_ lnwire.ShortChannelID, id uint64, settled bool) error {
		rec.mu.Lock()
		defer rec.mu.Unlock()
		sl := rec.slotOf(true, id)
		switch {
		case sl < 0:
			rec.other++
		case !settled:
			rec.closed[sl]++
		}
		return nil
	}
	cfg.IncubateOutputs = func(wire.OutPoint, fn.Option[lnwallet.OutgoingHtlcResolution],
		fn.Option[lnwallet.IncomingHtlcResolution], uint32, fn.Option[int32], ...IncubateOption) error {

		return nil
	}
	cfg.SubscribeBreachComplete = func(*wire.OutPoint, chan struct{}) (bool, error) { return false, nil }
	cfg.PublishTx = func(*wire.MsgTx, string) error {
		rec.mu.Lock()
		rec.pub++
		rec.mu.Unlock()
		return nil
	}
	cfg.NotifyChannelResolved = func() {
		rec.mu.Lock()
		rec.notified++
		rec.mu.Unlock()
	}
	ch := &c12Channel{rec: rec}
	if s.DL == 1 {
		ch.err = lnwallet.ErrForceCloseLocalDataLoss
	}
	cfg.Channel = ch

	blog, err := newBoltArbitratorLog(db, *cfg, chainhash.Hash{}, cfg.ChanPoint)
	if err != nil {
		return nil, err
	}
	wl := &c12Log{ArbitratorLog: blog, rec: rec}
	arb.log = wl
	ctx.log = wl

	// the link's view of the three commitments
	sets := map[HtlcSetKey]htlcSet{
		LocalHtlcSet:  newHtlcSet(c12Set(s, "L")),
		RemoteHtlcSet: newHtlcSet(c12Set(s, "R")),
	}
	if s.HasP == 1 {
		sets[RemotePendingHtlcSet] = newHtlcSet(c12Set(s, "P"))
	}
	for k, v := range sets {
		arb.activeHTLCs[k] = v
		arb.unmergedSet[k] = v
	}

	stopped := false
	stop := func() error {
		if stopped {
			return nil
		}
		stopped = true
		done := make(chan error, 1)
		go func() { done <- arb.Stop() }()
		select {
		case err := <-done:
			return err
		case <-time.After(30 * time.Second):
			return fmt.Errorf("arbitrator Stop() hangs")
		}
	}
	defer stop()

	wait := func(what string, f func()) error {
		done := make(chan struct{})
		go func() { f(); close(done) }()
		select {
		case <-done:
			return nil
		case <-time.After(30 * time.Second):
			return fmt.Errorf("%s did not return (schedule %d)", what, s.ID)
		}
	}

	height := c12H0
	closeTx := &wire.MsgTx{TxIn: []*wire.TxIn{{PreviousOutPoint: wire.OutPoint{Index: uint32(runNo)},
		Witness: [][]byte{{0x9}}}}}
	commitHash := closeTx.TxHash()

	for _, ev := range s.Ev {
		rec.mu.Lock()
		rec.height = height
		rec.mu.Unlock()
		switch ev.A {
		case "Start":
			rec.emit("Start", "")
			if err := arb.Start(nil, newBeatFromHeight(int32(height))); err != nil {
				return nil, err
			}
			// the attendant enters its loop only after the start-up pass
			err := wait("UpdateContractSignals", func() {
				arb.UpdateContractSignals(&ContractSignals{ShortChanID: lnwire.ShortChannelID{}})
			})
			if err != nil {
				return nil, err
			}
			if s.Grace == 1 {
				clk.SetTime(t0.Add(time.Hour))
			} else {
				clk.SetTime(t0.Add(time.Minute))
			}

		case "BlockEpoch":
			height++
			rec.mu.Lock()
			rec.height = height
			rec.emitLocked("BlockEpoch", "")
			rec.mu.Unlock()
			h := height
			err := wait("ProcessBlock", func() { _ = arb.ProcessBlock(newBeatFromHeight(int32(h))) })
			if err != nil {
				return nil, err
			}

		case "UserForceClose":
			rec.emit("UserForceClose", "")
			errChan := make(chan error, 1)
			respChan := make(chan *wire.MsgTx, 1)
			err := wait("forceCloseReq", func() {
				arb.forceCloseReqs <- &forceCloseReq{errResp: errChan, closeTx: respChan}
				<-respChan
				<-errChan
			})
			if err != nil {
				return nil, err
			}

		case "CloseEvent":
			rec.emit("CloseEvent", ev.K)
			switch ev.K {
			case "L":
				arb.cfg.ChainEvents.LocalUnilateralClosure <- &LocalUnilateralCloseInfo{
					SpendDetail: &chainntnfs.SpendDetail{SpendingHeight: int32(height)},
					LocalForceCloseSummary: &lnwallet.LocalForceCloseSummary{
						CloseTx: closeTx,
						ContractResolutions: fn.Some(lnwallet.ContractResolutions{
							HtlcResolutions: c12Resolutions(s, "L", commitHash),
						}),
					},
					ChannelCloseSummary: &channeldb.ChannelCloseSummary{},
					CommitSet:           c12CommitSet(s, LocalHtlcSet),
				}
			case "R", "P":
				key := RemoteHtlcSet
				if ev.K == "P" {
					key = RemotePendingHtlcSet
				}
				hh := commitHash
				arb.cfg.ChainEvents.RemoteUnilateralClosure <- &RemoteUnilateralCloseInfo{
					UnilateralCloseSummary: &lnwallet.UnilateralCloseSummary{
						SpendDetail: &chainntnfs.SpendDetail{
							SpenderTxHash: &hh, SpendingTx: closeTx, SpendingHeight: int32(height),
						},
						HtlcResolutions: c12Resolutions(s, ev.K, commitHash),
					},
					CommitSet: c12CommitSet(s, key),
				}
			case "breach":
				arb.cfg.ChainEvents.ContractBreach <- &BreachCloseInfo{
					BreachResolution: &BreachResolution{FundingOutPoint: cfg.ChanPoint},
					CommitHash:       commitHash,
					CommitSet:        c12CommitSet(s, RemoteHtlcSet),
					CloseSummary:     channeldb.ChannelCloseSummary{CloseHeight: uint32(height)},
				}
			case "coop":
				arb.cfg.ChainEvents.CooperativeClosure <- &CooperativeCloseInfo{
					ChannelCloseSummary: &channeldb.ChannelCloseSummary{CloseHeight: uint32(height)},
				}
			default:
				return nil, fmt.Errorf("unknown close kind %q", ev.K)
			}
			// barrier: a beat at the unchanged height; whether the select loop
			// or handleBlockbeat picks the close event up, it has been handled
			// when ProcessBlock returns (the contract is closed by then, so
			// the beat itself advances nothing)
			h := height
			err := wait("ProcessBlock(barrier)", func() { _ = arb.ProcessBlock(newBeatFromHeight(int32(h))) })
			if err != nil {
				return nil, err
			}

		default:
			return nil, fmt.Errorf("unknown event %q", ev.A)
		}
		rec.emit("End", "")
	}
	if err := stop(); err != nil {
		return nil, err
	}
	_ = blog.WipeHistory()
	rec.mu.Lock()
	defer rec.mu.Unlock()
	return append([]string(nil), rec.lines...), nil
}

func TestVerifC12ChainActions(t *testing.T) {
	schedPath := os.Getenv("VERIF_SCHED")
	outDir := os.Getenv("VERIF_OUT")
	if schedPath == "" || outDir == "" {
		t.Skip("VERIF_SCHED / VERIF_OUT not set")
	}
	scheds, err := verifkit.ReadNDJSONInto[c12Sched](schedPath)
	if err != nil {
		t.Fatalf("schedules: %v", err)
	}
	reps := verifkit.EnvInt("C12_REPS", 3)
	workers := verifkit.EnvInt("C12_WORKERS", 3)
	if workers < 1 {
		workers = 1
	}

	type result struct {
		variants []string // JSON text of the observation lines, one entry per distinct sequence
		lines    [][]string
		runs     int
		err      error
	}
	results := make([]result, len(scheds))

	var (
		wg   sync.WaitGroup
		next int
		mu   sync.Mutex
		runs int
	)
	for w := 0; w < workers; w++ {
		dbPath := filepath.Join(t.TempDir(), fmt.Sprintf("c12_%d.db", w))
		bdb, err := kvdb.Create(kvdb.BoltBackendName, dbPath, true, kvdb.DefaultDBTimeout, false)
		if err != nil {
			t.Fatalf("db: %v", err)
		}
		defer bdb.Close()
		// the wrapper is not a BatchDB: kvdb.Batch becomes a plain Update
		// (bbolt's Batch would wait 10 ms per transaction to coalesce)
		var db kvdb.Backend = verifkit.Wrap(bdb)
		wg.Add(1)
		go func(w int) {
			defer wg.Done()
			for {
				mu.Lock()
				i := next
				next++
				mu.Unlock()
				if i >= len(scheds) {
					return
				}
				s := &scheds[i]
				var res result
				for r := 0; r < reps; r++ {
					mu.Lock()
					runs++
					no := runs
					mu.Unlock()
					lines, err := c12Run(t, db, s, no)
					if err != nil {
						res.err = err
						break
					}
					res.runs++
					b, _ := json.Marshal(lines)
					seen := false
					for _, v := range res.variants {
						if v == string(b) {
							seen = true
						}
					}
					if !seen {
						res.variants = append(res.variants, string(b))
						res.lines = append(res.lines, lines)
					}
				}
				results[i] = res
			}
		}(w)
	}
	wg.Wait()

	out := verifkit.MustWriter(filepath.Join(outDir, "trace.ndjson"))
	defer out.Close()
	total := 0
	for i := range scheds {
		s := &scheds[i]
		res := results[i]
		if res.err != nil {
			t.Fatalf("schedule %d: %v", s.ID, res.err)
		}
		// deterministic order of the variants
		order := make([]int, len(res.lines))
		for j := range order {
			order[j] = j
		}
		sort.Slice(order, func(a, b int) bool { return res.variants[order[a]] < res.variants[order[b]] })
		for vi, j := range order {
			out.Emit(verifkit.Rec{
				"a": "Reset", "id": s.ID, "variant": vi + 1, "nh": len(s.Htlc),
				"hasP": s.HasP, "grace": s.Grace, "dl": s.DL, "dout": s.DOut, "din": s.DIn,
				"htlc": s.Htlc,
			})
			for _, l := range res.lines[j] {
				out.Emit(json.RawMessage(l))
			}
			out.Emit(verifkit.Rec{"a": "Reps", "id": s.ID, "n": res.runs, "distinct": len(res.lines),
				"variant": vi + 1})
		}
		total += res.runs
	}
	t.Logf("C12: %d schedules, %d runs on the real ChannelArbitrator, reps=%d workers=%d",
		len(scheds), total, reps, workers)
}
