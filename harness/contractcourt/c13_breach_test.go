//go:build verif

// C13 part B (spec/Arbitrator/BreachJustice.tla): the breach scenario with the REAL BreachArbitrator (real
// RetributionStore on the real channeldb, real handleBreachHandoff / start() reconciliation / exactRetribution /
// cleanupBreach) and the REAL breachResolver persisted in a real boltArbitratorLog, driven through plans of
// tokens (H hand-off, M mark pending closed, I insert+launch the breach resolver, L relaunch it, C breach tx
// confirms, Tl/Tr the counterparty takes a commitment output, J the justice tx published last confirms, X stop +
// start of everything) plus one injected stop at the k-th durable write.  Every durable write, every published
// justice tx, every SubscribeBreachComplete answer and every environment event is one NDJSON line with the
// durable state read back from the database.  No judgement here: BreachJusticeTrace decides.
package contractcourt

import (
	"encoding/json"
	"errors"
	"fmt"
	"os"
	"sort"
	"strings"
	"sync"
	"testing"
	"time"

	"github.com/btcsuite/btcd/btcec/v2"
	"github.com/btcsuite/btcd/chainhash/v2"
	"github.com/btcsuite/btcd/wire/v2"
	"github.com/lightningnetwork/lnd/chainntnfs"
	"github.com/lightningnetwork/lnd/channeldb"
	"github.com/lightningnetwork/lnd/chanstate"
	"github.com/lightningnetwork/lnd/fn/v2"
	"github.com/lightningnetwork/lnd/input"
	"github.com/lightningnetwork/lnd/internal/verifkit"
	"github.com/lightningnetwork/lnd/lntest/channels"
	"github.com/lightningnetwork/lnd/lntest/mock"
	"github.com/lightningnetwork/lnd/lnwallet"
	"github.com/lightningnetwork/lnd/lnwallet/chainfee"
)

type c13bRec struct {
	A    string   `json:"a"`
	W    string   `json:"w"`
	O    string   `json:"o"`
	Ins  []string `json:"ins"`
	Cp   int      `json:"cp"`
	R    int      `json:"r"`
	Err  int      `json:"err"`
	Ret  int      `json:"ret"`
	Ch   string   `json:"ch"`
	Rr   string   `json:"rr"`
	Plan string   `json:"plan"`
}

type c13bPlan struct {
	Toks []string `json:"toks"`
	Stop int      `json:"stop"`
}

func (p c13bPlan) name() string { return fmt.Sprintf("%s|%d", strings.Join(p.Toks, "."), p.Stop) }

var errC13bStop = errors.New("c13b: injected stop")

// notifier: the mock spend notifier (spends survive a restart: the chain does) + a confirmation that is
// re-delivered to every later registration
type c13bNotifier struct {
	*mock.SpendNotifier
	mu    sync.Mutex
	conf  bool
	chans []chan *chainntnfs.TxConfirmation
	regs  map[int]int
	inc   *int
}

func (n *c13bNotifier) RegisterConfirmationsNtfn(_ *chainhash.Hash, _ []byte, _, _ uint32,
	_ ...chainntnfs.NotifierOption) (*chainntnfs.ConfirmationEvent, error) {

	n.mu.Lock()
	defer n.mu.Unlock()
	ch := make(chan *chainntnfs.TxConfirmation, 1)
	if n.conf {
		ch <- &chainntnfs.TxConfirmation{}
	} else {
		n.chans = append(n.chans, ch)
	}
	n.regs[*n.inc]++
	return &chainntnfs.ConfirmationEvent{Confirmed: ch, Cancel: func() {}}, nil
}

func (n *c13bNotifier) confirm() {
	n.mu.Lock()
	defer n.mu.Unlock()
	n.conf = true
	for _, ch := range n.chans {
		ch <- &chainntnfs.TxConfirmation{}
	}
	n.chans = nil
}

func (n *c13bNotifier) registered(inc int) bool {
	n.mu.Lock()
	defer n.mu.Unlock()
	return n.regs[inc] > 0
}

type c13bWorld struct {
	mu   sync.Mutex
	recs []c13bRec
	plan c13bPlan

	cdb   *channeldb.DB
	cp    wire.OutPoint
	alice *lnwallet.LightningChannel
	retr  *lnwallet.BreachRetribution
	spTx  *spendTxs
	names map[wire.OutPoint]string
	ops   map[string]wire.OutPoint
	spent map[string]bool
	ntf   *c13bNotifier
	log   *boltArbitratorLog

	inc      int
	brar     *BreachArbitrator
	breaches chan *ContractBreachEvent
	up       bool
	acked    bool
	ackCh    chan error

	writes, stopAt int
	dead           bool
	stalled        bool

	lastPub *wire.MsgTx
	pubInc  int

	// per incarnation observation counters (harness synchronisation only)
	added, markTried, markFailed, removeTried, removeFailed bool
	nSub, nCkpt                                            int
	lastCp                                                 int
	res                                                    *breachResolver
	resDone                                                chan struct{}
}

const c13bPatience = 60 * time.Second

// ---------------------------------------------------------------- projection + emission
func (w *c13bWorld) proj(r *c13bRec) {
	ok, err := NewRetributionStore(w.cdb).IsBreached(&w.cp)
	if err == nil && ok {
		r.Ret = 1
	}
	sum, err := w.cdb.ChannelStateDB().FetchClosedChannel(&w.cp)
	switch {
	case err != nil:
		r.Ch = "open"
	case sum.IsPending:
		r.Ch = "pending"
	default:
		r.Ch = "closed"
	}
	r.Rr = "none"
	if cs, err := w.log.FetchUnresolvedContracts(); err == nil {
		for _, c := range cs {
			if b, ok := c.(*breachResolver); ok {
				if b.IsResolved() {
					r.Rr = "res"
				} else {
					r.Rr = "unres"
				}
			}
		}
	}
}

func (w *c13bWorld) emit(r c13bRec) {
	w.mu.Lock()
	defer w.mu.Unlock()
	if r.Ins == nil {
		r.Ins = []string{}
	}
	w.proj(&r)
	w.recs = append(w.recs, r)
}

func (w *c13bWorld) state() c13bRec {
	var r c13bRec
	w.mu.Lock()
	defer w.mu.Unlock()
	w.proj(&r)
	return r
}

// the k-th durable write is where the node stops: it and every later write of this incarnation fail
func (w *c13bWorld) fail(name string) bool {
	w.mu.Lock()
	w.writes++
	hit := w.dead || w.writes == w.stopAt
	first := hit && !w.dead
	if hit {
		w.dead = true
	}
	w.mu.Unlock()
	if first {
		w.emit(c13bRec{A: "Stop", W: name})
	}
	return hit
}

func (w *c13bWorld) isDead() bool {
	w.mu.Lock()
	defer w.mu.Unlock()
	return w.dead
}

// ---------------------------------------------------------------- recording wrappers
type c13bStore struct {
	RetributionStorer
	w *c13bWorld
}

func (s *c13bStore) Add(ret *retributionInfo) error {
	if s.w.fail("Add") {
		return errC13bStop
	}
	err := s.RetributionStorer.Add(ret)
	s.w.mu.Lock()
	s.w.added = true
	s.w.mu.Unlock()
	s.w.emit(c13bRec{A: "Write", W: "Add", Err: c13bBit(err != nil)})
	return err
}

func (s *c13bStore) Remove(op *wire.OutPoint) error {
	done := func(failed bool) {
		s.w.mu.Lock()
		s.w.removeTried = true
		s.w.removeFailed = failed
		s.w.mu.Unlock()
	}
	if s.w.fail("Remove") {
		done(true)
		return errC13bStop
	}
	err := s.RetributionStorer.Remove(op)
	s.w.emit(c13bRec{A: "Write", W: "Remove", Err: c13bBit(err != nil)})
	done(err != nil)
	return err
}

type c13bDB struct {
	chanstate.ClosedChannelStore
	w *c13bWorld
}

func (d *c13bDB) MarkChanFullyClosed(op *wire.OutPoint) error {
	done := func(failed bool) {
		d.w.mu.Lock()
		d.w.markTried = true
		d.w.markFailed = failed
		d.w.mu.Unlock()
	}
	if d.w.fail("MarkFullyClosed") {
		done(true)
		return errC13bStop
	}
	err := d.ClosedChannelStore.MarkChanFullyClosed(op)
	d.w.emit(c13bRec{A: "Write", W: "MarkFullyClosed", Err: c13bBit(err != nil)})
	done(err != nil)
	return err
}

func c13bBit(b bool) int {
	if b {
		return 1
	}
	return 0
}

// ---------------------------------------------------------------- the node
func (w *c13bWorld) startBrar() error {
	w.inc++
	w.mu.Lock()
	w.added, w.markTried, w.markFailed, w.removeTried, w.removeFailed = false, false, false, false, false
	w.nSub, w.nCkpt, w.lastCp = 0, 0, -1
	w.dead = false
	w.mu.Unlock()
	w.acked = false
	w.breaches = make(chan *ContractBreachEvent)
	aliceKeyPriv, _ := btcec.PrivKeyFromBytes(channels.AlicesPrivKey)
	signer := input.NewMockSigner([]*btcec.PrivateKey{aliceKeyPriv}, nil)
	inc := w.inc
	w.brar = NewBreachArbitrator(&BreachConfig{
		CloseLink: func(_ *wire.OutPoint, _ ChannelCloseType) {},
		DB:        &c13bDB{ClosedChannelStore: w.cdb.ChannelStateDB(), w: w},
		Estimator: chainfee.NewStaticEstimator(12500, 0),
		GenSweepScript: func() fn.Result[lnwallet.AddrWithKey] {
			return fn.Ok(lnwallet.AddrWithKey{})
		},
		ContractBreaches: w.breaches,
		Signer:           signer,
		Notifier:         w.ntf,
		PublishTransaction: func(tx *wire.MsgTx, _ string) error {
			ins := make([]string, 0, len(tx.TxIn))
			for _, in := range tx.TxIn {
				n, ok := w.names[in.PreviousOutPoint]
				if !ok {
					n = "other"
				}
				ins = append(ins, n)
			}
			sort.Strings(ins)
			w.mu.Lock()
			w.lastPub, w.pubInc = tx, inc
			w.mu.Unlock()
			w.emit(c13bRec{A: "Publish", Ins: ins})
			return nil
		},
		Store: &c13bStore{RetributionStorer: NewRetributionStore(w.cdb), w: w},
	})
	return w.brar.Start()
}

func (w *c13bWorld) waitFor(what string, cond func() bool) bool {
	deadline := time.Now().Add(c13bPatience)
	for {
		if cond() {
			return true
		}
		if time.Now().After(deadline) {
			w.stalled = true
			w.emit(c13bRec{A: "Stall", W: what})
			return false
		}
		time.Sleep(2 * time.Millisecond)
	}
}

func (w *c13bWorld) unspent() []string {
	var u []string
	for _, o := range []string{"htlc", "local", "remote"} {
		if !w.spent[o] {
			u = append(u, o)
		}
	}
	return u
}

func (w *c13bWorld) pubIns() ([]string, int) {
	w.mu.Lock()
	defer w.mu.Unlock()
	if w.lastPub == nil {
		return nil, 0
	}
	var ins []string
	for _, in := range w.lastPub.TxIn {
		ins = append(ins, w.names[in.PreviousOutPoint])
	}
	sort.Strings(ins)
	return ins, w.pubInc
}

// wait until the exactRetribution goroutine of this incarnation (if the code started one) has digested what the
// chain holds: a justice tx for exactly the unspent outputs, or - nothing left - its cleanup
func (w *c13bWorld) settleWatcher() {
	if !w.up || w.stalled || w.isDead() {
		return
	}
	w.ntf.mu.Lock()
	conf := w.ntf.conf
	w.ntf.mu.Unlock()
	if !conf || !w.ntf.registered(w.inc) {
		return
	}
	un := w.unspent()
	w.waitFor("watcher", func() bool {
		if w.isDead() {
			return true
		}
		if len(un) > 0 {
			ins, inc := w.pubIns()
			return inc == w.inc && strings.Join(ins, ",") == strings.Join(un, ",")
		}
		w.mu.Lock()
		defer w.mu.Unlock()
		if !w.markTried {
			return false
		}
		if w.markFailed {
			return true
		}
		if !w.removeTried {
			return false
		}
		if w.removeFailed {
			return true
		}
		return !(w.res != nil && w.lastCp == 0) || w.nCkpt > 0
	})
}

func (w *c13bWorld) handoff() {
	if !w.up || w.stalled || w.acked || w.isDead() || w.state().Ch != "open" {
		return
	}
	w.emit(c13bRec{A: "Handoff"})
	w.ackCh = make(chan error, 1)
	ev := &ContractBreachEvent{
		ChanPoint: w.cp,
		ProcessACK: func(err error) {
			if !(err != nil && w.isDead()) {
				w.emit(c13bRec{A: "Ack", Err: c13bBit(err != nil)})
			}
			w.ackCh <- err
		},
		BreachRetribution: w.retr,
	}
	select {
	case w.breaches <- ev:
	case <-time.After(c13bPatience):
		w.stalled = true
		w.emit(c13bRec{A: "Stall", W: "handoff"})
		return
	}
	select {
	case err := <-w.ackCh:
		w.acked = err == nil
	case <-time.After(c13bPatience):
		w.stalled = true
		w.emit(c13bRec{A: "Stall", W: "ack"})
		return
	}
	w.mu.Lock()
	added := w.added
	w.mu.Unlock()
	if added && w.acked {
		w.waitFor("confreg", func() bool { return w.ntf.registered(w.inc) || w.isDead() })
	}
	w.settleWatcher()
}

func (w *c13bWorld) markPending() {
	if !w.up || w.stalled || !w.acked || w.isDead() || w.state().Ch != "open" {
		return
	}
	state := w.alice.State()
	err := state.CloseChannel(&channeldb.ChannelCloseSummary{
		ChanPoint:               state.FundingOutpoint,
		ChainHash:               state.ChainHash,
		RemotePub:               state.IdentityPub,
		CloseType:               channeldb.BreachClose,
		Capacity:                state.Capacity,
		IsPending:               true,
		ShortChanID:             state.ShortChanID(),
		RemoteCurrentRevocation: state.RemoteCurrentRevocation,
		RemoteNextRevocation:    state.RemoteNextRevocation,
		LocalChanConfig:         state.LocalChanCfg,
	})
	w.emit(c13bRec{A: "MarkPending", Err: c13bBit(err != nil)})
}

func (w *c13bWorld) wrapCheckpoint(b *breachResolver) {
	inner := b.Checkpoint
	b.Checkpoint = func(r ContractResolver, reports ...*channeldb.ResolverReport) error {
		if w.fail("Checkpoint") {
			return errC13bStop
		}
		err := inner(r, reports...)
		w.mu.Lock()
		w.nCkpt++
		w.mu.Unlock()
		w.emit(c13bRec{A: "Write", W: "Checkpoint", R: c13bBit(r.IsResolved()), Err: c13bBit(err != nil)})
		return err
	}
}

func (w *c13bWorld) insertRes() {
	if !w.up || w.stalled || w.isDead() {
		return
	}
	st := w.state()
	if st.Ch == "open" || st.Rr != "none" {
		return
	}
	b := newBreachResolver(ResolverConfig{
		ChannelArbitratorConfig: w.log.cfg,
		Checkpoint:              w.log.checkpointContract,
	})
	err := w.log.InsertUnresolvedContracts(nil, b)
	w.emit(c13bRec{A: "InsertRes", Err: c13bBit(err != nil)})
	w.launch()
}

// relaunchResolvers: the resolver is decoded from the log (as after a restart) and Resolve()d
func (w *c13bWorld) launch() {
	if !w.up || w.stalled || w.isDead() || w.res != nil {
		return
	}
	cs, err := w.log.FetchUnresolvedContracts()
	if err != nil {
		return
	}
	var b *breachResolver
	for _, c := range cs {
		if x, ok := c.(*breachResolver); ok && !x.IsResolved() {
			b = x
		}
	}
	if b == nil {
		return
	}
	w.wrapCheckpoint(b)
	w.res = b
	w.resDone = make(chan struct{})
	w.mu.Lock()
	n0 := w.nSub
	w.mu.Unlock()
	go func() {
		defer close(w.resDone)
		_ = b.Launch()
		_, _ = b.Resolve()
	}()
	w.waitFor("subscribe", func() bool {
		w.mu.Lock()
		defer w.mu.Unlock()
		if w.dead {
			return true
		}
		if w.nSub == n0 {
			return false
		}
		return w.lastCp == 0 || w.nCkpt > 0
	})
}

func (w *c13bWorld) conf() {
	w.ntf.mu.Lock()
	c := w.ntf.conf
	w.ntf.mu.Unlock()
	if c || w.stalled || !w.handedOff() {
		return
	}
	w.emit(c13bRec{A: "Conf"})
	w.ntf.confirm()
	w.settleWatcher()
}

func (w *c13bWorld) handedOff() bool {
	w.mu.Lock()
	defer w.mu.Unlock()
	for _, r := range w.recs {
		if r.A == "Write" && r.W == "Add" {
			return true
		}
	}
	return false
}

func (w *c13bWorld) isConf() bool {
	w.ntf.mu.Lock()
	defer w.ntf.mu.Unlock()
	return w.ntf.conf
}

func (w *c13bWorld) take(o string) {
	if w.stalled || !w.isConf() || w.spent[o] || w.state().Ch != "pending" {
		return
	}
	w.emit(c13bRec{A: "Take", O: o})
	op := w.ops[o]
	w.spent[o] = true
	w.ntf.Spend(&op, 2, w.spTx.commitSpendTx)
	w.settleWatcher()
}

func (w *c13bWorld) justice() bool {
	if w.stalled || !w.isConf() || w.state().Ch != "pending" {
		return false
	}
	w.mu.Lock()
	tx := w.lastPub
	w.mu.Unlock()
	if tx == nil {
		return false
	}
	for _, in := range tx.TxIn {
		if n, ok := w.names[in.PreviousOutPoint]; !ok || w.spent[n] {
			return false
		}
	}
	w.emit(c13bRec{A: "Justice"})
	for _, in := range tx.TxIn {
		op := in.PreviousOutPoint
		w.spent[w.names[op]] = true
		w.ntf.Spend(&op, 3, tx)
	}
	w.settleWatcher()
	return true
}

func (w *c13bWorld) crash() {
	if !w.up {
		return
	}
	_ = w.brar.Stop()
	if w.res != nil {
		w.res.Stop()
		<-w.resDone
		w.res = nil
	}
	w.up = false
	w.acked = false
	w.emit(c13bRec{A: "Crash"})
}

func (w *c13bWorld) restart() {
	for i := 0; i < 4 && !w.up; i++ {
		if err := w.startBrar(); err != nil {
			// only an injected stop makes start() fail: the node is still down
			_ = w.brar.Stop()
			continue
		}
		w.up = true
		w.emit(c13bRec{A: "Started"})
	}
	w.settleWatcher()
}

// an injected stop has hit: the node is gone
func (w *c13bWorld) afterStep() {
	if w.isDead() && w.up && !w.stalled {
		w.crash()
		w.restart()
	}
}

func (w *c13bWorld) apply(tok string) {
	switch tok {
	case "H":
		w.handoff()
	case "M":
		w.markPending()
	case "I":
		w.insertRes()
	case "L":
		w.launch()
	case "C":
		w.conf()
	case "Tl":
		w.take("local")
	case "Tr":
		w.take("remote")
	case "J":
		w.justice()
	case "X":
		w.crash()
		w.restart()
	}
	w.afterStep()
}

func c13bRun(t *testing.T, plan c13bPlan) []c13bRec {
	brar0, alice, _, bobClose, _ := initBreachedState(t)
	_ = brar0.Stop()
	w := &c13bWorld{plan: plan, alice: alice, stopAt: plan.Stop, spent: map[string]bool{}, lastCp: -1}
	w.cdb = testChannelStateDB(t, alice.State()).GetParentDB()
	w.cp = alice.ChannelPoint()
	retr, err := lnwallet.NewBreachRetribution(
		alice.State(), bobClose.ChanSnapshot.CommitHeight, 1, bobClose.CloseTx,
		fn.Some[lnwallet.AuxLeafStore](&lnwallet.MockAuxLeafStore{}),
		fn.Some[lnwallet.AuxContractResolver](&lnwallet.MockAuxContractResolver{}),
	)
	if err != nil || len(retr.HtlcRetributions) != 1 {
		t.Fatalf("HARNESS-ERROR breach retribution: %v", err)
	}
	w.retr = retr
	w.ops = map[string]wire.OutPoint{"local": retr.LocalOutpoint, "remote": retr.RemoteOutpoint,
		"htlc": retr.HtlcRetributions[0].OutPoint}
	w.names = map[wire.OutPoint]string{}
	for n, op := range w.ops {
		w.names[op] = n
	}
	aliceKeyPriv, _ := btcec.PrivKeyFromBytes(channels.AlicesPrivKey)
	w.spTx, err = getSpendTransactions(input.NewMockSigner([]*btcec.PrivateKey{aliceKeyPriv}, nil), &w.cp, retr)
	if err != nil {
		t.Fatalf("HARNESS-ERROR spend txs: %v", err)
	}
	w.ntf = &c13bNotifier{SpendNotifier: mock.MakeMockSpendNotifier(), regs: map[int]int{}, inc: &w.inc}
	var logCfg ChannelArbitratorConfig
	logCfg.ChanPoint = w.cp
	logCfg.SubscribeBreachComplete = func(op *wire.OutPoint, c chan struct{}) (bool, error) {
		ok, err := w.brar.SubscribeBreachComplete(op, c)
		w.mu.Lock()
		w.nSub++
		w.lastCp = c13bBit(ok)
		w.mu.Unlock()
		w.emit(c13bRec{A: "Subscribe", Cp: c13bBit(ok), Err: c13bBit(err != nil)})
		return ok, err
	}
	w.log, err = newBoltArbitratorLog(w.cdb.Backend, logCfg, chainhash.Hash{}, w.cp)
	if err != nil {
		t.Fatalf("HARNESS-ERROR log: %v", err)
	}
	w.emit(c13bRec{A: "Reset", Plan: plan.name()})
	// the stop counter only runs from here on
	w.inc = 0
	if err := w.startBrar(); err != nil {
		t.Fatalf("HARNESS-ERROR first start: %v", err)
	}
	w.up = true
	for _, tok := range plan.Toks {
		if w.stalled {
			break
		}
		w.apply(tok)
	}
	// completion: the environment goes on until nothing is left to do
	for i := 0; i < 6 && !w.stalled; i++ {
		for _, tok := range []string{"H", "M", "I", "L", "C"} {
			w.apply(tok)
		}
		if len(w.unspent()) > 0 {
			w.apply("J")
		}
		st := w.state()
		if st.Ch == "closed" && st.Ret == 0 && st.Rr == "res" {
			break
		}
	}
	if !w.stalled {
		w.emit(c13bRec{A: "End"})
	}
	_ = w.brar.Stop()
	if w.res != nil {
		w.res.Stop()
		<-w.resDone
	}
	return w.recs
}

func c13bEnum(thorough bool) []c13bPlan {
	bases := [][]string{
		{"H", "M", "I", "C", "J"},
		{"H", "M", "C", "I", "J"},
		{"H", "M", "I", "C", "Tl", "J"},
		{"H", "M", "C", "Tl", "Tr", "I", "J"},
		{"H", "C", "M", "I", "J"},
		{"H", "M", "C", "J", "I"},
	}
	var plans []c13bPlan
	ins := func(b []string, i int) []string {
		x := append([]string{}, b[:i]...)
		x = append(x, "X")
		return append(x, b[i:]...)
	}
	for bi, b := range bases {
		plans = append(plans, c13bPlan{Toks: b})
		for i := 1; i <= len(b); i++ {
			plans = append(plans, c13bPlan{Toks: ins(b, i)})
		}
		for k := 1; k <= 4; k++ {
			plans = append(plans, c13bPlan{Toks: b, Stop: k})
		}
		if thorough || bi == 2 {
			for i := 1; i <= len(b); i++ {
				for j := i + 1; j <= len(b)+1; j++ {
					plans = append(plans, c13bPlan{Toks: ins(ins(b, i), j)})
				}
				for k := 1; k <= 5; k++ {
					plans = append(plans, c13bPlan{Toks: ins(b, i), Stop: k})
				}
			}
		}
	}
	return plans
}

func TestVerifC13Breach(t *testing.T) {
	out := verifkit.Env("VERIF_OUT", ".")
	tf, err := os.Create(out + "/trace_b.ndjson")
	if err != nil {
		t.Fatalf("HARNESS-ERROR %v", err)
	}
	defer tf.Close()
	var plans []c13bPlan
	if verifkit.EnvInt("VERIF_C13B_ENUM", 1) == 1 {
		plans = c13bEnum(verifkit.Env("VERIF_TIER", "quick") == "thorough")
	}
	if pf := verifkit.Env("VERIF_C13B_PLANS", ""); pf != "" {
		more, err := verifkit.ReadNDJSONInto[c13bPlan](pf)
		if err != nil {
			t.Fatalf("HARNESS-ERROR plans: %v", err)
		}
		plans = append(plans, more...)
	}
	seen := map[string]bool{}
	enc := json.NewEncoder(tf)
	n := 0
	for _, p := range plans {
		if seen[p.name()] {
			continue
		}
		seen[p.name()] = true
		for _, r := range c13bRun(t, p) {
			if err := enc.Encode(r); err != nil {
				t.Fatalf("HARNESS-ERROR %v", err)
			}
		}
		n++
	}
	t.Logf("c13b: %d plans executed", n)
}
