//go:build verif

package contractcourt

// C13 executor: contract resolution survives restarts.
//
// The real ChannelArbitrator runs on the real boltArbitratorLog on top of a
// verifkit.DB.  Everything that survives a crash lives in c13World: the
// database file, the chain, and the durable facts the rest of the node keeps
// outside the arbitrator log (channel marked closed / commitment marked
// broadcast in channeldb, nursery request, final HTLC outcomes, witness
// cache, channel marked resolved).  Every durable write - inside or outside
// the log - passes through c13World.durable, which numbers it, applies the
// crash plan (variant A: dead right after the n-th write of the incarnation;
// variant B: dead at the attempt of write n+1) and records one NDJSON line
// with the projection of the durable arbitrator state read back from the
// database.  Non-durable effects (resolution messages, published
// transactions, sweep requests) and the environment's events (blocks, close
// events, spends) are recorded as lines of their own.  There is no judgement
// here: spec/Arbitrator/ArbitratorTrace.tla is the judge.
//
// Channel type (follow-up b13): a scenario name is a close scenario with an
// optional prefix a (anchor / zero-fee HTLC) or t (simple taproot).  The
// fixture channel in the real channel db has that type (the arbitrator reads
// it through FetchHistoricalChannel), the resolutions are what lnwallet would
// hand over for it (SignDetails; for taproot real script trees, P2TR outputs
// and control blocks).  The environment is faithful about outpoints: spends go
// only to registrations for that outpoint, for zero-fee types the second-level
// transaction that confirms is a re-signed, aggregated one (other txid, our
// pair at index 1), and a sweep only ever confirms for a signable request of
// exactly that outpoint.  Every input handed to the sweeper (Sweep: outpoint
// role, control block present, taproot witness type) and every spend
// registration (Watch: outpoint role) is recorded.

import (
	"bytes"
	"crypto/sha256"
	"encoding/json"
	"fmt"
	"math/rand"
	"net"
	"os"
	"path/filepath"
	"runtime"
	"sort"
	"strings"
	"sync"
	"testing"
	"time"

	"github.com/btcsuite/btcd/btcec/v2"
	"github.com/btcsuite/btcd/chainhash/v2"
	"github.com/btcsuite/btcd/txscript/v2"
	"github.com/btcsuite/btcd/wire/v2"
	"github.com/btcsuite/btcwallet/walletdb"
	"github.com/lightningnetwork/lnd/chainntnfs"
	"github.com/lightningnetwork/lnd/channeldb"
	"github.com/lightningnetwork/lnd/chanstate"
	"github.com/lightningnetwork/lnd/clock"
	"github.com/lightningnetwork/lnd/graph/db/models"
	"github.com/lightningnetwork/lnd/fn/v2"
	"github.com/lightningnetwork/lnd/htlcswitch/hop"
	"github.com/lightningnetwork/lnd/input"
	"github.com/lightningnetwork/lnd/internal/verifkit"
	"github.com/lightningnetwork/lnd/kvdb"
	"github.com/lightningnetwork/lnd/lntypes"
	"github.com/lightningnetwork/lnd/lnwallet"
	"github.com/lightningnetwork/lnd/lnwallet/chainfee"
	"github.com/lightningnetwork/lnd/lnwire"
	"github.com/lightningnetwork/lnd/sweep"
)

// ---- trace lines -------------------------------------------------------------

type c13Res struct {
	K string `json:"k"` // contest | timeout | incontest | success | breach | commit | other
	S int    `json:"s"` // persisted stage (outputIncubating)
	R int    `json:"r"` // persisted resolved flag
}

type c13Line struct {
	A    string   `json:"a"`    // event
	Sc   string   `json:"sc"`   // scenario
	W    string   `json:"w"`    // write kind ("" if not a write)
	N    int      `json:"n"`    // write number within the run
	H    string   `json:"h"`    // htlc role: o | od | id | i | ""
	K    string   `json:"k"`    // argument (settle/fail, spend kind, crash variant, outpoint role ...)
	Cb   int      `json:"cb"`   // Sweep: the input's sign descriptor carries a taproot control block
	Tw   int      `json:"tw"`   // Sweep: the input's witness type is one of the taproot types
	Wt   string   `json:"wt"`   // Sweep: witness type of the input (for humans)
	St   string   `json:"st"`   // durable log state
	Un   []c13Res `json:"un"`   // durable unresolved-contracts bucket
	Rs   int      `json:"rs"`   // contract resolutions logged
	Cs   int      `json:"cs"`   // confirmed commit set logged
	Cl   int      `json:"cl"`   // channel marked closed in channeldb
	Bm   int      `json:"bm"`   // commitment marked broadcast in channeldb
	Nu   int      `json:"nu"`   // nursery request persisted
	Rd   int      `json:"rd"`   // channel marked fully closed in channeldb
	Wp   int      `json:"wp"`   // arbitrator log wiped
	Ht   int      `json:"ht"`   // chain height
	Inc  int      `json:"inc"`  // incarnation
	Lbl  string   `json:"lbl"`  // call-stack label (for humans)
	Plan string   `json:"plan"` // crash plan (Reset line)
}

var c13StateNames = map[ArbitratorState]string{
	StateDefault:               "Default",
	StateBroadcastCommit:       "BroadcastCommit",
	StateCommitmentBroadcasted: "CommitmentBroadcasted",
	StateContractClosed:        "ContractClosed",
	StateWaitingFullResolution: "WaitingFullResolution",
	StateFullyResolved:         "FullyResolved",
	StateError:                 "Error",
}

var c13Roles = map[uint64]string{99: "o", 100: "od", 101: "id", 102: "i", 103: "n"}

// ---- scenarios ---------------------------------------------------------------

type c13Scenario struct {
	name      string // close scenario x channel type ("local", "alocal" = anchor, "tlocal" = taproot ...)
	base      string // the close scenario
	ctype     string // legacy | anchor | taproot
	kind      string // local | remote | breach | coop
	userClose bool
	htlcs     []channeldb.HTLC // the HTLCs of the commitment that confirms (and of ours)
	// the HTLCs of the other commitment in the CommitSet, if its layout differs: an update was in
	// flight at close time, the newer HTLC n takes output 0 there and shifts o to output 1
	otherKey   HtlcSetKey
	otherHtlcs []channeldb.HTLC
	// environment
	claim      bool  // the remote party claims "o" with the preimage
	spend1At   int32 // height from which the first-level spend of o / i confirms
	spend2At   int32 // height from which the second-level output is swept
	breachAt   int32
	maxHeight  int32 // blocks are fed up to this height
	preimageOf map[lntypes.Hash]lntypes.Preimage

	closeTx    *wire.MsgTx
	htlcOp     wire.OutPoint
	timeoutTx  *wire.MsgTx
	timeoutOut wire.OutPoint
	inOp       wire.OutPoint
	successTx  *wire.MsgTx
	successOut wire.OutPoint
	preimage   lntypes.Preimage

	// zero-fee channel types: the second-level transactions that confirm are the sweeper's re-signed,
	// aggregated ones (wallet input + change output first, the HTLC input/output pair at index 1), so the
	// second-level outputs that exist on chain are not the outputs of the pre-signed transactions
	aggTimeoutTx *wire.MsgTx
	aggSuccessTx *wire.MsgTx
	realOut2     wire.OutPoint // the second-level output of "o" that is created on chain
	realIn2      wire.OutPoint // the second-level output of "i" that is created on chain
	anchorOp     wire.OutPoint
	outRes       *lnwallet.OutgoingHtlcResolution
	inRes        *lnwallet.IncomingHtlcResolution
	anchorRes    *lnwallet.AnchorResolution
	roles        map[wire.OutPoint]string
}

// c13Typed: the scenarios that exist for every channel type (prefix a = anchor, t = taproot).
var c13Typed = map[string]bool{"local": true, "remote": true, "contest": true, "rcontest": true,
	"claim": true, "success": true}

func c13SplitName(name string) (base, ctype string) {
	if len(name) > 1 && c13Typed[name[1:]] {
		switch name[0] {
		case 'a':
			return name[1:], "anchor"
		case 't':
			return name[1:], "taproot"
		}
	}
	return name, "legacy"
}

func (s *c13Scenario) zeroFee() bool { return s.ctype != "legacy" }

func (s *c13Scenario) chanType() channeldb.ChannelType {
	switch s.ctype {
	case "anchor":
		return channeldb.SingleFunderTweaklessBit | channeldb.AnchorOutputsBit | channeldb.ZeroHtlcTxFeeBit
	case "taproot":
		return channeldb.SingleFunderTweaklessBit | channeldb.AnchorOutputsBit | channeldb.ZeroHtlcTxFeeBit |
			channeldb.SimpleTaprootFeatureBit
	}
	return channeldb.SingleFunderTweaklessBit
}

// role names an outpoint the way the model does (a dumb lookup).
func (s *c13Scenario) role(op wire.OutPoint) string {
	if r, ok := s.roles[op]; ok {
		return r
	}
	return "other"
}

const c13CloseHeight = 5

func c13NewScenario(name string) *c13Scenario {
	s := &c13Scenario{name: name, preimageOf: map[lntypes.Hash]lntypes.Preimage{}}
	s.base, s.ctype = c13SplitName(name)
	name = s.base
	for i := range s.preimage {
		s.preimage[i] = 7
	}
	rhash := lntypes.Hash(sha256.Sum256(s.preimage[:]))

	exp := uint32(10)
	mk := func(incoming bool, amt lnwire.MilliSatoshi, idx uint64, out int32, expiry uint32) channeldb.HTLC {
		h := channeldb.HTLC{Incoming: incoming, Amt: amt, HtlcIndex: idx, OutputIndex: out,
			RefundTimeout: expiry, RHash: rhash}
		return h
	}
	switch name {
	case "local":
		s.kind, s.userClose = "local", true
		s.spend1At, s.spend2At = 12, 16
		s.maxHeight = 17
	case "remote":
		s.kind = "remote"
		s.spend1At = 12
		s.maxHeight = 13
	case "shift":
		s.kind, s.userClose = "local", true
		s.spend1At, s.spend2At = 12, 16
		s.maxHeight = 17
	case "rshift":
		s.kind = "remote"
		s.spend1At = 12
		s.maxHeight = 13
	case "localfar":
		s.kind, s.userClose = "local", true
		exp = 1000
		s.maxHeight = 7
	case "contest":
		s.kind, s.userClose = "local", true
		exp = 20
		s.spend1At, s.spend2At = 22, 26
		s.maxHeight = 27
	case "rcontest":
		s.kind = "remote"
		exp = 20
		s.spend1At = 22
		s.maxHeight = 23
	case "claim":
		s.kind = "remote"
		exp = 20
		s.claim = true
		s.spend1At = 8
		s.maxHeight = 16
	case "success":
		s.kind, s.userClose = "local", true
		exp = 40
		s.spend1At = 16
		if s.zeroFee() {
			s.spend1At, s.spend2At = 12, 16
		}
		s.preimageOf[rhash] = s.preimage
		s.maxHeight = 17
	case "breach":
		s.kind = "breach"
		s.breachAt = 10
		s.maxHeight = 11
	case "coop":
		s.kind = "coop"
		s.maxHeight = 7
	default:
		panic("unknown scenario " + name)
	}

	s.closeTx = &wire.MsgTx{TxIn: []*wire.TxIn{{Witness: [][]byte{{0x1}, {0x2}}}}}
	if s.kind != "local" {
		s.closeTx.TxIn[0].Witness = [][]byte{{0x3}, {0x4}}
	}
	s.htlcOp = wire.OutPoint{Hash: s.closeTx.TxHash(), Index: 0}
	s.inOp = wire.OutPoint{Hash: s.closeTx.TxHash(), Index: 1}
	s.anchorOp = wire.OutPoint{Hash: s.closeTx.TxHash(), Index: 2}
	c13BuildResolutions(s, rhash, exp)

	switch name {
	case "localfar":
		s.htlcs = []channeldb.HTLC{mk(false, 100, 100, -1, exp), mk(true, 105, 101, -1, exp)}
	case "success":
		s.htlcs = []channeldb.HTLC{mk(false, 100, 100, -1, exp), mk(true, 20000, 102, 1, exp)}
	case "coop":
		s.htlcs = nil
	case "shift", "rshift":
		s.htlcs = []channeldb.HTLC{
			mk(false, 10000, 99, 0, exp), mk(false, 100, 100, -1, exp), mk(true, 105, 101, -1, exp),
		}
		s.otherHtlcs = []channeldb.HTLC{
			mk(false, 20000, 103, 0, 1000), mk(false, 10000, 99, 1, exp),
			mk(false, 100, 100, -1, exp), mk(true, 105, 101, -1, exp),
		}
		s.otherKey = RemoteHtlcSet
		if name == "rshift" {
			s.otherKey = RemotePendingHtlcSet
		}
	default:
		s.htlcs = []channeldb.HTLC{
			mk(false, 10000, 99, 0, exp), mk(false, 100, 100, -1, exp), mk(true, 105, 101, -1, exp),
		}
	}
	return s
}

func (s *c13Scenario) hasO() bool {
	for _, h := range s.htlcs {
		if h.HtlcIndex == 99 {
			return true
		}
	}
	return false
}
func (s *c13Scenario) hasI() bool {
	for _, h := range s.htlcs {
		if h.HtlcIndex == 102 {
			return true
		}
	}
	return false
}

func (s *c13Scenario) htlcResolutions() *lnwallet.HtlcResolutions {
	res := &lnwallet.HtlcResolutions{}
	if s.hasO() {
		res.OutgoingHTLCs = append(res.OutgoingHTLCs, *s.outRes)
	}
	if s.hasI() {
		res.IncomingHTLCs = append(res.IncomingHTLCs, *s.inRes)
	}
	return res
}

func c13Pub(b byte) *btcec.PublicKey {
	_, pub := btcec.PrivKeyFromBytes(bytes.Repeat([]byte{b}, 32))
	return pub
}

func c13Ctrl(cb *txscript.ControlBlock, err error) []byte {
	if err != nil {
		panic(err)
	}
	b, err := cb.ToBytes()
	if err != nil {
		panic(err)
	}
	return b
}

// c13BuildResolutions builds what lnwallet hands to the arbitrator at close time for the HTLCs "o"
// (offered, output 0) and "i" (received, output 1) and for our anchor, per channel type:
//   legacy   pre-signed SIGHASH_ALL second-level transactions, no sign details;
//   anchor   second-level transactions signed SINGLE|ANYONECANPAY + SignDetails (the sweeper re-signs);
//   taproot  as anchor, with real taproot script trees: P2TR outputs, witness scripts and control blocks in
//            the sign descriptors and in the pre-signed witnesses (chainDetailsToWatch parses them).
func c13BuildResolutions(s *c13Scenario, rhash lntypes.Hash, exp uint32) {
	var (
		sig64     = bytes.Repeat([]byte{0x5a}, 64)
		htlcOut   = &wire.TxOut{}                       // the HTLC output "o" on the commitment
		inOut     = &wire.TxOut{}                       // the HTLC output "i" on the commitment
		out2      = &wire.TxOut{Value: 9000}            // second-level output of "o"
		in2       = &wire.TxOut{Value: 19000}           // second-level output of "i"
		toWitness = [][]byte{{}}                        // witness of the pre-signed timeout tx
		suWitness = [][]byte{{}, {1}, {2}, {}, {3}}     // witness of the pre-signed success tx
		oSweep    = input.SignDescriptor{}              // sweeps the output named by ClaimOutpoint of "o"
		iSweep    = input.SignDescriptor{}
		oBridge   = input.SignDescriptor{}              // signs the second-level tx of "o" (SignDetails)
		iBridge   = input.SignDescriptor{}
		anchorOut = &wire.TxOut{Value: 330, PkScript: append([]byte{0x00, 0x20}, bytes.Repeat([]byte{0x0a}, 32)...)}
	)
	switch s.ctype {
	case "legacy":
		out2, in2 = &wire.TxOut{}, &wire.TxOut{}
	case "anchor":
		htlcOut.PkScript = append([]byte{0x00, 0x20}, bytes.Repeat([]byte{0x01}, 32)...)
		inOut.PkScript = append([]byte{0x00, 0x20}, bytes.Repeat([]byte{0x02}, 32)...)
		out2.PkScript = append([]byte{0x00, 0x20}, bytes.Repeat([]byte{0x03}, 32)...)
		in2.PkScript = append([]byte{0x00, 0x20}, bytes.Repeat([]byte{0x04}, 32)...)
		htlcOut.Value, inOut.Value = 10, 20
		// <0> <sender sig> <receiver sig> <0> <script>
		toWitness = [][]byte{{}, sig64, sig64, {}, {0x51}}
		suWitness = [][]byte{{}, sig64, sig64, {}, {0x52}}
		oBridge = input.SignDescriptor{WitnessScript: []byte{0x51}, Output: htlcOut}
		iBridge = input.SignDescriptor{WitnessScript: []byte{0x52}, Output: inOut}
	case "taproot":
		htlcOut.Value, inOut.Value = 10, 20
		whose := lntypes.Local
		if s.kind != "local" {
			whose = lntypes.Remote
		}
		var oTree, iTree *input.HtlcScriptTree
		var err error
		if s.kind == "local" {
			// offered HTLC on our commitment: we are the sender
			oTree, err = input.SenderHTLCScriptTaproot(c13Pub(1), c13Pub(2), c13Pub(3), rhash[:], whose,
				input.NoneTapLeaf())
		} else {
			// the same HTLC on the remote commitment: a received HTLC from their point of view
			oTree, err = input.ReceiverHTLCScriptTaproot(exp, c13Pub(1), c13Pub(2), c13Pub(3), rhash[:], whose,
				input.NoneTapLeaf())
		}
		if err != nil {
			panic(err)
		}
		iTree, err = input.ReceiverHTLCScriptTaproot(exp, c13Pub(2), c13Pub(1), c13Pub(3), rhash[:], whose,
			input.NoneTapLeaf())
		if err != nil {
			panic(err)
		}
		htlcOut.PkScript, inOut.PkScript = oTree.PkScript(), iTree.PkScript()
		oCtrl := c13Ctrl(oTree.CtrlBlockForPath(input.ScriptPathTimeout))
		iCtrl := c13Ctrl(iTree.CtrlBlockForPath(input.ScriptPathSuccess))
		sl, err := input.TaprootSecondLevelScriptTree(c13Pub(3), c13Pub(4), 4, input.NoneTapLeaf())
		if err != nil {
			panic(err)
		}
		slCtrl := c13Ctrl(sl.CtrlBlockForPath(input.ScriptPathSuccess))
		out2.PkScript, in2.PkScript = sl.PkScript(), sl.PkScript()
		// <receiver sig> <local sig> <timeout_script> <control_block>
		toWitness = [][]byte{sig64, sig64, oTree.TimeoutTapLeaf.Script, oCtrl}
		// <sender sig> <receiver sig> <preimage> <success_script> <control_block>
		suWitness = [][]byte{sig64, sig64, {}, iTree.SuccessTapLeaf.Script, iCtrl}
		oBridge = input.SignDescriptor{WitnessScript: oTree.TimeoutTapLeaf.Script, Output: htlcOut,
			ControlBlock: oCtrl, SignMethod: input.TaprootScriptSpendSignMethod}
		iBridge = input.SignDescriptor{WitnessScript: iTree.SuccessTapLeaf.Script, Output: inOut,
			ControlBlock: iCtrl, SignMethod: input.TaprootScriptSpendSignMethod}
		oSweep = input.SignDescriptor{WitnessScript: sl.SuccessTapLeaf.Script, ControlBlock: slCtrl,
			SignMethod: input.TaprootScriptSpendSignMethod}
		iSweep = oSweep
		if s.kind != "local" {
			// direct sweep of the HTLC output on their commitment through the timeout path
			oSweep = oBridge
		}
		anchorOut.PkScript = append([]byte{0x51, 0x20}, bytes.Repeat([]byte{0x0a}, 32)...)
	}

	s.timeoutTx = &wire.MsgTx{
		TxIn:  []*wire.TxIn{{PreviousOutPoint: s.htlcOp, Witness: toWitness}},
		TxOut: []*wire.TxOut{out2},
	}
	s.timeoutOut = wire.OutPoint{Hash: s.timeoutTx.TxHash(), Index: 0}
	s.successTx = &wire.MsgTx{
		TxIn:  []*wire.TxIn{{PreviousOutPoint: s.inOp, Witness: suWitness}},
		TxOut: []*wire.TxOut{in2},
	}
	s.successOut = wire.OutPoint{Hash: s.successTx.TxHash(), Index: 0}
	s.roles = map[wire.OutPoint]string{s.htlcOp: "htlc", s.inOp: "in", s.anchorOp: "anchor"}
	s.realOut2, s.realIn2 = s.timeoutOut, s.successOut
	if s.zeroFee() {
		wallet := &wire.TxIn{PreviousOutPoint: wire.OutPoint{Hash: chainhash.Hash{0xaa, 0xbb}}}
		change := &wire.TxOut{Value: 111, PkScript: []byte{0xaa, 0xaa}}
		s.aggTimeoutTx = &wire.MsgTx{
			TxIn:  []*wire.TxIn{wallet, s.timeoutTx.TxIn[0]},
			TxOut: []*wire.TxOut{change, s.timeoutTx.TxOut[0]},
		}
		s.aggSuccessTx = &wire.MsgTx{
			TxIn:  []*wire.TxIn{wallet, s.successTx.TxIn[0]},
			TxOut: []*wire.TxOut{change, s.successTx.TxOut[0]},
		}
		s.realOut2 = wire.OutPoint{Hash: s.aggTimeoutTx.TxHash(), Index: 1}
		s.realIn2 = wire.OutPoint{Hash: s.aggSuccessTx.TxHash(), Index: 1}
		s.roles[s.timeoutOut], s.roles[s.successOut] = "pre2", "prein2"
	}
	s.roles[s.realOut2], s.roles[s.realIn2] = "out2", "in2"

	// "o"
	if oSweep.Output == nil {
		oSweep.Output = out2
		if s.kind != "local" {
			oSweep.Output = htlcOut
		}
	}
	s.outRes = &lnwallet.OutgoingHtlcResolution{
		Expiry: exp, ClaimOutpoint: s.htlcOp, SweepSignDesc: oSweep,
	}
	if s.kind == "local" {
		s.outRes.SignedTimeoutTx = s.timeoutTx
		s.outRes.ClaimOutpoint = s.timeoutOut
		if s.zeroFee() {
			s.outRes.SignDetails = &input.SignDetails{SignDesc: oBridge,
				SigHashType: txscript.SigHashSingle | txscript.SigHashAnyOneCanPay, PeerSig: testSig}
		}
	}
	// "i" (only ever on our own commitment here)
	iSweep.Output = in2
	s.inRes = &lnwallet.IncomingHtlcResolution{
		ClaimOutpoint: s.successOut, SignedSuccessTx: s.successTx, SweepSignDesc: iSweep,
	}
	if s.zeroFee() {
		s.outRes.CsvDelay, s.inRes.CsvDelay = 4, 4
		s.inRes.SignDetails = &input.SignDetails{SignDesc: iBridge,
			SigHashType: txscript.SigHashSingle | txscript.SigHashAnyOneCanPay, PeerSig: testSig}
		s.anchorRes = &lnwallet.AnchorResolution{
			AnchorSignDescriptor: input.SignDescriptor{Output: anchorOut},
			CommitAnchor:         s.anchorOp,
		}
	}
}

// ---- the world ---------------------------------------------------------------

type c13Crash struct {
	N int    `json:"n"` // writes of the incarnation before the crash
	V string `json:"v"` // "A" right after write n, "B" at the attempt of write n+1
}

type c13Plan struct {
	Sc      string     `json:"sc"`
	Crashes []c13Crash `json:"crashes"`
	Ref     bool       `json:"ref"`
}

func (p c13Plan) String() string {
	var xs []string
	for _, c := range p.Crashes {
		xs = append(xs, fmt.Sprintf("%d%s", c.N, c.V))
	}
	return p.Sc + ":" + strings.Join(xs, ",")
}

type c13World struct {
	mu sync.Mutex
	s  *c13Scenario

	raw kvdb.Backend
	vdb *verifkit.DB

	// the channel database (a second file): the channel is really closed / marked fully closed in it
	craw    kvdb.Backend
	cvdb    *verifkit.DB
	cdb     *channeldb.DB
	channel *chanstate.OpenChannel
	setup   bool // writes of the fixture set-up are not part of the run
	wiped   bool // the arbitrator log has been wiped (ChainArbitrator.ResolveContract)
	mult    int  // patience factor (a plan that stalled is re-run alone with 3)
	dead    bool // the run is over: goroutines that could not be stopped are refused

	// crash control
	writes    int // committed writes of the run
	incWrites int // committed writes of this incarnation
	inc       int
	crash     *c13Crash
	crashed   bool

	// durable facts outside the arbitrator log
	closedInDB bool
	bmark      bool
	incubated  bool
	resolvedDB bool
	preimages  map[lntypes.Hash]lntypes.Preimage

	// facts of the outside world
	published  bool // our commitment is out
	confirmed  bool // a commitment / coop tx is confirmed
	sweepOK    map[string]bool // outpoint role -> a signable sweep request for it has been made
	breachDone bool
	height     int32
	spent      map[wire.OutPoint]*chainntnfs.SpendDetail

	// per incarnation
	spendRegs  map[wire.OutPoint][]chan *chainntnfs.SpendDetail
	epochRegs  []chan *chainntnfs.BlockEpoch
	breachSubs []chan struct{}

	// projection cache + recording
	proj     c13Line
	lines    []c13Line
	lastEv   time.Time
	decodeCf ChannelArbitratorConfig
}

func (w *c13World) emitLocked(a, wk, h, k, lbl string) {
	l := w.proj
	l.A, l.Sc, l.W, l.H, l.K, l.Lbl = a, w.s.name, wk, h, k, lbl
	l.N = 0
	if wk != "" {
		l.N = w.writes
	}
	l.Cl, l.Bm, l.Nu, l.Rd = c13b(w.closedInDB), c13b(w.bmark), c13b(w.incubated), c13b(w.resolvedDB)
	l.Wp = c13b(w.wiped)
	l.Ht, l.Inc = int(w.height), w.inc
	if l.Un == nil {
		l.Un = []c13Res{}
	}
	w.lines = append(w.lines, l)
	w.lastEv = time.Now()
}

func c13b(b bool) int {
	if b {
		return 1
	}
	return 0
}

// note records a non-durable effect or an environment event; a dead node
// leaves no effects.
func (w *c13World) note(a, h, k string) bool {
	w.mu.Lock()
	defer w.mu.Unlock()
	if w.crashed || w.dead {
		return false
	}
	w.emitLocked(a, "", h, k, "")
	return true
}

// project reads the durable arbitrator state back from the raw database.
func (w *c13World) projectLocked() {
	blog, err := newBoltArbitratorLog(w.raw, w.decodeCf, chainhash.Hash{}, w.decodeCf.ChanPoint)
	if err != nil {
		panic(err)
	}
	st, err := blog.CurrentState(nil)
	if err != nil {
		panic(err)
	}
	w.proj.St = c13StateNames[st]
	un, err := blog.FetchUnresolvedContracts()
	if err != nil {
		panic(fmt.Sprintf("projection: %v", err))
	}
	out := []c13Res{}
	for _, r := range un {
		x := c13Res{K: "other", R: c13b(r.IsResolved())}
		switch t := r.(type) {
		case *htlcOutgoingContestResolver:
			x.K, x.S = "contest", c13b(t.outputIncubating)
		case *htlcTimeoutResolver:
			x.K, x.S = "timeout", c13b(t.outputIncubating)
		case *htlcIncomingContestResolver:
			x.K, x.S = "incontest", c13b(t.outputIncubating)
		case *htlcSuccessResolver:
			x.K, x.S = "success", c13b(t.outputIncubating)
		case *breachResolver:
			x.K = "breach"
		case *commitSweepResolver:
			x.K = "commit"
		}
		out = append(out, x)
	}
	sort.Slice(out, func(i, j int) bool { return out[i].K < out[j].K })
	w.proj.Un = out
	_, err = blog.FetchContractResolutions()
	w.proj.Rs = c13b(err == nil)
	cs, err := blog.FetchConfirmedCommitSet(nil)
	w.proj.Cs = c13b(err == nil && cs != nil)
}

// durable performs one durable write under the crash plan.
func (w *c13World) durable(kind, h, k, lbl string, do func() error) error {
	w.mu.Lock()
	defer w.mu.Unlock()
	if w.crashed || w.dead {
		return verifkit.ErrCrashed
	}
	if w.crash != nil && w.crash.V == "B" && w.incWrites == w.crash.N {
		w.dieLocked("B")
		return verifkit.ErrCrashed
	}
	if err := do(); err != nil {
		return err
	}
	w.writes++
	w.incWrites++
	w.projectLocked()
	w.emitLocked("Write", kind, h, k, lbl)
	if w.crash != nil && w.crash.V == "A" && w.incWrites == w.crash.N {
		w.dieLocked("A")
	}
	return nil
}

func (w *c13World) dieLocked(v string) {
	w.crashed = true
	w.vdb.CrashNow()
	w.cvdb.CrashNow()
	w.emitLocked("Crash", "", "", v, "")
}

func (w *c13World) isCrashed() bool {
	w.mu.Lock()
	defer w.mu.Unlock()
	return w.crashed
}

// ---- database wrapper ----------------------------------------------------------

type c13DB struct {
	*verifkit.DB
	w      *c13World
	chanDB bool
}

func (d *c13DB) Update(f func(tx walletdb.ReadWriteTx) error, reset func()) error {
	if d.w.setup {
		return d.DB.Update(f, reset)
	}
	kind := "Other"
	var after func()
	var lbl string
	if d.chanDB {
		lbl = c13LabelOf("channeldb.", "chanstate.")
		switch {
		case strings.Contains(lbl, "CloseChannel"):
			kind, after = "MarkClosed", func() { d.w.closedInDB = true }
		case strings.Contains(lbl, "MarkChanFullyClosed"):
			kind, after = "MarkResolved", func() { d.w.resolvedDB = true }
		default:
			kind = "ChanDB"
		}
	} else {
		lbl = c13Label()
		switch strings.Split(lbl, "<")[0] {
		case "CommitState":
			kind = "CommitState"
		case "LogContractResolutions":
			kind = "LogResolutions"
		case "InsertConfirmedCommitSet":
			kind = "InsertCommitSet"
		case "InsertUnresolvedContracts":
			kind = "Checkpoint"
			if strings.Contains(lbl, "stateStep") {
				kind = "InsertUnresolved"
			}
		case "checkpointContract":
			kind = "Checkpoint"
		case "SwapContract":
			kind = "Swap"
		case "ResolveContract":
			kind = "Resolve"
		case "WipeHistory":
			kind, after = "Wipe", func() { d.w.wiped = true }
		}
	}
	return d.w.durable(kind, "", "", lbl, func() error {
		err := d.DB.Update(f, reset)
		if err == nil && after != nil {
			after()
		}
		return err
	})
}

func c13LabelOf(pkgs ...string) string {
	pcs := make([]uintptr, 40)
	n := runtime.Callers(3, pcs)
	frames := runtime.CallersFrames(pcs[:n])
	var names []string
	for {
		fr, more := frames.Next()
		q := fr.Function
		for _, p := range pkgs {
			if strings.Contains(q, p) && !strings.Contains(q, "c13") {
				fnn := q[strings.LastIndex(q, ".")+1:]
				if !strings.HasPrefix(fnn, "func") {
					names = append(names, fnn)
				}
				break
			}
		}
		if len(names) == 3 || !more {
			break
		}
	}
	return strings.Join(names, "<")
}

func c13Label() string {
	pcs := make([]uintptr, 40)
	n := runtime.Callers(3, pcs)
	frames := runtime.CallersFrames(pcs[:n])
	var names []string
	for {
		fr, more := frames.Next()
		q := fr.Function
		if strings.Contains(q, "contractcourt.") && !strings.Contains(q, "c13") {
			fnn := q[strings.LastIndex(q, ".")+1:]
			if !strings.HasPrefix(fnn, "func") {
				names = append(names, fnn)
				if len(names) == 4 {
					break
				}
			}
		}
		if !more {
			break
		}
	}
	return strings.Join(names, "<")
}

// ---- chain notifier, chain io, sweeper, witness beacon -------------------------

// The notifier and the sweeper of an incarnation carry its number: a goroutine of a stopped incarnation that is
// scheduled late (Launch goroutines are not waited for by ChannelArbitrator.Stop) must not leave effects in the
// next one - after a real crash the process is gone.
type c13Notifier struct {
	w   *c13World
	inc int
}

func (n *c13Notifier) RegisterConfirmationsNtfn(*chainhash.Hash, []byte, uint32, uint32,
	...chainntnfs.NotifierOption) (*chainntnfs.ConfirmationEvent, error) {

	return &chainntnfs.ConfirmationEvent{
		Confirmed: make(chan *chainntnfs.TxConfirmation, 1), Cancel: func() {},
	}, nil
}

func (n *c13Notifier) RegisterSpendNtfn(op *wire.OutPoint, _ []byte, _ uint32) (
	*chainntnfs.SpendEvent, error) {

	n.w.mu.Lock()
	defer n.w.mu.Unlock()
	c := make(chan *chainntnfs.SpendDetail, 1)
	if n.inc != n.w.inc {
		return &chainntnfs.SpendEvent{Spend: c, Cancel: func() {}}, nil
	}
	if !n.w.crashed && !n.w.dead {
		// which outpoint the caller waits for (named by a table lookup)
		n.w.emitLocked("Watch", "", "", n.w.s.role(*op), "")
	}
	if d, ok := n.w.spent[*op]; ok {
		c <- d // historical dispatch
	} else {
		n.w.spendRegs[*op] = append(n.w.spendRegs[*op], c)
	}
	return &chainntnfs.SpendEvent{Spend: c, Cancel: func() {}}, nil
}

func (n *c13Notifier) RegisterBlockEpochNtfn(*chainntnfs.BlockEpoch) (
	*chainntnfs.BlockEpochEvent, error) {

	n.w.mu.Lock()
	defer n.w.mu.Unlock()
	c := make(chan *chainntnfs.BlockEpoch, 200)
	c <- &chainntnfs.BlockEpoch{Height: n.w.height} // current tip on registration
	n.w.epochRegs = append(n.w.epochRegs, c)
	return &chainntnfs.BlockEpochEvent{Epochs: c, Cancel: func() {}}, nil
}
func (n *c13Notifier) Start() error  { return nil }
func (n *c13Notifier) Started() bool { return true }
func (n *c13Notifier) Stop() error   { return nil }

type c13ChainIO struct {
	*mockChainIO
	w *c13World
}

func (c *c13ChainIO) GetBestBlock() (*chainhash.Hash, int32, error) {
	c.w.mu.Lock()
	defer c.w.mu.Unlock()
	return nil, c.w.height, nil
}

type c13Sweeper struct {
	w   *c13World
	inc int
}

func (s *c13Sweeper) SweepInput(inp input.Input, _ sweep.Params) (chan sweep.Result, error) {
	role := s.w.s.role(inp.OutPoint())
	cb := 0
	if sd := inp.SignDesc(); sd != nil && len(sd.ControlBlock) > 0 {
		cb = 1
	}
	s.w.mu.Lock()
	if s.inc == s.w.inc && !s.w.crashed && !s.w.dead {
		// the sweeper can only ever publish what it can sign: a script-path spend of a taproot
		// output needs the control block (our anchor is a key spend)
		if role == "anchor" || s.w.s.ctype != "taproot" || cb == 1 {
			s.w.sweepOK[role] = true
		}
		s.w.emitLocked("Sweep", "", "", role, "")
		l := &s.w.lines[len(s.w.lines)-1]
		l.Cb, l.Wt = cb, fmt.Sprintf("%v", inp.WitnessType())
		l.Tw = c13b(strings.HasPrefix(l.Wt, "Taproot"))
	}
	s.w.mu.Unlock()
	if role == "anchor" {
		// not worth sweeping: the anchor resolver waits until the arbitrator stops
		return make(chan sweep.Result), nil
	}
	result := make(chan sweep.Result, 1)
	result <- sweep.Result{Tx: &wire.MsgTx{}}
	return result, nil
}
func (s *c13Sweeper) RelayFeePerKW() chainfee.SatPerKWeight { return 253 }
func (s *c13Sweeper) UpdateParams(wire.OutPoint, sweep.Params) (chan sweep.Result, error) {
	result := make(chan sweep.Result, 1)
	result <- sweep.Result{Tx: &wire.MsgTx{}}
	return result, nil
}

type c13Beacon struct{ w *c13World }

func (b *c13Beacon) SubscribeUpdates(lnwire.ShortChannelID, *channeldb.HTLC, *hop.Payload,
	[]byte) (*WitnessSubscription, error) {

	return &WitnessSubscription{
		WitnessUpdates:     make(chan lntypes.Preimage),
		CancelSubscription: func() {},
	}, nil
}

func (b *c13Beacon) LookupPreimage(h lntypes.Hash) (lntypes.Preimage, bool) {
	b.w.mu.Lock()
	defer b.w.mu.Unlock()
	p, ok := b.w.preimages[h]
	return p, ok
}

func (b *c13Beacon) AddPreimages(ps ...lntypes.Preimage) error {
	// the witness cache is a database of its own
	return b.w.durable("Preimage", "", "", "AddPreimages", func() error {
		for _, p := range ps {
			b.w.preimages[p.Hash()] = p
		}
		return nil
	})
}

func (w *c13World) spend(op wire.OutPoint, d *chainntnfs.SpendDetail, kind string) {
	w.mu.Lock()
	defer w.mu.Unlock()
	if _, ok := w.spent[op]; ok {
		return
	}
	w.spent[op] = d
	w.emitLocked("Spend", "", "", kind, "")
	for _, c := range w.spendRegs[op] {
		c <- d
	}
	delete(w.spendRegs, op)
}

// ---- one incarnation of the node -------------------------------------------------

type c13Inc struct {
	arb       *ChannelArbitrator // nil: the channel is fully closed, no arbitrator is created
	chainArb  *ChainArbitrator
	exited    chan struct{} // closed once every goroutine of the arbitrator has returned
	dispDone  chan struct{} // closed once the ChainArbitrator's dispatcher goroutine has returned
	closeSent bool
}

// c13Stall: the node is alive but does not answer within the bound.
type c13Stall struct{ where string }

func (e c13Stall) Error() string { return "no progress: " + e.where }

func (w *c13World) patience(d time.Duration) time.Duration {
	if w.mult > 1 {
		return d * time.Duration(w.mult)
	}
	return d
}

// c13Boot builds an arbitrator on the durable world the way ChainArbitrator.Start
// does: an open channel gets its HTLC sets and a live chain-event subscription,
// a channel that is pending close gets IsPendingClose/CloseType/ClosingHeight
// and no chain events.
func c13Boot(t *testing.T, w *c13World, db kvdb.Backend) (*c13Inc, error) {
	s := w.s
	w.mu.Lock()
	w.spendRegs = make(map[wire.OutPoint][]chan *chainntnfs.SpendDetail)
	w.epochRegs = nil
	w.breachSubs = nil
	w.incWrites = 0
	height := w.height
	w.mu.Unlock()

	// what ChainArbitrator.Start finds in the channel database
	chanPoint := w.channel.FundingOutpoint
	pending, err := w.cdb.ChannelStateDB().FetchClosedChannels(true)
	if err != nil {
		return nil, err
	}
	closed := false
	var closeSum *channeldb.ChannelCloseSummary
	for _, c := range pending {
		if c.ChanPoint == chanPoint {
			closed, closeSum = true, c
		}
	}
	if !closed {
		if sum, err := w.cdb.ChannelStateDB().FetchClosedChannel(&chanPoint); err == nil && !sum.IsPending {
			// fully closed: neither loadOpenChannels nor loadPendingCloseChannels sees it
			return &c13Inc{}, nil
		}
	}

	placeholder := &mockArbitratorLog{state: StateDefault, newStates: make(chan ArbitratorState, 100)}
	ctx, err := createTestChannelArbitrator(t, placeholder)
	if err != nil {
		return nil, err
	}
	cfg := ctx.chanArb.cfg
	cfg.ChanPoint = chanPoint
	cfg.ShortChanID = w.channel.ShortChanID()
	cfg.PreimageDB = &c13Beacon{w}
	cfg.Registry = &mockRegistry{}
	cfg.Notifier = &c13Notifier{w, w.inc}
	cfg.ChainIO = &c13ChainIO{&mockChainIO{}, w}
	cfg.Sweeper = &c13Sweeper{w, w.inc}
	cfg.OnionProcessor = &mockOnionProcessor{isExit: false}
	cfg.PublishTx = func(*wire.MsgTx, string) error {
		w.mu.Lock()
		defer w.mu.Unlock()
		if !w.crashed {
			w.published = true
			w.emitLocked("Publish", "", "", "", "")
		}
		return nil
	}
	cfg.DeliverResolutionMsg = func(msgs ...ResolutionMsg) error {
		for _, m := range msgs {
			k := "fail"
			if m.PreImage != nil {
				k = "settle"
			}
			w.note("Up", c13Roles[m.HtlcIndex], k)
		}
		return nil
	}
	cfg.IncubateOutputs = func(wire.OutPoint, fn.Option[lnwallet.OutgoingHtlcResolution],
		fn.Option[lnwallet.IncomingHtlcResolution], uint32, fn.Option[int32], ...IncubateOption) error {

		return w.durable("Nursery", "", "", "IncubateOutputs", func() error {
			w.incubated = true
			return nil
		})
	}
	cfg.PutFinalHtlcOutcome = func(_ lnwire.ShortChannelID, id uint64, settled bool) error {
		k := "failed"
		if settled {
			k = "settled"
		}
		return w.durable("FinalHtlc", c13Roles[id], k, "PutFinalHtlcOutcome", func() error { return nil })
	}
	cfg.PutResolverReport = func(kvdb.RwTx, *channeldb.ResolverReport) error { return nil }
	// the channel's final state (channel type!) comes from the real channel database, as in
	// newActiveChannelArbitrator / loadPendingCloseChannels
	cfg.FetchHistoricalChannel = func() (*chanstate.OpenChannel, error) {
		return w.cdb.ChannelStateDB().FetchHistoricalChannel(&chanPoint)
	}
	cfg.MarkCommitmentBroadcasted = func(*wire.MsgTx, lntypes.ChannelParty) error {
		return w.durable("MarkBroadcast", "", "", "MarkCommitmentBroadcasted", func() error {
			w.bmark = true
			return nil
		})
	}
	cfg.MarkChannelClosed = func(_ *channeldb.ChannelCloseSummary, st ...channeldb.ChannelStatus) error {
		// the real channeldb write (one transaction of the channel database)
		ch := w.channel
		sum := &channeldb.ChannelCloseSummary{
			ChanPoint: chanPoint, ChainHash: ch.ChainHash, ClosingTXID: s.closeTx.TxHash(),
			RemotePub: ch.IdentityPub, Capacity: ch.Capacity, IsPending: true,
			CloseHeight: c13CloseHeight, ShortChanID: ch.ShortChanID(),
			RemoteCurrentRevocation: ch.RemoteCurrentRevocation,
			RemoteNextRevocation:    ch.RemoteNextRevocation,
			LocalChanConfig:         ch.LocalChanCfg,
		}
		switch s.kind {
		case "local":
			sum.CloseType = channeldb.LocalForceClose
		case "remote":
			sum.CloseType = channeldb.RemoteForceClose
		case "breach":
			sum.CloseType = channeldb.BreachClose
		case "coop":
			sum.CloseType = channeldb.CooperativeClose
		}
		return ch.CloseChannel(sum, st...)
	}
	// the real ChainArbitrator takes the notification and runs the real ResolveContract
	// (MarkChanFullyClosed in the channel db, stop the arbitrator, WipeHistory)
	chainArb := NewChainArbitrator(ChainArbitratorConfig{
		ChainIO: cfg.ChainIO, Notifier: cfg.Notifier, PublishTx: cfg.PublishTx,
		NotifyClosedChannel: func(wire.OutPoint) {},
		Clock:               clock.NewDefaultClock(), Budget: *DefaultBudgetConfig(),
		QueryIncomingCircuit: func(models.CircuitKey) *models.CircuitKey { return nil },
	}, w.cdb)
	cfg.NotifyChannelResolved = func() { chainArb.notifyChannelResolved(chanPoint) }
	cfg.SubscribeBreachComplete = func(_ *wire.OutPoint, c chan struct{}) (bool, error) {
		w.mu.Lock()
		defer w.mu.Unlock()
		if w.breachDone {
			return true, nil
		}
		w.breachSubs = append(w.breachSubs, c)
		return false, nil
	}
	htlcSets := make(map[HtlcSetKey]htlcSet)
	if closed {
		cfg.IsPendingClose = true
		cfg.ClosingHeight = closeSum.CloseHeight
		cfg.CloseType = closeSum.CloseType
		cfg.ChainEvents = &ChainEventSubscription{}
	} else {
		htlcSets[LocalHtlcSet] = newHtlcSet(s.htlcs)
		htlcSets[RemoteHtlcSet] = newHtlcSet(s.htlcs)
		if s.otherHtlcs != nil {
			htlcSets[s.otherKey] = newHtlcSet(s.otherHtlcs)
		}
	}

	blog, err := newBoltArbitratorLog(db, cfg, chainhash.Hash{}, cfg.ChanPoint)
	if err != nil {
		return nil, err
	}
	arb := NewChannelArbitrator(cfg, htlcSets, blog)
	w.mu.Lock()
	w.decodeCf = cfg
	w.mu.Unlock()

	chainArb.activeChannels[chanPoint] = arb
	dispDone := make(chan struct{})
	go func() { chainArb.resolveContracts(); close(dispDone) }()
	if err := arb.Start(nil, newBeatFromHeight(height)); err != nil {
		return nil, fmt.Errorf("start: %w", err)
	}
	inc := &c13Inc{arb: arb, chainArb: chainArb, exited: make(chan struct{}), dispDone: dispDone}
	go func() { arb.wg.Wait(); close(inc.exited) }()
	if !closed {
		// the link attaches: a synchronisation point with the attendant
		arb.UpdateContractSignals(&ContractSignals{ShortChanID: lnwire.ShortChannelID{}})
	}
	return inc, nil
}

func (inc *c13Inc) shutdown(w *c13World, stalled bool) error {
	if inc.arb == nil {
		return nil
	}
	bound := w.patience(10 * time.Second)
	if stalled {
		// a node that does not answer will not stop either: its goroutines are abandoned (all its
		// writes are refused from now on)
		bound = 2 * time.Second
		w.mu.Lock()
		w.dead = true
		w.mu.Unlock()
	}
	done := make(chan error, 1)
	go func() {
		err := inc.arb.Stop()
		// no goroutine of this incarnation may outlive it (it would write into the next one)
		select {
		case <-inc.chainArb.quit:
		default:
			close(inc.chainArb.quit)
		}
		<-inc.dispDone
		done <- err
	}()
	select {
	case err := <-done:
		return err
	case <-time.After(bound):
		return c13Stall{"Stop"}
	}
}

// quiesce waits until nothing has been recorded for d (bounded).
func (w *c13World) quiesce(d time.Duration) {
	deadline := time.Now().Add(3 * time.Second)
	for time.Now().Before(deadline) {
		w.mu.Lock()
		idle := time.Since(w.lastEv)
		dead := w.crashed
		w.mu.Unlock()
		if dead || idle >= d {
			return
		}
		time.Sleep(2 * time.Millisecond)
	}
}


// c13Drive plays the environment until the node is dead, the channel is
// resolved in channeldb, or nothing happens any more.
func c13Drive(w *c13World, inc *c13Inc, first bool, rng *rand.Rand) error {
	s := w.s
	arb := inc.arb
	if arb == nil {
		return nil
	}
	q := func() { w.quiesce(time.Duration(8+rng.Intn(8)) * time.Millisecond) }

	if first && s.userClose {
		if w.note("UserClose", "", "") {
			errChan := make(chan error, 1)
			respChan := make(chan *wire.MsgTx, 1)
			select {
			case arb.forceCloseReqs <- &forceCloseReq{errResp: errChan, closeTx: respChan}:
			case <-time.After(w.patience(10 * time.Second)):
				return c13Stall{"ForceCloseRequest"}
			}
			select {
			case <-respChan:
			case <-time.After(w.patience(10 * time.Second)):
				return c13Stall{"ForceCloseResponse"}
			}
			select {
			case <-errChan:
			case <-time.After(w.patience(10 * time.Second)):
				return c13Stall{"ForceCloseResponse"}
			}
		}
	}
	quiet := 0
	lastWrites := -1
	for round := 0; round < 400; round++ {
		q()
		w.mu.Lock()
		dead, resolved := w.crashed, w.resolvedDB && w.wiped
		closed := w.closedInDB
		height := w.height
		if !w.confirmed && height >= c13CloseHeight && (w.published || s.kind != "local") {
			w.confirmed = true
		}
		confirmed := w.confirmed
		writes := w.writes
		w.mu.Unlock()
		if dead || resolved {
			return nil
		}

		// chain watcher: the close event is delivered while the channel is
		// still open in channeldb (again after a restart)
		if confirmed && !closed && !inc.closeSent {
			inc.closeSent = true
			if w.note("CloseEvent", "", s.kind) {
				c13SendClose(w, arb)
			}
		}

		// blocks keep coming, up to a bound
		if height < s.maxHeight {
			w.mu.Lock()
			w.height++
			height = w.height
			ok := !w.crashed
			if ok {
				w.emitLocked("Block", "", "", "", "")
			}
			for _, c := range w.epochRegs {
				select {
				case c <- &chainntnfs.BlockEpoch{Height: height}:
				default:
				}
			}
			w.mu.Unlock()
			if !ok {
				return nil
			}
			// a node whose attendant has returned (fully resolved, or a close handler gave up) takes
			// no more beats; a dead node never answers
			exited := func() bool {
				select {
				case <-inc.exited:
					return true
				default:
					return false
				}
			}
			if !exited() {
				beat := newBeatFromHeight(height)
				done := make(chan struct{})
				go func() { arb.ProcessBlock(beat); close(done) }()
				t0 := time.Now()
			wait:
				for {
					select {
					case <-done:
						break wait
					case <-time.After(5 * time.Millisecond):
						if w.isCrashed() || exited() {
							break wait
						}
						if time.Since(t0) > w.patience(10*time.Second) {
							return c13Stall{fmt.Sprintf("ProcessBlock(%d)", height)}
						}
					}
				}
			}
			q()
		}

		w.mu.Lock()
		incubated := w.incubated
		swHtlc, swOut2, swIn, swIn2 := w.sweepOK["htlc"], w.sweepOK["out2"], w.sweepOK["in"], w.sweepOK["in2"]
		_, spent1 := w.spent[s.htlcOp]
		_, spentIn1 := w.spent[s.inOp]
		_, spentIn := w.spent[s.realIn2]
		bdone := w.breachDone
		w.mu.Unlock()

		// HTLC "o": first-level spend
		if s.hasO() && confirmed && s.spend1At > 0 && height >= s.spend1At && !spent1 {
			switch {
			case s.claim:
				// the remote party sweeps with the preimage (remote commitment:
				// <0> <sender sig> <recvr sig> <preimage> <script>)
				wit := [][]byte{{}, {1}, {2}, s.preimage[:], {3}}
				if s.ctype == "taproot" {
					// <sender sig> <receiver sig> <preimage> <success_script> <control_block>
					wit = [][]byte{{1}, {2}, s.preimage[:], {3}, {4}}
				}
				tx := &wire.MsgTx{TxIn: []*wire.TxIn{{PreviousOutPoint: s.htlcOp,
					Witness: wit}}}
				h := tx.TxHash()
				op := s.htlcOp
				w.spend(op, &chainntnfs.SpendDetail{SpentOutPoint: &op, SpendingTx: tx,
					SpenderTxHash: &h, SpendingHeight: height}, "claim")
			case s.kind == "local" && !s.zeroFee() && incubated:
				h := s.timeoutTx.TxHash()
				op := s.htlcOp
				w.spend(op, &chainntnfs.SpendDetail{SpentOutPoint: &op, SpendingTx: s.timeoutTx,
					SpenderTxHash: &h, SpendingHeight: height}, "timeout")
			case s.kind == "local" && s.zeroFee() && swHtlc:
				// the sweeper's re-signed, aggregated second-level tx: another txid, our pair at index 1
				h := s.aggTimeoutTx.TxHash()
				op := s.htlcOp
				w.spend(op, &chainntnfs.SpendDetail{SpentOutPoint: &op, SpendingTx: s.aggTimeoutTx,
					SpenderTxHash: &h, SpenderInputIndex: 1, SpendingHeight: height}, "timeout")
			case s.kind == "remote" && swHtlc:
				wit := [][]byte{{1}, {}, {3}}
				if s.ctype == "taproot" {
					// <sender sig> <timeout_script> <control_block>
					wit = [][]byte{bytes.Repeat([]byte{0x5a}, 64), {3}, {4}}
				}
				tx := &wire.MsgTx{TxIn: []*wire.TxIn{{PreviousOutPoint: s.htlcOp,
					Witness: wit}}}
				h := tx.TxHash()
				op := s.htlcOp
				w.spend(op, &chainntnfs.SpendDetail{SpentOutPoint: &op, SpendingTx: tx,
					SpenderTxHash: &h, SpendingHeight: height}, "timeout")
			}
		}
		// second level of "o" on our commitment
		if s.hasO() && s.kind == "local" && spent1 && s.spend2At > 0 && height >= s.spend2At &&
			(!s.zeroFee() || swOut2) {

			tx := &wire.MsgTx{TxIn: []*wire.TxIn{{PreviousOutPoint: s.realOut2, Witness: [][]byte{{0x7}}}}}
			h := tx.TxHash()
			op := s.realOut2
			w.spend(op, &chainntnfs.SpendDetail{SpentOutPoint: &op, SpendingTx: tx,
				SpenderTxHash: &h, SpendingHeight: height}, "sweep2")
		}
		// HTLC "i": the nursery sweeps the output of our success tx
		if s.hasI() && s.zeroFee() && swIn && height >= s.spend1At && !spentIn1 {
			// the sweeper's re-signed, aggregated success tx
			h := s.aggSuccessTx.TxHash()
			op := s.inOp
			w.spend(op, &chainntnfs.SpendDetail{SpentOutPoint: &op, SpendingTx: s.aggSuccessTx,
				SpenderTxHash: &h, SpenderInputIndex: 1, SpendingHeight: height}, "successtx")
		}
		if s.hasI() && !spentIn && ((!s.zeroFee() && incubated && height >= s.spend1At) ||
			(s.zeroFee() && spentIn1 && swIn2 && height >= s.spend2At)) {

			tx := &wire.MsgTx{TxIn: []*wire.TxIn{{PreviousOutPoint: s.realIn2, Witness: [][]byte{{0x8}}}}}
			h := tx.TxHash()
			op := s.realIn2
			w.spend(op, &chainntnfs.SpendDetail{SpentOutPoint: &op, SpendingTx: tx,
				SpenderTxHash: &h, SpendingHeight: height}, "sweepin")
		}
		// breach arbitrator: justice confirmed
		if s.kind == "breach" && confirmed && height >= s.breachAt && !bdone {
			w.mu.Lock()
			w.breachDone = true
			w.emitLocked("BreachDone", "", "", "", "")
			subs := w.breachSubs
			w.breachSubs = nil
			w.mu.Unlock()
			for _, c := range subs {
				close(c)
			}
		}

		if writes == lastWrites && height >= s.maxHeight {
			quiet++
			if quiet > 8 {
				return nil
			}
		} else {
			quiet = 0
		}
		lastWrites = writes
	}
	return nil
}

func c13SendClose(w *c13World, arb *ChannelArbitrator) {
	s := w.s
	cs := CommitSet{
		ConfCommitKey: fn.Some(LocalHtlcSet),
		HtlcSets: map[HtlcSetKey][]channeldb.HTLC{
			LocalHtlcSet: s.htlcs, RemoteHtlcSet: s.htlcs,
		},
	}
	if s.otherHtlcs != nil {
		cs.HtlcSets[s.otherKey] = s.otherHtlcs
	}
	res := s.htlcResolutions()
	h := s.closeTx.TxHash()
	switch s.kind {
	case "remote":
		cs.ConfCommitKey = fn.Some(RemoteHtlcSet)
		arb.cfg.ChainEvents.RemoteUnilateralClosure <- &RemoteUnilateralCloseInfo{
			UnilateralCloseSummary: &lnwallet.UnilateralCloseSummary{
				SpendDetail: &chainntnfs.SpendDetail{SpenderTxHash: &h, SpendingTx: s.closeTx,
					SpendingHeight: c13CloseHeight},
				HtlcResolutions:  res,
				AnchorResolution: s.anchorRes,
			},
			CommitSet: cs,
		}
	case "local":
		arb.cfg.ChainEvents.LocalUnilateralClosure <- &LocalUnilateralCloseInfo{
			SpendDetail: &chainntnfs.SpendDetail{SpendingHeight: c13CloseHeight},
			LocalForceCloseSummary: &lnwallet.LocalForceCloseSummary{
				CloseTx:             s.closeTx,
				ContractResolutions: fn.Some(lnwallet.ContractResolutions{HtlcResolutions: res,
					AnchorResolution: s.anchorRes}),
			},
			ChannelCloseSummary: &channeldb.ChannelCloseSummary{},
			CommitSet:           cs,
		}
	case "breach":
		cs.ConfCommitKey = fn.Some(RemoteHtlcSet)
		arb.cfg.ChainEvents.ContractBreach <- &BreachCloseInfo{
			BreachResolution: &BreachResolution{FundingOutPoint: wire.OutPoint{}},
			CommitSet:        cs,
			CommitHash:       h,
			CloseSummary:     channeldb.ChannelCloseSummary{CloseHeight: c13CloseHeight},
		}
	case "coop":
		arb.cfg.ChainEvents.CooperativeClosure <- &CooperativeCloseInfo{
			ChannelCloseSummary: &channeldb.ChannelCloseSummary{CloseHeight: c13CloseHeight},
		}
	}
}

// c13Run executes one plan and returns the recorded lines, the number of
// writes of the last incarnation and whether the live node stopped answering.
func c13Run(t *testing.T, plan c13Plan, rng *rand.Rand, mult int) ([]c13Line, int, bool, error) {
	s := c13NewScenario(plan.Sc)
	w := &c13World{s: s, spent: map[wire.OutPoint]*chainntnfs.SpendDetail{}, height: 1,
		preimages: map[lntypes.Hash]lntypes.Preimage{}, mult: mult, sweepOK: map[string]bool{}}
	for h, p := range s.preimageOf {
		w.preimages[h] = p
	}
	dir, err := os.MkdirTemp("", "c13db")
	if err != nil {
		return nil, 0, false, err
	}
	defer os.RemoveAll(dir)
	raw, err := kvdb.Create(kvdb.BoltBackendName, filepath.Join(dir, "testdb"), true,
		kvdb.DefaultDBTimeout, false)
	if err != nil {
		return nil, 0, false, err
	}
	defer raw.Close()
	w.raw = raw
	w.vdb = verifkit.Wrap(raw)
	db := &c13DB{DB: w.vdb, w: w}

	// the channel database with a real channel in it (fixture set-up, not part of the run)
	craw, err := kvdb.Create(kvdb.BoltBackendName, filepath.Join(dir, "chandb"), true,
		kvdb.DefaultDBTimeout, false)
	if err != nil {
		return nil, 0, false, err
	}
	defer craw.Close()
	w.craw, w.cvdb = craw, verifkit.Wrap(craw)
	w.setup = true
	w.cdb, err = channeldb.CreateWithBackend(&c13DB{DB: w.cvdb, w: w, chanDB: true})
	if err != nil {
		return nil, 0, false, fmt.Errorf("channeldb: %w", err)
	}
	lc, _, err := lnwallet.CreateTestChannels(t, s.chanType())
	if err != nil {
		return nil, 0, false, fmt.Errorf("fixture channel: %w", err)
	}
	w.channel = lc.State()
	w.channel.Db = w.cdb.ChannelStateDB()
	addr := &net.TCPAddr{IP: net.ParseIP("127.0.0.1"), Port: 18556}
	if err := w.channel.SyncPending(addr, 101); err != nil {
		return nil, 0, false, fmt.Errorf("sync channel: %w", err)
	}
	w.setup = false

	w.proj = c13Line{St: "Default", Un: []c13Res{}}
	w.mu.Lock()
	w.emitLocked("Reset", "", "", "", "")
	w.lines[len(w.lines)-1].Plan = plan.String()
	w.mu.Unlock()

	stalled := false
	crashes := plan.Crashes
	for i := 0; ; i++ {
		w.mu.Lock()
		w.crashed = false
		w.vdb.Revive()
		w.cvdb.Revive()
		w.crash = nil
		if i < len(crashes) {
			c := crashes[i]
			w.crash = &c
		}
		w.inc = i
		if i > 0 {
			// ChainArbitrator.Start republishes a stored closing tx of a channel
			// that is still open
			if w.bmark && !w.closedInDB {
				w.published = true
			}
			w.emitLocked("Restart", "", "", "", "")
		}
		w.mu.Unlock()

		inc, err := c13Boot(t, w, db)
		if err != nil {
			return w.lines, 0, false, fmt.Errorf("boot %d: %w", i, err)
		}
		derr := c13Drive(w, inc, i == 0, rng)
		_, stalledNow := derr.(c13Stall)
		serr := inc.shutdown(w, stalledNow)
		if derr == nil {
			derr = serr
		}
		if st, ok := derr.(c13Stall); ok && !w.isCrashed() {
			// the live node does not answer: recorded, the run ends here
			stalled = true
			w.mu.Lock()
			w.emitLocked("Stall", "", "", st.where, "")
			w.mu.Unlock()
			break
		}
		if derr != nil {
			if _, ok := derr.(c13Stall); !ok {
				return w.lines, 0, false, derr
			}
		}
		if !w.isCrashed() {
			break
		}
	}
	w.mu.Lock()
	w.crashed = false
	w.projectLocked()
	w.emitLocked("End", "", "", "", "")
	n := w.incWrites
	lines := w.lines
	w.mu.Unlock()
	return lines, n, stalled, nil
}

// TestVerifC13Arbitrator: reference run per scenario, then every single crash
// point in both variants (and crash point 0), optionally double crashes, then
// the plans of VERIF_C13_PLANS (generated from the model) and seeded random
// multi-crash plans.  Runs are independent (own database, own world) and are
// executed by a small worker pool; the trace file keeps the plan order.
func TestVerifC13Arbitrator(t *testing.T) {
	// the trace is flushed run by run: a panic of the code under test must not lose the runs
	// that were already complete
	tf, err := os.Create(verifkit.Env("VERIF_OUT", ".") + "/trace.ndjson")
	if err != nil {
		t.Fatal(err)
	}
	defer tf.Close()
	seed := verifkit.Seed()
	rng := rand.New(rand.NewSource(seed))

	// a panic of the code under test in one of its goroutines takes the whole test binary down: the
	// progress file tells which plans were in flight
	pf, _ := os.Create(verifkit.Env("VERIF_OUT", ".") + "/progress.log")
	var pmu sync.Mutex
	progress := func(s string) {
		pmu.Lock()
		defer pmu.Unlock()
		if pf != nil {
			fmt.Fprintln(pf, s)
			pf.Sync()
		}
	}
	type result struct {
		lines   []c13Line
		n       int
		stalled bool
		err     error
	}
	confirmed := map[string]bool{} // scenarios in which a stall has been confirmed by a run alone
	base := 0
	runAll := func(plans []c13Plan) []result {
		res := make([]result, len(plans))
		off := base
		base += len(plans)
		nw := verifkit.EnvInt("VERIF_C13_WORKERS", 4)
		var wg sync.WaitGroup
		next := make(chan int)
		for k := 0; k < nw; k++ {
			wg.Add(1)
			go func() {
				defer wg.Done()
				for i := range next {
					r := rand.New(rand.NewSource(seed*1000003 + int64(off+i)))
					progress("start " + plans[i].String())
					lines, n, st, err := c13Run(t, plans[i], r, 1)
					progress("done  " + plans[i].String())
					res[i] = result{lines, n, st, err}
				}
			}()
		}
		for i := range plans {
			next <- i
		}
		close(next)
		wg.Wait()
		// a run in which the live node stopped answering is repeated alone with three times the
		// patience: only what stalls again is recorded as a stall
		for i := range res {
			if res[i].err == nil && res[i].stalled && !confirmed[plans[i].Sc] {
				r := rand.New(rand.NewSource(seed*1000003 + int64(off+i)))
				progress("again " + plans[i].String())
				lines, n, st, err := c13Run(t, plans[i], r, 3)
				t.Logf("STALL plan=%s repeated alone with 3x patience: stalled again=%v", plans[i], st)
				res[i] = result{lines, n, st, err}
				if err == nil && st {
					confirmed[plans[i].Sc] = true
				}
			}
		}
		return res
	}
	nruns := 0
	emit := func(plans []c13Plan, res []result) {
		for i, r := range res {
			if r.err != nil {
				// a harness-level failure: reported, never judged
				t.Logf("HARNESS-ERROR plan=%s: %v", plans[i], r.err)
				for _, l := range r.lines {
					t.Logf("   %s %s %s %s %s", l.A, l.W, l.H, l.K, l.Lbl)
				}
				t.Fail()
				continue
			}
			var buf []byte
			for _, l := range r.lines {
				b, err := json.Marshal(l)
				if err != nil {
					t.Fatal(err)
				}
				buf = append(append(buf, b...), '\n')
			}
			tf.Write(buf)
			nruns++
		}
	}

	enum := strings.Split(verifkit.Env("VERIF_C13_ENUM", "local,remote,localfar"), ",")
	double := map[string]bool{}
	for _, s := range strings.Split(os.Getenv("VERIF_C13_DOUBLE"), ",") {
		double[s] = true
	}
	var refs []c13Plan
	for _, sc := range enum {
		if sc != "" {
			refs = append(refs, c13Plan{Sc: sc, Ref: true})
		}
	}
	refRes := runAll(refs)
	for i, r := range refRes {
		if r.err == nil && r.stalled {
			// without a complete reference run nothing can be said about the scenario
			refRes[i].err = fmt.Errorf("the crash-free reference run does not complete")
		}
	}
	emit(refs, refRes)

	var plans []c13Plan
	for i, ref := range refs {
		sc, nref := ref.Sc, refRes[i].n
		t.Logf("scenario %s: reference run has %d writes", sc, nref)
		if verifkit.EnvInt("VERIF_C13_NOENUM", 0) == 1 {
			continue
		}
		plans = append(plans, c13Plan{Sc: sc, Crashes: []c13Crash{{0, "B"}}})
		for n := 1; n <= nref; n++ {
			plans = append(plans, c13Plan{Sc: sc, Crashes: []c13Crash{{n, "A"}}})
			if n < nref {
				plans = append(plans, c13Plan{Sc: sc, Crashes: []c13Crash{{n, "B"}}})
			}
		}
		if double[sc] {
			for n := 0; n < nref; n++ {
				for m := 0; m <= 3; m++ {
					plans = append(plans, c13Plan{Sc: sc, Crashes: []c13Crash{{n, "B"}, {m, "B"}}})
				}
			}
		}
	}
	if p := os.Getenv("VERIF_C13_PLANS"); p != "" {
		ps, err := verifkit.ReadNDJSONInto[c13Plan](p)
		if err != nil {
			t.Fatal(err)
		}
		plans = append(plans, ps...)
	}
	nrand := verifkit.EnvInt("VERIF_C13_RANDOM", 0)
	for i := 0; i < nrand; i++ {
		sc := enum[rng.Intn(len(enum))]
		var cr []c13Crash
		for k := 0; k < 2+rng.Intn(2); k++ {
			cr = append(cr, c13Crash{rng.Intn(9), []string{"A", "B"}[rng.Intn(2)]})
		}
		plans = append(plans, c13Plan{Sc: sc, Crashes: cr})
	}
	for a := 0; a < len(plans); a += 24 {
		b := a + 24
		if b > len(plans) {
			b = len(plans)
		}
		emit(plans[a:b], runAll(plans[a:b]))
	}
	t.Logf("C13: %d runs recorded", nruns)
}
