//go:build verif

package contractcourt

// C12 executor, part "Conf" (spec/ChainActions/ChainActionsConf: which
// commitment confirmed, what the chain watcher hands to the arbitrator, and
// the resolvers' identity until their output is spent, across restarts).
//
// Reads schedules (one JSON object per line: the universe attr[slot] = {dir,
// size} and the events AAdd / BAdd / ARemove / BRemove / AFee / ASign / BRevoke /
// BSign / Spend(c) / Close / Restart / Expire / Claim(i) / TimeoutSpend(i)) and
// replays each one on REAL code:
//   - the link steps on a real lnwallet channel pair (CreateTestChannels;
//     "A" = us = the fixture's alice (dust limit 200 sat) if lowL = 1, its bob
//     (1300 sat) if lowL = 0): AddHTLC/ReceiveHTLC, Fail/Settle,
//     SignNextCommitment, RevokeCurrentCommitment ...;
//   - Spend(c): the commitment transaction c of alice's channel state (her
//     own, bob's current, bob's pending one from RemoteCommitChainTip) spends
//     the funding output; a real chainWatcher on alice's channel state handles
//     it (handleCommitSpend) and the close event it dispatches is recorded;
//   - Close: that event is handed to a real, started ChannelArbitrator (bolt
//     log, createTestChannelArbitrator fixture) whose resolvers run on an
//     outpoint-faithful chain notifier (spends go to the registrations of that
//     outpoint, also to later ones; a new epoch subscriber gets the current
//     height);
//   - Restart: Stop, a new arbitrator on the same log, Start (relaunchResolvers);
//   - Expire: the chain reaches every expiry; Claim(i): output i of the
//     confirmed commitment is spent with the preimage of the HTLC that owns it;
//     TimeoutSpend(i): it is spent by our timeout path (second-level outputs
//     are swept at once).
// After every event the executor waits until every resolver has reached its
// next blocking point (judged from chain facts: an unresolved resolver whose
// output is spent / whose expiry is reached is still moving) and records one
// line: the event, the watcher's close event (key, OutputIndex per slot of the
// three sets, output indexes with a resolution), the arbitrator's state, the
// cumulative upstream fail-backs / settles / PutFinalHtlcOutcome(false) per
// slot and per output index the active resolver's kind, stage and the slot of
// the HTLC it carries.  Nothing is judged here.

import (
	"context"
	"crypto/sha256"
	"fmt"
	"os"
	"path/filepath"
	"sync"
	"testing"
	"time"

	"github.com/btcsuite/btcd/btcutil/v2"
	"github.com/btcsuite/btcd/chainhash/v2"
	"github.com/btcsuite/btcd/wire/v2"
	"github.com/lightningnetwork/lnd/chainntnfs"
	"github.com/lightningnetwork/lnd/channeldb"
	"github.com/lightningnetwork/lnd/fn/v2"
	"github.com/lightningnetwork/lnd/htlcswitch/hop"
	"github.com/lightningnetwork/lnd/internal/verifkit"
	"github.com/lightningnetwork/lnd/kvdb"
	"github.com/lightningnetwork/lnd/lntypes"
	"github.com/lightningnetwork/lnd/lnwallet"
	"github.com/lightningnetwork/lnd/lnwallet/chainfee"
	"github.com/lightningnetwork/lnd/lnwire"
)

const (
	c12cH0     = 100
	c12cExpiry = 300
	c12cWait   = 12 * time.Second
)

type c12cAttr struct {
	Dir  string `json:"dir"`
	Size string `json:"size"`
}

type c12cEvent struct {
	A   string `json:"a"`
	S   int    `json:"s"`
	How string `json:"how"`
	C   string `json:"c"`
	I   int    `json:"i"`
}

type c12cSched struct {
	ID   int         `json:"id"`
	Attr []c12cAttr  `json:"attr"`
	LowL int         `json:"lowL"`
	Ev   []c12cEvent `json:"ev"`
}

// ---- the chain and the notifier ---------------------------------------------

type c12cSpendReg struct {
	op        wire.OutPoint
	ch        chan *chainntnfs.SpendDetail
	delivered bool
}

type c12cEpochReg struct {
	ch        chan *chainntnfs.BlockEpoch
	cancelled bool
}

// c12cChain is what survives a restart of the arbitrator: height, the
// confirmed commitment, the spent outpoints.
type c12cChain struct {
	mu         sync.Mutex
	height     int32
	commitHash chainhash.Hash
	haveCommit bool
	spent      map[wire.OutPoint]*chainntnfs.SpendDetail
	spendRegs  []*c12cSpendReg
	epochRegs  []*c12cEpochReg
}

func (c *c12cChain) sweepDetail(op wire.OutPoint) *chainntnfs.SpendDetail {
	tx := &wire.MsgTx{TxIn: []*wire.TxIn{{PreviousOutPoint: op, Witness: [][]byte{{0x1}}}},
		TxOut: []*wire.TxOut{{}}}
	h := tx.TxHash()
	o := op
	return &chainntnfs.SpendDetail{SpentOutPoint: &o, SpenderTxHash: &h, SpendingTx: tx,
		SpendingHeight: c.height}
}

// newIncarnation forgets all registrations (they belonged to the stopped arbitrator).
func (c *c12cChain) newIncarnation() {
	c.mu.Lock()
	c.spendRegs, c.epochRegs = nil, nil
	c.mu.Unlock()
}

func (c *c12cChain) RegisterSpendNtfn(op *wire.OutPoint, _ []byte, _ uint32) (*chainntnfs.SpendEvent, error) {
	c.mu.Lock()
	defer c.mu.Unlock()
	reg := &c12cSpendReg{op: *op, ch: make(chan *chainntnfs.SpendDetail, 1)}
	switch d, ok := c.spent[*op]; {
	case ok:
		reg.ch <- d
		reg.delivered = true
	case c.haveCommit && op.Hash != c.commitHash:
		// an output of one of our second-level transactions: its sweep confirms at once
		d := c.sweepDetail(*op)
		c.spent[*op] = d
		reg.ch <- d
		reg.delivered = true
	}
	c.spendRegs = append(c.spendRegs, reg)
	return &chainntnfs.SpendEvent{Spend: reg.ch, Cancel: func() {}}, nil
}

func (c *c12cChain) RegisterBlockEpochNtfn(*chainntnfs.BlockEpoch) (*chainntnfs.BlockEpochEvent, error) {
	c.mu.Lock()
	defer c.mu.Unlock()
	reg := &c12cEpochReg{ch: make(chan *chainntnfs.BlockEpoch, 16)}
	reg.ch <- &chainntnfs.BlockEpoch{Height: c.height}
	c.epochRegs = append(c.epochRegs, reg)
	return &chainntnfs.BlockEpochEvent{Epochs: reg.ch, Cancel: func() {
		c.mu.Lock()
		reg.cancelled = true
		c.mu.Unlock()
	}}, nil
}

func (c *c12cChain) RegisterConfirmationsNtfn(*chainhash.Hash, []byte, uint32, uint32,
	...chainntnfs.NotifierOption) (*chainntnfs.ConfirmationEvent, error) {

	return chainntnfs.NewConfirmationEvent(1, func() {}), nil
}

func (c *c12cChain) Start() error  { return nil }
func (c *c12cChain) Started() bool { return true }
func (c *c12cChain) Stop() error   { return nil }

func (c *c12cChain) spend(op wire.OutPoint, d *chainntnfs.SpendDetail) {
	c.mu.Lock()
	defer c.mu.Unlock()
	c.spent[op] = d
	for _, r := range c.spendRegs {
		if r.op == op && !r.delivered {
			r.ch <- d
			r.delivered = true
		}
	}
}

func (c *c12cChain) epoch(h int32) {
	c.mu.Lock()
	defer c.mu.Unlock()
	c.height = h
	for _, r := range c.epochRegs {
		if !r.cancelled {
			select {
			case r.ch <- &chainntnfs.BlockEpoch{Height: h}:
			default:
			}
		}
	}
}

func (c *c12cChain) pendingSpendLocked(op wire.OutPoint) bool {
	for _, r := range c.spendRegs {
		if r.op == op && !r.delivered {
			return true
		}
	}
	return false
}

type c12cChainIO struct {
	mockChainIO
	chain *c12cChain
}

func (io *c12cChainIO) GetBestBlock() (*chainhash.Hash, int32, error) {
	io.chain.mu.Lock()
	defer io.chain.mu.Unlock()
	return &chainhash.Hash{}, io.chain.height, nil
}

// c12cBeacon: a goroutine-safe witness cache.
type c12cBeacon struct {
	mu sync.Mutex
	m  map[lntypes.Hash]lntypes.Preimage
}

func (b *c12cBeacon) SubscribeUpdates(lnwire.ShortChannelID, *channeldb.HTLC, *hop.Payload,
	[]byte) (*WitnessSubscription, error) {

	return &WitnessSubscription{WitnessUpdates: make(chan lntypes.Preimage), CancelSubscription: func() {}}, nil
}

func (b *c12cBeacon) LookupPreimage(h lntypes.Hash) (lntypes.Preimage, bool) {
	b.mu.Lock()
	defer b.mu.Unlock()
	p, ok := b.m[h]
	return p, ok
}

func (b *c12cBeacon) AddPreimages(ps ...lntypes.Preimage) error {
	b.mu.Lock()
	defer b.mu.Unlock()
	for _, p := range ps {
		b.m[p.Hash()] = p
	}
	return nil
}

// c12cLog remembers which contracts the arbitrator has marked resolved in its log.
type c12cLog struct {
	ArbitratorLog
	mu       sync.Mutex
	resolved map[string]bool
}

func (l *c12cLog) ResolveContract(r ContractResolver) error {
	err := l.ArbitratorLog.ResolveContract(r)
	l.mu.Lock()
	l.resolved[string(r.ResolverKey())] = true
	l.mu.Unlock()
	return err
}

func (l *c12cLog) isResolved(r ContractResolver) bool {
	l.mu.Lock()
	defer l.mu.Unlock()
	return l.resolved[string(r.ResolverKey())]
}

// ---- one run ------------------------------------------------------------------

type c12cWorld struct {
	t     *testing.T
	s     *c12cSched
	nh    int
	db    kvdb.Backend
	runNo int

	alice, bob *lnwallet.LightningChannel
	watcher    *chainWatcher
	sub        *ChainEventSubscription
	chain      *c12cChain
	beacon     *c12cBeacon

	arb *ChannelArbitrator
	log *c12cLog

	idx     []uint64 // HtlcIndex of slot (0-based slot)
	added   []bool
	nextOut uint64
	nextIn  uint64

	local  *LocalUnilateralCloseInfo
	remote *RemoteUnilateralCloseInfo

	mu      sync.Mutex
	fails   []int
	settles []int
	closed  []int
	other   int

	wkey           string
	wl, wr, wp     []int
	wout, win      []int
	closeTrigger   channeldb.ClosureType
	lines          []verifkit.Rec
}

func c12cPreimage(slot int) lntypes.Preimage {
	var p lntypes.Preimage
	p[0], p[1] = 0xc2, byte(slot)
	return p
}

func (w *c12cWorld) amount(slot int) lnwire.MilliSatoshi {
	switch w.s.Attr[slot-1].Size {
	case "big":
		return lnwire.NewMSatFromSatoshis(btcutil.Amount(20000 + 1000*slot))
	case "edge":
		// an output on every commitment at the initial fee rate (6000 sat/kw), trimmed on every
		// commitment at the raised one (12000 sat/kw)
		return lnwire.NewMSatFromSatoshis(btcutil.Amount(7000 + 10*slot))
	case "mid":
		// an output on the commitment of the party with the dust limit of 200 sat, trimmed on the other (1300 sat)
		return lnwire.NewMSatFromSatoshis(btcutil.Amount(5000 + 10*slot))
	default:
		return lnwire.NewMSatFromSatoshis(btcutil.Amount(1000 + slot))
	}
}

// slotOf: the slot (1-based) of the HTLC with that direction and index; 0 if unknown.
func (w *c12cWorld) slotOf(incoming bool, idx uint64) int {
	for i, a := range w.s.Attr {
		if !w.added[i] || w.idx[i] != idx {
			continue
		}
		if (a.Dir == "in") == incoming {
			return i + 1
		}
	}
	return 0
}

func (w *c12cWorld) wire(cfg *ChannelArbitratorConfig) {
	cfg.ChanPoint = wire.OutPoint{Index: uint32(w.runNo)}
	cfg.Notifier = w.chain
	cfg.ChainIO = &c12cChainIO{chain: w.chain}
	cfg.PreimageDB = w.beacon
	cfg.Registry = &mockRegistry{}
	cfg.Sweeper = c12Sweeper{}
	cfg.IsForwardedHTLC = func(lnwire.ShortChannelID, uint64) bool { return true }
	cfg.DeliverResolutionMsg = func(msgs ...ResolutionMsg) error {
		w.mu.Lock()
		defer w.mu.Unlock()
		for _, m := range msgs {
			sl := w.slotOf(false, m.HtlcIndex)
			switch {
			case sl == 0:
				w.other++
			case m.Failure != nil:
				w.fails[sl-1]++
			default:
				w.settles[sl-1]++
			}
		}
		return nil
	}
	cfg.PutFinalHtlcOutcome = func(_ lnwire.ShortChannelID, id uint64, settled bool) error {
		w.mu.Lock()
		defer w.mu.Unlock()
		sl := w.slotOf(true, id)
		switch {
		case sl == 0:
			w.other++
		case !settled:
			w.closed[sl-1]++
		}
		return nil
	}
	cfg.IncubateOutputs = func(wire.OutPoint, fn.Option[lnwallet.OutgoingHtlcResolution],
		fn.Option[lnwallet.IncomingHtlcResolution], uint32, fn.Option[int32], ...IncubateOption) error {

		return nil
	}
	cfg.SubscribeBreachComplete = func(*wire.OutPoint, chan struct{}) (bool, error) { return false, nil }
	cfg.NotifyChannelResolved = func() {}
	cfg.Channel = &c12Channel{rec: &c12Rec{}}
}

// newArbitrator creates an arbitrator on the run's log (a fresh one or, after a
// restart, the one the previous incarnation wrote) and starts it.
func (w *c12cWorld) newArbitrator(restart bool) error {
	placeholder := &mockArbitratorLog{state: StateDefault, newStates: make(chan ArbitratorState, 100)}
	ctx, err := createTestChannelArbitrator(w.t, placeholder)
	if err != nil {
		return err
	}
	arb := ctx.chanArb
	cfg := &arb.cfg
	w.wire(cfg)
	if restart {
		cfg.IsPendingClose = true
		cfg.ClosingHeight = c12cH0
		cfg.CloseType = w.closeTrigger
	}
	blog, err := newBoltArbitratorLog(w.db, *cfg, chainhash.Hash{}, cfg.ChanPoint)
	if err != nil {
		return err
	}
	w.log = &c12cLog{ArbitratorLog: blog, resolved: make(map[string]bool)}
	arb.log = w.log
	w.arb = arb
	w.chain.mu.Lock()
	h := w.chain.height
	w.chain.mu.Unlock()
	if err := arb.Start(nil, newBeatFromHeight(h)); err != nil {
		return err
	}
	// the attendant enters its loop only after the start-up pass
	return c12cTimed("UpdateContractSignals", func() {
		arb.UpdateContractSignals(&ContractSignals{ShortChanID: lnwire.ShortChannelID{}})
	})
}

func c12cTimed(what string, f func()) error {
	done := make(chan struct{})
	go func() { f(); close(done) }()
	select {
	case <-done:
		return nil
	case <-time.After(60 * time.Second):
		return fmt.Errorf("%s did not return", what)
	}
}

func (w *c12cWorld) stopArb() error {
	if w.arb == nil {
		return nil
	}
	arb := w.arb
	w.arb = nil
	var err error
	if e := c12cTimed("Stop", func() { err = arb.Stop() }); e != nil {
		return e
	}
	return err
}

func (w *c12cWorld) resolvers() []ContractResolver {
	if w.arb == nil {
		return nil
	}
	w.arb.activeResolversLock.RLock()
	defer w.arb.activeResolversLock.RUnlock()
	return append([]ContractResolver(nil), w.arb.activeResolvers...)
}

// settled: every unresolved HTLC resolver sits at a blocking point that the
// chain, as it is, will not move it from.
func (w *c12cWorld) settled() bool {
	rs := w.resolvers()
	c := w.chain
	c.mu.Lock()
	defer c.mu.Unlock()
	holders := 0
	for _, r := range rs {
		var op wire.OutPoint
		switch x := r.(type) {
		case *htlcOutgoingContestResolver:
			op = x.HtlcPoint()
		case *htlcTimeoutResolver:
			op = x.HtlcPoint()
		case *htlcIncomingContestResolver:
			op = x.HtlcPoint()
		case *htlcSuccessResolver:
			op = x.HtlcPoint()
		default:
			continue
		}
		if r.IsResolved() {
			if !w.log.isResolved(r) {
				return false
			}
			continue
		}
		switch x := r.(type) {
		case *htlcOutgoingContestResolver:
			if c.spent[op] != nil || uint32(c.height)+1 >= x.htlcResolution.Expiry ||
				!c.pendingSpendLocked(op) {

				return false
			}
			holders++
		case *htlcTimeoutResolver:
			if c.spent[op] != nil || !c.pendingSpendLocked(op) {
				return false
			}
		case *htlcIncomingContestResolver:
			if uint32(c.height) >= x.htlcExpiry {
				return false
			}
			holders++
		}
	}
	active := 0
	for _, e := range c.epochRegs {
		if e.cancelled {
			continue
		}
		active++
		if len(e.ch) != 0 {
			return false
		}
	}
	return active == holders
}

func (w *c12cWorld) waitSettled() bool {
	deadline := time.Now().Add(c12cWait)
	for {
		if w.settled() {
			return true
		}
		if time.Now().After(deadline) {
			return false
		}
		time.Sleep(300 * time.Microsecond)
	}
}

func (w *c12cWorld) setView(htlcs []channeldb.HTLC) []int {
	v := make([]int, w.nh)
	for i := range v {
		v[i] = -2
	}
	for _, h := range htlcs {
		sl := w.slotOf(h.Incoming, h.HtlcIndex)
		if sl == 0 {
			w.other++
			continue
		}
		v[sl-1] = int(h.OutputIndex)
	}
	return v
}

func (w *c12cWorld) recordEvent(cs *CommitSet, res *lnwallet.HtlcResolutions) {
	w.wkey = "none"
	cs.ConfCommitKey.WhenSome(func(k HtlcSetKey) {
		switch k {
		case LocalHtlcSet:
			w.wkey = "L"
		case RemoteHtlcSet:
			w.wkey = "R"
		case RemotePendingHtlcSet:
			w.wkey = "P"
		}
	})
	w.wl = w.setView(cs.HtlcSets[LocalHtlcSet])
	w.wr = w.setView(cs.HtlcSets[RemoteHtlcSet])
	w.wp = w.setView(cs.HtlcSets[RemotePendingHtlcSet])
	w.wout, w.win = []int{}, []int{}
	if res != nil {
		for i := range res.OutgoingHTLCs {
			w.wout = append(w.wout, int(res.OutgoingHTLCs[i].HtlcPoint().Index))
		}
		for i := range res.IncomingHTLCs {
			w.win = append(w.win, int(res.IncomingHTLCs[i].HtlcPoint().Index))
		}
	}
}

func (w *c12cWorld) emit(ev c12cEvent, errBit, stall int) {
	cp := func(x []int) []int { return append([]int{}, x...) }
	w.mu.Lock()
	fails, settles, closed, other := cp(w.fails), cp(w.settles), cp(w.closed), w.other
	w.mu.Unlock()
	rk, rf, rst := make([]string, w.nh), make([]int, w.nh), make([]string, w.nh)
	for i := range rk {
		rk[i], rst[i] = "none", "none"
	}
	st := "Default"
	if w.arb != nil {
		if s, err := w.log.CurrentState(nil); err == nil {
			st = c12StateNames[s]
		}
		for _, r := range w.resolvers() {
			var (
				kind, stage string
				op          wire.OutPoint
				htlc        channeldb.HTLC
			)
			switch x := r.(type) {
			case *htlcOutgoingContestResolver:
				kind, stage, op, htlc = "ocontest", "watch", x.HtlcPoint(), x.htlc
			case *htlcTimeoutResolver:
				kind, stage, op, htlc = "timeout", "timeout", x.HtlcPoint(), x.htlc
			case *htlcIncomingContestResolver:
				kind, stage, op, htlc = "icontest", "watch", x.HtlcPoint(), x.htlc
			case *htlcSuccessResolver:
				kind, stage, op, htlc = "success", "success", x.HtlcPoint(), x.htlc
			default:
				continue
			}
			if r.IsResolved() {
				stage = "done"
			}
			i := int(op.Index)
			if i >= w.nh || rk[i] != "none" {
				other++
				continue
			}
			rk[i], rst[i], rf[i] = kind, stage, w.slotOf(htlc.Incoming, htlc.HtlcIndex)
		}
	}
	w.lines = append(w.lines, verifkit.Rec{
		"a": ev.A, "s": ev.S, "how": ev.How, "c": ev.C, "i": ev.I, "err": errBit, "stall": stall,
		"wkey": w.wkey, "wl": cp(w.wl), "wr": cp(w.wr), "wp": cp(w.wp), "wout": cp(w.wout), "win": cp(w.win),
		"st": st, "fails": fails, "settles": settles, "closed": closed, "other": other,
		"rk": rk, "rf": rf, "rst": rst,
	})
}

// confirmedOutpoint: output i of the confirmed commitment.
func (w *c12cWorld) confirmedOutpoint(i int) wire.OutPoint {
	return wire.OutPoint{Hash: w.chain.commitHash, Index: uint32(i)}
}

// ownerPreimage: the preimage of the HTLC whose output on the confirmed commitment is i
// (taken from the channel state, the chain's truth).
func (w *c12cWorld) ownerPreimage(c string, i int) (lntypes.Preimage, bool) {
	var htlcs []channeldb.HTLC
	st := w.alice.State()
	switch c {
	case "L":
		htlcs = st.LocalCommitment.Htlcs
	case "R":
		htlcs = st.RemoteCommitment.Htlcs
	default:
		if tip, err := st.RemoteCommitChainTip(); err == nil {
			htlcs = tip.Commitment.Htlcs
		}
	}
	for _, h := range htlcs {
		if int(h.OutputIndex) == i {
			if sl := w.slotOf(h.Incoming, h.HtlcIndex); sl != 0 {
				return c12cPreimage(sl), true
			}
		}
	}
	return lntypes.Preimage{}, false
}

func c12cRun(t *testing.T, db kvdb.Backend, s *c12cSched, runNo int) ([]verifkit.Rec, error) {
	nh := len(s.Attr)
	alice, bob, err := lnwallet.CreateTestChannels(t, channeldb.SingleFunderTweaklessBit)
	if err != nil {
		return nil, err
	}
	if s.LowL == 0 {
		// "us" is the party with the HIGHER dust limit (the fixture's bob, 1300 sat): from here on
		// the variable alice is us, bob the peer
		alice, bob = bob, alice
	}
	w := &c12cWorld{t: t, s: s, nh: nh, db: db, runNo: runNo, alice: alice, bob: bob,
		chain:  &c12cChain{height: c12cH0, spent: make(map[wire.OutPoint]*chainntnfs.SpendDetail)},
		beacon: &c12cBeacon{m: make(map[lntypes.Hash]lntypes.Preimage)},
		idx:    make([]uint64, nh), added: make([]bool, nh),
		fails: make([]int, nh), settles: make([]int, nh), closed: make([]int, nh),
		wkey: "none", wout: []int{}, win: []int{}}
	w.wl, w.wr, w.wp = w.setView(nil), w.setView(nil), w.setView(nil)

	watcher, err := newChainWatcher(chainWatcherConfig{
		chanState:           alice.State(),
		notifier:            w.chain,
		signer:              alice.Signer,
		extractStateNumHint: lnwallet.GetStateNumHint,
		chanCloseConfs:      fn.Some(uint32(1)),
	})
	if err != nil {
		return nil, err
	}
	w.watcher = watcher
	w.sub = watcher.SubscribeChannelEvents()

	if err := w.newArbitrator(false); err != nil {
		return nil, err
	}
	defer func() { _ = w.stopArb() }()

	ctx := context.Background()
	spentBy := ""
	for _, ev := range s.Ev {
		var stepErr error
		stall := 0
		switch ev.A {
		case "AAdd", "BAdd":
			from, to, id := alice, bob, &w.nextOut
			if ev.A == "BAdd" {
				from, to, id = bob, alice, &w.nextIn
			}
			pre := c12cPreimage(ev.S)
			htlc := &lnwire.UpdateAddHTLC{ID: *id, PaymentHash: sha256.Sum256(pre[:]),
				Amount: w.amount(ev.S), Expiry: c12cExpiry}
			var i1, i2 uint64
			if i1, stepErr = from.AddHTLC(htlc, nil); stepErr == nil {
				i2, stepErr = to.ReceiveHTLC(htlc)
			}
			if stepErr == nil && i1 == i2 {
				w.idx[ev.S-1], w.added[ev.S-1] = i1, true
				*id++
			} else if stepErr == nil {
				stepErr = fmt.Errorf("htlc index %d vs %d", i1, i2)
			}

		case "ARemove":
			if stepErr = alice.FailHTLC(w.idx[ev.S-1], []byte{1}, nil, nil, nil); stepErr == nil {
				stepErr = bob.ReceiveFailHTLC(w.idx[ev.S-1], []byte{1})
			}

		case "BRemove":
			if ev.How == "settle" {
				pre := c12cPreimage(ev.S)
				if stepErr = bob.SettleHTLC(pre, w.idx[ev.S-1], nil, nil, nil); stepErr == nil {
					stepErr = alice.ReceiveHTLCSettle(pre, w.idx[ev.S-1])
				}
				// the link hands a preimage it receives to the witness cache
				_ = w.beacon.AddPreimages(pre)
			} else {
				if stepErr = bob.FailHTLC(w.idx[ev.S-1], []byte{1}, nil, nil, nil); stepErr == nil {
					stepErr = alice.ReceiveFailHTLC(w.idx[ev.S-1], []byte{1})
				}
			}

		case "AFee":
			if stepErr = alice.UpdateFee(chainfee.SatPerKWeight(12000)); stepErr == nil {
				stepErr = bob.ReceiveUpdateFee(chainfee.SatPerKWeight(12000))
			}

		case "ASign":
			var sigs *lnwallet.NewCommitState
			if sigs, stepErr = alice.SignNextCommitment(ctx); stepErr == nil {
				stepErr = bob.ReceiveNewCommitment(sigs.CommitSigs)
			}

		case "BRevoke":
			var rev *lnwire.RevokeAndAck
			if rev, _, _, stepErr = bob.RevokeCurrentCommitment(); stepErr == nil {
				_, _, stepErr = alice.ReceiveRevocation(rev)
			}

		case "BSign":
			var sigs *lnwallet.NewCommitState
			if sigs, stepErr = bob.SignNextCommitment(ctx); stepErr == nil {
				stepErr = alice.ReceiveNewCommitment(sigs.CommitSigs)
			}
			if stepErr == nil {
				var rev *lnwire.RevokeAndAck
				if rev, _, _, stepErr = alice.RevokeCurrentCommitment(); stepErr == nil {
					_, _, stepErr = bob.ReceiveRevocation(rev)
				}
			}

		case "Spend":
			var tx *wire.MsgTx
			st := alice.State()
			switch ev.C {
			case "L":
				tx = st.LocalCommitment.CommitTx
			case "R":
				tx = st.RemoteCommitment.CommitTx
			default:
				tip, e := st.RemoteCommitChainTip()
				if stepErr = e; e == nil {
					tx = tip.Commitment.CommitTx
				}
			}
			if stepErr != nil {
				break
			}
			h := tx.TxHash()
			w.chain.mu.Lock()
			w.chain.commitHash, w.chain.haveCommit = h, true
			w.chain.mu.Unlock()
			spentBy = ev.C
			detail := &chainntnfs.SpendDetail{SpentOutPoint: &st.FundingOutpoint, SpenderTxHash: &h,
				SpendingTx: tx, SpendingHeight: c12cH0}
			var herr error
			if e := c12cTimed("handleCommitSpend", func() { herr = watcher.handleCommitSpend(detail) }); e != nil {
				return nil, e
			}
			_ = herr // an event that is not dispatched shows as wkey "none"
			select {
			case w.local = <-w.sub.LocalUnilateralClosure:
				w.closeTrigger = channeldb.LocalForceClose
				var res *lnwallet.HtlcResolutions
				w.local.ContractResolutions.WhenSome(func(r lnwallet.ContractResolutions) {
					res = r.HtlcResolutions
				})
				w.recordEvent(&w.local.CommitSet, res)
			case w.remote = <-w.sub.RemoteUnilateralClosure:
				w.closeTrigger = channeldb.RemoteForceClose
				w.recordEvent(&w.remote.CommitSet, w.remote.HtlcResolutions)
			case <-w.sub.ContractBreach:
				w.other++
			case <-w.sub.CooperativeClosure:
				w.other++
			default:
			}

		case "Close":
			switch {
			case w.local != nil:
				w.arb.cfg.ChainEvents.LocalUnilateralClosure <- w.local
			case w.remote != nil:
				w.arb.cfg.ChainEvents.RemoteUnilateralClosure <- w.remote
			default:
				stepErr = fmt.Errorf("no close event to hand over")
			}
			if stepErr == nil {
				arb := w.arb
				if e := c12cTimed("ProcessBlock(barrier)", func() {
					_ = arb.ProcessBlock(newBeatFromHeight(c12cH0))
				}); e != nil {
					return nil, e
				}
				if !w.waitSettled() {
					stall = 1
				}
			}

		case "Restart":
			if stepErr = w.stopArb(); stepErr != nil {
				return nil, stepErr
			}
			w.chain.newIncarnation()
			if e := w.newArbitrator(true); e != nil {
				// the real start-up path refused: recorded, judged by the trace spec
				stepErr = e
				break
			}
			if !w.waitSettled() {
				stall = 1
			}

		case "Expire":
			w.chain.epoch(c12cExpiry)
			if !w.waitSettled() {
				stall = 1
			}

		case "Claim", "TimeoutSpend":
			op := w.confirmedOutpoint(ev.I)
			var wit [][]byte
			if ev.A == "Claim" {
				pre, ok := w.ownerPreimage(spentBy, ev.I)
				if !ok {
					stepErr = fmt.Errorf("output %d of the confirmed commitment has no owner", ev.I)
					break
				}
				if spentBy == "L" {
					wit = [][]byte{{0x1}, pre[:], {0x3}}
				} else {
					wit = [][]byte{{}, {0x1}, {0x2}, pre[:], {0x3}}
				}
			} else {
				if spentBy == "L" {
					wit = [][]byte{{}, {0x1}, {0x2}, {}, {0x3}}
				} else {
					wit = [][]byte{{0x1}, {}, {0x3}}
				}
			}
			tx := &wire.MsgTx{TxIn: []*wire.TxIn{{PreviousOutPoint: op, Witness: wit}},
				TxOut: []*wire.TxOut{{}}}
			h := tx.TxHash()
			w.chain.mu.Lock()
			height := w.chain.height
			w.chain.mu.Unlock()
			w.chain.spend(op, &chainntnfs.SpendDetail{SpentOutPoint: &op, SpenderTxHash: &h,
				SpendingTx: tx, SpendingHeight: height})
			if !w.waitSettled() {
				stall = 1
			}

		default:
			return nil, fmt.Errorf("unknown event %q", ev.A)
		}
		errBit := 0
		if stepErr != nil {
			errBit = 1
			t.Logf("C12 conf: schedule %d event %s: %v", s.ID, ev.A, stepErr)
		}
		w.emit(ev, errBit, stall)
		if errBit == 1 || stall == 1 {
			break
		}
	}
	if err := w.stopArb(); err != nil {
		return nil, err
	}
	if w.log != nil {
		_ = w.log.WipeHistory()
	}
	return w.lines, nil
}

func TestVerifC12Conf(t *testing.T) {
	schedPath := os.Getenv("C12C_SCHED")
	outDir := os.Getenv("VERIF_OUT")
	if schedPath == "" || outDir == "" {
		t.Skip("C12C_SCHED / VERIF_OUT not set")
	}
	scheds, err := verifkit.ReadNDJSONInto[c12cSched](schedPath)
	if err != nil {
		t.Fatalf("schedules: %v", err)
	}
	workers := verifkit.EnvInt("C12_WORKERS", 3)
	if workers < 1 {
		workers = 1
	}
	type result struct {
		lines []verifkit.Rec
		err   error
	}
	results := make([]result, len(scheds))
	var (
		wg   sync.WaitGroup
		mu   sync.Mutex
		next int
		runs int
	)
	for wk := 0; wk < workers; wk++ {
		dbPath := filepath.Join(t.TempDir(), fmt.Sprintf("c12c_%d.db", wk))
		bdb, err := kvdb.Create(kvdb.BoltBackendName, dbPath, true, kvdb.DefaultDBTimeout, false)
		if err != nil {
			t.Fatalf("db: %v", err)
		}
		defer bdb.Close()
		var db kvdb.Backend = verifkit.Wrap(bdb)
		wg.Add(1)
		go func() {
			defer wg.Done()
			for {
				mu.Lock()
				i := next
				next++
				runs++
				no := 1_000_000 + runs
				mu.Unlock()
				if i >= len(scheds) {
					return
				}
				lines, err := c12cRun(t, db, &scheds[i], no)
				results[i] = result{lines: lines, err: err}
			}
		}()
	}
	wg.Wait()

	out := verifkit.MustWriter(filepath.Join(outDir, "trace_conf.ndjson"))
	defer out.Close()
	for i := range scheds {
		s := &scheds[i]
		if results[i].err != nil {
			t.Fatalf("schedule %d: %v", s.ID, results[i].err)
		}
		out.Emit(verifkit.Rec{"a": "Reset", "id": s.ID, "attr": s.Attr, "lowL": s.LowL, "err": 0, "stall": 0})
		for _, l := range results[i].lines {
			out.Emit(l)
		}
	}
	t.Logf("C12 conf: %d schedules replayed on real channels / chain watcher / arbitrator", len(scheds))
}
