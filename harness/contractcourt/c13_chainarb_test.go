//go:build verif

package contractcourt

// C13 executor, start-up layer (spec/Arbitrator/ChainArb.tla): the real
// ChainArbitrator is started (Start -> loadPendingCloseChannels) on a real
// channel database that holds 1-3 channels which are pending close, every
// channel with its own real arbitrator log in the same database.  The fixture
// writes, through lnd's own functions, exactly what the close handler of a
// remote force close makes durable (LogContractResolutions,
// InsertConfirmedCommitSet, CloseChannel) - the log state is still
// StateDefault -; everything after that is done by the code under test: the
// arbitrators, the real resolvers (commit sweep, outgoing HTLC timeout,
// anchor), ChainArbitrator.ResolveContract.  The node is stopped at chosen
// durable writes and started again on the same database.
//
// The database wrapper numbers every committed transaction, notes which
// arbitrator-log scope it touched (the top-level bucket key) and records one
// NDJSON line with the durable state of EVERY channel read back from the
// database (pending/closed, log state, contracts bucket, resolver reports).
// The environment is faithful about outpoints: a spend is delivered only to
// registrations for that outpoint, a sweep confirms only for a signable
// request of that outpoint.  No judgement here: ChainArbTrace.tla judges.

import (
	"bytes"
	"crypto/sha256"
	"encoding/json"
	"fmt"
	"math/rand"
	"net"
	"os"
	"path/filepath"
	"sort"
	"strings"
	"sync"
	"testing"
	"time"

	"github.com/btcsuite/btcd/chainhash/v2"
	"github.com/btcsuite/btcd/wire/v2"
	"github.com/btcsuite/btcwallet/walletdb"
	"github.com/lightningnetwork/lnd/chainntnfs"
	"github.com/lightningnetwork/lnd/channeldb"
	"github.com/lightningnetwork/lnd/chanstate"
	"github.com/lightningnetwork/lnd/clock"
	"github.com/lightningnetwork/lnd/fn/v2"
	"github.com/lightningnetwork/lnd/graph/db/models"
	"github.com/lightningnetwork/lnd/input"
	"github.com/lightningnetwork/lnd/internal/verifkit"
	"github.com/lightningnetwork/lnd/kvdb"
	"github.com/lightningnetwork/lnd/lntypes"
	"github.com/lightningnetwork/lnd/lnwallet"
	"github.com/lightningnetwork/lnd/lnwallet/chainfee"
	"github.com/lightningnetwork/lnd/lnwire"
	"github.com/lightningnetwork/lnd/sweep"
)

// ---- trace lines -------------------------------------------------------------

type c13mUn struct {
	K string `json:"k"` // commit | htlc | other
	R int    `json:"r"` // persisted resolved flag
}

type c13mRep struct {
	K   string `json:"k"`   // commit | htlc | anchor | other (resolver type of the report)
	O   string `json:"o"`   // outcome (for humans)
	Own string `json:"own"` // the channel whose commitment the reported outpoint is on
}

type c13mCh struct {
	ID string    `json:"id"`
	Pd int       `json:"pd"` // 0 not closed, 1 pending close, 2 fully closed
	St string    `json:"st"` // arbitrator log state
	Rs int       `json:"rs"` // contract resolutions present in the log
	Un []c13mUn  `json:"un"` // contracts bucket
	Rp []c13mRep `json:"rp"` // resolver reports filed under the channel
}

type c13mLine struct {
	A    string   `json:"a"`
	W    string   `json:"w"`    // write kind
	N    int      `json:"n"`    // write number within the run
	C    string   `json:"c"`    // channel: log scope touched / channel that left the pending set / owner of the outpoint
	K    string   `json:"k"`    // contract (commit | htlc | anchor), fail/settle, crash variant
	Cb   int      `json:"cb"`   // Sweep: control block present
	Tw   int      `json:"tw"`   // Sweep: the witness type is one of the taproot types
	Wt   string   `json:"wt"`   // Sweep: witness type (for humans)
	Rc   string   `json:"rc"`   // Write: channel whose report bucket changed
	Chs  []c13mCh `json:"chs"`  // durable state of every channel after the line
	Cs   []string `json:"cs"`   // Reset: the channel set
	Inc  int      `json:"inc"`  // incarnation
	Lbl  string   `json:"lbl"`  // call-stack label (for humans)
	Plan string   `json:"plan"` // Reset: the plan
}

// ---- plans ---------------------------------------------------------------------

type c13mPlan struct {
	Cs      []string    `json:"cs"`      // channel set
	Order   [][2]string `json:"order"`   // order in which the sweeps confirm: (channel, contract)
	Crashes []c13Crash  `json:"crashes"` // per incarnation
}

func (p c13mPlan) String() string {
	var os_, cr []string
	for _, o := range p.Order {
		os_ = append(os_, o[0]+"."+o[1])
	}
	for _, c := range p.Crashes {
		cr = append(cr, fmt.Sprintf("%d%s", c.N, c.V))
	}
	return strings.Join(p.Cs, "+") + "|" + strings.Join(os_, ",") + "|" + strings.Join(cr, ",")
}

// ---- channels --------------------------------------------------------------------

type c13mChan struct {
	id        string
	taproot   bool
	contracts []string
	cp        wire.OutPoint
	scid      lnwire.ShortChannelID
	commit    chainhash.Hash // txid of the confirmed (remote) commitment
	ops       map[string]wire.OutPoint
	scope     []byte
}

func c13mContracts(id string) []string {
	if id == "c1" {
		return []string{"commit"}
	}
	return []string{"commit", "htlc"}
}

// ---- the world ---------------------------------------------------------------------

type c13mOp struct {
	ch   *c13mChan
	role string
}

type c13mWorld struct {
	mu    sync.Mutex
	chans []*c13mChan
	byOp  map[wire.OutPoint]c13mOp
	bySc  map[uint64]*c13mChan

	raw kvdb.Backend
	vdb *verifkit.DB
	cdb *channeldb.DB // on the wrapper: the node's database
	rdb *channeldb.DB // on the raw backend: projection only

	setup   bool
	mult    int
	dead    bool
	crashed bool
	crash   *c13Crash
	writes  int
	incW    int
	inc     int

	sweepOK   map[wire.OutPoint]bool
	spent     map[wire.OutPoint]*chainntnfs.SpendDetail
	spendRegs map[wire.OutPoint][]chan *chainntnfs.SpendDetail
	sweepWait map[wire.OutPoint][]chan sweep.Result

	prev   map[string]c13mCh
	lines  []c13mLine
	lastEv time.Time
	logCfg ChannelArbitratorConfig
}

func (w *c13mWorld) chanByScope(k []byte) *c13mChan {
	for _, c := range w.chans {
		if bytes.Equal(c.scope, k) {
			return c
		}
	}
	return nil
}

// project reads the durable state of every channel back from the raw database.
func (w *c13mWorld) projectLocked() []c13mCh {
	var out []c13mCh
	for _, c := range w.chans {
		x := c13mCh{ID: c.id, Un: []c13mUn{}, Rp: []c13mRep{}}
		cp := c.cp
		if sum, err := w.rdb.ChannelStateDB().FetchClosedChannel(&cp); err == nil {
			x.Pd = 2
			if sum.IsPending {
				x.Pd = 1
			}
		}
		blog, err := newBoltArbitratorLog(w.raw, w.logCfg, chainhash.Hash{}, cp)
		if err != nil {
			panic(err)
		}
		st, err := blog.CurrentState(nil)
		if err != nil {
			panic(err)
		}
		x.St = c13StateNames[st]
		un, err := blog.FetchUnresolvedContracts()
		if err != nil {
			panic(fmt.Sprintf("projection: %v", err))
		}
		for _, r := range un {
			u := c13mUn{K: "other", R: c13b(r.IsResolved())}
			switch r.(type) {
			case *commitSweepResolver:
				u.K = "commit"
			case *htlcTimeoutResolver:
				u.K = "htlc"
			}
			x.Un = append(x.Un, u)
		}
		sort.Slice(x.Un, func(i, j int) bool { return x.Un[i].K < x.Un[j].K })
		_, err = blog.FetchContractResolutions()
		x.Rs = c13b(err == nil)
		reps, err := w.rdb.FetchChannelReports(chainhash.Hash{}, &cp)
		if err == nil {
			for _, r := range reps {
				y := c13mRep{K: "other", O: fmt.Sprintf("%d", r.ResolverOutcome), Own: "?"}
				switch r.ResolverType {
				case channeldb.ResolverTypeCommit:
					y.K = "commit"
				case channeldb.ResolverTypeOutgoingHtlc:
					y.K = "htlc"
				case channeldb.ResolverTypeAnchor:
					y.K = "anchor"
				}
				for _, o := range w.chans {
					if o.commit == r.OutPoint.Hash {
						y.Own = o.id
					}
				}
				x.Rp = append(x.Rp, y)
			}
			sort.Slice(x.Rp, func(i, j int) bool { return x.Rp[i].K+x.Rp[i].Own < x.Rp[j].K+x.Rp[j].Own })
		}
		out = append(out, x)
	}
	return out
}

func (w *c13mWorld) emitLocked(l c13mLine) *c13mLine {
	if l.Chs == nil {
		for _, c := range w.chans {
			l.Chs = append(l.Chs, w.prev[c.id])
		}
	}
	l.Inc = w.inc
	if l.Cs == nil {
		l.Cs = []string{}
	}
	w.lines = append(w.lines, l)
	w.lastEv = time.Now()
	return &w.lines[len(w.lines)-1]
}

func (w *c13mWorld) noteInc(inc int, l c13mLine) bool {
	w.mu.Lock()
	defer w.mu.Unlock()
	if inc != w.inc || w.crashed || w.dead {
		return false
	}
	w.emitLocked(l)
	return true
}

func c13mUnKey(u []c13mUn) string { b, _ := json.Marshal(u); return string(b) }
func c13mRpKey(u []c13mRep) string { b, _ := json.Marshal(u); return string(b) }

// durable performs one durable write under the crash plan.
func (w *c13mWorld) durable(kind, lbl string, scopes *[][]byte, do func() error) error {
	w.mu.Lock()
	defer w.mu.Unlock()
	if w.crashed || w.dead {
		return verifkit.ErrCrashed
	}
	if w.crash != nil && w.crash.V == "B" && w.incW == w.crash.N {
		w.dieLocked("B")
		return verifkit.ErrCrashed
	}
	if err := do(); err != nil {
		return err
	}
	w.writes++
	w.incW++
	chs := w.projectLocked()
	l := c13mLine{A: "Write", W: kind, N: w.writes, Lbl: lbl, Chs: chs}
	// attribution, all of it read off the database: the arbitrator-log scope the transaction touched, the
	// contract record that changed, the report bucket that changed, the channel that left the pending set
	for _, k := range *scopes {
		if c := w.chanByScope(k); c != nil {
			l.C = c.id
		}
	}
	for _, x := range chs {
		p := w.prev[x.ID]
		if x.Pd != p.Pd && l.C == "" {
			l.C = x.ID
		}
		if c13mRpKey(x.Rp) != c13mRpKey(p.Rp) {
			l.Rc = x.ID
		}
		if x.ID == l.C && c13mUnKey(x.Un) != c13mUnKey(p.Un) {
			was, is := map[string]int{}, map[string]int{}
			for _, u := range p.Un {
				was[u.K] = u.R + 1
			}
			for _, u := range x.Un {
				is[u.K] = u.R + 1
			}
			for _, k := range []string{"commit", "htlc", "other"} {
				if was[k] != is[k] {
					l.K = k
				}
			}
		}
		w.prev[x.ID] = x
	}
	w.emitLocked(l)
	if w.crash != nil && w.crash.V == "A" && w.incW == w.crash.N {
		w.dieLocked("A")
	}
	return nil
}

func (w *c13mWorld) dieLocked(v string) {
	w.crashed = true
	w.vdb.CrashNow()
	w.emitLocked(c13mLine{A: "Crash", K: v})
}

func (w *c13mWorld) isCrashed() bool {
	w.mu.Lock()
	defer w.mu.Unlock()
	return w.crashed
}

// ---- database wrapper ------------------------------------------------------------------

// c13mTx notes the top-level buckets a transaction creates/opens for writing (the
// arbitrator log's scope key is one).
type c13mTx struct {
	walletdb.ReadWriteTx
	keys *[][]byte
}

func (t *c13mTx) CreateTopLevelBucket(k []byte) (walletdb.ReadWriteBucket, error) {
	*t.keys = append(*t.keys, append([]byte{}, k...))
	return t.ReadWriteTx.CreateTopLevelBucket(k)
}

type c13mDB struct {
	*verifkit.DB
	w *c13mWorld
}

func (d *c13mDB) Update(f func(tx walletdb.ReadWriteTx) error, reset func()) error {
	if d.w.setup {
		return d.DB.Update(f, reset)
	}
	dbl := c13LabelOf("channeldb.", "chanstate.")
	lbl := c13Label()
	kind := "Other"
	switch {
	case strings.Contains(dbl, "MarkChanFullyClosed"):
		kind = "MarkResolved"
	case strings.Contains(dbl, "PutResolverReport") && !strings.Contains(lbl, "InsertUnresolvedContracts"):
		kind = "Report"
	default:
		switch strings.Split(lbl, "<")[0] {
		case "CommitState":
			kind = "CommitState"
		case "InsertUnresolvedContracts":
			kind = "Checkpoint"
			if strings.Contains(lbl, "stateStep") {
				kind = "InsertUnresolved"
			}
		case "checkpointContract":
			kind = "Checkpoint"
		case "SwapContract":
			kind = "Swap"
		case "ResolveContract":
			kind = "Resolve"
		case "WipeHistory":
			kind = "Wipe"
		}
	}
	var scopes [][]byte
	return d.w.durable(kind, lbl+"|"+dbl, &scopes, func() error {
		return d.DB.Update(func(tx walletdb.ReadWriteTx) error {
			scopes = scopes[:0]
			return f(&c13mTx{tx, &scopes})
		}, reset)
	})
}

// ---- notifier, chain io, sweeper -----------------------------------------------------------

// The notifier, sweeper and switch hand-over of an incarnation carry its number: a goroutine of a stopped
// incarnation that is scheduled late (Launch goroutines are not waited for by ChannelArbitrator.Stop) must not
// leave effects in the next one - after a real crash the process is gone.
type c13mNotifier struct {
	w   *c13mWorld
	inc int
}

func (n *c13mNotifier) RegisterConfirmationsNtfn(*chainhash.Hash, []byte, uint32, uint32,
	...chainntnfs.NotifierOption) (*chainntnfs.ConfirmationEvent, error) {

	return &chainntnfs.ConfirmationEvent{
		Confirmed: make(chan *chainntnfs.TxConfirmation, 1), Cancel: func() {},
	}, nil
}

func (n *c13mNotifier) RegisterSpendNtfn(op *wire.OutPoint, _ []byte, _ uint32) (
	*chainntnfs.SpendEvent, error) {

	n.w.mu.Lock()
	defer n.w.mu.Unlock()
	c := make(chan *chainntnfs.SpendDetail, 1)
	if n.inc != n.w.inc || n.w.crashed || n.w.dead {
		return &chainntnfs.SpendEvent{Spend: c, Cancel: func() {}}, nil
	}
	if d, ok := n.w.spent[*op]; ok {
		c <- d // historical dispatch
	} else {
		n.w.spendRegs[*op] = append(n.w.spendRegs[*op], c)
	}
	return &chainntnfs.SpendEvent{Spend: c, Cancel: func() {}}, nil
}

func (n *c13mNotifier) RegisterBlockEpochNtfn(*chainntnfs.BlockEpoch) (
	*chainntnfs.BlockEpochEvent, error) {

	c := make(chan *chainntnfs.BlockEpoch, 4)
	c <- &chainntnfs.BlockEpoch{Height: c13mHeight}
	return &chainntnfs.BlockEpochEvent{Epochs: c, Cancel: func() {}}, nil
}
func (n *c13mNotifier) Start() error  { return nil }
func (n *c13mNotifier) Started() bool { return true }
func (n *c13mNotifier) Stop() error   { return nil }

const c13mHeight = 130

type c13mChainIO struct{ *mockChainIO }

func (c *c13mChainIO) GetBestBlock() (*chainhash.Hash, int32, error) { return nil, c13mHeight, nil }

type c13mSweeper struct {
	w   *c13mWorld
	inc int
}

func (s *c13mSweeper) SweepInput(inp input.Input, _ sweep.Params) (chan sweep.Result, error) {
	op := inp.OutPoint()
	cb := 0
	if sd := inp.SignDesc(); sd != nil && len(sd.ControlBlock) > 0 {
		cb = 1
	}
	s.w.mu.Lock()
	defer s.w.mu.Unlock()
	who, known := s.w.byOp[op]
	result := make(chan sweep.Result, 1)
	if s.inc != s.w.inc || s.w.crashed || s.w.dead {
		return result, nil
	}
	l := c13mLine{A: "Sweep", K: "other", Cb: cb, Wt: fmt.Sprintf("%v", inp.WitnessType())}
	l.Tw = c13b(strings.HasPrefix(l.Wt, "Taproot"))
	if known {
		l.C, l.K = who.ch.id, who.role
		// the sweeper can only ever publish what it can sign: a script-path spend of a taproot output
		// needs the control block (the anchor is a key spend)
		s.w.sweepOK[op] = who.role == "anchor" || !who.ch.taproot || cb == 1
	}
	s.w.emitLocked(l)
	if known && who.role == "anchor" {
		// not worth sweeping: the anchor resolver waits until its arbitrator stops
		return make(chan sweep.Result), nil
	}
	if d, ok := s.w.spent[op]; ok {
		result <- sweep.Result{Tx: d.SpendingTx}
	} else {
		s.w.sweepWait[op] = append(s.w.sweepWait[op], result)
	}
	return result, nil
}
func (s *c13mSweeper) RelayFeePerKW() chainfee.SatPerKWeight { return 253 }
func (s *c13mSweeper) UpdateParams(wire.OutPoint, sweep.Params) (chan sweep.Result, error) {
	return make(chan sweep.Result, 1), nil
}

// confirm: the sweep of (channel, contract) confirms - if a signable request for it exists.
func (w *c13mWorld) confirm(c *c13mChan, k string, height int32) bool {
	w.mu.Lock()
	defer w.mu.Unlock()
	op := c.ops[k]
	if w.crashed || w.dead || !w.sweepOK[op] {
		return false
	}
	if _, ok := w.spent[op]; ok {
		return false
	}
	// <sig> <script> <control block> resp. <sig> <> <script>: never the shape of a preimage spend
	wit := [][]byte{{1}, {}, {3}}
	if c.taproot {
		wit = [][]byte{bytes.Repeat([]byte{0x5a}, 64), {3}, {4}}
	}
	tx := &wire.MsgTx{TxIn: []*wire.TxIn{{PreviousOutPoint: op, Witness: wit}},
		TxOut: []*wire.TxOut{{Value: 1, PkScript: []byte{0xbb}}}}
	h := tx.TxHash()
	d := &chainntnfs.SpendDetail{SpentOutPoint: &op, SpendingTx: tx, SpenderTxHash: &h, SpendingHeight: height}
	w.spent[op] = d
	w.emitLocked(c13mLine{A: "SweepDone", C: c.id, K: k})
	for _, ch := range w.spendRegs[op] {
		ch <- d
	}
	delete(w.spendRegs, op)
	for _, ch := range w.sweepWait[op] {
		ch <- sweep.Result{Tx: tx}
	}
	delete(w.sweepWait, op)
	return true
}

// ---- fixture: one pending-close channel ---------------------------------------------------------

func c13mAddChannel(t *testing.T, w *c13mWorld, id string, n int) error {
	c := &c13mChan{id: id, taproot: id == "c3", contracts: c13mContracts(id), ops: map[string]wire.OutPoint{}}
	ct := channeldb.SingleFunderTweaklessBit
	if c.taproot {
		ct |= channeldb.AnchorOutputsBit | channeldb.ZeroHtlcTxFeeBit | channeldb.SimpleTaprootFeatureBit
	}
	lc, _, err := lnwallet.CreateTestChannels(t, ct)
	if err != nil {
		return fmt.Errorf("fixture channel: %w", err)
	}
	st := lc.State()
	st.Db = w.cdb.ChannelStateDB()
	// CreateTestChannels draws the output index of the funding outpoint at random: keep them distinct
	st.FundingOutpoint.Index = uint32(1000*n) + st.FundingOutpoint.Index%1000
	if err := st.SyncPending(&net.TCPAddr{IP: net.ParseIP("127.0.0.1"), Port: 18556}, 101); err != nil {
		return fmt.Errorf("sync channel: %w", err)
	}
	c.cp = st.FundingOutpoint
	c.scid = lnwire.NewShortChanIDFromInt(uint64(700+n) << 40)
	c.commit = chainhash.Hash(sha256.Sum256([]byte("commitment of " + id)))
	c.ops["commit"] = wire.OutPoint{Hash: c.commit, Index: 0}
	c.ops["htlc"] = wire.OutPoint{Hash: c.commit, Index: 1}
	c.ops["anchor"] = wire.OutPoint{Hash: c.commit, Index: 2}
	scope, err := newLogScope(chainhash.Hash{}, c.cp)
	if err != nil {
		return err
	}
	c.scope = scope[:]

	p2 := func(v byte, b byte) []byte { return append([]byte{v, 0x20}, bytes.Repeat([]byte{b}, 32)...) }
	ver := byte(0x00)
	var ctrl []byte
	if c.taproot {
		ver, ctrl = 0x51, bytes.Repeat([]byte{0xcb}, 65)
	}
	rhash := lntypes.Hash(sha256.Sum256([]byte("payment " + id)))
	htlc := channeldb.HTLC{Amt: 10_000_000, HtlcIndex: 7, OutputIndex: 1, RefundTimeout: 90, RHash: rhash}

	res := &ContractResolutions{
		CommitHash: c.commit,
		CommitResolution: &lnwallet.CommitOutputResolution{
			SelfOutPoint: c.ops["commit"],
			SelfOutputSignDesc: input.SignDescriptor{
				KeyDesc:       st.LocalChanCfg.PaymentBasePoint,
				WitnessScript: []byte{0x21, 0x02, 0x03},
				Output:        &wire.TxOut{Value: 50_000 + int64(n), PkScript: p2(ver, 0x11)},
				ControlBlock:  ctrl,
			},
		},
	}
	if c.taproot {
		res.CommitResolution.MaturityDelay = 1
		res.AnchorResolution = &lnwallet.AnchorResolution{
			AnchorSignDescriptor: input.SignDescriptor{Output: &wire.TxOut{Value: 330, PkScript: p2(ver, 0x0a)}},
			CommitAnchor:         c.ops["anchor"],
		}
	}
	cs := &CommitSet{ConfCommitKey: fn.Some(RemoteHtlcSet), HtlcSets: map[HtlcSetKey][]channeldb.HTLC{RemoteHtlcSet: nil}}
	if len(c.contracts) > 1 {
		res.HtlcResolutions.OutgoingHTLCs = []lnwallet.OutgoingHtlcResolution{{
			Expiry: htlc.RefundTimeout, ClaimOutpoint: c.ops["htlc"], CsvDelay: 1,
			SweepSignDesc: input.SignDescriptor{
				WitnessScript: []byte{0x01, 0x02, 0x03},
				Output:        &wire.TxOut{Value: 10_000 + int64(n), PkScript: p2(ver, 0x12)},
				ControlBlock:  ctrl,
			},
		}}
		cs.HtlcSets[RemoteHtlcSet] = []channeldb.HTLC{htlc}
	}

	// what handleRemoteUnilateralClose makes durable, in its order, through lnd's own functions
	blog, err := newBoltArbitratorLog(w.cdb.Backend, w.logCfg, chainhash.Hash{}, c.cp)
	if err != nil {
		return err
	}
	if err := blog.LogContractResolutions(res); err != nil {
		return fmt.Errorf("LogContractResolutions: %w", err)
	}
	if err := blog.InsertConfirmedCommitSet(cs); err != nil {
		return fmt.Errorf("InsertConfirmedCommitSet: %w", err)
	}
	err = st.CloseChannel(&channeldb.ChannelCloseSummary{
		ChanPoint: c.cp, ChainHash: st.ChainHash, ClosingTXID: c.commit, RemotePub: st.IdentityPub,
		Capacity: st.Capacity, CloseType: channeldb.RemoteForceClose, CloseHeight: 100, IsPending: true,
		ShortChanID: c.scid, RemoteCurrentRevocation: st.RemoteCurrentRevocation,
		RemoteNextRevocation: st.RemoteNextRevocation, LocalChanConfig: st.LocalChanCfg,
	})
	if err != nil {
		return fmt.Errorf("CloseChannel: %w", err)
	}
	w.chans = append(w.chans, c)
	for role, op := range c.ops {
		w.byOp[op] = c13mOp{c, role}
	}
	w.bySc[c.scid.ToUint64()] = c
	return nil
}

// ---- one incarnation -------------------------------------------------------------------------------

func c13mBoot(w *c13mWorld) (*ChainArbitrator, error) {
	w.mu.Lock()
	w.spendRegs = map[wire.OutPoint][]chan *chainntnfs.SpendDetail{}
	w.sweepWait = map[wire.OutPoint][]chan sweep.Result{}
	w.incW = 0
	inc := w.inc
	w.mu.Unlock()
	ca := NewChainArbitrator(ChainArbitratorConfig{
		ChainIO:  &c13mChainIO{&mockChainIO{}},
		Notifier: &c13mNotifier{w, inc},
		Sweeper:  &c13mSweeper{w, inc},
		PublishTx: func(*wire.MsgTx, string) error {
			return nil
		},
		DeliverResolutionMsg: func(msgs ...ResolutionMsg) error {
			for _, m := range msgs {
				k := "fail"
				if m.PreImage != nil {
					k = "settle"
				}
				id := "?"
				if c, ok := w.bySc[m.SourceChan.ToUint64()]; ok {
					id = c.id
				}
				w.noteInc(inc, c13mLine{A: "Up", C: id, K: k})
			}
			return nil
		},
		IncubateOutputs: func(wire.OutPoint, fn.Option[lnwallet.OutgoingHtlcResolution],
			fn.Option[lnwallet.IncomingHtlcResolution], uint32, fn.Option[int32], ...IncubateOption) error {

			return nil
		},
		PutFinalHtlcOutcome:    func(lnwire.ShortChannelID, uint64, bool) error { return nil },
		OutgoingBroadcastDelta: 5,
		IncomingBroadcastDelta: 5,
		OnionProcessor:         &mockOnionProcessor{},
		IsForwardedHTLC:        func(lnwire.ShortChannelID, uint64) bool { return true },
		Clock:                  clock.NewDefaultClock(),
		HtlcNotifier:           &mockHTLCNotifier{},
		Budget:                 *DefaultBudgetConfig(),
		PreimageDB:             newMockWitnessBeacon(),
		Registry:               &mockRegistry{},
		NotifyClosedChannel:    func(wire.OutPoint) {},
		QueryIncomingCircuit:   func(models.CircuitKey) *models.CircuitKey { return nil },
	}, w.cdb)
	if err := ca.Start(newBeatFromHeight(c13mHeight)); err != nil {
		return ca, err
	}
	return ca, nil
}

func (w *c13mWorld) quiesce(d time.Duration) {
	deadline := time.Now().Add(3 * time.Second)
	for time.Now().Before(deadline) {
		w.mu.Lock()
		idle := time.Since(w.lastEv)
		dead := w.crashed
		w.mu.Unlock()
		if dead || idle >= d {
			return
		}
		time.Sleep(2 * time.Millisecond)
	}
}

func (w *c13mWorld) allDone() bool {
	w.mu.Lock()
	defer w.mu.Unlock()
	for _, c := range w.chans {
		p := w.prev[c.id]
		if p.Pd != 2 || p.Rs != 0 {
			return false
		}
	}
	return true
}

// c13mDrive plays the environment: at quiescence the next sweep of the plan's order that can confirm
// (signable request present) confirms.
func c13mDrive(w *c13mWorld, plan c13mPlan, rng *rand.Rand) {
	byID := map[string]*c13mChan{}
	for _, c := range w.chans {
		byID[c.id] = c
	}
	for round := 0; round < 4000; round++ {
		w.quiesce(time.Duration(10+rng.Intn(8)) * time.Millisecond)
		if w.isCrashed() || w.allDone() {
			return
		}
		fired := false
		for _, o := range plan.Order {
			c := byID[o[0]]
			if c != nil && w.confirm(c, o[1], c13mHeight+1) {
				fired = true
				break
			}
		}
		if fired {
			continue
		}
		// nothing can confirm: the run is over once nothing at all has happened for a while (goroutines of
		// the node may be starved on a loaded machine - a run that ends short of the end is repeated alone
		// with three times the patience)
		w.mu.Lock()
		quiet := time.Since(w.lastEv)
		w.mu.Unlock()
		if quiet > time.Duration(1500*w.mult)*time.Millisecond {
			return
		}
	}
}

// c13mRun executes one plan.
func c13mRun(t *testing.T, plan c13mPlan, rng *rand.Rand, mult int) ([]c13mLine, int, bool, error) {
	w := &c13mWorld{byOp: map[wire.OutPoint]c13mOp{}, bySc: map[uint64]*c13mChan{}, mult: mult,
		sweepOK: map[wire.OutPoint]bool{}, spent: map[wire.OutPoint]*chainntnfs.SpendDetail{},
		prev: map[string]c13mCh{}}
	dir, err := os.MkdirTemp("", "c13mdb")
	if err != nil {
		return nil, 0, false, err
	}
	defer os.RemoveAll(dir)
	raw, err := kvdb.Create(kvdb.BoltBackendName, filepath.Join(dir, "chandb"), true, kvdb.DefaultDBTimeout, false)
	if err != nil {
		return nil, 0, false, err
	}
	defer raw.Close()
	w.raw, w.vdb = raw, verifkit.Wrap(raw)
	w.setup = true
	if w.rdb, err = channeldb.CreateWithBackend(raw); err != nil {
		return nil, 0, false, fmt.Errorf("channeldb: %w", err)
	}
	if w.cdb, err = channeldb.CreateWithBackend(&c13mDB{DB: w.vdb, w: w}); err != nil {
		return nil, 0, false, fmt.Errorf("channeldb: %w", err)
	}
	w.logCfg = ChannelArbitratorConfig{
		PutResolverReport: func(kvdb.RwTx, *channeldb.ResolverReport) error { return nil },
	}
	w.logCfg.Clock = clock.NewDefaultClock()
	// the channels are stored in a seeded order (the closed-channel bucket sorts by channel point)
	ids := append([]string{}, plan.Cs...)
	rng.Shuffle(len(ids), func(i, j int) { ids[i], ids[j] = ids[j], ids[i] })
	for n, id := range ids {
		if err := c13mAddChannel(t, w, id, n+1); err != nil {
			return nil, 0, false, err
		}
	}
	sort.Slice(w.chans, func(i, j int) bool { return w.chans[i].id < w.chans[j].id })
	w.setup = false

	w.mu.Lock()
	for _, x := range w.projectLocked() {
		w.prev[x.ID] = x
	}
	w.emitLocked(c13mLine{A: "Reset", Cs: append([]string{}, plan.Cs...), Plan: plan.String()})
	w.mu.Unlock()

	for i := 0; ; i++ {
		w.mu.Lock()
		w.crashed = false
		w.vdb.Revive()
		w.crash = nil
		if i < len(plan.Crashes) {
			c := plan.Crashes[i]
			w.crash = &c
		}
		w.inc = i
		w.emitLocked(c13mLine{A: "Start"})
		w.mu.Unlock()

		ca, err := c13mBoot(w)
		if err != nil && !w.isCrashed() {
			return w.lines, 0, false, fmt.Errorf("ChainArbitrator.Start (incarnation %d): %w", i, err)
		}
		c13mDrive(w, plan, rng)

		// stop the incarnation; nothing of it may outlive it
		stalled := false
		done := make(chan struct{})
		go func() { ca.Stop(); close(done) }()
		select {
		case <-done:
		case <-time.After(time.Duration(15*mult) * time.Second):
			stalled = true
		}
		if stalled {
			// the incarnation does not stop: its goroutines are abandoned (everything of theirs is refused)
			w.mu.Lock()
			live := !w.crashed
			if live {
				w.emitLocked(c13mLine{A: "Stall", K: "Stop"})
			}
			w.dead = true
			w.mu.Unlock()
			if live {
				break
			}
			return w.lines, 0, false, fmt.Errorf("a crashed incarnation does not stop")
		}
		if !w.isCrashed() {
			break
		}
	}
	w.mu.Lock()
	w.crashed = false
	for _, x := range w.projectLocked() {
		w.prev[x.ID] = x
	}
	w.emitLocked(c13mLine{A: "End"})
	w.dead = true
	n := w.incW
	lines := w.lines
	short := false
	for _, c := range w.chans {
		if p := w.prev[c.id]; p.Pd != 2 {
			short = true
		}
	}
	w.mu.Unlock()
	return lines, n, short, nil
}

func c13mDefaultOrder(cs []string, rev bool) [][2]string {
	var o [][2]string
	for _, id := range cs {
		for _, k := range c13mContracts(id) {
			o = append(o, [2]string{id, k})
		}
	}
	if rev {
		for i, j := 0, len(o)-1; i < j; i, j = i+1, j-1 {
			o[i], o[j] = o[j], o[i]
		}
	}
	return o
}

// TestVerifC13ChainArb: per channel set a reference run, then every single stop point in both variants
// (VERIF_C13M_ENUM), the plans of VERIF_C13M_PLANS (from ChainArbGen) and seeded random plans.
func TestVerifC13ChainArb(t *testing.T) {
	tf, err := os.Create(verifkit.Env("VERIF_OUT", ".") + "/trace_m.ndjson")
	if err != nil {
		t.Fatal(err)
	}
	defer tf.Close()
	seed := verifkit.Seed()
	rng := rand.New(rand.NewSource(seed))
	pf, _ := os.Create(verifkit.Env("VERIF_OUT", ".") + "/progress_m.log")
	var pmu sync.Mutex
	progress := func(s string) {
		pmu.Lock()
		defer pmu.Unlock()
		if pf != nil {
			fmt.Fprintln(pf, s)
			pf.Sync()
		}
	}
	type result struct {
		lines []c13mLine
		n     int
		short bool
		err   error
	}
	base, again, confirmedShort := 0, 0, 0
	runAll := func(plans []c13mPlan) []result {
		res := make([]result, len(plans))
		off := base
		base += len(plans)
		nw := verifkit.EnvInt("VERIF_C13_WORKERS", 4)
		var wg sync.WaitGroup
		next := make(chan int)
		for k := 0; k < nw; k++ {
			wg.Add(1)
			go func() {
				defer wg.Done()
				for i := range next {
					r := rand.New(rand.NewSource(seed*1000003 + int64(off+i)))
					progress("start " + plans[i].String())
					lines, n, short, err := c13mRun(t, plans[i], r, 1)
					progress("done  " + plans[i].String())
					res[i] = result{lines, n, short, err}
				}
			}()
		}
		for i := range plans {
			next <- i
		}
		close(next)
		wg.Wait()
		// a run that ended short of the end (some channel still pending) is repeated alone with three
		// times the patience: only what ends short again is recorded as such
		for i := range res {
			// (once two repetitions ended short again the behaviour is systematic: no more repetitions)
			if res[i].err == nil && res[i].short && again < 8 && confirmedShort < 2 {
				again++
				r := rand.New(rand.NewSource(seed*1000003 + int64(off+i)))
				progress("again " + plans[i].String())
				lines, n, short, err := c13mRun(t, plans[i], r, 3)
				t.Logf("SHORT plan=%s repeated alone with 3x patience: short again=%v", plans[i], short)
				res[i] = result{lines, n, short, err}
				if err == nil && short {
					confirmedShort++
				}
			}
		}
		return res
	}
	nruns := 0
	emit := func(plans []c13mPlan, res []result) {
		for i, r := range res {
			if r.err != nil {
				t.Logf("HARNESS-ERROR plan=%s: %v", plans[i], r.err)
				t.Fail()
				continue
			}
			var buf []byte
			for _, l := range r.lines {
				b, err := json.Marshal(l)
				if err != nil {
					t.Fatal(err)
				}
				buf = append(append(buf, b...), '\n')
			}
			tf.Write(buf)
			nruns++
		}
	}

	var refs []c13mPlan
	for _, s := range strings.Split(verifkit.Env("VERIF_C13M_SETS", "c1+c2,c2+c3,c1+c2+c3"), ",") {
		if s == "" {
			continue
		}
		cs := strings.Split(s, "+")
		refs = append(refs, c13mPlan{Cs: cs, Order: c13mDefaultOrder(cs, false)})
	}
	refRes := runAll(refs)
	emit(refs, refRes)

	var plans []c13mPlan
	for i, ref := range refs {
		nref := refRes[i].n
		t.Logf("channel set %s: reference run has %d writes", strings.Join(ref.Cs, "+"), nref)
		if verifkit.EnvInt("VERIF_C13M_ENUM", 1) != 1 {
			continue
		}
		for _, rev := range []bool{false, true} {
			o := c13mDefaultOrder(ref.Cs, rev)
			plans = append(plans, c13mPlan{Cs: ref.Cs, Order: o, Crashes: []c13Crash{{0, "B"}}})
			for n := 1; n <= nref; n++ {
				v := "A"
				if (n+len(ref.Cs))%2 == 0 && n < nref && rev {
					v = "B"
				}
				plans = append(plans, c13mPlan{Cs: ref.Cs, Order: o, Crashes: []c13Crash{{n, v}}})
			}
		}
	}
	if p := os.Getenv("VERIF_C13M_PLANS"); p != "" {
		ps, err := verifkit.ReadNDJSONInto[c13mPlan](p)
		if err != nil {
			t.Fatal(err)
		}
		plans = append(plans, ps...)
	}
	for i := 0; i < verifkit.EnvInt("VERIF_C13M_RANDOM", 0); i++ {
		ref := refs[rng.Intn(len(refs))]
		o := c13mDefaultOrder(ref.Cs, false)
		rng.Shuffle(len(o), func(a, b int) { o[a], o[b] = o[b], o[a] })
		var cr []c13Crash
		for k := 0; k < 2+rng.Intn(2); k++ {
			cr = append(cr, c13Crash{rng.Intn(12), []string{"A", "B"}[rng.Intn(2)]})
		}
		plans = append(plans, c13mPlan{Cs: ref.Cs, Order: o, Crashes: cr})
	}
	for a := 0; a < len(plans); a += 24 {
		b := a + 24
		if b > len(plans) {
			b = len(plans)
		}
		emit(plans[a:b], runAll(plans[a:b]))
	}
	t.Logf("C13 ChainArb: %d runs recorded", nruns)
}

var _ = chanstate.OpenChannel{}
