//go:build verif

package paymentsdb

import (
	"context"
	"crypto/sha256"
	"database/sql"
	"errors"
	"fmt"
	"math/rand"
	"os"
	"path/filepath"
	"sort"
	"strings"
	"sync"
	"sync/atomic"
	"testing"
	"time"

	"github.com/btcsuite/btcd/btcec/v2"
	"github.com/lightningnetwork/lnd/internal/verifkit"
	"github.com/lightningnetwork/lnd/kvdb"
	"github.com/lightningnetwork/lnd/lntypes"
	"github.com/lightningnetwork/lnd/lnwire"
	"github.com/lightningnetwork/lnd/record"
	"github.com/lightningnetwork/lnd/routing/route"
	"github.com/lightningnetwork/lnd/sqldb"
	"github.com/lightningnetwork/lnd/tlv"
)

// This file is the executor of property C16 (spec/PaymentStore).  It replays
// schedules on the REAL paymentsdb.KVStore (bbolt, behind verifkit.DB) and
// paymentsdb.SQLStore (SQLite) and records what the code answered.  It contains
// no judgement: PaymentStoreTrace.tla / PaymentStoreConc.tla are the judges.
// Every Register event carries the route of the attempt in model terms; the
// real route.Route is built from it field by field (c16BuildRoute), and after
// every call the route of every attempt of every payment is read back from the
// store and copied into the same terms (c16ProjRoute), as is the route of every
// attempt of the payment a call returns.

// c16Unit is the number of millisatoshi of one model amount unit.
const c16Unit = 1000

// c16Hop / c16Route are the route of an attempt in the terms of
// spec/PaymentStore (PaymentStore.tla, "Routes and their shapes"): amounts in
// units of c16Unit msat, keys / blobs / records as small ids of the fixed
// concrete values below, 0 = absent.  The same struct is the input (the route
// handed to RegisterAttempt is built from it field by field) and the
// read-back projection (filled field by field from the route the store
// returns; a concrete value that is none of the fixed ones reads as -1).
type c16Hop struct {
	Pk  int `json:"pk"`  // node key id
	Ch  int `json:"ch"`  // channel id
	Tl  int `json:"tl"`  // outgoing time lock
	Amt int `json:"amt"` // amount to forward, units
	Ma  int `json:"ma"`  // MPP record: payment address id (0 = no MPP record)
	Mt  int `json:"mt"`  // MPP record: total, units
	Amp int `json:"amp"` // AMP record id (0 = none)
	Enc int `json:"enc"` // encrypted data id (0 = none)
	Bp  int `json:"bp"`  // blinding point id (0 = none)
	Tot int `json:"tot"` // blinded path total amount, units
	Cr  int `json:"cr"`  // custom records id (0 = none)
	Md  int `json:"md"`  // metadata id (0 = none)
}

type c16Route struct {
	Ta   int      `json:"ta"`  // total amount, units
	Ttl  int      `json:"ttl"` // total time lock
	Fha  int      `json:"fha"` // first hop amount, units (0 = unset)
	Fcr  int      `json:"fcr"` // first hop wire custom records id (0 = none)
	Src  int      `json:"src"` // source key id
	Hops []c16Hop `json:"hops"`
}

func c16NoRoute() c16Route { return c16Route{Hops: []c16Hop{}} }

// c16Ev is one step of a schedule (a TLC-generated behaviour of
// PaymentStoreGen or a step of the free-running driver).
type c16Ev struct {
	A     string    `json:"a"`     // action
	H     string    `json:"h"`     // payment: "h1", "h2", ... ("" for store-wide ops)
	ID    int       `json:"id"`    // attempt id
	Shape string    `json:"shape"` // name of the route's shape (a label for reports)
	Rt    *c16Route `json:"rt"`    // Register: the route of the attempt
	Fo    int       `json:"fo"`    // DeletePayment: failedAttemptsOnly; DeletePayments: failedOnly
	Fa    int       `json:"fa"`    // DeletePayments: failedHtlcsOnly
	Rs    int       `json:"rs"`    // Fail: failure reason

	// Schedules stored before routes were part of the event (spec/PaymentStore/repro)
	// describe the attempt by kind; they are translated to a route on reading.
	Kind string `json:"kind"` // "single" | "mpp" | "blind" | ""
	Addr int    `json:"addr"`
	Tot  int    `json:"tot"`
	Amt  int    `json:"amt"`
}

// route returns the route of the event (translating the stored format).
func (e c16Ev) route() c16Route {
	if e.Rt != nil {
		if e.Rt.Hops == nil {
			e.Rt.Hops = []c16Hop{}
		}
		return *e.Rt
	}
	switch e.Kind {
	case "single":
		return c16SingleR(2, e.Amt)
	case "mpp":
		return c16MppR(2, e.Addr, e.Tot, e.Amt)
	case "blind":
		return c16BlindR(0, 2, e.Tot, e.Amt)
	}
	return c16NoRoute()
}

func (e c16Ev) rec() verifkit.Rec {
	shape := e.Shape
	if shape == "" && e.Kind != "" {
		shape = "stored-" + e.Kind
	}
	return verifkit.Rec{"a": e.A, "h": e.H, "id": e.ID, "shape": shape, "rt": e.route(),
		"fo": e.Fo, "fa": e.Fa, "rs": e.Rs}
}

// ---------------------------------------------------------------- route shapes
// The constructors of PaymentStore.tla, for the free-running drivers and the
// stored schedules (inputs only; the generated schedules carry their routes).

func c16Hp(i, n, amt int) c16Hop { return c16Hop{Pk: i, Ch: 10 + i, Tl: 100 + 10*(n-i), Amt: amt} }

func c16Rt(hops []c16Hop, fee int) c16Route {
	return c16Route{Ta: hops[len(hops)-1].Amt + fee, Ttl: 110 + 10*len(hops), Src: 9, Hops: hops}
}

func c16SingleR(n, amt int) c16Route {
	var hops []c16Hop
	for i := 1; i <= n; i++ {
		hops = append(hops, c16Hp(i, n, amt))
	}
	return c16Rt(hops, 1)
}

func c16MppR(n, addr, tot, amt int) c16Route {
	r := c16SingleR(n, amt)
	r.Hops[n-1].Ma, r.Hops[n-1].Mt = addr, tot
	return r
}

func c16AmpR(n, addr, tot, amt, k int) c16Route {
	r := c16MppR(n, addr, tot, amt)
	r.Hops[n-1].Amp = k
	return r
}

func c16BlindR(pre, ln, tot, amt int) c16Route {
	n := pre + ln
	var hops []c16Hop
	for i := 1; i <= n; i++ {
		if i <= pre {
			hops = append(hops, c16Hp(i, n, amt))
			continue
		}
		h := c16Hp(i, n, 0)
		h.Tl = 0
		h.Enc = i - pre
		if i-pre == 1 {
			h.Bp = 1
		}
		if i == n {
			h = c16Hp(i, n, amt)
			h.Enc, h.Tot = i-pre, tot
			if i-pre == 1 {
				h.Bp = 1
			}
		}
		hops = append(hops, h)
	}
	return c16Rt(hops, 1)
}

// c16Store is one backend under test.
type c16Store struct {
	name string
	db   DB
	kv   *verifkit.DB // nil for sql
}

func c16NewKV(t testing.TB, dir string) *c16Store {
	backend, cleanup, err := kvdb.GetTestBackend(dir, "kvPaymentDB")
	if err != nil {
		panic(err)
	}
	t.Cleanup(cleanup)
	w := verifkit.Wrap(backend)
	store, err := NewKVStore(w)
	if err != nil {
		panic(err)
	}
	return &c16Store{name: "kv", db: store, kv: w}
}

func c16NewSQL(t testing.TB) *c16Store {
	db := sqldb.NewTestSqliteDB(t).BaseDB
	exec := sqldb.NewTransactionExecutor(db, func(tx *sql.Tx) SQLQueries { return db.WithTx(tx) })
	store, err := NewSQLStore(&SQLStoreConfig{QueryCfg: sqldb.DefaultSQLiteConfig()}, exec)
	if err != nil {
		panic(err)
	}
	return &c16Store{name: "sql", db: store}
}

// c16Class maps an error to its class.  Sentinels first; the few refusals
// that the backends word differently (no sentinel exists) are recognised by
// their text; everything else is "other" and is never expected by the spec.
func c16Class(err error) string {
	var uniq *sqldb.ErrSQLUniqueConstraintViolation
	switch {
	case err == nil:
		return "ok"
	case errors.Is(err, ErrPaymentExists):
		return "exists"
	case errors.Is(err, ErrPaymentInFlight):
		return "inflight"
	case errors.Is(err, ErrAlreadyPaid):
		return "paid"
	case errors.Is(err, ErrPaymentAlreadySucceeded):
		return "succeeded"
	case errors.Is(err, ErrPaymentAlreadyFailed):
		return "failed"
	case errors.Is(err, ErrPaymentPendingSettled):
		return "pendsettled"
	case errors.Is(err, ErrPaymentPendingFailed):
		return "pendfailed"
	case errors.Is(err, ErrPaymentNotInitiated), errors.Is(err, sql.ErrNoRows):
		return "notfound"
	case errors.Is(err, ErrValueMismatch):
		return "valmismatch"
	case errors.Is(err, ErrValueExceedsAmt):
		return "exceeds"
	case errors.Is(err, ErrMPPayment), errors.Is(err, ErrNonMPPayment),
		errors.Is(err, ErrMPPPaymentAddrMismatch), errors.Is(err, ErrMPPTotalAmountMismatch),
		errors.Is(err, ErrMPPRecordInBlindedPayment), errors.Is(err, ErrMixedBlindedAndNonBlindedPayments),
		errors.Is(err, ErrBlindedPaymentTotalAmountMismatch), errors.Is(err, ErrBlindedPaymentMissingTotalAmount):
		return "mismatch"
	case errors.Is(err, ErrAttemptAlreadySettled), errors.Is(err, ErrAttemptAlreadyFailed):
		return "resolved"
	case errors.Is(err, ErrSentExceedsTotal):
		return "sentexceeds"
	case errors.Is(err, ErrPaymentInternal), errors.Is(err, ErrUnknownPaymentStatus), errors.Is(err, ErrNoAttemptInfo):
		return "internal"
	}
	s := err.Error()
	switch {
	case errors.As(err, &uniq) && strings.Contains(s, "payment_htlc_attempt_resolutions"):
		return "resolved"
	case errors.As(err, &uniq) && strings.Contains(s, "payment_htlc_attempts.attempt_index"):
		return "dupid"
	case errors.As(err, &uniq):
		return "unique"
	case strings.Contains(s, "not registered"), strings.Contains(s, "htlcs bucket not found"):
		return "noattempt"
	case strings.Contains(s, "already registered"):
		return "dupid"
	case strings.Contains(s, "FOREIGN KEY constraint failed"):
		return "noattempt"
	case strings.Contains(s, "non bucket element in payments"):
		return "notfound"
	}
	return "other"
}

// c16Fix holds the concrete values behind the abstract names of one run.
type c16Fix struct {
	hashes map[string]lntypes.Hash
	pre    map[string]lntypes.Preimage
	names  []string
	value  int
	nAtt   int
	base   uint64 // concrete attempt id = base + model id
}

// c16Keys are the fixed concrete public keys behind the key ids of a route:
// node keys 1..9 (9 = the source), blinding points 101, 102.
var (
	c16KeyOnce sync.Once
	c16KeyByID map[int]*btcec.PublicKey
	c16IDByKey map[route.Vertex]int
)

func c16Key(id int) *btcec.PublicKey {
	c16KeyOnce.Do(func() {
		c16KeyByID = map[int]*btcec.PublicKey{}
		c16IDByKey = map[route.Vertex]int{}
		for _, k := range []int{1, 2, 3, 4, 5, 6, 7, 8, 9, 101, 102} {
			seed := sha256.Sum256([]byte(fmt.Sprintf("c16-key/%d", k)))
			_, pub := btcec.PrivKeyFromBytes(seed[:])
			c16KeyByID[k] = pub
			c16IDByKey[route.NewVertex(pub)] = k
		}
	})
	return c16KeyByID[id]
}

func c16Vertex(id int) route.Vertex {
	if id == 0 {
		return route.Vertex{}
	}
	return route.NewVertex(c16Key(id))
}

func c16VertexID(v route.Vertex) int {
	c16Key(1)
	if v == (route.Vertex{}) {
		return 0
	}
	if id, ok := c16IDByKey[v]; ok {
		return id
	}
	return -1
}

// c16Units reads an amount in units (-1 if it is not a whole number of units).
func c16Units(a lnwire.MilliSatoshi) int {
	if a%c16Unit != 0 {
		return -1
	}
	return int(a / c16Unit)
}

// c16Blob / c16BlobID: the fixed byte strings behind encrypted data and
// metadata ids; c16Recs / c16RecsID: the fixed custom record sets.
func c16Blob(tag byte, id int) []byte {
	if id == 0 {
		return nil
	}
	return []byte{byte(id), tag, 0x16}
}

func c16BlobID(tag byte, b []byte) int {
	switch {
	case len(b) == 0:
		return 0
	case len(b) == 3 && b[0] != 0 && b[1] == tag && b[2] == 0x16:
		return int(b[0])
	}
	return -1
}

func c16Recs(id int) map[uint64][]byte {
	if id == 0 {
		return nil
	}
	return map[uint64][]byte{uint64(65536 + id): {byte(id), 0xc}}
}

func c16RecsID(m map[uint64][]byte) int {
	if len(m) == 0 {
		return 0
	}
	if len(m) == 1 {
		for k, v := range m {
			id := int(k) - 65536
			if id > 0 && id < 256 && len(v) == 2 && v[0] == byte(id) && v[1] == 0xc {
				return id
			}
		}
	}
	return -1
}

// c16BuildRoute builds the real route.Route of a model route, field by field.
func c16BuildRoute(m c16Route) route.Route {
	rt := route.Route{
		TotalTimeLock:             uint32(m.Ttl),
		TotalAmount:               lnwire.MilliSatoshi(m.Ta * c16Unit),
		SourcePubKey:              c16Vertex(m.Src),
		FirstHopWireCustomRecords: lnwire.CustomRecords(c16Recs(m.Fcr)),
	}
	if m.Fha != 0 {
		rt.FirstHopAmount = tlv.NewRecordT[tlv.TlvType0](
			tlv.NewBigSizeT(lnwire.MilliSatoshi(m.Fha * c16Unit)))
	}
	for _, h := range m.Hops {
		hop := &route.Hop{
			PubKeyBytes:      c16Vertex(h.Pk),
			ChannelID:        uint64(h.Ch),
			OutgoingTimeLock: uint32(h.Tl),
			AmtToForward:     lnwire.MilliSatoshi(h.Amt * c16Unit),
			EncryptedData:    c16Blob(0xe, h.Enc),
			Metadata:         c16Blob(0xd, h.Md),
			TotalAmtMsat:     lnwire.MilliSatoshi(h.Tot * c16Unit),
			CustomRecords:    record.CustomSet(c16Recs(h.Cr)),
		}
		if h.Ma != 0 {
			var addr [32]byte
			addr[0] = byte(h.Ma)
			hop.MPP = record.NewMPP(lnwire.MilliSatoshi(h.Mt*c16Unit), addr)
		}
		if h.Amp != 0 {
			var share, set [32]byte
			share[0], set[0] = byte(h.Amp), byte(h.Amp)
			hop.AMP = record.NewAMP(share, set, uint32(h.Amp))
		}
		if h.Bp != 0 {
			hop.BlindingPoint = c16Key(100 + h.Bp)
		}
		rt.Hops = append(rt.Hops, hop)
	}
	return rt
}

// c16ProjRoute copies a real route back into model terms, field by field.
func c16ProjRoute(rt *route.Route) c16Route {
	m := c16Route{
		Ta:   c16Units(rt.TotalAmount),
		Ttl:  int(rt.TotalTimeLock),
		Fha:  c16Units(rt.FirstHopAmount.Val.Int()),
		Fcr:  c16RecsID(rt.FirstHopWireCustomRecords),
		Src:  c16VertexID(rt.SourcePubKey),
		Hops: []c16Hop{},
	}
	for _, hop := range rt.Hops {
		h := c16Hop{
			Pk:  c16VertexID(hop.PubKeyBytes),
			Ch:  int(hop.ChannelID),
			Tl:  int(hop.OutgoingTimeLock),
			Amt: c16Units(hop.AmtToForward),
			Enc: c16BlobID(0xe, hop.EncryptedData),
			Md:  c16BlobID(0xd, hop.Metadata),
			Tot: c16Units(hop.TotalAmtMsat),
			Cr:  c16RecsID(hop.CustomRecords),
		}
		if hop.MPP != nil {
			addr := hop.MPP.PaymentAddr()
			h.Ma = int(addr[0])
			if addr[0] == 0 || addr != [32]byte{addr[0]} {
				h.Ma = -1
			}
			h.Mt = c16Units(hop.MPP.TotalMsat())
		}
		if hop.AMP != nil {
			share, set := hop.AMP.RootShare(), hop.AMP.SetID()
			h.Amp = int(hop.AMP.ChildIndex())
			if h.Amp == 0 || share != [32]byte{byte(h.Amp)} || set != [32]byte{byte(h.Amp)} {
				h.Amp = -1
			}
		}
		if hop.BlindingPoint != nil {
			h.Bp = c16VertexID(route.NewVertex(hop.BlindingPoint)) - 100
			if h.Bp <= 0 {
				h.Bp = -1
			}
		}
		m.Hops = append(m.Hops, h)
	}
	return m
}

func c16NewFix(tag string, names []string, value, nAtt int) *c16Fix {
	f := &c16Fix{hashes: map[string]lntypes.Hash{}, pre: map[string]lntypes.Preimage{}, names: names,
		value: value, nAtt: nAtt}
	for _, n := range names {
		p := sha256.Sum256([]byte("c16-preimage/" + tag + "/" + n))
		f.pre[n] = p
		f.hashes[n] = sha256.Sum256(p[:])
	}
	return f
}

func (f *c16Fix) hash(n string) lntypes.Hash {
	if h, ok := f.hashes[n]; ok {
		return h
	}
	return sha256.Sum256([]byte("c16-unknown/" + n))
}

func (f *c16Fix) info(n string) *PaymentCreationInfo {
	return &PaymentCreationInfo{
		PaymentIdentifier: f.hash(n),
		Value:             lnwire.MilliSatoshi(f.value * c16Unit),
		CreationTime:      time.Unix(time.Now().Unix(), 0),
		PaymentRequest:    []byte("c16"),
	}
}

// attempt builds the HTLCAttemptInfo described by a Register event.
func (f *c16Fix) attempt(e c16Ev) (*HTLCAttemptInfo, error) {
	rt := c16BuildRoute(e.route())
	if len(rt.Hops) == 0 {
		// outside the universe (the stores dereference the final hop)
		return nil, fmt.Errorf("c16: Register without a route")
	}
	key, err := btcec.NewPrivateKey()
	if err != nil {
		return nil, err
	}
	h := f.hash(e.H)
	// Built like payment_test.go's blinded case: the constructor's onion
	// encoding is irrelevant for the store, the record is what is stored.
	var scratch [btcec.PrivKeyBytesLen]byte
	copy(scratch[:], key.Serialize())
	return &HTLCAttemptInfo{
		AttemptID:        f.base + uint64(e.ID),
		sessionKey:       scratch,
		cachedSessionKey: key,
		Route:            rt,
		AttemptTime:      time.Unix(time.Now().Unix(), 0),
		Hash:             &h,
	}, nil
}

var c16StatusName = map[PaymentStatus]string{
	StatusInitiated: "initiated", StatusInFlight: "inflight", StatusSucceeded: "succeeded", StatusFailed: "failed",
}

// c16ProjPayment copies the observable fields of one MPPayment.
func (f *c16Fix) projPayment(p *MPPayment) verifkit.Rec {
	att := make([]string, f.nAtt)
	amts := make([]int, f.nAtt)
	rts := make([]c16Route, f.nAtt)
	for i := range att {
		att[i] = "none"
		rts[i] = c16NoRoute()
	}
	extra := 0
	for _, h := range p.HTLCs {
		i := int(int64(h.AttemptID)-int64(f.base)) - 1
		if i < 0 || i >= f.nAtt {
			extra++
			continue
		}
		switch {
		case h.Settle != nil && h.Failure != nil:
			att[i] = "both"
		case h.Settle != nil:
			att[i] = "settled"
		case h.Failure != nil:
			att[i] = "failed"
		default:
			att[i] = "inflight"
		}
		amts[i] = int(h.Route.ReceiverAmt() / c16Unit)
		rts[i] = c16ProjRoute(&h.Route)
	}
	fr := -1
	if p.FailureReason != nil {
		fr = int(*p.FailureReason)
	}
	st, ok := c16StatusName[p.Status]
	if !ok {
		st = fmt.Sprintf("unknown%d", p.Status)
	}
	r := verifkit.Rec{"ex": 1, "st": st, "val": int(p.Info.Value / c16Unit), "fr": fr, "att": att, "amt": amts,
		"rt": rts, "extra": extra, "rem": -1, "nin": -1, "hs": -1, "pf": -1}
	if p.State != nil {
		r["rem"] = int(p.State.RemainingAmt / c16Unit)
		r["nin"] = p.State.NumAttemptsInFlight
		r["hs"] = c16Bit(p.State.HasSettledHTLC)
		r["pf"] = c16Bit(p.State.PaymentFailed)
	}
	return r
}

func c16Bit(b bool) int {
	if b {
		return 1
	}
	return 0
}

func (f *c16Fix) projNone(cls string) verifkit.Rec {
	att := make([]string, f.nAtt)
	rts := make([]c16Route, f.nAtt)
	for i := range att {
		att[i] = "none"
		rts[i] = c16NoRoute()
	}
	return verifkit.Rec{"ex": 0, "st": "none", "val": 0, "fr": -1, "att": att, "amt": make([]int, f.nAtt), "rt": rts,
		"extra": 0, "rem": -1, "nin": -1, "hs": -1, "pf": -1, "cls": cls}
}

// projAll reads every named payment back through FetchPayment.
func (f *c16Fix) projAll(ctx context.Context, s *c16Store) verifkit.Rec {
	out := verifkit.Rec{}
	for _, n := range f.names {
		p, err := s.db.FetchPayment(ctx, f.hash(n))
		if err != nil {
			out[n] = f.projNone(c16Class(err))
			continue
		}
		r := f.projPayment(p)
		r["cls"] = "ok"
		out[n] = r
	}
	return out
}

// c16Do performs one call on one store and returns the recorded answer:
// class, raw error text, the returned payment (for the calls that return
// one), the count (DeletePayments) and the in-flight set (FetchInFlight).
func (f *c16Fix) do(ctx context.Context, s *c16Store, e c16Ev) verifkit.Rec {
	var (
		err error
		ret *MPPayment
		n   = -1
		inf = []string{}
	)
	h := f.hash(e.H)
	switch e.A {
	case "Init":
		err = s.db.InitPayment(ctx, h, f.info(e.H))
	case "Register":
		var a *HTLCAttemptInfo
		a, err = f.attempt(e)
		if err == nil {
			ret, err = s.db.RegisterAttempt(ctx, h, a)
		}
	case "Settle":
		ret, err = s.db.SettleAttempt(ctx, h, f.base+uint64(e.ID), &HTLCSettleInfo{
			Preimage: f.pre[e.H], SettleTime: time.Unix(time.Now().Unix(), 0)})
	case "FailAttempt":
		ret, err = s.db.FailAttempt(ctx, h, f.base+uint64(e.ID), &HTLCFailInfo{
			Reason: HTLCFailUnreadable, FailTime: time.Unix(time.Now().Unix(), 0)})
	case "Fail":
		ret, err = s.db.Fail(ctx, h, FailureReason(e.Rs))
	case "DeleteFailedAttempts":
		err = s.db.DeleteFailedAttempts(ctx, h)
	case "DeletePayment":
		err = s.db.DeletePayment(ctx, h, e.Fo == 1)
	case "DeletePayments":
		n, err = s.db.DeletePayments(ctx, e.Fo == 1, e.Fa == 1)
		if err != nil {
			n = -1
		}
	case "Fetch":
		ret, err = s.db.FetchPayment(ctx, h)
	case "FetchInFlight":
		var ps []*MPPayment
		ps, err = s.db.FetchInFlightPayments(ctx)
		for _, p := range ps {
			name := "?"
			for _, nm := range f.names {
				if f.hash(nm) == p.Info.PaymentIdentifier {
					name = nm
				}
			}
			inf = append(inf, name)
		}
		sort.Strings(inf)
	default:
		err = fmt.Errorf("c16: unknown action %q", e.A)
	}
	r := e.rec()
	r["be"] = s.name
	r["cls"] = c16Class(err)
	r["err"] = ""
	if err != nil {
		r["err"] = err.Error()
		if len(r["err"].(string)) > 200 {
			r["err"] = r["err"].(string)[:200]
		}
	}
	r["n"] = n
	r["inf"] = inf
	if ret != nil && err == nil {
		r["ret"] = f.projPayment(ret)
	} else {
		r["ret"] = f.projNone("")
	}
	return r
}

func c16Names(n int) []string {
	out := make([]string, n)
	for i := range out {
		out[i] = fmt.Sprintf("h%d", i+1)
	}
	return out
}

// c16RunAll executes every schedule on a fresh KV store and a fresh SQL store
// (VERIF_WORKERS schedules at a time) and writes <prefix>_kv.ndjson and
// <prefix>_sql.ndjson: one Reset line per schedule, then one line per call with
// the class and the state of all payments read back after the call.
func c16RunAll(t *testing.T, prefix string, labels []string, scheds [][]c16Ev) {
	outDir := verifkit.Env("VERIF_OUT", ".")
	value := verifkit.EnvInt("VERIF_VALUE", 3)
	nAtt := verifkit.EnvInt("VERIF_NATT", 3)
	nHash := verifkit.EnvInt("VERIF_NHASH", 2)
	workers := verifkit.EnvInt("VERIF_WORKERS", 4)
	ctx := context.Background()
	type result struct{ kv, sql []verifkit.Rec }
	results := make([]result, len(scheds))
	var wg sync.WaitGroup
	var next int64 = -1
	for w := 0; w < workers; w++ {
		wg.Add(1)
		go func() {
			defer wg.Done()
			for {
				i := int(atomic.AddInt64(&next, 1))
				if i >= len(scheds) {
					return
				}
				fix := c16NewFix(fmt.Sprintf("%d/%d", verifkit.Seed(), i), c16Names(nHash), value, nAtt)
				for _, s := range []*c16Store{c16NewKV(t, t.TempDir()), c16NewSQL(t)} {
					var recs []verifkit.Rec
					reset := c16Ev{A: "Reset"}.rec()
					reset["be"], reset["cls"], reset["err"], reset["n"] = s.name, "ok", "", -1
					reset["inf"] = []string{}
					reset["ret"] = fix.projNone("")
					reset["s"] = fix.projAll(ctx, s)
					reset["file"] = labels[i]
					recs = append(recs, reset)
					for _, e := range scheds[i] {
						r := fix.do(ctx, s, e)
						r["s"] = fix.projAll(ctx, s)
						recs = append(recs, r)
					}
					if s.name == "kv" {
						results[i].kv = recs
					} else {
						results[i].sql = recs
					}
				}
			}
		}()
	}
	wg.Wait()
	kv := verifkit.MustWriter(filepath.Join(outDir, prefix+"_kv.ndjson"))
	sq := verifkit.MustWriter(filepath.Join(outDir, prefix+"_sql.ndjson"))
	defer kv.Close()
	defer sq.Close()
	for _, r := range results {
		for _, x := range r.kv {
			kv.Emit(x)
		}
		for _, x := range r.sql {
			sq.Emit(x)
		}
	}
}

// TestVerifC16Replay replays every TLC-generated schedule b_*.ndjson of
// VERIF_SCHED on the real stores.
func TestVerifC16Replay(t *testing.T) {
	dir := os.Getenv("VERIF_SCHED")
	files := verifkit.ListFiles(dir, "b_", ".ndjson")
	if len(files) == 0 {
		t.Fatalf("no schedules in %q", dir)
	}
	var (
		labels []string
		scheds [][]c16Ev
	)
	for _, file := range files {
		evs, err := verifkit.ReadNDJSONInto[c16Ev](file)
		if err != nil {
			t.Fatal(err)
		}
		labels = append(labels, filepath.Base(file))
		scheds = append(scheds, evs)
	}
	c16RunAll(t, "replay", labels, scheds)
}

// ---------------------------------------------------------------- free-running drivers

// c16RandRoute draws a route from the universe of shapes of PaymentStore.tla:
// 1..3 hops; single-shot, MPP, AMP, blinded (path of length 1..3 behind 0..2
// plain hops; length 1 = the final hop is the introduction node); now and then
// another payment address / total, a missing blinded total, an MPP record in a
// blinded route, custom records, metadata, first-hop data, another fee.
func c16RandRoute(rng *rand.Rand, value int) c16Route {
	amt := 1 + rng.Intn(value)
	if rng.Intn(10) == 0 {
		amt = value + 1
	}
	var r c16Route
	switch k := rng.Intn(10); {
	case k < 4:
		addr, tot := 1, value
		if rng.Intn(8) == 0 {
			addr = 2
		}
		if rng.Intn(8) == 0 {
			tot = value + 1
		}
		r = c16MppR(1+rng.Intn(3), addr, tot, amt)
		if rng.Intn(4) == 0 {
			r.Hops[len(r.Hops)-1].Amp = 1 + rng.Intn(2)
		}
	case k < 6:
		r = c16SingleR(1+rng.Intn(3), value)
		if rng.Intn(4) == 0 {
			r = c16SingleR(1+rng.Intn(3), amt)
		}
	default:
		ln := 1 + rng.Intn(3)
		if rng.Intn(2) == 0 {
			ln = 1
		}
		pre := rng.Intn(3 - ln + 1)
		tot := value
		if rng.Intn(6) == 0 {
			tot = value + 1
		}
		if rng.Intn(14) == 0 {
			tot = 0
		}
		r = c16BlindR(pre, ln, tot, amt)
		if rng.Intn(14) == 0 {
			r.Hops[len(r.Hops)-1].Ma, r.Hops[len(r.Hops)-1].Mt = 1, value
		}
	}
	if rng.Intn(5) == 0 {
		r.Hops[rng.Intn(len(r.Hops))].Cr = 1 + rng.Intn(2)
	}
	if rng.Intn(6) == 0 {
		r.Hops[len(r.Hops)-1].Md = 1 + rng.Intn(2)
	}
	if rng.Intn(8) == 0 {
		r.Fha, r.Fcr = 1+rng.Intn(2), rng.Intn(3)
	}
	if rng.Intn(8) == 0 {
		r.Ta = r.Hops[len(r.Hops)-1].Amt + 2*rng.Intn(2)
	}
	return r
}

// c16RandEv draws one operation.  The distribution is biased towards calls
// the model's simulation rarely lines up: attempt ids registered under the
// other payment, duplicate ids, exceeding amounts, calls on absent payments.
func c16RandEv(rng *rand.Rand, names []string, value, nAtt int) c16Ev {
	h := names[rng.Intn(len(names))]
	id := 1 + rng.Intn(nAtt)
	e := c16Ev{H: h}
	switch x := rng.Intn(100); {
	case x < 14:
		e.A = "Init"
	case x < 44:
		e.A, e.ID = "Register", id
		rt := c16RandRoute(rng, value)
		e.Rt, e.Shape = &rt, "random"
	case x < 58:
		e.A, e.ID = "Settle", id
	case x < 72:
		e.A, e.ID = "FailAttempt", id
	case x < 80:
		e.A, e.Rs = "Fail", rng.Intn(2)
	case x < 84:
		e.A = "DeleteFailedAttempts"
	case x < 89:
		e.A, e.Fo = "DeletePayment", rng.Intn(2)
	case x < 92:
		e.A, e.H, e.Fo, e.Fa = "DeletePayments", "", rng.Intn(2), rng.Intn(2)
	case x < 96:
		e.A = "Fetch"
	default:
		e.A, e.H = "FetchInFlight", ""
	}
	return e
}

// TestVerifC16Random is the sequential free-running driver: seeded random
// histories (not generated by the model) on fresh stores, same trace format
// as the replay.
func TestVerifC16Random(t *testing.T) {
	value := verifkit.EnvInt("VERIF_VALUE", 3)
	nAtt := verifkit.EnvInt("VERIF_NATT", 3)
	nHash := verifkit.EnvInt("VERIF_NHASH", 2)
	runs := verifkit.EnvInt("VERIF_RUNS", 50)
	steps := verifkit.EnvInt("VERIF_STEPS", 30)
	var (
		labels []string
		scheds [][]c16Ev
	)
	for run := 0; run < runs; run++ {
		rng := rand.New(rand.NewSource(verifkit.Seed()*7919 + int64(run)))
		evs := make([]c16Ev, steps)
		for i := range evs {
			evs[i] = c16RandEv(rng, c16Names(nHash), value, nAtt)
		}
		labels = append(labels, fmt.Sprintf("random-%d", run))
		scheds = append(scheds, evs)
	}
	c16RunAll(t, "random", labels, scheds)
}

// TestVerifC16Concurrent is the concurrent free-running driver: VERIF_THREADS
// goroutines issue seeded random calls against one store; every call is
// stamped with a global sequence number at its start and at its end.  The
// recorded history (calls sorted by start stamp, then the quiescent final
// state) is judged by PaymentStoreConc.tla: it is accepted iff some
// linearization consistent with the stamps is a behaviour of PaymentStore.
func TestVerifC16Concurrent(t *testing.T) {
	outDir := verifkit.Env("VERIF_OUT", ".")
	value := verifkit.EnvInt("VERIF_VALUE", 3)
	nAtt := verifkit.EnvInt("VERIF_NATT", 3)
	nHash := verifkit.EnvInt("VERIF_NHASH", 2)
	runs := verifkit.EnvInt("VERIF_RUNS", 20)
	steps := verifkit.EnvInt("VERIF_STEPS", 6)
	ctx := context.Background()
	outs := map[string]*verifkit.Writer{
		"kv":  verifkit.MustWriter(filepath.Join(outDir, "conc_kv.ndjson")),
		"sql": verifkit.MustWriter(filepath.Join(outDir, "conc_sql.ndjson")),
	}
	defer outs["kv"].Close()
	defer outs["sql"].Close()
	for run := 0; run < runs; run++ {
		threads := 2 + run%3
		if v := verifkit.EnvInt("VERIF_THREADS", 0); v > 0 {
			threads = v
		}
		for _, s := range []*c16Store{c16NewKV(t, t.TempDir()), c16NewSQL(t)} {
			fix := c16NewFix(fmt.Sprintf("c%d/%d", verifkit.Seed(), run), c16Names(nHash), value, nAtt)
			// a sequential prefix puts the store into an interesting state
			pre := rand.New(rand.NewSource(verifkit.Seed()*104729 + int64(run)))
			var (
				mu    sync.Mutex
				calls []verifkit.Rec
				stamp int64
			)
			for i := 0; i < 3; i++ {
				e := c16RandEv(pre, fix.names, value, nAtt)
				if i == 0 {
					e = c16Ev{A: "Init", H: fix.names[pre.Intn(len(fix.names))]}
				}
				st := atomic.AddInt64(&stamp, 1)
				r := fix.do(ctx, s, e)
				r["t0"], r["t1"], r["th"] = st, atomic.AddInt64(&stamp, 1), 0
				calls = append(calls, r)
			}
			var wg sync.WaitGroup
			for th := 1; th <= threads; th++ {
				wg.Add(1)
				go func(th int) {
					defer wg.Done()
					rng := rand.New(rand.NewSource(verifkit.Seed()*15485863 + int64(run)*97 + int64(th)))
					for i := 0; i < steps; i++ {
						e := c16RandEv(rng, fix.names, value, nAtt)
						st := atomic.AddInt64(&stamp, 1)
						r := fix.do(ctx, s, e)
						en := atomic.AddInt64(&stamp, 1)
						r["t0"], r["t1"], r["th"] = st, en, th
						mu.Lock()
						calls = append(calls, r)
						mu.Unlock()
					}
				}(th)
			}
			wg.Wait()
			sort.Slice(calls, func(i, j int) bool { return calls[i]["t0"].(int64) < calls[j]["t0"].(int64) })
			w := outs[s.name]
			final := fix.projAll(ctx, s)
			reset := c16Ev{A: "Reset"}.rec()
			reset["be"], reset["cls"], reset["err"], reset["n"], reset["inf"] = s.name, "ok", "", -1, []string{}
			reset["ret"] = fix.projNone("")
			reset["t0"], reset["t1"], reset["th"] = 0, 0, threads
			reset["ncalls"] = len(calls)
			reset["s"] = final // the quiescent final state of this run
			reset["file"] = fmt.Sprintf("conc-%d", run)
			w.Emit(reset)
			for _, r := range calls {
				w.Emit(r)
			}
		}
	}
}
