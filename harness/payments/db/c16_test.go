//go:build verif

package paymentsdb

import (
	"context"
	"crypto/sha256"
	"database/sql"
	"errors"
	"fmt"
	"math/rand"
	"os"
	"path/filepath"
	"sort"
	"strings"
	"sync"
	"sync/atomic"
	"testing"
	"time"

	"github.com/btcsuite/btcd/btcec/v2"
	"github.com/lightningnetwork/lnd/internal/verifkit"
	"github.com/lightningnetwork/lnd/kvdb"
	"github.com/lightningnetwork/lnd/lntypes"
	"github.com/lightningnetwork/lnd/lnwire"
	"github.com/lightningnetwork/lnd/record"
	"github.com/lightningnetwork/lnd/routing/route"
	"github.com/lightningnetwork/lnd/sqldb"
)

// This file is the executor of property C16 (spec/PaymentStore).  It replays
// schedules on the REAL paymentsdb.KVStore (bbolt, behind verifkit.DB) and
// paymentsdb.SQLStore (SQLite) and records what the code answered.  It contains
// no judgement: PaymentStoreTrace.tla / PaymentStoreConc.tla are the judges.

// c16Unit is the number of millisatoshi of one model amount unit.
const c16Unit = 1000

// c16Ev is one step of a schedule (a TLC-generated behaviour of
// PaymentStoreGen or a step of the free-running driver).
type c16Ev struct {
	A    string `json:"a"`    // action
	H    string `json:"h"`    // payment: "h1", "h2", ... ("" for store-wide ops)
	ID   int    `json:"id"`   // attempt id
	Kind string `json:"kind"` // "single" | "mpp" | "blind" | ""
	Addr int    `json:"addr"` // MPP payment address (mpp only)
	Tot  int    `json:"tot"`  // MPP total / blinded total amount, in units
	Amt  int    `json:"amt"`  // receiver amount of the attempt, in units
	Fo   int    `json:"fo"`   // DeletePayment: failedAttemptsOnly; DeletePayments: failedOnly
	Fa   int    `json:"fa"`   // DeletePayments: failedHtlcsOnly
	Rs   int    `json:"rs"`   // Fail: failure reason
}

func (e c16Ev) rec() verifkit.Rec {
	return verifkit.Rec{"a": e.A, "h": e.H, "id": e.ID, "kind": e.Kind, "addr": e.Addr,
		"tot": e.Tot, "amt": e.Amt, "fo": e.Fo, "fa": e.Fa, "rs": e.Rs}
}

// c16Store is one backend under test.
type c16Store struct {
	name string
	db   DB
	kv   *verifkit.DB // nil for sql
}

func c16NewKV(t testing.TB, dir string) *c16Store {
	backend, cleanup, err := kvdb.GetTestBackend(dir, "kvPaymentDB")
	if err != nil {
		panic(err)
	}
	t.Cleanup(cleanup)
	w := verifkit.Wrap(backend)
	store, err := NewKVStore(w)
	if err != nil {
		panic(err)
	}
	return &c16Store{name: "kv", db: store, kv: w}
}

func c16NewSQL(t testing.TB) *c16Store {
	db := sqldb.NewTestSqliteDB(t).BaseDB
	exec := sqldb.NewTransactionExecutor(db, func(tx *sql.Tx) SQLQueries { return db.WithTx(tx) })
	store, err := NewSQLStore(&SQLStoreConfig{QueryCfg: sqldb.DefaultSQLiteConfig()}, exec)
	if err != nil {
		panic(err)
	}
	return &c16Store{name: "sql", db: store}
}

// c16Class maps an error to its class.  Sentinels first; the few refusals
// that the backends word differently (no sentinel exists) are recognised by
// their text; everything else is "other" and is never expected by the spec.
func c16Class(err error) string {
	var uniq *sqldb.ErrSQLUniqueConstraintViolation
	switch {
	case err == nil:
		return "ok"
	case errors.Is(err, ErrPaymentExists):
		return "exists"
	case errors.Is(err, ErrPaymentInFlight):
		return "inflight"
	case errors.Is(err, ErrAlreadyPaid):
		return "paid"
	case errors.Is(err, ErrPaymentAlreadySucceeded):
		return "succeeded"
	case errors.Is(err, ErrPaymentAlreadyFailed):
		return "failed"
	case errors.Is(err, ErrPaymentPendingSettled):
		return "pendsettled"
	case errors.Is(err, ErrPaymentPendingFailed):
		return "pendfailed"
	case errors.Is(err, ErrPaymentNotInitiated), errors.Is(err, sql.ErrNoRows):
		return "notfound"
	case errors.Is(err, ErrValueMismatch):
		return "valmismatch"
	case errors.Is(err, ErrValueExceedsAmt):
		return "exceeds"
	case errors.Is(err, ErrMPPayment), errors.Is(err, ErrNonMPPayment),
		errors.Is(err, ErrMPPPaymentAddrMismatch), errors.Is(err, ErrMPPTotalAmountMismatch),
		errors.Is(err, ErrMPPRecordInBlindedPayment), errors.Is(err, ErrMixedBlindedAndNonBlindedPayments),
		errors.Is(err, ErrBlindedPaymentTotalAmountMismatch), errors.Is(err, ErrBlindedPaymentMissingTotalAmount):
		return "mismatch"
	case errors.Is(err, ErrAttemptAlreadySettled), errors.Is(err, ErrAttemptAlreadyFailed):
		return "resolved"
	case errors.Is(err, ErrSentExceedsTotal):
		return "sentexceeds"
	case errors.Is(err, ErrPaymentInternal), errors.Is(err, ErrUnknownPaymentStatus), errors.Is(err, ErrNoAttemptInfo):
		return "internal"
	}
	s := err.Error()
	switch {
	case errors.As(err, &uniq) && strings.Contains(s, "payment_htlc_attempt_resolutions"):
		return "resolved"
	case errors.As(err, &uniq) && strings.Contains(s, "payment_htlc_attempts.attempt_index"):
		return "dupid"
	case errors.As(err, &uniq):
		return "unique"
	case strings.Contains(s, "not registered"), strings.Contains(s, "htlcs bucket not found"):
		return "noattempt"
	case strings.Contains(s, "already registered"):
		return "dupid"
	case strings.Contains(s, "FOREIGN KEY constraint failed"):
		return "noattempt"
	case strings.Contains(s, "non bucket element in payments"):
		return "notfound"
	}
	return "other"
}

// c16Fix holds the concrete values behind the abstract names of one run.
type c16Fix struct {
	hashes map[string]lntypes.Hash
	pre    map[string]lntypes.Preimage
	names  []string
	value  int
	nAtt   int
	base   uint64 // concrete attempt id = base + model id
	src    route.Vertex
}

func c16NewFix(tag string, names []string, value, nAtt int) *c16Fix {
	f := &c16Fix{hashes: map[string]lntypes.Hash{}, pre: map[string]lntypes.Preimage{}, names: names,
		value: value, nAtt: nAtt}
	for _, n := range names {
		p := sha256.Sum256([]byte("c16-preimage/" + tag + "/" + n))
		f.pre[n] = p
		f.hashes[n] = sha256.Sum256(p[:])
	}
	priv, _ := btcec.NewPrivateKey()
	f.src = route.NewVertex(priv.PubKey())
	return f
}

func (f *c16Fix) hash(n string) lntypes.Hash {
	if h, ok := f.hashes[n]; ok {
		return h
	}
	return sha256.Sum256([]byte("c16-unknown/" + n))
}

func (f *c16Fix) info(n string) *PaymentCreationInfo {
	return &PaymentCreationInfo{
		PaymentIdentifier: f.hash(n),
		Value:             lnwire.MilliSatoshi(f.value * c16Unit),
		CreationTime:      time.Unix(time.Now().Unix(), 0),
		PaymentRequest:    []byte("c16"),
	}
}

// attempt builds the HTLCAttemptInfo described by a Register event.
func (f *c16Fix) attempt(e c16Ev) (*HTLCAttemptInfo, error) {
	amt := lnwire.MilliSatoshi(e.Amt * c16Unit)
	final := &route.Hop{
		PubKeyBytes:      f.src,
		ChannelID:        2,
		OutgoingTimeLock: 100,
		AmtToForward:     amt,
	}
	first := &route.Hop{
		PubKeyBytes:      f.src,
		ChannelID:        1,
		OutgoingTimeLock: 110,
		AmtToForward:     amt,
	}
	switch e.Kind {
	case "mpp":
		var addr [32]byte
		addr[0] = byte(e.Addr)
		final.MPP = record.NewMPP(lnwire.MilliSatoshi(e.Tot*c16Unit), addr)
	case "blind":
		priv, _ := btcec.NewPrivateKey()
		first.EncryptedData = []byte{1, 2, 3}
		first.BlindingPoint = priv.PubKey()
		final.EncryptedData = []byte{3, 2, 1}
		final.TotalAmtMsat = lnwire.MilliSatoshi(e.Tot * c16Unit)
	}
	rt := route.Route{
		TotalTimeLock: 120,
		TotalAmount:   amt + c16Unit/10,
		SourcePubKey:  f.src,
		Hops:          []*route.Hop{first, final},
	}
	key, err := btcec.NewPrivateKey()
	if err != nil {
		return nil, err
	}
	h := f.hash(e.H)
	// Built like payment_test.go's blinded case: the constructor's onion
	// encoding is irrelevant for the store, the record is what is stored.
	var scratch [btcec.PrivKeyBytesLen]byte
	copy(scratch[:], key.Serialize())
	return &HTLCAttemptInfo{
		AttemptID:        f.base + uint64(e.ID),
		sessionKey:       scratch,
		cachedSessionKey: key,
		Route:            rt,
		AttemptTime:      time.Unix(time.Now().Unix(), 0),
		Hash:             &h,
	}, nil
}

var c16StatusName = map[PaymentStatus]string{
	StatusInitiated: "initiated", StatusInFlight: "inflight", StatusSucceeded: "succeeded", StatusFailed: "failed",
}

// c16ProjPayment copies the observable fields of one MPPayment.
func (f *c16Fix) projPayment(p *MPPayment) verifkit.Rec {
	att := make([]string, f.nAtt)
	amts := make([]int, f.nAtt)
	for i := range att {
		att[i] = "none"
	}
	extra := 0
	for _, h := range p.HTLCs {
		i := int(int64(h.AttemptID)-int64(f.base)) - 1
		if i < 0 || i >= f.nAtt {
			extra++
			continue
		}
		switch {
		case h.Settle != nil && h.Failure != nil:
			att[i] = "both"
		case h.Settle != nil:
			att[i] = "settled"
		case h.Failure != nil:
			att[i] = "failed"
		default:
			att[i] = "inflight"
		}
		amts[i] = int(h.Route.ReceiverAmt() / c16Unit)
	}
	fr := -1
	if p.FailureReason != nil {
		fr = int(*p.FailureReason)
	}
	st, ok := c16StatusName[p.Status]
	if !ok {
		st = fmt.Sprintf("unknown%d", p.Status)
	}
	r := verifkit.Rec{"ex": 1, "st": st, "val": int(p.Info.Value / c16Unit), "fr": fr, "att": att, "amt": amts,
		"extra": extra, "rem": -1, "nin": -1, "hs": -1, "pf": -1}
	if p.State != nil {
		r["rem"] = int(p.State.RemainingAmt / c16Unit)
		r["nin"] = p.State.NumAttemptsInFlight
		r["hs"] = c16Bit(p.State.HasSettledHTLC)
		r["pf"] = c16Bit(p.State.PaymentFailed)
	}
	return r
}

func c16Bit(b bool) int {
	if b {
		return 1
	}
	return 0
}

func (f *c16Fix) projNone(cls string) verifkit.Rec {
	att := make([]string, f.nAtt)
	for i := range att {
		att[i] = "none"
	}
	return verifkit.Rec{"ex": 0, "st": "none", "val": 0, "fr": -1, "att": att, "amt": make([]int, f.nAtt),
		"extra": 0, "rem": -1, "nin": -1, "hs": -1, "pf": -1, "cls": cls}
}

// projAll reads every named payment back through FetchPayment.
func (f *c16Fix) projAll(ctx context.Context, s *c16Store) verifkit.Rec {
	out := verifkit.Rec{}
	for _, n := range f.names {
		p, err := s.db.FetchPayment(ctx, f.hash(n))
		if err != nil {
			out[n] = f.projNone(c16Class(err))
			continue
		}
		r := f.projPayment(p)
		r["cls"] = "ok"
		out[n] = r
	}
	return out
}

// c16Do performs one call on one store and returns the recorded answer:
// class, raw error text, the returned payment (for the calls that return
// one), the count (DeletePayments) and the in-flight set (FetchInFlight).
func (f *c16Fix) do(ctx context.Context, s *c16Store, e c16Ev) verifkit.Rec {
	var (
		err error
		ret *MPPayment
		n   = -1
		inf = []string{}
	)
	h := f.hash(e.H)
	switch e.A {
	case "Init":
		err = s.db.InitPayment(ctx, h, f.info(e.H))
	case "Register":
		var a *HTLCAttemptInfo
		a, err = f.attempt(e)
		if err == nil {
			ret, err = s.db.RegisterAttempt(ctx, h, a)
		}
	case "Settle":
		ret, err = s.db.SettleAttempt(ctx, h, f.base+uint64(e.ID), &HTLCSettleInfo{
			Preimage: f.pre[e.H], SettleTime: time.Unix(time.Now().Unix(), 0)})
	case "FailAttempt":
		ret, err = s.db.FailAttempt(ctx, h, f.base+uint64(e.ID), &HTLCFailInfo{
			Reason: HTLCFailUnreadable, FailTime: time.Unix(time.Now().Unix(), 0)})
	case "Fail":
		ret, err = s.db.Fail(ctx, h, FailureReason(e.Rs))
	case "DeleteFailedAttempts":
		err = s.db.DeleteFailedAttempts(ctx, h)
	case "DeletePayment":
		err = s.db.DeletePayment(ctx, h, e.Fo == 1)
	case "DeletePayments":
		n, err = s.db.DeletePayments(ctx, e.Fo == 1, e.Fa == 1)
		if err != nil {
			n = -1
		}
	case "Fetch":
		ret, err = s.db.FetchPayment(ctx, h)
	case "FetchInFlight":
		var ps []*MPPayment
		ps, err = s.db.FetchInFlightPayments(ctx)
		for _, p := range ps {
			name := "?"
			for _, nm := range f.names {
				if f.hash(nm) == p.Info.PaymentIdentifier {
					name = nm
				}
			}
			inf = append(inf, name)
		}
		sort.Strings(inf)
	default:
		err = fmt.Errorf("c16: unknown action %q", e.A)
	}
	r := e.rec()
	r["be"] = s.name
	r["cls"] = c16Class(err)
	r["err"] = ""
	if err != nil {
		r["err"] = err.Error()
		if len(r["err"].(string)) > 200 {
			r["err"] = r["err"].(string)[:200]
		}
	}
	r["n"] = n
	r["inf"] = inf
	if ret != nil && err == nil {
		r["ret"] = f.projPayment(ret)
	} else {
		r["ret"] = f.projNone("")
	}
	return r
}

func c16Names(n int) []string {
	out := make([]string, n)
	for i := range out {
		out[i] = fmt.Sprintf("h%d", i+1)
	}
	return out
}

// c16RunAll executes every schedule on a fresh KV store and a fresh SQL store
// (VERIF_WORKERS schedules at a time) and writes <prefix>_kv.ndjson and
// <prefix>_sql.ndjson: one Reset line per schedule, then one line per call with
// the class and the state of all payments read back after the call.
func c16RunAll(t *testing.T, prefix string, labels []string, scheds [][]c16Ev) {
	outDir := verifkit.Env("VERIF_OUT", ".")
	value := verifkit.EnvInt("VERIF_VALUE", 3)
	nAtt := verifkit.EnvInt("VERIF_NATT", 3)
	nHash := verifkit.EnvInt("VERIF_NHASH", 2)
	workers := verifkit.EnvInt("VERIF_WORKERS", 4)
	ctx := context.Background()
	type result struct{ kv, sql []verifkit.Rec }
	results := make([]result, len(scheds))
	var wg sync.WaitGroup
	var next int64 = -1
	for w := 0; w < workers; w++ {
		wg.Add(1)
		go func() {
			defer wg.Done()
			for {
				i := int(atomic.AddInt64(&next, 1))
				if i >= len(scheds) {
					return
				}
				fix := c16NewFix(fmt.Sprintf("%d/%d", verifkit.Seed(), i), c16Names(nHash), value, nAtt)
				for _, s := range []*c16Store{c16NewKV(t, t.TempDir()), c16NewSQL(t)} {
					var recs []verifkit.Rec
					reset := c16Ev{A: "Reset"}.rec()
					reset["be"], reset["cls"], reset["err"], reset["n"] = s.name, "ok", "", -1
					reset["inf"] = []string{}
					reset["ret"] = fix.projNone("")
					reset["s"] = fix.projAll(ctx, s)
					reset["file"] = labels[i]
					recs = append(recs, reset)
					for _, e := range scheds[i] {
						r := fix.do(ctx, s, e)
						r["s"] = fix.projAll(ctx, s)
						recs = append(recs, r)
					}
					if s.name == "kv" {
						results[i].kv = recs
					} else {
						results[i].sql = recs
					}
				}
			}
		}()
	}
	wg.Wait()
	kv := verifkit.MustWriter(filepath.Join(outDir, prefix+"_kv.ndjson"))
	sq := verifkit.MustWriter(filepath.Join(outDir, prefix+"_sql.ndjson"))
	defer kv.Close()
	defer sq.Close()
	for _, r := range results {
		for _, x := range r.kv {
			kv.Emit(x)
		}
		for _, x := range r.sql {
			sq.Emit(x)
		}
	}
}

// TestVerifC16Replay replays every TLC-generated schedule b_*.ndjson of
// VERIF_SCHED on the real stores.
func TestVerifC16Replay(t *testing.T) {
	dir := os.Getenv("VERIF_SCHED")
	files := verifkit.ListFiles(dir, "b_", ".ndjson")
	if len(files) == 0 {
		t.Fatalf("no schedules in %q", dir)
	}
	var (
		labels []string
		scheds [][]c16Ev
	)
	for _, file := range files {
		evs, err := verifkit.ReadNDJSONInto[c16Ev](file)
		if err != nil {
			t.Fatal(err)
		}
		labels = append(labels, filepath.Base(file))
		scheds = append(scheds, evs)
	}
	c16RunAll(t, "replay", labels, scheds)
}

// ---------------------------------------------------------------- free-running drivers

// c16RandEv draws one operation.  The distribution is biased towards calls
// the model's simulation rarely lines up: attempt ids registered under the
// other payment, duplicate ids, exceeding amounts, calls on absent payments.
func c16RandEv(rng *rand.Rand, names []string, value, nAtt int) c16Ev {
	h := names[rng.Intn(len(names))]
	id := 1 + rng.Intn(nAtt)
	e := c16Ev{H: h}
	switch x := rng.Intn(100); {
	case x < 14:
		e.A = "Init"
	case x < 44:
		e.A, e.ID = "Register", id
		switch k := rng.Intn(10); {
		case k < 6:
			e.Kind, e.Addr, e.Tot = "mpp", 1, value
			if rng.Intn(8) == 0 {
				e.Addr = 2
			}
			if rng.Intn(8) == 0 {
				e.Tot = value + 1
			}
			e.Amt = 1 + rng.Intn(value)
			if rng.Intn(10) == 0 {
				e.Amt = value + 1
			}
		case k < 8:
			e.Kind, e.Amt = "single", value
			if rng.Intn(4) == 0 {
				e.Amt = 1 + rng.Intn(value+1)
			}
		default:
			e.Kind, e.Tot, e.Amt = "blind", value, 1+rng.Intn(value)
			if rng.Intn(5) == 0 {
				e.Tot = value + 1
			}
			if rng.Intn(12) == 0 {
				e.Tot = 0
			}
		}
	case x < 58:
		e.A, e.ID = "Settle", id
	case x < 72:
		e.A, e.ID = "FailAttempt", id
	case x < 80:
		e.A, e.Rs = "Fail", rng.Intn(2)
	case x < 84:
		e.A = "DeleteFailedAttempts"
	case x < 89:
		e.A, e.Fo = "DeletePayment", rng.Intn(2)
	case x < 92:
		e.A, e.H, e.Fo, e.Fa = "DeletePayments", "", rng.Intn(2), rng.Intn(2)
	case x < 96:
		e.A = "Fetch"
	default:
		e.A, e.H = "FetchInFlight", ""
	}
	return e
}

// TestVerifC16Random is the sequential free-running driver: seeded random
// histories (not generated by the model) on fresh stores, same trace format
// as the replay.
func TestVerifC16Random(t *testing.T) {
	value := verifkit.EnvInt("VERIF_VALUE", 3)
	nAtt := verifkit.EnvInt("VERIF_NATT", 3)
	nHash := verifkit.EnvInt("VERIF_NHASH", 2)
	runs := verifkit.EnvInt("VERIF_RUNS", 50)
	steps := verifkit.EnvInt("VERIF_STEPS", 30)
	var (
		labels []string
		scheds [][]c16Ev
	)
	for run := 0; run < runs; run++ {
		rng := rand.New(rand.NewSource(verifkit.Seed()*7919 + int64(run)))
		evs := make([]c16Ev, steps)
		for i := range evs {
			evs[i] = c16RandEv(rng, c16Names(nHash), value, nAtt)
		}
		labels = append(labels, fmt.Sprintf("random-%d", run))
		scheds = append(scheds, evs)
	}
	c16RunAll(t, "random", labels, scheds)
}

// TestVerifC16Concurrent is the concurrent free-running driver: VERIF_THREADS
// goroutines issue seeded random calls against one store; every call is
// stamped with a global sequence number at its start and at its end.  The
// recorded history (calls sorted by start stamp, then the quiescent final
// state) is judged by PaymentStoreConc.tla: it is accepted iff some
// linearization consistent with the stamps is a behaviour of PaymentStore.
func TestVerifC16Concurrent(t *testing.T) {
	outDir := verifkit.Env("VERIF_OUT", ".")
	value := verifkit.EnvInt("VERIF_VALUE", 3)
	nAtt := verifkit.EnvInt("VERIF_NATT", 3)
	nHash := verifkit.EnvInt("VERIF_NHASH", 2)
	runs := verifkit.EnvInt("VERIF_RUNS", 20)
	steps := verifkit.EnvInt("VERIF_STEPS", 6)
	ctx := context.Background()
	outs := map[string]*verifkit.Writer{
		"kv":  verifkit.MustWriter(filepath.Join(outDir, "conc_kv.ndjson")),
		"sql": verifkit.MustWriter(filepath.Join(outDir, "conc_sql.ndjson")),
	}
	defer outs["kv"].Close()
	defer outs["sql"].Close()
	for run := 0; run < runs; run++ {
		threads := 2 + run%3
		if v := verifkit.EnvInt("VERIF_THREADS", 0); v > 0 {
			threads = v
		}
		for _, s := range []*c16Store{c16NewKV(t, t.TempDir()), c16NewSQL(t)} {
			fix := c16NewFix(fmt.Sprintf("c%d/%d", verifkit.Seed(), run), c16Names(nHash), value, nAtt)
			// a sequential prefix puts the store into an interesting state
			pre := rand.New(rand.NewSource(verifkit.Seed()*104729 + int64(run)))
			var (
				mu    sync.Mutex
				calls []verifkit.Rec
				stamp int64
			)
			for i := 0; i < 3; i++ {
				e := c16RandEv(pre, fix.names, value, nAtt)
				if i == 0 {
					e = c16Ev{A: "Init", H: fix.names[pre.Intn(len(fix.names))]}
				}
				st := atomic.AddInt64(&stamp, 1)
				r := fix.do(ctx, s, e)
				r["t0"], r["t1"], r["th"] = st, atomic.AddInt64(&stamp, 1), 0
				calls = append(calls, r)
			}
			var wg sync.WaitGroup
			for th := 1; th <= threads; th++ {
				wg.Add(1)
				go func(th int) {
					defer wg.Done()
					rng := rand.New(rand.NewSource(verifkit.Seed()*15485863 + int64(run)*97 + int64(th)))
					for i := 0; i < steps; i++ {
						e := c16RandEv(rng, fix.names, value, nAtt)
						st := atomic.AddInt64(&stamp, 1)
						r := fix.do(ctx, s, e)
						en := atomic.AddInt64(&stamp, 1)
						r["t0"], r["t1"], r["th"] = st, en, th
						mu.Lock()
						calls = append(calls, r)
						mu.Unlock()
					}
				}(th)
			}
			wg.Wait()
			sort.Slice(calls, func(i, j int) bool { return calls[i]["t0"].(int64) < calls[j]["t0"].(int64) })
			w := outs[s.name]
			final := fix.projAll(ctx, s)
			reset := c16Ev{A: "Reset"}.rec()
			reset["be"], reset["cls"], reset["err"], reset["n"], reset["inf"] = s.name, "ok", "", -1, []string{}
			reset["ret"] = fix.projNone("")
			reset["t0"], reset["t1"], reset["th"] = 0, 0, threads
			reset["ncalls"] = len(calls)
			reset["s"] = final // the quiescent final state of this run
			reset["file"] = fmt.Sprintf("conc-%d", run)
			w.Emit(reset)
			for _, r := range calls {
				w.Emit(r)
			}
		}
	}
}
