//go:build verif

package discovery

// C20 executor: replays TLC-generated schedules of spec/Gossip on the REAL
// AuthenticatedGossiper.  Messages are really signed with real keys and then
// corrupted exactly as the schedule's attributes say; the funding output is
// served by a programmable chain backend.  After every call the executor
// records the class of the result on the returned future, a projection of the
// graph (read back through graph.ChannelGraphSource), the zombie / closed /
// reject-cache / premature-stash state, and every message seen on the
// Broadcast callback.  No judgement here: spec/Gossip/GossipTrace.tla decides.
//
// VERIF_SRC=mock     graph source = the package's mock router (node replace fixed, see c20Router)
// VERIF_SRC=builder  graph source = the real graph.Builder on a real graphdb (bolt)
//
// Backend faults: the chain backend answers every query of the funding
// validation (GetBlockHash / GetBlock / GetUtxo) as the `fund` attribute of
// the announcement says - success, a negative answer or an error.
// Chain events (builder source): schedule entries "BC" / "BD" are handed to
// the real graph.Builder as FilteredChainView notifications (a block at the
// builder's height + 1 whose transactions spend the funding outputs of the
// named channels / the block at the builder's height going stale).
// The announcement_signatures path for our own channels is in c20_proof_test.go.

import (
	"bytes"
	"context"
	"crypto/sha256"
	"encoding/json"
	"errors"
	"fmt"
	"image/color"
	"net"
	"os"
	"path/filepath"
	"sort"
	"sync"
	"sync/atomic"
	"testing"
	"time"

	"github.com/btcsuite/btcd/btcec/v2"
	"github.com/btcsuite/btcd/btcec/v2/ecdsa"
	"github.com/btcsuite/btcd/chaincfg/v2"
	"github.com/btcsuite/btcd/chainhash/v2"
	"github.com/btcsuite/btcd/wire/v2"
	"github.com/lightningnetwork/lnd/actor"
	"github.com/lightningnetwork/lnd/batch"
	"github.com/lightningnetwork/lnd/channeldb"
	"github.com/lightningnetwork/lnd/chanstate"
	"github.com/lightningnetwork/lnd/graph"
	graphdb "github.com/lightningnetwork/lnd/graph/db"
	"github.com/lightningnetwork/lnd/graph/db/models"
	"github.com/lightningnetwork/lnd/input"
	"github.com/lightningnetwork/lnd/internal/verifkit"
	"github.com/lightningnetwork/lnd/keychain"
	"github.com/lightningnetwork/lnd/kvdb"
	"github.com/lightningnetwork/lnd/lnpeer"
	"github.com/lightningnetwork/lnd/lntest/mock"
	"github.com/lightningnetwork/lnd/lnwallet/btcwallet"
	"github.com/lightningnetwork/lnd/lnwire"
	"github.com/lightningnetwork/lnd/netann"
	"github.com/lightningnetwork/lnd/routing/chainview"
	"github.com/lightningnetwork/lnd/routing/route"
	"github.com/lightningnetwork/lnd/ticker"
)

// ---------------------------------------------------------------- universe

// c20Msg is one message of the specification's universe (Gossip.tla).
type c20Msg struct {
	T      string `json:"t"`
	C      int    `json:"c"`
	N      int    `json:"n"`
	D      int    `json:"d"`
	Ts     int    `json:"ts"`
	Fee    int    `json:"fee"`
	Signer string `json:"signer"`
	Bad    string `json:"bad"`
	Fund   string `json:"fund"`
	Fields string `json:"fields"`
	Peer   string `json:"peer"`
}

var c20NoMsg = c20Msg{T: "-", Signer: "-", Bad: "-", Fund: "-", Fields: "-", Peer: "-"}

type c20Prelude struct {
	Name string   `json:"name"`
	Pre  []c20Msg `json:"pre"`
	Suf  []c20Msg `json:"suf"`
}

const (
	c20Height   = 1000 // best height known to the gossiper (mock source)
	c20Tip0     = 103  // best height of the chain behind the real graph.Builder (Gossip.tla: Tip0)
	c20MaxTs    = 3
	c20FundSats = 1000
)

func c20Key(name string) *btcec.PrivateKey {
	h := sha256.Sum256([]byte("verif/c20/" + name))
	k, _ := btcec.PrivKeyFromBytes(h[:])
	return k
}

var (
	c20NodeKey  = map[int]*btcec.PrivateKey{1: c20Key("node1"), 2: c20Key("node2"), 3: c20Key("node3")}
	c20BtcKey   = map[int][2]*btcec.PrivateKey{1: {c20Key("btc1a"), c20Key("btc1b")}, 2: {c20Key("btc2a"), c20Key("btc2b")}}
	c20Stranger = c20Key("stranger")
	c20PeerKey  = map[string]*btcec.PrivateKey{"p1": c20Key("peer1"), "p2": c20Key("peer2")}
	c20Self     = c20Key("self")
	// real timestamps: model ts k>0 <-> c20T0+k, model 0 <-> wire 0
	c20T0 = uint32(time.Now().Unix()) - 3600
)

func c20EndOf(c, d int) int {
	if c == 1 {
		return 1 + d
	}
	return 2 + d
}
func c20Other(c int) int { return 3 - c }
func c20Scid(c int) lnwire.ShortChannelID {
	return lnwire.ShortChannelID{BlockHeight: uint32(100 + c), TxIndex: 0, TxPosition: 0}
}
func c20WireTs(ts int) uint32 {
	if ts == 0 {
		return 0
	}
	return c20T0 + uint32(ts)
}
func c20ModelTs(t time.Time) int {
	u := t.Unix()
	if u <= 0 {
		return 0
	}
	k := u - int64(c20T0)
	if k >= 1 && k <= c20MaxTs {
		return int(k)
	}
	return 99
}
func c20AltTs(ts int) int {
	if ts < c20MaxTs {
		return ts + 1
	}
	return ts - 1
}
func c20Pub33(k *btcec.PrivateKey) (out [33]byte) {
	copy(out[:], k.PubKey().SerializeCompressed())
	return
}

// ------------------------------------------------------------ chain backend

// c20Chain is the programmable lnwallet.BlockChainIO: what it says about the
// funding output of channel c is set before each channel announcement.
type c20Chain struct {
	mu   sync.Mutex
	mode map[uint32]string // block height -> funding mode
	best int32             // height reported by GetBestBlock
}

var errC20Timeout = errors.New("rpc: request timed out")

// c20FundKeys are the bitcoin keys of the channel confirmed at a height.
func c20FundKeys(height uint32) (*btcec.PrivateKey, *btcec.PrivateKey, bool) {
	switch height {
	case 101, 102:
		k := c20BtcKey[int(height)-100]
		return k[0], k[1], true
	case c20OwnHeight + 1, c20OwnHeight + 2:
		k := c20OwnBtcKey(int(height) - c20OwnHeight)
		return k[0], k[1], true
	}
	return nil, nil, false
}

// c20FundingTx is the transaction a healthy backend returns for the channel
// confirmed at that height; its output 0 is the funding output.
func c20FundingTx(height uint32) *wire.MsgTx {
	k1, k2, ok := c20FundKeys(height)
	if !ok {
		return nil
	}
	tx := wire.NewMsgTx(2)
	tx.TxOut = append(tx.TxOut, c20FundingOut(k1, k2))
	return tx
}

func (c *c20Chain) setMode(ch int, mode string) {
	c.mu.Lock()
	c.mode[c20Scid(ch).BlockHeight] = mode
	c.mu.Unlock()
}
func (c *c20Chain) setModeAt(height uint32, mode string) {
	c.mu.Lock()
	c.mode[height] = mode
	c.mu.Unlock()
}
func (c *c20Chain) GetBestBlock() (*chainhash.Hash, int32, error) {
	h := c20HashOf(int64(c.best))
	return &h, c.best, nil
}
func c20HashOf(height int64) chainhash.Hash {
	var h chainhash.Hash
	h[0], h[1], h[2], h[3] = 0xc2, byte(height), byte(height>>8), byte(height>>16)
	return h
}
func c20HeightOf(h *chainhash.Hash) int64 {
	return int64(h[1]) | int64(h[2])<<8 | int64(h[3])<<16
}
func (c *c20Chain) GetBlockHash(height int64) (*chainhash.Hash, error) {
	c.mu.Lock()
	mode := c.mode[uint32(height)]
	c.mu.Unlock()
	switch mode {
	case "nohash": // the backend's negative answer (btcd / bitcoind wording)
		return nil, errors.New("-1: Block number out of range")
	case "hashfault":
		return nil, errC20Timeout
	}
	h := c20HashOf(height)
	return &h, nil
}
func c20FundingOut(k1, k2 *btcec.PrivateKey) *wire.TxOut {
	_, out, err := input.GenFundingPkScript(
		k1.PubKey().SerializeCompressed(), k2.PubKey().SerializeCompressed(), c20FundSats,
	)
	if err != nil {
		panic(err)
	}
	return out
}
func (c *c20Chain) GetBlock(hash *chainhash.Hash) (*wire.MsgBlock, error) {
	height := uint32(c20HeightOf(hash))
	c.mu.Lock()
	mode := c.mode[height]
	c.mu.Unlock()
	k1, _, ok := c20FundKeys(height)
	if !ok {
		return nil, fmt.Errorf("block %d not found", height)
	}
	tx := wire.NewMsgTx(2)
	switch mode {
	case "noblock":
		return nil, fmt.Errorf("block %d not found", height)
	case "blockfault":
		return nil, errC20Timeout
	case "noout":
		// the transaction has no output at the advertised position
	case "wrongkeys":
		tx.TxOut = append(tx.TxOut, c20FundingOut(c20Key("otherbtc1"), c20Key("otherbtc2")))
	case "halfwrongkeys":
		tx.TxOut = append(tx.TxOut, c20FundingOut(k1, c20Key("otherbtc2")))
	default: // ok, spent, utxo faults
		tx = c20FundingTx(height)
	}
	return &wire.MsgBlock{Transactions: []*wire.MsgTx{tx}}, nil
}
func (c *c20Chain) GetUtxo(op *wire.OutPoint, pkScript []byte, heightHint uint32,
	_ <-chan struct{}) (*wire.TxOut, error) {

	c.mu.Lock()
	mode := c.mode[heightHint]
	c.mu.Unlock()
	switch mode {
	case "spent":
		return nil, btcwallet.ErrOutputSpent
	case "utxofault":
		return nil, errC20Timeout
	case "utxonotfound": // neutrino: neither the output nor a spend of it was found
		return nil, btcwallet.ErrOutputNotFound
	}
	return &wire.TxOut{Value: c20FundSats, PkScript: pkScript}, nil
}
func (c *c20Chain) GetBlockHeader(*chainhash.Hash) (*wire.BlockHeader, error) {
	return &wire.BlockHeader{}, nil
}

// c20View is the chainview.FilteredChainView of the real graph.Builder: inert
// but for the block notifications the executor sends (unbuffered channels).
type c20View struct {
	blocks, stale chan *chainview.FilteredBlock
}

// notify hands one notification to the builder's handler and returns once
// the handler has finished with it: the handler is sequential, so it can
// only receive the barrier (a block below its height, which it skips) after
// it is done with the notification.
func (v *c20View) notify(ch chan *chainview.FilteredBlock, b *chainview.FilteredBlock) bool {
	for _, x := range []struct {
		ch chan *chainview.FilteredBlock
		b  *chainview.FilteredBlock
	}{{ch, b}, {v.blocks, &chainview.FilteredBlock{Height: 0}}} {
		select {
		case x.ch <- x.b:
		case <-time.After(c20Wait()):
			return false
		}
	}
	return true
}

func (v *c20View) FilteredBlocks() <-chan *chainview.FilteredBlock     { return v.blocks }
func (v *c20View) DisconnectedBlocks() <-chan *chainview.FilteredBlock { return v.stale }
func (v *c20View) UpdateFilter([]graphdb.EdgePoint, uint32) error      { return nil }
func (v *c20View) FilterBlock(h *chainhash.Hash) (*chainview.FilteredBlock, error) {
	return &chainview.FilteredBlock{Hash: *h}, nil
}
func (v *c20View) Start() error { return nil }
func (v *c20View) Stop() error  { return nil }

// c20Router is the package's mock graph source with one repair: AddNode
// replaces the stored announcement of a node instead of appending a second
// entry (the fixture's IsStaleNode/FetchNode only ever look at the first
// entry, so without this the DOUBLE - not lnd - would call a stale node
// announcement fresh).  Everything else is the fixture's.
type c20Router struct {
	*mockGraphSource
}

func (r *c20Router) AddNode(_ context.Context, node *models.Node,
	_ ...batch.SchedulerOption) error {

	r.mu.Lock()
	defer r.mu.Unlock()
	for i := range r.nodes {
		if r.nodes[i].PubKeyBytes == node.PubKeyBytes {
			r.nodes[i] = *node
			return nil
		}
	}
	r.nodes = append(r.nodes, *node)
	return nil
}

// --------------------------------------------------------------------- env

type c20Pending struct {
	idx int // position in the stash of its channel (arrival order)
	c   int
	fut actor.Future[error]
}

type c20Env struct {
	t        testing.TB
	src      string
	g        *AuthenticatedGossiper
	graph    graph.ChannelGraphSource
	mockSrc  *mockGraphSource
	cg       *graphdb.ChannelGraph
	builder  *graph.Builder
	view     *c20View
	chain    *c20Chain
	closer   *mockScidCloser
	notifier *mockNotifier
	msgStore *mockMessageStore
	wpsDB    kvdb.Backend
	wps      *channeldb.WaitingProofStore
	trickle  time.Duration
	find     func(*btcec.PublicKey, lnwire.ChannelID) (*chanstate.OpenChannel, error)
	bcast    chan lnwire.Message
	peers    map[string]*mockPeer
	sent     map[lnwire.Message]c20Msg // pointer identity of what we handed in
	relayed  []c20Msg
	pending  []c20Pending
	stop     []func()
}

func c20NewEnv(t testing.TB, src string, trickle time.Duration, wpsDB kvdb.Backend) *c20Env {
	return c20NewEnvWith(t, src, trickle, wpsDB, nil)
}

// c20NewEnvWith lets the caller adjust the environment (chain height,
// channel database lookups) before the graph builder and the gossiper start.
func c20NewEnvWith(t testing.TB, src string, trickle time.Duration, wpsDB kvdb.Backend,
	prepare func(*c20Env)) *c20Env {

	e := &c20Env{
		t: t, src: src,
		chain:    &c20Chain{mode: map[uint32]string{}, best: c20Height},
		closer:   newMockScidCloser(false),
		notifier: newMockNotifier(),
		msgStore: newMockMessageStore(),
		wpsDB:    wpsDB,
		trickle:  trickle,
		find:     mockFindChannel,
		bcast:    make(chan lnwire.Message, 4096),
		peers:    map[string]*mockPeer{},
		sent:     map[lnwire.Message]c20Msg{},
	}
	for name, k := range c20PeerKey {
		e.peers[name] = &mockPeer{k.PubKey(), nil, nil, atomic.Bool{}}
	}
	notifier := e.notifier
	if src == "builder" {
		e.chain.best = c20Tip0
	}
	if prepare != nil {
		prepare(e)
	}

	switch src {
	case "builder":
		e.view = &c20View{make(chan *chainview.FilteredBlock), make(chan *chainview.FilteredBlock)}
		backend, cleanup, err := kvdb.GetTestBackend(t.TempDir(), "cgr")
		if err != nil {
			t.Fatal(err)
		}
		store, err := graphdb.NewKVStore(
			backend, graphdb.WithBatchCommitInterval(time.Millisecond),
		)
		if err != nil {
			t.Fatal(err)
		}
		cg, err := graphdb.NewChannelGraph(store, graphdb.WithSyncGraphCachePopulation())
		if err != nil {
			t.Fatal(err)
		}
		if err := cg.Start(); err != nil {
			t.Fatal(err)
		}
		err = cg.SetSourceNode(context.Background(), models.NewV1ShellNode(route.Vertex(c20Pub33(c20Self))))
		if err != nil {
			t.Fatal(err)
		}
		b, err := graph.NewBuilder(&graph.Config{
			SelfNode:            route.Vertex(c20Pub33(c20Self)),
			Graph:               cg,
			Chain:               e.chain,
			ChainView:           e.view,
			Notifier:            notifier,
			ChannelPruneExpiry:  graph.DefaultChannelPruneExpiry,
			GraphPruneInterval:  time.Hour,
			FirstTimePruneDelay: time.Hour,
			IsAlias:             func(lnwire.ShortChannelID) bool { return false },
		})
		if err != nil {
			t.Fatal(err)
		}
		if err := b.Start(); err != nil {
			t.Fatal(err)
		}
		e.graph, e.cg, e.builder = b, cg, b
		e.stop = append(e.stop, func() { _ = b.Stop(); _ = cg.Stop(); cleanup() })
	default:
		m := newMockRouter(nil, c20Height)
		e.mockSrc = m
		e.graph = &c20Router{m}
	}

	e.startGossiper()
	return e
}

// startGossiper builds and starts a gossiper on the environment's graph
// source, waiting-proof store backend and message store (also used to
// restart it: everything the gossiper keeps in memory is lost, the stores
// stay).
func (e *c20Env) startGossiper() {
	t, trickle, notifier := e.t, e.trickle, e.notifier
	// the waiting-proof store is only used by announcement signatures: the
	// traces of the remote path share one, the proof traces have their own
	wps, err := channeldb.NewWaitingProofStore(e.wpsDB)
	if err != nil {
		t.Fatal(err)
	}
	e.wps = wps

	selfDesc := &keychain.KeyDescriptor{PubKey: c20Self.PubKey(), KeyLocator: testKeyLoc}
	e.g = New(Config{
		ChanSeries:  newMockChannelGraphTimeSeries(lnwire.ShortChannelID{BlockHeight: c20Height}),
		ChainIO:     e.chain,
		ChainParams: &chaincfg.MainNetParams,
		Notifier:    notifier,
		Broadcast: func(_ map[route.Vertex]struct{}, msgs ...lnwire.Message) error {
			for _, m := range msgs {
				e.bcast <- m
			}
			return nil
		},
		NotifyWhenOnline: func(target [33]byte, peerChan chan<- lnpeer.Peer) {
			pk, _ := btcec.ParsePubKey(target[:])
			peerChan <- &mockPeer{pk, nil, nil, atomic.Bool{}}
		},
		NotifyWhenOffline: func(_ [33]byte) <-chan struct{} { return make(chan struct{}) },
		FetchSelfAnnouncement: func() lnwire.NodeAnnouncement1 {
			return lnwire.NodeAnnouncement1{Timestamp: c20T0}
		},
		UpdateSelfAnnouncement: func() (lnwire.NodeAnnouncement1, error) {
			return lnwire.NodeAnnouncement1{Timestamp: c20T0}, nil
		},
		Graph:                 e.graph,
		TrickleDelay:          trickle,
		RetransmitTicker:      ticker.NewForce(time.Hour),
		RebroadcastInterval:   rebroadcastInterval,
		ProofMatureDelta:      0,
		WaitingProofStore:     wps,
		MessageStore:          e.msgStore,
		RotateTicker:          ticker.NewForce(DefaultSyncerRotationInterval),
		HistoricalSyncTicker:  ticker.NewForce(DefaultHistoricalSyncInterval),
		NumActiveSyncers:      3,
		AnnSigner:             &mock.SingleSigner{Privkey: c20Self},
		SubBatchDelay:         time.Millisecond,
		MinimumBatchSize:      10,
		MaxChannelUpdateBurst: DefaultMaxChannelUpdateBurst,
		ChannelUpdateInterval: DefaultChannelUpdateInterval,
		IsAlias:               func(lnwire.ShortChannelID) bool { return false },
		SignAliasUpdate: func(*lnwire.ChannelUpdate1) (*ecdsa.Signature, error) {
			return nil, nil
		},
		FindBaseByAlias: func(lnwire.ShortChannelID) (lnwire.ShortChannelID, error) {
			return lnwire.ShortChannelID{}, fmt.Errorf("no base scid")
		},
		GetAlias: func(lnwire.ChannelID) (lnwire.ShortChannelID, error) {
			return lnwire.ShortChannelID{}, fmt.Errorf("no peer alias")
		},
		FindChannel:  e.find,
		ScidCloser:   e.closer,
		BanThreshold: DefaultBanThreshold,
	}, selfDesc)
	if err := e.g.Start(); err != nil {
		t.Fatal(err)
	}
	e.g.syncMgr.markGraphSynced()
}

func (e *c20Env) close() {
	e.g.Stop()
	for _, f := range e.stop {
		f()
	}
}

// ------------------------------------------------------- message building

func c20Sign(k *btcec.PrivateKey, msg lnwire.Message) lnwire.Sig {
	s, err := netann.SignAnnouncement(&mock.SingleSigner{Privkey: k}, testKeyLoc, msg)
	if err != nil {
		panic(err)
	}
	sig, err := lnwire.NewSigFromSignature(s)
	if err != nil {
		panic(err)
	}
	return sig
}

func c20FlipSig(s *lnwire.Sig) {
	b := s.RawBytes()
	b[10] ^= 0x01
	n, err := lnwire.NewSigFromWireECDSA(b)
	if err != nil {
		panic(err)
	}
	*s = n
}

var c20OddTLV = []byte{0x4d, 0x01, 0x05} // a well-formed unknown odd record

func c20BuildCA(m c20Msg) *lnwire.ChannelAnnouncement1 {
	src := m.C // the channel whose scid and keys are signed
	if m.Bad == "scid" {
		src = c20Other(m.C)
	}
	n1, n2 := c20NodeKey[c20EndOf(src, 0)], c20NodeKey[c20EndOf(src, 1)]
	b1, b2 := c20BtcKey[src][0], c20BtcKey[src][1]
	a := &lnwire.ChannelAnnouncement1{
		ChainHash:      *chaincfg.MainNetParams.GenesisHash,
		ShortChannelID: c20Scid(src),
		Features:       lnwire.NewRawFeatureVector(),
		NodeID1:        c20Pub33(n1), NodeID2: c20Pub33(n2),
		BitcoinKey1: c20Pub33(b1), BitcoinKey2: c20Pub33(b2),
	}
	if m.Bad == "wrongchain" {
		a.ChainHash = *chaincfg.TestNet3Params.GenesisHash
	}
	a.NodeSig1, a.NodeSig2 = c20Sign(n1, a), c20Sign(n2, a)
	a.BitcoinSig1, a.BitcoinSig2 = c20Sign(b1, a), c20Sign(b2, a)
	switch m.Bad {
	case "none", "wrongchain":
	case "nsig1":
		c20FlipSig(&a.NodeSig1)
	case "nsig2":
		c20FlipSig(&a.NodeSig2)
	case "bsig1":
		c20FlipSig(&a.BitcoinSig1)
	case "bsig2":
		c20FlipSig(&a.BitcoinSig2)
	case "nsigswap":
		a.NodeSig1, a.NodeSig2 = a.NodeSig2, a.NodeSig1
	case "bsigswap":
		a.BitcoinSig1, a.BitcoinSig2 = a.BitcoinSig2, a.BitcoinSig1
	case "nbswap":
		a.NodeSig1, a.BitcoinSig1 = a.BitcoinSig1, a.NodeSig1
	case "nodeid1":
		a.NodeID1 = c20Pub33(c20Stranger)
	case "nodeid2":
		a.NodeID2 = c20Pub33(c20Stranger)
	case "btckey1":
		a.BitcoinKey1 = c20Pub33(c20Stranger)
	case "btckey2":
		a.BitcoinKey2 = c20Pub33(c20Stranger)
	case "scid":
		a.ShortChannelID = c20Scid(m.C)
	case "extra":
		a.ExtraOpaqueData = append([]byte{}, c20OddTLV...)
	case "features":
		a.Features = lnwire.NewRawFeatureVector(lnwire.FeatureBit(99))
	case "chainhash":
		a.ChainHash = *chaincfg.TestNet3Params.GenesisHash
	default:
		panic("c20: unknown CA corruption " + m.Bad)
	}
	return a
}

func c20BuildCU(m c20Msg) *lnwire.ChannelUpdate1 {
	// the content that gets signed; `bad` names the field that differs on the wire
	sc, sd, sts, sfee := m.C, m.D, m.Ts, m.Fee
	switch m.Bad {
	case "scid":
		sc = c20Other(m.C)
	case "dirbit":
		sd = 1 - m.D
	case "tschg":
		sts = c20AltTs(m.Ts)
	case "feechg":
		sfee = 3 - m.Fee
	}
	var key *btcec.PrivateKey
	switch m.Signer {
	case "n1":
		key = c20NodeKey[c20EndOf(m.C, 0)]
	case "n2":
		key = c20NodeKey[c20EndOf(m.C, 1)]
	default:
		key = c20Stranger
	}
	u := &lnwire.ChannelUpdate1{
		ChainHash:       *chaincfg.MainNetParams.GenesisHash,
		ShortChannelID:  c20Scid(sc),
		Timestamp:       c20WireTs(sts),
		MessageFlags:    lnwire.ChanUpdateRequiredMaxHtlc,
		ChannelFlags:    lnwire.ChanUpdateChanFlags(sd),
		TimeLockDelta:   40,
		HtlcMinimumMsat: 100,
		HtlcMaximumMsat: 200,
		BaseFee:         uint32(1000 + sfee),
		FeeRate:         10,
	}
	switch m.Fields {
	case "ok":
	case "nomaxflag":
		u.MessageFlags = 0
		u.HtlcMaximumMsat = 0
	case "maxzero":
		u.HtlcMaximumMsat = 0
	case "maxltmin":
		u.HtlcMaximumMsat = 50
	case "maxgtcap":
		u.HtlcMaximumMsat = lnwire.MilliSatoshi(2 * c20FundSats * 1000)
	case "disabled": // validly signed with the disable bit: consistent, another content
		u.ChannelFlags |= lnwire.ChanUpdateDisabled
	case "capeq": // exactly the capacity: consistent
		u.HtlcMaximumMsat = lnwire.MilliSatoshi(c20FundSats * 1000)
	case "capplus1":
		u.HtlcMaximumMsat = lnwire.MilliSatoshi(c20FundSats*1000 + 1)
	case "capplus500":
		u.HtlcMaximumMsat = lnwire.MilliSatoshi(c20FundSats*1000 + 500)
	case "capplus999":
		u.HtlcMaximumMsat = lnwire.MilliSatoshi(c20FundSats*1000 + 999)
	case "capplus1000":
		u.HtlcMaximumMsat = lnwire.MilliSatoshi(c20FundSats*1000 + 1000)
	default:
		panic("c20: unknown CU fields " + m.Fields)
	}
	if m.Bad == "wrongchain" {
		u.ChainHash = *chaincfg.TestNet3Params.GenesisHash
	}
	u.Signature = c20Sign(key, u)
	switch m.Bad {
	case "none", "wrongchain":
	case "sig":
		c20FlipSig(&u.Signature)
	case "scid":
		u.ShortChannelID = c20Scid(m.C)
	case "dirbit":
		u.ChannelFlags = lnwire.ChanUpdateChanFlags(m.D)
	case "tschg":
		u.Timestamp = c20WireTs(m.Ts)
	case "feechg":
		u.BaseFee = uint32(1000 + m.Fee)
	case "extra":
		u.ExtraOpaqueData = append([]byte{}, c20OddTLV...)
	case "disable":
		u.ChannelFlags |= lnwire.ChanUpdateDisabled
	case "timelock":
		u.TimeLockDelta++
	case "htlcmax":
		u.HtlcMaximumMsat = 300
	case "msgflags":
		u.MessageFlags |= 2
	case "chainhash":
		u.ChainHash = *chaincfg.TestNet3Params.GenesisHash
	default:
		panic("c20: unknown CU corruption " + m.Bad)
	}
	return u
}

func c20BuildNA(m c20Msg) *lnwire.NodeAnnouncement1 {
	key := c20NodeKey[m.N]
	alias, err := lnwire.NewNodeAlias(fmt.Sprintf("verif-c20-n%d", m.N))
	if err != nil {
		panic(err)
	}
	sts := m.Ts
	if m.Bad == "tschg" {
		sts = c20AltTs(m.Ts)
	}
	a := &lnwire.NodeAnnouncement1{
		Timestamp: c20WireTs(sts),
		Addresses: []net.Addr{testAddr},
		Alias:     alias,
		Features:  lnwire.NewRawFeatureVector(),
		NodeID:    c20Pub33(key),
		RGBColor:  color.RGBA{R: 1, G: 2, B: 3},
	}
	if m.Fields == "twodns" {
		a.Addresses = []net.Addr{
			&lnwire.DNSAddress{Hostname: "a.example.com", Port: 9735},
			&lnwire.DNSAddress{Hostname: "b.example.com", Port: 9735},
		}
	} else if m.Fields != "ok" {
		panic("c20: unknown NA fields " + m.Fields)
	}
	signer := key
	if m.Bad == "wrongkey" {
		signer = c20Stranger
	}
	a.Signature = c20Sign(signer, a)
	switch m.Bad {
	case "none", "wrongkey":
	case "sig":
		c20FlipSig(&a.Signature)
	case "alias":
		a.Alias[0] ^= 1
	case "tschg":
		a.Timestamp = c20WireTs(m.Ts)
	case "extra":
		a.ExtraOpaqueData = append([]byte{}, c20OddTLV...)
	case "features":
		a.Features = lnwire.NewRawFeatureVector(lnwire.FeatureBit(99))
	case "addr":
		a.Addresses = []net.Addr{&net.TCPAddr{IP: net.IP{10, 0, 0, 2}, Port: 9001}}
	case "color":
		a.RGBColor.R ^= 0xff
	default:
		panic("c20: unknown NA corruption " + m.Bad)
	}
	return a
}

func c20Build(m c20Msg) lnwire.Message {
	switch m.T {
	case "CA":
		return c20BuildCA(m)
	case "CU":
		return c20BuildCU(m)
	case "NA":
		return c20BuildNA(m)
	}
	panic("c20: unknown message type " + m.T)
}

// ------------------------------------------------------------- projection

type c20Graph struct {
	Ch   [2]int    `json:"ch"`   // channel c in the graph
	Keys [2][2]int `json:"keys"` // its end points as node indices (0 unknown key, 9 foreign)
	Pol  [4][3]int `json:"pol"`  // (c1,d0) (c1,d1) (c2,d0) (c2,d1): [ts, fee, max_htlc class]
	Zk   [2][2]int `json:"zk"`   // node keys recorded with the zombie entry of c (1 = non-blank)
	Nd   [3]int    `json:"nd"`   // timestamp of the stored announcement of node n
	Zo   [2]int    `json:"zo"`   // zombie index
	Cl   [2]int    `json:"cl"`   // closed-scid index
	Rj   [4]int    `json:"rj"`   // reject cache (c1,p1) (c1,p2) (c2,p1) (c2,p2)
	St   [2]int    `json:"st"`   // premature updates of c not yet handed back for replay
	Nch  int       `json:"nch"`  // channels in the graph, whatever their id
	Nnd  int       `json:"nnd"`  // announced nodes in the graph, whatever their id
	Tip  int       `json:"tip"`  // height the graph builder has processed (builder source; 0 otherwise)
	Vx   [3]int    `json:"vx"`   // node n is a vertex of the graph store, announced or not (builder source)
}

func c20NodeIdx(pk [33]byte) int {
	for i, k := range c20NodeKey {
		if c20Pub33(k) == pk {
			return i
		}
	}
	return 9
}

func c20PolOf(p *models.ChannelEdgePolicy) [3]int {
	if p == nil {
		return [3]int{0, 0, 0}
	}
	fee := int(p.FeeBaseMSat) - 1000
	if fee < 1 || fee > 2 {
		fee = 99
	}
	mx := 99
	switch p.MaxHTLC {
	case 200:
		mx = 1
	case lnwire.MilliSatoshi(c20FundSats * 1000):
		mx = 2
	}
	if p.ChannelFlags.IsDisabled() {
		if mx == 1 {
			mx = 3
		} else {
			mx = 99
		}
	}
	return [3]int{c20ModelTs(p.LastUpdate), fee, mx}
}

func (e *c20Env) stashLen(scid lnwire.ShortChannelID) (total, unprocessed int) {
	v, err := e.g.prematureChannelUpdates.Get(scid.ToUint64())
	if err != nil || v == nil {
		return 0, 0
	}
	for _, pm := range v.msgs {
		total++
		if !pm.processed {
			unprocessed++
		}
	}
	return
}

func (e *c20Env) project() c20Graph {
	var g c20Graph
	ctx := context.Background()
	for c := 1; c <= 2; c++ {
		scid := c20Scid(c)
		info, p1, p2, err := e.graph.GetChannelByID(scid)
		if err == nil && info != nil {
			g.Ch[c-1] = 1
			g.Keys[c-1] = [2]int{c20NodeIdx(info.NodeKey1Bytes), c20NodeIdx(info.NodeKey2Bytes)}
			g.Pol[2*(c-1)] = c20PolOf(p1)
			g.Pol[2*(c-1)+1] = c20PolOf(p2)
		}
		if z, _ := e.graph.IsZombieEdge(scid); z {
			g.Zo[c-1] = 1
		}
		if errors.Is(err, graphdb.ErrZombieEdge) && info != nil {
			var blank [33]byte
			if info.NodeKey1Bytes != blank {
				g.Zk[c-1][0] = 1
			}
			if info.NodeKey2Bytes != blank {
				g.Zk[c-1][1] = 1
			}
		}
		if cl, _ := e.closer.IsClosedScid(ctx, scid); cl {
			g.Cl[c-1] = 1
		}
		for pi, pn := range []string{"p1", "p2"} {
			key := newRejectCacheKey(lnwire.GossipVersion1, scid.ToUint64(), c20Pub33(c20PeerKey[pn]))
			if _, err := e.g.recentRejects.Get(key); err == nil {
				g.Rj[2*(c-1)+pi] = 1
			}
		}
		_, g.St[c-1] = e.stashLen(scid)
	}
	for n := 1; n <= 3; n++ {
		node, err := e.graph.FetchNode(ctx, route.Vertex(c20Pub33(c20NodeKey[n])))
		if err == nil && node != nil && node.HaveAnnouncement() {
			g.Nd[n-1] = c20ModelTs(node.LastUpdate)
		}
		if e.cg != nil {
			_, exists, err := e.cg.HasV1Node(ctx, route.Vertex(c20Pub33(c20NodeKey[n])))
			if err == nil && exists {
				g.Vx[n-1] = 1
			}
		}
	}
	if e.builder != nil {
		g.Tip = int(e.builder.SyncedHeight())
	}
	if e.mockSrc != nil {
		e.mockSrc.mu.Lock()
		g.Nch = len(e.mockSrc.infos)
		g.Nnd = len(e.mockSrc.nodes)
		e.mockSrc.mu.Unlock()
	} else {
		vg := graphdb.NewVersionedGraph(e.cg, lnwire.GossipVersion1)
		_ = vg.ForEachChannel(ctx, func(*models.ChannelEdgeInfo, *models.ChannelEdgePolicy,
			*models.ChannelEdgePolicy) error {

			g.Nch++
			return nil
		}, func() { g.Nch = 0 })
		_ = vg.ForEachNode(ctx, func(n *models.Node) error {
			if n.HaveAnnouncement() {
				g.Nnd++
			}
			return nil
		}, func() { g.Nnd = 0 })
	}
	return g
}

// drain collects what has reached the Broadcast callback so far.
func (e *c20Env) drain() {
	for {
		select {
		case m := <-e.bcast:
			if rec, ok := e.sent[m]; ok {
				rec.Peer = "-" // the wire message; not who sent it
				e.relayed = append(e.relayed, rec)
			} else {
				r := c20NoMsg
				r.T = "??" + m.MsgType().String()
				e.relayed = append(e.relayed, r)
			}
		default:
			return
		}
	}
}

// settle waits until no broadcast arrives for three trickle periods.
func (e *c20Env) settle(trickle time.Duration) {
	quiet := 0
	for quiet < 3 {
		n := len(e.relayed)
		time.Sleep(trickle + trickle/2)
		e.drain()
		if len(e.relayed) == n {
			quiet++
		} else {
			quiet = 0
		}
	}
}

func (e *c20Env) rel() []c20Msg {
	out := make([]c20Msg, len(e.relayed))
	copy(out, e.relayed)
	return out
}

func c20Res(err error) string {
	if err == nil {
		return "ok"
	}
	return "err"
}

// poll returns (result, done) of a future without blocking.
func c20Poll(f actor.Future[error], d time.Duration) (string, string, bool) {
	ctx, cancel := context.WithTimeout(context.Background(), d)
	defer cancel()
	gossipErr, ctxErr := actor.AwaitFuture[error](ctx, f)
	if ctxErr != nil {
		return "", "", false
	}
	es := ""
	if gossipErr != nil {
		es = gossipErr.Error()
		if len(es) > 120 {
			es = es[:120]
		}
	}
	return c20Res(gossipErr), es, true
}

// send hands one wire message to ProcessRemoteAnnouncement and waits until
// its future resolves or the message shows up in the premature stash.
func (e *c20Env) send(msg lnwire.Message, peer lnpeer.Peer, scid *lnwire.ShortChannelID) (
	string, string, actor.Future[error]) {

	before := 0
	if scid != nil {
		before, _ = e.stashLen(*scid)
	}
	fut := e.g.ProcessRemoteAnnouncement(context.Background(), msg, peer)
	deadline := time.Now().Add(c20Wait())
	for {
		if res, es, done := c20Poll(fut, 200*time.Microsecond); done {
			return res, es, fut
		}
		if scid != nil {
			if n, _ := e.stashLen(*scid); n > before {
				// give the handler the time to return; the future stays open
				if res, es, done := c20Poll(fut, 2*time.Millisecond); done {
					return res, es, fut
				}
				return "pending", "", fut
			}
		}
		if time.Now().After(deadline) {
			return "timeout", "", fut
		}
	}
}

type c20Line struct {
	A    string   `json:"a"`
	M    c20Msg   `json:"m"`
	Res  string   `json:"res"`
	Err  string   `json:"err"`
	C    int      `json:"c"`
	Rs   []string `json:"rs"`
	G    c20Graph `json:"g"`
	Rel  []c20Msg `json:"rel"`
	Src  string   `json:"src"`
	Name string   `json:"name"`
	Off  int      `json:"off"`
}

// recv executes one message of a schedule and appends the trace lines.
func (e *c20Env) recv(m c20Msg, out *[]c20Line) {
	switch m.T {
	case "ZO":
		e.zombify(m, out)
		return
	case "BC", "BD":
		e.chainEvent(m, out)
		return
	}
	msg := c20Build(m)
	e.sent[msg] = m
	var scid *lnwire.ShortChannelID
	switch m.T {
	case "CA":
		e.chain.setMode(m.C, m.Fund)
	case "CU":
		s := c20Scid(m.C)
		scid = &s
	}
	knownBefore := false
	if m.T == "CA" {
		_, _, _, err := e.graph.GetChannelByID(c20Scid(m.C))
		knownBefore = err == nil
	}
	res, es, fut := e.send(msg, e.peers[m.Peer], scid)
	if res == "pending" {
		n := 0
		for _, p := range e.pending {
			if p.c == m.C {
				n++
			}
		}
		e.pending = append(e.pending, c20Pending{idx: n, c: m.C, fut: fut})
	}
	e.drain()
	*out = append(*out, c20Line{A: "Recv", M: m, Res: res, Err: es, Rs: []string{}, G: e.project(), Rel: e.rel()})

	// a channel that has just entered the graph gets its premature updates
	// re-queued by the gossiper: wait for their futures
	if m.T == "CA" && !knownBefore {
		if _, _, _, err := e.graph.GetChannelByID(c20Scid(m.C)); err == nil {
			var mine, rest []c20Pending
			for _, p := range e.pending {
				if p.c == m.C {
					mine = append(mine, p)
				} else {
					rest = append(rest, p)
				}
			}
			if len(mine) > 0 {
				sort.Slice(mine, func(i, j int) bool { return mine[i].idx < mine[j].idx })
				rs := make([]string, len(mine))
				for i, p := range mine {
					r, _, done := c20Poll(p.fut, c20Wait())
					if !done {
						r = "pending"
					}
					rs[i] = r
				}
				e.pending = rest
				e.drain()
				*out = append(*out, c20Line{A: "Replay", M: c20NoMsg, C: m.C, Rs: rs, G: e.project(), Rel: e.rel()})
			}
		}
	}
}

// zombify is the environment step of a schedule: the channel (not in the
// graph) enters the zombie index with node keys recorded, the way zombie
// pruning leaves it (MarkEdgeZombie on the graph store).
func (e *c20Env) zombify(m c20Msg, out *[]c20Line) {
	var k1, k2 [33]byte
	if m.Signer == "both" || m.Signer == "n1" {
		k1 = c20Pub33(c20NodeKey[c20EndOf(m.C, 0)])
	}
	if m.Signer == "both" || m.Signer == "n2" {
		k2 = c20Pub33(c20NodeKey[c20EndOf(m.C, 1)])
	}
	scid := c20Scid(m.C)
	var err error
	if e.mockSrc != nil {
		err = e.mockSrc.MarkEdgeZombie(scid, k1, k2)
	} else {
		err = e.cg.MarkEdgeZombie(
			context.Background(), lnwire.GossipVersion1, scid.ToUint64(), k1, k2,
		)
	}
	e.drain()
	*out = append(*out, c20Line{A: "Zombify", M: m, Res: c20Res(err), Rs: []string{}, G: e.project(), Rel: e.rel()})
}

// chainEvent is the chain step of a schedule (builder source): "BC" is a
// block at the builder's height + 1 whose transactions spend the funding
// outputs of the channels coded in m.C, "BD" is the block at the builder's
// height going stale.  Recorded once the builder's handler is done with it.
func (e *c20Env) chainEvent(m c20Msg, out *[]c20Line) {
	a := map[string]string{"BC": "Connect", "BD": "Disconnect"}[m.T]
	res := "ok"
	if e.builder == nil {
		res = "nochain" // the mock graph source has no chain; such schedules are not sent to it
	} else {
		tip := e.builder.SyncedHeight()
		var ok bool
		if m.T == "BD" {
			ok = e.view.notify(e.view.stale, &chainview.FilteredBlock{
				Hash: c20HashOf(int64(tip)), Height: tip,
			})
		} else {
			blk := &chainview.FilteredBlock{Hash: c20HashOf(int64(tip) + 1), Height: tip + 1}
			blk.Hash[4] = 0xbc // another block than the one the funding transactions are in
			spend := wire.NewMsgTx(2)
			for c := 1; c <= 2; c++ {
				if m.C&(1<<uint(c-1)) != 0 {
					spend.AddTxIn(&wire.TxIn{PreviousOutPoint: wire.OutPoint{
						Hash: c20FundingTx(c20Scid(c).BlockHeight).TxHash(), Index: 0,
					}})
				}
			}
			if len(spend.TxIn) > 0 {
				blk.Transactions = []*wire.MsgTx{spend}
			}
			ok = e.view.notify(e.view.blocks, blk)
		}
		if !ok {
			res = "timeout"
		}
	}
	e.drain()
	*out = append(*out, c20Line{A: a, M: m, Res: res, Rs: []string{}, G: e.project(), Rel: e.rel()})
}

func (e *c20Env) end(trickle time.Duration, out *[]c20Line) {
	e.settle(trickle)
	*out = append(*out, c20Line{A: "End", M: c20NoMsg, Rs: []string{}, G: e.project(), Rel: e.rel()})
}

// runTrace executes one schedule on a fresh gossiper + graph.
func c20RunTrace(t testing.TB, src, name string, sched []c20Msg, trickle time.Duration,
	wpsDB kvdb.Backend) []c20Line {

	e := c20NewEnv(t, src, trickle, wpsDB)
	defer e.close()
	out := []c20Line{{A: "Reset", M: c20NoMsg, Rs: []string{}, Rel: []c20Msg{}, Src: src, Name: name}}
	for _, m := range sched {
		e.recv(m, &out)
	}
	e.end(trickle, &out)
	for i := range out {
		out[i].Src = src
	}
	return out
}

// ---------------------------------------------------------------- drivers

type c20Job struct {
	name  string
	sched []c20Msg
}

func c20RunJobs(t *testing.T, src string, jobs []c20Job, w *verifkit.Writer, trickle time.Duration) {
	workers := verifkit.EnvInt("VERIF_WORKERS", 4)
	wpsDB := channeldb.OpenForTesting(t, t.TempDir())
	results := make([][]c20Line, len(jobs))
	var next int64 = -1
	var wg sync.WaitGroup
	for i := 0; i < workers; i++ {
		wg.Add(1)
		go func() {
			defer wg.Done()
			for {
				j := int(atomic.AddInt64(&next, 1))
				if j >= len(jobs) {
					return
				}
				results[j] = c20RunTrace(t, src, jobs[j].name, jobs[j].sched, trickle, wpsDB)
			}
		}()
	}
	wg.Wait()
	for _, r := range results {
		for _, l := range r {
			w.Emit(l)
		}
	}
}

// c20Wait bounds every wait for the real code (a future, a block
// notification): generous, because the machine may be heavily loaded; a step
// that exceeds it is recorded as "timeout" (a replayed update as "pending")
// and makes the whole run inconclusive (vlib/props/c20.py), never a verdict.
func c20Wait() time.Duration {
	return time.Duration(verifkit.EnvInt("VERIF_WAIT_S", 120)) * time.Second
}

func c20Trickle() time.Duration {
	return time.Duration(verifkit.EnvInt("VERIF_TRICKLE_MS", 5)) * time.Millisecond
}

// TestVerifC20Gossip replays TLC-generated behaviours (VERIF_SCHED/b_*.ndjson)
// and the systematic sweep  prelude ++ <<m>> ++ suffix  for the messages of
// VERIF_SWEEP/universe.ndjson selected by VERIF_SWEEP_MOD / VERIF_SWEEP_PICK.
func TestVerifC20Gossip(t *testing.T) {
	src := verifkit.Env("VERIF_SRC", "mock")
	w := verifkit.MustWriter(filepath.Join(verifkit.Env("VERIF_OUT", "."), "trace.ndjson"))
	defer w.Close()
	trickle := c20Trickle()

	var jobs []c20Job
	// VERIF_SCHED_CHAIN: behaviours with chain events (builder source only)
	for _, env := range []string{"VERIF_SCHED", "VERIF_SCHED_CHAIN"} {
		dir := os.Getenv(env)
		if dir == "" || (env == "VERIF_SCHED_CHAIN" && src != "builder") {
			continue
		}
		for _, f := range verifkit.ListFiles(dir, "b_", ".ndjson") {
			sched, err := verifkit.ReadNDJSONInto[c20Msg](f)
			if err != nil {
				t.Fatal(err)
			}
			name := filepath.Base(f)
			if env == "VERIF_SCHED_CHAIN" {
				name = "chain:" + name
			}
			jobs = append(jobs, c20Job{name: name, sched: sched})
		}
	}
	if dir := os.Getenv("VERIF_SWEEP"); dir != "" {
		uni, err := verifkit.ReadNDJSONInto[c20Msg](filepath.Join(dir, "universe.ndjson"))
		if err != nil {
			t.Fatal(err)
		}
		pres, err := verifkit.ReadNDJSONInto[c20Prelude](filepath.Join(dir, "preludes.ndjson"))
		if err != nil {
			t.Fatal(err)
		}
		if src == "builder" { // preludes with chain events
			cpres, err := verifkit.ReadNDJSONInto[c20Prelude](filepath.Join(dir, "preludes_chain.ndjson"))
			if err != nil {
				t.Fatal(err)
			}
			pres = append(pres, cpres...)
		}
		// canonical order of the universe, independent of TLC's set order
		sort.Slice(uni, func(i, j int) bool {
			a, _ := json.Marshal(uni[i])
			b, _ := json.Marshal(uni[j])
			return bytes.Compare(a, b) < 0
		})
		mod := verifkit.EnvInt("VERIF_SWEEP_MOD", 1)
		pick := verifkit.EnvInt("VERIF_SWEEP_PICK", 0)
		k := 0
		for _, p := range pres {
			for _, m := range uni {
				k++
				if k%mod != pick%mod {
					continue
				}
				sched := append(append(append([]c20Msg{}, p.Pre...), m), p.Suf...)
				jobs = append(jobs, c20Job{name: fmt.Sprintf("sweep:%s:%d", p.Name, k), sched: sched})
			}
		}
	}
	if len(jobs) == 0 {
		t.Fatal("no schedules (VERIF_SCHED / VERIF_SWEEP)")
	}
	c20RunJobs(t, src, jobs, w, trickle)
	t.Logf("c20: %d traces, %d lines, source %s", len(jobs), w.Lines(), src)
}

// TestVerifC20Flips is the free-running driver for inputs the model never
// generates: every valid signed message is serialised, ONE bit of the wire
// image is flipped (every byte offset; the bit is chosen by the seed, all
// eight in the thorough tier), the result is parsed back as the peer's read
// path would and handed to the gossiper in a state in which the unflipped
// message would be applied.  Each flip comes from a fresh peer, so that the
// reject cache never shields the validation.  At the end the unflipped
// messages are sent to show that they do apply.
func TestVerifC20Flips(t *testing.T) {
	src := verifkit.Env("VERIF_SRC", "mock")
	w := verifkit.MustWriter(filepath.Join(verifkit.Env("VERIF_OUT", "."), "trace.ndjson"))
	defer w.Close()
	trickle := c20Trickle()
	seed := verifkit.Seed()
	allBits := verifkit.Env("VERIF_TIER", "quick") == "thorough"

	e := c20NewEnv(t, src, trickle, channeldb.OpenForTesting(t, t.TempDir()))
	defer e.close()
	out := []c20Line{{A: "Reset", M: c20NoMsg, Rs: []string{}, Rel: []c20Msg{}, Src: src, Name: "flips"}}
	npeer := 0
	flipAll := func(m c20Msg) {
		valid := c20Build(m)
		var buf bytes.Buffer
		if _, err := lnwire.WriteMessage(&buf, valid, 0); err != nil {
			t.Fatal(err)
		}
		raw := buf.Bytes()
		for off := 0; off < len(raw); off++ {
			bits := []int{int((seed + int64(off)*7) % 8)}
			if allBits {
				bits = []int{0, 1, 2, 3, 4, 5, 6, 7}
			}
			for _, bit := range bits {
				mut := append([]byte{}, raw...)
				mut[off] ^= 1 << uint(bit)
				rec := m
				rec.Bad = "bitflip"
				line := c20Line{A: "Garbage", M: rec, Rs: []string{}, Off: off*8 + bit}
				msg, err := lnwire.ReadMessage(bytes.NewReader(mut), 0)
				if err != nil {
					line.Res, line.Err = "undecodable", ""
				} else {
					npeer++
					peer := &mockPeer{c20Key(fmt.Sprintf("flip-peer-%d", npeer)).PubKey(), nil, nil, atomic.Bool{}}
					e.sent[msg] = rec
					var scid *lnwire.ShortChannelID
					switch mm := msg.(type) {
					case *lnwire.ChannelUpdate1:
						s := mm.ShortChannelID
						scid = &s
					case *lnwire.ChannelAnnouncement1:
						e.chain.setMode(m.C, "ok")
					}
					line.Res, line.Err, _ = e.send(msg, peer, scid)
				}
				e.drain()
				line.G, line.Rel = e.project(), e.rel()
				out = append(out, line)
			}
		}
	}
	ca := c20Msg{T: "CA", C: 1, Signer: "-", Bad: "none", Fund: "ok", Fields: "ok", Peer: "p1"}
	cu := c20Msg{T: "CU", C: 1, D: 0, Ts: 2, Fee: 1, Signer: "n1", Bad: "none", Fund: "-", Fields: "ok", Peer: "p1"}
	na := c20Msg{T: "NA", N: 1, Ts: 2, Signer: "-", Bad: "none", Fund: "-", Fields: "ok", Peer: "p1"}
	flipAll(ca)
	e.recv(ca, &out)
	flipAll(cu)
	flipAll(na)
	e.recv(cu, &out)
	e.recv(na, &out)
	e.end(trickle, &out)
	for _, l := range out {
		l.Src = src
		w.Emit(l)
	}
	t.Logf("c20 flips: %d lines, source %s", len(out), src)
}
