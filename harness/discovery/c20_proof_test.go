//go:build verif

package discovery

// C20 executor, part "proof": replays schedules of spec/Gossip/GossipProof on
// the REAL AuthenticatedGossiper over the real graph.Builder + graphdb KVStore
// and a real channeldb.WaitingProofStore (one bolt file per trace): the
// announcement_signatures path for our own channels.  Our channel's
// announcement goes in through ProcessLocalAnnouncement, our half of the proof
// too, the counterparty's half through ProcessRemoteAnnouncement; halves are
// really signed (node key and bitcoin key of the side) and then corrupted as
// the schedule's attribute says; "RS" stops the gossiper and starts a new one
// on the same graph and waiting-proof store; "RC" is the full announcement of
// an own channel coming from the network (a relaying peer) through
// ProcessRemoteAnnouncement, with one signature corrupted as `bad` says.  After every call the executor
// records the class of the result, the edge / proof / waiting halves read back
// from the real stores with Go-only oracle bits (which signatures verify), and
// what reached the Broadcast callback.  No judgement here:
// spec/Gossip/GossipProofTrace.tla decides.

import (
	"context"
	"fmt"
	"os"
	"path/filepath"
	"strings"
	"sync"
	"sync/atomic"
	"testing"
	"time"

	"github.com/btcsuite/btcd/btcec/v2"
	"github.com/btcsuite/btcd/chaincfg/v2"
	"github.com/btcsuite/btcd/chainhash/v2"
	"github.com/lightningnetwork/lnd/channeldb"
	"github.com/lightningnetwork/lnd/chanstate"
	graphdb "github.com/lightningnetwork/lnd/graph/db"
	"github.com/lightningnetwork/lnd/graph/db/models"
	"github.com/lightningnetwork/lnd/internal/verifkit"
	"github.com/lightningnetwork/lnd/kvdb"
	"github.com/lightningnetwork/lnd/lnwire"
	"github.com/lightningnetwork/lnd/netann"
)

// c20PMsg is one schedule entry of GossipProof.tla.
type c20PMsg struct {
	T    string `json:"t"`    // LC, AS, RS, RC
	C    int    `json:"c"`    // own channel 1 / 2, unknown channel 9
	Side string `json:"side"` // local, remote
	Bad  string `json:"bad"`  // none, nsig, bsig, swap, other
	From string `json:"from"` // party, stranger (remote halves)
}

type c20Pair struct {
	Name  string    `json:"name"`
	Sched []c20PMsg `json:"sched"`
}

const (
	c20OwnHeight = 110 // own channel o is confirmed at height 110 + o
	c20OwnBest   = 120 // best height of the chain behind the proof traces
)

// own channel 1: we are node 1, the counterparty (node key "1") node 2;
// own channel 2: the counterparty (node key "2") is node 1, we are node 2.
func c20OwnNodes(o int) (n1, n2 *btcec.PrivateKey, selfFirst bool) {
	if o == 1 {
		return c20Self, c20NodeKey[1], true
	}
	return c20NodeKey[2], c20Self, false
}
func c20OwnBtcKey(o int) [2]*btcec.PrivateKey {
	return [2]*btcec.PrivateKey{c20Key(fmt.Sprintf("obtc%da", o)), c20Key(fmt.Sprintf("obtc%db", o))}
}
func c20OwnScid(o int) lnwire.ShortChannelID {
	return lnwire.ShortChannelID{BlockHeight: uint32(c20OwnHeight + o)}
}
func c20OwnChanID(o int) lnwire.ChannelID {
	return lnwire.ChannelID{0xc2, 0x0c, byte(o)}
}

// c20OwnCA is the fully signed announcement of own channel o (what both
// parties sign their halves over).
func c20OwnCA(o int) *lnwire.ChannelAnnouncement1 {
	n1, n2, _ := c20OwnNodes(o)
	bk := c20OwnBtcKey(o)
	a := &lnwire.ChannelAnnouncement1{
		ChainHash:      *chaincfg.MainNetParams.GenesisHash,
		ShortChannelID: c20OwnScid(o),
		Features:       lnwire.NewRawFeatureVector(),
		NodeID1:        c20Pub33(n1), NodeID2: c20Pub33(n2),
		BitcoinKey1: c20Pub33(bk[0]), BitcoinKey2: c20Pub33(bk[1]),
	}
	a.NodeSig1, a.NodeSig2 = c20Sign(n1, a), c20Sign(n2, a)
	a.BitcoinSig1, a.BitcoinSig2 = c20Sign(bk[0], a), c20Sign(bk[1], a)
	return a
}

// c20Half builds the announcement_signatures of one side of channel c with
// the corruption named by bad.  For the unknown channel the signatures are
// those of own channel 1 (nobody looks at them).
func c20Half(c int, local bool, bad string) *lnwire.AnnounceSignatures1 {
	o := c
	if o != 1 && o != 2 {
		o = 1
	}
	ca := c20OwnCA(o)
	_, _, selfFirst := c20OwnNodes(o)
	first := local == selfFirst // the half of node 1 of the channel
	mine := [2]lnwire.Sig{ca.NodeSig1, ca.BitcoinSig1}
	theirs := [2]lnwire.Sig{ca.NodeSig2, ca.BitcoinSig2}
	if !first {
		mine, theirs = theirs, mine
	}
	as := &lnwire.AnnounceSignatures1{
		ChannelID:        c20OwnChanID(c),
		ShortChannelID:   c20OwnScid(c),
		NodeSignature:    mine[0],
		BitcoinSignature: mine[1],
	}
	switch bad {
	case "none":
	case "nsig":
		c20FlipSig(&as.NodeSignature)
	case "bsig":
		c20FlipSig(&as.BitcoinSignature)
	case "swap":
		as.NodeSignature, as.BitcoinSignature = as.BitcoinSignature, as.NodeSignature
	case "other":
		as.NodeSignature, as.BitcoinSignature = theirs[0], theirs[1]
	default:
		panic("c20: unknown half corruption " + bad)
	}
	return as
}

// c20SigBits says which of the four signatures of a channel announcement
// verify over its digest under the keys stated in it (n1, n2, b1, b2).
func c20SigBits(a *lnwire.ChannelAnnouncement1) [4]int {
	var out [4]int
	data, err := a.DataToSign()
	if err != nil {
		return out
	}
	h := chainhash.DoubleHashB(data)
	sigs := [4]lnwire.Sig{a.NodeSig1, a.NodeSig2, a.BitcoinSig1, a.BitcoinSig2}
	keys := [4][33]byte{a.NodeID1, a.NodeID2, a.BitcoinKey1, a.BitcoinKey2}
	for i := range sigs {
		out[i] = c20Verifies(sigs[i], h, keys[i])
	}
	return out
}

func c20Verifies(s lnwire.Sig, digest []byte, key [33]byte) int {
	sig, err := s.ToSignature()
	if err != nil {
		return 0
	}
	pk, err := btcec.ParsePubKey(key[:])
	if err != nil {
		return 0
	}
	if sig.Verify(digest, pk) {
		return 1
	}
	return 0
}

// ------------------------------------------------------------- projection

type c20PRel struct {
	T string `json:"t"` // CA, or ??<type> for anything else
	C int    `json:"c"` // own channel of the announcement (0: none of ours)
	V [4]int `json:"v"` // which of its signatures verify
}

type c20PGraph struct {
	Ed  [2]int    `json:"ed"`  // own channel o: 0 not in the graph, 1 without proof, 2 with proof
	Pv  [2][4]int `json:"pv"`  // the stored proof: which signatures verify over the rebuilt announcement
	Wl  [3][3]int `json:"wl"`  // local half waiting (o = 1, 2, unknown): present, node sig ok, bitcoin sig ok
	Wr  [3][3]int `json:"wr"`  // remote half waiting
	Nch int       `json:"nch"` // channels in the graph
	Rj  [2]int    `json:"rj"`  // reject cache entry (own channel o, the relaying peer)
}

type c20PLine struct {
	A    string    `json:"a"`
	M    c20PMsg   `json:"m"`
	Res  string    `json:"res"`
	Err  string    `json:"err"`
	G    c20PGraph `json:"g"`
	Rel  []c20PRel `json:"rel"`
	Name string    `json:"name"`
}

var c20NoPMsg = c20PMsg{T: "-", Side: "-", Bad: "-", From: "-"}

type c20PEnv struct {
	*c20Env
	prel []c20PRel
}

func (e *c20PEnv) half(c int, remote bool) [3]int {
	key := channeldb.NewWaitingProof(remote, &lnwire.AnnounceSignatures1{ShortChannelID: c20OwnScid(c)}).Key()
	p, err := e.wps.Get(key)
	if err != nil || p == nil {
		return [3]int{}
	}
	out := [3]int{1, 0, 0}
	v1, ok := p.WaitingProofInner.(*channeldb.V1WaitingProof)
	if !ok || (c != 1 && c != 2) {
		return out
	}
	// the keys of the side the half is filed under
	ca := c20OwnCA(c)
	_, _, selfFirst := c20OwnNodes(c)
	first := !remote == selfFirst
	nk, bk := ca.NodeID2, ca.BitcoinKey2
	if first {
		nk, bk = ca.NodeID1, ca.BitcoinKey1
	}
	data, _ := ca.DataToSign()
	h := chainhash.DoubleHashB(data)
	out[1] = c20Verifies(v1.NodeSignature, h, nk)
	out[2] = c20Verifies(v1.BitcoinSignature, h, bk)
	return out
}

func (e *c20PEnv) projectProof() c20PGraph {
	var g c20PGraph
	for o := 1; o <= 2; o++ {
		info, p1, p2, err := e.graph.GetChannelByID(c20OwnScid(o))
		if err == nil && info != nil {
			g.Ed[o-1] = 1
			if info.AuthProof != nil {
				g.Ed[o-1] = 2
				if ann, _, _, err := netann.CreateChanAnnouncement(info, p1, p2); err == nil {
					g.Pv[o-1] = c20SigBits(ann)
				}
			}
		}
	}
	for i, c := range []int{1, 2, 9} {
		g.Wl[i], g.Wr[i] = e.half(c, false), e.half(c, true)
	}
	for o := 1; o <= 2; o++ {
		key := newRejectCacheKey(lnwire.GossipVersion1, c20OwnScid(o).ToUint64(), c20Pub33(c20PeerKey["p1"]))
		if _, err := e.g.recentRejects.Get(key); err == nil {
			g.Rj[o-1] = 1
		}
	}
	vg := graphdb.NewVersionedGraph(e.cg, lnwire.GossipVersion1)
	_ = vg.ForEachChannel(context.Background(), func(*models.ChannelEdgeInfo, *models.ChannelEdgePolicy,
		*models.ChannelEdgePolicy) error {

		g.Nch++
		return nil
	}, func() { g.Nch = 0 })
	return g
}

// drainProof collects what has reached the Broadcast callback so far.
func (e *c20PEnv) drainProof() {
	for {
		select {
		case m := <-e.bcast:
			r := c20PRel{T: "??" + m.MsgType().String()}
			if ca, ok := m.(*lnwire.ChannelAnnouncement1); ok {
				r.T, r.V = "CA", c20SigBits(ca)
				for o := 1; o <= 2; o++ {
					if ca.ShortChannelID == c20OwnScid(o) {
						r.C = o
					}
				}
			}
			e.prel = append(e.prel, r)
		default:
			return
		}
	}
}

func (e *c20PEnv) rel() []c20PRel {
	out := make([]c20PRel, len(e.prel))
	copy(out, e.prel)
	return out
}

func (e *c20PEnv) settleProof() {
	quiet := 0
	for quiet < 3 {
		n := len(e.prel)
		time.Sleep(e.trickle + e.trickle/2)
		e.drainProof()
		if len(e.prel) == n {
			quiet++
		} else {
			quiet = 0
		}
	}
}

// step executes one schedule entry and appends its trace line.
func (e *c20PEnv) step(m c20PMsg, out *[]c20PLine) {
	line := c20PLine{M: m}
	wait := func(res, es string, done bool) {
		if !done {
			res = "timeout"
		}
		line.Res, line.Err = res, es
	}
	switch m.T {
	case "LC":
		line.A = "LocalChan"
		e.chain.setModeAt(c20OwnScid(m.C).BlockHeight, "ok")
		fut := e.g.ProcessLocalAnnouncement(c20OwnCA(m.C))
		wait(c20Poll(fut, c20Wait()))
	case "AS":
		line.A = "AnnSig"
		local := m.Side == "local"
		as := c20Half(m.C, local, m.Bad)
		if local {
			fut := e.g.ProcessLocalAnnouncement(as)
			wait(c20Poll(fut, c20Wait()))
		} else {
			pk := c20Stranger.PubKey()
			if m.From == "party" {
				o := m.C
				if o != 1 && o != 2 {
					o = 1
				}
				n1, n2, selfFirst := c20OwnNodes(o)
				pk = n1.PubKey()
				if selfFirst {
					pk = n2.PubKey()
				}
			}
			peer := &mockPeer{pk, nil, nil, atomic.Bool{}}
			fut := e.g.ProcessRemoteAnnouncement(context.Background(), as, peer)
			wait(c20Poll(fut, c20Wait()))
		}
	case "RC":
		line.A = "RemoteChan"
		ca := c20OwnCA(m.C)
		switch m.Bad {
		case "none":
		case "nsig":
			c20FlipSig(&ca.NodeSig2)
		case "bsig":
			c20FlipSig(&ca.BitcoinSig1)
		default:
			panic("c20: unknown announcement corruption " + m.Bad)
		}
		e.chain.setModeAt(c20OwnScid(m.C).BlockHeight, "ok")
		peer := &mockPeer{c20PeerKey["p1"].PubKey(), nil, nil, atomic.Bool{}}
		fut := e.g.ProcessRemoteAnnouncement(context.Background(), ca, peer)
		wait(c20Poll(fut, c20Wait()))
	case "RS":
		line.A, line.Res = "Restart", "ok"
		e.g.Stop()
		e.startGossiper()
	default:
		panic("c20: unknown proof schedule entry " + m.T)
	}
	e.drainProof()
	line.G, line.Rel = e.projectProof(), e.rel()
	*out = append(*out, line)
}

func c20RunProofTrace(t testing.TB, name string, sched []c20PMsg, trickle time.Duration) []c20PLine {
	backend, cleanup, err := kvdb.GetTestBackend(t.TempDir(), "wps")
	if err != nil {
		t.Fatal(err)
	}
	defer cleanup()
	e := &c20PEnv{c20Env: c20NewEnvWith(t, "builder", trickle, backend, func(e *c20Env) {
		e.chain.best = c20OwnBest
		// the channel database knows our two channels, each with its counterparty
		e.find = func(node *btcec.PublicKey, id lnwire.ChannelID) (*chanstate.OpenChannel, error) {
			for o := 1; o <= 2; o++ {
				n1, n2, _ := c20OwnNodes(o)
				if id == c20OwnChanID(o) && (node.IsEqual(n1.PubKey()) || node.IsEqual(n2.PubKey())) {
					return nil, nil
				}
			}
			return nil, fmt.Errorf("channel %v with peer %x not found", id, node.SerializeCompressed())
		}
	})}
	defer e.close()
	out := []c20PLine{{A: "Reset", M: c20NoPMsg, Rel: []c20PRel{}, Name: name}}
	for _, m := range sched {
		e.step(m, &out)
	}
	e.settleProof()
	out = append(out, c20PLine{A: "End", M: c20NoPMsg, G: e.projectProof(), Rel: e.rel()})
	return out
}

// TestVerifC20Proof replays the TLC-generated behaviours of GossipProof
// (VERIF_SCHED/b_*.ndjson) and the systematic sweep VERIF_SCHED/pairs.ndjson.
func TestVerifC20Proof(t *testing.T) {
	w := verifkit.MustWriter(filepath.Join(verifkit.Env("VERIF_OUT", "."), "trace.ndjson"))
	defer w.Close()
	trickle := c20Trickle()
	dir := os.Getenv("VERIF_SCHED")
	if dir == "" {
		t.Fatal("no schedules (VERIF_SCHED)")
	}
	var jobs []c20Pair
	for _, f := range verifkit.ListFiles(dir, "b_", ".ndjson") {
		sched, err := verifkit.ReadNDJSONInto[c20PMsg](f)
		if err != nil {
			t.Fatal(err)
		}
		jobs = append(jobs, c20Pair{Name: filepath.Base(f), Sched: sched})
	}
	pairs, err := verifkit.ReadNDJSONInto[c20Pair](filepath.Join(dir, "pairs.ndjson"))
	if err != nil {
		t.Fatal(err)
	}
	mod, pick := verifkit.EnvInt("VERIF_SWEEP_MOD", 1), verifkit.EnvInt("VERIF_SWEEP_PICK", 0)
	for i, p := range pairs {
		// the (few) schedules with the announcement from the network always run
		if i%mod == pick%mod || strings.HasPrefix(p.Name, "remote:") {
			jobs = append(jobs, p)
		}
	}
	workers := verifkit.EnvInt("VERIF_WORKERS", 4)
	results := make([][]c20PLine, len(jobs))
	var next int64 = -1
	var wg sync.WaitGroup
	for i := 0; i < workers; i++ {
		wg.Add(1)
		go func() {
			defer wg.Done()
			for {
				j := int(atomic.AddInt64(&next, 1))
				if j >= len(jobs) {
					return
				}
				results[j] = c20RunProofTrace(t, jobs[j].Name, jobs[j].Sched, trickle)
			}
		}()
	}
	wg.Wait()
	for _, r := range results {
		for _, l := range r {
			w.Emit(l)
		}
	}
	t.Logf("c20 proof: %d traces, %d lines", len(jobs), w.Lines())
}
