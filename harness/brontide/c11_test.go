//go:build verif

package brontide

import (
	"crypto/sha256"
	"encoding/binary"
	"encoding/hex"
	"errors"
	"fmt"
	"io"
	"math/rand"
	"net"
	"os"
	"strings"
	"sync"
	"testing"
	"time"

	"github.com/btcsuite/btcd/btcec/v2"
	"github.com/lightningnetwork/lnd/internal/verifkit"
	"github.com/lightningnetwork/lnd/keychain"
	"github.com/lightningnetwork/lnd/lnwire"
)

// c11Event is one step of a Transport behaviour (spec/Transport/TransportGen.tla).
type c11Event struct {
	A    string `json:"a"`
	M    string `json:"m"`
	D    string `json:"d"`
	Kind string `json:"kind"`
	Size int    `json:"size"`
	V    int    `json:"v"`
	K    int    `json:"k"`
	O1   int    `json:"o1"`
	O2   int    `json:"o2"`
	O3   int    `json:"o3"`
	Cuts []int  `json:"cuts"`
}

type c11Timeout struct{}

func (c11Timeout) Error() string   { return "i/o timeout" }
func (c11Timeout) Timeout() bool   { return true }
func (c11Timeout) Temporary() bool { return true }

// c11Pipe is the byte stream of one direction, owned by the adversary.
type c11Pipe struct {
	buf    []byte
	closed bool       // the stream has ended: later bytes of the writer go nowhere
	cur    []byte     // bytes consumed by the ReadMessage call in progress
	tape   []byte     // the bytes of the last message that was delivered
	frag   *rand.Rand // when set, Read hands out a random non-empty part of what it could
}

// Read hands out what is there and reports EOF (the end of the stream) when
// nothing is left.
func (p *c11Pipe) Read(b []byte) (int, error) {
	if len(p.buf) == 0 {
		p.closed = true
		return 0, io.EOF
	}
	if p.frag != nil && len(b) > 1 && len(p.buf) > 1 {
		m := len(b)
		if len(p.buf) < m {
			m = len(p.buf)
		}
		b = b[:1+p.frag.Intn(m)]
	}
	n := copy(b, p.buf)
	p.cur = append(p.cur, p.buf[:n]...)
	p.buf = p.buf[n:]
	return n, nil
}

func (p *c11Pipe) put(b []byte) {
	if !p.closed {
		p.buf = append(p.buf, b...)
	}
}

// c11Writer accepts `budget` more bytes and then times out.
type c11Writer struct {
	p      *c11Pipe
	budget int
	calls  int
	second func() // called when Flush makes its second Write (the body), before any byte of it is accepted
}

func (w *c11Writer) Write(b []byte) (int, error) {
	w.calls++
	if w.calls == 2 && w.second != nil {
		w.second()
	}
	if w.budget >= len(b) {
		w.budget -= len(b)
		w.p.put(b)
		return len(b), nil
	}
	n := w.budget
	w.budget = 0
	w.p.put(b[:n])
	return n, c11Timeout{}
}

func c11Class(err error) string {
	var te c11Timeout
	switch {
	case err == nil:
		return ""
	case errors.Is(err, ErrMaxMessageLengthExceeded):
		return "toolong"
	case errors.Is(err, ErrMessageNotFlushed):
		return "notflushed"
	case errors.As(err, &te):
		return "timeout"
	case errors.Is(err, io.EOF), errors.Is(err, io.ErrUnexpectedEOF):
		return "short"
	case strings.Contains(err.Error(), "message authentication failed"):
		return "mac"
	case strings.Contains(err.Error(), "invalid handshake version"):
		return "ver"
	}
	return "other"
}

func c11Hash(b []byte) string {
	h := sha256.Sum256(b)
	return hex.EncodeToString(h[:5])
}

// c11Net is the net.Conn under a brontide.Conn: reads from one pipe, writes to the other.
type c11Net struct{ rd, wr *c11Pipe }

func (c *c11Net) Read(b []byte) (int, error)       { return c.rd.Read(b) }
func (c *c11Net) Write(b []byte) (int, error)      { c.wr.put(b); return len(b), nil }
func (c *c11Net) Close() error                     { return nil }
func (c *c11Net) LocalAddr() net.Addr              { return nil }
func (c *c11Net) RemoteAddr() net.Addr             { return nil }
func (c *c11Net) SetDeadline(time.Time) error      { return nil }
func (c *c11Net) SetReadDeadline(time.Time) error  { return nil }
func (c *c11Net) SetWriteDeadline(time.Time) error { return nil }

// c11Session is two real Machines and the wire between them.
type c11Session struct {
	t     *testing.T
	rng   *rand.Rand
	out   *verifkit.Writer
	m     map[string]*Machine
	bPriv *btcec.PrivateKey
	aPub  *btcec.PublicKey
	act   []byte
	pipe  map[string]*c11Pipe
	hsErr bool
	hs    []string // chunk hashes of the last Conn.Write
	nev   int
	last  string // error class of the last call
	conn  map[string]*Conn
	acc   map[string][]byte // bytes handed out by Conn.Read since it last took bytes off the wire
	// what the caller of ReadMessage / ReadBody still holds: the very slices it was handed
	held map[string][][]byte
	hh   []string // their hashes, recomputed by Recheck
	// calls stopped in the middle (the goroutine of the half is parked): WriteMessage after it has staged
	// the length, Flush between its two Writes; and the length ReadHeader returned to a caller that has
	// not called ReadBody yet
	wp, fp  map[string]*c11Parked
	rplen   map[string]int
	viaConn bool // ReadMessage through Conn.ReadNextMessage
}

// c11Parked is a call of one half of a Machine stopped at a scheduling point.
type c11Parked struct {
	resume, done chan struct{}
	n            int
	err          error
}

func c11New(t *testing.T, rng *rand.Rand, out *verifkit.Writer) *c11Session {
	return &c11Session{t: t, rng: rng, out: out, m: map[string]*Machine{},
		pipe: map[string]*c11Pipe{"ab": {}, "ba": {}}, conn: map[string]*Conn{}, acc: map[string][]byte{}, hs: []string{},
		held: map[string][][]byte{}, hh: []string{}, wp: map[string]*c11Parked{}, fp: map[string]*c11Parked{},
		rplen: map[string]int{}}
}

// cn is the brontide.Conn around machine m (reads from the pipe towards m, writes to the pipe from m).
func (s *c11Session) cn(m string) *Conn {
	if c := s.conn[m]; c != nil && c.noise == s.m[m] {
		return c
	}
	d := c11Dir(m)
	s.conn[m] = &Conn{conn: &c11Net{rd: s.pipe[c11Other(d)], wr: s.pipe[d]}, noise: s.m[m]}
	return s.conn[m]
}

// finish lets every parked call run to its end (nothing is recorded any more).
func (s *c11Session) finish() {
	for _, mp := range []map[string]*c11Parked{s.wp, s.fp} {
		for k, ps := range mp {
			close(ps.resume)
			<-ps.done
			delete(mp, k)
		}
	}
}

func btoi(b bool) int {
	if b {
		return 1
	}
	return 0
}

func c11Dir(m string) string {
	if m == "A" {
		return "ab"
	}
	return "ba"
}

func c11Other(d string) string {
	if d == "ab" {
		return "ba"
	}
	return "ab"
}

func c11Reader(d string) string {
	if d == "ab" {
		return "B"
	}
	return "A"
}

func (s *c11Session) key() *btcec.PrivateKey {
	var b [32]byte
	s.rng.Read(b[:])
	b[0] &= 0x7f
	b[31] |= 1
	k, _ := btcec.PrivKeyFromBytes(b[:])
	return k
}

// emit writes the event, what the call answered and the projection of both
// machines and both pipes after it.  Field copies only.
func (s *c11Session) emit(ev c11Event, err string, nn int, h string) {
	rec := verifkit.Rec{"a": ev.A, "m": ev.M, "d": ev.D, "kind": ev.Kind, "size": ev.Size, "v": ev.V,
		"k": ev.K, "o1": ev.O1, "o2": ev.O2, "o3": ev.O3, "h": h, "err": err, "nn": nn,
		"Lab": len(s.pipe["ab"].buf), "Lba": len(s.pipe["ba"].buf), "hs": s.hs, "hh": s.hh, "cuts": ev.Cuts, "rpk": 0}
	if ev.Cuts == nil {
		rec["cuts"] = []int{}
	}
	if b := s.m["B"]; b != nil && b.remoteStatic != nil && s.aPub != nil && b.remoteStatic.IsEqual(s.aPub) {
		rec["rpk"] = 1
	}
	s.hs, s.hh = []string{}, []string{}
	for _, n := range []string{"A", "B"} {
		m := s.m[n]
		if m == nil {
			rec[n+"hl"], rec[n+"bl"], rec[n+"sn"], rec[n+"rn"], rec[n+"sk"], rec[n+"rk"] = 0, 0, 0, 0, "", ""
			continue
		}
		rec[n+"hl"] = len(m.nextHeaderSend)
		rec[n+"bl"] = len(m.nextBodySend)
		rec[n+"sn"] = int(m.sendCipher.nonce)
		rec[n+"rn"] = int(m.recvCipher.nonce)
		rec[n+"sk"] = c11Hash(m.sendCipher.secretKey[:])
		rec[n+"rk"] = c11Hash(m.recvCipher.secretKey[:])
	}
	s.out.Emit(rec)
	s.nev++
	s.last = err
}

func (s *c11Session) payload(size, v int) []byte {
	p := make([]byte, size)
	if size == 2 && v >= 0 {
		binary.BigEndian.PutUint16(p, uint16(v))
		return p
	}
	s.rng.Read(p)
	return p
}

func (s *c11Session) rng8(lo, hi int) int { // uniform in [lo, hi]
	if hi <= lo {
		return lo
	}
	return lo + s.rng.Intn(hi-lo+1)
}

func (s *c11Session) alter(act []byte, kind string) {
	switch kind {
	case "ver":
		act[0] ^= byte(1 + s.rng.Intn(255))
	case "eph":
		copy(act[1:34], s.key().PubKey().SerializeCompressed())
	case "badpt":
		act[1] = 0x07
	case "tag":
		act[len(act)-1-s.rng.Intn(16)] ^= 1 << uint(s.rng.Intn(8))
	case "ct":
		act[1+s.rng.Intn(49)] ^= 1 << uint(s.rng.Intn(8))
	default:
		s.t.Fatalf("alter kind %q", kind)
	}
}

// apply executes one event on the real code.
func (s *c11Session) apply(ev c11Event) {
	switch ev.A {
	case "GenActOne":
		aPriv, bPriv := s.key(), s.key()
		s.bPriv = bPriv
		s.aPub = aPriv.PubKey()
		target := bPriv.PubKey()
		if ev.Kind == "wrong" {
			target = s.key().PubKey()
		}
		s.m["A"] = NewBrontideMachine(true, &keychain.PrivKeyECDH{PrivKey: aPriv}, target)
		s.m["B"] = NewBrontideMachine(false, &keychain.PrivKeyECDH{PrivKey: bPriv}, nil)
		a, err := s.m["A"].GenActOne()
		s.act = a[:]
		s.emit(ev, c11Class(err), 0, "")

	case "OldActOne":
		// act one of another session (other initiator, other ephemeral) with the same responder
		o := NewBrontideMachine(true, &keychain.PrivKeyECDH{PrivKey: s.key()}, s.bPriv.PubKey())
		a, err := o.GenActOne()
		if err != nil {
			s.t.Fatal(err)
		}
		s.act = a[:]
		s.emit(ev, "", 0, "")

	case "FragmentAct":
		// the Machine API takes whole acts: fragmentation only exists under Dial / Listener (dial mode)
		s.emit(ev, "", 0, "")

	case "AlterAct":
		s.alter(s.act, ev.Kind)
		s.emit(ev, "", 0, "")

	case "RecvActOne":
		var a [ActOneSize]byte
		copy(a[:], s.act)
		err := s.m["B"].RecvActOne(a)
		s.hsClass(ev, err)
	case "GenActTwo":
		a, err := s.m["B"].GenActTwo()
		s.act = a[:]
		s.emit(ev, c11Class(err), 0, "")
	case "RecvActTwo":
		var a [ActTwoSize]byte
		copy(a[:], s.act)
		err := s.m["A"].RecvActTwo(a)
		s.hsClass(ev, err)
	case "GenActThree":
		a, err := s.m["A"].GenActThree()
		s.act = a[:]
		s.emit(ev, c11Class(err), 0, "")
	case "RecvActThree":
		var a [ActThreeSize]byte
		copy(a[:], s.act)
		err := s.m["B"].RecvActThree(a)
		s.hsClass(ev, err)

	case "Write":
		p := s.payload(ev.Size, ev.V)
		err := s.m[ev.M].WriteMessage(p)
		s.emit(ev, c11Class(err), 0, c11Hash(p))

	case "Flush":
		w := &c11Writer{p: s.pipe[c11Dir(ev.M)], budget: ev.K}
		n, err := s.m[ev.M].Flush(w)
		s.emit(ev, c11Class(err), n, "")

	case "Read":
		p := s.pipe[ev.D]
		p.cur = p.cur[:0]
		var got []byte
		var err error
		if s.viaConn {
			got, err = s.cn(c11Reader(ev.D)).ReadNextMessage()
		} else {
			got, err = s.m[c11Reader(ev.D)].ReadMessage(p)
		}
		h := ""
		if err == nil {
			h = c11Hash(got)
			p.tape = append(p.tape[:0], p.cur...)
			s.held[ev.D] = append(s.held[ev.D], got) // the caller keeps what it was handed
		}
		ev.Size = len(got)
		s.emit(ev, c11Class(err), 0, h)

	case "RHeader": // Conn.ReadNextHeader
		p := s.pipe[ev.D]
		p.cur = p.cur[:0]
		r := c11Reader(ev.D)
		plen, err := s.cn(r).ReadNextHeader()
		s.rplen[r] = -1
		if err == nil {
			s.rplen[r] = int(plen)
		}
		s.emit(ev, c11Class(err), int(plen), "")

	case "RBody": // Conn.ReadNextBody with a buffer of the length ReadNextHeader returned
		p := s.pipe[ev.D]
		r := c11Reader(ev.D)
		if s.rplen[r] <= 0 {
			panic(c11Diverged{fmt.Sprintf("event %+v: no header read", ev)})
		}
		got, err := s.cn(r).ReadNextBody(make([]byte, s.rplen[r]))
		s.rplen[r] = -1
		h := ""
		if err == nil {
			h = c11Hash(got)
			p.tape = append(p.tape[:0], p.cur...)
			s.held[ev.D] = append(s.held[ev.D], got)
		}
		ev.Size = len(got)
		s.emit(ev, c11Class(err), 0, h)

	case "Recheck": // the caller looks again at the slices it was handed
		for _, b := range s.held[ev.D] {
			s.hh = append(s.hh, c11Hash(b))
		}
		s.emit(ev, "", 0, "")

	case "Release":
		if len(s.held[ev.D]) == 0 {
			panic(c11Diverged{fmt.Sprintf("event %+v: nothing held", ev)})
		}
		s.held[ev.D] = nil
		s.emit(ev, "", 0, "")

	case "WStage":
		// WriteMessage up to the point where it fetches its header buffer from the pool (the length of the
		// message is staged, nothing is encrypted yet); the goroutine of the write half is parked there
		p := s.payload(ev.Size, ev.V)
		ps := &c11Parked{resume: make(chan struct{}), done: make(chan struct{})}
		parked := make(chan struct{})
		orig := headerBufferPool
		var once sync.Once
		headerBufferPool = &sync.Pool{New: func() interface{} {
			once.Do(func() {
				close(parked)
				<-ps.resume
			})
			b := make([]byte, 0, encHeaderSize)
			return &b
		}}
		mach := s.m[ev.M]
		go func() {
			ps.err = mach.WriteMessage(p)
			close(ps.done)
		}()
		select {
		case <-parked:
			headerBufferPool = orig
			s.wp[ev.M] = ps
			s.emit(ev, "", 0, c11Hash(p))
		case <-ps.done:
			headerBufferPool = orig
			s.emit(ev, c11Class(ps.err), 0, c11Hash(p))
		}

	case "WEnc": // the parked WriteMessage runs to its end
		ps := s.wp[ev.M]
		if ps == nil {
			panic(c11Diverged{fmt.Sprintf("event %+v: no WriteMessage in progress", ev)})
		}
		delete(s.wp, ev.M)
		close(ps.resume)
		<-ps.done
		s.emit(ev, c11Class(ps.err), 0, "")

	case "FlushHdr":
		// Flush up to its second Write on the wire (the header is out, the body is not); a Flush that
		// ends before (header not completely accepted) is recorded as it ended
		mach := s.m[ev.M]
		if len(mach.nextHeaderSend) == 0 {
			panic(c11Diverged{fmt.Sprintf("event %+v: no header bytes pending", ev)})
		}
		ps := &c11Parked{resume: make(chan struct{}), done: make(chan struct{})}
		parked := make(chan struct{})
		w := &c11Writer{p: s.pipe[c11Dir(ev.M)], budget: ev.K, second: func() {
			close(parked)
			<-ps.resume
		}}
		go func() {
			ps.n, ps.err = mach.Flush(w)
			close(ps.done)
		}()
		select {
		case <-parked:
			s.fp[ev.M] = ps
			s.emit(ev, "", 0, "")
		case <-ps.done:
			s.emit(ev, c11Class(ps.err), ps.n, "")
		}

	case "FlushBody":
		ps := s.fp[ev.M]
		if ps == nil {
			panic(c11Diverged{fmt.Sprintf("event %+v: no Flush in progress", ev)})
		}
		delete(s.fp, ev.M)
		close(ps.resume)
		<-ps.done
		s.emit(ev, c11Class(ps.err), ps.n, "")

	case "Corrupt":
		p := s.pipe[ev.D]
		s.rangeOk(ev, ev.O1, 1, len(p.buf))
		p.buf[ev.O1] ^= byte(1 + s.rng.Intn(255))
		s.emit(ev, "", 0, "")
	case "Truncate":
		p := s.pipe[ev.D]
		s.rangeOk(ev, 0, ev.O1, len(p.buf))
		p.buf = p.buf[:len(p.buf)-ev.O1]
		p.closed = true
		s.emit(ev, "", 0, "")
	case "Drop":
		p := s.pipe[ev.D]
		s.rangeOk(ev, ev.O1, ev.O2, len(p.buf))
		p.buf = append(append([]byte{}, p.buf[:ev.O1]...), p.buf[ev.O1+ev.O2:]...)
		s.emit(ev, "", 0, "")
	case "Swap":
		p := s.pipe[ev.D]
		s.rangeOk(ev, ev.O1, ev.O2+ev.O3, len(p.buf))
		nb := append([]byte{}, p.buf[:ev.O1]...)
		nb = append(nb, p.buf[ev.O1+ev.O2:ev.O1+ev.O2+ev.O3]...)
		nb = append(nb, p.buf[ev.O1:ev.O1+ev.O2]...)
		nb = append(nb, p.buf[ev.O1+ev.O2+ev.O3:]...)
		p.buf = nb
		s.emit(ev, "", 0, "")
	case "Replay":
		p := s.pipe[ev.D]
		s.rangeOk(ev, ev.O1, ev.O2, len(p.buf))
		s.rangeOk(ev, ev.O3, 0, len(p.buf))
		p.buf = c11Insert(p.buf, ev.O3, p.buf[ev.O1:ev.O1+ev.O2])
		s.emit(ev, "", 0, "")
	case "ReplayOld":
		p := s.pipe[ev.D]
		s.rangeOk(ev, ev.O1, 0, len(p.buf))
		if len(p.tape) == 0 {
			s.t.Fatalf("ReplayOld without a delivered message")
		}
		p.buf = c11Insert(p.buf, ev.O1, p.tape)
		s.emit(ev, "", 0, "")
	case "Reflect":
		p, q := s.pipe[ev.D], s.pipe[c11Other(ev.D)]
		s.rangeOk(ev, ev.O1, ev.O2, len(p.buf))
		s.rangeOk(ev, ev.O3, 0, len(q.buf))
		q.buf = c11Insert(q.buf, ev.O3, p.buf[ev.O1:ev.O1+ev.O2])
		s.emit(ev, "", 0, "")

	case "CWrite":
		p := s.payload(ev.Size, ev.V)
		for o := 0; o == 0 || o < len(p); o += 65535 {
			e := o + 65535
			if e > len(p) {
				e = len(p)
			}
			s.hs = append(s.hs, c11Hash(p[o:e]))
		}
		n, err := s.cn(ev.M).Write(p)
		s.emit(ev, c11Class(err), n, "")

	case "CRead":
		c := s.cn(ev.M)
		p := s.pipe[ev.D]
		p.cur = p.cur[:0]
		buf := make([]byte, ev.K)
		n, err := c.Read(buf)
		if len(p.cur) > 0 {
			// this call took bytes off the wire: what it hands out starts a new message
			s.acc[ev.M] = s.acc[ev.M][:0]
		}
		s.acc[ev.M] = append(s.acc[ev.M], buf[:n]...)
		h := ""
		if err == nil {
			// everything handed out since Conn last went to the wire (the trace spec knows when that is a whole message)
			h = c11Hash(s.acc[ev.M])
		}
		if len(p.cur) > 0 && err == nil {
			p.tape = append(p.tape[:0], p.cur...)
		}
		s.emit(ev, c11Class(err), n, h)

	case "Burst":
		s.burst(ev.D, ev.O1*(keyRotationInterval/2)+ev.O2, ev.Size)

	default:
		s.t.Fatalf("unknown event %q", ev.A)
	}
}

func (s *c11Session) hsClass(ev c11Event, err error) {
	c := c11Class(err)
	if c == "other" {
		c = "point"
	}
	if err != nil {
		s.hsErr = true
	}
	s.emit(ev, c, 0, "")
}

// c11Diverged: the bytes really in flight no longer match what the schedule
// was generated for (the model's pipe) - the recorded projection of an earlier
// step already differs from the model's, so the session ends here and TLC
// judges the recorded prefix. Never a verdict by itself.
type c11Diverged struct{ msg string }

var c11Divergences int

func (s *c11Session) rangeOk(ev c11Event, off, n, total int) {
	if off < 0 || n < 0 || off+n > total {
		panic(c11Diverged{fmt.Sprintf("event %+v: range [%d,+%d) outside the %d bytes in flight", ev, off, n, total)})
	}
}

// applySched applies one event of a generated schedule; false = the real pipe
// has diverged from the schedule's and the session must stop.
func (s *c11Session) applySched(ev c11Event) (ok bool) {
	defer func() {
		if r := recover(); r != nil {
			d, is := r.(c11Diverged)
			if !is {
				panic(r)
			}
			c11Divergences++
			s.t.Logf("C11-DIVERGED %s", d.msg)
			ok = false
		}
	}()
	s.apply(ev)
	return true
}

func c11Insert(buf []byte, at int, ins []byte) []byte {
	nb := append([]byte{}, buf[:at]...)
	nb = append(nb, ins...)
	return append(nb, buf[at:]...)
}

// burst: cnt messages written, flushed (sometimes in pieces) and read one
// after the other; the last one has lastSize bytes.
func (s *c11Session) burst(d string, cnt, lastSize int) {
	m := "A"
	if d == "ba" {
		m = "B"
	}
	special := []int{0, 1, 2, 3, 15, 16, 17, 18, 255, 256, 1000, 65534, 65535}
	for i := 1; i <= cnt; i++ {
		size := s.rng.Intn(64)
		switch r := s.rng.Intn(200); {
		case i == cnt:
			size = lastSize
		case r == 0:
			size = 65535
		case r < 20:
			size = special[s.rng.Intn(len(special))]
		case r < 24:
			size = s.rng.Intn(65536)
		}
		v := -1
		if i == cnt && size == 2 {
			v = 0
		}
		s.apply(c11Event{A: "Write", M: m, D: d, Size: size, V: v})
		total := encHeaderSize + size + macSize
		if s.rng.Intn(4) == 0 {
			for n := s.rng.Intn(3); n >= 0; n-- {
				s.apply(c11Event{A: "Flush", M: m, D: d, K: s.rng.Intn(total)})
			}
		}
		s.apply(c11Event{A: "Flush", M: m, D: d, K: total})
		s.apply(c11Event{A: "Read", M: c11Reader(d), D: d})
		// the reader keeps what it is handed, looks at all of it again every 50 messages and drops it
		if (i%50 == 0 || i == cnt) && len(s.held[d]) > 0 {
			s.apply(c11Event{A: "Recheck", M: c11Reader(d), D: d})
			s.apply(c11Event{A: "Release", M: c11Reader(d), D: d})
		}
	}
}

// TestVerifC11Transport replays TLC-generated behaviours of spec/Transport on
// two real brontide Machines over scripted byte pipes.  No judgement here:
// TransportTrace.tla is the judge.
func TestVerifC11Transport(t *testing.T) {
	dir := os.Getenv("VERIF_SCHED")
	out := verifkit.MustWriter(verifkit.Env("VERIF_OUT", ".") + "/trace.ndjson")
	defer out.Close()
	files := verifkit.ListFiles(dir, "b_", ".ndjson")
	if len(files) == 0 {
		t.Fatalf("no schedules in %q", dir)
	}
	maxBursts := verifkit.EnvInt("VERIF_MAXBURSTS", 1<<30)
	bursts, dialed := 0, 0
	for fi, f := range files {
		evs, err := verifkit.ReadNDJSONInto[c11Event](f)
		if err != nil {
			t.Fatal(err)
		}
		rng := rand.New(rand.NewSource(verifkit.Seed()*1000003 + int64(fi)))
		s := c11New(t, rng, out)
		s.viaConn = fi%2 == 1
		s.emit(c11Event{A: "Reset", Kind: f}, "", 0, "")
		frag := false
		for _, ev := range evs {
			frag = frag || ev.A == "FragmentAct"
		}
		// every schedule that fragments an act, and two in three of the others: the handshake
		// through the real Dial and the real Listener
		if frag || fi%3 != 2 {
			k := s.dialHandshake(evs)
			dialed += btoi(k > 0)
			evs = evs[k:]
		}
		for _, ev := range evs {
			if s.hsErr {
				// a failed handshake ends the session (the generator never goes on after one)
				break
			}
			if ev.A == "Burst" {
				bursts++
				if bursts > maxBursts {
					// budget: a burst beyond the budget shrinks to dlt+2 messages
					// (same call sequence, no rotation crossed)
					ev.O1, ev.O2 = 0, ev.O2+2
				}
			}
			if !s.applySched(ev) {
				break
			}
		}
		s.finish()
	}
	t.Logf("C11-DIVERGENCES %d", c11Divergences)
	t.Logf("C11: %d schedules (%d handshakes through Dial/Listener), %d bursts, %d lines", len(files), dialed, bursts, out.Lines())
}

// TestVerifC11Free is the free-running seeded driver: inputs the generator
// never produces - random payload sizes, arbitrary flush budgets, adversary
// moves at arbitrary byte offsets (also inside ciphertexts), several moves in a
// row - through the same apply().
func TestVerifC11Free(t *testing.T) {
	out := verifkit.MustWriter(verifkit.Env("VERIF_OUT", ".") + "/trace.ndjson")
	defer out.Close()
	sessions := verifkit.EnvInt("VERIF_SESSIONS", 40)
	steps := verifkit.EnvInt("VERIF_STEPS", 150)
	for si := 0; si < sessions; si++ {
		rng := rand.New(rand.NewSource(verifkit.Seed()*7919 + int64(si)))
		s := c11New(t, rng, out)
		s.viaConn = si%4 >= 2
		s.emit(c11Event{A: "Reset", Kind: fmt.Sprintf("free-%d", si)}, "", 0, "")
		s.cleanHandshake()
		if si%2 == 1 {
			s.pipe["ab"].frag, s.pipe["ba"].frag = rng, rng
		}
		duplex := si%3 != 0 // calls taken section by section, the other halves running in between
		advLeft := rng.Intn(5) // 0: no adversary in this session
		afterFail := 0
		for st := 0; st < steps && afterFail < 6; st++ {
			m := []string{"A", "B"}[rng.Intn(2)]
			d := c11Dir(m)
			p := s.pipe[d]
			mach := s.m[m]
			pending := len(mach.nextHeaderSend) + len(mach.nextBodySend)
			rd := c11Reader(d)
			r := rng.Intn(100)
			if r < 60 && (s.wp[m] != nil || s.fp[m] != nil) {
				// the write half of m is in the middle of a call: it can only go on with it
				if s.wp[m] != nil {
					s.apply(c11Event{A: "WEnc", M: m, D: d})
				} else {
					s.apply(c11Event{A: "FlushBody", M: m, D: d})
				}
				continue
			}
			switch {
			case r < 30:
				size := rng.Intn(80)
				switch q := rng.Intn(40); {
				case q == 0:
					size = 65535
				case q == 1:
					size = 65536 + rng.Intn(3)
				case q < 6:
					size = rng.Intn(65536)
				case q < 12:
					size = 2
				}
				v := -1
				if size == 2 {
					v = []int{0, 2, 2, 18, 300, 65535}[rng.Intn(6)]
				}
				a := "Write"
				if duplex && rng.Intn(3) == 0 {
					a = "WStage"
				}
				s.apply(c11Event{A: a, M: m, D: d, Size: size, V: v})
				if od := c11Other(d); a == "WStage" && s.wp[m] != nil && len(s.pipe[od].buf) > 0 && rng.Intn(2) == 0 {
					// the read half of the same Machine gets to run while its write half is parked
					ra := "Read"
					if s.rplen[m] > 0 {
						ra = "RBody"
					} else if rng.Intn(3) == 0 {
						ra = "RHeader"
					}
					s.apply(c11Event{A: ra, M: m, D: od})
					if s.last != "" {
						afterFail++
					}
				}
			case r < 60:
				k := pending
				if rng.Intn(2) == 0 {
					k = rng.Intn(pending + 2)
				}
				a := "Flush"
				if duplex && len(mach.nextHeaderSend) > 0 && rng.Intn(3) == 0 {
					a = "FlushHdr"
				}
				s.apply(c11Event{A: a, M: m, D: d, K: k})
			case r < 80:
				if s.rplen[rd] > 0 {
					// the read half of rd has read a header: it can only go on with the body
					s.apply(c11Event{A: "RBody", M: rd, D: d})
					if s.last != "" {
						afterFail++
					}
					continue
				}
				// mostly read complete messages; now and then an incomplete stream
				if (len(p.buf) == 0 || pending > 0) && rng.Intn(12) != 0 {
					continue
				}
				a := "Read"
				if duplex && rng.Intn(3) == 0 {
					a = "RHeader"
				}
				s.apply(c11Event{A: a, M: rd, D: d})
				if s.last != "" {
					afterFail++
				}
			case r < 87:
				if len(s.held[d]) > 0 {
					s.apply(c11Event{A: "Recheck", M: rd, D: d})
				}
			case r < 89:
				if len(s.held[d]) > 0 {
					s.apply(c11Event{A: "Release", M: rd, D: d})
				}
			default:
				if advLeft == 0 || len(p.buf) == 0 {
					continue
				}
				advLeft--
				n := len(p.buf)
				rg := func() (int, int) { // a range of >= 8 bytes (or everything)
					if n <= 8 {
						return 0, n
					}
					off := rng.Intn(n - 8)
					return off, 8 + rng.Intn(n-off-8+1)
				}
				switch rng.Intn(8) {
				case 0, 1:
					for c := rng.Intn(3); c >= 0; c-- {
						s.apply(c11Event{A: "Corrupt", D: d, O1: rng.Intn(n)})
					}
				case 2:
					if p.closed {
						continue
					}
					s.apply(c11Event{A: "Truncate", D: d, O1: rng.Intn(n + 1)})
				case 3:
					off, l := rg()
					s.apply(c11Event{A: "Drop", D: d, O1: off, O2: l})
				case 4:
					if n < 16 {
						continue
					}
					off, l := rg()
					if l < 16 {
						continue
					}
					l1 := 8 + rng.Intn(l-16+1)
					s.apply(c11Event{A: "Swap", D: d, O1: off, O2: l1, O3: l - l1})
				case 5:
					off, l := rg()
					s.apply(c11Event{A: "Replay", D: d, O1: off, O2: l, O3: rng.Intn(n + 1)})
				case 6:
					if len(p.tape) == 0 {
						continue
					}
					s.apply(c11Event{A: "ReplayOld", D: d, O1: rng.Intn(n + 1)})
				case 7:
					off, l := rg()
					s.apply(c11Event{A: "Reflect", D: d, O1: off, O2: l, O3: rng.Intn(len(s.pipe[c11Other(d)].buf) + 1)})
				}
			}
		}
		for _, d := range []string{"ab", "ba"} {
			if len(s.held[d]) > 0 {
				s.apply(c11Event{A: "Recheck", M: c11Reader(d), D: d})
			}
		}
		s.finish()
	}
	t.Logf("C11 free: %d sessions, %d lines", sessions, out.Lines())
}

func (s *c11Session) cleanHandshake() {
	for _, a := range []string{"GenActOne", "RecvActOne", "GenActTwo", "RecvActTwo", "GenActThree", "RecvActThree"} {
		ev := c11Event{A: a}
		if a == "GenActOne" {
			ev.Kind = "real"
		}
		s.apply(ev)
	}
	if s.hsErr {
		s.t.Fatalf("clean handshake failed")
	}
}

// TestVerifC11Conn drives brontide.Conn (Write with chunking above 65535
// bytes, Read through readBuf with small caller buffers) over the same pipes,
// the underlying reads fragmented at random.
func TestVerifC11Conn(t *testing.T) {
	out := verifkit.MustWriter(verifkit.Env("VERIF_OUT", ".") + "/trace.ndjson")
	defer out.Close()
	sessions := verifkit.EnvInt("VERIF_SESSIONS", 20)
	steps := verifkit.EnvInt("VERIF_STEPS", 60)
	sizes := []int{0, 1, 2, 3, 100, 65534, 65535, 65536, 65537, 131070, 131071, 150000}
	for si := 0; si < sessions; si++ {
		rng := rand.New(rand.NewSource(verifkit.Seed()*104729 + int64(si)))
		s := c11New(t, rng, out)
		s.emit(c11Event{A: "Reset", Kind: fmt.Sprintf("conn-%d", si)}, "", 0, "")
		s.cleanHandshake()
		for _, d := range []string{"ab", "ba"} {
			s.pipe[d].frag = rng
		}
		small := si%2 == 1 // messages of a few hundred bytes, each handed out in several pieces
		adv := rng.Intn(3) == 0
		fails := 0
		for st := 0; st < steps && fails < 3; st++ {
			m := []string{"A", "B"}[rng.Intn(2)]
			d := c11Dir(m)
			rd := c11Reader(d)
			p := s.pipe[d]
			switch r := rng.Intn(100); {
			case r < 35:
				size := sizes[rng.Intn(len(sizes))]
				if small || rng.Intn(3) == 0 {
					size = rng.Intn(300)
				}
				v := -1
				if size == 2 || size == 65537 {
					v = rng.Intn(400)
				}
				s.apply(c11Event{A: "CWrite", M: m, D: d, Size: size, V: v})
			case r < 95:
				if len(p.buf) == 0 && rng.Intn(3) != 0 {
					continue
				}
				want := []int{1, 2, 7, 100, 4096, 65535, 70000}[rng.Intn(7)]
				if small {
					want = []int{1, 2, 5, 7, 16, 100, 0}[rng.Intn(7)]
				}
				s.apply(c11Event{A: "CRead", M: rd, D: d, K: want})
				if s.last != "" {
					fails++
				}
			default:
				if !adv || len(p.buf) == 0 {
					continue
				}
				s.apply(c11Event{A: "Corrupt", D: d, O1: rng.Intn(len(p.buf))})
			}
		}
	}
	t.Logf("C11 conn: %d sessions, %d lines", sessions, out.Lines())
}

// c11Tap is the wire under Dial / Listener.doHandshake: one end of a net.Pipe
// whose writes (each write is one act) are altered and cut into fragments as
// the schedule says.  A fragment is one Write on the pipe, i.e. what one Read
// of the other side can get at most.
type c11Tap struct {
	net.Conn
	s    *c11Session
	acts []int // numbers of the acts this side writes, in order
	mu   *sync.Mutex
	plan map[int]*c11ActPlan
	seen map[int]bool
}

type c11ActPlan struct {
	cuts []int
	alt  string
	old  bool
}

// Setting a deadline on a TCP socket does not fail because the peer has closed; on a net.Pipe it does.
func (c *c11Tap) SetReadDeadline(t time.Time) error {
	_ = c.Conn.SetReadDeadline(t)
	return nil
}

func (c *c11Tap) Write(b []byte) (int, error) {
	c.mu.Lock()
	k := 0
	if len(c.acts) > 0 {
		k, c.acts = c.acts[0], c.acts[1:]
	}
	c.seen[k] = true
	pl := c.plan[k]
	out := append([]byte{}, b...)
	if pl != nil && pl.old {
		o := NewBrontideMachine(true, &keychain.PrivKeyECDH{PrivKey: c.s.key()}, c.s.bPriv.PubKey())
		a, _ := o.GenActOne()
		out = a[:]
	}
	if pl != nil && pl.alt != "" {
		c.s.alter(out, pl.alt)
	}
	c.mu.Unlock()
	cuts := []int{len(out)}
	if pl != nil && len(pl.cuts) > 0 {
		cuts = pl.cuts
	}
	off := 0
	for _, n := range cuts {
		// like TCP: bytes sent to a peer that has just closed are accepted locally
		_, _ = c.Conn.Write(out[off : off+n])
		off += n
	}
	return len(b), nil
}

var c11HsActs = map[string]bool{"GenActOne": true, "RecvActOne": true, "GenActTwo": true, "RecvActTwo": true,
	"GenActThree": true, "RecvActThree": true, "AlterAct": true, "OldActOne": true, "FragmentAct": true}

// dialHandshake runs the handshake prefix of a schedule through the real Dial
// and the real Listener.doHandshake over a tapped net.Pipe, and then emits the
// prefix with what was observed: an act was written (so the act before it was
// accepted), the error Dial / Accept returned, the two Machines afterwards.
// It returns the number of events consumed (0: the schedule interleaves other
// calls with the handshake; the caller replays it on the Machines directly).
func (s *c11Session) dialHandshake(evs []c11Event) int {
	n := 0
	for n < len(evs) && c11HsActs[evs[n].A] {
		n++
	}
	if n == 0 || evs[0].A != "GenActOne" {
		return 0
	}
	for _, ev := range evs[n:] {
		if c11HsActs[ev.A] {
			return 0
		}
	}
	plan := map[int]*c11ActPlan{1: {}, 2: {}, 3: {}}
	cur := 0
	for _, ev := range evs[:n] {
		switch ev.A {
		case "GenActOne":
			cur = 1
		case "GenActTwo":
			cur = 2
		case "GenActThree":
			cur = 3
		case "FragmentAct":
			plan[cur].cuts = ev.Cuts
		case "AlterAct":
			plan[cur].alt = ev.Kind
		case "OldActOne":
			plan[cur].old = true
		}
	}
	aPriv, bPriv := s.key(), s.key()
	s.bPriv, s.aPub = bPriv, aPriv.PubKey()
	target := bPriv.PubKey()
	if evs[0].Kind == "wrong" {
		target = s.key().PubKey()
	}
	cc, sc := net.Pipe()
	mu, seen := &sync.Mutex{}, map[int]bool{}
	ctap := &c11Tap{Conn: cc, s: s, acts: []int{1, 3}, mu: mu, plan: plan, seen: seen}
	stap := &c11Tap{Conn: sc, s: s, acts: []int{2}, mu: mu, plan: plan, seen: seen}
	l := &Listener{
		localStatic:   &keychain.PrivKeyECDH{PrivKey: bPriv},
		shouldAccept:  DisabledBanClosure,
		handshakeSema: make(chan struct{}, 2),
		conns:         make(chan maybeConn, 1),
		quit:          make(chan struct{}),
	}
	go l.doHandshake(stap)
	addr := &lnwire.NetAddress{IdentityKey: target, Address: &net.TCPAddr{IP: net.IPv4(127, 0, 0, 1), Port: 9735}}
	dconn, derr := Dial(&keychain.PrivKeyECDH{PrivKey: aPriv}, addr, time.Second,
		func(_, _ string, _ time.Duration) (net.Conn, error) { return ctap, nil })
	var aconn *Conn
	var aerr error
	select {
	case r := <-l.conns:
		aconn, aerr = r.conn, r.err
	case <-time.After(20 * time.Second):
		s.t.Fatalf("listener did not answer")
	}
	cc.Close()
	sc.Close()
	mu.Lock()
	defer mu.Unlock()
	if dconn != nil {
		s.m["A"] = dconn.noise
	}
	if aconn != nil {
		s.m["B"] = aconn.noise
	}
	cls := func(err error) string {
		c := c11Class(err)
		if c == "other" {
			c = "point"
		}
		return c
	}
	for _, ev := range evs[:n] {
		err := ""
		switch ev.A {
		case "GenActOne":
			if !seen[1] {
				s.t.Fatalf("act one was not written")
			}
		case "RecvActOne":
			if !seen[2] { // the listener answered nothing: it rejected act one
				err = cls(aerr)
			}
		case "RecvActTwo":
			if !seen[3] {
				err = cls(derr)
			}
		case "RecvActThree":
			if aconn == nil {
				err = cls(aerr)
			}
		}
		if err != "" {
			s.hsErr = true
		}
		s.emit(ev, err, 0, "")
	}
	return n
}
