//go:build verif

package lnwire

// C10 executor, message part.  It covers the mutation plan enumerated by TLC
// (spec/WireLaws/WireLawsGen: message type or failure code x operator x
// position class), building every input from a valid encoding of a value
// drawn from the package's own generators (RandTestMessage) resp. the
// package's onionFailures table, and records what the real codec did with
// it.  It also sweeps the whole 16-bit type/failure-code space through the
// dispatchers and probes the WriteMessage payload bound.  The value-boundary
// operators of the plan (val-int, val-bytes, val-len) are executed on the
// VALUE: the generated message / failure value is walked by reflection
// (c10Leaves: nested lnwire structs, the embedded channel_update of a failure,
// optional TLV records, unexported fields), the leaf the repetition selects
// is set to the value of the plan cell's boundary class on a deep copy, the
// copy is encoded by the real encoder and the real codec is observed on that
// encoding.  The record-level operators (rec-ins, rec-drop, rec-len) work on
// the TLV extension of the valid encoding: the bytes the decoder hands to
// ExtraOpaqueData.Decode (found by watching the reads of one decode) are taken
// apart into records, one record is inserted / removed / resized as the plan
// cell says, and the real codec is observed on fixed part + new extension; the
// extension of the re-encoding is taken apart the same way to record whether
// the inserted record is still there (rkept).
// No judgement here: spec/WireLaws/WireLawsTrace.tla decides.

import (
	"bytes"
	"crypto/sha256"
	"encoding/binary"
	"encoding/hex"
	"errors"
	"fmt"
	"io"
	"math/rand"
	"net"
	"os"
	"reflect"
	"runtime"
	"runtime/metrics"
	"sort"
	"strings"
	"sync"
	"sync/atomic"
	"testing"
	"time"
	"unsafe"

	"github.com/lightningnetwork/lnd/internal/verifkit"
	"github.com/lightningnetwork/lnd/tlv"
	"pgregory.net/rapid"
)

type c10Cell struct {
	Kind string `json:"kind"`
	T    int    `json:"t"`
	Op   string `json:"op"`
	Pos  string `json:"pos"`
	Ki   int    `json:"ki"`
	Oi   int    `json:"oi"`
	Pi   int    `json:"pi"`
}

// c10Codec is one decode/encode pair of the package.
type c10Codec struct {
	dec func(r io.Reader) (interface{}, error)
	enc func(v interface{}) ([]byte, error)
}

var c10Codecs = map[string]c10Codec{
	"msg": {
		dec: func(r io.Reader) (interface{}, error) { return ReadMessage(r, 0) },
		enc: func(v interface{}) ([]byte, error) {
			var b bytes.Buffer
			_, err := WriteMessage(&b, v.(Message), 0)
			return b.Bytes(), err
		},
	},
	"fail": {
		dec: func(r io.Reader) (interface{}, error) { return DecodeFailureMessage(r, 0) },
		enc: func(v interface{}) ([]byte, error) {
			var b bytes.Buffer
			err := EncodeFailureMessage(&b, v.(FailureMessage), 0)
			return b.Bytes(), err
		},
	},
	"pkt": {
		dec: func(r io.Reader) (interface{}, error) { return DecodeFailure(r, 0) },
		enc: func(v interface{}) ([]byte, error) {
			var b bytes.Buffer
			err := EncodeFailure(&b, v.(FailureMessage), 0)
			return b.Bytes(), err
		},
	},
}

// c10LogReader records the offset reached after every Read call: the field
// boundaries as the decoder sees them.
type c10LogReader struct {
	b    []byte
	off  int
	ends []int
	lens []int
	// ext: offset at which ExtraOpaqueData.Decode started to read the rest
	// of the message (the TLV extension); -1: it was never called
	ext int
}

// c10InExtDecode: is the current Read on the message reader issued by
// (*ExtraOpaqueData).Decode, or (pure-TLV messages, whose whole body is the
// stream) by the tlv stream decoder itself?
func c10InExtDecode() bool {
	var pcs [24]uintptr
	n := runtime.Callers(3, pcs[:])
	fr := runtime.CallersFrames(pcs[:n])
	for {
		f, more := fr.Next()
		if strings.HasSuffix(f.Function, "(*ExtraOpaqueData).Decode") ||
			strings.HasSuffix(f.Function, "tlv.(*Stream).decode") {
			return true
		}
		if !more {
			return false
		}
	}
}

func (r *c10LogReader) Read(p []byte) (int, error) {
	if r.ext < 0 && c10InExtDecode() {
		r.ext = r.off
	}
	if r.off >= len(r.b) {
		return 0, io.EOF
	}
	n := copy(p, r.b[r.off:])
	r.off += n
	r.ends = append(r.ends, r.off)
	r.lens = append(r.lens, n)
	return n, nil
}

// c10Valid is a valid encoding with its structure.
type c10Valid struct {
	val    interface{}
	b      []byte
	bounds []int // distinct read boundaries in (hdr, len(b)], ascending, always ending with len(b)
	lenOff []int // offsets of 2-byte fields whose value is the size of the next read
	twoOff []int // offsets of all 2-byte reads
	hdr    int
	ext    int      // offset of the TLV extension, -1: the message has none
	recs   []c10Rec // its records (nil if it is not a TLV stream)
	extok  bool
}

// c10Rec is one record of a TLV extension.
type c10Rec struct {
	typ uint64
	val []byte
}

func c10ParseExt(b []byte) ([]c10Rec, bool) {
	var (
		buf [8]byte
		out []c10Rec
	)
	r := bytes.NewReader(b)
	for r.Len() > 0 {
		t, err := tlv.ReadVarInt(r, &buf)
		if err != nil {
			return nil, false
		}
		l, err := tlv.ReadVarInt(r, &buf)
		if err != nil || l > uint64(r.Len()) {
			return nil, false
		}
		v := make([]byte, l)
		_, _ = io.ReadFull(r, v)
		out = append(out, c10Rec{typ: t, val: v})
	}
	return out, true
}

func c10SerExt(recs []c10Rec) []byte {
	var (
		buf [8]byte
		b   bytes.Buffer
	)
	for _, r := range recs {
		_ = tlv.WriteVarInt(&b, r.typ, &buf)
		_ = tlv.WriteVarInt(&b, uint64(len(r.val)), &buf)
		b.Write(r.val)
	}
	return b.Bytes()
}

// c10ExtOf decodes b once with the logging reader and returns where the
// decoder started to read the TLV extension and the records found there.
func c10ExtOf(kind string, b []byte) (int, []c10Rec, bool) {
	lr := &c10LogReader{b: b, ext: -1}
	func() {
		defer func() { _ = recover() }()
		_, _ = c10Codecs[kind].dec(lr)
	}()
	if lr.ext < 0 || lr.ext > len(b) {
		return -1, nil, false
	}
	recs, ok := c10ParseExt(b[lr.ext:])
	return lr.ext, recs, ok
}

func c10Seed(parts ...int) int64 {
	h := sha256.New()
	for _, p := range parts {
		var x [8]byte
		binary.BigEndian.PutUint64(x[:], uint64(int64(p)))
		h.Write(x[:])
	}
	return int64(binary.BigEndian.Uint64(h.Sum(nil)[:8]) >> 1)
}

func c10FailuresFor(code int) []FailureMessage {
	var out []FailureMessage
	for _, f := range onionFailures {
		if int(f.Code()) == code {
			out = append(out, f)
		}
	}
	if len(out) == 0 {
		// codes the package's table has no value for
		if f, err := makeEmptyOnionError(FailCode(code)); err == nil {
			out = append(out, f)
		}
	}
	return out
}

func c10MakeValid(kind string, t, rep int) (*c10Valid, error) {
	v := &c10Valid{hdr: 2}
	switch kind {
	case "msg":
		m, err := MakeEmptyMessage(MessageType(t))
		if err != nil {
			return nil, err
		}
		if _, ok := m.(TestMessage); !ok {
			return nil, fmt.Errorf("type %d has no generator", t)
		}
		gen := rapid.Custom(func(rt *rapid.T) Message {
			fresh, _ := MakeEmptyMessage(MessageType(t))
			return fresh.(TestMessage).RandTestMessage(rt)
		})
		v.val = gen.Example(int(c10Seed(int(verifkit.Seed()), t, rep) & 0x7fffffff))
	default:
		fs := c10FailuresFor(t)
		if len(fs) == 0 {
			return nil, fmt.Errorf("no failure value for code %d", t)
		}
		v.val = fs[rep%len(fs)]
		if kind == "pkt" {
			v.hdr = 0
		}
	}
	b, err := c10Codecs[kind].enc(v.val)
	if err != nil {
		return nil, fmt.Errorf("encode of generated value failed: %w", err)
	}
	v.b = b
	lr := &c10LogReader{b: b, ext: -1}
	// If the valid encoding does not decode, the read log is what it is; the
	// "valid" cell records the failure (round-trip law), nothing is hidden.
	func() {
		defer func() { _ = recover() }()
		_, _ = c10Codecs[kind].dec(lr)
	}()
	seen := map[int]bool{}
	for i, e := range lr.ends {
		if e > v.hdr && !seen[e] {
			seen[e] = true
			v.bounds = append(v.bounds, e)
		}
		if lr.lens[i] == 2 && e-2 >= v.hdr {
			v.twoOff = append(v.twoOff, e-2)
		}
		if lr.lens[i] == 2 && i+1 < len(lr.ends) {
			val := int(binary.BigEndian.Uint16(b[e-2 : e]))
			if val > 0 && lr.lens[i+1] == val {
				v.lenOff = append(v.lenOff, e-2)
			}
		}
	}
	if !seen[len(b)] {
		v.bounds = append(v.bounds, len(b))
	}
	sort.Ints(v.bounds)
	v.ext = -1
	if kind != "pkt" && lr.ext >= v.hdr && lr.ext <= len(b) {
		v.ext = lr.ext
		v.recs, v.extok = c10ParseExt(b[lr.ext:])
	}
	return v, nil
}

func c10Pick(xs []int, pos string) int {
	switch pos {
	case "head":
		return xs[0]
	case "mid":
		return xs[len(xs)/2]
	}
	return xs[len(xs)-1]
}

var c10Tails = map[string][]byte{
	"tail-odd":      {0xfd, 0xff, 0xfd, 0x01, 0xaa},
	"tail-even":     {0xfd, 0xff, 0xfc, 0x01, 0xaa},
	"tail-unsorted": {0x05, 0x00, 0x03, 0x00},
	"tail-nonmin":   {0xfd, 0x00, 0x05, 0x00},
}

// c10ExtOdd returns a copy of the generated message value with one more
// unknown odd record in its extension data, at its canonical position: type
// 65533 (above every record lnd knows, below the custom range) in an
// ExtraOpaqueData field, type 157 (signed range) in ExtraSignedFields.
func c10ExtOdd(kind string, val interface{}) (interface{}, bool) {
	if kind != "msg" {
		return nil, false
	}
	b, err := c10Codecs[kind].enc(val)
	if err != nil {
		return nil, false
	}
	cpv, err := c10Codecs[kind].dec(bytes.NewReader(b))
	if err != nil {
		return nil, false
	}
	rv := reflect.ValueOf(cpv)
	if rv.Kind() != reflect.Ptr || rv.Elem().Kind() != reflect.Struct {
		return nil, false
	}
	st := rv.Elem()
	for i := 0; i < st.NumField(); i++ {
		f := st.Field(i)
		if !f.CanSet() {
			continue
		}
		switch x := f.Interface().(type) {
		case ExtraOpaqueData:
			s, _ := tlv.NewStream()
			tm, err := s.DecodeWithParsedTypesP2P(bytes.NewReader(x))
			if err != nil {
				return nil, false
			}
			if _, dup := tm[65533]; dup {
				return nil, false
			}
			tm[65533] = []byte{0xaa}
			x2, err := NewExtraOpaqueData(tm)
			if err != nil {
				return nil, false
			}
			f.Set(reflect.ValueOf(x2))
			return cpv, true
		case ExtraSignedFields:
			x2 := ExtraSignedFields{}
			for k, v := range x {
				x2[k] = v
			}
			if _, dup := x2[157]; dup {
				return nil, false
			}
			x2[157] = []byte{0xaa}
			f.Set(reflect.ValueOf(x2))
			return cpv, true
		}
	}
	return nil, false
}

// c10VarBound returns a copy of the generated message value in which one
// variable-length field has a boundary length.  The candidates are found by
// Go type: the uint16-prefixed byte strings (ping/pong payload, error and
// warning data, opaque failure reason, plain []byte fields), the delivery
// address (max 34), an address list (gets three IPv4 addresses plus a DNS
// address whose host name is 1, 252..255 bytes long at the list position
// `pos`) and the DNS host name record of node_announcement_2.  `pos` picks
// the first/middle/last candidate field, `rep` cycles the lengths.  A value
// the codec refuses to encode (too long for a message) is not applicable.
func c10VarBound(kind string, val interface{}, pos string, rep int) (interface{}, bool) {
	if kind != "msg" {
		return nil, false
	}
	b, err := c10Codecs[kind].enc(val)
	if err != nil {
		return nil, false
	}
	cpv, err := c10Codecs[kind].dec(bytes.NewReader(b))
	if err != nil {
		return nil, false
	}
	rv := reflect.ValueOf(cpv)
	if rv.Kind() != reflect.Ptr || rv.Elem().Kind() != reflect.Struct {
		return nil, false
	}
	st := rv.Elem()
	var cands []int
	for i := 0; i < st.NumField(); i++ {
		f := st.Field(i)
		if !f.CanSet() {
			continue
		}
		switch f.Interface().(type) {
		case PingPayload, PongPayload, ErrorData, WarningData, OpaqueReason, DeliveryAddress, []net.Addr,
			tlv.OptionalRecordT[tlv.TlvType11, DNSAddress]:
			cands = append(cands, i)
		case []byte:
			cands = append(cands, i)
		}
	}
	if len(cands) == 0 {
		return nil, false
	}
	f := st.Field(c10Pick(cands, pos))
	host := func(n int) string { return string(bytes.Repeat([]byte{'a'}, n)) }
	dnsLens := []int{1, 252, 253, 254, 255}
	setLen := func(n int) {
		f.Set(reflect.ValueOf(bytes.Repeat([]byte{0x61}, n)).Convert(f.Type()))
	}
	switch f.Interface().(type) {
	case []net.Addr:
		addrs := []net.Addr{
			&net.TCPAddr{IP: net.IP{10, 0, 0, 1}, Port: 9735},
			&net.TCPAddr{IP: net.IP{10, 0, 0, 2}, Port: 9736},
			&net.TCPAddr{IP: net.IP{10, 0, 0, 3}, Port: 9737},
		}
		dns := &DNSAddress{Hostname: host(dnsLens[rep%len(dnsLens)]), Port: 9735}
		at := map[string]int{"head": 0, "mid": 2, "tail": 3}[pos]
		out := append([]net.Addr{}, addrs[:min(at, 3)]...)
		out = append(out, dns)
		out = append(out, addrs[min(at, 3):]...)
		f.Set(reflect.ValueOf(out))
	case tlv.OptionalRecordT[tlv.TlvType11, DNSAddress]:
		d := DNSAddress{Hostname: host(dnsLens[rep%len(dnsLens)]), Port: 9735}
		f.Set(reflect.ValueOf(tlv.SomeRecordT(tlv.NewRecordT[tlv.TlvType11](d))))
	case DeliveryAddress:
		setLen([]int{1, 33, 34}[rep%3])
	default:
		lens := []int{1, 255, 256, 257, -1}
		n := lens[rep%len(lens)]
		if n < 0 {
			// the maximum that still fits into a message
			setLen(1)
			b1, err := c10Codecs[kind].enc(cpv)
			if err != nil {
				return nil, false
			}
			n = MaxMsgBody + 2 - (len(b1) - 1)
			if n > 65535 {
				n = 65535
			}
		}
		setLen(n)
	}
	return cpv, true
}

// c10Mutate builds the input of one plan cell; ok=false: not applicable.
func c10Mutate(v *c10Valid, c c10Cell, rep int) ([]byte, bool) {
	rng := rand.New(rand.NewSource(c10Seed(int(verifkit.Seed()), c.Ki, c.T, c.Oi, c.Pi, rep)))
	cp := func() []byte { return append([]byte{}, v.b...) }
	switch c.Op {
	case "valid":
		return cp(), true

	case "trunc-1", "trunc", "trunc+1":
		if len(v.b) <= v.hdr {
			return nil, false
		}
		cut := c10Pick(v.bounds, c.Pos) + map[string]int{"trunc-1": -1, "trunc": 0, "trunc+1": 1}[c.Op]
		if cut < v.hdr {
			cut = v.hdr
		}
		if cut > MaxMsgBody+2 {
			return nil, false
		}
		if cut > len(v.b) {
			return append(cp(), make([]byte, cut-len(v.b))...), true
		}
		return cp()[:cut], true

	case "len-1", "len+1":
		if len(v.lenOff) == 0 {
			return nil, false
		}
		o := c10Pick(v.lenOff, c.Pos)
		b := cp()
		x := binary.BigEndian.Uint16(b[o:])
		if c.Op == "len-1" {
			x--
		} else {
			x++
		}
		binary.BigEndian.PutUint16(b[o:], x)
		return b, true

	case "len-max":
		if len(v.twoOff) == 0 {
			return nil, false
		}
		b := cp()
		binary.BigEndian.PutUint16(b[c10Pick(v.twoOff, c.Pos):], 0xffff)
		return b, true

	case "tail-odd", "tail-even", "tail-unsorted", "tail-nonmin":
		// inputs stay within the 65535-byte domain of the property
		if len(v.b)+len(c10Tails[c.Op]) > MaxMsgBody+2 {
			return nil, false
		}
		return append(cp(), c10Tails[c.Op]...), true

	case "flip":
		if len(v.b) <= v.hdr {
			return nil, false
		}
		lo, hi := v.hdr, len(v.b)
		switch c.Pos {
		case "head":
			hi = v.bounds[0]
		case "mid":
			third := (len(v.b) - v.hdr) / 3
			lo, hi = v.hdr+third, len(v.b)-third
		default:
			if len(v.bounds) >= 2 {
				lo = v.bounds[len(v.bounds)-2]
			}
		}
		if hi <= lo {
			lo, hi = v.hdr, len(v.b)
		}
		b := cp()
		b[lo+rng.Intn(hi-lo)] ^= byte(1 + rng.Intn(255))
		return b, true

	case "raw":
		var n int
		switch c.Pos {
		case "short":
			n = rng.Intn(9)
		case "medium":
			n = 9 + rng.Intn(292)
		default:
			n = 301 + rng.Intn(3000)
			if rep == 1 {
				n = MaxMsgBody
			}
		}
		b := make([]byte, v.hdr+n)
		rng.Read(b)
		copy(b, v.b[:v.hdr])
		return b, true
	}
	return nil, false
}

// ---- value-boundary operators ------------------------------------------------

// c10Leaf is one scalar, fixed-size or length-prefixed field of a value.
type c10Leaf struct {
	path   string // Update.ShortChannelID.BlockHeight
	fld    string // ShortChannelID.BlockHeight: declaring struct type . field
	gotype string
	class  string // int | bytes | len
	w      int    // int: bytes of the Go type (0 = bool); bytes: array length; len: current length
	v      reflect.Value
}

// c10Settable lifts the read-only mark reflection puts on unexported fields
// (the failure messages keep their fields unexported).
func c10Settable(v reflect.Value) reflect.Value {
	if !v.CanSet() && v.CanAddr() {
		return reflect.NewAt(v.Type(), unsafe.Pointer(v.UnsafeAddr())).Elem()
	}
	return v
}

// c10WalkPkg: the packages whose struct types are containers of wire fields;
// everything else (curve points, scalars, net.Addr implementations) is opaque.
func c10WalkPkg(t reflect.Type) string {
	p := t.PkgPath()
	switch {
	case strings.HasSuffix(p, "/lnd/lnwire"):
		return "lnwire"
	case strings.HasSuffix(p, "/lnd/tlv"):
		return "tlv"
	case strings.HasSuffix(p, "/lnd/fn/v2"), strings.HasSuffix(p, "/lnd/fn"):
		return "fn"
	case strings.HasSuffix(p, "btcd/wire"), strings.HasSuffix(p, "btcd/wire/v2"):
		return "wire"
	case p == "image/color":
		return "color"
	}
	return ""
}

func c10TypeName(t reflect.Type) string {
	n := t.Name()
	if n == "" {
		n = t.String()
	}
	if i := strings.IndexByte(n, '['); i > 0 {
		n = n[:i]
	}
	return n
}

func c10Walk(v reflect.Value, path, fld string, out *[]c10Leaf) {
	v = c10Settable(v)
	t := v.Type()
	leaf := func(class string, w int) {
		if v.CanSet() {
			*out = append(*out, c10Leaf{path: path, fld: fld, gotype: c10TypeName(t), class: class, w: w, v: v})
		}
	}
	switch v.Kind() {
	case reflect.Ptr:
		if !v.IsNil() && v.Elem().Kind() == reflect.Struct && c10WalkPkg(v.Elem().Type()) != "" {
			c10Walk(v.Elem(), path, fld, out)
		}
	case reflect.Struct:
		pkg := c10WalkPkg(t)
		if pkg == "" {
			return
		}
		// an option container: its payload is part of the value only when set
		if is := v.FieldByName("isSome"); pkg == "fn" && is.IsValid() {
			if is.Bool() {
				c10Walk(v.FieldByName("some"), path, fld, out)
			}
			return
		}
		for i := 0; i < v.NumField(); i++ {
			sf := t.Field(i)
			p, f := path, fld
			if pkg != "tlv" && pkg != "fn" && !sf.Anonymous {
				if p != "" {
					p += "."
				}
				p += sf.Name
				f = c10TypeName(t) + "." + sf.Name
			}
			c10Walk(v.Field(i), p, f, out)
		}
	case reflect.Bool:
		leaf("int", 0)
	case reflect.Uint8, reflect.Int8:
		leaf("int", 1)
	case reflect.Uint16, reflect.Int16:
		leaf("int", 2)
	case reflect.Uint32, reflect.Int32:
		leaf("int", 4)
	case reflect.Uint64, reflect.Int64, reflect.Uint, reflect.Int:
		leaf("int", 8)
	case reflect.Array, reflect.Slice:
		if t.Elem().Kind() == reflect.Uint8 {
			if v.Kind() == reflect.Array {
				leaf("bytes", v.Len())
			} else if _, isTlv := v.Interface().(ExtraOpaqueData); !isTlv {
				// (an extension stream is not a byte string: ext-odd and
				// the tail-* operators deal with it)
				leaf("len", v.Len())
			}
			return
		}
		// the first two elements of a list stand for the list
		for i := 0; i < v.Len() && i < 2; i++ {
			c10Walk(v.Index(i), fmt.Sprintf("%s[%d]", path, i), fld, out)
		}
	}
}

func c10Leaves(val interface{}, class string) []c10Leaf {
	var all, out []c10Leaf
	rv := reflect.ValueOf(val)
	if rv.Kind() == reflect.Ptr && !rv.IsNil() {
		c10Walk(rv.Elem(), "", "", &all)
	}
	for _, l := range all {
		if l.class == class {
			out = append(out, l)
		}
	}
	return out
}

// c10Copy copies src into dst along everything c10Walk descends into (the
// encoders sort lists in place, and the failure values are the package's
// shared table entries: a case never touches the generated value itself).
func c10Copy(dst, src reflect.Value) {
	dst, src = c10Settable(dst), c10Settable(src)
	switch src.Kind() {
	case reflect.Ptr:
		if !src.IsNil() && src.Elem().Kind() == reflect.Struct && c10WalkPkg(src.Elem().Type()) != "" {
			n := reflect.New(src.Type().Elem())
			c10Copy(n.Elem(), src.Elem())
			dst.Set(n)
			return
		}
	case reflect.Struct:
		if c10WalkPkg(src.Type()) != "" {
			for i := 0; i < src.NumField(); i++ {
				c10Copy(dst.Field(i), src.Field(i))
			}
			return
		}
	case reflect.Slice:
		if !src.IsNil() {
			n := reflect.MakeSlice(src.Type(), src.Len(), src.Len())
			if src.Type().Elem().Kind() == reflect.Uint8 {
				reflect.Copy(n, src)
			} else {
				for i := 0; i < src.Len(); i++ {
					c10Copy(n.Index(i), src.Index(i))
				}
			}
			dst.Set(n)
			return
		}
	}
	dst.Set(src)
}

func c10CopyValue(val interface{}) interface{} {
	rv := reflect.ValueOf(val)
	if rv.Kind() != reflect.Ptr || rv.IsNil() {
		return val
	}
	n := reflect.New(rv.Type().Elem())
	c10Copy(n.Elem(), rv.Elem())
	return n.Interface()
}

var c10IntVals = map[string]uint64{"i0": 0, "ifc": 0xfc, "ifd": 0xfd, "iffff": 0xffff, "i10000": 0x10000,
	"iffffffff": 0xffffffff, "i100000000": 0x100000000, "imax": ^uint64(0)}
var c10IntNeed = map[string]int{"i0": 0, "ifc": 1, "ifd": 1, "iffff": 2, "i10000": 3, "iffffffff": 4,
	"i100000000": 5, "imax": 0}
var c10LenVals = map[string]int{"l0": 0, "l1": 1, "lfc": 0xfc, "lfd": 0xfd, "lff": 0xff, "l100": 0x100}

// c10SetLeaf drives one leaf to the value of a boundary class; ok=false: the
// class does not exist for this leaf (wider than the field).
func c10SetLeaf(l c10Leaf, cls string) (string, bool) {
	switch l.class {
	case "int":
		x, ok := c10IntVals[cls]
		if !ok || c10IntNeed[cls] > l.w {
			return "", false
		}
		if l.w > 0 && l.w < 8 {
			x &= 1<<(8*uint(l.w)) - 1
		}
		switch l.v.Kind() {
		case reflect.Bool:
			l.v.SetBool(x != 0)
		case reflect.Int8, reflect.Int16, reflect.Int32, reflect.Int64, reflect.Int:
			switch l.w {
			case 1:
				l.v.SetInt(int64(int8(x)))
			case 2:
				l.v.SetInt(int64(int16(x)))
			case 4:
				l.v.SetInt(int64(int32(x)))
			default:
				l.v.SetInt(int64(x))
			}
		default:
			l.v.SetUint(x)
		}
		return fmt.Sprintf("%x", x), true
	case "bytes":
		n := l.w
		if n < 4 {
			return "", false
		}
		b := make([]byte, n)
		for i := range b {
			switch cls {
			case "b00":
			case "bff":
				b[i] = 0xff
			case "bz":
				// text, a zero, more text
				if b[i] = byte('a' + i%26); i == n/3 {
					b[i] = 0
				}
			case "butf":
				// 0xc3 0x28 is not UTF-8
				if b[i] = byte('a' + i%26); i == n/2 {
					b[i] = 0xc3
				} else if i == n/2+1 {
					b[i] = 0x28
				}
			default:
				return "", false
			}
		}
		reflect.Copy(l.v, reflect.ValueOf(b))
		if n > 40 {
			b = b[:40]
		}
		return hex.EncodeToString(b), true
	case "len":
		n, ok := c10LenVals[cls]
		if !ok {
			return "", false
		}
		l.v.Set(reflect.ValueOf(bytes.Repeat([]byte{0x61}, n)).Convert(l.v.Type()))
		return fmt.Sprintf("%d x 61", n), true
	}
	return "", false
}

var c10ValClass = map[string]string{"val-int": "int", "val-bytes": "bytes", "val-len": "len"}

// c10ValCase builds the input of a value-boundary cell: the encoding of a
// copy of the generated value in which the leaf selected by the repetition
// has the boundary value.  It fills the field description into rec; app=false:
// not applicable; in=nil with app=true: the encoder refused (e0=0) or panicked.
func c10ValCase(v *c10Valid, c c10Cell, rep int, rec verifkit.Rec) (in []byte, orig interface{}, app bool) {
	cp := c10CopyValue(v.val)
	leaves := c10Leaves(cp, c10ValClass[c.Op])
	rec["nf"], rec["path"], rec["val"] = len(leaves), "", ""
	if len(leaves) == 0 {
		return nil, nil, false
	}
	fi := (rep - 1) % len(leaves)
	l := leaves[fi]
	rec["fi"], rec["fld"], rec["path"], rec["gotype"], rec["w"] = fi+1, l.fld, l.path, l.gotype, l.w
	if strings.Contains(l.path, "[") {
		rec["inlist"] = 1
	}
	val, ok := c10SetLeaf(l, c.Pos)
	if !ok {
		return nil, nil, false
	}
	rec["val"] = val
	rec["e0"] = 0
	func() {
		defer func() {
			if r := recover(); r != nil {
				rec["pan"] = 1
				rec["panic"] = fmt.Sprint(r)
			}
		}()
		b, err := c10Codecs[c.Kind].enc(cp)
		if err != nil {
			rec["encerr"] = err.Error()
			return
		}
		in = b
		rec["e0"] = 1
		if !bytes.Equal(b, v.b) {
			rec["chg"] = 1
		}
	}()
	return in, cp, true
}

// ---- record-level operators ----------------------------------------------------

var c10RecTypes = map[string]uint64{"o9d": 157, "ofb": 251, "efc": 252, "ofd": 253, "efffe": 65534, "offff": 65535,
	"c10001": 65537, "s3b9aca01": 1000000001, "cffffffff": 4294967295, "c100000001": 4294967297}
var c10DeltaNeed = map[string]int{"z": 1, "m1": 1, "p1": 0, "m8": 8, "p8": 8, "dbl": 1}

// c10RecCase builds the input of a record-level cell: the fixed part of the
// valid encoding followed by its extension with one record inserted, removed
// or resized.  app=false: not applicable (the fields recorded in rec say why).
func c10RecCase(v *c10Valid, c c10Cell, rep int, rec verifkit.Rec) (in []byte, ins *c10Rec, app bool) {
	c1, c2, _ := strings.Cut(c.Pos, ".")
	rec["tcls"], rec["lcls"] = c1, c2
	if v.ext < 0 {
		return nil, nil, false
	}
	rec["hasext"], rec["nrec"] = 1, len(v.recs)
	if !v.extok {
		rec["nrec"] = -1
		return nil, nil, false
	}
	var out []c10Rec
	switch c.Op {
	case "rec-ins":
		typ, ok := c10RecTypes[c1]
		n, ok2 := c10LenVals[c2]
		if !ok || !ok2 {
			return nil, nil, false
		}
		val := make([]byte, n)
		for i := range val {
			val[i] = byte(0x41 + (i*7+rep)%53)
		}
		ins = &c10Rec{typ: typ, val: val}
		rec["rt"] = fmt.Sprintf("%x", typ)
		for _, r := range v.recs {
			if r.typ != typ {
				out = append(out, r)
			}
		}
		out = append(out, *ins)
		sort.SliceStable(out, func(i, j int) bool { return out[i].typ < out[j].typ })
	case "rec-drop":
		if len(v.recs) == 0 {
			return nil, nil, false
		}
		if c1 != "all" {
			k := map[string]int{"head": 0, "mid": len(v.recs) / 2, "tail": len(v.recs) - 1}[c1]
			rec["rt"], rec["rlen"] = fmt.Sprintf("%x", v.recs[k].typ), len(v.recs[k].val)
			out = append(out, v.recs[:k]...)
			out = append(out, v.recs[k+1:]...)
		}
	case "rec-len":
		if len(v.recs) == 0 {
			return nil, nil, false
		}
		k := map[string]int{"head": 0, "mid": len(v.recs) / 2, "tail": len(v.recs) - 1}[c1]
		old := v.recs[k].val
		n := len(old)
		rec["rt"], rec["rlen"] = fmt.Sprintf("%x", v.recs[k].typ), n
		need, ok := c10DeltaNeed[c2]
		if !ok || n < need {
			return nil, nil, false
		}
		var nv []byte
		switch c2 {
		case "z":
		case "m1":
			nv = append(nv, old[:n-1]...)
		case "p1":
			nv = append(append(nv, old...), 0x01)
		case "m8":
			nv = append(nv, old[:n-8]...)
		case "p8":
			nv = append(append(nv, old...), old[n-8:]...)
		case "dbl":
			nv = append(append(nv, old...), old...)
		}
		out = append(out, v.recs...)
		out[k] = c10Rec{typ: v.recs[k].typ, val: nv}
	default:
		return nil, nil, false
	}
	in = append(append([]byte{}, v.b[:v.ext]...), c10SerExt(out)...)
	if len(in) > MaxMsgBody+2 {
		// outside the 65535-byte domain of the property
		rec["ilen"] = len(in)
		return nil, nil, false
	}
	return in, ins, true
}

var c10AllocSample = []metrics.Sample{{Name: "/gc/heap/allocs:bytes"}}

func c10Allocs() uint64 {
	metrics.Read(c10AllocSample)
	return c10AllocSample[0].Value.Uint64()
}

// c10LastB2 is the re-encoding produced by the last c10Observe (nil: none).
var c10LastB2 []byte

// c10Observe runs the real codec on one input.
func c10Observe(kind string, in []byte, orig interface{}, rec verifkit.Rec) {
	cd := c10Codecs[kind]
	c10LastB2 = nil
	for _, k := range []string{"pan", "hang", "alloc", "d1", "e1", "e1len", "d2", "e2", "fix", "same", "veq"} {
		rec[k] = 0
	}
	defer func() {
		if r := recover(); r != nil {
			rec["pan"] = 1
			rec["panic"] = fmt.Sprint(r)
		}
	}()
	a0 := c10Allocs()
	m, err := cd.dec(bytes.NewReader(in))
	alloc := c10Allocs() - a0
	if alloc > 128<<10 {
		// the cheap counter is flushed lazily (it may carry earlier cases'
		// small objects): measure this decode again, exactly
		var ms0, ms1 runtime.MemStats
		runtime.ReadMemStats(&ms0)
		_, _ = cd.dec(bytes.NewReader(in))
		runtime.ReadMemStats(&ms1)
		alloc = ms1.TotalAlloc - ms0.TotalAlloc
	}
	rec["alloc"] = int(alloc)
	if err != nil {
		return
	}
	rec["d1"] = 1
	if orig != nil && reflect.DeepEqual(orig, m) {
		rec["veq"] = 1
	}
	b2, err := cd.enc(m)
	if err != nil {
		rec["encerr"] = err.Error()
		return
	}
	rec["e1"] = 1
	rec["e1len"] = len(b2)
	c10LastB2 = b2
	if bytes.Equal(b2, in) {
		rec["same"] = 1
	}
	m2, err := cd.dec(bytes.NewReader(b2))
	if err != nil {
		rec["encerr"] = "redecode: " + err.Error()
		return
	}
	rec["d2"] = 1
	b3, err := cd.enc(m2)
	if err != nil {
		return
	}
	rec["e2"] = 1
	if bytes.Equal(b2, b3) {
		rec["fix"] = 1
	}
}

func TestVerifC10WireLaws(t *testing.T) {
	out := verifkit.MustWriter(verifkit.Env("VERIF_OUT", ".") + "/trace.ndjson")
	defer out.Close()
	reps := verifkit.EnvInt("VERIF_REPS", 2)
	recReps := verifkit.EnvInt("VERIF_REC_REPS", reps)

	// ---- framing: type dispatch over the whole 16-bit space ---------------
	emitRanges := func(a string, f func(int) (string, int)) {
		lo, res, ok := 0, "", 1
		for v := 0; v <= 65536; v++ {
			var r string
			var k int
			if v < 65536 {
				r, k = f(v)
			}
			if v == 0 {
				res, ok = r, k
				continue
			}
			if v == 65536 || r != res || k != ok {
				out.Emit(verifkit.Rec{"a": a, "lo": lo, "hi": v - 1, "res": res, "mtok": ok})
				lo, res, ok = v, r, k
			}
		}
	}
	emitRanges("Dispatch", func(v int) (string, int) {
		m, err := ReadMessage(bytes.NewReader([]byte{byte(v >> 8), byte(v)}), 0)
		var um *UnknownMessage
		switch {
		case errors.As(err, &um):
			if int(um.messageType) != v {
				return "unknown", 0
			}
			return "unknown", 1
		case err != nil:
			return "known", 1
		}
		ok := 0
		if int(m.MsgType()) == v {
			ok = 1
		}
		if _, isCustom := m.(*Custom); isCustom {
			return "custom", ok
		}
		return "known", ok
	})
	emitRanges("FailDispatch", func(v int) (string, int) {
		f, err := makeEmptyOnionError(FailCode(v))
		if err != nil {
			return "unknown", 1
		}
		if int(f.Code()) != v {
			return "known", 0
		}
		return "known", 1
	})

	// ---- framing: payload bound of WriteMessage, all or nothing -----------
	for _, pre := range []int{0, 5} {
		for _, plen := range []int{0, 1, MaxMsgBody - 1, MaxMsgBody, MaxMsgBody + 1, MaxMsgBody + 2, 70000} {
			var buf bytes.Buffer
			buf.Write(make([]byte, pre))
			msg := &Custom{Type: 40000, Data: bytes.Repeat([]byte{0x42}, plen)}
			_, err := WriteMessage(&buf, msg, 0)
			rec := verifkit.Rec{"a": "Write", "pre": pre, "plen": plen, "ok": 0, "blen": buf.Len(), "rb": 0}
			if err == nil {
				rec["ok"] = 1
				m2, err := ReadMessage(bytes.NewReader(buf.Bytes()[pre:]), 0)
				if c2, ok := m2.(*Custom); err == nil && ok && c2.Type == 40000 && bytes.Equal(c2.Data, msg.Data) {
					rec["rb"] = 1
				}
			}
			out.Emit(rec)
		}
	}
	for n := 0; n < 2; n++ {
		rec := verifkit.Rec{"a": "ReadShort", "n": n, "ok": 0, "pan": 0}
		func() {
			defer func() {
				if recover() != nil {
					rec["pan"] = 1
				}
			}()
			if _, err := ReadMessage(bytes.NewReader(make([]byte, n)), 0); err == nil {
				rec["ok"] = 1
			}
		}()
		out.Emit(rec)
	}

	// ---- the mutation plan -------------------------------------------------
	cells, err := verifkit.ReadNDJSONInto[c10Cell](os.Getenv("VERIF_PLAN"))
	if err != nil || len(cells) == 0 {
		t.Fatalf("no plan: %v", err)
	}
	sort.Slice(cells, func(i, j int) bool {
		a, b := cells[i], cells[j]
		if a.Ki != b.Ki {
			return a.Ki < b.Ki
		}
		if a.T != b.T {
			return a.T < b.T
		}
		if a.Oi != b.Oi {
			return a.Oi < b.Oi
		}
		return a.Pi < b.Pi
	})

	// watchdog: a case that runs over the deadline is recorded as a hang and
	// ends the run (the plan is then not covered, which the trace spec sees)
	var (
		started atomic.Int64
		curMu   sync.Mutex
		cur     verifkit.Rec
	)
	deadline := time.Duration(verifkit.EnvInt("VERIF_CASE_DEADLINE_S", 30)) * time.Second
	go func() {
		for range time.Tick(time.Second) {
			s := started.Load()
			if s != 0 && time.Since(time.Unix(0, s)) > deadline {
				curMu.Lock()
				r := verifkit.Rec{}
				for k, v := range cur {
					r[k] = v
				}
				curMu.Unlock()
				r["hang"] = 1
				out.Emit(r)
				out.Close()
				os.Exit(0)
			}
		}
	}()

	valid := map[[3]int]*c10Valid{}
	kinds := map[string]int{"msg": 1, "fail": 2, "pkt": 3}
	ncase := 0
	for _, c := range cells {
		for rep := 1; rep <= reps; rep++ {
			if strings.HasPrefix(c.Op, "rec-") && rep > recReps {
				break
			}
			key := [3]int{kinds[c.Kind], c.T, rep}
			v, ok := valid[key]
			if !ok {
				v, err = c10MakeValid(c.Kind, c.T, rep)
				if err != nil {
					t.Fatalf("cell %+v rep %d: %v", c, rep, err)
				}
				valid[key] = v
			}
			rec := verifkit.Rec{"a": "Law", "kind": c.Kind, "t": c.T, "op": c.Op, "pos": c.Pos, "rep": rep,
				"na": 0, "vlen": len(v.b), "ilen": len(v.b), "h": "",
				"pan": 0, "hang": 0, "alloc": 0, "d1": 0, "e1": 0, "e1len": 0, "d2": 0, "e2": 0,
				"fix": 0, "same": 0, "veq": 0,
				"nf": 0, "fi": 0, "fld": "", "gotype": "", "w": 0, "inlist": 0, "e0": 1, "chg": 0,
				"hasext": 0, "nrec": 0, "tcls": "", "lcls": "", "rlen": 0, "rt": "", "rkept": 0}
			var ins *c10Rec
			var orig interface{}
			var in []byte
			app := false
			if c10ValClass[c.Op] != "" {
				// a failure code with several table values (with and without a
				// channel_update): take the next one that has such fields
				vv := v
				for k := 1; c.Kind != "msg" && k < 4 && len(c10Leaves(vv.val, c10ValClass[c.Op])) == 0; k++ {
					key2 := [3]int{kinds[c.Kind], c.T, rep + k}
					v2, ok := valid[key2]
					if !ok {
						if v2, err = c10MakeValid(c.Kind, c.T, rep+k); err != nil {
							break
						}
						valid[key2] = v2
					}
					vv = v2
				}
				rec["vlen"], rec["ilen"] = len(vv.b), len(vv.b)
				in, orig, app = c10ValCase(vv, c, rep, rec)
				if app && in == nil {
					// the encoder did not produce an input: that is the observation
					rec["ilen"] = 0
					out.Emit(rec)
					ncase++
					continue
				}
			} else if strings.HasPrefix(c.Op, "rec-") {
				in, ins, app = c10RecCase(v, c, rep, rec)
			} else if c.Op == "ext-odd" || c.Op == "var-bound" {
				ev, ok := interface{}(nil), false
				if c.Op == "ext-odd" {
					ev, ok = c10ExtOdd(c.Kind, v.val)
				} else {
					ev, ok = c10VarBound(c.Kind, v.val, c.Pos, rep)
				}
				if ok {
					if eb, err := c10Codecs[c.Kind].enc(ev); err == nil {
						in, orig, app = eb, ev, true
					}
				}
			} else {
				in, app = c10Mutate(v, c, rep)
			}
			if !app {
				rec["na"] = 1
				out.Emit(rec)
				continue
			}
			rec["ilen"] = len(in)
			hs := sha256.Sum256(in)
			rec["h"] = hex.EncodeToString(hs[:6])
			if c.Op == "valid" {
				orig = v.val
			}
			curMu.Lock()
			cur = rec
			curMu.Unlock()
			started.Store(time.Now().UnixNano())
			obs := verifkit.Rec{}
			for k, x := range rec {
				obs[k] = x
			}
			c10Observe(c.Kind, in, orig, obs)
			if ins != nil && c10LastB2 != nil && obs["pan"] == 0 {
				// is the inserted record in the extension of the re-encoding?
				_, recs2, _ := c10ExtOf(c.Kind, c10LastB2)
				for _, r := range recs2 {
					if r.typ == ins.typ && bytes.Equal(r.val, ins.val) {
						obs["rkept"] = 1
					}
				}
			}
			started.Store(0)
			if obs["pan"] == 1 || verifkit.Env("VERIF_KEEP_INPUT", "") != "" {
				obs["input"] = hex.EncodeToString(in)
			}
			out.Emit(obs)
			ncase++
		}
	}
	t.Logf("C10 wire laws: %d plan cells x %d repetitions, %d cases executed", len(cells), reps, ncase)
}
