//go:build verif

package lnwallet

import "github.com/btcsuite/btcd/btcec/v2/schnorr/musig2"

// Injected into package lnwallet (as a non-test file, through the go test
// overlay) for the C04 executor, which lives in package contractcourt and can
// therefore only use lnwallet's exported API.  Two things the replay of
// spec/Channel behaviours needs are not exported:

// VerifSetTestChannelCapacity lowers the capacity CreateTestChannels uses
// (1 000 000 sat: every msat amount fits TLC's 32-bit integers).
func VerifSetTestChannelCapacity(btc float64) { testChannelCapacity = btc }

// VerifSetPendingVerificationNonce does what the peer package does with the
// nonce it has just put into channel_reestablish (taproot channels).
func VerifSetPendingVerificationNonce(lc *LightningChannel, n *musig2.Nonces) {
	lc.pendingVerificationNonce = n
}
