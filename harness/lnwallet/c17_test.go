//go:build verif

package lnwallet

import (
	"bytes"
	"fmt"
	"io"
	"math/rand"
	"os"
	"path/filepath"
	"strings"
	"testing"

	"github.com/btcsuite/btcd/btcec/v2/schnorr/musig2"
	"github.com/btcsuite/btcd/btcutil/v2"
	"github.com/btcsuite/btcd/mempool"
	"github.com/btcsuite/btcd/txscript/v2"
	"github.com/btcsuite/btcd/wire/v2"
	"github.com/lightningnetwork/lnd/channeldb"
	"github.com/lightningnetwork/lnd/fn/v2"
	"github.com/lightningnetwork/lnd/input"
	"github.com/lightningnetwork/lnd/internal/verifkit"
	"github.com/lightningnetwork/lnd/lntypes"
	"github.com/lightningnetwork/lnd/lnwallet/chainfee"
	"github.com/lightningnetwork/lnd/lnwire"
)

// Executor for part I of spec/CoopClose (C17): the closing transaction.  It
// replays TLC-generated behaviours (CoopCloseGen/TxGSpec) - and, after them, a
// seeded free-running driver - on two real LightningChannels: the balance is
// moved by real add/settle round trips or written into both channel states,
// then both sides CreateCloseProposal and CompleteCooperativeClose with each
// other's signature.  Recorded per close: accepted/refused (error class), the
// output set of each side's completed transaction by owner, the fee it pays,
// byte equality of the two transactions and the script engine's verdict
// against the funding output.  No judgement here: CoopCloseTrace.tla decides.

const c17Tap = channeldb.SingleFunderTweaklessBit | channeldb.AnchorOutputsBit | channeldb.ZeroHtlcTxFeeBit |
	channeldb.SimpleTaprootFeatureBit

var c17Types = map[string]channeldb.ChannelType{
	"legacy":    channeldb.SingleFunderBit,
	"tweakless": channeldb.SingleFunderTweaklessBit,
	"anchors":   channeldb.SingleFunderTweaklessBit | channeldb.AnchorOutputsBit,
	"zerofee":   channeldb.SingleFunderTweaklessBit | channeldb.AnchorOutputsBit | channeldb.ZeroHtlcTxFeeBit,
	"lease": channeldb.SingleFunderTweaklessBit | channeldb.AnchorOutputsBit | channeldb.ZeroHtlcTxFeeBit |
		channeldb.LeaseExpirationBit,
	"taproot":      c17Tap,
	"taprootfinal": c17Tap | channeldb.TaprootFinalBit,
	"taprootroot":  c17Tap | channeldb.TapscriptRootBit,
}

var c17TypeNames = []string{"legacy", "tweakless", "anchors", "zerofee", "lease", "taproot", "taprootfinal",
	"taprootroot"}

type c17Ev struct {
	A    string `json:"a"`
	P    string `json:"p"`
	X    int64  `json:"x"`
	Y    int64  `json:"y"`
	Type string `json:"type"`
}

type c17View struct {
	Our   int64 `json:"our"`
	Their int64 `json:"their"`
	Cfee  int64 `json:"cfee"`
}

func c17Engine(pkScript []byte, value int64, tx *wire.MsgTx) error {
	fetcher := txscript.NewCannedPrevOutputFetcher(pkScript, value)
	hc := txscript.NewTxSigHashes(tx, fetcher)
	vm, err := txscript.NewEngine(pkScript, tx, 0, txscript.StandardVerifyFlags, nil, hc, value, fetcher)
	if err != nil {
		return err
	}
	return vm.Execute()
}

// c17Class maps an error to its class; the text is kept for diagnostics only.
func c17Class(err error) string {
	switch {
	case err == nil:
		return "ok"
	case strings.Contains(err.Error(), "cannot afford"):
		return "unaffordable"
	case strings.Contains(err.Error(), "transaction has no outputs"):
		return "nooutputs"
	default:
		return "other"
	}
}

// delivery scripts: the pair rotates through the standard kinds
func c17Scripts(n int) (map[string][]byte, string) {
	mk := func(prefix []byte, l int, fill byte) []byte {
		return append(append([]byte{}, prefix...), bytes.Repeat([]byte{fill}, l)...)
	}
	kinds := []string{"p2wpkh/p2wpkh", "p2tr/p2wpkh", "p2wsh/p2tr", "p2wpkh/p2wsh"}
	k := n % len(kinds)
	fa, fb := byte(0x11+n%7), byte(0x91+n%5)
	if n%2 == 1 { // BIP69 order of equal-valued outputs depends on the scripts: both orders
		fa, fb = fb, fa
	}
	var a, b []byte
	switch k {
	case 0:
		a, b = mk([]byte{0x00, 0x14}, 20, fa), mk([]byte{0x00, 0x14}, 20, fb)
	case 1:
		a, b = mk([]byte{0x51, 0x20}, 32, fa), mk([]byte{0x00, 0x14}, 20, fb)
	case 2:
		a, b = mk([]byte{0x00, 0x20}, 32, fa), mk([]byte{0x51, 0x20}, 32, fb)
	default:
		a, b = mk([]byte{0x00, 0x14}, 20, fa), mk([]byte{0x00, 0x20}, 32, fb)
	}
	return map[string][]byte{"A": a, "B": b}, kinds[k]
}

type c17Chan struct {
	t      *testing.T
	lc     map[string]*LightningChannel // by model party
	opener string
	nhtlc  map[string]int
	tname  string
	nclose int
}

func c17Other(p string) string {
	if p == "A" {
		return "B"
	}
	return "A"
}

func c17New(t *testing.T, tname, opener string, dustA, dustB int64) *c17Chan {
	ctype, ok := c17Types[tname]
	if !ok {
		t.Fatalf("unknown channel type %q", tname)
	}
	// alice is the fixture's initiator: she plays the model's opener
	if opener == "A" {
		aliceDustLimit, bobDustLimit = btcutil.Amount(dustA), btcutil.Amount(dustB)
	} else {
		aliceDustLimit, bobDustLimit = btcutil.Amount(dustB), btcutil.Amount(dustA)
	}
	alice, bob, err := CreateTestChannels(t, ctype)
	if err != nil {
		t.Fatal(err)
	}
	return &c17Chan{t: t, lc: map[string]*LightningChannel{opener: alice, c17Other(opener): bob}, opener: opener,
		nhtlc: map[string]int{}, tname: tname}
}

func (c *c17Chan) views() map[string]c17View {
	out := map[string]c17View{}
	for p, lc := range c.lc {
		lcm := lc.channelState.LocalCommitment
		out[p] = c17View{Our: int64(lcm.LocalBalance), Their: int64(lcm.RemoteBalance), Cfee: int64(lcm.CommitFee)}
	}
	return out
}

func (c *c17Chan) reset(file string) verifkit.Rec {
	dust := map[string]map[string]int64{}
	for p, lc := range c.lc {
		dust[p] = map[string]int64{
			p:           int64(lc.channelState.LocalChanCfg.DustLimit),
			c17Other(p): int64(lc.channelState.RemoteChanCfg.DustLimit),
		}
	}
	ct := c.lc["A"].channelState.ChanType
	b := func(x bool) int {
		if x {
			return 1
		}
		return 0
	}
	return verifkit.Rec{"a": "Reset", "kind": "tx", "type": c.tname, "file": file, "opener": c.opener,
		"anchors": b(ct.HasAnchors()), "taproot": b(ct.IsTaproot()), "cap": int64(c.lc["A"].channelState.Capacity),
		"dust": dust, "view": c.views()}
}

// pay moves amt msat from party f to the other with a real add / sign / revoke / settle round trip.
func (c *c17Chan) pay(f string, amt int64) error {
	from, to := c.lc[f], c.lc[c17Other(f)]
	id := c.nhtlc[f]
	c.nhtlc[f]++
	h, pre := createHTLC(id, lnwire.MilliSatoshi(amt))
	if _, err := from.AddHTLC(h, nil); err != nil {
		return fmt.Errorf("add: %w", err)
	}
	if _, err := to.ReceiveHTLC(h); err != nil {
		return fmt.Errorf("recv: %w", err)
	}
	if err := ForceStateTransition(from, to); err != nil {
		return fmt.Errorf("transition 1: %w", err)
	}
	if err := to.SettleHTLC(pre, uint64(id), nil, nil, nil); err != nil {
		return fmt.Errorf("settle: %w", err)
	}
	if err := from.ReceiveHTLCSettle(pre, uint64(id)); err != nil {
		return fmt.Errorf("recv settle: %w", err)
	}
	if err := ForceStateTransition(to, from); err != nil {
		return fmt.Errorf("transition 2: %w", err)
	}
	return nil
}

// updateFee changes the commitment fee rate with a real update_fee round trip (opener only).
func (c *c17Chan) updateFee(rate int64) error {
	o, n := c.lc[c.opener], c.lc[c17Other(c.opener)]
	if err := o.UpdateFee(chainfee.SatPerKWeight(rate)); err != nil {
		return err
	}
	if err := n.ReceiveUpdateFee(chainfee.SatPerKWeight(rate)); err != nil {
		return err
	}
	return ForceStateTransition(o, n)
}

// inject writes a balance split into both channel states (the protocol reaches splits next to the
// dust limits only with tiny reserves).
func (c *c17Chan) inject(side string, small int64) {
	a := c.lc[side].channelState
	b := c.lc[c17Other(side)].channelState
	tot := int64(a.LocalCommitment.LocalBalance + a.LocalCommitment.RemoteBalance)
	a.LocalCommitment.LocalBalance, a.LocalCommitment.RemoteBalance = lnwire.MilliSatoshi(small), lnwire.MilliSatoshi(tot-small)
	b.LocalCommitment.LocalBalance, b.LocalCommitment.RemoteBalance = lnwire.MilliSatoshi(tot-small), lnwire.MilliSatoshi(small)
}

// musig closing session of one party, as peer.MusigChanCloser builds it
func c17Musig(lc *LightningChannel, local, remote *musig2.Nonces) (*MusigSession, error) {
	localKey, remoteKey := lc.MultiSigKeys()
	tweak := fn.MapOption(TapscriptRootToTweak)(lc.State().TapscriptRoot)
	s := NewPartialMusigSession(*remote, localKey, remoteKey, lc.Signer, lc.FundingTxOut(), RemoteMusigCommit,
		tweak, fn.None[io.Reader]())
	if err := s.FinalizeSession(*local); err != nil {
		return nil, err
	}
	return s, nil
}

// closeAt: both sides propose and complete the close for `fee` charged to `payer`.
func (c *c17Chan) closeAt(payer string, fee int64, rbf int64) verifkit.Rec {
	c.nclose++
	scripts, skind := c17Scripts(c.nclose + int(verifkit.Seed()))
	rec := verifkit.Rec{"a": "Close", "p": payer, "x": fee, "y": rbf, "scripts": skind}
	taproot := c.lc["A"].channelState.ChanType.IsTaproot()

	opts := map[string][]ChanCloseOpt{"A": nil, "B": nil}
	if rbf == 1 {
		// the options of the RBF-coop flow: the closer pays (LocalCloseStart / LocalOfferSent), the closee
		// rebuilds with the advertised lock time (ClosingComplete.LockTime = Environment.BlockHeight = 0)
		opts[payer] = []ChanCloseOpt{WithCustomSequence(mempool.MaxRBFSequence), WithCustomPayer(lntypes.Local)}
		opts[c17Other(payer)] = []ChanCloseOpt{WithCustomSequence(mempool.MaxRBFSequence), WithCustomLockTime(0),
			WithCustomPayer(lntypes.Remote)}
	}
	nonces := map[string]*musig2.Nonces{}
	if taproot {
		for p, lc := range c.lc {
			k, _ := lc.MultiSigKeys()
			n, err := musig2.GenNonces(musig2.WithPublicKey(k.PubKey))
			if err != nil {
				c.t.Fatal(err)
			}
			nonces[p] = n
		}
		for p, lc := range c.lc {
			s, err := c17Musig(lc, nonces[p], nonces[c17Other(p)])
			if err != nil {
				c.t.Fatal(err)
			}
			opts[p] = append(opts[p], WithCoopCloseMusigSession(s))
		}
	}

	res := map[string]string{}
	errs := map[string]string{}
	sigs := map[string]input.Signature{}
	props := map[string]*wire.MsgTx{}
	for _, p := range []string{"A", "B"} {
		lc := c.lc[p]
		lc.ResetState() // every close of a behaviour starts from an open channel (as lnwallet's own dust test does)
		sig, tx, _, err := lc.CreateCloseProposal(btcutil.Amount(fee), scripts[p], scripts[c17Other(p)], opts[p]...)
		res[p] = c17Class(err)
		errs[p] = ""
		if err != nil {
			errs[p] = err.Error()
		}
		sigs[p], props[p] = sig, tx
	}
	zero := func() map[string]int64 { return map[string]int64{"A": 0, "B": 0} }
	has := map[string]map[string]int64{"A": zero(), "B": zero()}
	val := map[string]map[string]int64{"A": zero(), "B": zero()}
	extra, txfee, eng, nout := zero(), zero(), zero(), zero()
	propeq, txeq, raweq := 0, 0, 0
	seq := int64(-1)

	if res["A"] == "ok" && res["B"] == "ok" {
		var pa, pb bytes.Buffer
		props["A"].Serialize(&pa)
		props["B"].Serialize(&pb)
		if bytes.Equal(pa.Bytes(), pb.Bytes()) {
			propeq = 1
		}
		// the signatures travel in wire form
		wire2sig := func(from string) (input.Signature, error) {
			if taproot {
				ms, ok := sigs[from].(*MusigPartialSig)
				if !ok {
					return nil, fmt.Errorf("not a partial sig: %T", sigs[from])
				}
				w := ms.ToWireSig()
				return new(MusigPartialSig).FromWireSig(&lnwire.PartialSigWithNonce{
					PartialSig: w.PartialSig, Nonce: nonces[from].PubNonce,
				}), nil
			}
			ws, err := lnwire.NewSigFromSignature(sigs[from])
			if err != nil {
				return nil, err
			}
			return ws.ToSignature()
		}
		done := map[string]*wire.MsgTx{}
		for _, p := range []string{"B", "A"} {
			q := c17Other(p)
			own, err1 := wire2sig(p)
			theirs, err2 := wire2sig(q)
			if err1 != nil || err2 != nil {
				res[p] = "other"
				errs[p] = fmt.Sprintf("sig conversion: %v / %v", err1, err2)
				continue
			}
			lc := c.lc[p]
			tx, _, err := lc.CompleteCooperativeClose(own, theirs, scripts[p], scripts[q], btcutil.Amount(fee),
				opts[p]...)
			if err != nil {
				res[p] = "complete"
				errs[p] = err.Error()
				continue
			}
			done[p] = tx
			fo := lc.signDesc.Output
			var sum int64
			for _, o := range tx.TxOut {
				sum += o.Value
				switch {
				case bytes.Equal(o.PkScript, scripts["A"]):
					has[p]["A"]++
					val[p]["A"] += o.Value
				case bytes.Equal(o.PkScript, scripts["B"]):
					has[p]["B"]++
					val[p]["B"] += o.Value
				default:
					extra[p]++
				}
			}
			if len(tx.TxIn) != 1 || tx.TxIn[0].PreviousOutPoint != lc.channelState.FundingOutpoint {
				extra[p] += 100
			}
			nout[p] = int64(len(tx.TxOut))
			txfee[p] = fo.Value - sum
			if c17Engine(fo.PkScript, fo.Value, tx) == nil {
				eng[p] = 1
			}
			seq = int64(tx.TxIn[0].Sequence)
		}
		if done["A"] != nil && done["B"] != nil {
			if done["A"].TxHash() == done["B"].TxHash() {
				txeq = 1
			}
			var ba, bb bytes.Buffer
			done["A"].Serialize(&ba)
			done["B"].Serialize(&bb)
			if bytes.Equal(ba.Bytes(), bb.Bytes()) {
				raweq = 1
			}
		}
	}
	rec["res"], rec["errs"], rec["has"], rec["val"], rec["extra"] = res, errs, has, val, extra
	rec["txfee"], rec["eng"], rec["nout"] = txfee, eng, nout
	rec["propeq"], rec["txeq"], rec["raweq"], rec["seq"] = propeq, txeq, raweq, seq
	return rec
}

func TestVerifC17CloseTx(t *testing.T) {
	testChannelCapacity = 0.01 // 1 000 000 sat: every msat amount fits TLC's 32-bit integers

	out := verifkit.MustWriter(verifkit.Env("VERIF_OUT", ".") + "/trace.ndjson")
	defer out.Close()

	// (a) TLC-generated behaviours
	dir := os.Getenv("VERIF_SCHED")
	files := verifkit.ListFiles(dir, "b_", ".ndjson")
	if len(files) == 0 && dir != "" {
		t.Fatalf("no schedules in %q", dir)
	}
	for _, f := range files {
		evs, err := verifkit.ReadNDJSONInto[c17Ev](f)
		if err != nil {
			t.Fatal(err)
		}
		if len(evs) == 0 || evs[0].A != "Cfg" {
			t.Fatalf("%s: first event must be Cfg", f)
		}
		c := c17New(t, evs[0].Type, evs[0].P, evs[0].X, evs[0].Y)
		out.Emit(c.reset(filepath.Base(f)))
		for _, e := range evs[1:] {
			switch e.A {
			case "Pay":
				if err := c.pay(e.P, e.X); err != nil {
					t.Fatalf("%s: %v: %v", f, e, err)
				}
				out.Emit(verifkit.Rec{"a": "Pay", "p": e.P, "x": e.X, "view": c.views()})
			case "Inject":
				c.inject(e.P, e.X)
				out.Emit(verifkit.Rec{"a": "Inject", "p": e.P, "x": e.X, "view": c.views()})
			case "Close":
				out.Emit(c.closeAt(e.P, e.X, e.Y))
			default:
				t.Fatalf("%s: unknown event %v", f, e)
			}
		}
	}

	// (b) free-running seeded driver: types, dust limits, fee rates, balances and fees the grid does not contain
	nfree := verifkit.EnvInt("VERIF_FREE", 0)
	rng := rand.New(rand.NewSource(verifkit.Seed()*7919 + 17))
	for i := 0; i < nfree; i++ {
		tname := c17TypeNames[rng.Intn(len(c17TypeNames))]
		opener := []string{"A", "B"}[rng.Intn(2)]
		c := c17New(t, tname, opener, 100+rng.Int63n(2900), 100+rng.Int63n(2900))
		out.Emit(c.reset(fmt.Sprintf("free_%d", i)))
		injected := false
		for step := 0; step < 12; step++ {
			// change the state
			switch k := rng.Intn(6); {
			case k <= 1 && !injected:
				f := []string{"A", "B"}[rng.Intn(2)]
				have := int64(c.lc[f].channelState.LocalCommitment.LocalBalance)
				if room := have - 60_000_000; room > 1000 {
					amt := 1 + rng.Int63n(room)
					if err := c.pay(f, amt); err != nil {
						t.Fatalf("free %d: pay %s %d: %v", i, f, amt, err)
					}
					out.Emit(verifkit.Rec{"a": "Pay", "p": f, "x": amt, "view": c.views()})
				}
			case k == 2 && !injected:
				// a real update_fee: the dangling commit fee changes (taken over from the recorded state)
				rate := 253 + rng.Int63n(20000)
				if err := c.updateFee(rate); err != nil {
					t.Fatalf("free %d: update_fee %d: %v", i, rate, err)
				}
				out.Emit(verifkit.Rec{"a": "Inject", "p": c.opener, "x": rate, "view": c.views(), "real": "update_fee"})
			default:
				side := []string{"A", "B"}[rng.Intn(2)]
				a := c.lc[side].channelState.LocalCommitment
				tot := int64(a.LocalBalance + a.RemoteBalance)
				var small int64
				switch rng.Intn(3) {
				case 0:
					small = rng.Int63n(3_200_000)
				case 1:
					small = rng.Int63n(40_000_000)
				default:
					small = rng.Int63n(tot + 1)
				}
				c.inject(side, small)
				injected = true
				out.Emit(verifkit.Rec{"a": "Inject", "p": side, "x": small, "view": c.views()})
			}
			// close a few times
			for j := 0; j < 3; j++ {
				payer := c.opener
				rbf := int64(rng.Intn(2))
				if rbf == 1 && rng.Intn(2) == 0 {
					payer = c17Other(payer)
				}
				lcm := c.lc[payer].channelState.LocalCommitment
				funds := int64(lcm.LocalBalance.ToSatoshis())
				if payer == c.opener {
					funds += int64(lcm.CommitFee)
					if c.lc[payer].channelState.ChanType.HasAnchors() {
						funds += 2 * int64(AnchorSize)
					}
				}
				var fee int64
				switch rng.Intn(5) {
				case 0:
					fee = rng.Int63n(3000)
				case 1:
					fee = funds - 3 + rng.Int63n(7)
				case 2:
					fee = funds - 3300 + rng.Int63n(3400)
				case 3:
					fee = rng.Int63n(funds + 1)
				default:
					fee = rng.Int63n(1_100_000)
				}
				if fee < 0 {
					fee = 0
				}
				out.Emit(c.closeAt(payer, fee, rbf))
			}
		}
	}
}
