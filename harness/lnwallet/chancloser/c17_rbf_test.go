//go:build verif

package chancloser

import (
	"bytes"
	"context"
	"errors"
	"fmt"
	"math/rand"
	"os"
	"path/filepath"
	"strings"
	"testing"
	"time"

	"github.com/btcsuite/btcd/btcec/v2"
	"github.com/btcsuite/btcd/btcutil/v2"
	"github.com/btcsuite/btcd/chaincfg/v2"
	"github.com/btcsuite/btcd/chainhash/v2"
	"github.com/btcsuite/btcd/wire/v2"
	"github.com/lightningnetwork/lnd/chainntnfs"
	"github.com/lightningnetwork/lnd/channeldb"
	"github.com/lightningnetwork/lnd/fn/v2"
	"github.com/lightningnetwork/lnd/internal/verifkit"
	"github.com/lightningnetwork/lnd/lntypes"
	"github.com/lightningnetwork/lnd/lnwallet"
	"github.com/lightningnetwork/lnd/lnwallet/chainfee"
	"github.com/lightningnetwork/lnd/lnwire"
	"github.com/lightningnetwork/lnd/protofsm"
)

// Coarse executor for the RBF-coop flow (C17): ONE closing_complete /
// closing_sig round per step, driven through the real state transition
// functions LocalCloseStart / RemoteCloseStart / LocalOfferSent.ProcessEvent
// of both parties over a real lnwallet channel pair (non-taproot types).
// The protofsm event loop, shutdown and flushing are not exercised.  Recorded:
// the closer's pre-check outcome, and for a completed round the two
// transactions (closer's and closee's ClosePending.CloseTx) as in part I.
// CoopCloseTrace.tla (action RbfRound) judges.

// c17RbfEstimator: SendOfferEvent carries sat/vbyte; FeePerKWeight multiplies by 250.
type c17RbfEstimator struct{}

func (c17RbfEstimator) EstimateFee(_ channeldb.ChannelType, _, _ *wire.TxOut,
	rate chainfee.SatPerKWeight) btcutil.Amount {

	return btcutil.Amount(rate / 250)
}

type c17Observer struct{}

func (c17Observer) NoDanglingUpdates() bool                     { return true }
func (c17Observer) DisableIncomingAdds() error                  { return nil }
func (c17Observer) DisableOutgoingAdds() error                  { return nil }
func (c17Observer) DisableChannel() error                       { return nil }
func (c17Observer) MarkCoopBroadcasted(*wire.MsgTx, bool) error { return nil }
func (c17Observer) MarkShutdownSent([]byte, bool) error         { return nil }
func (c17Observer) FinalBalances() fn.Option[ShutdownBalances]  { return fn.None[ShutdownBalances]() }

type c17RbfView struct {
	Our   int64 `json:"our"`
	Their int64 `json:"their"`
	Cfee  int64 `json:"cfee"`
}

func c17Msgs(tr *CloseStateTransition) []lnwire.Message {
	var out []lnwire.Message
	if tr == nil {
		return nil
	}
	tr.NewEvents.WhenSome(func(e protofsm.EmittedEvent[ProtocolEvent]) {
		for _, d := range e.ExternalEvents {
			if s, ok := d.(*protofsm.SendMsgEvent[ProtocolEvent]); ok {
				out = append(out, s.Msgs...)
			}
		}
	})
	return out
}

func TestVerifC17RbfRound(t *testing.T) {
	out := verifkit.MustWriter(verifkit.Env("VERIF_OUT", ".") + "/trace.ndjson")
	defer out.Close()
	n := verifkit.EnvInt("VERIF_RBF", 40)
	rng := rand.New(rand.NewSource(verifkit.Seed()*15485863 + 5))

	for i := 0; i < n; i++ {
		x := c17Legacy[rng.Intn(len(c17Legacy))]
		alice, bob, err := lnwallet.CreateTestChannels(t, x.t)
		if err != nil {
			t.Fatal(err)
		}
		if alice.State().Capacity > 2_000_000 {
			t.Fatalf("fixture capacity %v: run with the lowered-capacity overlay of lnwallet/test_utils.go",
				alice.State().Capacity)
		}
		// alice (the fixture's initiator) is the model's party A
		lcs := map[string]*lnwallet.LightningChannel{"A": alice, "B": bob}
		views := func() map[string]c17RbfView {
			m := map[string]c17RbfView{}
			for p, lc := range lcs {
				c := lc.State().LocalCommitment
				m[p] = c17RbfView{int64(c.LocalBalance), int64(c.RemoteBalance), int64(c.CommitFee)}
			}
			return m
		}
		dust := map[string]map[string]int64{}
		for p, lc := range lcs {
			dust[p] = map[string]int64{
				p:           int64(lc.State().LocalChanCfg.DustLimit),
				c17Other(p): int64(lc.State().RemoteChanCfg.DustLimit),
			}
		}
		bit := func(b bool) int {
			if b {
				return 1
			}
			return 0
		}
		out.Emit(verifkit.Rec{"a": "Reset", "kind": "tx", "type": x.name, "file": fmt.Sprintf("rbf_%d", i),
			"opener": "A", "anchors": bit(x.t.HasAnchors()), "taproot": 0, "cap": int64(alice.State().Capacity),
			"dust": dust, "view": views()})

		scripts := map[string][]byte{
			"A": append([]byte{0x00, 0x14}, bytes.Repeat([]byte{byte(0x31 + i%9)}, 20)...),
			"B": append([]byte{0x00, 0x20}, bytes.Repeat([]byte{byte(0xb1 + i%5)}, 32)...),
		}
		envs := map[string]*Environment{}
		for p, lc := range lcs {
			st := lc.State()
			envs[p] = &Environment{
				ChainParams:  chaincfg.RegressionNetParams,
				ChanPeer:     *st.IdentityPub,
				ChanPoint:    st.FundingOutpoint,
				ChanID:       lnwire.NewChanIDFromOutPoint(st.FundingOutpoint),
				Scid:         st.ShortChanID(),
				ChanType:     st.ChanType,
				BlockHeight:  0, // as peer.Brontide builds it
				FeeEstimator: c17RbfEstimator{},
				ChanObserver: c17Observer{},
				CloseSigner:  lc,
			}
		}

		for step := 0; step < 6; step++ {
			// a balance split (written into both channel states) ...
			if step%2 == 0 {
				side := []string{"A", "B"}[rng.Intn(2)]
				a := lcs[side].State()
				b := lcs[c17Other(side)].State()
				tot := int64(a.LocalCommitment.LocalBalance + a.LocalCommitment.RemoteBalance)
				var small int64
				switch rng.Intn(3) {
				case 0:
					small = rng.Int63n(2_000_000)
				case 1:
					small = rng.Int63n(30_000_000)
				default:
					small = rng.Int63n(tot + 1)
				}
				a.LocalCommitment.LocalBalance, a.LocalCommitment.RemoteBalance = lnwire.MilliSatoshi(small), lnwire.MilliSatoshi(tot-small)
				b.LocalCommitment.LocalBalance, b.LocalCommitment.RemoteBalance = lnwire.MilliSatoshi(tot-small), lnwire.MilliSatoshi(small)
				out.Emit(verifkit.Rec{"a": "Inject", "p": side, "x": small, "view": views()})
			}
			// ... and one RBF round: `closer` offers `fee`
			closer := []string{"A", "B"}[rng.Intn(2)]
			closee := c17Other(closer)
			net := int64(lcs[closer].State().LocalCommitment.LocalBalance.ToSatoshis())
			var fee int64
			switch rng.Intn(4) {
			case 0:
				fee = 1 + rng.Int63n(3000)
			case 1:
				fee = net - 2 + rng.Int63n(5)
			case 2:
				fee = net - 1500 + rng.Int63n(1600)
			default:
				fee = 1 + rng.Int63n(net+10)
			}
			if fee < 1 {
				fee = 1
			}
			terms := func(p string) *CloseChannelTerms {
				c := lcs[p].State().LocalCommitment
				return &CloseChannelTerms{
					ShutdownScripts: ShutdownScripts{
						LocalDeliveryScript:  scripts[p],
						RemoteDeliveryScript: scripts[c17Other(p)],
					},
					ShutdownBalances: ShutdownBalances{LocalBalance: c.LocalBalance, RemoteBalance: c.RemoteBalance},
				}
			}
			rec := verifkit.Rec{"a": "Rbf", "p": closer, "x": fee, "y": 1}
			zero := func() map[string]int64 { return map[string]int64{"A": 0, "B": 0} }
			res := map[string]string{"A": "other", "B": "other"}
			errs := map[string]string{"A": "", "B": ""}
			has := map[string]map[string]int64{"A": zero(), "B": zero()}
			val := map[string]map[string]int64{"A": zero(), "B": zero()}
			extra, txfee, eng, nout := zero(), zero(), zero(), zero()
			txeq, raweq := 0, 0
			txs := map[string]*wire.MsgTx{}

			class := func(err error) string {
				switch {
				case err == nil:
					return "ok"
				case errors.Is(err, ErrRemoteCannotPay):
					return "cantpay"
				case bytes.Contains([]byte(err.Error()), []byte("cannot afford")):
					return "unaffordable"
				case bytes.Contains([]byte(err.Error()), []byte("transaction has no outputs")):
					return "nooutputs"
				default:
					return "other"
				}
			}
			func() {
				tr, err := (&LocalCloseStart{CloseChannelTerms: terms(closer)}).ProcessEvent(
					&SendOfferEvent{TargetFeeRate: chainfee.SatPerVByte(fee)}, envs[closer])
				if err != nil {
					// the closer could not build its own proposal: nothing is sent
					res[closer], errs[closer] = class(err), err.Error()
					res[closee] = res[closer]
					return
				}
				if ce, ok := tr.NextState.(*CloseErr); ok {
					res["A"], res["B"] = "cantpay", "cantpay"
					errs[closer] = ce.ErrState.Error()
					return
				}
				los, ok := tr.NextState.(*LocalOfferSent)
				msgs := c17Msgs(tr)
				if !ok || len(msgs) != 1 {
					errs[closer] = fmt.Sprintf("unexpected next state %T / %d msgs", tr.NextState, len(msgs))
					return
				}
				cc, ok := msgs[0].(*lnwire.ClosingComplete)
				if !ok || int64(cc.FeeSatoshis) != fee {
					errs[closer] = fmt.Sprintf("unexpected message %T", msgs[0])
					return
				}
				tr2, err := (&RemoteCloseStart{CloseChannelTerms: terms(closee)}).ProcessEvent(
					&OfferReceivedEvent{SigMsg: *cc}, envs[closee])
				if err != nil {
					res[closee], errs[closee] = class(err), err.Error()
					return
				}
				cp, ok := tr2.NextState.(*ClosePending)
				msgs = c17Msgs(tr2)
				if !ok || len(msgs) != 1 {
					errs[closee] = fmt.Sprintf("unexpected next state %T / %d msgs", tr2.NextState, len(msgs))
					return
				}
				res[closee], txs[closee] = "ok", cp.CloseTx
				cs, ok := msgs[0].(*lnwire.ClosingSig)
				if !ok {
					errs[closee] = fmt.Sprintf("unexpected message %T", msgs[0])
					return
				}
				tr3, err := los.ProcessEvent(&LocalSigReceived{SigMsg: *cs}, envs[closer])
				if err != nil {
					res[closer], errs[closer] = class(err), err.Error()
					return
				}
				cp2, ok := tr3.NextState.(*ClosePending)
				if !ok {
					errs[closer] = fmt.Sprintf("unexpected next state %T", tr3.NextState)
					return
				}
				res[closer], txs[closer] = "ok", cp2.CloseTx
			}()
			seq := int64(-1)
			for p, tx := range txs {
				fo := lcs[p].FundingTxOut()
				var sum int64
				for _, o := range tx.TxOut {
					sum += o.Value
					switch {
					case bytes.Equal(o.PkScript, scripts["A"]):
						has[p]["A"]++
						val[p]["A"] += o.Value
					case bytes.Equal(o.PkScript, scripts["B"]):
						has[p]["B"]++
						val[p]["B"] += o.Value
					default:
						extra[p]++
					}
				}
				if len(tx.TxIn) != 1 || tx.TxIn[0].PreviousOutPoint != lcs[p].State().FundingOutpoint || tx.LockTime != 0 {
					extra[p] += 100
				}
				nout[p], txfee[p] = int64(len(tx.TxOut)), fo.Value-sum
				if c17Engine(fo, tx) == nil {
					eng[p] = 1
				}
				seq = int64(tx.TxIn[0].Sequence)
			}
			if txs["A"] != nil && txs["B"] != nil {
				txeq = bit(txs["A"].TxHash() == txs["B"].TxHash())
				var ba, bb bytes.Buffer
				txs["A"].Serialize(&ba)
				txs["B"].Serialize(&bb)
				raweq = bit(bytes.Equal(ba.Bytes(), bb.Bytes()))
			}
			rec["res"], rec["errs"], rec["has"], rec["val"], rec["extra"] = res, errs, has, val, extra
			rec["txfee"], rec["eng"], rec["nout"] = txfee, eng, nout
			rec["propeq"], rec["txeq"], rec["raweq"], rec["seq"] = txeq, txeq, raweq, seq
			out.Emit(rec)
		}
	}
}

// ---------------------------------------------------------------------------
// Multi-round RBF histories over the REAL state machine.
//
// Both parties run a real protofsm.StateMachine (RbfChanCloser, as
// peer.Brontide and the package's rbf harness start it) in the
// ClosingNegotiation state over a real lnwallet channel pair; the daemon
// adapters forward closing_complete / closing_sig to the other machine and
// capture the broadcasts.  TLC-generated round sequences (CoopCloseGen /
// RbfGSpec): rounds started by either side, fee bumps and drops, the closer
// moving to another delivery script with its offer (the harness plays a peer
// that supports changing its address: it rewrites that machine's own
// LocalDeliveryScript in the shared close terms before the offer).  Recorded
// per round: what closing_complete / closing_sig announced, both broadcast
// transactions with the script each output pays.  CoopCloseTrace (RbfOffer,
// ConformScripts, TermsAgree) judges.

type c17Daemon struct {
	msgs chan lnwire.Message
	txs  chan *wire.MsgTx
}

func (d *c17Daemon) SendMessages(_ btcec.PublicKey, msgs []lnwire.Message) error {
	for _, m := range msgs {
		d.msgs <- m
	}
	return nil
}

func (d *c17Daemon) BroadcastTransaction(tx *wire.MsgTx, _ string) error {
	d.txs <- tx
	return nil
}

func (d *c17Daemon) RegisterConfirmationsNtfn(*chainhash.Hash, []byte, uint32, uint32,
	...chainntnfs.NotifierOption) (*chainntnfs.ConfirmationEvent, error) {

	return &chainntnfs.ConfirmationEvent{Confirmed: make(chan *chainntnfs.TxConfirmation)}, nil
}

func (d *c17Daemon) RegisterSpendNtfn(*wire.OutPoint, []byte, uint32) (*chainntnfs.SpendEvent, error) {
	return &chainntnfs.SpendEvent{Spend: make(chan *chainntnfs.SpendDetail)}, nil
}

type c17Reporter struct{ errs chan error }

func (r *c17Reporter) ReportError(err error) {
	select {
	case r.errs <- err:
	default:
	}
}

type c17RbfEv struct {
	A    string `json:"a"`
	P    string `json:"p"`
	X    int64  `json:"x"`
	Y    int64  `json:"y"`
	Type string `json:"type"`
}

type c17Machine struct {
	sm    *RbfChanCloser
	d     *c17Daemon
	rep   *c17Reporter
	terms *CloseChannelTerms
	dead  bool
}

func c17RbfClass(err error) string {
	switch {
	case err == nil:
		return "ok"
	case errors.Is(err, ErrWrongLocalScript):
		return "wrongscript"
	case errors.Is(err, ErrRemoteCannotPay):
		return "cantpay"
	case strings.Contains(err.Error(), "cannot afford"):
		return "unaffordable"
	case strings.Contains(err.Error(), "transaction has no outputs"):
		return "nooutputs"
	default:
		return "other"
	}
}

func TestVerifC17RbfMulti(t *testing.T) {
	out := verifkit.MustWriter(verifkit.Env("VERIF_OUT", ".") + "/trace.ndjson")
	defer out.Close()
	dir := os.Getenv("VERIF_SCHED")
	files := verifkit.ListFiles(dir, "r_", ".ndjson")
	if len(files) == 0 {
		t.Fatalf("no schedules in %q", dir)
	}
	types := map[string]channeldb.ChannelType{}
	for _, x := range c17Legacy {
		types[x.name] = x.t
	}
	// taproot channels: both machines get the MuSig2 sessions peer.Brontide gives them (c17Musig = the harness
	// copy of peer.MusigChanCloser) and the closee nonces the two shutdown messages would have exchanged
	for _, x := range c17Taproot {
		types[x.name] = x.t
	}
	bit := func(b bool) int {
		if b {
			return 1
		}
		return 0
	}
	ctx, cancel := context.WithCancel(context.Background())
	defer cancel()

	for fi, f := range files {
		evs, err := verifkit.ReadNDJSONInto[c17RbfEv](f)
		if err != nil {
			t.Fatal(err)
		}
		if len(evs) == 0 || evs[0].A != "Cfg" {
			t.Fatalf("%s: first event must be Cfg", f)
		}
		ctype, ok := types[evs[0].Type]
		if !ok {
			t.Fatalf("%s: channel type %q", f, evs[0].Type)
		}
		alice, bob, err := lnwallet.CreateTestChannels(t, ctype)
		if err != nil {
			t.Fatal(err)
		}
		if alice.State().Capacity > 2_000_000 {
			t.Fatalf("fixture capacity %v: run with the lowered-capacity overlay of lnwallet/test_utils.go",
				alice.State().Capacity)
		}
		// alice (the fixture's initiator) plays the model's opener
		opener := evs[0].P
		lcs := map[string]*lnwallet.LightningChannel{opener: alice, c17Other(opener): bob}
		dustOf := map[string]int64{"A": evs[0].X, "B": evs[0].Y}
		for p, lc := range lcs {
			lc.State().LocalChanCfg.DustLimit = btcutil.Amount(dustOf[p])
			lc.State().RemoteChanCfg.DustLimit = btcutil.Amount(dustOf[c17Other(p)])
		}
		views := func() map[string]c17RbfView {
			m := map[string]c17RbfView{}
			for p, lc := range lcs {
				c := lc.State().LocalCommitment
				m[p] = c17RbfView{int64(c.LocalBalance), int64(c.RemoteBalance), int64(c.CommitFee)}
			}
			return m
		}
		dust := map[string]map[string]int64{}
		for p, lc := range lcs {
			dust[p] = map[string]int64{
				p:           int64(lc.State().LocalChanCfg.DustLimit),
				c17Other(p): int64(lc.State().RemoteChanCfg.DustLimit),
			}
		}
		out.Emit(verifkit.Rec{"a": "Reset", "kind": "tx", "type": evs[0].Type, "file": filepath.Base(f),
			"opener": opener, "anchors": bit(ctype.HasAnchors()), "taproot": bit(ctype.IsTaproot()),
			"cap": int64(alice.State().Capacity), "dust": dust, "view": views()})

		// three delivery scripts per party (p2wpkh, p2wsh, p2tr)
		mk := func(prefix []byte, l int, fill byte) []byte {
			return append(append([]byte{}, prefix...), bytes.Repeat([]byte{fill}, l)...)
		}
		b0 := byte(fi % 13)
		tbl := map[string][][]byte{
			"A": {mk([]byte{0x00, 0x14}, 20, 0x10+b0), mk([]byte{0x00, 0x20}, 32, 0x30+b0), mk([]byte{0x51, 0x20}, 32, 0x50+b0)},
			"B": {mk([]byte{0x51, 0x20}, 32, 0x90+b0), mk([]byte{0x00, 0x14}, 20, 0xb0+b0), mk([]byte{0x00, 0x20}, 32, 0xd0+b0)},
		}
		lookup := func(script []byte) (string, int64) {
			for o, ss := range tbl {
				for i, x := range ss {
					if bytes.Equal(x, script) {
						return o, int64(i)
					}
				}
			}
			return "", -1
		}

		evs = evs[1:]
		if len(evs) > 0 && evs[0].A == "Inject" {
			side, small := evs[0].P, evs[0].X
			a, b := lcs[side].State(), lcs[c17Other(side)].State()
			tot := int64(a.LocalCommitment.LocalBalance + a.LocalCommitment.RemoteBalance)
			a.LocalCommitment.LocalBalance, a.LocalCommitment.RemoteBalance = lnwire.MilliSatoshi(small), lnwire.MilliSatoshi(tot-small)
			b.LocalCommitment.LocalBalance, b.LocalCommitment.RemoteBalance = lnwire.MilliSatoshi(tot-small), lnwire.MilliSatoshi(small)
			out.Emit(verifkit.Rec{"a": "Inject", "p": side, "x": small, "view": views()})
			evs = evs[1:]
		}

		// taproot: the sessions of both parties and the closee nonce each sent in its shutdown
		// (sendShutdownEvents: RemoteMusigSession.ClosingNonce)
		type sessions struct{ local, remote *c17Musig }
		sess := map[string]sessions{}
		closeeNonce := map[string]fn.Option[lnwire.Musig2Nonce]{"A": fn.None[lnwire.Musig2Nonce](), "B": fn.None[lnwire.Musig2Nonce]()}
		if ctype.IsTaproot() {
			for p, lc := range lcs {
				sess[p] = sessions{&c17Musig{channel: lc}, &c17Musig{channel: lc}}
				n, err := sess[p].remote.ClosingNonce()
				if err != nil {
					t.Fatal(err)
				}
				closeeNonce[p] = fn.Some(lnwire.Musig2Nonce(n.PubNonce))
			}
		}

		// the two real state machines, started in ClosingNegotiation as after shutdown + flush
		ms := map[string]*c17Machine{}
		for p, lc := range lcs {
			st := lc.State()
			c := st.LocalCommitment
			terms := &CloseChannelTerms{
				ShutdownScripts: ShutdownScripts{
					LocalDeliveryScript:  tbl[p][0],
					RemoteDeliveryScript: tbl[c17Other(p)][0],
				},
				ShutdownBalances: ShutdownBalances{LocalBalance: c.LocalBalance, RemoteBalance: c.RemoteBalance},
				NonceState: NonceState{
					LocalCloseeNonce:  closeeNonce[p],
					RemoteCloseeNonce: closeeNonce[c17Other(p)],
				},
			}
			first := &ClosingNegotiation{
				PeerState: lntypes.Dual[AsymmetricPeerState]{
					Local:  &LocalCloseStart{CloseChannelTerms: terms},
					Remote: &RemoteCloseStart{CloseChannelTerms: terms},
				},
				CloseChannelTerms: terms,
			}
			env := &Environment{
				ChainParams:  chaincfg.RegressionNetParams,
				ChanPeer:     *st.IdentityPub,
				ChanPoint:    st.FundingOutpoint,
				ChanID:       lnwire.NewChanIDFromOutPoint(st.FundingOutpoint),
				Scid:         st.ShortChanID(),
				ChanType:     st.ChanType,
				FeeEstimator: c17RbfEstimator{},
				ChanObserver: c17Observer{},
				CloseSigner:  lc,
			}
			if ctype.IsTaproot() {
				env.LocalMusigSession, env.RemoteMusigSession = sess[p].local, sess[p].remote
			}
			d := &c17Daemon{msgs: make(chan lnwire.Message, 16), txs: make(chan *wire.MsgTx, 16)}
			rep := &c17Reporter{errs: make(chan error, 4)}
			sm := protofsm.NewStateMachine(RbfChanCloserCfg{
				ErrorReporter:      rep,
				Daemon:             d,
				InitialState:       first,
				Env:                env,
				CustomPollInterval: fn.Some(time.Millisecond),
			})
			sm.Start(ctx)
			ms[p] = &c17Machine{sm: &sm, d: d, rep: rep, terms: terms}
		}
		stop := func() {
			for _, m := range ms {
				m.sm.Stop()
			}
		}

		// localHalf returns the local half of a machine's composite state
		localHalf := func(m *c17Machine) AsymmetricPeerState {
			st, err := m.sm.CurrentState()
			if err != nil {
				return nil
			}
			cn, ok := st.(*ClosingNegotiation)
			if !ok {
				return nil
			}
			return cn.PeerState.GetForParty(lntypes.Local)
		}
		const patience = 15 * time.Second

		for _, e := range evs {
			if e.A != "RbfM" {
				t.Fatalf("%s: unexpected event %v", f, e)
			}
			closer, closee := e.P, c17Other(e.P)
			mc, me := ms[closer], ms[closee]
			fee, k := e.X, e.Y

			rec := verifkit.Rec{"a": "RbfM", "p": closer, "x": fee, "y": 1, "k": k}
			zero := func() map[string]int64 { return map[string]int64{"A": 0, "B": 0} }
			neg := func() map[string]int64 { return map[string]int64{"A": -1, "B": -1} }
			res := map[string]string{"A": "other", "B": "other"}
			errs := map[string]string{"A": "", "B": ""}
			has := map[string]map[string]int64{"A": zero(), "B": zero()}
			val := map[string]map[string]int64{"A": zero(), "B": zero()}
			sidx := map[string]map[string]int64{"A": neg(), "B": neg()}
			ann := map[string]int64{"cc_closer": -1, "cc_closee": -1, "cs_closer": -1, "cs_closee": -1}
			extra, txfee, eng, nout := zero(), zero(), zero(), zero()
			txs := map[string]*wire.MsgTx{}
			fatal := false

			func() {
				// the closer moves to script k with this offer
				mc.terms.LocalDeliveryScript = tbl[closer][k]
				before := localHalf(mc)
				mc.sm.SendEvent(ctx, &SendOfferEvent{TargetFeeRate: chainfee.SatPerVByte(fee)})

				var cc *lnwire.ClosingComplete
				deadline := time.Now().Add(patience)
			waitOffer:
				for {
					select {
					case m := <-mc.d.msgs:
						c, ok := m.(*lnwire.ClosingComplete)
						if !ok {
							errs[closer], fatal = fmt.Sprintf("unexpected message %T", m), true
							return
						}
						cc = c
						break waitOffer
					case err := <-mc.rep.errs:
						res[closer], errs[closer] = c17RbfClass(err), err.Error()
						res[closee], fatal, mc.dead = res[closer], true, true
						return
					case <-time.After(2 * time.Millisecond):
						if ce, ok := localHalf(mc).(*CloseErr); ok && AsymmetricPeerState(ce) != before {
							res["A"], res["B"] = "cantpay", "cantpay"
							errs[closer] = ce.ErrState.Error()
							return
						}
						if time.Now().After(deadline) {
							errs[closer], fatal = "timeout waiting for closing_complete", true
							return
						}
					}
				}
				_, ann["cc_closer"] = lookup(cc.CloserScript)
				_, ann["cc_closee"] = lookup(cc.CloseeScript)
				rec["ccfee"] = int64(cc.FeeSatoshis)

				me.sm.SendEvent(ctx, &OfferReceivedEvent{SigMsg: *cc})
				var cs *lnwire.ClosingSig
				select {
				case m := <-me.d.msgs:
					c, ok := m.(*lnwire.ClosingSig)
					if !ok {
						errs[closee], fatal = fmt.Sprintf("unexpected message %T", m), true
						return
					}
					cs = c
				case err := <-me.rep.errs:
					res[closee], errs[closee] = c17RbfClass(err), err.Error()
					res[closer], fatal, me.dead = "noreply", true, true
					return
				case <-time.After(patience):
					errs[closee], fatal = "timeout waiting for closing_sig", true
					return
				}
				select {
				case tx := <-me.d.txs:
					res[closee], txs[closee] = "ok", tx
				case <-time.After(patience):
					errs[closee], fatal = "timeout waiting for the closee's broadcast", true
					return
				}
				_, ann["cs_closer"] = lookup(cs.CloserScript)
				_, ann["cs_closee"] = lookup(cs.CloseeScript)

				mc.sm.SendEvent(ctx, &LocalSigReceived{SigMsg: *cs})
				select {
				case tx := <-mc.d.txs:
					res[closer], txs[closer] = "ok", tx
				case err := <-mc.rep.errs:
					res[closer], errs[closer] = c17RbfClass(err), err.Error()
					fatal, mc.dead = true, true
				case <-time.After(patience):
					errs[closer], fatal = "timeout waiting for the closer's broadcast", true
				}
			}()

			seq := int64(-1)
			for p, tx := range txs {
				fo := lcs[p].FundingTxOut()
				var sum int64
				for _, o := range tx.TxOut {
					sum += o.Value
					owner, idx := lookup(o.PkScript)
					if owner == "" {
						extra[p]++
						continue
					}
					has[p][owner]++
					val[p][owner] += o.Value
					sidx[p][owner] = idx
				}
				if len(tx.TxIn) != 1 || tx.TxIn[0].PreviousOutPoint != lcs[p].State().FundingOutpoint {
					extra[p] += 100
				}
				nout[p], txfee[p] = int64(len(tx.TxOut)), fo.Value-sum
				if c17Engine(fo, tx) == nil {
					eng[p] = 1
				}
				seq = int64(tx.TxIn[0].Sequence)
			}
			txeq, raweq := 0, 0
			if txs["A"] != nil && txs["B"] != nil {
				txeq = bit(txs["A"].TxHash() == txs["B"].TxHash())
				var ba, bb bytes.Buffer
				txs["A"].Serialize(&ba)
				txs["B"].Serialize(&bb)
				raweq = bit(bytes.Equal(ba.Bytes(), bb.Bytes()))
			}
			rec["res"], rec["errs"], rec["has"], rec["val"], rec["extra"] = res, errs, has, val, extra
			rec["txfee"], rec["eng"], rec["nout"], rec["sidx"], rec["ann"] = txfee, eng, nout, sidx, ann
			rec["propeq"], rec["txeq"], rec["raweq"], rec["seq"] = txeq, txeq, raweq, seq
			out.Emit(rec)
			if fatal || res["A"] != res["B"] || (res["A"] != "ok" && res["A"] != "cantpay") {
				break // a machine stopped (or the harness lost track): the history ends here
			}
		}
		stop()
	}
}
