//go:build verif

package chancloser

import (
	"bytes"
	"context"
	"errors"
	"fmt"
	"os"
	"path/filepath"
	"strings"
	"testing"
	"time"

	"github.com/btcsuite/btcd/btcutil/v2"
	"github.com/btcsuite/btcd/chaincfg/v2"
	"github.com/btcsuite/btcd/mempool"
	"github.com/btcsuite/btcd/wire/v2"
	"github.com/lightningnetwork/lnd/channeldb"
	"github.com/lightningnetwork/lnd/fn/v2"
	"github.com/lightningnetwork/lnd/input"
	"github.com/lightningnetwork/lnd/internal/verifkit"
	"github.com/lightningnetwork/lnd/lntypes"
	"github.com/lightningnetwork/lnd/lnwallet"
	"github.com/lightningnetwork/lnd/lnwallet/chainfee"
	"github.com/lightningnetwork/lnd/lnwire"
	"github.com/lightningnetwork/lnd/protofsm"
	"github.com/lightningnetwork/lnd/tlv"
)

// Executor of spec/CoopClose part III (C17): ONE real RBF closer (protofsm
// RbfChanCloser in ClosingNegotiation over a real lnwallet channel) against a
// MODEL-DRIVEN peer.  The peer is no second lnd state machine: it is the other
// LightningChannel of the pair used as a signing device, and everything BOLT 2
// leaves to a closer - fee, nLockTime, delivery script, signature field - as
// well as the closee's answer (which field it selects, whether it signs) comes
// from the TLC-generated schedule (CoopCloseGen / PeerGSpec):
//
//	POffer  the peer signs its closing transaction (CreateCloseProposal with
//	        the schedule's fee / lock time / script) and queues closing_complete
//	NReply  the oldest queued closing_complete is delivered to the node; the
//	        node's closing_sig and broadcast (or its error) are recorded; with
//	        the closing_sig the peer completes ITS transaction
//	NOffer  SendOfferEvent to the node; its closing_complete is recorded
//	PReply  the peer answers the node's closing_complete as the schedule says
//	        (refuse, or build the described transaction with the announced
//	        lock time, verify the node's signature, queue closing_sig behind
//	        the messages it sent before: the transport is ordered)
//	NSig    the queued closing_sig is delivered to the node; its broadcast (or
//	        its error) is recorded
//
// Recorded per step: error classes, every message field, both transactions
// (outputs by owner, lock time, fee, script-engine verdict, byte equality).
// No judgement here: CoopCloseTrace.tla (PeerOffer / NodeReply / NodeOffer /
// PeerReply + Conform* + PeerInvariants) decides.

type c17PeerEv struct {
	A    string `json:"a"`
	P    string `json:"p"`
	X    int64  `json:"x"`
	Y    int64  `json:"y"`
	Lt   int64  `json:"lt"`
	F    string `json:"f"`
	Res  string `json:"res"`
	Sel  string `json:"sel"`
	Type string `json:"type"`
	Node string `json:"node"`
	Envh int64  `json:"envh"`
	Ht   int64  `json:"ht"`
}

// c17PeerClass: error classes of the node's machine in part III.
func c17PeerClass(err error) string {
	switch {
	case err == nil:
		return "ok"
	case errors.Is(err, ErrWrongLocalScript):
		return "wrongscript"
	case errors.Is(err, ErrRemoteCannotPay):
		return "cantpay"
	case errors.Is(err, ErrCloserNoClosee), errors.Is(err, ErrCloserAndClosee), errors.Is(err, ErrNoSig):
		return "nosig"
	case strings.Contains(err.Error(), "cannot afford"):
		return "unaffordable"
	case strings.Contains(err.Error(), "transaction has no outputs"):
		return "nooutputs"
	case strings.Contains(err.Error(), "unable to complete coop close"):
		return "badsig"
	default:
		return "other"
	}
}

// a message of the peer waiting for the node: closing_complete (cc) or closing_sig (cs, with the transaction the
// peer completed when it signed)
type c17PeerOffer struct {
	cc      *lnwire.ClosingComplete
	sig     input.Signature
	fee     int64
	lt      uint32
	cscript []byte
	cs      *lnwire.ClosingSig
	ptx     *wire.MsgTx
}

func c17SigField(f string, sig lnwire.Sig) lnwire.ClosingSigs {
	var cs lnwire.ClosingSigs
	switch f {
	case "closer":
		cs.CloserNoClosee = tlv.SomeRecordT(tlv.NewRecordT[tlv.TlvType1](sig))
	case "closee":
		cs.NoCloserClosee = tlv.SomeRecordT(tlv.NewRecordT[tlv.TlvType2](sig))
	default:
		cs.CloserAndClosee = tlv.SomeRecordT(tlv.NewRecordT[tlv.TlvType3](sig))
	}
	return cs
}

// which fields are set, and the signature of field f
func c17Fields(cs lnwire.ClosingSigs) (map[string]int64, map[string]lnwire.Sig) {
	set := map[string]int64{"closer": 0, "closee": 0, "both": 0}
	sigs := map[string]lnwire.Sig{}
	cs.CloserNoClosee.WhenSomeV(func(s lnwire.Sig) { set["closer"], sigs["closer"] = 1, s })
	cs.NoCloserClosee.WhenSomeV(func(s lnwire.Sig) { set["closee"], sigs["closee"] = 1, s })
	cs.CloserAndClosee.WhenSomeV(func(s lnwire.Sig) { set["both"], sigs["both"] = 1, s })
	return set, sigs
}

func TestVerifC17Peer(t *testing.T) {
	out := verifkit.MustWriter(verifkit.Env("VERIF_OUT", ".") + "/trace_peer.ndjson")
	defer out.Close()
	dir := os.Getenv("VERIF_SCHED_PEER")
	files := verifkit.ListFiles(dir, "p_", ".ndjson")
	if len(files) == 0 {
		t.Fatalf("no schedules in %q", dir)
	}
	types := map[string]channeldb.ChannelType{}
	for _, x := range c17Legacy {
		types[x.name] = x.t
	}
	bit := func(b bool) int64 {
		if b {
			return 1
		}
		return 0
	}
	ctx, cancel := context.WithCancel(context.Background())
	defer cancel()
	const patience = 15 * time.Second

	for fi, f := range files {
		evs, err := verifkit.ReadNDJSONInto[c17PeerEv](f)
		if err != nil {
			t.Fatal(err)
		}
		if len(evs) == 0 || evs[0].A != "Cfg" {
			t.Fatalf("%s: first event must be Cfg", f)
		}
		cfg := evs[0]
		ctype, ok := types[cfg.Type]
		if !ok {
			t.Fatalf("%s: channel type %q", f, cfg.Type)
		}
		alice, bob, err := lnwallet.CreateTestChannels(t, ctype)
		if err != nil {
			t.Fatal(err)
		}
		if alice.State().Capacity > 2_000_000 {
			t.Fatalf("fixture capacity %v: run with the lowered-capacity overlay of lnwallet/test_utils.go",
				alice.State().Capacity)
		}
		// alice (the fixture's initiator) plays the model's opener
		opener := cfg.P
		lcs := map[string]*lnwallet.LightningChannel{opener: alice, c17Other(opener): bob}
		dustOf := map[string]int64{"A": cfg.X, "B": cfg.Y}
		for p, lc := range lcs {
			lc.State().LocalChanCfg.DustLimit = btcutil.Amount(dustOf[p])
			lc.State().RemoteChanCfg.DustLimit = btcutil.Amount(dustOf[c17Other(p)])
		}
		views := func() map[string]c17RbfView {
			m := map[string]c17RbfView{}
			for p, lc := range lcs {
				c := lc.State().LocalCommitment
				m[p] = c17RbfView{int64(c.LocalBalance), int64(c.RemoteBalance), int64(c.CommitFee)}
			}
			return m
		}
		dust := map[string]map[string]int64{}
		for p, lc := range lcs {
			dust[p] = map[string]int64{
				p:           int64(lc.State().LocalChanCfg.DustLimit),
				c17Other(p): int64(lc.State().RemoteChanCfg.DustLimit),
			}
		}
		// three delivery scripts per party (A: p2wpkh, p2wsh, p2tr; B: p2tr, p2wpkh, p2wsh)
		mk := func(prefix []byte, l int, fill byte) []byte {
			return append(append([]byte{}, prefix...), bytes.Repeat([]byte{fill}, l)...)
		}
		b0 := byte(fi % 13)
		tbl := map[string][][]byte{
			"A": {mk([]byte{0x00, 0x14}, 20, 0x10+b0), mk([]byte{0x00, 0x20}, 32, 0x30+b0), mk([]byte{0x51, 0x20}, 32, 0x50+b0)},
			"B": {mk([]byte{0x51, 0x20}, 32, 0x90+b0), mk([]byte{0x00, 0x14}, 20, 0xb0+b0), mk([]byte{0x00, 0x20}, 32, 0xd0+b0)},
		}
		sd := map[string][]int64{}
		for p, ss := range tbl {
			for _, x := range ss {
				sd[p] = append(sd[p], int64(lnwallet.DustLimitForSize(len(x))))
			}
		}
		lookup := func(script []byte) (string, int64) {
			for o, ss := range tbl {
				for i, x := range ss {
					if bytes.Equal(x, script) {
						return o, int64(i)
					}
				}
			}
			return "", -1
		}
		node, peer := cfg.Node, c17Other(cfg.Node)
		out.Emit(verifkit.Rec{"a": "Reset", "kind": "peer", "type": cfg.Type, "file": filepath.Base(f),
			"opener": opener, "anchors": bit(ctype.HasAnchors()), "taproot": 0,
			"cap": int64(alice.State().Capacity), "dust": dust, "view": views(),
			"node": node, "envh": cfg.Envh, "ht": cfg.Ht, "sd": sd})

		evs = evs[1:]
		if len(evs) > 0 && evs[0].A == "Inject" {
			side, small := evs[0].P, evs[0].X
			a, b := lcs[side].State(), lcs[c17Other(side)].State()
			tot := int64(a.LocalCommitment.LocalBalance + a.LocalCommitment.RemoteBalance)
			a.LocalCommitment.LocalBalance, a.LocalCommitment.RemoteBalance = lnwire.MilliSatoshi(small), lnwire.MilliSatoshi(tot-small)
			b.LocalCommitment.LocalBalance, b.LocalCommitment.RemoteBalance = lnwire.MilliSatoshi(tot-small), lnwire.MilliSatoshi(small)
			out.Emit(verifkit.Rec{"a": "Inject", "p": side, "x": small, "view": views()})
			evs = evs[1:]
		}

		// the node: the real state machine, started in ClosingNegotiation as after shutdown + flush
		nlc, plc := lcs[node], lcs[peer]
		st := nlc.State()
		nc := st.LocalCommitment
		terms := &CloseChannelTerms{
			ShutdownScripts: ShutdownScripts{
				LocalDeliveryScript:  tbl[node][0],
				RemoteDeliveryScript: tbl[peer][0],
			},
			ShutdownBalances: ShutdownBalances{LocalBalance: nc.LocalBalance, RemoteBalance: nc.RemoteBalance},
		}
		first := &ClosingNegotiation{
			PeerState: lntypes.Dual[AsymmetricPeerState]{
				Local:  &LocalCloseStart{CloseChannelTerms: terms},
				Remote: &RemoteCloseStart{CloseChannelTerms: terms},
			},
			CloseChannelTerms: terms,
		}
		chanID := lnwire.NewChanIDFromOutPoint(st.FundingOutpoint)
		env := &Environment{
			ChainParams:  chaincfg.RegressionNetParams,
			ChanPeer:     *st.IdentityPub,
			ChanPoint:    st.FundingOutpoint,
			ChanID:       chanID,
			Scid:         st.ShortChanID(),
			ChanType:     st.ChanType,
			BlockHeight:  uint32(cfg.Envh), // peer.Brontide leaves it 0
			FeeEstimator: c17RbfEstimator{},
			ChanObserver: c17Observer{},
			CloseSigner:  nlc,
		}
		d := &c17Daemon{msgs: make(chan lnwire.Message, 16), txs: make(chan *wire.MsgTx, 16)}
		rep := &c17Reporter{errs: make(chan error, 4)}
		sm := protofsm.NewStateMachine(RbfChanCloserCfg{
			ErrorReporter:      rep,
			Daemon:             d,
			InitialState:       first,
			Env:                env,
			CustomPollInterval: fn.Some(time.Millisecond),
		})
		sm.Start(ctx)
		localHalf := func() AsymmetricPeerState {
			s, err := sm.CurrentState()
			if err != nil {
				return nil
			}
			cn, ok := s.(*ClosingNegotiation)
			if !ok {
				return nil
			}
			return cn.PeerState.GetForParty(lntypes.Local)
		}

		// the peer's side: its current delivery script, its offers in flight, the node's pending offer
		peerCur := int64(0)
		var inq []*c17PeerOffer
		var own *lnwire.ClosingComplete

		for _, e := range evs {
			// the schedule assumes the model's state; where the real code has left it (an earlier recorded
			// step is already judged) the history ends
			if (e.A == "NReply" && (len(inq) == 0 || inq[0].cc == nil)) ||
				(e.A == "NSig" && (len(inq) == 0 || inq[0].cs == nil)) || (e.A == "PReply" && own == nil) {
				break
			}
			zero := func() map[string]int64 { return map[string]int64{"A": 0, "B": 0} }
			res := map[string]string{"A": "none", "B": "none"}
			errs := map[string]string{"A": "", "B": ""}
			has := map[string]map[string]int64{"A": zero(), "B": zero()}
			val := map[string]map[string]int64{"A": zero(), "B": zero()}
			extra, txfee, eng, nout := zero(), zero(), zero(), zero()
			ltx := map[string]int64{"A": -1, "B": -1}
			neg := func() map[string]int64 { return map[string]int64{"A": -1, "B": -1} }
			sidx := map[string]map[string]int64{"A": neg(), "B": neg()}
			noF := func() map[string]int64 { return map[string]int64{"closer": 0, "closee": 0, "both": 0} }
			msg := verifkit.Rec{"fee": int64(0), "lt": int64(-1), "cs": int64(-1), "es": int64(-1), "F": noF()}
			txs := map[string]*wire.MsgTx{}
			signed := map[string]bool{}
			pres := "other"
			fatal := false

			switch e.A {
			case "POffer":
				// the peer's closing_complete: fee, lock time, script and field as scheduled
				fee, k, lt := e.X, e.Y, uint32(e.Lt)
				peerCur = k
				sig, ptx, _, err := plc.CreateCloseProposal(btcutil.Amount(fee), tbl[peer][k], tbl[node][0],
					lnwallet.WithCustomSequence(mempool.MaxRBFSequence),
					lnwallet.WithCustomLockTime(lt), lnwallet.WithCustomPayer(lntypes.Local))
				if err != nil {
					pres, errs[peer], fatal = c17PeerClass(err), err.Error(), true
					break
				}
				wsig, err := lnwire.NewSigFromSignature(sig)
				if err != nil {
					t.Fatal(err)
				}
				cc := &lnwire.ClosingComplete{
					ChannelID:    chanID,
					CloserScript: tbl[peer][k],
					CloseeScript: tbl[node][0],
					FeeSatoshis:  btcutil.Amount(fee),
					LockTime:     lt,
					ClosingSigs:  c17SigField(e.F, wsig),
				}
				inq = append(inq, &c17PeerOffer{cc: cc, sig: sig, fee: fee, lt: lt, cscript: tbl[peer][k]})
				pres = "ok"
				txs[peer] = ptx // the unsigned proposal: outputs only

			case "NReply":
				o := inq[0]
				inq = inq[1:]
				sm.SendEvent(ctx, &OfferReceivedEvent{SigMsg: *o.cc})
				var cs *lnwire.ClosingSig
				select {
				case m := <-d.msgs:
					c, ok := m.(*lnwire.ClosingSig)
					if !ok {
						errs[node], fatal = fmt.Sprintf("unexpected message %T", m), true
						res[node] = "other"
						break
					}
					cs = c
				case err := <-rep.errs:
					res[node], errs[node], fatal = c17PeerClass(err), err.Error(), true
				case <-time.After(patience):
					res[node], errs[node], fatal = "other", "timeout waiting for closing_sig", true
				}
				pres = res[node]
				if cs == nil {
					break
				}
				select {
				case tx := <-d.txs:
					res[node], txs[node], signed[node] = "ok", tx, true
				case <-time.After(patience):
					res[node], errs[node], fatal = "other", "timeout waiting for the node's broadcast", true
				}
				pres = res[node]
				set, sigs := c17Fields(cs.ClosingSigs)
				_, ics := lookup(cs.CloserScript)
				_, ies := lookup(cs.CloseeScript)
				msg = verifkit.Rec{"fee": int64(cs.FeeSatoshis), "lt": int64(cs.LockTime), "cs": ics, "es": ies, "F": set}
				// the peer completes the transaction it signed with the node's signature
				var nsig input.Signature
				for _, s := range sigs {
					nsig, _ = s.ToSignature()
				}
				if nsig == nil {
					res[peer] = "nosig"
					break
				}
				ptx, _, err := plc.CompleteCooperativeClose(o.sig, nsig, o.cscript, tbl[node][0], btcutil.Amount(o.fee),
					lnwallet.WithCustomSequence(mempool.MaxRBFSequence),
					lnwallet.WithCustomLockTime(o.lt), lnwallet.WithCustomPayer(lntypes.Local))
				if err != nil {
					res[peer], errs[peer] = "badsig", err.Error()
					break
				}
				res[peer], txs[peer], signed[peer] = "ok", ptx, true

			case "NOffer":
				before := localHalf()
				sm.SendEvent(ctx, &SendOfferEvent{TargetFeeRate: chainfee.SatPerVByte(e.X)})
				deadline := time.Now().Add(patience)
			waitOffer:
				for {
					select {
					case m := <-d.msgs:
						c, ok := m.(*lnwire.ClosingComplete)
						if !ok {
							pres, errs[node], fatal = "other", fmt.Sprintf("unexpected message %T", m), true
							break waitOffer
						}
						own, pres = c, "ok"
						break waitOffer
					case err := <-rep.errs:
						pres, errs[node], fatal = c17PeerClass(err), err.Error(), true
						break waitOffer
					case <-time.After(2 * time.Millisecond):
						if ce, ok := localHalf().(*CloseErr); ok && AsymmetricPeerState(ce) != before {
							pres, errs[node] = "cantpay", ce.ErrState.Error()
							break waitOffer
						}
						if time.Now().After(deadline) {
							pres, errs[node], fatal = "other", "timeout waiting for closing_complete", true
							break waitOffer
						}
					}
				}
				if pres == "ok" {
					set, _ := c17Fields(own.ClosingSigs)
					_, ics := lookup(own.CloserScript)
					_, ies := lookup(own.CloseeScript)
					msg = verifkit.Rec{"fee": int64(own.FeeSatoshis), "lt": int64(own.LockTime), "cs": ics, "es": ies, "F": set}
				}

			case "PReply":
				pres = e.Res
				res[peer] = e.Res
				if e.Res != "ok" {
					break // the honest closee does not answer: the node keeps waiting
				}
				// build the transaction the node's closing_complete describes (its lock time), verify the
				// node's signature of the selected field on it, counter-sign
				_, sigs := c17Fields(own.ClosingSigs)
				ws, ok := sigs[e.Sel]
				if !ok {
					pres, res[peer], fatal = "nosig", "nosig", true
					break
				}
				nsig, err := ws.ToSignature()
				if err != nil {
					pres, res[peer], errs[peer], fatal = "badsig", "badsig", err.Error(), true
					break
				}
				opts := []lnwallet.ChanCloseOpt{
					lnwallet.WithCustomSequence(mempool.MaxRBFSequence),
					lnwallet.WithCustomLockTime(own.LockTime), lnwallet.WithCustomPayer(lntypes.Remote),
				}
				psig, _, _, err := plc.CreateCloseProposal(own.FeeSatoshis, tbl[peer][peerCur], own.CloserScript, opts...)
				if err != nil {
					pres, res[peer], errs[peer], fatal = c17PeerClass(err), c17PeerClass(err), err.Error(), true
					break
				}
				ptx, _, err := plc.CompleteCooperativeClose(psig, nsig, tbl[peer][peerCur], own.CloserScript,
					own.FeeSatoshis, opts...)
				if err != nil {
					pres, res[peer], errs[peer], fatal = "badsig", "badsig", err.Error(), true
					break
				}
				txs[peer], signed[peer] = ptx, true
				wsig, err := lnwire.NewSigFromSignature(psig)
				if err != nil {
					t.Fatal(err)
				}
				cs := &lnwire.ClosingSig{
					ChannelID:    chanID,
					CloserScript: own.CloserScript,
					CloseeScript: tbl[peer][peerCur],
					FeeSatoshis:  own.FeeSatoshis,
					LockTime:     own.LockTime,
					ClosingSigs:  c17SigField(e.Sel, wsig),
				}
				own = nil
				inq = append(inq, &c17PeerOffer{cs: cs, ptx: ptx})

			case "NSig":
				o := inq[0]
				inq = inq[1:]
				res[peer], txs[peer], signed[peer] = "ok", o.ptx, true
				sm.SendEvent(ctx, &LocalSigReceived{SigMsg: *o.cs})
				select {
				case tx := <-d.txs:
					res[node], txs[node], signed[node] = "ok", tx, true
				case err := <-rep.errs:
					res[node], errs[node], fatal = c17PeerClass(err), err.Error(), true
				case <-time.After(patience):
					res[node], errs[node], fatal = "other", "timeout waiting for the node's broadcast", true
				}
				pres = res[node]

			default:
				t.Fatalf("%s: unexpected event %v", f, e)
			}

			seq := int64(-1)
			for p, tx := range txs {
				fo := lcs[p].FundingTxOut()
				var sum int64
				for _, o := range tx.TxOut {
					sum += o.Value
					owner, idx := lookup(o.PkScript)
					if owner == "" {
						extra[p]++
						continue
					}
					has[p][owner]++
					val[p][owner] += o.Value
					sidx[p][owner] = idx
				}
				if len(tx.TxIn) != 1 || tx.TxIn[0].PreviousOutPoint != lcs[p].State().FundingOutpoint {
					extra[p] += 100
				}
				nout[p], txfee[p], ltx[p] = int64(len(tx.TxOut)), fo.Value-sum, int64(tx.LockTime)
				if signed[p] && c17Engine(fo, tx) == nil {
					eng[p] = 1
				}
				seq = int64(tx.TxIn[0].Sequence)
			}
			txeq, raweq := int64(0), int64(0)
			if signed["A"] && signed["B"] {
				txeq = bit(txs["A"].TxHash() == txs["B"].TxHash())
				var ba, bb bytes.Buffer
				txs["A"].Serialize(&ba)
				txs["B"].Serialize(&bb)
				raweq = bit(bytes.Equal(ba.Bytes(), bb.Bytes()))
			}
			out.Emit(verifkit.Rec{"a": e.A, "p": e.P, "x": e.X, "k": e.Y, "lt": e.Lt, "f": e.F,
				"sched": map[string]string{"res": e.Res, "sel": e.Sel},
				"pres": pres, "res": res, "errs": errs, "has": has, "val": val, "extra": extra,
				"txfee": txfee, "eng": eng, "nout": nout, "ltx": ltx, "sidx": sidx, "msg": msg,
				"propeq": txeq, "txeq": txeq, "raweq": raweq, "seq": seq})
			if fatal {
				break // the node's machine stopped (or the harness lost track): the history ends here
			}
		}
		sm.Stop()
	}
}
