//go:build verif

package chancloser

import (
	"bytes"
	"errors"
	"fmt"
	"io"
	"math/rand"
	"os"
	"path/filepath"
	"strings"
	"testing"

	"github.com/btcsuite/btcd/btcec/v2/schnorr/musig2"
	"github.com/btcsuite/btcd/btcutil/v2"
	"github.com/btcsuite/btcd/chaincfg/v2"
	"github.com/btcsuite/btcd/txscript/v2"
	"github.com/btcsuite/btcd/wire/v2"
	"github.com/lightningnetwork/lnd/channeldb"
	"github.com/lightningnetwork/lnd/fn/v2"
	"github.com/lightningnetwork/lnd/input"
	"github.com/lightningnetwork/lnd/internal/verifkit"
	"github.com/lightningnetwork/lnd/lntypes"
	"github.com/lightningnetwork/lnd/lnwallet"
	"github.com/lightningnetwork/lnd/lnwallet/chainfee"
	"github.com/lightningnetwork/lnd/lnwire"
)

// Executor for part II of spec/CoopClose (C17): the legacy closing_signed fee
// negotiation.  Two real ChanClosers are wired back to back over two real
// lnwallet channels (lnwallet.CreateTestChannels: real signatures, real
// closing transactions); ideal fees and caps come from TLC-generated
// configurations (CoopCloseGen/NegGSpec) and from a seeded free-running
// driver.  Every message processed is recorded with the fee it carried, the
// fee of the answer, the error class and whether the closer finished; at the
// end the two broadcast transactions are compared.  CoopCloseTrace.tla judges.

const c17Tap = channeldb.SingleFunderTweaklessBit | channeldb.AnchorOutputsBit | channeldb.ZeroHtlcTxFeeBit |
	channeldb.SimpleTaprootFeatureBit

var c17Legacy = []struct {
	name string
	t    channeldb.ChannelType
}{
	{"legacy", channeldb.SingleFunderBit},
	{"tweakless", channeldb.SingleFunderTweaklessBit},
	{"anchors", channeldb.SingleFunderTweaklessBit | channeldb.AnchorOutputsBit},
	{"zerofee", channeldb.SingleFunderTweaklessBit | channeldb.AnchorOutputsBit | channeldb.ZeroHtlcTxFeeBit},
}

var c17Taproot = []struct {
	name string
	t    channeldb.ChannelType
}{
	{"taproot", c17Tap},
	{"taprootfinal", c17Tap | channeldb.TaprootFinalBit},
	{"taprootroot", c17Tap | channeldb.TapscriptRootBit},
}

// c17Estimator makes the "fee rate" the absolute fee, so that ideal fee and cap are set directly.
type c17Estimator struct{}

func (c17Estimator) EstimateFee(_ channeldb.ChannelType, _, _ *wire.TxOut,
	rate chainfee.SatPerKWeight) btcutil.Amount {

	return btcutil.Amount(rate)
}

// c17Musig is peer.MusigChanCloser (peer cannot be imported from here): the adapter between the
// channel closer and the musig2 session of a taproot channel.
type c17Musig struct {
	channel      *lnwallet.LightningChannel
	musigSession *lnwallet.MusigSession
	localNonce   *musig2.Nonces
	remoteNonce  *musig2.Nonces
}

func (m *c17Musig) ProposalClosingOpts() ([]lnwallet.ChanCloseOpt, error) {
	switch {
	case m.localNonce == nil:
		return nil, fmt.Errorf("local nonce not generated")
	case m.remoteNonce == nil:
		return nil, fmt.Errorf("remote nonce not generated")
	}
	localKey, remoteKey := m.channel.MultiSigKeys()
	tapscriptTweak := fn.MapOption(lnwallet.TapscriptRootToTweak)(m.channel.State().TapscriptRoot)
	m.musigSession = lnwallet.NewPartialMusigSession(
		*m.remoteNonce, localKey, remoteKey, m.channel.Signer, m.channel.FundingTxOut(),
		lnwallet.RemoteMusigCommit, tapscriptTweak, fn.None[io.Reader](),
	)
	if err := m.musigSession.FinalizeSession(*m.localNonce); err != nil {
		return nil, err
	}
	return []lnwallet.ChanCloseOpt{lnwallet.WithCoopCloseMusigSession(m.musigSession)}, nil
}

func (m *c17Musig) CombineClosingOpts(localSig, remoteSig lnwire.PartialSig) (input.Signature, input.Signature,
	[]lnwallet.ChanCloseOpt, error) {

	if m.musigSession == nil {
		return nil, nil, nil, fmt.Errorf("musig session not created")
	}
	localMuSig := new(lnwallet.MusigPartialSig).FromWireSig(&lnwire.PartialSigWithNonce{
		PartialSig: localSig, Nonce: m.localNonce.PubNonce,
	})
	remoteMuSig := new(lnwallet.MusigPartialSig).FromWireSig(&lnwire.PartialSigWithNonce{
		PartialSig: remoteSig, Nonce: m.remoteNonce.PubNonce,
	})
	return localMuSig, remoteMuSig, []lnwallet.ChanCloseOpt{lnwallet.WithCoopCloseMusigSession(m.musigSession)}, nil
}

func (m *c17Musig) ClosingNonce() (*musig2.Nonces, error) {
	localKey, _ := m.channel.MultiSigKeys()
	nonce, err := musig2.GenNonces(musig2.WithPublicKey(localKey.PubKey))
	if err != nil {
		return nil, err
	}
	m.localNonce = nonce
	return nonce, nil
}

func (m *c17Musig) InitRemoteNonce(nonce *musig2.Nonces) { m.remoteNonce = nonce }
func (m *c17Musig) InvalidateNonce()                     { m.localNonce, m.musigSession = nil, nil }

type c17NegCfg struct {
	A      string `json:"a"`
	P      string `json:"p"`
	Tap    int    `json:"tap"`
	IdealA int64  `json:"idealA"`
	IdealB int64  `json:"idealB"`
	MaxA   int64  `json:"maxA"`
	MaxB   int64  `json:"maxB"`
}

func c17ErrClass(err error) string {
	switch {
	case err == nil:
		return ""
	case errors.Is(err, ErrProposalExceedsMaxFee):
		return "maxfee"
	case strings.Contains(err.Error(), "was not accepted"):
		return "taprootfee"
	case strings.Contains(err.Error(), "unable to sign new co op close offer"):
		return "sign"
	default:
		return "other: " + err.Error()
	}
}

func c17Other(p string) string {
	if p == "A" {
		return "B"
	}
	return "A"
}

func c17Engine(fo *wire.TxOut, tx *wire.MsgTx) error {
	fetcher := txscript.NewCannedPrevOutputFetcher(fo.PkScript, fo.Value)
	hc := txscript.NewTxSigHashes(tx, fetcher)
	vm, err := txscript.NewEngine(fo.PkScript, tx, 0, txscript.StandardVerifyFlags, nil, hc, fo.Value, fetcher)
	if err != nil {
		return err
	}
	return vm.Execute()
}

// c17Negotiate runs one negotiation and writes its trace.
func c17Negotiate(t *testing.T, out *verifkit.Writer, cfg c17NegCfg, idx int, file string) {
	var tname string
	var ctype channeldb.ChannelType
	if cfg.Tap == 1 {
		x := c17Taproot[idx%len(c17Taproot)]
		tname, ctype = x.name, x.t
	} else {
		x := c17Legacy[idx%len(c17Legacy)]
		tname, ctype = x.name, x.t
	}
	alice, bob, err := lnwallet.CreateTestChannels(t, ctype)
	if err != nil {
		t.Fatal(err)
	}
	opener, other := cfg.P, c17Other(cfg.P)
	lcs := map[string]*lnwallet.LightningChannel{opener: alice, other: bob} // alice is the fixture's initiator
	ideal := map[string]int64{"A": cfg.IdealA, "B": cfg.IdealB}
	maxfee := map[string]int64{"A": cfg.MaxA, "B": cfg.MaxB}
	scripts := map[string][]byte{
		"A": append([]byte{0x00, 0x14}, bytes.Repeat([]byte{byte(0x21 + idx%9)}, 20)...),
		"B": append([]byte{0x51, 0x20}, bytes.Repeat([]byte{byte(0xa1 + idx%5)}, 32)...),
	}
	// who asks for the close and whether the first closing_signed overtakes the responder's flush are
	// dimensions the model says do not matter
	shutdownBy := []string{opener, other}[(idx/2)%2]
	early := (idx/4)%2 == 1

	closers := map[string]*ChanCloser{}
	bcast := map[string]*wire.MsgTx{}
	for _, p := range []string{"A", "B"} {
		p := p
		var explicit chainfee.SatPerKWeight
		if maxfee[p] != 3*ideal[p] {
			explicit = chainfee.SatPerKWeight(maxfee[p])
		}
		var ms MusigSession
		if cfg.Tap == 1 {
			ms = &c17Musig{channel: lcs[p]}
		}
		party := lntypes.Remote
		if p == shutdownBy {
			party = lntypes.Local
		}
		closers[p] = NewChanCloser(ChanCloseCfg{
			Channel:        lcs[p],
			MusigSession:   ms,
			BroadcastTx:    func(tx *wire.MsgTx, _ string) error { bcast[p] = tx; return nil },
			DisableChannel: func(wire.OutPoint) error { return nil },
			Disconnect:     func() error { return nil },
			MaxFee:         explicit,
			ChainParams:    &chaincfg.RegressionNetParams,
			Quit:           make(chan struct{}),
			FeeEstimator:   c17Estimator{},
		}, DeliveryAddrWithKey{DeliveryAddress: scripts[p]}, chainfee.SatPerKWeight(ideal[p]), 100, nil, party)
	}
	bit := func(b bool) int {
		if b {
			return 1
		}
		return 0
	}
	out.Emit(verifkit.Rec{"a": "Reset", "kind": "neg", "file": file, "type": tname, "opener": opener,
		"taproot": cfg.Tap, "ideal": ideal, "maxfee": maxfee, "shutdownby": shutdownBy, "early": bit(early)})

	// shutdown exchange
	x, y := closers[shutdownBy], closers[c17Other(shutdownBy)]
	sd, err := x.ShutdownChan()
	if err != nil {
		t.Fatalf("%s: shutdown: %v", file, err)
	}
	osd, err := y.ReceiveShutdown(*sd)
	if err != nil || osd.IsNone() {
		t.Fatalf("%s: receive shutdown: %v", file, err)
	}
	back, err := x.ReceiveShutdown(osd.UnwrapOrFail(t))
	if err != nil || back.IsSome() {
		t.Fatalf("%s: receive shutdown reply: %v", file, err)
	}

	feeOf := func(o fn.Option[lnwire.ClosingSigned]) (int64, *lnwire.ClosingSigned) {
		if o.IsNone() {
			return 0, nil
		}
		m := o.UnwrapOrFail(t)
		return int64(m.FeeSatoshis), &m
	}
	var flight *lnwire.ClosingSigned
	to := other
	failed := false

	if !early {
		o, err := closers[other].BeginNegotiation()
		if f, _ := feeOf(o); err != nil || f != 0 {
			t.Fatalf("%s: responder BeginNegotiation: %v %d", file, err, f)
		}
	}
	o, err := closers[opener].BeginNegotiation()
	f, m := feeOf(o)
	out.Emit(verifkit.Rec{"a": "Begin", "p": opener, "x": 0, "out": f, "err": c17ErrClass(err)})
	flight, failed = m, err != nil
	if early && !failed && flight != nil {
		// the offer arrives while the responder still waits for the flush: it is cached ...
		o, err := closers[other].ReceiveClosingSigned(*flight)
		f, _ := feeOf(o)
		out.Emit(verifkit.Rec{"a": "Cache", "p": other, "x": int64(flight.FeeSatoshis), "out": f,
			"err": c17ErrClass(err)})
		// ... and processed by BeginNegotiation
		in := int64(flight.FeeSatoshis)
		o, err = closers[other].BeginNegotiation()
		f, m := feeOf(o)
		out.Emit(verifkit.Rec{"a": "Recv", "p": other, "x": in, "out": f,
			"fin": bit(closers[other].state == closeFinished), "err": c17ErrClass(err)})
		flight, failed, to = m, err != nil, opener
	}
	for steps := 0; flight != nil && !failed && steps < 100; steps++ {
		in := int64(flight.FeeSatoshis)
		o, err := closers[to].ReceiveClosingSigned(*flight)
		f, m := feeOf(o)
		out.Emit(verifkit.Rec{"a": "Recv", "p": to, "x": in, "out": f,
			"fin": bit(closers[to].state == closeFinished), "err": c17ErrClass(err)})
		flight, failed, to = m, err != nil, c17Other(to)
	}

	end := verifkit.Rec{"a": "NegEnd", "inflight": 0}
	if flight != nil && !failed {
		end["inflight"] = int64(flight.FeeSatoshis)
	}
	fin, eng, txfee, nout := map[string]int{}, map[string]int{}, map[string]int64{}, map[string]int{}
	txs := map[string]*wire.MsgTx{}
	for _, p := range []string{"A", "B"} {
		fin[p] = bit(closers[p].state == closeFinished)
		eng[p], txfee[p], nout[p] = 0, -1, 0
		tx, err := closers[p].ClosingTx()
		if err != nil || tx == nil {
			continue
		}
		txs[p] = tx
		fo := lcs[p].FundingTxOut()
		var sum int64
		for _, o := range tx.TxOut {
			sum += o.Value
		}
		txfee[p], nout[p] = fo.Value-sum, len(tx.TxOut)
		if c17Engine(fo, tx) == nil && bcast[p] != nil && bcast[p].TxHash() == tx.TxHash() {
			eng[p] = 1
		}
	}
	txeq := 0
	if txs["A"] != nil && txs["B"] != nil {
		var ba, bb bytes.Buffer
		txs["A"].Serialize(&ba)
		txs["B"].Serialize(&bb)
		txeq = bit(bytes.Equal(ba.Bytes(), bb.Bytes()))
	}
	end["fin"], end["eng"], end["txfee"], end["nout"], end["txeq"] = fin, eng, txfee, nout, txeq
	out.Emit(end)
}

func TestVerifC17Negotiation(t *testing.T) {
	out := verifkit.MustWriter(verifkit.Env("VERIF_OUT", ".") + "/trace.ndjson")
	defer out.Close()

	dir := os.Getenv("VERIF_SCHED")
	files := verifkit.ListFiles(dir, "n_", ".ndjson")
	if len(files) == 0 && dir != "" {
		t.Fatalf("no schedules in %q", dir)
	}
	seed := int(verifkit.Seed())
	for i, f := range files {
		evs, err := verifkit.ReadNDJSONInto[c17NegCfg](f)
		if err != nil {
			t.Fatal(err)
		}
		if len(evs) == 0 || evs[0].A != "NegCfg" {
			t.Fatalf("%s: first event must be NegCfg", f)
		}
		c17Negotiate(t, out, evs[0], i+seed, filepath.Base(f))
	}

	// free-running seeded driver: ideal fees, ratios and caps outside the generator's grid
	nfree := verifkit.EnvInt("VERIF_FREE", 0)
	rng := rand.New(rand.NewSource(verifkit.Seed()*104729 + 3))
	for i := 0; i < nfree; i++ {
		// the model's channel has the scaled capacity (1 000 000 sat): keep every fee affordable there too
		a := 100 + rng.Int63n(15000)
		var b int64
		switch rng.Intn(3) {
		case 0: // within the default cap
			b = a/3 + 1 + rng.Int63n(3*a-a/3-1)
		case 1: // close together
			b = a - a/20 + rng.Int63n(a/10+1)
		default: // up to 20x apart (needs an explicit cap)
			b = a/20 + 1 + rng.Int63n(20*a-a/20-1)
		}
		if b < 100 {
			b = 100
		}
		cfg := c17NegCfg{A: "NegCfg", P: []string{"A", "B"}[rng.Intn(2)], Tap: 0, IdealA: a, IdealB: b,
			MaxA: 3 * a, MaxB: 3 * b}
		if rng.Intn(5) == 0 {
			cfg.Tap = 1
		}
		hi := a
		if b > hi {
			hi = b
		}
		if rng.Intn(2) == 0 {
			if cfg.P == "A" {
				cfg.MaxA = hi + rng.Int63n(hi)
			} else {
				cfg.MaxB = hi + rng.Int63n(hi)
			}
		}
		c17Negotiate(t, out, cfg, rng.Intn(1000), fmt.Sprintf("free_%d", i))
	}
}
