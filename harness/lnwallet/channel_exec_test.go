//go:build verif

package lnwallet

import (
	"crypto/sha256"
	"encoding/binary"
	"encoding/json"
	"fmt"
	"os"
	"path/filepath"
	"sort"
	"strings"
	"testing"

	"github.com/btcsuite/btcd/btcec/v2"
	"github.com/btcsuite/btcd/btcec/v2/schnorr/musig2"
	"github.com/btcsuite/btcd/txscript/v2"
	"github.com/btcsuite/btcd/wire/v2"
	"github.com/lightningnetwork/lnd/channeldb"
	"github.com/lightningnetwork/lnd/fn/v2"
	"github.com/lightningnetwork/lnd/input"
	"github.com/lightningnetwork/lnd/internal/verifkit"
	"github.com/lightningnetwork/lnd/kvdb"
	"github.com/lightningnetwork/lnd/lnwallet/chainfee"
	"github.com/lightningnetwork/lnd/lnwire"
)

// This file is the executor for spec/Channel: it replays TLC-generated
// behaviours (ChannelGen) on two real LightningChannel objects and records,
// after every call, the projection of both parties, the projection of a
// channel re-created from the database (shadow reload) and the verdicts of
// the oracles only Go can evaluate.  It judges nothing.

var vChanTypes = map[string]channeldb.ChannelType{
	"legacy":    channeldb.SingleFunderBit,
	"tweakless": channeldb.SingleFunderTweaklessBit,
	"anchors":   channeldb.SingleFunderTweaklessBit | channeldb.AnchorOutputsBit,
	"zerofee":   channeldb.SingleFunderTweaklessBit | channeldb.AnchorOutputsBit | channeldb.ZeroHtlcTxFeeBit,
	"lease": channeldb.SingleFunderTweaklessBit | channeldb.AnchorOutputsBit | channeldb.ZeroHtlcTxFeeBit |
		channeldb.LeaseExpirationBit,
	"taproot": channeldb.SingleFunderTweaklessBit | channeldb.AnchorOutputsBit | channeldb.ZeroHtlcTxFeeBit |
		channeldb.SimpleTaprootFeatureBit,
	"taprootfinal": channeldb.SingleFunderTweaklessBit | channeldb.AnchorOutputsBit | channeldb.ZeroHtlcTxFeeBit |
		channeldb.SimpleTaprootFeatureBit | channeldb.TaprootFinalBit,
}

type vEv struct {
	A string `json:"a"`
	P string `json:"p"`
	X int    `json:"x"`
	Y int    `json:"y"`
}

type vCommit struct {
	H    uint64     `json:"h"`
	Fee  int64      `json:"fee"` // sat/kw
	Ob   int64      `json:"ob"`  // gross msat (fee + anchors credited back to the opener)
	Tb   int64      `json:"tb"`
	Outs [][2]int64 `json:"outs"`
	Ins  [][2]int64 `json:"ins"`
	// raw numbers for the exact-conservation invariant
	Obm    int64 `json:"obm"`
	Tbm    int64 `json:"tbm"`
	FeeSat int64 `json:"feesat"`
	Anch   int64 `json:"anch"`
	TxOut  int64 `json:"txout"`
	NOut   int   `json:"nout"`  // number of tx outputs
	NHtlc  int   `json:"nhtlc"` // HTLCs that have an output on this commitment
}

type vEntry struct {
	T   string `json:"t"`
	Li  uint64 `json:"li"`
	Hi  uint64 `json:"hi"`
	Amt int64  `json:"amt"`
	AL  uint64 `json:"aL"`
	AR  uint64 `json:"aR"`
	RL  uint64 `json:"rL"`
	RR  uint64 `json:"rR"`
}

// MarshalJSON never emits null for a list (TLC's Json module cannot read null).
func (p vParty) MarshalJSON() ([]byte, error) {
	type plain vParty
	q := plain(p)
	if q.LC == nil {
		q.LC = []vCommit{}
	}
	if q.RC == nil {
		q.RC = []vCommit{}
	}
	if q.L == nil {
		q.L = []vEntry{}
	}
	if q.R == nil {
		q.R = []vEntry{}
	}
	if q.Net == nil {
		q.Net = []string{}
	}
	if q.Fwd == nil {
		q.Fwd = []vFwd{}
	}
	if q.Dack == nil {
		q.Dack = []int64{}
	}
	if q.Lmod == nil {
		q.Lmod = []uint64{}
	}
	if q.Rmod == nil {
		q.Rmod = []uint64{}
	}
	return json.Marshal(q)
}

// vFwd is one forwarding package as stored on disk.
type vFwd struct {
	H    uint64          `json:"h"`
	Adds []uint64        `json:"adds"`
	Sfs  [][]interface{} `json:"sfs"`
	Ack  []int           `json:"ack"`
}

type vParty struct {
	Lidx  uint64    `json:"lidx"`
	Lhtlc uint64    `json:"lhtlc"`
	Ridx  uint64    `json:"ridx"`
	Rhtlc uint64    `json:"rhtlc"`
	LC    []vCommit `json:"LC"`
	RC    []vCommit `json:"RC"`
	L     []vEntry  `json:"L"`
	R     []vEntry  `json:"R"`
	Net   []string  `json:"net"`
	Fwd   []vFwd    `json:"fwd"`
	// indexes set in the SettleFailFilter of the surviving outgoing
	// channel's forwarding package (read back from the database)
	Dack []int64 `json:"dack"`
	Thaw uint32  `json:"thaw"`
	// ids of the adds that already carry a (not yet compacted) settle/fail:
	// updateLog.modifiedHtlcs of the local resp. remote log
	Lmod []uint64 `json:"lmod"`
	Rmod []uint64 `json:"rmod"`
}

type vLine struct {
	vEv
	Err   string            `json:"err"`
	St    map[string]vParty `json:"st"`
	Sh    map[string]vParty `json:"sh"`
	ShErr string            `json:"sherr"`
	TxEq  int               `json:"txeq"`
	SigOk map[string]int    `json:"sigok"`
	RelH  int64             `json:"relh"`
	// commitment points sent, as indexes into the sender's own derivation
	// chain (-1: none sent with this step, -2: sent but not on the chain)
	NPH int64 `json:"nph"` // revoke_and_ack.NextRevocationKey
	LUP int64 `json:"lup"` // channel_reestablish.LocalUnrevokedCommitPoint
	CRP int64 `json:"crp"` // channel_ready re-sent from the database handle (SecondCommitmentPoint)
	NRK int64 `json:"nrk"` // channel_ready re-sent by the link (NextRevocationKey)
	// RSK: after a revocation was received, how many of the peer's secrets
	// 0..k-1 a STALE handle on the channel (what the chain watcher holds)
	// reproduces exactly through RemoteRevocationStore (-1: not evaluated)
	RSK    int64            `json:"rsk"`
	// Rej: a revoke_and_ack with a secret that is not on the peer's chain was
	// refused (1) or accepted (0) by ReceiveRevocation; -1 on other lines
	Rej int `json:"rej"`
	NTx    map[string]int64 `json:"ntx,omitempty"`
	Type   string           `json:"type,omitempty"`
	Opener string           `json:"opener,omitempty"`
	Dust   map[string]int64 `json:"dust,omitempty"`
	Thaw   uint32           `json:"thaw"`
	NoDLP  int              `json:"nodlp"`
	Poor   int64            `json:"poor"` // Reset line: the non-opener's funding share in msat (0 = even split)
	File   string           `json:"file,omitempty"`
}

type vSide struct {
	name string
	lc   *LightningChannel
	out  []vMsg
	// stale is a handle on the same channel fetched from the database at the
	// start of the behaviour and never refreshed (what the chain arbitrator
	// and the chain watcher hold in the daemon)
	stale *channeldb.OpenChannel
}

type vMsg struct {
	kind  string
	add   *lnwire.UpdateAddHTLC
	id    uint64
	pre   [32]byte
	sigs  *CommitSigs
	fee   int64
	rev   *lnwire.RevokeAndAck
	reest *lnwire.ChannelReestablish
}

func vRunEngine(pkScript []byte, value int64, tx *wire.MsgTx, idx int) error {
	fetcher := txscript.NewCannedPrevOutputFetcher(pkScript, value)
	hc := txscript.NewTxSigHashes(tx, fetcher)
	vm, err := txscript.NewEngine(pkScript, tx, idx, txscript.StandardVerifyFlags, nil, hc, value, fetcher)
	if err != nil {
		return err
	}
	return vm.Execute()
}

func vProjectCommit(lc *LightningChannel, c *commitment) vCommit {
	our, their := c.ourBalance, c.theirBalance
	extra := lnwire.NewMSatFromSatoshis(c.fee)
	var anch int64
	if lc.channelState.ChanType.HasAnchors() {
		anch = 2 * int64(AnchorSize)
		extra += lnwire.NewMSatFromSatoshis(2 * AnchorSize)
	}
	if lc.channelState.IsInitiator {
		our += extra
	} else {
		their += extra
	}
	p := vCommit{H: c.height, Ob: int64(our), Tb: int64(their), Fee: int64(c.feePerKw),
		Outs: [][2]int64{}, Ins: [][2]int64{},
		Obm: int64(c.ourBalance), Tbm: int64(c.theirBalance), FeeSat: int64(c.fee), Anch: anch}
	for _, h := range c.outgoingHTLCs {
		p.Outs = append(p.Outs, [2]int64{int64(h.HtlcIndex), int64(h.Amount)})
	}
	for _, h := range c.incomingHTLCs {
		p.Ins = append(p.Ins, [2]int64{int64(h.HtlcIndex), int64(h.Amount)})
	}
	less := func(s [][2]int64) func(i, j int) bool { return func(i, j int) bool { return s[i][0] < s[j][0] } }
	sort.Slice(p.Outs, less(p.Outs))
	sort.Slice(p.Ins, less(p.Ins))
	for _, hs := range [][]paymentDescriptor{c.outgoingHTLCs, c.incomingHTLCs} {
		for i := range hs {
			idx := hs[i].remoteOutputIndex
			if c.whoseCommit.IsLocal() {
				idx = hs[i].localOutputIndex
			}
			if idx >= 0 {
				p.NHtlc++
			}
		}
	}
	if c.txn != nil {
		for _, o := range c.txn.TxOut {
			p.TxOut += o.Value
		}
		p.NOut = len(c.txn.TxOut)
	} else {
		// the fixture's genesis commitments carry no transaction
		p.TxOut = -1
	}
	return p
}

func vProjectLog(l *updateLog) []vEntry {
	res := []vEntry{}
	for e := l.Front(); e != nil; e = e.Next() {
		pd := e.Value
		pe := vEntry{Li: pd.LogIndex, Amt: int64(pd.Amount),
			AL: pd.addCommitHeights.Local, AR: pd.addCommitHeights.Remote,
			RL: pd.removeCommitHeights.Local, RR: pd.removeCommitHeights.Remote}
		switch pd.EntryType {
		case FeeUpdate:
			pe.T, pe.Amt = "fee", int64(pd.Amount.ToSatoshis())
		case Add:
			pe.T, pe.Hi = "add", pd.HtlcIndex
		case Settle:
			pe.T, pe.Hi = "settle", pd.ParentIndex
		case Fail, MalformedFail:
			pe.T, pe.Hi = "fail", pd.ParentIndex
		default:
			pe.T = fmt.Sprintf("type%d", pd.EntryType)
		}
		res = append(res, pe)
	}
	return res
}

func vSortedIDs(ids []uint64) []uint64 {
	res := append([]uint64{}, ids...)
	sort.Slice(res, func(i, j int) bool { return res[i] < res[j] })
	return res
}

func vProject(lc *LightningChannel, out []vMsg) vParty {
	p := vParty{
		Lidx: lc.updateLogs.Local.logIndex, Lhtlc: lc.updateLogs.Local.htlcCounter,
		Ridx: lc.updateLogs.Remote.logIndex, Rhtlc: lc.updateLogs.Remote.htlcCounter,
		L: vProjectLog(lc.updateLogs.Local), R: vProjectLog(lc.updateLogs.Remote),
		Net: []string{}, LC: []vCommit{}, RC: []vCommit{}, Fwd: vProjectFwd(lc),
		Dack: vProjectDack(lc),
		Thaw: lc.channelState.ThawHeight,
		Lmod: vSortedIDs(lc.updateLogs.Local.modifiedHtlcs.ToSlice()),
		Rmod: vSortedIDs(lc.updateLogs.Remote.modifiedHtlcs.ToSlice()),
	}
	for e := lc.commitChains.Local.commitments.Front(); e != nil; e = e.Next() {
		p.LC = append(p.LC, vProjectCommit(lc, e.Value))
	}
	for e := lc.commitChains.Remote.commitments.Front(); e != nil; e = e.Next() {
		p.RC = append(p.RC, vProjectCommit(lc, e.Value))
	}
	for _, m := range out {
		p.Net = append(p.Net, m.kind)
	}
	return p
}

// vProjectFwd reads the channel's forwarding packages back from the database.
func vProjectFwd(lc *LightningChannel) []vFwd {
	res := []vFwd{}
	pkgs, err := lc.LoadFwdPkgs()
	if err != nil {
		return append(res, vFwd{H: 1 << 40, Adds: []uint64{}, Sfs: [][]interface{}{}, Ack: []int{}})
	}
	sort.Slice(pkgs, func(i, j int) bool { return pkgs[i].Height < pkgs[j].Height })
	for _, p := range pkgs {
		f := vFwd{H: p.Height, Adds: []uint64{}, Sfs: [][]interface{}{}, Ack: []int{}}
		for i, u := range p.Adds {
			if a, ok := u.UpdateMsg.(*lnwire.UpdateAddHTLC); ok {
				f.Adds = append(f.Adds, a.ID)
			} else {
				f.Adds = append(f.Adds, 1<<40)
			}
			if p.AckFilter.Contains(uint16(i)) {
				f.Ack = append(f.Ack, i)
			}
		}
		for _, u := range p.SettleFails {
			switch m := u.UpdateMsg.(type) {
			case *lnwire.UpdateFulfillHTLC:
				f.Sfs = append(f.Sfs, []interface{}{"settle", m.ID})
			case *lnwire.UpdateFailHTLC:
				f.Sfs = append(f.Sfs, []interface{}{"fail", m.ID})
			case *lnwire.UpdateFailMalformedHTLC:
				f.Sfs = append(f.Sfs, []interface{}{"fail", m.ID})
			default:
				f.Sfs = append(f.Sfs, []interface{}{"other", 0})
			}
		}
		res = append(res, f)
	}
	return res
}

// vSourceRef finds the AddRef of an incoming HTLC in the channel's forwarding
// packages, as the link does when it settles or fails a locked-in add.
func vSourceRef(lc *LightningChannel, id uint64) *channeldb.AddRef {
	pkgs, err := lc.LoadFwdPkgs()
	if err != nil {
		return nil
	}
	for _, p := range pkgs {
		for i, u := range p.Adds {
			if a, ok := u.UpdateMsg.(*lnwire.UpdateAddHTLC); ok && a.ID == id {
				return &channeldb.AddRef{Height: p.Height, Index: uint16(i)}
			}
		}
	}
	return nil
}

// The answers (settle/fail) a forwarding node relays come back over its
// OUTGOING channels and sit in those channels' forwarding packages; the
// reference to that entry is handed to SettleHTLC/FailHTLC as DestRef and
// acked by the transaction that stores our signature.  vDestOpen is the
// outgoing channel that is still open (one package with vDestSlots entries,
// the answer to add id at index id), vDestClosed one that has been closed
// and wiped since (no package bucket).
var (
	vDestOpen   = lnwire.NewShortChanIDFromInt(0xd1d1d1)
	vDestClosed = lnwire.NewShortChanIDFromInt(0xd2d2d2)
)

const vDestSlots = 64

func vBackend(lc *LightningChannel) kvdb.Backend {
	sdb, ok := lc.channelState.Db.(*channeldb.ChannelStateDB)
	if !ok {
		return nil
	}
	return sdb.GetParentDB().Backend
}

func vCreateDestPkg(lc *LightningChannel) error {
	sfs := make([]channeldb.LogUpdate, vDestSlots)
	for i := range sfs {
		sfs[i] = channeldb.LogUpdate{LogIndex: uint64(i), UpdateMsg: &lnwire.UpdateFailHTLC{ID: uint64(i), Reason: []byte("x")}}
	}
	pkg := channeldb.NewFwdPkg(vDestOpen, 1, nil, sfs)
	return kvdb.Update(vBackend(lc), func(tx kvdb.RwTx) error {
		return channeldb.NewChannelPackager(vDestOpen).AddFwdPkg(tx, pkg)
	}, func() {})
}

// vDestRef: the answer to an even add id came over the open outgoing channel,
// to an odd one over the channel that is gone.
func vDestRef(id uint64) *channeldb.SettleFailRef {
	src := vDestOpen
	if id%2 == 1 {
		src = vDestClosed
	}
	return &channeldb.SettleFailRef{Source: src, Height: 1, Index: uint16(id % vDestSlots)}
}

func vProjectDack(lc *LightningChannel) []int64 {
	res := []int64{}
	var pkgs []*channeldb.FwdPkg
	err := kvdb.View(vBackend(lc), func(tx kvdb.RTx) error {
		var err error
		pkgs, err = channeldb.NewChannelPackager(vDestOpen).LoadFwdPkgs(tx)
		return err
	}, func() {})
	if err != nil || len(pkgs) != 1 {
		return append(res, -1)
	}
	for i := uint16(0); i < vDestSlots; i++ {
		if pkgs[0].SettleFailFilter.Contains(i) {
			res = append(res, int64(i))
		}
	}
	return res
}

// vDbTxid reads the id of the last committed read-write transaction from the
// two meta pages of the channel's bbolt file (page header 16 bytes, txid at
// offset 48 of the meta struct).  The difference between two calls is the
// number of durable transactions in between: C02's "each API call is at most
// one atomic kvdb transaction".
func vDbTxid(lc *LightningChannel) int64 {
	sdb, ok := lc.channelState.Db.(*channeldb.ChannelStateDB)
	if !ok {
		return -1
	}
	f, err := os.Open(sdb.GetParentDB().Path() + "/channel.db")
	if err != nil {
		return -1
	}
	defer f.Close()
	best := int64(-1)
	for _, off := range []int64{0, 4096} {
		var b [80]byte
		if _, err := f.ReadAt(b[:], off); err != nil {
			continue
		}
		if binary.LittleEndian.Uint32(b[16:20]) != 0xED0CDAED {
			continue
		}
		if tx := int64(binary.LittleEndian.Uint64(b[64:72])); tx > best {
			best = tx
		}
	}
	return best
}

func vReload(lc *LightningChannel) (*LightningChannel, error) {
	st := lc.channelState
	chans, err := st.Db.FetchOpenChannels(st.IdentityPub)
	if err != nil || len(chans) != 1 {
		return nil, fmt.Errorf("FetchOpenChannels: %v n=%d", err, len(chans))
	}

	return NewLightningChannel(lc.Signer, chans[0], lc.sigPool)
}

// vSignedCommitOk: the local commitment of a freshly reloaded channel is
// fully signed and valid against the funding output (1), not (0), or not
// applicable because the fixture's height-0 commitment has a fake sig (-1).
func vSignedCommitOk(sh *LightningChannel) (int, string) {
	if sh.channelState.LocalCommitment.CommitHeight == 0 {
		return -1, ""
	}
	tx, err := sh.getSignedCommitTx()
	if err != nil {
		return 0, "getSignedCommitTx: " + err.Error()
	}
	fo := sh.fundingOutput
	if err := vRunEngine(fo.PkScript, fo.Value, tx, 0); err != nil {
		return 0, "engine: " + err.Error()
	}
	return 1, ""
}

// vRelHeight finds which height's secret a revoke_and_ack carries.
func vRelHeight(lc *LightningChannel, rev *lnwire.RevokeAndAck) int64 {
	top := lc.commitChains.Local.tail().height + 2
	for h := uint64(0); h <= top; h++ {
		s, err := lc.channelState.RevocationProducer.AtIndex(h)
		if err == nil && *s == rev.Revocation {
			return int64(h)
		}
	}
	return -1
}

// vPointIndex: which element of lc's own per-commitment chain the point is.
func vPointIndex(lc *LightningChannel, pt *btcec.PublicKey) int64 {
	if pt == nil {
		return -1
	}
	top := lc.commitChains.Local.tip().height + 3
	for h := uint64(0); h <= top; h++ {
		s, err := lc.channelState.RevocationProducer.AtIndex(h)
		if err == nil && input.ComputeCommitmentPoint(s[:]).IsEqual(pt) {
			return int64(h)
		}
	}
	return -2
}

// vStaleSecrets asks a handle nobody updates for the remote revocation store
// (as the chain watcher does before it looks for a breach) and counts the
// leading secrets of the peer's chain it reproduces exactly.
func vStaleSecrets(stale *channeldb.OpenChannel, peer *LightningChannel) int64 {
	store, err := stale.RemoteRevocationStore()
	if err != nil {
		return -2
	}
	n := int64(0)
	for h := uint64(0); h <= peer.commitChains.Local.tip().height+1; h++ {
		want, err := peer.channelState.RevocationProducer.AtIndex(h)
		if err != nil {
			break
		}
		got, err := store.LookUp(h)
		if err != nil || *got != *want {
			break
		}
		n++
	}
	return n
}

// verifDiverged: a schedule step the real objects cannot take.
type verifDiverged string

func vIsConstraintErr(err error) bool {
	if err == nil {
		return false
	}
	s := err.Error()
	for _, k := range []string{"insufficient", "below", "exceeds", "max", "reserve", "balance", "dust", "fee"} {
		if strings.Contains(strings.ToLower(s), k) {
			return true
		}
	}
	return false
}

func TestVerifChannelExec(t *testing.T) {
	testChannelCapacity = 0.01 // 1 000 000 sat: every msat amount fits TLC's 32-bit integers

	dir := os.Getenv("VERIF_SCHED")
	files := verifkit.ListFiles(dir, "b_", ".ndjson")
	if len(files) == 0 {
		t.Fatalf("no schedules in %q", dir)
	}
	typeNames := strings.Split(verifkit.Env("VERIF_TYPES", "tweakless"), ",")
	shadowEvery := verifkit.EnvInt("VERIF_SHADOW_EVERY", 1)
	out := verifkit.MustWriter(verifkit.Env("VERIF_OUT", ".") + "/trace.ndjson")
	defer out.Close()

	nsteps := 0
	for fi, f := range files {
		evs, err := verifkit.ReadNDJSONInto[vEv](f)
		if err != nil {
			t.Fatal(err)
		}
		if len(evs) == 0 || evs[0].A != "Cfg" {
			t.Fatalf("%s: first event must be Cfg", f)
		}
		tname := typeNames[(fi+int(verifkit.Seed()))%len(typeNames)]
		ctype, ok := vChanTypes[tname]
		if !ok {
			t.Fatalf("unknown channel type %q", tname)
		}
		// uneven funding split: the Cfg record carries the non-opener's share (msat)
		poor := int64(evs[0].X)
		VerifSetPoorShare(poor / 1000)
		alice, bob, err := CreateTestChannels(t, ctype)
		if err != nil {
			t.Fatal(err)
		}
		// every third behaviour: channel_reestablish without the data-loss-protect fields
		noDLP := (fi+int(verifkit.Seed()))%3 == 1
		// lease fixtures get a real lease expiry through the orchestrator's overlay of
		// lnwallet/test_utils.go (the stock fixture leaves it 0, which hides everything
		// that depends on it); whatever the fixture wrote is what every reload must return
		thaw := alice.channelState.ThawHeight
		// alice is the fixture's initiator: she plays the model's opener
		opener := evs[0].P
		nonOpener := map[string]string{"A": "B", "B": "A"}[opener]
		sides := map[string]*vSide{opener: {name: opener, lc: alice}, nonOpener: {name: nonOpener, lc: bob}}
		other := map[string]string{"A": "B", "B": "A"}
		for _, s := range sides {
			st := s.lc.channelState
			chans, ferr := st.Db.FetchOpenChannels(st.IdentityPub)
			if ferr != nil || len(chans) != 1 {
				t.Fatalf("stale handle: %v", ferr)
			}
			s.stale = chans[0]
		}
		pres := map[[32]byte][32]byte{}
		lastPre := map[string][32]byte{} // per party+amount, for duplicates
		ndup := 0
		ntouch := 0
		nbad := 0
		npre := 0

		out.Emit(vLine{vEv: vEv{A: "Reset", P: "A"}, Type: tname, Opener: opener, File: filepath.Base(f), Poor: poor,
			Thaw: thaw, NoDLP: map[bool]int{false: 0, true: 1}[noDLP],
			Dust: map[string]int64{
				opener:    int64(alice.channelState.LocalChanCfg.DustLimit),
				nonOpener: int64(bob.channelState.LocalChanCfg.DustLimit)},
			St: map[string]vParty{}, Sh: map[string]vParty{}, SigOk: map[string]int{}, NTx: map[string]int64{}})

		lastTx := map[string]int64{}
		for n, s := range sides {
			if err := vCreateDestPkg(s.lc); err != nil {
				t.Fatalf("destination package: %v", err)
			}
			lastTx[n] = vDbTxid(s.lc)
		}
		// a schedule step that the real objects cannot take (the peer never
		// produced the message to deliver) ends this behaviour: the recorded
		// prefix already holds the deviating step and TLC judges it
		func() {
			defer func() {
				if r := recover(); r != nil {
					d, is := r.(verifDiverged)
					if !is {
						panic(r)
					}
					t.Logf("VERIF-DIVERGED %s", string(d))
				}
			}()
			for _, e := range evs[1:] {
				me := sides[e.P]
				peer := sides[other[e.P]]
				var err error
				txeq, relh := -1, int64(-1)
				nph, lup, crp, nrk, rsk := int64(-1), int64(-1), int64(-1), int64(-1), int64(-1)
				rej := -1
				pop := func(kinds ...string) vMsg {
					if len(peer.out) == 0 {
						panic(verifDiverged(fmt.Sprintf("%s: %v: peer queue empty", f, e)))
					}
					m := peer.out[0]
					ok := false
					for _, k := range kinds {
						ok = ok || k == m.kind
					}
					if !ok {
						// the real peer queued something else than the schedule
						// expects here: the step that produced it is already recorded
						panic(verifDiverged(fmt.Sprintf("%s: %v: head of peer queue is %q", f, e, m.kind)))
					}
					peer.out = peer.out[1:]
					return m
				}
				name := e.A
				switch e.A {
				case "Add":
					var pre [32]byte
					expiry := uint32(500)
					key := fmt.Sprintf("%s/%d", e.P, e.X)
					if lp, ok := lastPre[key]; ok && e.Y == 1 {
						// equal-hash duplicate: alternately fully identical and with
						// a different CLTV expiry (BIP69+CLTV tie-break in the sort)
						pre = lp
						ndup++
						if ndup%2 == 1 {
							expiry = 509
						}
					} else {
						npre++
						pre[0], pre[1], pre[2] = byte(npre), byte(npre>>8), 0x5a
					}
					lastPre[key] = pre
					h := sha256.Sum256(pre[:])
					pres[h] = pre
					htlc := &lnwire.UpdateAddHTLC{
						ID: me.lc.updateLogs.Local.htlcCounter, PaymentHash: h,
						Amount: lnwire.MilliSatoshi(e.X), Expiry: expiry,
					}
					_, err = me.lc.AddHTLC(htlc, nil)
					if err == nil {
						me.out = append(me.out, vMsg{kind: "add", add: htlc})
					} else if vIsConstraintErr(err) {
						name = "AddRejected"
					}
				case "Resolve":
					var pd *paymentDescriptor
					for x := me.lc.updateLogs.Remote.Front(); x != nil; x = x.Next() {
						if x.Value.isAdd() && x.Value.HtlcIndex == uint64(e.X) {
							pd = x.Value
						}
					}
					if pd == nil {
						err = fmt.Errorf("htlc %d not in remote log", e.X)
						break
					}
					if e.Y == 1 {
						pre := pres[pd.RHash]
						err = me.lc.SettleHTLC(pre, pd.HtlcIndex, vSourceRef(me.lc, pd.HtlcIndex), vDestRef(pd.HtlcIndex), nil)
						if err == nil {
							me.out = append(me.out, vMsg{kind: "settle", id: pd.HtlcIndex, pre: pre})
						}
					} else if e.Y == 2 && pd.HtlcIndex%2 == 1 {
						// update_fail_malformed_htlc: the receiver handles it like a fail
						// (only for answers whose outgoing channel is gone: the call takes
						// no destination reference)
						err = me.lc.MalformedFailHTLC(
							pd.HtlcIndex, lnwire.CodeInvalidOnionHmac, sha256.Sum256([]byte("onion")),
							vSourceRef(me.lc, pd.HtlcIndex),
						)
						// (MalformedFailHTLC takes no destination reference: the link
						// only calls it for adds it fails itself, never for a relayed answer)
						if err == nil {
							me.out = append(me.out, vMsg{kind: "fail", id: pd.HtlcIndex})
						}
					} else {
						err = me.lc.FailHTLC(pd.HtlcIndex, []byte("x"), vSourceRef(me.lc, pd.HtlcIndex), vDestRef(pd.HtlcIndex), nil)
						if err == nil {
							me.out = append(me.out, vMsg{kind: "fail", id: pd.HtlcIndex})
						}
					}
				case "Sign":
					var ns *NewCommitState
					ns, err = me.lc.SignNextCommitment(ctxb)
					if err == nil {
						me.out = append(me.out, vMsg{kind: "sig", sigs: ns.CommitSigs})
					}
				case "RecvAdd":
					_, err = me.lc.ReceiveHTLC(pop("add").add)
				case "RecvRes":
					m := pop("settle", "fail")
					if m.kind == "settle" {
						err = me.lc.ReceiveHTLCSettle(m.pre, m.id)
					} else {
						err = me.lc.ReceiveFailHTLC(m.id, []byte("x"))
					}
				case "RecvSig":
					err = me.lc.ReceiveNewCommitment(pop("sig").sigs)
					if err == nil {
						mine := me.lc.commitChains.Local.tip().txn
						theirs := peer.lc.commitChains.Remote.tip().txn
						txeq = 0
						if mine != nil && theirs != nil && mine.TxHash() == theirs.TxHash() {
							txeq = 1
						}
					}
				case "Revoke":
					var rev *lnwire.RevokeAndAck
					rev, _, _, err = me.lc.RevokeCurrentCommitment()
					if err == nil {
						me.out = append(me.out, vMsg{kind: "rev", rev: rev})
						relh = vRelHeight(me.lc, rev)
						nph = vPointIndex(me.lc, rev.NextRevocationKey)
					}
				case "RecvRev":
					_, _, err = me.lc.ReceiveRevocation(pop("rev").rev)
					if err == nil {
						rsk = vStaleSecrets(me.stale, peer.lc)
					}
				case "RecvBadRev":
					// the genuine message stays queued; a copy with a secret that is
					// not on the sender's chain is delivered first
					if len(peer.out) == 0 || peer.out[0].kind != "rev" {
						panic(verifDiverged(fmt.Sprintf("%s: %v: no revocation queued", f, e)))
					}
					nbad++
					bad := *peer.out[0].rev
					if nbad%2 == 1 {
						// the negation of the right scalar: the same x coordinate
						// of the commitment point, the other y
						var sc btcec.ModNScalar
						sc.SetByteSlice(bad.Revocation[:])
						sc.Negate()
						bad.Revocation = sc.Bytes()
					} else {
						bad.Revocation[31] ^= 0x01
					}
					_, _, rerr := me.lc.ReceiveRevocation(&bad)
					rej = 0
					if rerr != nil {
						rej = 1
					}
				case "UpdateFee":
					err = me.lc.UpdateFee(chainfee.SatPerKWeight(e.X))
					if err == nil {
						me.out = append(me.out, vMsg{kind: "fee", fee: int64(e.X)})
					}
				case "RecvFee":
					err = me.lc.ReceiveUpdateFee(chainfee.SatPerKWeight(pop("fee").fee))
				case "Disconnect":
					for _, s := range sides {
						var nlc *LightningChannel
						if nlc, err = vReload(s.lc); err != nil {
							break
						}
						s.lc = nlc
						s.out = nil
					}
				case "SoftDisconnect":
					// the transport dropped, nobody reloaded the channels
					for _, s := range sides {
						s.out = nil
					}
				case "StaleTouch":
					// writes that do not belong to the commitment state machine,
					// through the stale handle (what the chain watcher and the
					// arbitrator hold): a status update that sets no bit, the close
					// height recorded at spend detection, its reset on a reorg
					ntouch++
					switch ntouch % 4 {
					case 0:
						err = me.stale.ApplyChanStatus(channeldb.ChanStatusDefault)
					case 1:
						err = me.stale.MarkCloseConfirmationHeight(fn.Some(uint32(100 + ntouch)))
					case 2:
						err = me.stale.ResetCloseConfirmationHeight()
					default:
						// the funding manager's copy learns the confirmed scid of a
						// zero-conf channel that is already in use
						err = me.stale.MarkRealScid(lnwire.NewShortChanIDFromInt(uint64(7000 + ntouch)))
					}
				case "LiveRefresh":
					// channelLink.UpdateShortChanID: the live channel's state is
					// re-read from the database, the LightningChannel lives on
					err = me.lc.channelState.Refresh()
				case "SendReest":
					var m *lnwire.ChannelReestablish
					m, err = me.lc.channelState.ChanSyncMsg()
					if err == nil {
						lup = vPointIndex(me.lc, m.LocalUnrevokedCommitPoint)
						// the two places a channel_ready is re-sent from on reconnect
						if pt, perr := me.lc.channelState.SecondCommitmentPoint(); perr == nil {
							crp = vPointIndex(me.lc, pt)
						}
						if pt, perr := me.lc.NextRevocationKey(); perr == nil {
							nrk = vPointIndex(me.lc, pt)
						}
						if me.lc.channelState.ChanType.IsTaproot() {
							// what the peer package does with the nonce it has
							// just put into channel_reestablish
							txid := me.lc.channelState.FundingOutpoint.Hash
							var nonce lnwire.Musig2Nonce
							if m.LocalNonces.IsSome() {
								nonce = m.LocalNonces.UnsafeFromSome().NoncesMap[txid]
							} else {
								nonce = m.LocalNonce.UnwrapOrFailV(t)
							}
							me.lc.pendingVerificationNonce = &musig2.Nonces{PubNonce: nonce}
						}
						if noDLP {
							// an honest peer that does not send the optional
							// data-loss-protect fields
							m.LocalUnrevokedCommitPoint = nil
							m.LastRemoteCommitSecret = [32]byte{}
						}
						me.out = append(me.out, vMsg{kind: "reest", reest: m})
					}
				case "RecvReest":
					var msgs []lnwire.Message
					msgs, _, _, err = me.lc.ProcessChanSyncMsg(ctxb, pop("reest").reest)
					for _, x := range msgs {
						switch mm := x.(type) {
						case *lnwire.UpdateAddHTLC:
							me.out = append(me.out, vMsg{kind: "add", add: mm})
						case *lnwire.UpdateFulfillHTLC:
							me.out = append(me.out, vMsg{kind: "settle", id: mm.ID, pre: mm.PaymentPreimage})
						case *lnwire.UpdateFailHTLC:
							me.out = append(me.out, vMsg{kind: "fail", id: mm.ID})
						case *lnwire.UpdateFailMalformedHTLC:
							me.out = append(me.out, vMsg{kind: "fail", id: mm.ID})
						case *lnwire.UpdateFee:
							me.out = append(me.out, vMsg{kind: "fee", fee: int64(mm.FeePerKw)})
						case *lnwire.CommitSig:
							me.out = append(me.out, vMsg{kind: "sig", sigs: &CommitSigs{
								CommitSig: mm.CommitSig, HtlcSigs: mm.HtlcSigs, PartialSig: mm.PartialSig}})
						case *lnwire.RevokeAndAck:
							me.out = append(me.out, vMsg{kind: "rev", rev: mm})
							relh = vRelHeight(me.lc, mm)
							nph = vPointIndex(me.lc, mm.NextRevocationKey)
						default:
							me.out = append(me.out, vMsg{kind: fmt.Sprintf("%T", x)})
						}
					}
				default:
					t.Fatalf("unknown action %q", e.A)
				}

				tl := vLine{vEv: e, St: map[string]vParty{}, Sh: map[string]vParty{}, SigOk: map[string]int{},
					TxEq: txeq, RelH: relh, NPH: nph, LUP: lup, CRP: crp, NRK: nrk, RSK: rsk, Rej: rej}
				tl.A = name
				tl.NTx = map[string]int64{}
				for n, s := range sides {
					now := vDbTxid(s.lc)
					tl.NTx[n] = now - lastTx[n]
					lastTx[n] = now
				}
				if err != nil && name != "AddRejected" {
					tl.Err = err.Error()
				}
				doShadow := shadowEvery <= 1 || nsteps%shadowEvery == 0 || e.A == "Revoke" || e.A == "RecvRev" ||
					e.A == "Sign" || e.A == "RecvReest"
				for n, s := range sides {
					tl.St[n] = vProject(s.lc, s.out)
					tl.SigOk[n] = -1
					if !doShadow {
						tl.Sh[n] = vParty{Net: []string{}, LC: []vCommit{}, RC: []vCommit{}, L: []vEntry{}, R: []vEntry{}, Fwd: []vFwd{}}
						continue
					}
					sh, rerr := vReload(s.lc)
					if rerr != nil {
						tl.ShErr = n + ": " + rerr.Error()
						tl.Sh[n] = vParty{Net: []string{}, LC: []vCommit{}, RC: []vCommit{}, L: []vEntry{}, R: []vEntry{}, Fwd: []vFwd{}}
						continue
					}
					tl.Sh[n] = vProject(sh, nil)
					okv, msg := vSignedCommitOk(sh)
					tl.SigOk[n] = okv
					if okv == 0 && tl.ShErr == "" {
						tl.ShErr = n + ": " + msg
					}
				}
				if !doShadow {
					tl.ShErr = "skipped"
				}
				out.Emit(tl)
				nsteps++
				if err != nil {
					t.Logf("%s: step %v: %v", filepath.Base(f), e, err)
					break
				}
			}
		}()
	}
	t.Logf("executed %d behaviours, %d steps", len(files), nsteps)
}
