//go:build verif

package lnwallet

import (
	"bytes"
	"crypto/sha256"
	"fmt"
	"os"
	"path/filepath"
	"strings"
	"testing"

	"github.com/btcsuite/btcd/btcec/v2/schnorr/musig2"
	"github.com/btcsuite/btcd/txscript/v2"
	"github.com/btcsuite/btcd/wire/v2"
	"github.com/lightningnetwork/lnd/chainntnfs"
	"github.com/lightningnetwork/lnd/channeldb"
	"github.com/lightningnetwork/lnd/input"
	"github.com/lightningnetwork/lnd/internal/verifkit"
	"github.com/lightningnetwork/lnd/lntypes"
	"github.com/lightningnetwork/lnd/lnwallet/chainfee"
	"github.com/lightningnetwork/lnd/lnwire"
)

// C05 executor.  Same replay as channel_exec_test.go (whose projection and
// helper functions it uses); in addition, on channels RELOADED FROM THE
// DATABASE, it computes what the node would do if (0) it force-closed, (1) the
// counterparty's current or (2) pending commitment confirmed, runs btcd's
// script interpreter over every spend and records raw facts as `CloseCheck`
// lines.  Every line also carries the party's ANCHOR resolution for that
// commitment - the one inside the close summary and the one
// NewAnchorResolutions() returns before confirmation (.Local / .Remote /
// .RemotePending) - swept the way contractcourt's anchorResolver does.
// It judges nothing: spec/Channel/ChannelCloseTrace.tla does.  (The same
// record, obtained through a real chainWatcher, is written by
// harness/contractcourt/c05_watch_test.go.)

type c5Res struct {
	Dir   int   `json:"dir"`   // 0 = HTLC offered by p (outgoing resolution), 1 = received
	Hi    int64 `json:"hi"`    // HTLC index of the commitment entry that owns the spent output
	Idx   int64 `json:"idx"`   // output index on the commitment transaction
	Amt   int64 `json:"amt"`   // value of that output in the real transaction (sat)
	Claim int64 `json:"claim"` // value of the output p finally sweeps (second-level output or the same)
	Lt    int64 `json:"lt"`    // lock time of the spend of the commitment output
	Exp   int64 `json:"exp"`   // CLTV expiry the executor gave this HTLC when it was added
	Seq   int64 `json:"seq"`   // nSequence of the spend of the commitment output
	Csv   int64 `json:"csv"`   // CsvDelay of the resolution
	E1    int   `json:"e1"`    // spend of the commitment output accepted by the interpreter
	E1lo  int   `json:"e1lo"`  // same spend one block too early: 1 rejected by the lock, 0 accepted, 2 other error
	Cltv  int   `json:"cltv"`  // timeout spend with lock time expiry-1: 1 rejected by the lock
	Agg   int   `json:"agg"`   // anchors: HTLC input re-signed from SignDetails inside a bigger tx accepted
	E2    int   `json:"e2"`    // sweep of the second-level output at nSequence = csv accepted
	E2lo  int   `json:"e2lo"`  // ... at csv-1: 1 rejected by the lock
	E2cl  int   `json:"e2cl"`  // lease: ... with lock time lease expiry-1: 1 rejected by the lock
	Desc  int   `json:"desc"`  // SweepSignDesc.Output equals the real output it is meant to spend
}

type c5Self struct {
	Present int   `json:"present"`
	Idx     int64 `json:"idx"`
	Val     int64 `json:"val"`
	Csv     int64 `json:"csv"`
	Lt      int64 `json:"lt"`
	Ok      int   `json:"ok"`
	Lo      int   `json:"lo"`
	Cl      int   `json:"cl"`
	Desc    int   `json:"desc"`
}

// c5Anc: the resolution of p's ANCHOR output on the commitment in question.
type c5Anc struct {
	Present int   `json:"present"` // a resolution was returned
	Idx     int64 `json:"idx"`     // CommitAnchor.Index
	Val     int64 `json:"val"`     // value in the sign descriptor
	Desc    int   `json:"desc"`    // descriptor output == the real output at that index of that transaction
	Ok      int   `json:"ok"`      // the anchor resolver's sweep input accepted by the interpreter
}

type c5Line struct {
	vEv
	Err    string  `json:"err"`
	H      int64   `json:"h"`
	NOut   int     `json:"nout"`
	NIn    int     `json:"nin"`
	Commit int     `json:"commit"`
	Res    []c5Res `json:"res"`
	Self   c5Self  `json:"self"`
	Claim  int64   `json:"claim"`
	Note   string  `json:"note"`
	Live   int     `json:"live"` // 1: computed on the LIVE channel object (not judged differently)
	Anc    c5Anc   `json:"anc"`  // anchor resolution inside the close summary
	APre   c5Anc   `json:"apre"` // NewAnchorResolutions() before confirmation: .Local / .Remote / .RemotePending
	Via    int     `json:"via"`  // 0: lnwallet called directly; 1: through contractcourt's chainWatcher
	CKey   int     `json:"ckey"` // via = 1: which commitment the watcher took the spend for (0 local, 1 remote, 2 pending)
	NSet   int     `json:"nset"` // via = 1: number of HTLCs in the CommitSet entry of that commitment
}

// c5Anchor: what anchorResolver.Launch does with an AnchorResolution, run
// through the interpreter against the real transaction.
func c5Anchor(ar *AnchorResolution, tx *wire.MsgTx, ct channeldb.ChannelType, signer input.Signer) c5Anc {
	a := c5Anc{Idx: -1, Desc: -1, Ok: -1}
	if ar == nil {
		return a
	}
	a.Present, a.Idx, a.Desc, a.Ok = 1, int64(ar.CommitAnchor.Index), 0, 0
	sd := &ar.AnchorSignDescriptor
	if sd.Output != nil {
		a.Val = sd.Output.Value
	}
	if tx == nil || ar.CommitAnchor.Hash != tx.TxHash() || int(ar.CommitAnchor.Index) >= len(tx.TxOut) {
		return a
	}
	prev := tx.TxOut[ar.CommitAnchor.Index]
	a.Desc = c5SameOut(sd.Output, prev)
	wt := input.CommitmentAnchor
	if ct.IsTaproot() {
		wt = input.TaprootAnchorSweepSpend
	}
	inp := input.MakeBaseInput(&ar.CommitAnchor, wt, sd, c5Height, nil)
	a.Ok = c5Bit(c5Spend(&inp, signer, prev, 0, 0))
	return a
}

// c5AnchorPre: the anchor resolution the node uses BEFORE confirmation (CPFP of
// whichever commitment is in the mempool): NewAnchorResolutions of the channel.
func c5AnchorPre(sh *LightningChannel, w int, tx *wire.MsgTx) c5Anc {
	ars, err := sh.NewAnchorResolutions()
	if err != nil || ars == nil {
		return c5Anc{Present: -1, Idx: -1, Desc: -1, Ok: -1}
	}
	ar := ars.Local
	switch w {
	case 1:
		ar = ars.Remote
	case 2:
		ar = ars.RemotePending
	}
	return c5Anchor(ar, tx, sh.channelState.ChanType, sh.Signer)
}

// c5Fault: ForceClose of a freshly reloaded channel whose signer fails at its
// k-th SignOutputRaw call (a remote signer / hardware wallet hiccup).
type c5Fault struct {
	K      int `json:"k"`
	Err    int `json:"err"`  // 1: ForceClose reported the error
	NOut   int `json:"nout"` // resolutions in the summary it returned otherwise
	NIn    int `json:"nin"`
	Commit int `json:"commit"` // the commitment it returned is fully signed
}

type c5FaultLine struct {
	vEv
	NOut   int       `json:"nout"` // fault-free summary of the same state
	NIn    int       `json:"nin"`
	Calls  int       `json:"calls"`
	Faults []c5Fault `json:"faults"`
}

type c5FaultSigner struct {
	input.Signer
	n, failAt int
}

func (f *c5FaultSigner) SignOutputRaw(tx *wire.MsgTx, sd *input.SignDescriptor) (input.Signature, error) {
	f.n++
	if f.n == f.failAt {
		return nil, fmt.Errorf("verif: signer unavailable (call %d)", f.n)
	}
	return f.Signer.SignOutputRaw(tx, sd)
}

// closeFaults: the environment fault "the signer fails once" at every point of
// a force close. Field copies only; what is acceptable is decided by the spec.
func (c *c5Ctx) closeFaults(p string, live *LightningChannel, base c5Line) (c5FaultLine, bool) {
	fl := c5FaultLine{vEv: vEv{A: "CloseFault", P: p}, NOut: base.NOut, NIn: base.NIn, Faults: []c5Fault{}}
	if base.Err != "" || base.NOut+base.NIn == 0 {
		return fl, false
	}
	// count the signer calls of an undisturbed force close
	sh, err := c5Reload(live)
	if err != nil {
		return fl, false
	}
	cnt := &c5FaultSigner{Signer: sh.Signer}
	sh.Signer = cnt
	if _, err := sh.ForceClose(); err != nil {
		return fl, false
	}
	fl.Calls = cnt.n
	for k := 1; k <= cnt.n && k <= 6; k++ {
		sh, err := c5Reload(live)
		if err != nil {
			return fl, false
		}
		sh.Signer = &c5FaultSigner{Signer: sh.Signer, failAt: k}
		f := c5Fault{K: k}
		sum, err := sh.ForceClose()
		if err != nil {
			f.Err = 1
		} else {
			fo := sh.fundingOutput
			f.Commit = c5Bit(vRunEngine(fo.PkScript, fo.Value, sum.CloseTx, 0))
			if res, rerr := sum.ContractResolutions.UnwrapOrErr(fmt.Errorf("none")); rerr == nil {
				f.NOut = len(res.HtlcResolutions.OutgoingHTLCs)
				f.NIn = len(res.HtlcResolutions.IncomingHTLCs)
			}
		}
		fl.Faults = append(fl.Faults, f)
	}
	return fl, len(fl.Faults) > 0
}

const c5Height = 100 // height hint / "confirmation height" handed to the resolutions

func c5Bit(err error) int {
	if err == nil {
		return 1
	}
	return 0
}

// c5Locked: 1 = the interpreter rejected the spend because a relative or
// absolute lock is not satisfied, 0 = accepted, 2 = rejected for another reason.
func c5Locked(err error) int {
	switch {
	case err == nil:
		return 0
	case txscript.IsErrorCode(err, txscript.ErrUnsatisfiedLockTime):
		return 1
	default:
		return 2
	}
}

// c5Spend builds a transaction the way sweep.createSweepTx does (nSequence =
// BlocksToMaturity, nLockTime = RequiredLockTime, required output first,
// witness from the input's own generator, signing against the prevout the
// sign descriptor names) and runs the interpreter against the REAL output.
func c5Spend(inp input.Input, signer input.Signer, prev *wire.TxOut, seq, lock uint32) error {
	tx := wire.NewMsgTx(2)
	tx.AddTxIn(&wire.TxIn{PreviousOutPoint: inp.OutPoint(), Sequence: seq})
	if ro := inp.RequiredTxOut(); ro != nil {
		tx.AddTxOut(ro)
	}
	tx.AddTxOut(&wire.TxOut{PkScript: append([]byte{0x00, 0x14}, make([]byte, 20)...), Value: 1000})
	tx.LockTime = lock
	sd := inp.SignDesc()
	fetcher := txscript.NewCannedPrevOutputFetcher(sd.Output.PkScript, sd.Output.Value)
	hc := txscript.NewTxSigHashes(tx, fetcher)
	sc, err := inp.CraftInputScript(signer, tx, hc, fetcher, 0)
	if err != nil {
		return fmt.Errorf("craft: %w", err)
	}
	tx.TxIn[0].Witness = sc.Witness
	return vRunEngine(prev.PkScript, prev.Value, tx, 0)
}

func c5SameOut(a, b *wire.TxOut) int {
	if a != nil && b != nil && a.Value == b.Value && bytes.Equal(a.PkScript, b.PkScript) {
		return 1
	}
	return 0
}

func c5FindHtlc(htlcs []channeldb.HTLC, incoming bool, idx uint32) (int64, [32]byte) {
	for _, h := range htlcs {
		if h.Incoming == incoming && h.OutputIndex == int32(idx) {
			return int64(h.HtlcIndex), h.RHash
		}
	}
	return -1, [32]byte{}
}

type c5Ctx struct {
	pres map[[32]byte][32]byte
	exps map[string]int64 // "<offerer>/<htlc index>" -> expiry
}

func (c *c5Ctx) leaseExpiry(sh *LightningChannel) uint32 {
	if sh.channelState.ChanType.HasLeaseExpiration() {
		return sh.channelState.ThawHeight
	}
	return 0
}

func (c *c5Ctx) hasCltv(sh *LightningChannel) bool {
	return sh.channelState.IsInitiator && c.leaseExpiry(sh) > 0
}

// csvInput: what htlcLeaseResolver.makeSweepInput / commitSweepResolver do.
func (c *c5Ctx) csvInput(sh *LightningChannel, op *wire.OutPoint, wt, leaseWt input.StandardWitnessType,
	sd *input.SignDescriptor, csv uint32) *input.BaseInput {

	if c.hasCltv(sh) {
		return input.NewCsvInputWithCltv(op, leaseWt, sd, c5Height, csv, c.leaseExpiry(sh))
	}
	return input.NewCsvInput(op, wt, sd, c5Height, csv)
}

// sweepLocked spends prev through inp at its maturity, one block before its
// CSV maturity and (lease) one block before the lease expiry.
func c5SweepLocked(inp input.Input, signer input.Signer, prev *wire.TxOut) (ok, lo, cl int, lt int64) {
	seq := inp.BlocksToMaturity()
	lock, hasLock := inp.RequiredLockTime()
	ok, lo, cl = c5Bit(c5Spend(inp, signer, prev, seq, lock)), -1, -1
	if seq > 0 {
		lo = c5Locked(c5Spend(inp, signer, prev, seq-1, lock))
	}
	if hasLock {
		cl = c5Locked(c5Spend(inp, signer, prev, seq, lock-1))
		lt = int64(lock)
	}
	return
}

// closeLocal: p force-closes with the commitment it has on disk.
func (c *c5Ctx) closeLocal(p string, sh *LightningChannel) c5Line {
	ln := c5Line{vEv: vEv{A: "CloseCheck", P: p, X: 0}, Res: []c5Res{}, Commit: -1,
		H: int64(sh.channelState.LocalCommitment.CommitHeight)}
	ln.Self = c5Self{Ok: -1, Lo: -1, Cl: -1, Desc: -1}
	ln.Anc = c5Anc{Idx: -1, Desc: -1, Ok: -1}
	ln.CKey = -1
	ln.APre = c5AnchorPre(sh, 0, sh.channelState.LocalCommitment.CommitTx)
	sum, err := sh.ForceClose()
	if err != nil {
		ln.Err = "ForceClose: " + err.Error()
		return ln
	}
	ct := sh.channelState.ChanType
	fo := sh.fundingOutput
	ln.Commit = c5Bit(vRunEngine(fo.PkScript, fo.Value, sum.CloseTx, 0))
	res, err := sum.ContractResolutions.UnwrapOrErr(fmt.Errorf("no resolutions"))
	if err != nil {
		ln.Err = err.Error()
		return ln
	}
	commitHash := sum.CloseTx.TxHash()
	ln.Anc = c5Anchor(res.AnchorResolution, sum.CloseTx, ct, sh.Signer)
	htlcs := sh.channelState.LocalCommitment.Htlcs
	ln.NOut, ln.NIn = len(res.HtlcResolutions.OutgoingHTLCs), len(res.HtlcResolutions.IncomingHTLCs)

	second := func(dir int, stx *wire.MsgTx, details *input.SignDetails, csv uint32, claimOp wire.OutPoint,
		sd *input.SignDescriptor) c5Res {

		r := c5Res{Dir: dir, Hi: -1, E1lo: -1, Cltv: -1, Agg: -1, E2: 0, E2lo: -1, E2cl: -1, Csv: int64(csv)}
		if stx == nil {
			return r
		}
		op := stx.TxIn[0].PreviousOutPoint
		r.Idx, r.Lt, r.Seq = int64(op.Index), int64(stx.LockTime), int64(stx.TxIn[0].Sequence)
		if op.Hash != commitHash || int(op.Index) >= len(sum.CloseTx.TxOut) {
			return r
		}
		out := sum.CloseTx.TxOut[op.Index]
		r.Amt = out.Value
		hi, rhash := c5FindHtlc(htlcs, dir == 1, op.Index)
		r.Hi = hi
		offerer := p
		if dir == 1 {
			offerer = map[string]string{"A": "B", "B": "A"}[p]
		}
		r.Exp = c.exps[fmt.Sprintf("%s/%d", offerer, hi)]
		tx := stx.Copy()
		pre := c.pres[rhash]
		if dir == 1 {
			// the contract resolver places the preimage
			k := 3
			if ct.IsTaproot() {
				k = 2
			}
			if len(tx.TxIn[0].Witness) > k {
				tx.TxIn[0].Witness[k] = pre[:]
			}
		}
		r.E1 = c5Bit(vRunEngine(out.PkScript, out.Value, tx, 0))
		if details != nil {
			// anchor channels: the sweeper re-signs our half from SignDetails
			// inside an aggregate transaction
			var in input.HtlcSecondLevelAnchorInput
			switch {
			case dir == 0 && ct.IsTaproot():
				in = input.MakeHtlcSecondLevelTimeoutTaprootInput(stx, details, c5Height)
			case dir == 0:
				in = input.MakeHtlcSecondLevelTimeoutAnchorInput(stx, details, c5Height)
			case ct.IsTaproot():
				in = input.MakeHtlcSecondLevelSuccessTaprootInput(stx, details, lntypes.Preimage(pre), c5Height)
			default:
				in = input.MakeHtlcSecondLevelSuccessAnchorInput(stx, details, lntypes.Preimage(pre), c5Height)
			}
			lock, _ := in.RequiredLockTime()
			r.Agg = c5Bit(c5Spend(&in, sh.Signer, out, in.BlocksToMaturity(), lock))
		}
		// the second-level output, swept after the CSV delay
		prev2 := stx.TxOut[0]
		r.Claim = prev2.Value
		want := wire.OutPoint{Hash: stx.TxHash(), Index: 0}
		r.Desc = c5SameOut(sd.Output, prev2)
		if claimOp != want {
			r.Desc = 0
		}
		var wt input.StandardWitnessType
		switch {
		case dir == 0 && ct.IsTaprootFinal():
			wt = input.TaprootHtlcOfferedTimeoutSecondLevelFinal
		case dir == 0 && ct.IsTaproot():
			wt = input.TaprootHtlcOfferedTimeoutSecondLevel
		case dir == 0:
			wt = input.HtlcOfferedTimeoutSecondLevel
		case ct.IsTaprootFinal():
			wt = input.TaprootHtlcAcceptedSuccessSecondLevelFinal
		case ct.IsTaproot():
			wt = input.TaprootHtlcAcceptedSuccessSecondLevel
		default:
			wt = input.HtlcAcceptedSuccessSecondLevel
		}
		lwt := input.LeaseHtlcOfferedTimeoutSecondLevel
		if dir == 1 {
			lwt = input.LeaseHtlcAcceptedSuccessSecondLevel
		}
		inp := c.csvInput(sh, &want, wt, lwt, sd, csv)
		r.E2, r.E2lo, r.E2cl, _ = c5SweepLocked(inp, sh.Signer, prev2)
		return r
	}
	for i := range res.HtlcResolutions.OutgoingHTLCs {
		r := &res.HtlcResolutions.OutgoingHTLCs[i]
		rr := second(0, r.SignedTimeoutTx, r.SignDetails, r.CsvDelay, r.ClaimOutpoint, &r.SweepSignDesc)
		ln.Res = append(ln.Res, rr)
		ln.Claim += rr.Claim
	}
	for i := range res.HtlcResolutions.IncomingHTLCs {
		r := &res.HtlcResolutions.IncomingHTLCs[i]
		rr := second(1, r.SignedSuccessTx, r.SignDetails, r.CsvDelay, r.ClaimOutpoint, &r.SweepSignDesc)
		ln.Res = append(ln.Res, rr)
		ln.Claim += rr.Claim
	}
	if cr := res.CommitResolution; cr != nil {
		s := &ln.Self
		s.Present, s.Idx, s.Csv = 1, int64(cr.SelfOutPoint.Index), int64(cr.MaturityDelay)
		if cr.SelfOutPoint.Hash == commitHash && int(cr.SelfOutPoint.Index) < len(sum.CloseTx.TxOut) {
			prev := sum.CloseTx.TxOut[cr.SelfOutPoint.Index]
			s.Val = prev.Value
			s.Desc = c5SameOut(cr.SelfOutputSignDesc.Output, prev)
			var wt input.StandardWitnessType
			switch {
			case ct.IsTaprootFinal():
				wt = input.TaprootLocalCommitSpendFinal
			case ct.IsTaproot():
				wt = input.TaprootLocalCommitSpend
			default:
				wt = input.CommitmentTimeLock
			}
			inp := c.csvInput(sh, &cr.SelfOutPoint, wt, input.LeaseCommitmentTimeLock, &cr.SelfOutputSignDesc,
				cr.MaturityDelay)
			s.Ok, s.Lo, s.Cl, s.Lt = c5SweepLocked(inp, sh.Signer, prev)
			ln.Claim += prev.Value
		} else {
			s.Ok, s.Desc = 0, 0
		}
	}
	return ln
}

// closeRemote: the counterparty's current (w = 1) or pending (w = 2)
// commitment confirms; p resolves it from what it has on disk.
func (c *c5Ctx) closeRemote(p string, w int, sh *LightningChannel, peerLive *LightningChannel) (c5Line, bool) {
	ln := c5Line{vEv: vEv{A: "CloseCheck", P: p, X: w}, Res: []c5Res{}, Commit: -1}
	ln.Self = c5Self{Ok: -1, Lo: -1, Cl: -1, Desc: -1}
	ln.Anc, ln.APre = c5Anc{Idx: -1, Desc: -1, Ok: -1}, c5Anc{Idx: -1, Desc: -1, Ok: -1}
	ln.CKey = -1
	st := sh.channelState
	rc := st.RemoteCommitment
	point := st.RemoteCurrentRevocation
	if w == 2 {
		diff, err := st.RemoteCommitChainTip()
		if err != nil {
			return ln, false // no pending commitment
		}
		rc, point = diff.Commitment, st.RemoteNextRevocation
	}
	ln.H = int64(rc.CommitHeight)
	if rc.CommitHeight == 0 {
		return ln, false // the fixture's genesis transactions are not fee-adjusted
	}
	if point == nil || rc.CommitTx == nil {
		ln.Err = "no commit point / transaction stored for this commitment"
		return ln, true
	}
	// the transaction that confirms is taken from the counterparty's side
	// whenever it holds that height
	spendTx := rc.CommitTx
	for e := peerLive.commitChains.Local.commitments.Front(); e != nil; e = e.Next() {
		if e.Value.height == rc.CommitHeight && e.Value.txn != nil {
			ln.Commit = 0
			if e.Value.txn.TxHash() == rc.CommitTx.TxHash() {
				ln.Commit = 1
			}
			spendTx = e.Value.txn
		}
	}
	txid := spendTx.TxHash()
	ln.APre = c5AnchorPre(sh, w, spendTx)
	sum, err := NewUnilateralCloseSummary(st, sh.Signer, &chainntnfs.SpendDetail{
		SpenderTxHash: &txid, SpendingTx: spendTx, SpendingHeight: c5Height,
	}, rc, point, sh.leafStore, sh.auxResolver)
	if err != nil {
		ln.Err = "NewUnilateralCloseSummary: " + err.Error()
		return ln, true
	}
	ct := st.ChanType
	ln.Anc = c5Anchor(sum.AnchorResolution, spendTx, ct, sh.Signer)
	ln.NOut, ln.NIn = len(sum.HtlcResolutions.OutgoingHTLCs), len(sum.HtlcResolutions.IncomingHTLCs)
	direct := func(dir int, stx *wire.MsgTx, op wire.OutPoint, csv, expiry uint32, sd *input.SignDescriptor) c5Res {
		r := c5Res{Dir: dir, Hi: -1, Idx: int64(op.Index), E1lo: -1, Cltv: -1, Agg: -1, E2: -1, E2lo: -1, E2cl: -1,
			Csv: int64(csv)}
		if stx != nil || op.Hash != txid || int(op.Index) >= len(spendTx.TxOut) {
			return r // a second-level tx on the counterparty's commitment would be wrong
		}
		out := spendTx.TxOut[op.Index]
		r.Amt, r.Claim = out.Value, out.Value
		r.Desc = c5SameOut(sd.Output, out)
		hi, rhash := c5FindHtlc(rc.Htlcs, dir == 1, op.Index)
		r.Hi = hi
		offerer := p
		if dir == 1 {
			offerer = map[string]string{"A": "B", "B": "A"}[p]
		}
		r.Exp = c.exps[fmt.Sprintf("%s/%d", offerer, hi)]
		var inp input.Input
		if dir == 0 {
			wt := input.HtlcOfferedRemoteTimeout
			switch {
			case ct.IsTaprootFinal():
				wt = input.TaprootHtlcOfferedRemoteTimeoutFinal
			case ct.IsTaproot():
				wt = input.TaprootHtlcOfferedRemoteTimeout
			}
			inp = input.NewCsvInputWithCltv(&op, wt, sd, c5Height, csv, expiry)
		} else {
			pre := c.pres[rhash]
			var hs input.HtlcSucceedInput
			switch {
			case ct.IsTaprootFinal():
				hs = input.MakeTaprootHtlcSucceedInputFinal(&op, sd, pre[:], c5Height, csv)
			case ct.IsTaproot():
				hs = input.MakeTaprootHtlcSucceedInput(&op, sd, pre[:], c5Height, csv)
			default:
				hs = input.MakeHtlcSucceedInput(&op, sd, pre[:], c5Height, csv)
			}
			inp = &hs
		}
		r.Seq = int64(inp.BlocksToMaturity())
		r.E1, r.E1lo, r.Cltv, r.Lt = c5SweepLocked(inp, sh.Signer, out)
		return r
	}
	for i := range sum.HtlcResolutions.OutgoingHTLCs {
		r := &sum.HtlcResolutions.OutgoingHTLCs[i]
		rr := direct(0, r.SignedTimeoutTx, r.ClaimOutpoint, r.CsvDelay, r.Expiry, &r.SweepSignDesc)
		ln.Res = append(ln.Res, rr)
		ln.Claim += rr.Claim
	}
	for i := range sum.HtlcResolutions.IncomingHTLCs {
		r := &sum.HtlcResolutions.IncomingHTLCs[i]
		rr := direct(1, r.SignedSuccessTx, r.ClaimOutpoint, r.CsvDelay, 0, &r.SweepSignDesc)
		ln.Res = append(ln.Res, rr)
		ln.Claim += rr.Claim
	}
	if cr := sum.CommitResolution; cr != nil {
		s := &ln.Self
		s.Present, s.Idx, s.Csv = 1, int64(cr.SelfOutPoint.Index), int64(cr.MaturityDelay)
		if cr.SelfOutPoint.Hash == txid && int(cr.SelfOutPoint.Index) < len(spendTx.TxOut) {
			prev := spendTx.TxOut[cr.SelfOutPoint.Index]
			s.Val = prev.Value
			s.Desc = c5SameOut(cr.SelfOutputSignDesc.Output, prev)
			// commitSweepResolver.decideWitnessType for an output on the remote commitment
			var wt input.StandardWitnessType
			switch {
			case ct.IsTaprootFinal():
				wt = input.TaprootRemoteCommitSpendFinal
			case ct.IsTaproot():
				wt = input.TaprootRemoteCommitSpend
			case cr.MaturityDelay != 0:
				wt = input.CommitmentToRemoteConfirmed
			case cr.SelfOutputSignDesc.SingleTweak == nil:
				wt = input.CommitSpendNoDelayTweakless
			default:
				wt = input.CommitmentNoDelay
			}
			inp := c.csvInput(sh, &cr.SelfOutPoint, wt, input.LeaseCommitmentToRemoteConfirmed,
				&cr.SelfOutputSignDesc, cr.MaturityDelay)
			s.Ok, s.Lo, s.Cl, s.Lt = c5SweepLocked(inp, sh.Signer, prev)
			ln.Claim += prev.Value
		} else {
			s.Ok, s.Desc = 0, 0
		}
	}
	return ln, true
}

func c5Reload(lc *LightningChannel) (*LightningChannel, error) {
	sh, err := vReload(lc)
	if err == nil {
		// fixture configuration that CreateTestChannels cannot express: a
		// script-enforced lease with a real expiry (persisted from the
		// first commitment update on; until then carried over by hand)
		sh.channelState.ThawHeight = lc.channelState.ThawHeight
	}
	return sh, err
}

func TestVerifC05Close(t *testing.T) {
	testChannelCapacity = 0.01 // 1 000 000 sat: every msat amount fits TLC's 32-bit integers

	dir := os.Getenv("VERIF_SCHED")
	files := verifkit.ListFiles(dir, "b_", ".ndjson")
	if len(files) == 0 {
		t.Fatalf("no schedules in %q", dir)
	}
	typeNames := strings.Split(verifkit.Env("VERIF_TYPES", "tweakless"), ",")
	every := verifkit.EnvInt("VERIF_CLOSE_EVERY", 1)
	thaw := uint32(verifkit.EnvInt("VERIF_THAW", 600))
	out := verifkit.MustWriter(verifkit.Env("VERIF_OUT", ".") + "/trace.ndjson")
	defer out.Close()

	nsteps, nchecks, nlive := 0, 0, 0
	for fi, f := range files {
		evs, err := verifkit.ReadNDJSONInto[vEv](f)
		if err != nil {
			t.Fatal(err)
		}
		if len(evs) == 0 || evs[0].A != "Cfg" {
			t.Fatalf("%s: first event must be Cfg", f)
		}
		tname := typeNames[(fi+int(verifkit.Seed()))%len(typeNames)]
		ctype, ok := vChanTypes[tname]
		if !ok {
			t.Fatalf("unknown channel type %q", tname)
		}
		// uneven funding split: the Cfg record carries the non-opener's share (msat)
		poor := int64(evs[0].X)
		VerifSetPoorShare(poor / 1000)
		alice, bob, err := CreateTestChannels(t, ctype)
		if err != nil {
			t.Fatal(err)
		}
		if ctype.HasLeaseExpiration() {
			alice.channelState.ThawHeight, bob.channelState.ThawHeight = thaw, thaw
		}
		opener := evs[0].P
		nonOpener := map[string]string{"A": "B", "B": "A"}[opener]
		sides := map[string]*vSide{opener: {name: opener, lc: alice}, nonOpener: {name: nonOpener, lc: bob}}
		other := map[string]string{"A": "B", "B": "A"}
		cc := &c5Ctx{pres: map[[32]byte][32]byte{}, exps: map[string]int64{}}
		lastPre := map[string][32]byte{}
		lastExp := map[string]uint32{}
		ndup := 0
		npre := 0

		out.Emit(vLine{vEv: vEv{A: "Reset", P: "A"}, Type: tname, Opener: opener, File: filepath.Base(f), Poor: poor,
			Dust: map[string]int64{
				opener:    int64(alice.channelState.LocalChanCfg.DustLimit),
				nonOpener: int64(bob.channelState.LocalChanCfg.DustLimit)},
			St: map[string]vParty{}, Sh: map[string]vParty{}, SigOk: map[string]int{}})

		liveClose := func(s *vSide) int {
			if s.lc.channelState.LocalCommitment.CommitHeight == 0 {
				return 0
			}
			ln := cc.closeLocal(s.name, s.lc)
			ln.Live = 1
			out.Emit(ln)
			s.lc.ResetState() // ForceClose marks the object closed (coop close only looks at it)
			return 1
		}
		lastOK := false
		// a schedule step that the real objects cannot take ends this
		// behaviour: the recorded prefix holds the deviating step, TLC judges it
		func() {
			defer func() {
				if r := recover(); r != nil {
					d, is := r.(verifDiverged)
					if !is {
						panic(r)
					}
					t.Logf("VERIF-DIVERGED %s", string(d))
				}
			}()
			for _, e := range evs[1:] {
				me := sides[e.P]
				peer := sides[other[e.P]]
				var err error
				lastOK = false
				txeq, relh := -1, int64(-1)
				pop := func() vMsg {
					if len(peer.out) == 0 {
						panic(verifDiverged(fmt.Sprintf("%s: %v: peer queue empty", f, e)))
					}
					m := peer.out[0]
					peer.out = peer.out[1:]
					return m
				}
				name := e.A
				switch e.A {
				case "Add":
					var pre [32]byte
					var expiry uint32
					key := fmt.Sprintf("%s/%d", e.P, e.X)
					if lp, ok := lastPre[key]; ok && e.Y == 1 {
						// equal-hash duplicate: alternately fully identical and with
						// a different CLTV expiry
						pre, expiry = lp, lastExp[key]
						ndup++
						if ndup%2 == 1 {
							expiry += 9
						}
					} else {
						npre++
						pre[0], pre[1], pre[2] = byte(npre), byte(npre>>8), 0x5a
						expiry = uint32(500 + (npre*5)%23)
					}
					lastPre[key], lastExp[key] = pre, expiry
					h := sha256.Sum256(pre[:])
					cc.pres[h] = pre
					htlc := &lnwire.UpdateAddHTLC{
						ID: me.lc.updateLogs.Local.htlcCounter, PaymentHash: h,
						Amount: lnwire.MilliSatoshi(e.X), Expiry: expiry,
					}
					_, err = me.lc.AddHTLC(htlc, nil)
					if err == nil {
						me.out = append(me.out, vMsg{kind: "add", add: htlc})
						cc.exps[fmt.Sprintf("%s/%d", e.P, htlc.ID)] = int64(expiry)
					} else if vIsConstraintErr(err) {
						name = "AddRejected"
					}
				case "Resolve":
					var pd *paymentDescriptor
					for x := me.lc.updateLogs.Remote.Front(); x != nil; x = x.Next() {
						if x.Value.isAdd() && x.Value.HtlcIndex == uint64(e.X) {
							pd = x.Value
						}
					}
					if pd == nil {
						err = fmt.Errorf("htlc %d not in remote log", e.X)
						break
					}
					if e.Y == 1 {
						pre := cc.pres[pd.RHash]
						err = me.lc.SettleHTLC(pre, pd.HtlcIndex, nil, nil, nil)
						if err == nil {
							me.out = append(me.out, vMsg{kind: "settle", id: pd.HtlcIndex, pre: pre})
						}
					} else {
						err = me.lc.FailHTLC(pd.HtlcIndex, []byte("x"), nil, nil, nil)
						if err == nil {
							me.out = append(me.out, vMsg{kind: "fail", id: pd.HtlcIndex})
						}
					}
				case "Sign":
					var ns *NewCommitState
					ns, err = me.lc.SignNextCommitment(ctxb)
					if err == nil {
						me.out = append(me.out, vMsg{kind: "sig", sigs: ns.CommitSigs})
					}
				case "RecvAdd":
					_, err = me.lc.ReceiveHTLC(pop().add)
				case "RecvRes":
					m := pop()
					if m.kind == "settle" {
						err = me.lc.ReceiveHTLCSettle(m.pre, m.id)
					} else {
						err = me.lc.ReceiveFailHTLC(m.id, []byte("x"))
					}
				case "RecvSig":
					err = me.lc.ReceiveNewCommitment(pop().sigs)
					if err == nil {
						mine := me.lc.commitChains.Local.tip().txn
						theirs := peer.lc.commitChains.Remote.tip().txn
						txeq = 0
						if mine != nil && theirs != nil && mine.TxHash() == theirs.TxHash() {
							txeq = 1
						}
					}
				case "Revoke":
					var rev *lnwire.RevokeAndAck
					rev, _, _, err = me.lc.RevokeCurrentCommitment()
					if err == nil {
						me.out = append(me.out, vMsg{kind: "rev", rev: rev})
						relh = vRelHeight(me.lc, rev)
					}
				case "RecvRev":
					_, _, err = me.lc.ReceiveRevocation(pop().rev)
				case "UpdateFee":
					err = me.lc.UpdateFee(chainfee.SatPerKWeight(e.X))
					if err == nil {
						me.out = append(me.out, vMsg{kind: "fee", fee: int64(e.X)})
					}
				case "RecvFee":
					err = me.lc.ReceiveUpdateFee(chainfee.SatPerKWeight(pop().fee))
				case "Disconnect":
					for _, s := range sides {
						var nlc *LightningChannel
						if nlc, err = c5Reload(s.lc); err != nil {
							break
						}
						s.lc = nlc
						s.out = nil
					}
				case "StaleTouch":
					// status update through a stale handle (see channel_exec_test.go): the
					// model leaves everything unchanged; not exercised by this executor
				case "RecvBadRev":
					// adversarial revocation (see channel_exec_test.go): refused, nothing
					// changes; not exercised by this executor
				case "LiveRefresh":
					// channelLink.UpdateShortChanID re-reads the live channel's state
					err = me.lc.State().Refresh()
				case "SoftDisconnect":
					// API-level event, never generated for this executor's profiles
				case "SendReest":
					var m *lnwire.ChannelReestablish
					m, err = me.lc.channelState.ChanSyncMsg()
					if err == nil {
						if me.lc.channelState.ChanType.IsTaproot() {
							txid := me.lc.channelState.FundingOutpoint.Hash
							var nonce lnwire.Musig2Nonce
							if m.LocalNonces.IsSome() {
								nonce = m.LocalNonces.UnsafeFromSome().NoncesMap[txid]
							} else {
								nonce = m.LocalNonce.UnwrapOrFailV(t)
							}
							me.lc.pendingVerificationNonce = &musig2.Nonces{PubNonce: nonce}
						}
						me.out = append(me.out, vMsg{kind: "reest", reest: m})
					}
				case "RecvReest":
					var msgs []lnwire.Message
					msgs, _, _, err = me.lc.ProcessChanSyncMsg(ctxb, pop().reest)
					for _, x := range msgs {
						switch mm := x.(type) {
						case *lnwire.UpdateAddHTLC:
							me.out = append(me.out, vMsg{kind: "add", add: mm})
						case *lnwire.UpdateFulfillHTLC:
							me.out = append(me.out, vMsg{kind: "settle", id: mm.ID, pre: mm.PaymentPreimage})
						case *lnwire.UpdateFailHTLC:
							me.out = append(me.out, vMsg{kind: "fail", id: mm.ID})
						case *lnwire.UpdateFee:
							me.out = append(me.out, vMsg{kind: "fee", fee: int64(mm.FeePerKw)})
						case *lnwire.CommitSig:
							me.out = append(me.out, vMsg{kind: "sig", sigs: &CommitSigs{
								CommitSig: mm.CommitSig, HtlcSigs: mm.HtlcSigs, PartialSig: mm.PartialSig}})
						case *lnwire.RevokeAndAck:
							me.out = append(me.out, vMsg{kind: "rev", rev: mm})
						default:
							me.out = append(me.out, vMsg{kind: fmt.Sprintf("%T", x)})
						}
					}
				default:
					t.Fatalf("unknown action %q", e.A)
				}

				tl := vLine{vEv: e, St: map[string]vParty{}, Sh: map[string]vParty{}, SigOk: map[string]int{},
					TxEq: txeq, RelH: relh}
				tl.A = name
				if err != nil && name != "AddRejected" {
					tl.Err = err.Error()
				}
				// close checks: every k-th step everything, otherwise whoever
				// holds a pending remote commitment
				kth := every <= 1 || (nsteps+int(verifkit.Seed()))%every == 0
				pending := map[string]bool{}
				for n, s := range sides {
					pending[n] = s.lc.commitChains.Remote.hasUnackedCommitment()
				}
				shadows := map[string]*LightningChannel{}
				for n, s := range sides {
					tl.St[n] = vProject(s.lc, s.out)
					tl.SigOk[n] = -1
					sh, rerr := c5Reload(s.lc)
					if rerr != nil {
						tl.ShErr = n + ": " + rerr.Error()
						tl.Sh[n] = vParty{Net: []string{}, LC: []vCommit{}, RC: []vCommit{}, L: []vEntry{}, R: []vEntry{}}
						continue
					}
					shadows[n] = sh
					tl.Sh[n] = vProject(sh, nil)
					okv, msg := vSignedCommitOk(sh)
					tl.SigOk[n] = okv
					if okv == 0 && tl.ShErr == "" {
						tl.ShErr = n + ": " + msg
					}
				}
				out.Emit(tl)
				nsteps++
				if err != nil {
					t.Logf("%s: step %v: %v", filepath.Base(f), e, err)
					break
				}
				if name == "AddRejected" {
					break
				}
				for _, n := range []string{"A", "B"} {
					sh := shadows[n]
					if sh == nil || !(kth || pending[n]) {
						continue
					}
					peerLive := sides[other[n]].lc
					for _, w := range []int{1, 2} {
						if ln, ok := cc.closeRemote(n, w, sh, peerLive); ok {
							out.Emit(ln)
							nchecks++
						}
					}
					if kth && sh.channelState.LocalCommitment.CommitHeight > 0 {
						base := cc.closeLocal(n, sh)
						out.Emit(base)
						nchecks++
						if fl, ok := cc.closeFaults(n, sides[n].lc, base); ok {
							out.Emit(fl)
							nchecks++
						}
					}
				}
				// ForceClose() of the LIVE object in the one window where its memory is
				// ahead of the database: a new commitment has been received and verified
				// but the old one is not revoked yet.  What must be broadcast (and what
				// the summary must resolve) is still the durable commitment disk[p].lc.
				if name == "RecvSig" {
					nlive += liveClose(me)
				}
				lastOK = true
			}
		}()
		// ... and of both live objects where the behaviour ends, whatever state that is
		if lastOK {
			for _, n := range []string{"A", "B"} {
				nlive += liveClose(sides[n])
			}
		}
	}
	t.Logf("executed %d behaviours, %d steps, %d close checks on reloaded + %d on live channels", len(files), nsteps,
		nchecks, nlive)
}
