//go:build verif

package lnwallet

import "github.com/btcsuite/btcd/wire/v2"

// Injected into package lnwallet (as a non-test file, through the go test
// overlay) for the C05 chain-watcher executor, which lives in package
// contractcourt and can only use lnwallet's exported API.

// VerifC05LocalChainTx returns the commitment transaction of height h that lc
// holds on its in-memory local commitment chain (the transaction it could
// broadcast: it has the peer's signature for it), nil if it holds none.
func VerifC05LocalChainTx(lc *LightningChannel, h uint64) *wire.MsgTx {
	var tx *wire.MsgTx
	for e := lc.commitChains.Local.commitments.Front(); e != nil; e = e.Next() {
		if e.Value.height == h && e.Value.txn != nil {
			tx = e.Value.txn
		}
	}
	return tx
}
