//go:build verif

package invoices_test

// Executor of property C15 (spec/InvoiceRegistry).  It drives the REAL
// invoices.InvoiceRegistry on the KV store (channeldb) or on SQLite
// (VERIF_STORE=sql) and records what the code answered; it judges nothing.
//
//   TestVerifC15Replay  replays TLC-generated behaviours (VERIF_SCHED/b_*.ndjson)
//   TestVerifC15Free    seeded free-running driver: two goroutines ("links")
//                       call NotifyExitHopHtlc concurrently (Par ... Join blocks)
//
// Circuit keys: the model's circuits 1..4 stand for concrete (short channel
// id, HTLC id) pairs chosen by the behaviour's key pattern kp (c15KeyOf, the
// value classes of spec/InvoiceRegistry KeyOf): confirmed scids, alias scids
// (>= 2^63), the int64 boundary, 2^64-1, large HTLC ids (< 2^63: the ids are
// per-channel counters), keys that differ in one component only.  The Reset record reports the classes of the keys used.
//
// The interceptor client (the REAL HtlcModificationInterceptor with a
// registered client) answers CancelSet for the calls whose event has cs = 1
// and AmountPaid = ma units for those with ma != 0.  For a Replay event cs / ma
// are the client's answer to THAT call (the other parameters are those of the
// replayed HTLC).
//
// The projection of the invoices is read back from the STORE
// (InvoiceDB.LookupInvoice) after every event.
//
// Trace format (one NDJSON record per step, every field on every line):
//   a th c k pl h ad amt tot exp set good cs ma ht k1 k2 kp   the event (as generated)
//   ck[c] = {ch id n}                                   Reset: value classes of the circuit keys used
//   res why preok err                                   direct answer
//   hodl[c] = {kd why preok}                            resolutions that arrived on hodl channels
//   inv[k] = {ex st paid rem extra h[c]={st amt tot ah exp at}}   LookupInvoice projection
//   n1 n2                                               sizes of a concurrent block (a = "Par")

import (
	"context"
	"crypto/sha256"
	"database/sql"
	"fmt"
	"math/rand"
	"os"
	"strings"
	"sync"
	"testing"
	"time"

	"github.com/btcsuite/btcd/chainhash/v2"
	"github.com/lightningnetwork/lnd/amp"
	"github.com/lightningnetwork/lnd/channeldb"
	"github.com/lightningnetwork/lnd/clock"
	"github.com/lightningnetwork/lnd/internal/verifkit"
	invpkg "github.com/lightningnetwork/lnd/invoices"
	"github.com/lightningnetwork/lnd/lntypes"
	"github.com/lightningnetwork/lnd/lnwire"
	"github.com/lightningnetwork/lnd/record"
	"github.com/lightningnetwork/lnd/sqldb"
)

const (
	c15NC          = 4                          // circuit keys 1..4
	c15Unit        = lnwire.MilliSatoshi(25000) // one model unit
	c15BaseHeight  = 100
	c15InvDelta    = 6
	c15RejectDelta = 4
	c15Hold        = 30 * time.Second
	c15Half        = 15 * time.Second
)

type c15Ev struct {
	A    string `json:"a"`
	C    int    `json:"c"`
	K    int    `json:"k"`
	Pl   string `json:"pl"`
	H    int    `json:"h"`
	Ad   int    `json:"ad"`
	Amt  int    `json:"amt"`
	Tot  int    `json:"tot"`
	Exp  int    `json:"exp"`
	Set  string `json:"set"`
	Good int    `json:"good"`
	Cs   int    `json:"cs"`
	Ma   int    `json:"ma"`
	Ht   int    `json:"ht"`
	K1   string `json:"k1"`
	K2   string `json:"k2"`
	Kp   string `json:"kp"`
}

type c15AmpSet struct {
	id       [32]byte
	children map[int]*amp.Child // members only
}

// c15Ic is an answer of the interceptor client: CancelSet and/or AmountPaid (units, 0 = unchanged).
type c15Ic struct {
	cs bool
	ma int
}

type c15Msg struct {
	kd    string
	why   string
	preok int
}

type c15Run struct {
	t      *testing.T
	reg    *invpkg.InvoiceRegistry
	idb    invpkg.InvoiceDB
	kp     string
	keys   [c15NC + 1]invpkg.CircuitKey // concrete circuit key of circuit c (0 unused)
	keyIdx map[invpkg.CircuitKey]int
	armMu  sync.Mutex
	armed  map[invpkg.CircuitKey]c15Ic // the interceptor client's answer for the call in flight under that key
	clk    *clock.TestClock
	cfg    *invpkg.RegistryConfig
	sig    chan time.Duration
	tick   int
	base   time.Time
	sent   time.Time // release time of the sentinel timer
	kinds  [2]string
	pre    [2]lntypes.Preimage
	hash   [2]lntypes.Hash
	addr   [2][32]byte
	junk   [32]byte
	sets   map[string]*c15AmpSet
	hodl   [3]chan interface{} // 1/2: the hodl channels of the two links (0 unused)
	memo   map[int]*c15Ev      // parameters of every circuit key used (replays)
	hashOf map[int]lntypes.Hash
	rng    *rand.Rand
	ndummy int
	slow   bool
}

// c15Link is the link (and thereby the hodl channel) a circuit key belongs to:
// circuits 1,2 arrive on link 1, circuits 3,4 on link 2.
func c15Link(c int) int {
	if c <= 2 {
		return 1
	}
	return 2
}

func c15Rand32(rng *rand.Rand) (b [32]byte) {
	rng.Read(b[:])
	return
}

// c15Time is the clock value of tick k: distinct low-order offsets make the
// remaining duration of every (accept time, now) pair unique, see barrier().
func (r *c15Run) c15Time(k int) time.Time {
	return r.base.Add(time.Duration(k)*c15Half + time.Duration(1<<uint(k))*time.Microsecond)
}

func c15Features(kind string) *lnwire.FeatureVector {
	var raw *lnwire.RawFeatureVector
	switch kind {
	case "regular", "hold", "zeroamt":
		raw = lnwire.NewRawFeatureVector(lnwire.TLVOnionPayloadRequired,
			lnwire.PaymentAddrRequired, lnwire.MPPOptional)
	case "noaddr", "holdna":
		raw = lnwire.NewRawFeatureVector(lnwire.TLVOnionPayloadOptional,
			lnwire.PaymentAddrOptional, lnwire.MPPOptional)
	case "amp":
		raw = lnwire.NewRawFeatureVector(lnwire.TLVOnionPayloadOptional,
			lnwire.PaymentAddrOptional, lnwire.AMPRequired)
	}
	return lnwire.NewFeatureVector(raw, lnwire.Features)
}

// ---------------------------------------------------------------------------
// circuit keys

const c15I63 = uint64(1) << 63

var c15Chans = map[string]lnwire.ShortChannelID{
	"low":    {BlockHeight: 1, TxIndex: 2, TxPosition: 3},
	"i63m":   lnwire.NewShortChanIDFromInt(c15I63 - 1),
	"i63":    lnwire.NewShortChanIDFromInt(c15I63),
	"alias":  {BlockHeight: 16_000_000, TxIndex: 0, TxPosition: 1},
	"alias2": {BlockHeight: 16_000_000, TxIndex: 0, TxPosition: 2},
	"max":    lnwire.NewShortChanIDFromInt(^uint64(0)),
}

// c15KeyOf is the concrete circuit key of circuit c under pattern kp (the
// table of KeyOf in spec/InvoiceRegistry/InvoiceRegistry.tla).
func c15KeyOf(kp string, c int) invpkg.CircuitKey {
	pick := func(l ...string) string { return l[c-1] }
	ch, id := "low", "n"
	switch kp {
	case "plain":
	case "alias":
		ch = "alias"
	case "chanonly":
		ch, id = pick("low", "alias", "i63m", "i63"), "same"
	case "edge":
		ch, id = pick("i63m", "i63", "max", "max"), pick("n", "n", "n", "i63m")
	case "bigid":
		ch, id = pick("low", "low", "alias", "alias"), pick("i63m", "bign", "bign", "i63m")
	case "mixed":
		ch, id = pick("alias", "low", "alias2", "alias"), pick("n", "n", "n", "i32n")
	default:
		panic("unknown key pattern " + kp)
	}
	var n uint64
	switch id {
	case "n":
		n = uint64(c)
	case "same":
		n = 7
	case "i32n":
		n = 1<<32 + uint64(c)
	case "bign":
		n = c15I63 - 1 - uint64(c)
	case "i63m":
		n = c15I63 - 1 // the largest id the SQL schema (BIGINT) can hold
	}
	return invpkg.CircuitKey{ChanID: c15Chans[ch], HtlcID: n}
}

// c15KeyClass reports the value classes of a concrete key (from the values).
func c15KeyClass(key invpkg.CircuitKey) verifkit.Rec {
	ch := "other"
	for name, v := range c15Chans {
		if v == key.ChanID {
			ch = name
		}
	}
	id, n := "other", 0
	switch x := key.HtlcID; {
	case x == 7:
		id = "same"
	case x >= 1 && x <= c15NC:
		id, n = "n", int(x)
	case x > (1<<32) && x <= (1<<32)+c15NC:
		id, n = "i32n", int(x-(1<<32))
	case x == c15I63-1:
		id = "i63m"
	case x >= c15I63-1-c15NC && x < c15I63-1:
		id, n = "bign", int(c15I63-1-x)
	}
	return verifkit.Rec{"ch": ch, "id": id, "n": n}
}

func c15NewRun(t *testing.T, store string, k1, k2, kp string, seed int64) *c15Run {
	if kp == "" {
		kp = "plain"
	}
	r := &c15Run{t: t, kinds: [2]string{k1, k2}, kp: kp, memo: map[int]*c15Ev{},
		hashOf: map[int]lntypes.Hash{}, sets: map[string]*c15AmpSet{},
		keyIdx: map[invpkg.CircuitKey]int{}, armed: map[invpkg.CircuitKey]c15Ic{}}
	for c := 1; c <= c15NC; c++ {
		r.keys[c] = c15KeyOf(kp, c)
		r.keyIdx[r.keys[c]] = c
	}
	if len(r.keyIdx) != c15NC {
		t.Fatalf("key pattern %s: keys not distinct", kp)
	}
	r.rng = rand.New(rand.NewSource(seed))
	r.base = testTime
	tickSig := make(chan time.Duration)
	r.sig = make(chan time.Duration, 1<<16)
	stopSig := make(chan struct{})
	var wg sync.WaitGroup
	wg.Add(1)
	go func() {
		defer wg.Done()
		for {
			select {
			case d := <-tickSig:
				select {
				case r.sig <- d:
				default:
				}
			case <-stopSig:
				return
			}
		}
	}()
	// registered first = runs last: the event loop may be blocked sending
	// a tick signal while the registry stops
	t.Cleanup(func() { close(stopSig); wg.Wait() })

	r.clk = clock.NewTestClockWithTickSignal(r.c15Time(0), tickSig)

	var idb invpkg.InvoiceDB
	if store == "sql" {
		db := sqldb.NewTestSqliteDB(t).BaseDB
		executor := sqldb.NewTransactionExecutor(
			db, func(tx *sql.Tx) invpkg.SQLInvoiceQueries {
				return db.WithTx(tx)
			},
		)
		idb = invpkg.NewSQLStore(executor, r.clk)
	} else {
		db, err := channeldb.MakeTestInvoiceDB(t, channeldb.OptionClock(r.clk))
		if err != nil {
			t.Fatal(err)
		}
		idb = db
	}
	r.idb = idb

	// the real interceptor service with a registered client that answers
	// what is armed for the circuit key (CancelSet and/or a modified amount)
	// and leaves every other HTLC alone
	icpt := invpkg.NewHtlcModificationInterceptor()
	if err := icpt.Start(); err != nil {
		t.Fatal(err)
	}
	t.Cleanup(func() { _ = icpt.Stop() })
	_, _, err := icpt.RegisterInterceptor(
		func(req invpkg.HtlcModifyRequest) (*invpkg.HtlcModifyResponse, error) {
			r.armMu.Lock()
			defer r.armMu.Unlock()
			ic := r.armed[req.ExitHtlcCircuitKey]
			return &invpkg.HtlcModifyResponse{
				AmountPaid: lnwire.MilliSatoshi(ic.ma) * c15Unit,
				CancelSet:  ic.cs,
			}, nil
		},
	)
	if err != nil {
		t.Fatal(err)
	}

	// the expiry watcher gets a clock of its own that never moves: no
	// invoice expires by time in this harness
	watcher := invpkg.NewInvoiceExpiryWatcher(
		clock.NewTestClock(testTime), 0, uint32(c15BaseHeight), nil, newMockNotifier(),
	)
	cfg := invpkg.RegistryConfig{
		FinalCltvRejectDelta: c15RejectDelta,
		HtlcHoldDuration:     1000 * time.Hour,
		HtlcInterceptor:      icpt,
		AcceptKeySend:        true,
		Clock:                r.clk,
	}
	r.cfg = &cfg
	r.reg = invpkg.NewRegistry(idb, watcher, r.cfg)
	if err := r.reg.Start(); err != nil {
		t.Fatal(err)
	}
	t.Cleanup(func() { _ = r.reg.Stop() })

	for i := range r.hodl {
		r.hodl[i] = make(chan interface{}, 256)
	}
	ctxb := context.Background()

	// sentinel: a partial MPP HTLC whose auto-release timer lies far in the
	// future keeps the registry's timer heap non-empty, so that every pass of
	// its event loop announces itself on the clock's tick signal
	{
		pre := lntypes.Preimage(c15Rand32(r.rng))
		addr := c15Rand32(r.rng)
		inv := &invpkg.Invoice{
			Terms: invpkg.ContractTerm{Value: 4 * c15Unit, Expiry: 100 * time.Hour,
				Features: c15Features("regular"), PaymentAddr: addr,
				FinalCltvDelta: c15InvDelta, PaymentPreimage: &pre},
			CreationDate: testTime,
		}
		if _, err := r.reg.AddInvoice(ctxb, inv, pre.Hash()); err != nil {
			t.Fatal(err)
		}
		res, err := r.reg.NotifyExitHopHtlc(pre.Hash(), c15Unit, c15BaseHeight+1000,
			c15BaseHeight, getCircuitKey(99), make(chan interface{}, 4), nil,
			&mockPayload{mpp: record.NewMPP(4*c15Unit, addr)})
		if err != nil || res != nil {
			t.Fatalf("sentinel not accepted: %v %v", res, err)
		}
		r.sent = r.c15Time(0).Add(1000 * time.Hour)
		r.cfg.HtlcHoldDuration = c15Hold
	}

	r.junk = c15Rand32(r.rng)
	for k := 0; k < 2; k++ {
		r.pre[k] = lntypes.Preimage(c15Rand32(r.rng))
		r.hash[k] = r.pre[k].Hash()
		r.addr[k] = c15Rand32(r.rng)
		kind := r.kinds[k]
		if kind == "keysend" {
			continue
		}
		inv := &invpkg.Invoice{
			Terms: invpkg.ContractTerm{Value: 4 * c15Unit, Expiry: 100 * time.Hour,
				Features: c15Features(kind), PaymentAddr: r.addr[k],
				FinalCltvDelta: c15InvDelta},
			CreationDate: testTime,
		}
		switch kind {
		case "zeroamt":
			inv.Terms.Value = 0
			fallthrough
		case "regular", "noaddr":
			p := r.pre[k]
			inv.Terms.PaymentPreimage = &p
		case "hold", "holdna":
			inv.HodlInvoice = true
		case "amp":
		}
		if _, err := r.reg.AddInvoice(ctxb, inv, r.hash[k]); err != nil {
			t.Fatalf("AddInvoice(%s): %v", kind, err)
		}
	}

	// AMP sets: s1 is split over circuits 1 and 2, s2 is the single shard 3
	mk := func(name string, members []int) {
		s := &c15AmpSet{id: c15Rand32(r.rng), children: map[int]*amp.Child{}}
		root := amp.Share(c15Rand32(r.rng))
		var sharer amp.Sharer = amp.SeedSharerFromRoot(&root)
		for i, c := range members {
			if i < len(members)-1 {
				left, right, err := sharer.Split()
				if err != nil {
					t.Fatal(err)
				}
				s.children[c] = left.Child(uint32(c))
				sharer = right
			} else {
				s.children[c] = sharer.Child(uint32(c))
			}
		}
		r.sets[name] = s
	}
	mk("s1", []int{1, 2})
	mk("s2", []int{3})
	return r
}

func (r *c15Run) addrOf(ad int) [32]byte {
	if ad >= 1 && ad <= 2 && r.kinds[ad-1] != "keysend" {
		return r.addr[ad-1]
	}
	if ad == 0 {
		return r.junk
	}
	// "the address of a keysend invoice": such invoices have none
	a := r.junk
	a[0] ^= byte(ad)
	return a
}

// call performs NotifyExitHopHtlc for the HTLC described by ev (the memoised
// parameters of circuit ev.C for a replay) at model height ht.
func (r *c15Run) call(p *c15Ev, ht int) (invpkg.HtlcResolution, lntypes.Hash, error) {
	var (
		hash    lntypes.Hash
		payload = &mockPayload{}
	)
	switch p.Pl {
	case "legacy":
		hash = r.hash[p.H-1]
		// a total_amount_msat in the payload, but neither MPP record nor path id
		payload.totalAmtMsat = lnwire.MilliSatoshi(p.Tot) * c15Unit
	case "blinded":
		// blinded path: path id + total amount in the payload, no MPP record
		hash = r.hash[p.H-1]
		pathID := chainhash.Hash(r.addrOf(p.Ad))
		payload.pathID = &pathID
		payload.totalAmtMsat = lnwire.MilliSatoshi(p.Tot) * c15Unit
	case "mpp":
		hash = r.hash[p.H-1]
		payload.mpp = record.NewMPP(lnwire.MilliSatoshi(p.Tot)*c15Unit, r.addrOf(p.Ad))
	case "keysend":
		hash = r.hash[p.H-1]
		pre := r.pre[p.H-1]
		if p.Good == 0 {
			pre[0] ^= 1
		}
		payload.customRecords = record.CustomSet{record.KeySendType: pre[:]}
	case "amp":
		s := r.sets[p.Set]
		var share [32]byte
		if ch, ok := s.children[p.C]; ok {
			hash = ch.Hash
			if p.Good == 1 {
				share = ch.Share
			}
		} else {
			share = sha256.Sum256([]byte(fmt.Sprintf("share %s %d", p.Set, p.C)))
			hash = sha256.Sum256([]byte(fmt.Sprintf("hash %s %d", p.Set, p.C)))
		}
		payload.mpp = record.NewMPP(lnwire.MilliSatoshi(p.Tot)*c15Unit, r.addrOf(p.Ad))
		payload.amp = record.NewAMP(share, s.id, uint32(p.C))
	}
	key := r.keys[p.C]
	if p.Cs == 1 || p.Ma != 0 {
		r.armMu.Lock()
		r.armed[key] = c15Ic{cs: p.Cs == 1, ma: p.Ma}
		r.armMu.Unlock()
		defer func() {
			r.armMu.Lock()
			delete(r.armed, key)
			r.armMu.Unlock()
		}()
	}
	res, err := r.reg.NotifyExitHopHtlc(hash, lnwire.MilliSatoshi(p.Amt)*c15Unit,
		uint32(c15BaseHeight+p.Exp), int32(c15BaseHeight+ht), key,
		r.hodl[c15Link(p.C)], nil, payload)
	return res, hash, err
}

func c15Describe(rec verifkit.Rec, res invpkg.HtlcResolution, err error, hash lntypes.Hash) {
	rec["res"], rec["why"], rec["preok"], rec["err"] = "none", "", 1, ""
	switch x := res.(type) {
	case nil:
		rec["res"] = "accept"
	case *invpkg.HtlcSettleResolution:
		rec["res"] = "settle"
		rec["why"] = x.Outcome.String()
		if x.Preimage.Hash() != hash {
			rec["preok"] = 0
		}
	case *invpkg.HtlcFailResolution:
		rec["res"] = "fail"
		rec["why"] = x.Outcome.String()
	}
	if err != nil {
		rec["res"] = "err"
		rec["err"] = err.Error()
	}
}

// drain collects what arrived on the hodl channels since the last call.
func (r *c15Run) drain(into map[int][]c15Msg) {
	for _, ch := range r.hodl {
		for {
			select {
			case m := <-ch:
				res := m.(invpkg.HtlcResolution)
				c := r.keyIdx[res.CircuitKey()] // 0: a key that was never used
				msg := c15Msg{preok: 1}
				switch x := res.(type) {
				case *invpkg.HtlcSettleResolution:
					msg.kd, msg.why = "settle", x.Outcome.String()
					if x.Preimage.Hash() != r.hashOf[c] {
						msg.preok = 0
					}
				case *invpkg.HtlcFailResolution:
					msg.kd, msg.why = "fail", x.Outcome.String()
				default:
					msg.kd = "other"
				}
				into[c] = append(into[c], msg)
				continue
			default:
			}
			break
		}
	}
}

func c15Hodl(rec verifkit.Rec, got map[int][]c15Msg) {
	out := make([]verifkit.Rec, c15NC)
	dup := 0
	for c := 1; c <= c15NC; c++ {
		m := c15Msg{kd: "none", preok: 1}
		if l := got[c]; len(l) > 0 {
			m = l[0]
			dup += len(l) - 1
		}
		out[c-1] = verifkit.Rec{"kd": m.kd, "why": m.why, "preok": m.preok}
	}
	for c := range got {
		if c < 1 || c > c15NC {
			dup++
		}
	}
	rec["hodl"] = out
	rec["hdup"] = dup // more than one message for a circuit within one step / unknown circuit
}

var c15States = map[invpkg.ContractState]string{
	invpkg.ContractOpen: "open", invpkg.ContractAccepted: "accepted",
	invpkg.ContractSettled: "settled", invpkg.ContractCanceled: "canceled",
}
var c15HtlcStates = map[invpkg.HtlcState]string{
	invpkg.HtlcStateAccepted: "accepted", invpkg.HtlcStateSettled: "settled",
	invpkg.HtlcStateCanceled: "canceled",
}

func (r *c15Run) snapshot(rec verifkit.Rec) {
	out := make([]verifkit.Rec, 2)
	for k := 0; k < 2; k++ {
		hs := make([]verifkit.Rec, c15NC)
		for c := range hs {
			hs[c] = verifkit.Rec{"st": "none", "amt": 0, "tot": 0, "ah": 0, "exp": 0, "at": 0}
		}
		one := verifkit.Rec{"ex": 0, "st": "open", "paid": 0, "rem": 0, "extra": 0, "h": hs}
		// read back from the store, not through the registry
		inv, err := r.idb.LookupInvoice(context.Background(), invpkg.InvoiceRefByHash(r.hash[k]))
		if err == nil {
			one["ex"] = 1
			one["st"] = c15States[inv.State]
			one["paid"] = int(inv.AmtPaid / c15Unit)
			one["rem"] = int(inv.AmtPaid % c15Unit)
			extra := 0
			for key, h := range inv.Htlcs {
				c, ok := r.keyIdx[key]
				if !ok {
					extra++ // an HTLC under a circuit key that was never used
					continue
				}
				at := -1
				for j := 0; j <= r.tick; j++ {
					if h.AcceptTime.Equal(r.c15Time(j)) {
						at = j
					}
				}
				hs[c-1] = verifkit.Rec{"st": c15HtlcStates[h.State], "amt": int(h.Amt / c15Unit),
					"tot": int(h.MppTotalAmt / c15Unit), "ah": int(h.AcceptHeight) - c15BaseHeight,
					"exp": int(h.Expiry) - c15BaseHeight, "at": at}
			}
			one["extra"] = extra
		}
		out[k] = one
	}
	rec["inv"] = out
}

func c15Blank(rec verifkit.Rec) {
	rec["res"], rec["why"], rec["preok"], rec["err"] = "none", "", 1, ""
	rec["n1"], rec["n2"] = 0, 0
}

// barrier waits until the registry's event loop has run every auto-release
// timer that is due at the current clock value: the loop announces (tick
// signal) the remaining duration d of the head of its timer heap at the start
// of each pass; d > 0 computed at the current time means nothing is due any
// more.  "Computed at the current time" is decided from the value: release
// times are sentinel or T_j + hold, and the offsets of c15Time make r - d
// identify the clock value used.
func (r *c15Run) barrier() {
	now := r.c15Time(r.tick)
	// wake the loop even if no timer fired
	r.ndummy++
	pre := lntypes.Preimage(sha256.Sum256([]byte(fmt.Sprintf("dummy %d %p", r.ndummy, r))))
	inv := &invpkg.Invoice{
		Terms: invpkg.ContractTerm{Value: c15Unit, Expiry: 100 * time.Hour,
			Features: c15Features("regular"), PaymentAddr: sha256.Sum256(pre[:]),
			FinalCltvDelta: c15InvDelta, PaymentPreimage: &pre},
		CreationDate: testTime,
	}
	if _, err := r.reg.AddInvoice(context.Background(), inv, pre.Hash()); err != nil {
		r.t.Fatalf("dummy invoice: %v", err)
	}
	fresh := func(d time.Duration) bool {
		at := now.Add(d)
		if at.Equal(r.sent) {
			return true
		}
		// (no HTLC can have been accepted at the current clock value yet: a
		// remaining duration of exactly one hold period is always stale)
		for j := 0; j < r.tick; j++ {
			if at.Equal(r.c15Time(j).Add(c15Hold)) {
				return true
			}
		}
		return false
	}
	limit := 20 * time.Second
	if r.slow {
		limit = 500 * time.Millisecond
	}
	deadline := time.After(limit)
	for {
		select {
		case d := <-r.sig:
			if d > 0 && fresh(d) {
				return
			}
		case <-deadline:
			// the loop never came to rest: record what there is (the trace
			// spec decides), and do not wait that long again
			r.slow = true
			return
		}
	}
}

func (r *c15Run) base15(ev *c15Ev, th int) verifkit.Rec {
	return verifkit.Rec{"a": ev.A, "th": th, "c": ev.C, "k": ev.K, "pl": ev.Pl, "h": ev.H, "ad": ev.Ad,
		"amt": ev.Amt, "tot": ev.Tot, "exp": ev.Exp, "set": ev.Set, "good": ev.Good, "cs": ev.Cs, "ma": ev.Ma, "ht": ev.Ht,
		"k1": r.kinds[0], "k2": r.kinds[1], "kp": r.kp, "ck": r.keyClasses()}
}

// keyClasses: the value classes of the concrete circuit keys of this run.
func (r *c15Run) keyClasses() []verifkit.Rec {
	out := make([]verifkit.Rec, c15NC)
	for c := 1; c <= c15NC; c++ {
		out[c-1] = c15KeyClass(r.keys[c])
	}
	return out
}

// step executes one sequential event and emits its record.
func (r *c15Run) step(out *verifkit.Writer, ev *c15Ev) {
	rec := r.base15(ev, 0)
	c15Blank(rec)
	ctxb := context.Background()
	switch ev.A {
	case "Notify":
		cp := *ev
		r.memo[ev.C] = &cp
		res, hash, err := r.call(ev, ev.Ht)
		r.hashOf[ev.C] = hash
		c15Describe(rec, res, err, hash)
	case "Replay":
		if r.memo[ev.C] == nil {
			r.t.Fatalf("replay of unknown circuit %d", ev.C)
		}
		// the parameters of the replayed HTLC with the interceptor client's
		// answer to this call; echo them
		p := c15Replayed(r.memo[ev.C], ev)
		for _, f := range []string{"pl", "h", "ad", "amt", "tot", "exp", "set", "good", "cs", "ma"} {
			rec[f] = r.base15(p, 0)[f]
		}
		res, hash, err := r.call(p, ev.Ht)
		c15Describe(rec, res, err, hash)
	case "Settle":
		err := r.reg.SettleHodlInvoice(ctxb, r.pre[ev.K-1])
		rec["res"] = "ok"
		if err != nil {
			rec["res"], rec["err"] = "err", err.Error()
		}
	case "Cancel":
		err := r.reg.CancelInvoice(ctxb, r.hash[ev.K-1])
		rec["res"] = "ok"
		if err != nil {
			rec["res"], rec["err"] = "err", err.Error()
		}
	case "Tick":
		r.tick++
		r.clk.SetTime(r.c15Time(r.tick))
		r.barrier()
	case "Block":
	default:
		r.t.Fatalf("unknown event %q", ev.A)
	}
	got := map[int][]c15Msg{}
	r.drain(got)
	c15Hodl(rec, got)
	r.snapshot(rec)
	out.Emit(rec)
}

// c15Replayed: the HTLC of memo sent again, the interceptor client answering as the Replay event ev says.
func c15Replayed(memo, ev *c15Ev) *c15Ev {
	p := *memo
	p.Cs, p.Ma = ev.Cs, ev.Ma
	return &p
}

// c15CsOK: the interceptor client may answer CancelSet for HTLC p aimed at a slot of kind `kind` (only for an
// HTLC whose reference is unambiguous: no MPP record / path id, or the right address).
func c15CsOK(p *c15Ev, kind string, k int) bool {
	return kind != "keysend" &&
		(p.Pl == "legacy" || ((p.Pl == "mpp" || p.Pl == "blinded" || p.Pl == "amp") && p.Ad == k))
}

// c15Stores: VERIF_STORES = "kv", "sql" or "kv,sql"; each store gets its own trace file.
func c15Stores() []string { return strings.Split(verifkit.Env("VERIF_STORES", "kv"), ",") }

// TestVerifC15Replay replays TLC-generated behaviours of spec/InvoiceRegistry.
// VERIF_SCHED = "<dir>" (part "trace") or "<part>=<dir>,<part>=<dir>": every
// part is replayed on every store and recorded in <part>_<store>.ndjson.
func TestVerifC15Replay(t *testing.T) {
	for _, item := range strings.Split(os.Getenv("VERIF_SCHED"), ",") {
		part, dir := "trace", item
		if i := strings.Index(item, "="); i >= 0 {
			part, dir = item[:i], item[i+1:]
		}
		files := verifkit.ListFiles(dir, "b_", ".ndjson")
		if len(files) == 0 {
			t.Fatalf("no schedules in %q", dir)
		}
		for _, store := range c15Stores() {
			c15Replay(t, part, store, files)
		}
	}
}

func c15Replay(t *testing.T, part, store string, files []string) {
	out := verifkit.MustWriter(verifkit.Env("VERIF_OUT", ".") + "/" + part + "_" + store + ".ndjson")
	defer out.Close()
	for fi, f := range files {
		evs, err := verifkit.ReadNDJSONInto[c15Ev](f)
		if err != nil {
			t.Fatal(err)
		}
		if len(evs) == 0 {
			continue
		}
		t.Run(fmt.Sprintf("%s-%s-b%d", part, store, fi), func(t *testing.T) {
			r := c15NewRun(t, store, evs[0].K1, evs[0].K2, evs[0].Kp, verifkit.Seed()*100003+int64(fi))
			reset := r.base15(&c15Ev{A: "Reset", Pl: "none", Set: "none", Good: 1}, 0)
			c15Blank(reset)
			reset["file"] = f
			c15Hodl(reset, map[int][]c15Msg{})
			r.snapshot(reset)
			out.Emit(reset)
			for i := range evs {
				r.step(out, &evs[i])
			}
		})
	}
}

// ---------------------------------------------------------------------------
// free-running driver

var c15Kinds = []string{"regular", "noaddr", "hold", "holdna", "zeroamt", "amp", "keysend"}
var c15KeyPatterns = []string{"plain", "alias", "chanonly", "edge", "bigid", "mixed"}

func (r *c15Run) randomHtlc(c int, ht int) *c15Ev {
	rng := r.rng
	ev := &c15Ev{A: "Notify", C: c, Set: "none", Good: 1, Ht: ht}
	k := 1 + rng.Intn(2)
	kind := r.kinds[k-1]
	need := c15InvDelta
	if kind == "keysend" {
		need = c15RejectDelta
	}
	amts := []int{3, 2, 4, 5}
	ev.Amt = amts[rng.Intn(4)]
	margin := 0
	switch rng.Intn(8) {
	case 0:
		margin = -1
	case 1:
		margin = 1
	}
	ev.Exp = ht + need + margin
	// an HTLC that has already expired: one, ten or ninety blocks below the
	// current height (re-forwarded after downtime / malicious peer)
	if rng.Intn(7) == 0 {
		ev.Exp = ht - []int{1, 10, 90}[rng.Intn(3)]
	}
	likely := rng.Intn(10) < 7
	switch {
	case kind == "keysend" && rng.Intn(3) > 0:
		ev.Pl, ev.H = "keysend", k
		if !likely && rng.Intn(2) == 0 {
			ev.Good = 0
		}
	case kind == "amp" && (likely || rng.Intn(2) == 0):
		ev.Pl, ev.Ad = "amp", k
		ev.Set = []string{"s1", "s2"}[rng.Intn(2)]
		if likely {
			if c == 3 {
				ev.Set = "s2"
			} else if c <= 2 {
				ev.Set = "s1"
			}
		}
		ev.Tot = 4 + rng.Intn(2)
		member := (ev.Set == "s1" && c <= 2) || (ev.Set == "s2" && c == 3)
		ev.Good = 0
		if member && (likely || rng.Intn(2) == 0) {
			ev.Good = 1
		}
		if !likely && rng.Intn(3) == 0 {
			ev.Ad = rng.Intn(3)
		}
	case (kind == "noaddr" || kind == "holdna" || kind == "keysend") && rng.Intn(2) == 0:
		ev.Pl, ev.H = "legacy", k
	default:
		ev.Pl, ev.H, ev.Ad = "mpp", k, k
		if rng.Intn(3) == 0 {
			ev.Pl = "blinded"
		}
		ev.Tot = 4 + rng.Intn(2)
		if !likely {
			switch rng.Intn(4) {
			case 0:
				ev.Ad = 0
			case 1:
				ev.Ad = 3 - k
			case 2:
				ev.Tot = 3
			case 3:
				ev.Pl, ev.Ad, ev.Tot = "legacy", 0, 4*rng.Intn(2)
			}
		}
	}
	// the interceptor client cancels the set (only for an HTLC whose reference
	// is unambiguous: no MPP record / path id, or the right address)
	if rng.Intn(12) == 0 && c15CsOK(ev, kind, k) {
		ev.Cs = 1
	}
	// ... or replaces the amount
	if rng.Intn(10) == 0 {
		ev.Ma = amts[rng.Intn(4)]
	}
	return ev
}

// randomReplay: the HTLC of circuit c is sent again; the interceptor client repeats its first answer (2/3) or
// answers CancelSet / a modified amount at random.
func (r *c15Run) randomReplay(c, ht int) *c15Ev {
	m := r.memo[c]
	ev := &c15Ev{A: "Replay", C: c, Pl: "none", Set: "none", Good: 1, Ht: ht, Cs: m.Cs, Ma: m.Ma}
	if r.rng.Intn(3) == 0 {
		k := m.H
		if m.Pl == "amp" {
			k = m.Ad
		}
		ev.Cs, ev.Ma = 0, 0
		if k >= 1 && k <= 2 && c15CsOK(m, r.kinds[k-1], k) && r.rng.Intn(2) == 0 {
			ev.Cs = 1
		}
		if r.rng.Intn(2) == 0 {
			ev.Ma = []int{3, 2, 4, 5}[r.rng.Intn(4)]
		}
	}
	return ev
}

// TestVerifC15Free: seeded random histories in which two links notify the
// registry concurrently.  A block is recorded as
//
//	Par(n1,n2), n1 records of link 1, n2 records of link 2, Join(snapshot)
//
// and the trace spec looks for an interleaving that explains every answer.
func TestVerifC15Free(t *testing.T) {
	for _, store := range c15Stores() {
		c15Free(t, store)
	}
}

func c15Free(t *testing.T, store string) {
	out := verifkit.MustWriter(verifkit.Env("VERIF_OUT", ".") + "/free_" + store + ".ndjson")
	defer out.Close()
	runs := verifkit.EnvInt("VERIF_RUNS", 40)
	for n := 0; n < runs; n++ {
		t.Run(fmt.Sprintf("%s-f%d", store, n), func(t *testing.T) {
			seed := verifkit.Seed()*7919 + int64(n)
			rng := rand.New(rand.NewSource(seed))
			k1 := c15Kinds[rng.Intn(len(c15Kinds))]
			k2 := c15Kinds[rng.Intn(len(c15Kinds))]
			kp := c15KeyPatterns[rng.Intn(len(c15KeyPatterns))]
			r := c15NewRun(t, store, k1, k2, kp, seed)
			reset := r.base15(&c15Ev{A: "Reset", Pl: "none", Set: "none", Good: 1}, 0)
			c15Blank(reset)
			reset["file"] = fmt.Sprintf("free-%d-%d", verifkit.Seed(), n)
			c15Hodl(reset, map[int][]c15Msg{})
			r.snapshot(reset)
			out.Emit(reset)

			ht := 0
			used := map[int]bool{}
			for phase := 0; phase < 3; phase++ {
				// a concurrent block: link 1 owns circuits 1,2; link 2 owns 3,4
				ops := [3][]*c15Ev{}
				for link := 1; link <= 2; link++ {
					cs := []int{2*link - 1, 2 * link}
					nops := 1 + rng.Intn(3)
					for i := 0; i < nops; i++ {
						c := cs[rng.Intn(2)]
						if m := r.memo[c]; m != nil {
							ops[link] = append(ops[link], r.randomReplay(c, ht))
							continue
						}
						ev := r.randomHtlc(c, ht)
						r.memo[c] = ev
						used[c] = true
						ops[link] = append(ops[link], ev)
					}
				}
				par := r.base15(&c15Ev{A: "Par", Pl: "none", Set: "none", Good: 1, Ht: ht}, 0)
				c15Blank(par)
				par["n1"], par["n2"] = len(ops[1]), len(ops[2])
				c15Hodl(par, map[int][]c15Msg{})
				r.snapshot(par)
				out.Emit(par)
				recs := [3][]verifkit.Rec{}
				var wg sync.WaitGroup
				start := make(chan struct{})
				for link := 1; link <= 2; link++ {
					wg.Add(1)
					go func(link int) {
						defer wg.Done()
						<-start
						for _, ev := range ops[link] {
							p := r.memo[ev.C]
							if ev.A == "Replay" {
								p = c15Replayed(p, ev)
							}
							rec := r.base15(ev, link)
							for _, f := range []string{"pl", "h", "ad", "amt", "tot", "exp", "set", "good", "cs", "ma"} {
								rec[f] = r.base15(p, 0)[f]
							}
							c15Blank(rec)
							res, hash, err := r.call(p, ht)
							c15Describe(rec, res, err, hash)
							recs[link] = append(recs[link], rec)
						}
					}(link)
				}
				// hashOf must be known before messages are drained
				for link := 1; link <= 2; link++ {
					for _, ev := range ops[link] {
						p := r.memo[ev.C]
						r.hashOf[ev.C] = r.hashFor(p)
					}
				}
				close(start)
				wg.Wait()
				empty := map[int][]c15Msg{}
				for link := 1; link <= 2; link++ {
					for _, rec := range recs[link] {
						c15Hodl(rec, empty)
						rec["inv"] = par["inv"]
						out.Emit(rec)
					}
				}
				join := r.base15(&c15Ev{A: "Join", Pl: "none", Set: "none", Good: 1, Ht: ht}, 0)
				c15Blank(join)
				got := map[int][]c15Msg{}
				r.drain(got)
				c15Hodl(join, got)
				r.snapshot(join)
				out.Emit(join)

				// sequential interlude
				for i, n := 0, rng.Intn(3); i < n; i++ {
					ev := &c15Ev{Pl: "none", Set: "none", Good: 1, Ht: ht}
					switch rng.Intn(6) {
					case 0, 1:
						ev.A = "Tick"
					case 2:
						ev.A = "Block"
						ht++
						ev.Ht = ht - 1
					case 3:
						ev.A, ev.K = "Settle", 1+rng.Intn(2)
					case 4:
						ev.A, ev.K = "Cancel", 1+rng.Intn(2)
					case 5:
						var cs []int
						for c := range used {
							cs = append(cs, c)
						}
						if len(cs) == 0 {
							continue
						}
						sortInts(cs)
						ev = r.randomReplay(cs[rng.Intn(len(cs))], ht)
					}
					r.step(out, ev)
				}
			}
		})
	}
}

func sortInts(a []int) {
	for i := 1; i < len(a); i++ {
		for j := i; j > 0 && a[j] < a[j-1]; j-- {
			a[j], a[j-1] = a[j-1], a[j]
		}
	}
}

// hashFor is the payment hash the HTLC described by p carries.
func (r *c15Run) hashFor(p *c15Ev) lntypes.Hash {
	if p.Pl == "amp" {
		if ch, ok := r.sets[p.Set].children[p.C]; ok {
			return ch.Hash
		}
		return sha256.Sum256([]byte(fmt.Sprintf("hash %s %d", p.Set, p.C)))
	}
	return r.hash[p.H-1]
}
