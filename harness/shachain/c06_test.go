//go:build verif

package shachain

import (
	"bytes"
	"crypto/sha256"
	"encoding/binary"
	"os"
	"testing"

	"github.com/btcsuite/btcd/chainhash/v2"
	"github.com/lightningnetwork/lnd/internal/verifkit"
)

// c06Event is one step of a TLC-generated Shachain behaviour.
type c06Event struct {
	A    string `json:"a"`
	Good int    `json:"good"`
	I    []int  `json:"i"` // index bits, least significant first
}

func c06Bits(v uint64, h int) []int {
	out := make([]int, h)
	for b := 0; b < h; b++ {
		out[b] = int((v >> uint(b)) & 1)
	}
	return out
}

// TestVerifC06Shachain replays TLC-generated behaviours of spec/Shachain on
// the real RevocationStore / RevocationProducer and records what the code
// answered.  It contains no judgement: ShachainTrace.tla is the judge.
func TestVerifC06Shachain(t *testing.T) {
	dir := os.Getenv("VERIF_SCHED")
	h := verifkit.EnvInt("VERIF_H", 5)
	out := verifkit.MustWriter(verifkit.Env("VERIF_OUT", ".") + "/trace.ndjson")
	defer out.Close()

	base := (uint64(1) << maxHeight) - (uint64(1) << uint(h)) // model index m <-> real index base+m
	mask := (uint64(1) << uint(h)) - 1

	files := verifkit.ListFiles(dir, "b_", ".ndjson")
	if len(files) == 0 {
		t.Fatalf("no schedules in %q", dir)
	}
	for fi, f := range files {
		evs, err := verifkit.ReadNDJSONInto[c06Event](f)
		if err != nil {
			t.Fatal(err)
		}
		var root chainhash.Hash
		rb := sha256.Sum256([]byte{byte(fi), byte(fi >> 8), byte(verifkit.Seed())})
		copy(root[:], rb[:])
		producer := NewRevocationProducer(root)
		store := NewRevocationStore()
		ncorrupt := 0

		out.Emit(verifkit.Rec{"a": "Reset", "file": f})
		for _, ev := range evs {
			var m uint64
			for b, bit := range ev.I {
				m |= uint64(bit) << uint(b)
			}
			rec := verifkit.Rec{"a": ev.A, "good": ev.Good, "i": ev.I}
			switch ev.A {
			case "Load":
				// canonical all-good store with next index = m, built from
				// producer-derived elements and loaded through the decoder
				var buf bytes.Buffer
				type el struct {
					idx  uint64
					hash chainhash.Hash
				}
				els := make([]*el, maxHeight)
				nb := 0
				for b := 0; b < int(maxHeight); b++ {
					step := uint64(1) << uint(b+1)
					j := (m>>uint(b+1))*step + (uint64(1) << uint(b))
					if j <= m {
						j += step
					}
					if j >= (uint64(1) << maxHeight) {
						continue
					}
					hh, err := producer.AtIndex(uint64(startIndex) - j)
					if err != nil {
						t.Fatal(err)
					}
					els[b] = &el{j, *hh}
					nb = b + 1
				}
				buf.WriteByte(byte(nb))
				for b := 0; b < nb; b++ {
					var e el
					if els[b] != nil {
						e = *els[b]
					}
					binary.Write(&buf, binary.BigEndian, e.idx)
					buf.Write(e.hash[:])
				}
				binary.Write(&buf, binary.BigEndian, m)
				s2, err := NewRevocationStoreFromBytes(&buf)
				rec["ok"] = 1
				if err != nil {
					rec["ok"] = 0
					rec["err"] = err.Error()
				} else {
					store = s2
				}

			case "Add":
				real := uint64(store.index)
				good, err := producer.AtIndex(uint64(startIndex) - real)
				if err != nil {
					t.Fatal(err)
				}
				v := *good
				if ev.Good == 0 {
					ncorrupt++
					switch ncorrupt % 3 {
					case 0: // single bit flip
						v[ncorrupt%32] ^= 1 << uint(ncorrupt%8)
					case 1: // out of order: the secret of the previous index
						o, err := producer.AtIndex(uint64(startIndex) - real - 1 + 2*uint64(ncorrupt%2))
						if err == nil && real != uint64(startIndex) {
							v = *o
						} else {
							v = chainhash.Hash(sha256.Sum256(v[:]))
						}
					default: // unrelated bytes
						v = chainhash.Hash(sha256.Sum256(v[:]))
					}
				}
				err = store.AddNextEntry(&v)
				rec["ok"] = 1
				if err != nil {
					rec["ok"] = 0
					rec["err"] = err.Error()
				}

			case "Codec":
				var buf bytes.Buffer
				rec["ok"] = 1
				if err := store.Encode(&buf); err != nil {
					rec["ok"] = 0
				}
				s2, err := NewRevocationStoreFromBytes(&buf)
				if err != nil {
					rec["ok"] = 0
					rec["err"] = err.Error()
				} else {
					store = s2
				}

			case "Lookup":
				real := base + m
				if h == int(maxHeight) {
					real = m
				}
				got, err := store.LookUp(uint64(startIndex) - real)
				rec["ok"] = 1
				rec["isgood"] = 0
				if err != nil {
					rec["ok"] = 0
				} else {
					want, _ := producer.AtIndex(uint64(startIndex) - real)
					if got.IsEqual(want) {
						rec["isgood"] = 1
					}
				}
			}
			// "the secrets it sends follow its own derivation chain": what the
			// producer returns for the next index is compared with an independent
			// BOLT-3 derivation from the seed - before and after the caller has
			// flipped a bit of the returned value in place (as ChanSyncMsg does for
			// a restored channel): the producer's answers are values, not views
			rec["pexact"] = 1
			pv := uint64(startIndex) - uint64(store.index)
			if pv > uint64(startIndex) {
				pv = 0
			}
			for k := 0; k < 2; k++ {
				got, perr := producer.AtIndex(pv)
				if perr != nil {
					break
				}
				if *got != c06RefSecret(root, pv) {
					rec["pexact"] = 0
				}
				got[0] ^= 1
			}
			var enc bytes.Buffer
			store.Encode(&enc)
			rec["nb"] = int(store.lenBuckets)
			rec["nidx"] = c06Bits(uint64(store.index)&mask, h)
			rec["hi"] = uint64(store.index) >> uint(h) // must stay all ones below 2^48 for H<48
			rec["enc"] = enc.Len()
			out.Emit(rec)
		}
	}
}

// c06RefSecret: generate_from_seed of BOLT 3, written independently of the
// package's element.derive (seed = secret of index 2^48-1 - v).
func c06RefSecret(root chainhash.Hash, v uint64) chainhash.Hash {
	to := (uint64(1)<<48 - 1) - v
	buf := [32]byte(root)
	for b := 47; b >= 0; b-- {
		if (to>>uint(b))&1 == 1 {
			buf[b/8] ^= 1 << uint(b%8)
			buf = sha256.Sum256(buf[:])
		}
	}
	return chainhash.Hash(buf)
}
