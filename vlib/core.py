"""Orchestrator core for the lnd TLA+ verification framework (DESIGN.md §2).

Everything a per-property module needs: TLC / Apalache runners (scratch copy,
own metadir, timeout, parsed statistics), the `go test -overlay` runner that
injects executors from /verif/harness into /repo's *current working tree*, the
evidence writer, known-findings handling, and the exit-code contract

    0  property held on everything explored
    1  a line `VIOLATION property=<id> replay=<path>` was printed
    2  inconclusive (tool failure, timeout, dead driver) - never a violation
"""
import glob
import hashlib
import json
import os
import re
import shutil
import subprocess
import sys
import time

VERIF = os.path.dirname(os.path.dirname(os.path.abspath(__file__)))
REPO = os.environ.get("VERIF_REPO", "/repo")
KIT_DIR = os.path.join(VERIF, "harness", "kit")
KIT_VPATH = "internal/verifkit"
NCPU = os.cpu_count() or 4

GOENV = {
    "GOFLAGS": "-mod=mod",
    "GOPROXY": "off",
    "GOTOOLCHAIN": "auto",
}


def _go_env():
    """/repo needs go 1.25.13; the default go (1.23.5) switches to the cached toolchain offline under
    GOTOOLCHAIN=auto unless GOSUMDB=off is set. Prefer the cached toolchain's own binary when present."""
    e = dict(GOENV)
    want = None
    try:
        for line in open(os.path.join(REPO, "go.mod")):
            m = re.match(r"^go (\d+\.\d+(\.\d+)?)", line)
            if m:
                want = m.group(1)
    except OSError:
        pass
    if want:
        for root in (os.path.expanduser("~/go/pkg/mod"), "/root/go/pkg/mod"):
            b = os.path.join(root, "golang.org", "toolchain@v0.0.1-go%s.linux-amd64" % want, "bin")
            if os.path.exists(os.path.join(b, "go")):
                e["PATH"] = b + ":" + os.environ.get("PATH", "")
                e["GOTOOLCHAIN"] = "local"
                break
    if os.environ.get("GOSUMDB") == "off" and e["GOTOOLCHAIN"] == "auto":
        e["GOSUMDB"] = "sum.golang.org"
    return e


class Inconclusive(Exception):
    pass


def log(msg):
    print(msg, flush=True)


def sh(cmd, cwd=None, env=None, timeout=None, outfile=None):
    """Run a command; returns (rc, output). rc = 124 on timeout."""
    e = dict(os.environ)
    if env:
        e.update({k: str(v) for k, v in env.items()})
    t0 = time.time()
    try:
        if outfile:
            with open(outfile, "w") as fo:
                p = subprocess.run(cmd, cwd=cwd, env=e, stdout=fo, stderr=subprocess.STDOUT,
                                   timeout=timeout, shell=isinstance(cmd, str))
            with open(outfile, errors="replace") as fi:
                out = fi.read()
        else:
            p = subprocess.run(cmd, cwd=cwd, env=e, stdout=subprocess.PIPE, stderr=subprocess.STDOUT,
                               timeout=timeout, shell=isinstance(cmd, str))
            out = p.stdout.decode(errors="replace")
        return p.returncode, out, time.time() - t0
    except subprocess.TimeoutExpired as ex:
        out = ""
        if outfile and os.path.exists(outfile):
            with open(outfile, errors="replace") as fi:
                out = fi.read()
        elif ex.stdout:
            out = ex.stdout.decode(errors="replace")
        return 124, out, time.time() - t0


class TLCResult:
    def __init__(self):
        self.rc = None
        self.ok = False            # finished without any violation/error
        self.violation = None      # 'invariant X' | 'deadlock' | 'property X' | 'assert' ...
        self.error = None          # tool-level error (parse error, OOM, timeout)
        self.generated = 0
        self.distinct = 0
        self.depth = 0
        self.out = ""
        self.wall = 0.0
        self.dir = None
        self.cmd = ""
        self.cex = None            # text of the counterexample (last states)
        self.coverage_zero = []    # actions never taken (-coverage runs)

    def summary(self):
        return dict(generated=self.generated, distinct=self.distinct, depth=self.depth,
                    wall_s=round(self.wall, 1), violation=self.violation, error=self.error)


def parse_tlc(out, r):
    m = None
    for m in re.finditer(r"(\d+) states generated, (\d+) distinct states found", out):
        pass
    if m:
        r.generated, r.distinct = int(m.group(1)), int(m.group(2))
    m = re.search(r"The depth of the complete state graph search is (\d+)", out)
    if m:
        r.depth = int(m.group(1))
    else:
        ds = [int(x) for x in re.findall(r"depth of the complete state graph search is (\d+)", out)]
        if ds:
            r.depth = ds[-1]
    m = re.search(r"Invariant (\S+) is violated", out)
    if m:
        r.violation = "invariant " + m.group(1)
    elif "Deadlock reached" in out:
        r.violation = "deadlock"
    elif re.search(r"Temporal properties were violated|Action property (\S+) is violated", out):
        m2 = re.search(r"Action property (\S+) is violated", out)
        r.violation = "property " + (m2.group(1) if m2 else "temporal")
    elif "The first argument of Assert evaluated to FALSE" in out:
        r.violation = "assert"
    elif re.search(r"Error: The postcondition|[Pp]ostcondition.*violated|POSTCONDITION.*FALSE", out):
        r.violation = "postcondition"
    elif re.search(r"Error: Evaluating invariant (\S+) failed", out):
        r.error = "evaluation error in invariant"
    if r.violation is None and r.error is None:
        if re.search(r"Model checking completed. No error has been found", out) or \
           re.search(r"Finished in ", out) and "Error:" not in out:
            r.ok = True
        elif "Error:" in out or "Exception" in out:
            m = re.search(r"Error: (.*)", out)
            r.error = (m.group(1) if m else "unknown TLC error")[:300]
    if r.violation:
        i = out.find("Error:")
        r.cex = out[i:] if i >= 0 else None
    return r


class Check:
    """One run of one property check."""

    def __init__(self, pid, tier, seed, level="model_checking"):
        self.pid = pid
        self.tier = tier
        self.seed = seed
        self.level = level
        self.t0 = time.time()
        self.out = os.path.join(VERIF, "out", pid + os.environ.get("VERIF_OUT_SUFFIX", ""))
        # clean scratch but keep stored violations of earlier runs
        if os.path.isdir(self.out):
            for n in os.listdir(self.out):
                if not n.startswith("violation-"):
                    p = os.path.join(self.out, n)
                    shutil.rmtree(p, ignore_errors=True) if os.path.isdir(p) else os.remove(p)
        os.makedirs(self.out, exist_ok=True)
        self.nrun = 0
        self.cov = dict(states=0, transitions=0, traces_validated_against_impl=0,
                        evaluations=0, distinct_nontrivial=0, rule="", samples=[],
                        checker_cmd="", trusted_base=[], model_runs=[], impl_runs=[],
                        validations=[], exhaustive=False)
        self.assumptions = []
        self.violations = []   # (key, what, replay)
        self.known_hits = []
        self.notes = []
        self.findings = load_findings()

    # ------------------------------------------------------------------ TLC
    def scratch(self, name):
        self.nrun += 1
        d = os.path.join(self.out, "%02d_%s" % (self.nrun, name))
        os.makedirs(d, exist_ok=True)
        return d

    def tlc(self, spec_dir, module, cfg, name=None, mode="mc", workers=None, timeout=900,
            files=None, extra=None, constants=None, env=None, heap=None, dfs=False,
            sim_num=None, sim_depth=None, coverage=False, deadlock=None):
        """Run TLC on a scratch copy of spec_dir.

        mode: 'mc' exhaustive, 'sim' simulation (sim_num behaviours of sim_depth),
              'trace' validation (workers=1).
        files: {name: path} extra files copied into the scratch dir (trace.ndjson ...).
        constants: {NAME: tla-text} substituted for lines `NAME = ...` / `NAME <- ...` in the cfg.
        """
        d = self.scratch(name or (module + "_" + mode))
        for f in glob.glob(os.path.join(spec_dir, "*.tla")) + glob.glob(os.path.join(spec_dir, "*.cfg")):
            shutil.copy(f, d)
        for n, p in (files or {}).items():
            dst = os.path.join(d, n)
            if os.path.abspath(p) != os.path.abspath(dst):
                try:
                    os.link(p, dst)
                except OSError:
                    shutil.copy(p, dst)
        cfgp = os.path.join(d, cfg)
        if constants:
            txt = open(cfgp).read()
            for k, v in constants.items():
                txt, n = re.subn(r"(?m)^(\s*%s\s*(=|<-)\s*).*$" % re.escape(k),
                                 lambda m: m.group(1) + str(v), txt)
                if n == 0:
                    raise Inconclusive("constant %s not in %s" % (k, cfg))
            open(cfgp, "w").write(txt)
        if workers is None:
            workers = 1 if mode in ("trace", "sim") else NCPU
        cmd = ["java", "-XX:+UseParallelGC", "-Xss64m"]
        if heap is None:
            heap = os.environ.get("VERIF_TLC_HEAP") or ("8g" if mode == "mc" else "4g")
        cmd.append("-Xmx" + heap)
        if dfs:
            cmd.append("-Dtlc2.tool.queue.IStateQueue=StateDeque")
        cmd += ["-cp", "/opt/veriftools/tla/tla2tools.jar:/opt/veriftools/tla/CommunityModules-deps.jar",
                "tlc2.TLC", "-workers", str(workers), "-metadir", os.path.join(d, "meta"),
                "-config", cfg, "-nowarning"]
        if mode == "sim":
            cmd += ["-simulate", "num=%d" % (sim_num or 100), "-depth", str(sim_depth or 100),
                    "-seed", str(self.seed)]
        if coverage:
            cmd += ["-coverage", "1"]
        if deadlock is False:
            cmd += ["-deadlock"]
        cmd += list(extra or [])
        cmd += [module + ".tla"]
        r = TLCResult()
        r.dir = d
        r.cmd = " ".join(cmd)
        rc, out, wall = sh(cmd, cwd=d, timeout=timeout, env=env, outfile=os.path.join(d, "tlc.out"))
        r.rc, r.out, r.wall = rc, out, wall
        shutil.rmtree(os.path.join(d, "meta"), ignore_errors=True)
        if rc == 124:
            subprocess.run("pkill -f 'tlc2.TL[C].*%s'" % re.escape(d), shell=True)
            r.error = "timeout after %ds" % timeout
            return r
        parse_tlc(out, r)
        if "OutOfMemoryError" in out:
            r.error, r.violation, r.ok = "out of memory", None, False
        if "StackOverflowError" in out:
            r.error, r.violation, r.ok = "stack overflow", None, False
        if rc in (137, -9, 134, 139, 143, -15) or (
                mode in ("mc", "trace") and not r.ok and r.violation is None and r.error is None):
            # killed (kernel OOM killer, signal) or ended without TLC's closing verdict:
            # never "0 states / ok"
            r.error, r.ok = "TLC ended without a verdict (exit status %s)" % rc, False
        if coverage:
            r.coverage_zero = sorted(set(re.findall(r"<(\w+) line \d+, col \d+ to line \d+, col \d+ of module \w+>: 0:0", out)))
        return r

    def model_check(self, spec_dir, module, cfg, what, must_hold=True, **kw):
        """Exhaustive TLC run whose statistics go to the evidence. A violation
        of the committed spec's own invariants is inconclusive for the code
        (it is a spec problem) unless must_hold is False (the caller interprets it)."""
        r = self.tlc(spec_dir, module, cfg, mode="mc", **kw)
        self.cov["model_runs"].append(dict(what=what, module=module, cfg=cfg, **r.summary()))
        if not self.cov["checker_cmd"]:
            self.cov["checker_cmd"] = r.cmd
        self.cov["states"] += r.distinct
        self.cov["transitions"] += r.generated
        log("  [mc] %s: %d generated / %d distinct, depth %d, %.0fs %s" % (
            what, r.generated, r.distinct, r.depth, r.wall, r.violation or r.error or "ok"))
        if r.error:
            raise Inconclusive("TLC failed on %s/%s: %s\n%s" % (module, cfg, r.error, r.out[-3000:]))
        if must_hold and r.violation:
            raise Inconclusive("spec %s/%s violates its own %s (spec problem, not a verdict about the code)\n%s"
                               % (module, cfg, r.violation, (r.cex or "")[:6000]))
        return r

    def generate(self, spec_dir, module, cfg, num, depth, constants=None, timeout=900, name=None,
                 prefix="b_"):
        """tlc -simulate on a Gen module whose invariant dumps one NDJSON behaviour per file.
        Returns the sorted list of behaviour files."""
        r = self.tlc(spec_dir, module, cfg, name=name or (module + "_gen"), mode="sim", workers=1,
                     sim_num=num, sim_depth=depth, constants=constants, timeout=timeout)
        files = sorted(glob.glob(os.path.join(r.dir, prefix + "*.ndjson")),
                       key=lambda f: int(re.sub(r"\D", "", os.path.basename(f)) or 0))
        log("  [gen] %s/%s: %d behaviours, %.0fs %s" % (module, cfg, len(files), r.wall, r.error or r.violation or ""))
        if r.error or r.violation or not files:
            raise Inconclusive("behaviour generation failed (%s/%s): %s\n%s" % (
                module, cfg, r.error or r.violation or "no behaviours", r.out[-3000:]))
        self.cov["model_runs"].append(dict(what="generate", module=module, cfg=cfg, behaviours=len(files),
                                           wall_s=round(r.wall, 1)))
        return files

    def validate(self, spec_dir, module, cfg, trace_path, constants=None, timeout=1800, name=None,
                 dfs=False, extra_files=None, trace_name="trace.ndjson"):
        """TLC trace validation of one (possibly Reset-batched) NDJSON trace file.
        Returns dict(ok, invariant, line, cex, res). Tool failures raise Inconclusive."""
        files = {trace_name: trace_path}
        files.update(extra_files or {})
        r = self.tlc(spec_dir, module, cfg, name=name or (module + "_val"), mode="trace", workers=1,
                     files=files, constants=constants, timeout=timeout, dfs=dfs)
        nlines = sum(1 for _ in open(trace_path))
        v = dict(ok=r.ok and not r.violation, invariant=None, line=None, cex=None, res=r, lines=nlines)
        self.cov["validations"].append(dict(module=module, cfg=cfg, lines=nlines, wall_s=round(r.wall, 1),
                                            result=r.violation or r.error or "accepted",
                                            states=r.distinct))
        if not self.cov.get("validator_cmd"):
            self.cov["validator_cmd"] = r.cmd
        log("  [val] %s/%s: %d lines, %d states, %.0fs -> %s" % (
            module, cfg, nlines, r.distinct, r.wall, r.violation or r.error or "accepted"))
        if r.error:
            raise Inconclusive("trace validation tool failure (%s): %s\n%s" % (module, r.error, r.out[-3000:]))
        if r.violation:
            v["invariant"] = r.violation
            ls = re.findall(r"(?m)^/\\ l = (\d+)", r.cex or "")
            if ls:
                v["line"] = int(ls[-1]) - (0 if r.violation == "deadlock" else 1)
            v["cex"] = last_state(r.cex or "")
        return v

    # ------------------------------------------------------------------ Go
    def go_test(self, pkg, run, harness, env=None, timeout=1800, race=False, moddir=None,
                name=None, kit=True, tags="verif", extra_overlay=None, count=1, gotimeout=None):
        """go test in /repo with overlay-injected files.

        pkg: './lnwallet/' (relative to moddir, default /repo)
        harness: list of files under /verif/harness/... injected into the package dir as zz_verif_<basename>
        extra_overlay: {repo-relative path: replacement file} (mutation controls / candidate repairs)
        """
        moddir = moddir or REPO
        ensure_disk()
        d = self.scratch(name or "go")
        ov = {}
        pkgdir = os.path.normpath(os.path.join(moddir, pkg))
        for h in harness:
            src = h if os.path.isabs(h) else os.path.join(VERIF, "harness", h)
            base = os.path.basename(src)
            if not base.endswith("_test.go"):
                base = base.replace(".go", "") + "_test.go"
            ov[os.path.join(pkgdir, "zz_verif_" + base)] = src
        if kit:
            for f in sorted(glob.glob(os.path.join(KIT_DIR, "*.go"))):
                ov[os.path.join(moddir, KIT_VPATH, os.path.basename(f))] = f
        for k, v in (extra_overlay or {}).items():
            ov[os.path.join(moddir, k)] = v
        # mutation controls: VERIF_MUTATION=<unified diff against /repo> compiles the mutated source in
        # through the overlay (the working tree is never touched)
        mut = os.environ.get("VERIF_MUTATION")
        if mut:
            for rel, patched in apply_mutation(mut, d).items():
                ov[os.path.join(REPO, rel)] = patched
            self.notes.append("MUTATION CONTROL RUN: " + mut)
        ovp = os.path.join(d, "overlay.json")
        json.dump({"Replace": ov}, open(ovp, "w"), indent=1)
        cmd = ["go", "test", "-vet=off", "-tags", tags, "-overlay", ovp, "-run", run,
               "-count", str(count), "-timeout", gotimeout or ("%ds" % max(60, timeout - 30))]
        if race:
            cmd.append("-race")
        cmd += ["-v", pkg]
        e = _go_env()
        e["VERIF_SEED"] = str(self.seed)
        e["VERIF_TIER"] = self.tier
        e["VERIF_OUT"] = d
        if env:
            e.update({k: str(v) for k, v in env.items()})
        rc, out, wall = sh(cmd, cwd=moddir, env=e, timeout=timeout, outfile=os.path.join(d, "go.out"))
        res = dict(rc=rc, out=out, wall=wall, dir=d, cmd=" ".join(cmd))
        self.cov["impl_runs"].append(dict(pkg=pkg, run=run, rc=rc, wall_s=round(wall, 1), race=race))
        log("  [go] %s %s: rc=%d %.0fs" % (pkg, run, rc, wall))
        if rc == 124:
            raise Inconclusive("go test timed out after %ds (%s %s)" % (timeout, pkg, run))
        if re.search(r"\[build failed\]|\[setup failed\]|cannot find package|no Go files|build constraints exclude", out):
            raise Inconclusive("harness does not build against the current tree (%s):\n%s" % (pkg, out[-4000:]))
        if "no tests to run" in out:
            raise Inconclusive("executor %s not found in %s" % (run, pkg))
        return res

    # ------------------------------------------------------------ verdicts
    def violation(self, key, what, files=None, text=None):
        """Record a violation candidate; suppressed (KNOWN-FINDING) if key is listed."""
        for f in self.findings:
            if f.get("property") == self.pid and f.get("kind") == "finding" and key_matches(f.get("key", ""), key):
                if f["key"] not in [k for k, _ in self.known_hits]:
                    self.known_hits.append((f["key"], f.get("what", what)))
                    log("KNOWN-FINDING: property=%s %s" % (self.pid, f.get("what", what)))
                return False
        k = len(glob.glob(os.path.join(self.out, "violation-*"))) + 1
        vd = os.path.join(self.out, "violation-%d" % k)
        os.makedirs(vd, exist_ok=True)
        for n, p in (files or {}).items():
            if p and os.path.exists(p):
                shutil.copy(p, os.path.join(vd, n))
        with open(os.path.join(vd, "README.txt"), "w") as fo:
            fo.write("property=%s key=%s tier=%s seed=%d\n%s\n\n%s\n" % (
                self.pid, key, self.tier, self.seed, what, text or ""))
        self.violations.append((key, what, vd))
        log("VIOLATION property=%s replay=%s" % (self.pid, vd))
        log("  key=%s :: %s" % (key, what))
        return True

    def finish(self):
        """Write the evidence and return the exit code."""
        wall = time.time() - self.t0
        cov = self.cov
        if not cov["samples"]:
            cov["samples"] = ["(no sample recorded)"]
        cov["samples"] = [x if isinstance(x, str) else json.dumps(x, separators=(",", ":"), default=str)[:4000]
                          for x in cov["samples"][:8]]
        cov["known_findings_reported"] = [k for k, _ in self.known_hits]
        cov["notes"] = self.notes
        ev = dict(property_id=self.pid, tier=self.tier, seed=self.seed, level=self.level,
                  coverage=cov, assumptions=self.assumptions, wall_s=round(wall, 1),
                  violations=len(self.violations))
        if os.environ.get("VERIF_MUTATION") or os.environ.get("VERIF_OUT_SUFFIX"):
            # control runs never overwrite the registered evidence
            with open(os.path.join(self.out, "evidence.json"), "w") as fo:
                json.dump(ev, fo, indent=1, default=str)
        else:
            write_evidence(self.pid, ev)
        if self.violations:
            return 1
        log("OK property=%s tier=%s seed=%d wall=%.0fs states=%d traces=%d evaluations=%d" % (
            self.pid, self.tier, self.seed, wall, cov["states"], cov["traces_validated_against_impl"],
            cov["evaluations"]))
        return 0


def key_matches(pattern, key):
    """A finding key is a literal or a glob ('*' wildcard) over the violation key."""
    if pattern == key:
        return True
    if "*" in pattern:
        rx = "^" + ".*".join(re.escape(x) for x in pattern.split("*")) + "$"
        return re.match(rx, key) is not None
    return False


def load_findings():
    p = os.path.join(VERIF, "known_findings.json")
    if not os.path.exists(p):
        return []
    return json.load(open(p)).get("findings", [])


def write_evidence(pid, ev):
    os.makedirs(os.path.join(VERIF, "evidence"), exist_ok=True)
    c = ev["coverage"]
    # schema sanity (the harness validates with the real schema)
    assert isinstance(c.get("samples"), list) and c["samples"]
    if ev["level"] == "model_checking":
        assert c["states"] >= 1 and c["transitions"] >= 1, "model_checking evidence needs states/transitions"
    p = os.path.join(VERIF, "evidence", pid + ".json")
    tmp = p + ".tmp"
    with open(tmp, "w") as fo:
        json.dump(ev, fo, indent=1, default=str)
    os.replace(tmp, p)


def sha(s):
    return hashlib.sha256(s.encode() if isinstance(s, str) else s).hexdigest()[:12]


def read_ndjson(path):
    out = []
    with open(path) as fi:
        for line in fi:
            line = line.strip()
            if line:
                out.append(json.loads(line))
    return out


def write_ndjson(path, recs):
    with open(path, "w") as fo:
        for r in recs:
            fo.write(json.dumps(r, separators=(",", ":")) + "\n")


def split_batches(recs, is_reset, max_bytes=20_000_000):
    """Split a concatenated trace (Reset-separated) into batches below max_bytes."""
    batches, cur, size, trace = [], [], 0, []
    def flush_trace():
        nonlocal cur, size, trace
        s = sum(len(json.dumps(x)) + 1 for x in trace)
        if cur and size + s > max_bytes:
            batches.append(cur)
            cur, size = [], 0
        cur += trace
        size += s
        trace = []
    for r in recs:
        if is_reset(r) and trace:
            flush_trace()
        trace.append(r)
    if trace:
        flush_trace()
    if cur:
        batches.append(cur)
    return batches


def main(run_fn, pid, level="model_checking"):
    """Entry used by per-property modules: parses args/env, maps exceptions to exit codes."""
    import argparse
    ap = argparse.ArgumentParser()
    ap.add_argument("--tier", default=os.environ.get("VERIF_TIER", "quick"), choices=["quick", "thorough"])
    ap.add_argument("--seed", type=int, default=int(os.environ.get("VERIF_SEED", "1") or 1))
    ap.add_argument("--replay", default=None)
    a, _ = ap.parse_known_args(sys.argv[2:])
    ck = Check(pid, a.tier, a.seed, level)
    ck.replay = a.replay
    try:
        run_fn(ck)
        rc = ck.finish()
    except Inconclusive as ex:
        log("INCONCLUSIVE property=%s: %s" % (pid, str(ex)[:8000]))
        rc = 2
    except AssertionError as ex:
        import traceback
        traceback.print_exc()
        log("INCONCLUSIVE property=%s: internal assertion: %s" % (pid, ex))
        rc = 2
    sys.exit(rc)


def last_state(cex, maxlen=12000):
    """The final state of a TLC counterexample (text)."""
    parts = re.split(r"(?m)^State \d+: ", cex)
    t = parts[-1] if len(parts) > 1 else cex
    return t[:maxlen]


def slice_trace(recs, line, is_reset):
    """Given 1-based line number in a batched trace, return (start, end) 0-based slice of the single
    trace that contains it (from its Reset line to the line before the next Reset)."""
    i = min(max(line - 1, 0), len(recs) - 1)
    a = i
    while a > 0 and not is_reset(recs[a]):
        a -= 1
    b = i + 1
    while b < len(recs) and not is_reset(recs[b]):
        b += 1
    return a, b


def apply_mutation(diff_path, scratch):
    """Apply a unified diff (paths relative to /repo, -p1 style a/ b/ or plain) to copies of the files."""
    txt = open(diff_path).read()
    files = re.findall(r"(?m)^\+\+\+ (?:b/)?(\S+)", txt)
    out = {}
    md = os.path.join(scratch, "mutation")
    os.makedirs(md, exist_ok=True)
    for rel in files:
        rel = rel.replace("/repo/", "")
        src = os.path.join(REPO, rel)
        dst = os.path.join(md, rel.replace("/", "__"))
        shutil.copy(src, dst)
        out[rel] = dst
    # apply hunks file by file
    # (a file header is a "--- " line directly followed by a "+++ " line: a removed SQL comment
    # line also starts with "--- ")
    parts = re.split(r"(?m)^(?=--- [^\n]*\n\+\+\+ )", txt)
    for part in parts:
        m = re.search(r"(?m)^\+\+\+ (?:b/)?(\S+)", part)
        if not m:
            continue
        rel = m.group(1).replace("/repo/", "")
        dst = out[rel]
        pf = dst + ".diff"
        open(pf, "w").write(part)
        rc, o, _ = sh(["patch", "-s", "-F", "3", dst, pf])
        if rc != 0:
            raise Inconclusive("mutation %s does not apply to %s: %s" % (diff_path, rel, o))
    return out


def ensure_disk(min_free_gb=20):
    """The Go build cache grows without bound under overlay/mutation/-race builds (128 GB were seen): when the
    disk runs low, drop it (costs one recompilation) rather than fail with 'no space left on device'."""
    try:
        st = os.statvfs("/")
        free = st.f_bavail * st.f_frsize / 1e9
        if free < min_free_gb:
            log("  [disk] only %.0f GB free: cleaning the Go build cache" % free)
            sh(["go", "clean", "-cache"], env=_go_env(), timeout=900)
    except OSError:
        pass
